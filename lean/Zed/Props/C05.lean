/-
  C05 — types are canonical within a context and portable across contexts.
  Property theorems only.  Tables come from Zed.Generated.C05 (regenerated from
  /repo/type.go, primitive.go, context.go on every check); the model is Zed.Model.TyContext.

  History: until /repo commits 2f4e3fba9 and f60030615 `CompareTypes` compared only the
  outermost names of two named types with one underlying type, and `LookupByValue` stored the
  caller's bytes as the type's value; the theorems on the type order, the union member order and
  `typevalue_stable` were then proved only under a guard, with the negation of the full statement
  proved on witnesses (findings C05:comparetypes…, C05:union-order…, C05:tvstable…, now `fixed`).
-/
import Zed.Model.TyContext
import Zed.Proofs.CompareTypesTrans
import Zed.Proofs.InsertionSort
import Zed.Proofs.TypeValue
import Zed.Proofs.Context
import Zed.Proofs.CtxStepsInv
namespace Zed.Props.C05
open Zed Zed.Ord Zed.Generated.C05

/-- Obligation on the regenerated tables: the nine type-value codes are pairwise distinct,
    fit a byte and are not primitive ids (so the first byte of a serialized type determines
    its constructor). -/
theorem typeValueCodes_distinct :
    [tvRecord, tvArray, tvSet, tvMap, tvUnion, tvEnum, tvError, tvNameDef, tvNameRef].Nodup ∧
    (∀ c ∈ [tvRecord, tvArray, tvSet, tvMap, tvUnion, tvEnum, tvError, tvNameDef, tvNameRef],
      idTypeComplex ≤ c ∧ c < 256) := by decide

/-- Obligation on the regenerated tables: `LookupPrimitiveByID(id).ID() = id`, every
    implemented id is below `IDTypeComplex`, and `LookupPrimitive` names exactly those types. -/
theorem primitive_tables_consistent :
    (∀ p ∈ primitiveByID, p.1 = p.2 ∧ p.1 < idTypeComplex) ∧
    (primitiveByID.map (·.1)).Nodup ∧
    (∀ e ∈ primitiveNames, e.2.2 ∈ primitiveByID.map (·.1)) ∧
    (primitiveNames.map (·.2.1)).Nodup := by decide

/-! ### the order on types (`zed.CompareTypes`) is a total order on all structural types -/

theorem compareTypes_refl (a : Ty) : cmpTy a a = .eq := cmpTy_refl a

theorem compareTypes_antisymm (a b : Ty) : cmpTy b a = (cmpTy a b).swap := cmpTy_swap a b

/-- zero only on equal types -/
theorem compareTypes_eq_iff (a b : Ty) : cmpTy a b = .eq ↔ a = b := cmpTy_eq_iff a b

theorem compareTypes_trans (a b c : Ty) : cmpTy a b ≠ .gt → cmpTy b c ≠ .gt → cmpTy a c ≠ .gt :=
  (cmpTy_STr a b c).le

def tInt : Ty := .prim 9
/-- x=(y=int64) -/
def tXY : Ty := .named [120] (.named [121] tInt)
/-- x=(z=int64) -/
def tXZ : Ty := .named [120] (.named [122] tInt)

/-- the witnesses of the former defect are now ordered (by the inner names `y` < `z`) -/
example : cmpTy tXY tXZ = .lt ∧ cmpTy (.named [120] tInt) tXY = .lt := by decide

/-! ### union member order -/

private theorem tyLess_strictTotal : StrictTotalOn tyLess (fun _ => True) where
  asymm := by
    intro a b _ _ h
    simp only [tyLess, beq_iff_eq] at h
    simp [tyLess, cmpTy_swap a b, h, Ordering.swap]
  trans_ge := by
    intro a b c _ _ _ h1 h2
    simp only [tyLess, beq_eq_false_iff_ne] at *
    exact (cmpTy_STr a b c).ge h1 h2
  antisymm := by
    intro a b _ _ h1 h2
    simp only [tyLess, beq_eq_false_iff_ne] at *
    rw [cmpTy_swap a b] at h2
    apply (cmpTy_eq_iff a b).mp
    revert h1 h2
    cases cmpTy a b <;> simp [Ordering.swap]

/-- `LookupTypeUnion` yields the same type (and the same context) for every order in which the
    members are listed -/
theorem union_order_irrelevant (c : Ctx) (ts ts' : List Ty) (hp : ts'.Perm ts) :
    c.lookupUnion ts' = c.lookupUnion ts := by
  unfold Ctx.lookupUnion sortTys
  rw [insertionSort_eq_of_perm tyLess _ tyLess_strictTotal ts ts' hp (fun _ _ => trivial)]

/-! ### serialized type values

  `Ty.wf` (Model/TyContext): implemented primitives, no duplicate field names, union members in
  the order `LookupTypeUnion` leaves them in, valid type names, and the decoder's size limits. -/

/-- the serialized type value is a function of the structure only (it is defined on `Ty`) and
    determines it: two well-formed types with the same type value are the same type -/
theorem typevalue_injective (t₁ t₂ : Ty) (w₁ : t₁.wf = true) (w₂ : t₂.wf = true)
    (h : encodeTV t₁ = encodeTV t₂) : t₁ = t₂ := encodeTV_injective t₁ t₂ w₁ w₂ h

/-- decoding the type value of a well-formed type, in *any* context that satisfies the context
    invariant and with any bytes following it, yields exactly that type and consumes exactly
    its bytes; the context keeps the invariant.  (The typedef map of the encoder is mirrored by
    the context's `typedefs` in DFS order: `Ctx.Rel` in Proofs/TypeValueRT.) -/
theorem typevalue_roundtrip (t : Ty) (w : t.wf = true) (c : Ctx) (hc : c.Inv) (rest : Bytes) :
    ∃ c', c.decode (encodeTV t ++ rest) = some (t, rest, c') ∧ c'.Inv := by
  obtain ⟨c', h, i, _, _⟩ := Ctx.decodeC_encodeTV c hc t w rest
  exact ⟨c', by simp [Ctx.decode, h], i⟩

/-- non-vacuity: a record over a named type, a map and a sorted union is well-formed -/
example : (Ty.record (.cons [97] (.named [120] tInt) (.cons [98] (.map tInt (.prim 25))
    (.cons [99] (.union (.cons tInt (.cons (.prim 25) .nil))) .nil)))).wf = true := by decide

/-! ### the context

  `Ctx.Inv c` (Proofs/ContextInv): no structure is entered twice (`byID.Nodup`), every entered
  type is well-formed, `toType` maps the canonical serialization of every entered type to that
  type and nothing else to it, every value of `toType` and `typedefs` is a type of the context,
  and the stored value of a type (`toValue`) is its canonical serialization. -/

/-- **context_canonical** (sequential): after any history of operations (record / array / set /
    map / union / enum / error / named lookups, LookupByValue with arbitrary bytes, TranslateType
    of well-formed foreign types, LookupTypeValue, LookupTypeDef — arguments being primitives or
    earlier results) the context satisfies the invariant and every result is a type of the
    context.  Operations beyond the decoder's size limits are skipped (see `Ctx.exec`). -/
theorem context_canonical (ops : List Ctx.Op) :
    (Ctx.runOps ops Ctx.empty []).1.Inv ∧ Ctx.EnvOk (Ctx.runOps ops Ctx.empty []).1 (Ctx.runOps ops Ctx.empty []).2 :=
  Ctx.runOps_good ops Ctx.empty [] Ctx.inv_empty (by intro r hr; simp at hr)

/-- two ids of a context never hold the same structure, and the ids are dense from
    `IDTypeComplex` (`lookupType (IDTypeComplex + i) = byID[i]`) -/
theorem ids_canonical (c : Ctx) (hc : c.Inv) (i j : Nat) (hi : i < c.byID.length) (hj : j < c.byID.length)
    (h : c.byID[i] = c.byID[j]) : i = j :=
  (List.getElem_inj hc.nodup).mp h

/-- looking a structure up again returns the same type and enters nothing -/
theorem lookup_idempotent (c : Ctx) (hc : c.Inv) (t : Ty) (wt : t.wf = true) (ct : t.isComplex = true) :
    (c.lookupOrEnter t).1 = t ∧
    ((c.lookupOrEnter t).2.lookupOrEnter t) = (t, (c.lookupOrEnter t).2) := by
  have sp := Ctx.lookupOrEnter_spec c hc t wt ct
  refine ⟨sp.1, ?_⟩
  have hin := sp.2.2.2.2
  have hmem : t ∈ (c.lookupOrEnter t).2.byID := hin.2.resolve_right (by simp [ct])
  exact Ctx.lookupOrEnter_hit _ t t (sp.2.1.total t hmem)

/-- **translate_roundtrip**: translating a well-formed type of another context yields the
    structurally same type, so translating there and back is the identity -/
theorem translate_roundtrip (c₁ c₂ : Ctx) (h₁ : c₁.Inv) (h₂ : c₂.Inv) (t : Ty) (w : t.wf = true) :
    (c₂.translate t).1 = some t ∧ ((c₁.translate t).1 = some t) :=
  ⟨(Ctx.translate_spec c₂ h₂ t w).1, (Ctx.translate_spec c₁ h₁ t w).1⟩

/-- the bytes `LookupTypeValue` returns are the canonical serialization of the type -/
theorem typevalue_canonical (c : Ctx) (hc : c.Inv) (t : Ty) (w : t.wf = true) (b : Bytes)
    (h : (c.lookupTypeValue t).1 = some b) : b = encodeTV t :=
  Ctx.lookupTypeValue_canonical c hc t w b h

/-- **typevalue_stable**: a type value obtained from the context never changes over any later
    history of operations (including LookupByValue with arbitrary bytes) -/
theorem typevalue_stable (c : Ctx) (hc : c.Inv) (env : Ctx.Env) (he : Ctx.EnvOk c env) (t : Ty) (w : t.wf = true)
    (b : Bytes) (h : (c.lookupTypeValue t).1 = some b) (ops : List Ctx.Op) (b' : Bytes)
    (h' : ((Ctx.runOps ops c env).1.lookupTypeValue t).1 = some b') : b' = b := by
  rw [Ctx.lookupTypeValue_canonical c hc t w b h,
    Ctx.lookupTypeValue_canonical _ (Ctx.runOps_good ops c env hc he).1 t w b' h']

/-- the witness of the former defect: after `LookupByValue` of `|[int8]|` followed by one byte the
    value of `|[int8]|` is still its canonical serialization -/
example : (((Ctx.runOps [Ctx.Op.set (.prim 6)] Ctx.empty []).1.exec [] (.byValue [32, 6, 0])).2.2.lookupTypeValue
    (.set (.prim 6))).1 = some [32, 6] := by decide

/-! ### concurrency: every interleaving of the atomic steps

  The atomic steps of the context's clients are its critical sections.  Every `Lookup*` method is one
  (`lock_shape`, regenerated); `LookupByValue` is a probe of `toType`, then `DecodeTypeValue` OUTSIDE
  the mutex — whose only accesses to the context are `Lookup*` calls, one critical section each — then
  a final critical section that stores the caller's bytes (`Ctx.storeByValue`).  A decoding thread is
  the program `Ctx.prog tv` (compiled from the bytes by the same descent as `decodeTV`; control flow
  does not depend on the context) run on a thread-local stack, one instruction per step
  (`Zed.Model.CtxSteps`); `Ctx.runSched` interleaves decoding threads and client threads (histories of
  direct `Lookup*` calls) under an arbitrary schedule. -/

def atomicMethods : List String :=
  ["LookupTypeRecord", "LookupTypeSet", "LookupTypeMap", "LookupTypeArray", "LookupTypeUnion",
   "LookupTypeEnum", "LookupTypeDef", "LookupTypeNamed", "LookupTypeError"]

def isMutexOp (e : String) : Bool := ["Lock", "Unlock", "RLock", "RUnlock", "defer Unlock", "defer RUnlock"].contains e

/-- Obligation on the regenerated table of receiver accesses: every `Lookup*` method takes the mutex
    first, releases it by `defer`, touches nothing before and calls only the `…WithLock` helpers;
    `LookupByValue` is probe / `DecodeTypeValue()` outside the mutex / store; `DecodeTypeValue`
    touches no field and no mutex and calls only the `Lookup*` methods and itself;
    `TranslateType` is `LookupByValue`. -/
theorem lock_shape :
    (atomicMethods.all fun m =>
      match lockShape.lookup m with
      | some ("Lock" :: "defer Unlock" :: rest) =>
        rest.all fun e => !isMutexOp e &&
          [".toType", ".typedefs", ".stringErr", "nextIDWithLock()", "enterWithLock()"].contains e
      | _ => false) = true ∧
    lockShape.lookup "LookupByValue" =
      some ["Lock", ".toType", "Unlock", "DecodeTypeValue()", "Lock", "defer Unlock", ".toValue", ".toValue", ".toType"] ∧
    (match lockShape.lookup "DecodeTypeValue" with
     | some es => es.all fun e => e == "DecodeTypeValue()" || (atomicMethods.map (· ++ "()")).contains e
     | none => false) = true ∧
    lockShape.lookup "TranslateType" = some ["LookupByValue()"] ∧
    lockShape.lookup "enterWithLock" = some [".toValue", ".toType", ".byID", ".byID"] ∧
    lockShape.lookup "nextIDWithLock" = some [".byID"] := by decide

/-- a decoding thread that runs alone is `DecodeTypeValue` as modelled by `decodeTV` (which the
    harness compares with the real code): same context afterwards, same result, same rest -/
theorem decode_thread_solo (c : Ctx) (tv : Bytes) (st : List Ty) :
    match c.decodeC tv with
    | (c', some (t, rest)) =>
      (Ctx.compileTV (tv.length + 1) tv).2 = some rest ∧ Ctx.runI (Ctx.prog tv).1 c st = (c', some (t :: st))
    | (c', none) =>
      (Ctx.runI (Ctx.prog tv).1 c st).1 = c' ∧ ((Ctx.prog tv).2 = true → (Ctx.runI (Ctx.prog tv).1 c st).2 = none) := by
  have h := Ctx.simTV (tv.length + 1) c tv st
  unfold Ctx.decodeC
  cases hd : Ctx.decodeTV (tv.length + 1) c tv with
  | mk c1 o =>
    rw [hd] at h
    cases o with
    | none => exact h
    | some q => obtain ⟨t, rest⟩ := q; exact h

/-- a `LookupByValue` thread that runs alone is `lookupByValue` -/
theorem lookupByValue_thread_solo (c : Ctx) (tv : Bytes) :
    ∃ n, Ctx.runD n c (Ctx.startD tv) = ((c.lookupByValue tv).2, { tv := tv, ph := .done (c.lookupByValue tv).1 }) :=
  Ctx.runD_solo c tv

/-- the threads of the statement below: one `LookupByValue(tv)` (or `TranslateType`) per `tv`, one
    client per history -/
def threadsOf (tvs : List Bytes) (clients : List (List Ctx.Op)) : List Ctx.Thread :=
  tvs.map (fun tv => .dec (Ctx.startD tv)) ++ clients.map (fun ops => .cli ops [])

/-- **context_canonical for every interleaving of the atomic steps.**  Any number of concurrent
    `LookupByValue`/`TranslateType` calls whose type values are context-independent (`progOk`: the
    bytes are well-formed, no NameRef, no step that fails — duplicate field, bad type name) and any
    number of clients making direct `Lookup*` calls (arguments: primitives or their own earlier
    results), under EVERY schedule of their atomic steps: the invariant of `context_canonical` holds
    (hence `ids_canonical`, `lookup_idempotent`, `typevalue_canonical` of the resulting context);
    every finished `LookupByValue` returned a type of the context, and for the canonical
    serialization of a well-formed type `u` it returned `u` — whatever the other threads did in
    between; every client holds types of the context. -/
theorem context_canonical_interleaved (tvs : List Bytes) (clients : List (List Ctx.Op)) (sched : List Nat)
    (hok : ∀ tv ∈ tvs, Ctx.progOk tv = true) (hat : ∀ ops ∈ clients, ∀ op ∈ ops, Ctx.Op.atomic op = true) :
    (Ctx.runSched sched Ctx.empty (threadsOf tvs clients)).1.Inv ∧
    (∀ tv t, Ctx.Thread.dec { tv := tv, ph := .done (some t) } ∈ (Ctx.runSched sched Ctx.empty (threadsOf tvs clients)).2 →
      (Ctx.runSched sched Ctx.empty (threadsOf tvs clients)).1.has t ∧ ∀ u, u.wf = true → encodeTV u = tv → t = u) ∧
    (∀ ops env, Ctx.Thread.cli ops env ∈ (Ctx.runSched sched Ctx.empty (threadsOf tvs clients)).2 →
      Ctx.EnvOk (Ctx.runSched sched Ctx.empty (threadsOf tvs clients)).1 env) := by
  have h0 : ∀ th ∈ threadsOf tvs clients, Ctx.TOk Ctx.empty th := by
    intro th hth
    simp only [threadsOf, List.mem_append, List.mem_map] at hth
    rcases hth with ⟨tv, htv, rfl⟩ | ⟨ops, hops, rfl⟩
    · exact ⟨hok tv htv, trivial⟩
    · exact ⟨fun r hr => absurd hr List.not_mem_nil, hat ops hops⟩
  have g := Ctx.runSched_ok sched Ctx.empty (threadsOf tvs clients) Ctx.inv_empty h0
  refine ⟨g.1, fun tv t hm => ?_, fun ops env hm => (g.2 _ hm).1⟩
  exact (g.2 _ hm).2 t rfl

/-- the context-independent programs are not few: a record with a named type, an array of maps of
    unions, an enum and an error type (no name occurs twice) -/
example : Ctx.progOk (encodeTV (Ty.record (.cons [102] (.named [120] tInt) (.cons [103]
    (.array (.map (.prim 25) (.union (.cons tInt (.cons (.prim 25) .nil))))) (.cons [104]
    (.error (.enum [[97], [98]])) .nil))))) = true := by decide

/-! #### what is false of the current code: a NameRef under interleaving -/

/-- Full statement `nameref_atomicity`: under interleaving of the decoders' atomic steps a
    NameRef resolves to the decoder's own preceding NameDef.  FALSE on a shared context: between
    decoder A's `LookupTypeNamed(x, int64)` and its `LookupTypeDef(x)`, decoder B's
    `LookupTypeNamed(x, string)` rebinds `x`. -/
theorem not_nameref_atomicity :
    ¬ (∀ (c : Ctx) (n : Name) (a b : Ty),
        ((c.lookupNamed n a).2.lookupNamed n b).2.lookupTypeDef n = (c.lookupNamed n a).1) := by
  intro h
  have := h Ctx.empty [120] (.prim 9) (.prim 25)
  revert this
  decide

/-- what decoder A's bytes denote: `{f:x=int64, g:x}` (its program has a NameRef: not `progOk`) -/
def uA : Ty := .record (.cons [102] (.named [120] tInt) (.cons [103] (.named [120] tInt) .nil))

/-- thread 0 = `LookupByValue` of `{f:x=int64, g:x}`, thread 1 = `LookupByValue` of `x=string`; the
    schedule  A: probe · int64 · NameDef x | B: probe · string · NameDef x | A: NameRef x ·
    LookupTypeRecord · store -/
def interleaved : Ctx :=
  (Ctx.runSched [0, 0, 0, 1, 1, 1, 0, 0, 0] Ctx.empty
    (threadsOf [encodeTV uA, encodeTV (.named [120] (.prim 25))] [])).1

/-- `context_canonical_interleaved` without `progOk` is FALSE: after that schedule the context maps
    the canonical serialization of `{f:x=int64, g:x}` to a different type, so translating that type
    into the context no longer yields it (finding C05:nameref:rebinding). -/
theorem not_context_canonical_interleaved :
    uA.wf = true ∧ Ctx.progOk (encodeTV uA) = false ∧ (interleaved.translate uA).1 ≠ some uA := by decide

end Zed.Props.C05
