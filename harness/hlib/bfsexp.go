package hlib

// Rendering of zed types and values in the s-expression syntax of the Lean model `Zed.Bf`
// (lean/Zed/Model/BfEval.lean, lean/Zed/Drv/C04.lean).

import (
	"encoding/hex"
	"fmt"
	"strings"

	zed "github.com/brimdata/super"
	"github.com/brimdata/super/zcode"
)

func bfHex(b []byte) string {
	if len(b) == 0 {
		return "-"
	}
	return hex.EncodeToString(b)
}

// BfTypeSexp renders a type structurally.
func BfTypeSexp(t zed.Type) string {
	switch t := t.(type) {
	case *zed.TypeRecord:
		var sb strings.Builder
		sb.WriteString("(rec")
		for _, f := range t.Fields {
			fmt.Fprintf(&sb, " (f %s %s)", bfHex([]byte(f.Name)), BfTypeSexp(f.Type))
		}
		sb.WriteByte(')')
		return sb.String()
	case *zed.TypeArray:
		return "(arr " + BfTypeSexp(t.Type) + ")"
	case *zed.TypeSet:
		return "(set " + BfTypeSexp(t.Type) + ")"
	case *zed.TypeMap:
		return "(map " + BfTypeSexp(t.KeyType) + " " + BfTypeSexp(t.ValType) + ")"
	case *zed.TypeUnion:
		var sb strings.Builder
		sb.WriteString("(union")
		for _, m := range t.Types {
			sb.WriteByte(' ')
			sb.WriteString(BfTypeSexp(m))
		}
		sb.WriteByte(')')
		return sb.String()
	case *zed.TypeNamed:
		return fmt.Sprintf("(named %s %s)", bfHex([]byte(t.Name)), BfTypeSexp(t.Type))
	case *zed.TypeError:
		return "(err " + BfTypeSexp(t.Type) + ")"
	case *zed.TypeEnum:
		return fmt.Sprintf("(enum %d)", len(t.Symbols))
	}
	return fmt.Sprintf("(p %d)", t.ID())
}

// BfValueSexp renders the body of a value of type t.
func BfValueSexp(t zed.Type, b zcode.Bytes) (s string, err error) {
	defer func() {
		if r := recover(); r != nil {
			err = fmt.Errorf("malformed value: %v", r)
		}
	}()
	return bfValue(t, b), nil
}

func bfValue(t zed.Type, b zcode.Bytes) string {
	if b == nil {
		return "n"
	}
	switch t := t.(type) {
	case *zed.TypeNamed:
		return bfValue(t.Type, b)
	case *zed.TypeError:
		return bfValue(t.Type, b)
	case *zed.TypeRecord:
		var sb strings.Builder
		sb.WriteString("(c")
		it := b.Iter()
		for _, f := range t.Fields {
			sb.WriteByte(' ')
			sb.WriteString(bfValue(f.Type, it.Next()))
		}
		sb.WriteByte(')')
		return sb.String()
	case *zed.TypeArray:
		return bfElems(t.Type, b)
	case *zed.TypeSet:
		return bfElems(t.Type, b)
	case *zed.TypeMap:
		var sb strings.Builder
		sb.WriteString("(c")
		for it := b.Iter(); !it.Done(); {
			sb.WriteByte(' ')
			sb.WriteString(bfValue(t.KeyType, it.Next()))
			sb.WriteByte(' ')
			sb.WriteString(bfValue(t.ValType, it.Next()))
		}
		sb.WriteByte(')')
		return sb.String()
	case *zed.TypeUnion:
		it := b.Iter()
		tagBytes := it.Next()
		tag := int(zed.DecodeInt(tagBytes))
		inner, err := t.Type(tag)
		if err != nil {
			panic(err)
		}
		return fmt.Sprintf("(c (b %s) %s)", bfHex(tagBytes), bfValue(inner, it.Next()))
	}
	return "(b " + bfHex(b) + ")"
}

func bfElems(inner zed.Type, b zcode.Bytes) string {
	var sb strings.Builder
	sb.WriteString("(c")
	for it := b.Iter(); !it.Done(); {
		sb.WriteByte(' ')
		sb.WriteString(bfValue(inner, it.Next()))
	}
	sb.WriteByte(')')
	return sb.String()
}
