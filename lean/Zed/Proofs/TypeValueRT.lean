import Zed.Proofs.DecodeUnfold
namespace Zed
open Zcode List Generated.C05
namespace Ctx

/-- the encoder's typedef map is mirrored by the context's `typedefs` -/
def Rel (ed : EncDefs) (cd : List (Name × Ty)) : Prop :=
  ∀ n x, ed.lookup n = some x → cd.lookup n = some (.named n x)

theorem Rel_cons (ed : EncDefs) (cd : List (Name × Ty)) (n : Name) (x : Ty) (h : Rel ed cd) :
    Rel ((n, x) :: ed) ((n, .named n x) :: cd) := by
  intro m y hl
  rw [lookup_cons_name] at hl ⊢
  by_cases e : m = n
  · subst e; simp only [if_true] at hl ⊢; rw [Option.some.inj hl]
  · simp only [e, if_false] at hl ⊢; exact h m y hl

theorem decodeSyms_encNames : (syms : List Name) → (rest : Bytes) → syms.all nameOk = true →
    decodeSyms syms.length (encNames syms ++ rest) = some (syms, rest)
  | [], rest, _ => by simp [decodeSyms, encNames]
  | s :: ss, rest, h => by
    simp only [all_cons, Bool.and_eq_true] at h
    simp only [length_cons, decodeSyms, encNames, append_assoc]
    rw [decodeName_encodeName s _ ((nameOk_iff s).mp h.1)]; simp only
    rw [decodeSyms_encNames ss rest h.2]

theorem fields_nameOk : (fs : Fields) → fs.wf = true → ∀ p ∈ fs.toList, nameOk p.1 = true
  | .nil, _, p, hp => by simp [Fields.toList] at hp
  | .cons n t r, w, p, hp => by
    simp only [Fields.wf, Bool.and_eq_true] at w
    simp only [Fields.toList, mem_cons] at hp
    rcases hp with rfl | hp
    · exact w.1.1
    · exact fields_nameOk r w.2 p hp

theorem has_prim (c : Ctx) (i : Nat) (w : (Ty.prim i).wf = true) : c.has (.prim i) := ⟨w, Or.inr rfl⟩

mutual
theorem rt_ty : (t : Ty) → (ed : EncDefs) → (c : Ctx) → (rest : Bytes) → (f : Nat) → t.wf = true → c.Inv →
    Rel ed c.typedefs → (encTy t ed).1.length + 1 ≤ f →
    ∃ c', decodeTV f c ((encTy t ed).1 ++ rest) = (c', some (t, rest)) ∧ c'.Inv ∧
      Rel (encTy t ed).2 c'.typedefs ∧ (∀ u, c.has u → c'.has u) ∧ c'.has t
  | .prim i, ed, c, rest, f, w, hc, hr, hf => by
    obtain ⟨f', rfl⟩ : ∃ f', f = f' + 1 := ⟨f - 1, by simp [encTy] at hf; omega⟩
    exact ⟨c, by simp only [encTy, singleton_append]; exact decodeTV_prim f' c i rest w, hc, hr, fun u h => h, has_prim c i w⟩
  | .array x, ed, c, rest, f, w, hc, hr, hf => by
    simp only [encTy, length_cons] at hf
    obtain ⟨f', rfl⟩ : ∃ f', f = f' + 1 := ⟨f - 1, by omega⟩
    simp only [Ty.wf] at w
    obtain ⟨c1, h1, i1, r1, m1, x1⟩ := rt_ty x ed c rest f' w hc hr (by omega)
    have sp := lookupArray_spec c1 i1 x x1
    refine ⟨(c1.lookupArray x).2, ?_, sp.2.1, by rw [sp.2.2.1]; exact r1, fun u h => sp.2.2.2.1 u (m1 u h), sp.2.2.2.2⟩
    simp only [encTy, cons_append]
    rw [decodeTV_array, h1]; simp only [sp.1]
  | .set x, ed, c, rest, f, w, hc, hr, hf => by
    simp only [encTy, length_cons] at hf
    obtain ⟨f', rfl⟩ : ∃ f', f = f' + 1 := ⟨f - 1, by omega⟩
    simp only [Ty.wf] at w
    obtain ⟨c1, h1, i1, r1, m1, x1⟩ := rt_ty x ed c rest f' w hc hr (by omega)
    have sp := lookupSet_spec c1 i1 x x1
    refine ⟨(c1.lookupSet x).2, ?_, sp.2.1, by rw [sp.2.2.1]; exact r1, fun u h => sp.2.2.2.1 u (m1 u h), sp.2.2.2.2⟩
    simp only [encTy, cons_append]
    rw [decodeTV_set, h1]; simp only [sp.1]
  | .error x, ed, c, rest, f, w, hc, hr, hf => by
    simp only [encTy, length_cons] at hf
    obtain ⟨f', rfl⟩ : ∃ f', f = f' + 1 := ⟨f - 1, by omega⟩
    simp only [Ty.wf] at w
    obtain ⟨c1, h1, i1, r1, m1, x1⟩ := rt_ty x ed c rest f' w hc hr (by omega)
    have sp := lookupError_spec c1 i1 x x1
    refine ⟨(c1.lookupError x).2, ?_, sp.2.1, by rw [sp.2.2.1]; exact r1, fun u h => sp.2.2.2.1 u (m1 u h), sp.2.2.2.2⟩
    simp only [encTy, cons_append]
    rw [decodeTV_error, h1]; simp only [sp.1]
  | .map k v, ed, c, rest, f, w, hc, hr, hf => by
    simp only [encTy, length_cons, length_append] at hf
    obtain ⟨f', rfl⟩ : ∃ f', f = f' + 1 := ⟨f - 1, by omega⟩
    simp only [Ty.wf, Bool.and_eq_true] at w
    obtain ⟨c1, h1, i1, r1, m1, x1⟩ := rt_ty k ed c ((encTy v (encTy k ed).2).1 ++ rest) f' w.1 hc hr (by omega)
    obtain ⟨c2, h2, i2, r2, m2, x2⟩ := rt_ty v (encTy k ed).2 c1 rest f' w.2 i1 r1 (by omega)
    have sp := lookupMap_spec c2 i2 k v (m2 k x1) x2
    refine ⟨(c2.lookupMap k v).2, ?_, sp.2.1, by rw [sp.2.2.1]; exact r2,
      fun u h => sp.2.2.2.1 u (m2 u (m1 u h)), sp.2.2.2.2⟩
    simp only [encTy, cons_append, append_assoc]
    rw [decodeTV_map, h1]; simp only; rw [h2]; simp only [sp.1]
  | .enum syms, ed, c, rest, f, w, hc, hr, hf => by
    simp only [encTy, length_cons] at hf
    obtain ⟨f', rfl⟩ : ∃ f', f = f' + 1 := ⟨f - 1, by omega⟩
    simp only [Ty.wf, Bool.and_eq_true, decide_eq_true_eq] at w
    have sp := lookupEnum_spec c hc syms w.1 w.2
    refine ⟨(c.lookupEnum syms).2, ?_, sp.2.1, by rw [sp.2.2.1]; exact hr, sp.2.2.2.1, sp.2.2.2.2⟩
    simp only [encTy, cons_append, append_assoc]
    rw [decodeTV_enum, decodeLength_uvarint _ _ (syms_length_lt w.2)]
    simp only [show ¬ syms.length > maxEnumSymbols from by omega, if_false]
    rw [decodeSyms_encNames syms rest w.1]; simp only [sp.1]
  | .record fs, ed, c, rest, f, w, hc, hr, hf => by
    simp only [encTy, length_cons, length_append] at hf
    obtain ⟨f', rfl⟩ : ∃ f', f = f' + 1 := ⟨f - 1, by omega⟩
    simp only [Ty.wf, Bool.and_eq_true, decide_eq_true_eq, Bool.not_eq_true'] at w
    obtain ⟨c1, h1, i1, r1, m1, x1⟩ := rt_fields fs ed c rest f' w.1.1 hc hr (by omega)
    have hnames : ∀ p ∈ fs.toList, nameOk p.1 = true ∧ c1.has p.2 := fun p hp => ⟨fields_nameOk fs w.1.1 p hp, x1 p hp⟩
    have sp := lookupRecord_spec c1 i1 fs.toList hnames (by rw [Fields.length_toList]; exact w.2)
      (by rw [← Fields.names_eq_map]; exact w.1.2)
    rw [Fields.ofList_toList] at sp
    refine ⟨(c1.lookupRecord fs.toList).2, ?_, sp.2.1, by rw [sp.2.2.1]; exact r1,
      fun u h => sp.2.2.2.1 u (m1 u h), sp.2.2.2.2⟩
    simp only [encTy, cons_append, append_assoc]
    rw [decodeTV_record, decodeLength_uvarint _ _ (Fields.length_lt w.2)]
    simp only [show ¬ fs.length > maxRecordFields from by omega, if_false]
    rw [h1]; simp only
    have e : c1.lookupRecord fs.toList = (some (Ty.record fs), (c1.lookupRecord fs.toList).2) := by
      rw [← sp.1]
    rw [e]
  | .union ts, ed, c, rest, f, w, hc, hr, hf => by
    simp only [encTy, length_cons, length_append] at hf
    obtain ⟨f', rfl⟩ : ∃ f', f = f' + 1 := ⟨f - 1, by omega⟩
    simp only [Ty.wf, Bool.and_eq_true, decide_eq_true_eq] at w
    have hup := uvarint_length_pos ts.length
    obtain ⟨c1, h1, i1, r1, m1, x1⟩ := rt_tys ts ed c rest f' w.1.1 hc hr (by omega)
    have sp := lookupUnion_spec c1 i1 ts.toList x1 (by rw [Tys.length_toList]; exact w.1.2)
    have hs : sortTys ts.toList = ts.toList := insertionSort_of_adjSorted tyLess _ w.2
    rw [hs, Tys.ofList_toList] at sp
    refine ⟨(c1.lookupUnion ts.toList).2, ?_, sp.2.1, by rw [sp.2.2.1]; exact r1,
      fun u h => sp.2.2.2.1 u (m1 u h), sp.2.2.2.2⟩
    simp only [encTy, cons_append, append_assoc]
    rw [decodeTV_union, decodeLength_uvarint _ _ (Tys.length_lt w.1.2)]
    simp only [show ¬ ts.length > maxUnionTypes from by omega, if_false]
    rw [h1]; simp only [sp.1]
  | .named n x, ed, c, rest, f, w, hc, hr, hf => by
    simp only [Ty.wf, Bool.and_eq_true] at w
    have hn := (nameOk_iff n).mp w.1.2
    by_cases hl : ed.lookup n = some x
    · simp only [encTy, hl, if_true, length_cons] at hf ⊢
      obtain ⟨f', rfl⟩ : ∃ f', f = f' + 1 := ⟨f - 1, by omega⟩
      have hd := hr n x hl
      have hin := hc.defs n _ hd
      refine ⟨c, ?_, hc, hr, fun u h => h, ⟨by simp [Ty.wf, w.1.1, w.1.2, w.2], Or.inl hin.1⟩⟩
      simp only [cons_append]
      rw [decodeTV_nameref, decodeName_encodeName n rest hn]
      simp only [lookupTypeDef, hd]
    · simp only [encTy, hl, if_false, length_cons, length_append] at hf ⊢
      obtain ⟨f', rfl⟩ : ∃ f', f = f' + 1 := ⟨f - 1, by omega⟩
      obtain ⟨c1, h1, i1, r1, m1, x1⟩ := rt_ty x ed c rest f' w.2 hc hr (by omega)
      have sp := lookupNamed_spec c1 i1 n x w.1.1 w.1.2 x1
      refine ⟨(c1.lookupNamed n x).2, ?_, sp.2.1, by rw [sp.2.2.1]; exact Rel_cons _ _ n x r1,
        fun u h => sp.2.2.2.1 u (m1 u h), sp.2.2.2.2⟩
      simp only [cons_append, append_assoc]
      rw [decodeTV_namedef, decodeName_encodeName n _ hn]
      simp only; rw [h1]; simp only
      have e : c1.lookupNamed n x = (some (Ty.named n x), (c1.lookupNamed n x).2) := by rw [← sp.1]
      rw [e]
theorem rt_fields : (fs : Fields) → (ed : EncDefs) → (c : Ctx) → (rest : Bytes) → (f : Nat) → fs.wf = true →
    c.Inv → Rel ed c.typedefs → (encFields fs ed).1.length + 1 ≤ f →
    ∃ c', decodeFields f fs.length c ((encFields fs ed).1 ++ rest) = (c', some (fs.toList, rest)) ∧ c'.Inv ∧
      Rel (encFields fs ed).2 c'.typedefs ∧ (∀ u, c.has u → c'.has u) ∧ ∀ p ∈ fs.toList, c'.has p.2
  | .nil, ed, c, rest, f, _, hc, hr, _ =>
    ⟨c, by cases f <;> simp [decodeFields, encFields, Fields.length, Fields.toList], hc, hr, fun u h => h,
      by simp [Fields.toList]⟩
  | .cons n x r, ed, c, rest, f, w, hc, hr, hf => by
    simp only [Fields.wf, Bool.and_eq_true] at w
    have hn := (nameOk_iff n).mp w.1.1
    have hlen : 0 < (encodeName n).length := by
      unfold encodeName; rw [length_append]; have := uvarint_length_pos n.length; omega
    simp only [encFields, length_append] at hf
    obtain ⟨f', rfl⟩ : ∃ f', f = f' + 1 := ⟨f - 1, by omega⟩
    obtain ⟨c1, h1, i1, r1, m1, x1⟩ := rt_ty x ed c ((encFields r (encTy x ed).2).1 ++ rest) f' w.1.2 hc hr (by omega)
    obtain ⟨c2, h2, i2, r2, m2, x2⟩ := rt_fields r (encTy x ed).2 c1 rest f' w.2 i1 r1 (by omega)
    refine ⟨c2, ?_, i2, r2, fun u h => m2 u (m1 u h), ?_⟩
    · simp only [encFields, Fields.length, append_assoc, decodeFields]
      rw [decodeName_encodeName n _ hn]; simp only
      rw [h1]; simp only; rw [h2]; simp only [Fields.toList]
    · intro p hp
      simp only [Fields.toList, mem_cons] at hp
      rcases hp with rfl | hp
      · exact m2 _ x1
      · exact x2 p hp
theorem rt_tys : (ts : Tys) → (ed : EncDefs) → (c : Ctx) → (rest : Bytes) → (f : Nat) → ts.wf = true →
    c.Inv → Rel ed c.typedefs → (encTys ts ed).1.length + 2 ≤ f →
    ∃ c', decodeTys f ts.length c ((encTys ts ed).1 ++ rest) = (c', some (ts.toList, rest)) ∧ c'.Inv ∧
      Rel (encTys ts ed).2 c'.typedefs ∧ (∀ u, c.has u → c'.has u) ∧ ∀ t ∈ ts.toList, c'.has t
  | .nil, ed, c, rest, f, _, hc, hr, _ =>
    ⟨c, by cases f <;> simp [decodeTys, encTys, Tys.length, Tys.toList], hc, hr, fun u h => h,
      by simp [Tys.toList]⟩
  | .cons x r, ed, c, rest, f, w, hc, hr, hf => by
    simp only [Tys.wf, Bool.and_eq_true] at w
    have hpos : 0 < (encTy x ed).1.length := by
      obtain ⟨b, e⟩ := encTy_head x ed; rw [e]; simp
    simp only [encTys, length_append] at hf
    obtain ⟨f', rfl⟩ : ∃ f', f = f' + 1 := ⟨f - 1, by omega⟩
    obtain ⟨c1, h1, i1, r1, m1, x1⟩ := rt_ty x ed c ((encTys r (encTy x ed).2).1 ++ rest) f' w.1 hc hr (by omega)
    obtain ⟨c2, h2, i2, r2, m2, x2⟩ := rt_tys r (encTy x ed).2 c1 rest f' w.2 i1 r1 (by omega)
    refine ⟨c2, ?_, i2, r2, fun u h => m2 u (m1 u h), ?_⟩
    · simp only [encTys, Tys.length, append_assoc, decodeTys]
      rw [h1]; simp only; rw [h2]; simp only [Tys.toList]
    · intro t ht
      simp only [Tys.toList, mem_cons] at ht
      rcases ht with rfl | ht
      · exact m2 _ x1
      · exact x2 t ht
end

end Ctx
end Zed
