package main

// What order does a program define on its output?  The property compares "the same sequence
// wherever the program defines an order and the same multiset elsewhere"; this file decides
// which of the two applies, conservatively, by an abstract interpretation of the plan *as
// analyzed* (the unoptimized DAG):
//
//	Seq     the output is a function of the input sequence          → compare sequences
//	Sorted  a multiset, emitted in the order of a sort spec (ties   → compare multisets and
//	        in no particular order)                                    check sortedness
//	Bag     a multiset in no particular order                       → compare multisets
//	NondetLen  which values come out depends on scheduling (head    → compare lengths only
//	        after a fan-in), how many does not
//	Nondet  even the size depends on scheduling (a filter after     → both plans must succeed or
//	        such a head, order-dependent aggregates on unordered       both fail
//	        input)

import (
	"encoding/json"
	"strings"

	"github.com/brimdata/super/compiler/ast/dag"
	"github.com/brimdata/super/order"
	. "verifharness/hlib"
)

type ordKind int

const (
	ordSeq ordKind = iota
	ordSorted
	ordBag
	ordNondetLen // which values come out depends on scheduling, how many does not
	ordNondet
)

func (k ordKind) String() string {
	return [...]string{"seq", "sorted", "bag", "nondetlen", "nondet"}[k]
}

type ordState struct {
	Kind ordKind
	Spec SortSpec // for ordSorted
}

func worse(a, b ordState) ordState {
	if b.Kind > a.Kind {
		return b
	}
	return a
}

// hasAggCall reports whether an op's expressions call an aggregate function as an
// expression (stateful across values: `put n:=count()`).
func hasAggCall(op dag.Op) bool {
	b, _ := json.Marshal(op)
	return strings.Contains(string(b), `"kind":"Agg"`)
}

var orderDependentAggs = map[string]bool{"collect": true, "any": true, "first": true, "last": true, "collect_map": true, "fuse": true, "avg": true, "sum": true}

func summarizeOrderDependent(op *dag.Summarize) bool {
	if op.Limit != 0 {
		return true
	}
	for _, a := range op.Aggs {
		if g, ok := a.RHS.(*dag.Agg); ok {
			if orderDependentAggs[g.Name] {
				// sum/avg only matter for floats; the generated inputs contain 1.5, so be
				// conservative for all of them.
				return true
			}
		} else {
			return true
		}
	}
	return false
}

func sortSpecOf(op *dag.Sort) (SortSpec, bool) {
	spec := SortSpec{NullsFirst: op.NullsFirst, Reverse: op.Reverse}
	if len(op.Args) == 0 {
		return spec, false // key guessed from the first value: depends on the order
	}
	for _, a := range op.Args {
		t, ok := a.Key.(*dag.This)
		if !ok {
			return spec, false
		}
		spec.Keys = append(spec.Keys, SortSpecKey{Path: t.Path, Desc: a.Order == order.Desc})
	}
	return spec, true
}

func ordSeqOf(seq dag.Seq, st ordState) ordState {
	for _, op := range seq {
		st = ordOp(op, st)
	}
	return st
}

func ordFan(paths []dag.Seq, st ordState) ordState {
	out := ordState{Kind: ordBag}
	for _, p := range paths {
		r := ordSeqOf(p, st)
		if r.Kind >= ordNondetLen && r.Kind > out.Kind {
			out.Kind = r.Kind
		}
	}
	return out
}

func ordOp(op dag.Op, st ordState) ordState {
	if st.Kind == ordNondetLen {
		switch op := op.(type) {
		case *dag.Pass, *dag.Sort, *dag.Head, *dag.Tail, *dag.Output, *dag.Merge, *dag.Combine:
			return st
		case *dag.Fork:
			return ordFan(op.Paths, st)
		}
		return ordState{Kind: ordNondet}
	}
	switch op := op.(type) {
	case *dag.DefaultScan, *dag.Output, *dag.Pass:
		return st
	case *dag.Filter, *dag.Cut, *dag.Drop, *dag.Put, *dag.Rename, *dag.Yield, *dag.Explode:
		if hasAggCall(op) && st.Kind != ordSeq {
			return ordState{Kind: ordNondet}
		}
		if st.Kind == ordSorted {
			// a per-value operator may change the key: what remains defined is the multiset
			if _, ok := op.(*dag.Filter); !ok {
				return ordState{Kind: ordBag}
			}
		}
		return st
	case *dag.Fuse, *dag.Shape:
		// the field order of the fused type follows the order in which fields are first seen:
		// on an input without a defined order only the number of values is defined
		if st.Kind == ordSeq || st.Kind == ordNondet {
			return st
		}
		return ordState{Kind: ordNondetLen}
	case *dag.Head, *dag.Tail:
		if st.Kind == ordSeq {
			return st
		}
		if st.Kind == ordNondet {
			return st
		}
		return ordState{Kind: ordNondetLen}
	case *dag.Uniq, *dag.Top:
		if st.Kind == ordSeq {
			return st
		}
		return ordState{Kind: ordNondet}
	case *dag.Sort:
		if st.Kind == ordNondet {
			return st
		}
		spec, ok := sortSpecOf(op)
		if st.Kind == ordSeq && ok {
			return st // stable sort of a sequence
		}
		if !ok {
			if st.Kind == ordSeq && len(op.Args) > 0 {
				return st
			}
			if len(op.Args) == 0 {
				if st.Kind == ordSeq {
					return st
				}
				return ordState{Kind: ordNondet}
			}
			return ordState{Kind: ordBag}
		}
		return ordState{Kind: ordSorted, Spec: spec}
	case *dag.Summarize:
		if st.Kind == ordNondet {
			return st
		}
		if st.Kind != ordSeq && summarizeOrderDependent(op) {
			return ordState{Kind: ordNondet}
		}
		if op.Limit != 0 {
			return ordState{Kind: ordNondet}
		}
		return ordState{Kind: ordBag}
	case *dag.Fork:
		return ordFan(op.Paths, st)
	case *dag.Scatter:
		return ordFan(op.Paths, st)
	case *dag.Mirror:
		return ordFan([]dag.Seq{op.Main, op.Mirror}, st)
	case *dag.Switch:
		var paths []dag.Seq
		for _, c := range op.Cases {
			paths = append(paths, c.Path)
		}
		return ordFan(paths, st)
	case *dag.Scope:
		return ordSeqOf(op.Body, st)
	case *dag.Over:
		if op.Body == nil {
			return st
		}
		r := ordSeqOf(op.Body, ordState{Kind: ordSeq})
		if r.Kind == ordNondet || st.Kind == ordNondet {
			return ordState{Kind: ordNondet}
		}
		if st.Kind == ordSeq && r.Kind == ordSeq {
			return st
		}
		return ordState{Kind: ordBag}
	case *dag.Join:
		if st.Kind == ordNondet {
			return st
		}
		return ordState{Kind: ordBag}
	case *dag.Merge, *dag.Combine:
		if st.Kind == ordNondet {
			return st
		}
		return ordState{Kind: ordBag}
	case *dag.PoolScan:
		return st
	}
	// anything else: a per-value operator as far as order goes, unless input is unordered
	if st.Kind == ordSeq {
		return st
	}
	if st.Kind == ordSorted {
		return ordState{Kind: ordBag}
	}
	return st
}
