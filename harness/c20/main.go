package main

// C20 — fuse is uniform, order-preserving and lossless.
//
// Sub-checks:
//   oracle (S)   the real `fuse` operator and `fuse()` aggregate through runtime.CompileQuery at
//                several fuse.MemMaxBytes settings (default, 1 = spill from the first value, small
//                limits = spill mid-stream): count/order, every output of the type the aggregate
//                reports, leaf-wise losslessness (oracle.go), spill vs no-spill equality.
//   model  (T2)  the same inputs through the Lean model (Fuser + merge + const shaper): fused
//                type, per-output type and value tree, spilled or not.

import (
	"encoding/json"
	"fmt"
	"math/rand"
	"sort"
	"strings"
	"sync"
	"time"

	"github.com/brimdata/super/runtime/sam/op/fuse"

	. "verifharness/hlib"
)

func main() { Main("C20", run) }

var defaultMemMax = fuse.MemMaxBytes

func validType(t *T) bool {
	ok := true
	walkT(t, func(x *T) {
		switch x.K {
		case "u":
			if len(x.Elems) < 2 {
				ok = false
			}
			seen := map[string]bool{}
			for _, m := range x.Elems {
				if m.Under().K == "u" || (m.Under().K == "p" && m.Under().ID == idNull) || seen[m.Sexp()] {
					ok = false
				}
				seen[m.Sexp()] = true
			}
		case "r":
			seen := map[string]bool{}
			for _, f := range x.Fields {
				if seen[f.Name] {
					ok = false
				}
				seen[f.Name] = true
			}
		}
	})
	// a name bound to two different types inside one value's type is rejected by the context
	bound := map[string]string{}
	walkT(t, func(x *T) {
		if x.K == "n" {
			s := x.Elems[0].Sexp()
			if prev, dup := bound[x.Name]; dup && prev != s {
				ok = false
			}
			bound[x.Name] = s
		}
	})
	return ok
}

// mkCase canonicalises (type, value generator) pairs into a case; ok=false if some tree is
// not a valid type.
func mkCase(name string, ts []*T, g *vgen) (Case, bool) {
	c := Case{Name: name}
	bound := map[string]string{}
	for _, t := range ts {
		if !validType(t) {
			return c, false
		}
		// one binding per type name across the whole input (a re-bound name is a different
		// named type for the context; keep the alphabet simple)
		bad := false
		walkT(t, func(x *T) {
			if x.K == "n" {
				s := x.Elems[0].Sexp()
				if prev, dup := bound[x.Name]; dup && prev != s {
					bad = true
				}
				bound[x.Name] = s
			}
		})
		if bad {
			return c, false
		}
		ct, err := canonIn(t, &V{Null: true})
		if err != nil {
			return c, false
		}
		v := g.value(ct.T)
		in, err := canonIn(ct.T, v)
		if err != nil {
			panic(fmt.Sprintf("harness: generated value does not encode: %v (%s / %s)", err, ct.T.Sexp(), v.Sexp()))
		}
		c.Ins = append(c.Ins, in)
	}
	return c, true
}

func typeKinds(ins []In) string {
	ks := map[string]bool{}
	for _, in := range ins {
		walkT(in.T, func(x *T) { ks[x.K] = true })
	}
	var out []string
	for k := range ks {
		out = append(out, k)
	}
	sort.Strings(out)
	return strings.Join(out, "")
}

func caseKey(c Case) string {
	var b strings.Builder
	for _, in := range c.Ins {
		b.WriteString(in.T.Sexp())
		b.WriteString(in.V.Sexp())
		b.WriteByte('|')
	}
	return b.String()
}

func genCases(c *Ctx) []Case {
	var cases []Case
	add := func(name string, ts []*T, g *vgen) {
		if cs, ok := mkCase(name, ts, g); ok {
			cases = append(cases, cs)
		}
	}
	r := c.Rng
	full := func() *vgen { return &vgen{maxElem: 2} }
	nully := func() *vgen {
		return &vgen{r: rand.New(rand.NewSource(r.Int63())), nullP: 0.25, emptyP: 0.2, maxElem: 3}
	}
	d1 := alphabetD1()
	d2 := alphabetD2()
	c.Note("alphabets: |D1|=%d (depth<=1), |D2|=%d (depth 2 over a reduced inner alphabet)", len(d1), len(d2))
	// the confirmed witnesses first
	cases = append(cases, witnessCases()...)
	// 1. all ordered pairs over D1
	for _, a := range d1 {
		for _, b := range d1 {
			add("pair-d1", []*T{a, b}, full())
		}
	}
	// 2. triples over D1: exhaustive in thorough, sampled in quick; the third value repeats
	// the first type with nulls so that the shaper cache and null paths are exercised
	nTrip := c.N(1000, 0)
	if c.Thorough() {
		red := reducedD1()
		for _, a := range red {
			for _, b := range red {
				for _, d := range red {
					add("triple-d1", []*T{a, b, d}, nully())
				}
			}
		}
	}
	for i := 0; i < nTrip; i++ {
		add("triple-d1-sample", []*T{d1[r.Intn(len(d1))], d1[r.Intn(len(d1))], d1[r.Intn(len(d1))]}, nully())
	}
	// 3. depth-2 pairs: D2 x D2 sampled (exhaustive in thorough), D2 x D1 sampled
	if c.Thorough() {
		for _, a := range d2 {
			for _, b := range d2 {
				add("pair-d2", []*T{a, b}, full())
			}
		}
	}
	for i := 0; i < c.N(1000, 8000); i++ {
		a, b := d2[r.Intn(len(d2))], d2[r.Intn(len(d2))]
		if r.Intn(3) == 0 {
			b = d1[r.Intn(len(d1))]
		}
		ts := []*T{a, b}
		if r.Intn(2) == 0 {
			ts = append(ts, ts[r.Intn(2)], d2[r.Intn(len(d2))])
		}
		add("d2-sample", ts, nully())
	}
	// 4. random: a base type and near mutations of it, 2..6 values, repeated types
	for i := 0; i < c.N(1000, 25000); i++ {
		depth := 1 + r.Intn(3)
		base := randType(r, depth)
		n := 2 + r.Intn(5)
		ts := []*T{base}
		for len(ts) < n {
			switch r.Intn(4) {
			case 0:
				ts = append(ts, ts[r.Intn(len(ts))])
			case 1:
				ts = append(ts, randType(r, depth))
			default:
				ts = append(ts, mutateType(r, ts[r.Intn(len(ts))], depth))
			}
		}
		add("random", ts, nully())
	}
	// 5. long inputs (many values of few types) so that small limits spill mid-stream and the
	// spill file holds several frames
	for i := 0; i < c.N(20, 300); i++ {
		k := 2 + r.Intn(3)
		var pool []*T
		for j := 0; j < k; j++ {
			pool = append(pool, d1[r.Intn(len(d1))])
		}
		n := 20 + r.Intn(c.N(60, 400))
		var ts []*T
		for j := 0; j < n; j++ {
			ts = append(ts, pool[r.Intn(k)])
		}
		add("long", ts, nully())
	}
	return cases
}

func reducedD1() []*T {
	return uniqTypes([]*T{
		p(idInt64), p(idString), p(idNull),
		rec(F{"a", p(idInt64)}), rec(F{"a", p(idString)}), rec(F{"b", p(idInt64)}),
		rec(F{"a", p(idInt64)}, F{"b", p(idString)}), rec(F{"b", p(idInt64)}, F{"a", p(idInt64)}),
		rec(F{"a", p(idNull)}),
		arr(p(idInt64)), arr(p(idString)), set(p(idInt64)), set(p(idString)), arr(p(idNull)),
		mp(p(idString), p(idInt64)), mp(p(idString), p(idString)),
		un(p(idInt64), p(idString)), un(p(idFloat64), p(idString)), un(p(idInt64), p(idFloat64), p(idString)),
		named("x", p(idInt64)), named("y", p(idInt64)), named("x", p(idString)),
	})
}

func witnessCases() []Case {
	var out []Case
	mk := func(name string, ts []*T) {
		if cs, ok := mkCase(name, ts, &vgen{maxElem: 1}); ok {
			out = append(out, cs)
		} else {
			panic("harness: witness case invalid: " + name)
		}
	}
	// DESIGN §11 item 9: {m:|{"a":1}|} {m:|{"b":"x"}|}
	mk("witness-map", []*T{rec(F{"m", mp(p(idString), p(idInt64))}), rec(F{"m", mp(p(idString), p(idString))})})
	mk("witness-array-set", []*T{rec(F{"a", arr(p(idInt64))}), rec(F{"a", set(p(idInt64))})})
	mk("witness-record-in-union", []*T{rec(F{"a", p(idInt64)}), p(idString), rec(F{"b", p(idInt64)})})
	mk("witness-error-value", []*T{p(idInt64), {K: "e", Elems: []*T{p(idString)}}})
	mk("witness-enum", []*T{rec(F{"e", &T{K: "en", Syms: []string{"a", "b"}}}), rec(F{"e", p(idString)}), rec(F{"e", &T{K: "en", Syms: []string{"a", "b", "c"}}})})
	mk("witness-union-record-createStep", []*T{rec(F{"u", un(rec(F{"a", p(idInt64)}), p(idString))}), rec(F{"u", rec(F{"b", p(idInt64)})})})
	return out
}

type caseRun struct {
	limit int
	res   realRes
}

var limits = []int{0, 1, 24, 200} // 0 = default (no spill)

func run(c *Ctx) {
	c.Rule("a case = a sequence of 2..6 (or 20..400 for the long class) input values given as (type tree, value tree); types: exhaustive ordered pairs over the depth<=1 alphabet " +
		"{int64,string,float64,null} x {record a/b/ab/ba, array, set, map, union, named x/y}, sampled (quick) or exhaustive over a reduced alphabet (thorough) triples, depth-2 pairs, and random " +
		"base types with near mutations (field added/dropped/reordered, array<->set, member picked, name stripped) over a wider primitive alphabet; values: all leaves non-null and distinct, or random nulls/empty containers; " +
		"each case runs the real fuse at fuse.MemMaxBytes in {default, 1, 24, 200}, fuse() once, and the Lean model; distinct = distinct (types, values) sequence")
	if c.Replay != nil {
		var cs Case
		if err := json.Unmarshal(c.Replay, &cs); err != nil || len(cs.Ins) == 0 {
			c.Note("replay not understood: %v", err)
			return
		}
		runCases(c, []Case{cs})
		return
	}
	var corpus []Case
	for _, rc := range c.CorpusCases() {
		var cs Case
		if json.Unmarshal(rc, &cs) == nil && len(cs.Ins) > 0 {
			corpus = append(corpus, cs)
		}
	}
	t0 := time.Now()
	cases := append(corpus, genCases(c)...)
	c.Note("phase generate: %.1fs", time.Since(t0).Seconds())
	runCases(c, cases)
}

func runCases(c *Ctx, cases []Case) {
	t0 := time.Now()
	lap := func(what string) {
		c.Note("phase %s: %.1fs", what, time.Since(t0).Seconds())
		t0 = time.Now()
	}
	n := len(cases)
	runs := make([][]caseRun, n)
	aggT := make([]*T, n)
	aggErr := make([]string, n)
	defer func() { fuse.MemMaxBytes = defaultMemMax }()
	for _, lim := range limits {
		if lim == 0 {
			fuse.MemMaxBytes = defaultMemMax
		} else {
			fuse.MemMaxBytes = lim
		}
		var mu sync.Mutex
		ParallelDo(n, 8, func(i int) {
			if lim > 1 && totalBytes(cases[i]) < lim {
				return // this limit does not spill: same run as the default limit
			}
			res := runQuery("fuse", cases[i].Ins)
			mu.Lock()
			runs[i] = append(runs[i], caseRun{lim, res})
			mu.Unlock()
		})
		lap(fmt.Sprintf("fuse at MemMaxBytes=%d", lim))
	}
	fuse.MemMaxBytes = defaultMemMax
	ParallelDo(n, 8, func(i int) { aggT[i], aggErr[i] = runAgg(cases[i].Ins) })
	lap("fuse() aggregate")

	var model []modelAns
	if c.Want("model") {
		model = runModel(c, cases)
		lap("Lean model")
	}
	for i, cs := range cases {
		c.Eval(caseKey(cs))
		c.Stat("class:" + cs.Name)
		c.Stat(fmt.Sprintf("inputs:%d", min(len(cs.Ins), 7)))
		c.Stat("kinds:" + typeKinds(cs.Ins))
		if i%997 == 0 {
			c.Sample(map[string]any{"case": cs.Name, "types": typesOf(cs), "fused": sexpOrNil(aggT[i])})
		}
		if c.Want("oracle") {
			seen := map[string]bool{}
			for _, r := range runs[i] {
				for _, f := range judge(cs.Ins, r.res, aggT[i], aggErr[i]) {
					if seen[f.Key] {
						continue
					}
					seen[f.Key] = true
					c.Fail("oracle", f.Key, fmt.Sprintf("MemMaxBytes=%d: %s; inputs %s", r.limit, f.What, brief(cs)), cs)
				}
			}
			base := runs[i][0].res
			for _, r := range runs[i][1:] {
				if d := diffRuns(base, r.res); d != "" {
					c.Fail("oracle", "C20:spill:differs", fmt.Sprintf("fuse at MemMaxBytes=%d differs from the in-memory run: %s; inputs %s", r.limit, d, brief(cs)), cs)
					break
				}
			}
			c.Stat(fmt.Sprintf("spilling-runs:%d", len(runs[i])-1))
		}
		if model != nil {
			compareModel(c, cs, runs[i], aggT[i], model[i])
		}
	}
}

func totalBytes(cs Case) int {
	tot := 0
	for _, in := range cs.Ins {
		tot += in.N
	}
	return tot
}

func sexpOrNil(t *T) string {
	if t == nil {
		return "nil"
	}
	return t.Sexp()
}

func typesOf(cs Case) []string {
	var out []string
	for i, in := range cs.Ins {
		if i >= 6 {
			out = append(out, "…")
			break
		}
		out = append(out, in.T.Sexp())
	}
	return out
}

func brief(cs Case) string {
	var parts []string
	for i, in := range cs.Ins {
		if i >= 4 {
			parts = append(parts, "…")
			break
		}
		parts = append(parts, in.T.Sexp()+"="+in.V.Sexp())
	}
	return strings.Join(parts, " ; ")
}

func diffRuns(a, b realRes) string {
	if a.Panic != "" || b.Panic != "" || a.Err != b.Err {
		if a.Err != b.Err || a.Panic != b.Panic {
			return fmt.Sprintf("errors differ: %q vs %q", a.Err+firstLine(a.Panic), b.Err+firstLine(b.Panic))
		}
	}
	if len(a.Outs) != len(b.Outs) {
		return fmt.Sprintf("%d vs %d outputs", len(a.Outs), len(b.Outs))
	}
	for i := range a.Outs {
		if !sameT(a.Outs[i].T, b.Outs[i].T) {
			return fmt.Sprintf("output %d: type %s vs %s", i, a.Outs[i].T.Sexp(), b.Outs[i].T.Sexp())
		}
		if a.Outs[i].V.Sexp() != b.Outs[i].V.Sexp() {
			return fmt.Sprintf("output %d: value %s vs %s", i, a.Outs[i].V.Sexp(), b.Outs[i].V.Sexp())
		}
	}
	return ""
}
