import Zed.Model.TypeValue
import Zed.Model.CompareTypes
/-!
  L1 — `zed.Context` (context.go) as a deterministic state machine.

  State: `byID` (complex types in creation order; id = IDTypeComplex + index), `toType`
  (serialized type ↦ type), `toValue` (type ↦ serialized type), `typedefs` (name ↦ named type
  last bound).  Types are carried structurally: the *pointer* of the Go code is the structural
  `Ty`, its identity inside the context is its position in `byID`.  Every `Lookup*` below is one
  critical section of the Go code (the mutex is held from the `toType` probe to `enterWithLock`);
  `lookupByValue` is not atomic in Go (it releases the mutex around `DecodeTypeValue`), which is
  why `decodeTV` is written as a sequence of those atomic steps.
-/
namespace Zed
open Zcode Generated.C05

structure Ctx where
  byID : List Ty := []
  toType : List (Bytes × Ty) := []
  toValue : List (Ty × Bytes) := []
  typedefs : List (Name × Ty) := []
  deriving Repr

namespace Ctx

def empty : Ctx := {}

/-- `enterWithLock` -/
def enter (c : Ctx) (tv : Bytes) (t : Ty) : Ctx :=
  { c with toValue := (t, tv) :: c.toValue, toType := (tv, t) :: c.toType, byID := c.byID ++ [t] }

/-- common shape of LookupTypeArray/Set/Map/Union/Enum/Error: probe `toType` with the canonical
    serialization, else create and enter. -/
def lookupOrEnter (c : Ctx) (t : Ty) : Ty × Ctx :=
  let tv := encodeTV t
  match c.toType.lookup tv with
  | some t' => (t', c)
  | none => (t, c.enter tv t)

def lookupArray (c : Ctx) (t : Ty) : Ty × Ctx := c.lookupOrEnter (.array t)
def lookupSet (c : Ctx) (t : Ty) : Ty × Ctx := c.lookupOrEnter (.set t)
def lookupMap (c : Ctx) (k v : Ty) : Ty × Ctx := c.lookupOrEnter (.map k v)
def lookupError (c : Ctx) (t : Ty) : Ty × Ctx := c.lookupOrEnter (.error t)
def lookupEnum (c : Ctx) (syms : List Name) : Ty × Ctx := c.lookupOrEnter (.enum syms)

/-- `LookupTypeUnion`: the caller's slice is sorted with CompareTypes first. -/
def lookupUnion (c : Ctx) (ts : List Ty) : Ty × Ctx :=
  c.lookupOrEnter (.union (Tys.ofList (sortTys ts)))

/-- `duplicateField` -/
def hasDup : List Name → Bool
  | [] => false
  | n :: r => r.contains n || hasDup r

/-- `LookupTypeRecord`: the `toType` probe comes before the duplicate-field check. -/
def lookupRecord (c : Ctx) (fs : List (Name × Ty)) : Option Ty × Ctx :=
  let t := Ty.record (Fields.ofList fs)
  let tv := encodeTV t
  match c.toType.lookup tv with
  | some t' => (some t', c)
  | none =>
    if hasDup (fs.map (·.1)) then (none, c)
    else (some t, c.enter tv t)

/-- `utf8.ValidString` (RFC 3629: no overlong forms, no surrogates, ≤ U+10FFFF), on fuel. -/
def validUTF8F : Nat → Bytes → Bool
  | _, [] => true
  | 0, _ => false
  | f+1, b0 :: rest =>
    let cont (b : UInt8) : Bool := 0x80 ≤ b.toNat && b.toNat ≤ 0xBF
    let b := b0.toNat
    if b < 0x80 then validUTF8F f rest
    else if 0xC2 ≤ b && b ≤ 0xDF then
      match rest with
      | b1 :: r => cont b1 && validUTF8F f r
      | _ => false
    else if 0xE0 ≤ b && b ≤ 0xEF then
      match rest with
      | b1 :: b2 :: r =>
        let lo := if b = 0xE0 then 0xA0 else 0x80
        let hi := if b = 0xED then 0x9F else 0xBF
        (lo ≤ b1.toNat && b1.toNat ≤ hi) && cont b2 && validUTF8F f r
      | _ => false
    else if 0xF0 ≤ b && b ≤ 0xF4 then
      match rest with
      | b1 :: b2 :: b3 :: r =>
        let lo := if b = 0xF0 then 0x90 else 0x80
        let hi := if b = 0xF4 then 0x8F else 0xBF
        (lo ≤ b1.toNat && b1.toNat ≤ hi) && cont b2 && cont b3 && validUTF8F f r
      | _ => false
    else false

def validUTF8 (bs : Bytes) : Bool := validUTF8F bs.length bs

/-- `LookupPrimitive(name) != nil` over the regenerated name table -/
def isPrimitiveName (n : Name) : Bool := primitiveNames.any (fun e => e.2.1 == n)

def validTypeName (n : Name) : Bool := validUTF8 n && !isPrimitiveName n

def bind (defs : List (Name × Ty)) (n : Name) (t : Ty) : List (Name × Ty) := (n, t) :: defs

/-- `LookupTypeNamed`: also (re)binds `name` in `typedefs`, on a hit as well as on a miss. -/
def lookupNamed (c : Ctx) (n : Name) (t : Ty) : Option Ty × Ctx :=
  if !validTypeName n then (none, c)
  else
    let nt := Ty.named n t
    let tv := encodeTV nt
    match c.toType.lookup tv with
    | some t' => (some t', { c with typedefs := bind c.typedefs n t' })
    | none => (some nt, { c with typedefs := bind c.typedefs n nt }.enter tv nt)

/-- `LookupTypeDef` -/
def lookupTypeDef (c : Ctx) (n : Name) : Option Ty := c.typedefs.lookup n

/-- `LookupPrimitiveByID` over the regenerated table -/
def primitiveByID? (id : Nat) : Option Ty :=
  if id < idTypeComplex then
    match primitiveByID.lookup id with
    | some tid => some (.prim tid)
    | none => none
  else none

/-! #### well-formed types

  `Ty.wf t`: `t` is a type a `zed.Context` can hold and `DecodeTypeValue` can read back:
  implemented primitives; records without duplicate field names; unions whose members are in the
  order `LookupTypeUnion` leaves them in (no member is `CompareTypes`-less than its predecessor);
  named types with a valid name; and the size limits of the decoder (`MaxRecordFields`, …, and
  names shorter than 2^63 bytes, the range of `DecodeLength`). -/

def nameOk (n : Name) : Bool := decide (n.length < 2 ^ 63)

/-- no element is `less` than its predecessor -/
def adjSorted {α} (less : α → α → Bool) : List α → Bool
  | [] => true
  | [_] => true
  | x :: y :: rest => !less y x && adjSorted less (y :: rest)

end Ctx

mutual
def Ty.wf : Ty → Bool
  | .prim id => Ctx.primitiveByID? id == some (.prim id)
  | .record fs => fs.wf && !Ctx.hasDup fs.names && decide (fs.length ≤ maxRecordFields)
  | .array t => t.wf
  | .set t => t.wf
  | .map k v => k.wf && v.wf
  | .union ts => ts.wf && decide (ts.length ≤ maxUnionTypes) && Ctx.adjSorted tyLess ts.toList
  | .enum syms => syms.all Ctx.nameOk && decide (syms.length ≤ maxEnumSymbols)
  | .error t => t.wf
  | .named n t => Ctx.validTypeName n && Ctx.nameOk n && t.wf
def Fields.wf : Fields → Bool
  | .nil => true
  | .cons n t r => Ctx.nameOk n && t.wf && r.wf
def Tys.wf : Tys → Bool
  | .nil => true
  | .cons t r => t.wf && r.wf
end

namespace Ctx

/-! #### DecodeTypeValue -/

def decodeSyms : Nat → Bytes → Option (List Name × Bytes)
  | 0, tv => some ([], tv)
  | n+1, tv =>
    match decodeName tv with
    | none => none
    | some (s, tv) =>
      match decodeSyms n tv with
      | none => none
      | some (ss, tv) => some (s :: ss, tv)

mutual
/-- `Context.DecodeTypeValue`; `none` = the `(nil, nil)` result.  The context is returned in
    either case: the types entered before a failure stay entered. -/
def decodeTV : Nat → Ctx → Bytes → Ctx × Option (Ty × Bytes)
  | 0, c, _ => (c, none)
  | _, c, [] => (c, none)
  | f+1, c, id :: tv =>
    let id := id.toNat
    if id = tvNameDef then
      match decodeName tv with
      | none => (c, none)
      | some (name, tv) =>
        match decodeTV f c tv with
        | (c, none) => (c, none)
        | (c, some (t, tv)) =>
          match c.lookupNamed name t with
          | (none, c) => (c, none)
          | (some nt, c) => (c, some (nt, tv))
    else if id = tvNameRef then
      match decodeName tv with
      | none => (c, none)
      | some (name, tv) =>
        match c.lookupTypeDef name with
        | none => (c, none)
        | some t => (c, some (t, tv))
    else if id = tvRecord then
      match decodeLength tv with
      | none => (c, none)
      | some (n, tv) =>
        if n > maxRecordFields then (c, none) else
        match decodeFields f n c tv with
        | (c, none) => (c, none)
        | (c, some (fs, tv)) =>
          match c.lookupRecord fs with
          | (none, c) => (c, none)
          | (some t, c) => (c, some (t, tv))
    else if id = tvArray then
      match decodeTV f c tv with
      | (c, none) => (c, none)
      | (c, some (t, tv)) => let r := c.lookupArray t; (r.2, some (r.1, tv))
    else if id = tvSet then
      match decodeTV f c tv with
      | (c, none) => (c, none)
      | (c, some (t, tv)) => let r := c.lookupSet t; (r.2, some (r.1, tv))
    else if id = tvMap then
      match decodeTV f c tv with
      | (c, none) => (c, none)
      | (c, some (k, tv)) =>
        match decodeTV f c tv with
        | (c, none) => (c, none)
        | (c, some (v, tv)) => let r := c.lookupMap k v; (r.2, some (r.1, tv))
    else if id = tvUnion then
      match decodeLength tv with
      | none => (c, none)
      | some (n, tv) =>
        if n > maxUnionTypes then (c, none) else
        -- the Go loop does not check a failed member (it would call CompareTypes on nil and
        -- panic, C11); the model stops with `none`.
        match decodeTys f n c tv with
        | (c, none) => (c, none)
        | (c, some (ts, tv)) => let r := c.lookupUnion ts; (r.2, some (r.1, tv))
    else if id = tvEnum then
      match decodeLength tv with
      | none => (c, none)
      | some (n, tv) =>
        if n > maxEnumSymbols then (c, none) else
        match decodeSyms n tv with
        | none => (c, none)
        | some (syms, tv) => let r := c.lookupEnum syms; (r.2, some (r.1, tv))
    else if id = tvError then
      match decodeTV f c tv with
      | (c, none) => (c, none)
      | (c, some (t, tv)) => let r := c.lookupError t; (r.2, some (r.1, tv))
    else
      match primitiveByID? id with
      | none => (c, none)
      | some t => (c, some (t, tv))
def decodeFields : Nat → Nat → Ctx → Bytes → Ctx × Option (List (Name × Ty) × Bytes)
  | _, 0, c, tv => (c, some ([], tv))
  | 0, _+1, c, _ => (c, none)
  | f+1, n+1, c, tv =>
    match decodeName tv with
    | none => (c, none)
    | some (name, tv) =>
      match decodeTV f c tv with
      | (c, none) => (c, none)
      | (c, some (t, tv)) =>
        match decodeFields f n c tv with
        | (c, none) => (c, none)
        | (c, some (fs, tv)) => (c, some ((name, t) :: fs, tv))
def decodeTys : Nat → Nat → Ctx → Bytes → Ctx × Option (List Ty × Bytes)
  | _, 0, c, tv => (c, some ([], tv))
  | 0, _+1, c, _ => (c, none)
  | f+1, n+1, c, tv =>
    match decodeTV f c tv with
    | (c, none) => (c, none)
    | (c, some (t, tv)) =>
      match decodeTys f n c tv with
      | (c, none) => (c, none)
      | (c, some (ts, tv)) => (c, some (t :: ts, tv))
end

/-- fuel that always suffices: every recursive call consumes at least one byte -/
def decodeC (c : Ctx) (tv : Bytes) : Ctx × Option (Ty × Bytes) := decodeTV (tv.length + 1) c tv

/-- the successful result with the context after it -/
def decode (c : Ctx) (tv : Bytes) : Option (Ty × Bytes × Ctx) :=
  match c.decodeC tv with
  | (c', some (t, rest)) => some (t, rest, c')
  | (_, none) => none

/-- the last critical section of `LookupByValue`:
    `if _, ok := c.toValue[typ]; !ok { c.toValue[typ] = EncodeTypeValue(typ) }; c.toType[string(tv)] = typ`
    (the caller's bytes become a new key, never the type's stored value) -/
def storeByValue (c : Ctx) (tv : Bytes) (t : Ty) : Ctx :=
  { c with
    toValue := if (c.toValue.lookup t).isSome then c.toValue else (t, encodeTV t) :: c.toValue,
    toType := (tv, t) :: c.toType }

/-- `LookupByValue`: probe `toType`, else decode (outside the mutex: a sequence of atomic
    `Lookup*` steps) and remember the bytes as a further key of the decoded type.
    The effects of a failing decode stay in the context. -/
def lookupByValue (c : Ctx) (tv : Bytes) : Option Ty × Ctx :=
  match c.toType.lookup tv with
  | some t => (some t, c)
  | none =>
    match c.decodeC tv with
    | (c', none) => (none, c')
    | (c', some (t, _)) => (some t, c'.storeByValue tv t)

/-- `TranslateType` -/
def translate (c : Ctx) (ext : Ty) : Option Ty × Ctx := c.lookupByValue (encodeTV ext)

/-- `LookupTypeValue` (the bytes of the returned `type` value) -/
def lookupTypeValue (c : Ctx) (t : Ty) : Option Bytes × Ctx :=
  match c.toValue.lookup t with
  | some b => (some b, c)
  | none =>
    match c.lookupByValue (encodeTV t) with
    | (none, c') => (none, c')
    | (some t', c') => (c'.toValue.lookup t', c')

/-- `zed.TypeID` of a type of this context -/
def idOf (c : Ctx) (t : Ty) : Option Nat :=
  match t with
  | .prim id => some id
  | t => if t ∈ c.byID then some (idTypeComplex + c.byID.idxOf t) else none

/-- `LookupType(id)` -/
def lookupType (c : Ctx) (id : Nat) : Option Ty :=
  if id < idTypeComplex then primitiveByID? id else c.byID[id - idTypeComplex]?

/-! #### creation histories

  An operation of a client of the context.  Arguments are primitives or results of earlier
  operations (`Arg.res k`), as in the harness's histories; `translate` takes a type of some
  other context.  An operation whose arguments do not resolve, or that exceeds the decoder's
  size limits (the context does not check them when creating, but a type beyond them cannot be
  read back), is skipped. -/

inductive Arg where
  | prim (id : Nat)
  | res (k : Nat)
  deriving Repr

inductive Op where
  | record (fs : List (Name × Arg))
  | array (a : Arg)
  | set (a : Arg)
  | error (a : Arg)
  | map (k v : Arg)
  | union (as : List Arg)
  | enum (syms : List Name)
  | named (n : Name) (a : Arg)
  | byValue (tv : Bytes)
  | translate (ext : Ty)
  | typeValue (a : Arg)
  | typeDef (n : Name)
  deriving Repr

abbrev Env := List (Option Ty)

def argOf (env : Env) : Arg → Option Ty
  | .prim id => primitiveByID? id
  | .res k => (env[k]?).join

def argsOf (env : Env) : List Arg → Option (List Ty)
  | [] => some []
  | a :: r => match argOf env a, argsOf env r with
    | some t, some ts => some (t :: ts)
    | _, _ => none

def fieldsOf (env : Env) : List (Name × Arg) → Option (List (Name × Ty))
  | [] => some []
  | (n, a) :: r => match argOf env a, fieldsOf env r with
    | some t, some fs => some ((n, t) :: fs)
    | _, _ => none

/-- one operation: the type it returns (if any), the bytes it returns (LookupTypeValue), the
    context afterwards -/
def exec (c : Ctx) (env : Env) : Op → Option Ty × Option Bytes × Ctx
  | .record fs =>
    match fieldsOf env fs with
    | some l =>
      if l.length ≤ maxRecordFields ∧ l.all (fun p => nameOk p.1) then
        let r := c.lookupRecord l; (r.1, none, r.2)
      else (none, none, c)
    | none => (none, none, c)
  | .array a => match argOf env a with
    | some t => let r := c.lookupArray t; (some r.1, none, r.2)
    | none => (none, none, c)
  | .set a => match argOf env a with
    | some t => let r := c.lookupSet t; (some r.1, none, r.2)
    | none => (none, none, c)
  | .error a => match argOf env a with
    | some t => let r := c.lookupError t; (some r.1, none, r.2)
    | none => (none, none, c)
  | .map k v => match argOf env k, argOf env v with
    | some kt, some vt => let r := c.lookupMap kt vt; (some r.1, none, r.2)
    | _, _ => (none, none, c)
  | .union as => match argsOf env as with
    | some ts =>
      if ts.length ≤ maxUnionTypes then let r := c.lookupUnion ts; (some r.1, none, r.2)
      else (none, none, c)
    | none => (none, none, c)
  | .enum syms =>
    if syms.length ≤ maxEnumSymbols ∧ syms.all nameOk then let r := c.lookupEnum syms; (some r.1, none, r.2)
    else (none, none, c)
  | .named n a => match argOf env a with
    | some t => if nameOk n then let r := c.lookupNamed n t; (r.1, none, r.2) else (none, none, c)
    | none => (none, none, c)
  | .byValue tv => let r := c.lookupByValue tv; (r.1, none, r.2)
  | .translate ext => if ext.wf then let r := c.translate ext; (r.1, none, r.2) else (none, none, c)
  | .typeValue a => match argOf env a with
    | some t => let r := c.lookupTypeValue t; (none, r.1, r.2)
    | none => (none, none, c)
  | .typeDef n => (c.lookupTypeDef n, none, c)

/-- run a history from a context; the environment collects the results -/
def runOps : List Op → Ctx → Env → Ctx × Env
  | [], c, env => (c, env)
  | op :: rest, c, env =>
    let r := c.exec env op
    runOps rest r.2.2 (env ++ [r.1])

end Ctx
end Zed
