import Zed.Model.VngNulls
/-! Lemmas for the null run-length coding. -/
namespace Zed.Vng

/-- Denotation of a runs vector whose first run has polarity `pol`. -/
def expand : Bool → List Nat → List Bool
  | _, [] => []
  | pol, r :: rs => List.replicate r pol ++ expand (!pol) rs

theorem nullsFetch_eq_expand (pol : Bool) (rs : List Nat) : nullsFetch pol rs = expand pol rs := by
  induction rs generalizing pol with
  | nil => rfl
  | cons r rs ih => simp [nullsFetch, expand, ih]

/-- polarity of the run that follows `rs` when the first run has polarity `pol`. -/
def polAfter (pol : Bool) (rs : List Nat) : Bool := if rs.length % 2 = 0 then pol else !pol

theorem expand_snoc (pol : Bool) (rs : List Nat) (r : Nat) :
    expand pol (rs ++ [r]) = expand pol rs ++ List.replicate r (polAfter pol rs) := by
  induction rs generalizing pol with
  | nil => simp [expand, polAfter]
  | cons a rs ih =>
    simp only [List.cons_append, expand, ih, List.append_assoc, polAfter, List.length_cons]
    congr 2
    have : (rs.length + 1) % 2 = 0 ↔ ¬ (rs.length % 2 = 0) := by omega
    by_cases h : rs.length % 2 = 0 <;> simp [h, this]

/-- bits written so far, as the encoder state denotes them. -/
def NullsEnc.bits (s : NullsEnc) : List Bool :=
  expand false s.runs ++ List.replicate s.run s.null

def NullsEnc.Parity (s : NullsEnc) : Prop := s.null = polAfter false s.runs

theorem polAfter_snoc (pol : Bool) (rs : List Nat) (r : Nat) :
    polAfter pol (rs ++ [r]) = !(polAfter pol rs) := by
  simp only [polAfter, List.length_append, List.length_cons, List.length_nil]
  have : (rs.length + (0 + 1)) % 2 = 0 ↔ ¬ (rs.length % 2 = 0) := by omega
  by_cases h : rs.length % 2 = 0 <;> simp [h, this]

theorem NullsEnc.write_spec (s : NullsEnc) (b : Bool) (hp : s.Parity) :
    (s.write b).bits = s.bits ++ [b] ∧ (s.write b).Parity ∧
    (s.write b).count = s.count + (if b then 1 else 0) ∧ (s.write b).run > 0 := by
  unfold NullsEnc.Parity at *
  cases b
  · -- value
    simp only [write, Bool.false_eq_true, if_false, touchValue]
    by_cases hn : s.null = false
    · simp [hn, bits, hp, List.replicate_succ', ← hp]
    · have hn' : s.null = true := by simpa using hn
      simp only [hn', Bool.true_eq_false, if_false, bits, expand_snoc, ← hp, polAfter_snoc]
      simp [hn']
  · simp only [write, if_true, touchNull]
    by_cases hn : s.null = true
    · simp [hn, bits, hp, List.replicate_succ', ← hp]
    · have hn' : s.null = false := by simpa using hn
      simp only [hn', Bool.false_eq_true, if_false, bits, expand_snoc, ← hp, polAfter_snoc]
      simp [hn']

theorem nullsState_spec_aux (bs : List Bool) (s : NullsEnc) (hp : s.Parity) :
    (bs.foldl NullsEnc.write s).bits = s.bits ++ bs ∧ (bs.foldl NullsEnc.write s).Parity ∧
    (bs.foldl NullsEnc.write s).count = s.count + bs.count true ∧
    (bs ≠ [] → (bs.foldl NullsEnc.write s).run > 0) := by
  induction bs generalizing s with
  | nil => simp [hp]
  | cons b bs ih =>
    obtain ⟨h1, h2, h3, h4⟩ := s.write_spec b hp
    obtain ⟨i1, i2, i3, i4⟩ := ih (s.write b) h2
    simp only [List.foldl_cons]
    refine ⟨by rw [i1, h1]; simp, i2, ?_, ?_⟩
    · rw [i3, h3]; cases b <;> simp [List.count_cons] <;> omega
    · intro _
      cases bs with
      | nil => simpa using h4
      | cons c cs => exact i4 (by simp)

theorem nullsState_spec (bs : List Bool) :
    expand false (nullsState bs).finish = bs ∧ (nullsState bs).count = bs.count true := by
  have hp : ({} : NullsEnc).Parity := by simp [NullsEnc.Parity, polAfter]
  obtain ⟨h1, h2, h3, h4⟩ := nullsState_spec_aux bs {} hp
  refine ⟨?_, by simpa [nullsState] using h3⟩
  unfold nullsState NullsEnc.finish
  have hb : (bs.foldl NullsEnc.write {}).bits = bs := by simpa [NullsEnc.bits, expand] using h1
  by_cases hr : (bs.foldl NullsEnc.write {}).run > 0
  · simp only [hr, if_true, expand_snoc]
    rw [← h2]; exact hb
  · simp only [hr, if_false]
    have : (bs.foldl NullsEnc.write {}).run = 0 := by omega
    simpa [NullsEnc.bits, this] using hb

/-- interleave a null bitmap with the values of the non-null slots. -/
def interleave {α : Type} : List Bool → List α → List (Option α)
  | [], _ => []
  | true :: bs, vs => none :: interleave bs vs
  | false :: bs, v :: vs => some v :: interleave bs vs
  | false :: _, [] => []

theorem nullsAdvance_spec (null : Bool) (run : Nat) (runs : List Nat) (b : Bool) (bs : List Bool)
    (h : List.replicate run null ++ expand (!null) runs = b :: bs) :
    ∃ run' runs', nullsAdvance null run runs = some (b, run', runs') ∧
      bs = List.replicate run' b ++ expand (!b) runs' := by
  induction runs generalizing null run with
  | nil =>
    cases run with
    | zero => simp [expand] at h
    | succ r =>
      simp only [List.replicate_succ, List.cons_append, List.cons.injEq] at h
      obtain ⟨h1, h2⟩ := h
      subst h1
      exact ⟨r, [], rfl, h2.symm⟩
  | cons r rs ih =>
    cases run with
    | zero =>
      simp only [List.replicate_zero, List.nil_append, expand] at h
      obtain ⟨r', rs', h1, h3⟩ := ih (!null) r (by simpa using h)
      exact ⟨r', rs', by simpa [nullsAdvance] using h1, h3⟩
    | succ q =>
      simp only [List.replicate_succ, List.cons_append, List.cons.injEq] at h
      obtain ⟨h1, h2⟩ := h
      subst h1
      exact ⟨q, r :: rs, rfl, h2.symm⟩

theorem nullsBuild_spec {α : Type} (n : Nat) (null : Bool) (run : Nat) (runs : List Nat)
    (vals : List α) (bs : List Bool)
    (hb : List.replicate run null ++ expand (!null) runs = bs)
    (hn : n = bs.length) (hv : bs.count false = vals.length) :
    nullsBuild n null run runs vals = some (interleave bs vals) := by
  induction n generalizing null run runs vals bs with
  | zero =>
    have : bs = [] := List.eq_nil_of_length_eq_zero hn.symm
    subst this; simp [nullsBuild, interleave]
  | succ n ih =>
    cases bs with
    | nil => simp at hn
    | cons b bs' =>
      obtain ⟨r', rs', h1, h3⟩ := nullsAdvance_spec null run runs b bs' hb
      simp only [nullsBuild, h1]
      cases b with
      | true =>
        simp only [if_true]
        rw [ih true r' rs' vals bs' h3.symm (by simpa using hn) (by simpa using hv)]
        simp [interleave]
      | false =>
        simp only [Bool.false_eq_true, if_false]
        cases vals with
        | nil => simp at hv
        | cons v vs =>
          simp only
          rw [ih false r' rs' vs bs' h3.symm (by simpa using hn) (by simpa using hv)]
          simp [interleave]

theorem interleave_isNone {α : Type} (xs : List (Option α)) :
    interleave (xs.map Option.isNone) (xs.filterMap id) = xs := by
  induction xs with
  | nil => rfl
  | cons x xs ih => cases x <;> simp [interleave, ih]

theorem count_isNone {α : Type} (xs : List (Option α)) :
    (xs.map Option.isNone).count true + (xs.filterMap id).length = xs.length ∧
    (xs.map Option.isNone).count false = (xs.filterMap id).length := by
  induction xs with
  | nil => simp
  | cons x xs ih => cases x <;> simp [List.count_cons] <;> omega

theorem nullsDecode_nullsEncode {α : Type} (xs : List (Option α)) :
    nullsDecode (nullsEncode xs) = some xs := by
  obtain ⟨he, hc⟩ := nullsState_spec (xs.map Option.isNone)
  obtain ⟨c1, c2⟩ := count_isNone xs
  unfold nullsDecode nullsEncode
  simp only
  by_cases h0 : (nullsState (xs.map Option.isNone)).count = 0
  · simp only [h0, if_true]
    rw [hc] at h0
    -- no nulls at all
    have hall : ∀ x ∈ xs, x.isNone = false := by
      intro x hx
      cases hx' : x.isNone
      · rfl
      · exfalso
        have : 0 < (xs.map Option.isNone).count true :=
          List.count_pos_iff.mpr (List.mem_map.mpr ⟨x, hx, hx'⟩)
        omega
    clear he hc c1 c2 h0
    induction xs with
    | nil => rfl
    | cons x xs ih =>
      have hx := hall x (by simp)
      cases x with
      | none => simp at hx
      | some v =>
        have := ih (fun y hy => hall y (List.mem_cons_of_mem _ hy))
        simp only [List.filterMap_cons, id, List.map_cons, Option.some.injEq, List.cons.injEq, true_and]
        simpa using this
  · simp only [h0, if_false]
    rw [nullsBuild_spec _ true 0 _ _ (xs.map Option.isNone) (by simpa [expand] using he)
      (by rw [hc]; simp; omega) c2]
    rw [interleave_isNone]

end Zed.Vng

namespace Zed.Vng

theorem nullsEncode_values {α : Type} (xs : List (Option α)) :
    (nullsEncode xs).values = xs.filterMap id := rfl

theorem nullsEncode_count_add {α : Type} (xs : List (Option α)) :
    (nullsEncode xs).count + (xs.filterMap id).length = xs.length := by
  obtain ⟨_, hc⟩ := nullsState_spec (xs.map Option.isNone)
  obtain ⟨c1, _⟩ := count_isNone xs
  show (nullsState (xs.map Option.isNone)).count + _ = _
  rw [hc]; exact c1

/-- no null was counted iff every element is a value. -/
theorem nullsEncode_count_zero {α : Type} (xs : List (Option α)) (h : (nullsEncode xs).count = 0) :
    xs = (xs.filterMap id).map some := by
  have := nullsDecode_nullsEncode xs
  unfold nullsDecode at this
  simp only [h, if_true, nullsEncode_values] at this
  exact (Option.some.inj this).symm

end Zed.Vng
