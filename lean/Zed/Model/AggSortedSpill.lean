/-
  Model of the group-by Aggregator in sorted-input mode WITH spills (C10).
  Anchor: runtime/sam/op/groupby/groupby.go — Consume (updateMaxTableKey, spillTable(false)),
  spillTable's maxSpillKey update, Op.run's per-batch `nextResult(false)`, readTable(flush=false),
  readSpills(eof=false) with the maxSpillKey gate, nextResultFromSpills, and the end-of-input path.

  On top of Zed.Model.AggGroupby (table rows remember `gv` = maxTableKey at creation):
  * `pending`  — the rows still in the spill files, as the stable merge of all runs: a new run is
                 merged in by a stable sort of `pending ++ run` (older runs win ties, as the
                 ordinal tie-break of spill.MergeSort does);
  * `maxSpill` — maxSpillKey.  spillTable takes it from `recs[len(recs)-1]`, where `recs` is the
                 table in Go map order, i.e. from an ARBITRARY row of the spilled table (or from
                 none, when that row's key is an error): the parameter `pick`;
  * `spilled`  — a.spiller != nil: from the first spill on, nothing is released from the table
                 any more, only from the spill files, and only groups whose primary key is
                 strictly below maxSpill;
  * end of input: the table is spilled too and everything left is re-grouped and emitted.
-/
import Zed.Model.AggGroupby
namespace Zed.Agg

variable {K S P : Type}

structure SSGB (K S P : Type) where
  table : List (SRow K S P) := []
  maxKey : Option P := none
  pending : List (K × S) := []
  maxSpill : Option P := none
  spilled : Bool := false
  out : List (K × S) := []

def tableRows (t : List (SRow K S P)) : List (K × S) := t.map fun r => (r.key, r.st)

def newMaxKey (vle : P → P → Bool) (mk : Option P) (p : P) : P :=
  match mk with
  | none => p
  | some q => if ltOf vle q p then p else q

/-- Consume in sorted-input mode, with the table limit. -/
def ssConsume [DecidableEq K] (m : Mon S) (le : K → K → Bool) (prim : K → P) (vle : P → P → Bool)
    (pick : List (K × S) → Option (K × S)) (limit : Nat)
    (st : SSGB K S P) (r : K × S) : SSGB K S P :=
  let mk := newMaxKey vle st.maxKey (prim r.1)
  if st.table.any (fun x => x.key == r.1) then
    { st with table := supsert m st.table r.1 r.2 mk, maxKey := some mk }
  else if st.table.length ≥ limit then
    let rows := tableRows st.table
    let ms := match pick rows with
      | none => st.maxSpill
      | some x => some (newMaxKey vle st.maxSpill (prim x.1))
    { st with table := [⟨r.1, m.op m.e r.2, mk⟩], maxKey := some mk,
              pending := isort (rowLe le) (st.pending ++ isort (rowLe le) rows),
              maxSpill := ms, spilled := true }
  else
    { st with table := st.table ++ [⟨r.1, m.op m.e r.2, mk⟩], maxKey := some mk }

/-- readSpills(eof = false): emit re-grouped rows from the front of the merged spill stream while
    the group's primary key is strictly below `ms`.  Returns (emitted, remaining). -/
def relSpill (m : Mon S) (le : K → K → Bool) (prim : K → P) (vle : P → P → Bool) (ms : P) :
    Option (K × S) → List (K × S) → List (K × S) × List (K × S)
  | none, [] => ([], [])
  | some cur, [] => ([cur], [])
  | none, r :: rest =>
    if ltOf vle (prim r.1) ms then relSpill m le prim vle ms (some (r.1, m.op m.e r.2)) rest
    else ([], r :: rest)
  | some (k, acc), r :: rest =>
    if eqv le k r.1 then relSpill m le prim vle ms (some (k, m.op acc r.2)) rest
    else if ltOf vle (prim r.1) ms then
      let res := relSpill m le prim vle ms (some (r.1, m.op m.e r.2)) rest
      ((k, acc) :: res.1, res.2)
    else ([(k, acc)], r :: rest)

/-- what happens after every batch -/
def ssRelease (m : Mon S) (le : K → K → Bool) (prim : K → P) (vle : P → P → Bool)
    (st : SSGB K S P) : SSGB K S P :=
  if st.spilled then
    match st.maxSpill with
    | none => st
    | some ms =>
      let res := relSpill m le prim vle ms none st.pending
      { st with out := st.out ++ res.1, pending := res.2 }
  else
    match st.maxKey with
    | none => st
    | some mk =>
      { st with out := st.out ++ tableRows (st.table.filter fun r => ltOf vle r.gv mk),
                table := st.table.filter fun r => !ltOf vle r.gv mk }

def ssBatch [DecidableEq K] (m : Mon S) (le : K → K → Bool) (prim : K → P) (vle : P → P → Bool)
    (pick : List (K × S) → Option (K × S)) (limit : Nat)
    (st : SSGB K S P) (batch : List (K × S)) : SSGB K S P :=
  ssRelease m le prim vle (batch.foldl (ssConsume m le prim vle pick limit) st)

/-- end of input -/
def ssFinish (m : Mon S) (le : K → K → Bool) (st : SSGB K S P) : List (K × S) :=
  if st.spilled then
    st.out ++ regroup m le none (isort (rowLe le) (st.pending ++ isort (rowLe le) (tableRows st.table)))
  else st.out ++ tableRows st.table

/-- the whole operator in sorted-input mode: any batching, any limit, any `pick` -/
def groupbySortedSpill [DecidableEq K] (m : Mon S) (le : K → K → Bool) (prim : K → P)
    (vle : P → P → Bool) (pick : List (K × S) → Option (K × S)) (limit : Nat)
    (batches : List (List (K × S))) : List (K × S) :=
  ssFinish m le (batches.foldl (ssBatch m le prim vle pick limit) {})

/-- number of spills during input -/
def ssSpilled [DecidableEq K] (m : Mon S) (le : K → K → Bool) (prim : K → P)
    (vle : P → P → Bool) (pick : List (K × S) → Option (K × S)) (limit : Nat)
    (batches : List (List (K × S))) : Bool :=
  (batches.foldl (ssBatch m le prim vle pick limit) {}).spilled

end Zed.Agg
