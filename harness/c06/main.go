package main

// C06 — value ordering is a total preorder; sort and merge honour it at any memory limit.
//
// Sub-checks:
//   matrix  (T2) expr.Comparator / compare() over all pairs of a curated universe of boundary
//           values (both nullsMax settings) vs the Lean model of compareValues;
//           (S) reflexivity, antisymmetry and transitivity over *all* pairs and triples of the
//           universe on the real comparison results
//   sort    (T2) the real sort operator (runtime/sam/op/sort, sort.MemMaxBytes lowered, input in
//           batches of chosen sizes) vs the model of sort.Op (config, run formation, fast path,
//           k-way merge); (S) output is a permutation, non-decreasing, stable, nulls where the
//           flags say, and identical for every memory limit
//   query   (T2/S) the same through the compiler (`sort -r -nulls first k0 desc, k1`)
//   merge   (S) merge.Op over sorted parents yields a sorted interleaving (each parent's values
//           in order, every value once); (T2) every Pull result of the real operator (which
//           parent each value came from) replayed against the model of merge.Op (heap minimum,
//           whole-batch rule, read path up to PullerBatchValues): accepted, same values per Pull
//   nullsites (T2/S) nulls first/last at the sites that construct a comparator: see nullsites.go

import (
	"context"
	"encoding/json"
	"fmt"
	"math"
	"strings"
	"time"
	. "verifharness/hlib"

	zed "github.com/brimdata/super"
	"github.com/brimdata/super/order"
	"github.com/brimdata/super/pkg/field"
	"github.com/brimdata/super/runtime"
	"github.com/brimdata/super/runtime/sam/expr"
	"github.com/brimdata/super/runtime/sam/expr/function"
	"github.com/brimdata/super/runtime/sam/op/merge"
	sortop "github.com/brimdata/super/runtime/sam/op/sort"
	"github.com/brimdata/super/zbuf"
	"github.com/brimdata/super/zcode"
	"github.com/brimdata/super/zson"
)

func main() { Main("C06", runC06) }

// ---- the universe -----------------------------------------------------------------------------

type uval struct {
	Lit string
	Val zed.Value
}

var universeLits = []string{
	// int64 around 0, 2^53, 2^63
	"0", "1", "-1", "2", "127", "9007199254740991", "9007199254740992", "9007199254740993", "9007199254740994",
	"-9007199254740992", "-9007199254740993", "9223372036854775807", "9223372036854775806", "-9223372036854775808", "-9223372036854775807",
	// narrower ints
	"1(int8)", "-1(int8)", "127(int8)", "-128(int8)", "1(int16)", "1(int32)", "-2147483648(int32)",
	// unsigned
	"0(uint8)", "1(uint8)", "255(uint8)", "1(uint16)", "1(uint32)", "0(uint64)", "1(uint64)", "9007199254740992(uint64)", "9007199254740993(uint64)",
	"9223372036854775807(uint64)", "9223372036854775808(uint64)", "18446744073709551615(uint64)", "18446744073709551614(uint64)",
	// duration, time
	"0s", "1ns", "-1ns", "1s", "2562047h47m16.854775807s", "-2562047h47m16.854775808s",
	"1970-01-01T00:00:00Z", "1970-01-01T00:00:00.000000001Z", "1969-12-31T23:59:59.999999999Z", "2021-01-01T00:00:00Z",
	// floats
	"0.", "-0.", "1.", "-1.", "0.5", "1.5", "2.", "NaN", "+Inf", "-Inf", "9007199254740991.", "9007199254740992.", "9007199254740994.",
	"-9007199254740992.", "9223372036854775808.", "18446744073709551616.", "1e300", "-1e300", "5e-324",
	"1.(float32)", "1.5(float32)", "16777216.(float32)", "0.(float32)", "NaN(float32)", "+Inf(float32)", "1.(float16)", "0.5(float16)", "-Inf(float16)", "65504.(float16)",
	// bool, bytes, string
	"true", "false", "0x", "0x00", "0x01", "0x0102", "0xff", `""`, `"a"`, `"b"`, `"ab"`, `"a\u0000"`, `"é"`, `"z"`, `"A"`, `"aa"`,
	// ip, net
	"0.0.0.0", "1.2.3.4", "1.2.3.5", "255.255.255.255", "::", "::1", "::ffff:1.2.3.4", "2001:db8::1", "ffff::",
	"1.2.3.0/24", "10.0.0.0/8", "0.0.0.0/0", "::/0", "2001:db8::/32",
	// type values
	"<int64>", "<string>", "<uint8>", "<{a:int64}>", "<{a:string}>", "<{b:int64}>", "<[int64]>", "<|[int64]|>", "<(int64,string)>", "<x=int64>", "<y=int64>", "<error(string)>", "<|{int64:string}|>", "<null>",
	// nulls
	"null", "null(int64)", "null(uint8)", "null(float64)", "null(string)", "null(bool)", "null(ip)", "null(type)", "null([int64])", "null({a:int64})", "null(x=int64)", "null((int64,string))",
	// errors
	`error("missing")`, `error("quiet")`, `error("x")`, `error("y")`, "error(1)", "error({a:1})", `error(null(string))`,
	// arrays, sets
	"[]", "[1]", "[2]", "[1,2]", "[1,3]", "[1,2,3]", "[null(int64)]", "[1,null(int64)]", "[null(int64),1]", "[1.]", "[1.,2.]", "[NaN]", `["a"]`, `["a","b"]`, `["b"]`,
	"[[1]]", "[[1],[2]]", "[[]]", "[[1,2]]", `[1,"a"]`, `["a",1]`, "[1(uint8)]", "[2(uint8)]", "[true]", "[false]", "[1.2.3.4]", "[<int64>]", "[{a:1}]", "[{a:2}]",
	"|[1]|", "|[1,2]|", "|[2]|", `|["a"]|`, "|[1.]|", "|[]|",
	// records, maps, unions
	"{}", "{a:1}", "{a:2}", "{b:1}", "{a:1,b:2}", "{a:1,b:3}", `{a:"x"}`, "{a:null(int64)}", "{a:{b:1}}", "{a:[1]}",
	"|{1:2}|", "|{1:3}|", `|{"a":1}|`, "|{}|",
	"1((int64,string))", "2((int64,string))", `"a"((int64,string))`, "null((int64,string))", "1((int64,float64))", "1.((int64,float64))",
	// named
	"1(x=int64)", "2(x=int64)", "1(y=int64)", "1.(x=float64)", `"a"(x=string)`, "{a:1}(x={a:int64})", "[1](x=[int64])", "9007199254740993(x=int64)", "true(b=bool)",
	"{a:1(x=int64)}",
}

func buildUniverse(c *Ctx, zctx *zed.Context) []uval {
	var out []uval
	for _, l := range universeLits {
		v, err := zson.ParseValue(zctx, l)
		if err != nil {
			c.Stat("universe:unparsed")
			c.Note("universe literal %s does not parse: %v", l, err)
			continue
		}
		out = append(out, uval{l, v})
	}
	// native representations of numbers (a different code path in Value.Int/Uint/Float/Bytes)
	out = append(out,
		uval{"native:int64:9007199254740993", zed.NewInt64(9007199254740993)},
		uval{"native:int64:-1", zed.NewInt64(-1)},
		uval{"native:int64:min", zed.NewInt64(math.MinInt64)},
		uval{"native:uint64:max", zed.NewUint64(math.MaxUint64)},
		uval{"native:uint64:2^63", zed.NewUint64(1 << 63)},
		uval{"native:float64:2^53", zed.NewFloat64(9007199254740992)},
		uval{"native:float64:nan", zed.NewFloat64(math.NaN())},
		uval{"native:float64:-0", zed.NewFloat64(math.Copysign(0, -1))},
		uval{"native:float32:1.5", zed.NewFloat32(1.5)},
		uval{"native:bool:true", zed.True},
		uval{"native:duration:1s", zed.NewDuration(1e9)},
		uval{"native:time:0", zed.NewTime(0)},
	)
	// nested named types (no ZSON literal syntax): x=(y=int64), x=(z=int64), records over them
	i64 := func(n int64) zcode.Bytes { return zed.EncodeInt(n) }
	y, _ := zctx.LookupTypeNamed("y", zed.TypeInt64)
	z, _ := zctx.LookupTypeNamed("z", zed.TypeInt64)
	xy, _ := zctx.LookupTypeNamed("x", y)
	xz, _ := zctx.LookupTypeNamed("x", z)
	rec := func(t zed.Type, n int64) zed.Value {
		rt := zctx.MustLookupTypeRecord([]zed.Field{zed.NewField("a", t)})
		var b zcode.Builder
		b.Append(i64(n))
		return zed.NewValue(rt, b.Bytes())
	}
	out = append(out,
		uval{"prog:1(x=(y=int64))", zed.NewValue(xy, i64(1))},
		uval{"prog:2(x=(y=int64))", zed.NewValue(xy, i64(2))},
		uval{"prog:1(x=(z=int64))", zed.NewValue(xz, i64(1))},
		uval{"prog:{a:1(x=(y=int64))}", rec(xy, 1)},
		uval{"prog:{a:2(x=(y=int64))}", rec(xy, 2)},
		uval{"prog:{a:1(x=(z=int64))}", rec(xz, 1)},
		uval{"prog:{a:3(x=(z=int64))}", rec(xz, 3)},
		uval{"prog:<x=(y=int64)>", zctx.LookupTypeValue(xy)},
		uval{"prog:<x=(z=int64)>", zctx.LookupTypeValue(xz)},
	)
	return out
}

func valSexp(v zed.Value) string {
	body := "null"
	if !v.IsNull() {
		body = HexAtom(v.Bytes())
	}
	return "(" + HexAtom(zed.EncodeTypeValue(v.Type())) + " " + body + ")"
}

// class of a value for failure keys
type vclass struct {
	isFloat, isInt, bigInt, nestedNamed bool
	kind                                string
}

func classify(v zed.Value) vclass {
	var cl vclass
	t := v.Type()
	cl.nestedNamed = nestedNamed(SpecOf(t))
	if tv, ok := zed.TypeUnder(t).(*zed.TypeOfType); ok && !v.IsNull() {
		_ = tv
		if d, _ := zed.NewContext().DecodeTypeValue(v.Bytes()); d != nil && nestedNamed(SpecOf(d)) {
			cl.nestedNamed = true
		}
	}
	id := t.ID()
	cl.kind = zed.TypeUnder(t).Kind().String()
	if id < zed.IDTypeComplex {
		cl.kind = zed.PrimitiveName(zed.TypeUnder(t))
	}
	if v.IsNull() {
		cl.kind = "null:" + cl.kind
		return cl
	}
	switch {
	case zed.IsFloat(id):
		cl.isFloat = true
	case zed.IsSigned(id):
		cl.isInt = true
		x := v.Int()
		cl.bigInt = x > 1<<53 || x < -(1<<53)
	case zed.IsUnsigned(id):
		cl.isInt = true
		cl.bigInt = v.Uint() > 1<<53
	}
	return cl
}

func nestedNamed(t *TSpec) bool {
	if t.Kind == "named" && t.Elems[0].Kind == "named" {
		return true
	}
	for _, e := range t.Elems {
		if nestedNamed(e) {
			return true
		}
	}
	for _, f := range t.Fields {
		if nestedNamed(f.Type) {
			return true
		}
	}
	return false
}

func sgn(x int) int {
	switch {
	case x < 0:
		return -1
	case x > 0:
		return 1
	}
	return 0
}

func runMatrix(c *Ctx) {
	zctx := zed.NewContext()
	u := buildUniverse(c, zctx)
	n := len(u)
	c.StatN("matrix:universe", n)
	cls := make([]vclass, n)
	for i := range u {
		cls[i] = classify(u[i].Val)
		c.Stat("matrix:kind:" + cls[i].kind)
	}
	for i := 0; i < 3 && i < n; i++ {
		c.Sample(map[string]any{"value": u[i*37%n].Lit})
	}
	cmpFn := function.NewCompare(zctx)
	for _, nullsMax := range []bool{true, false} {
		cf := expr.NewValueCompareFn(order.Asc, nullsMax)
		cfd := expr.NewValueCompareFn(order.Desc, nullsMax)
		m := make([][]int, n)
		for i := range u {
			m[i] = make([]int, n)
			for j := range u {
				i, j := i, j
				rp := map[string]any{"check": "pair", "a": u[i].Lit, "b": u[j].Lit, "nullsMax": nullsMax}
				e, _ := Protect(func() error {
					m[i][j] = cf(u[i].Val, u[j].Val)
					if d := cfd(u[i].Val, u[j].Val); sgn(d) != -sgn(m[i][j]) && sgn(d) != sgn(cf(u[j].Val, u[i].Val)) {
						c.Fail("oracle", "C06:desc:"+cls[i].kind+":"+cls[j].kind, fmt.Sprintf("descending comparator gives %d for (%s, %s), ascending on swapped operands %d", d, u[i].Lit, u[j].Lit, cf(u[j].Val, u[i].Val)), rp)
					}
					r := cmpFn.Call(nil, []zed.Value{u[i].Val, u[j].Val, zed.NewBool(nullsMax)})
					if r.Type() != zed.TypeInt64 || int(r.Int()) != m[i][j] {
						c.Fail("oracle", "C06:comparefn:"+cls[i].kind+":"+cls[j].kind, fmt.Sprintf("compare(%s, %s, %v) = %s but Comparator gives %d", u[i].Lit, u[j].Lit, nullsMax, zson.FormatValue(r), m[i][j]), rp)
					}
					if nullsMax {
						// the two-argument form is documented to treat nulls as maximal
						r2 := cmpFn.Call(nil, []zed.Value{u[i].Val, u[j].Val})
						if r2.Type() != zed.TypeInt64 || int(r2.Int()) != m[i][j] {
							c.Fail("oracle", "C06:comparefn2:"+cls[i].kind+":"+cls[j].kind, fmt.Sprintf("compare(%s, %s) = %s but the nulls-max Comparator gives %d", u[i].Lit, u[j].Lit, zson.FormatValue(r2), m[i][j]), rp)
						}
					}
					return nil
				})
				if e != nil {
					c.Fail("panic", "C06:compare:panic:"+cls[i].kind+":"+cls[j].kind, fmt.Sprintf("compare(%s, %s): %v", u[i].Lit, u[j].Lit, e), rp)
					m[i][j] = 99
				}
				c.Eval(fmt.Sprintf("pair:%v:%d:%d", nullsMax, i, j))
			}
		}
		// (T2) model
		var req strings.Builder
		fmt.Fprintf(&req, "(C06 matrix %d", b2i(nullsMax))
		for _, v := range u {
			req.WriteString(" " + valSexp(v.Val))
		}
		req.WriteString(")")
		ans := c.Model().Call(req.String())
		rows := strings.Split(ans, "/")
		if len(rows) != n {
			// find the value the model refuses
			bad := ""
			for _, v := range u {
				if a := c.Model().Call("(C06 cmp 1 " + valSexp(v.Val) + " " + valSexp(v.Val) + ")"); a == "bad-val" || a == "bad-op" {
					bad = v.Lit
					break
				}
			}
			c.Fail("correspondence", "C06:matrix:model-refused", fmt.Sprintf("model answered %.80s (first refused value: %s)", ans, bad), map[string]any{"check": "matrix"})
		} else {
			for i := range u {
				for j := range u {
					c.Res.ModelCases++
					if m[i][j] == 99 {
						continue
					}
					if want := "<=>"[sgn(m[i][j])+1]; len(rows[i]) != n || rows[i][j] != want {
						c.Fail("correspondence", "C06:compare:"+cls[i].kind+":"+cls[j].kind,
							fmt.Sprintf("compareValues(%s, %s, nullsMax=%v) = %d, model %c", u[i].Lit, u[j].Lit, nullsMax, m[i][j], rows[i][j]),
							map[string]any{"check": "pair", "a": u[i].Lit, "b": u[j].Lit, "nullsMax": nullsMax})
					}
				}
			}
		}
		// (S) total preorder on the real results
		for i := range u {
			if m[i][i] != 0 {
				c.Fail("oracle", "C06:reflexivity:"+cls[i].kind, fmt.Sprintf("compare(%s, itself) = %d", u[i].Lit, m[i][i]), map[string]any{"check": "pair", "a": u[i].Lit, "b": u[i].Lit, "nullsMax": nullsMax})
			}
			for j := range u {
				if sgn(m[i][j]) != -sgn(m[j][i]) {
					c.Fail("oracle", "C06:antisymmetry:"+cls[i].kind+":"+cls[j].kind, fmt.Sprintf("compare(%s, %s) = %d but compare(%s, %s) = %d (nullsMax=%v)", u[i].Lit, u[j].Lit, m[i][j], u[j].Lit, u[i].Lit, m[j][i], nullsMax),
						map[string]any{"check": "pair", "a": u[i].Lit, "b": u[j].Lit, "nullsMax": nullsMax})
				}
			}
		}
		ntr := 0
		for i := range u {
			for j := range u {
				if m[i][j] > 0 {
					continue
				}
				for k := range u {
					if m[j][k] <= 0 && m[i][k] > 0 {
						ntr++
						key := transKey(cls[i], cls[j], cls[k])
						c.Fail("oracle", key, fmt.Sprintf("a=%s ≤ b=%s ≤ c=%s but compare(a, c) = %d (nullsMax=%v)", u[i].Lit, u[j].Lit, u[k].Lit, m[i][k], nullsMax),
							map[string]any{"check": "triple", "a": u[i].Lit, "b": u[j].Lit, "c": u[k].Lit, "nullsMax": nullsMax})
					}
				}
			}
		}
		c.Res.Evaluations += n * n * n
		c.StatN("matrix:triples", n*n*n)
		c.StatN("matrix:nontransitive-triples", ntr)
	}
}

func transKey(a, b, c vclass) string {
	anyFloat := a.isFloat || b.isFloat || c.isFloat
	anyBig := a.bigInt || b.bigInt || c.bigInt
	allNum := (a.isFloat || a.isInt) && (b.isFloat || b.isInt) && (c.isFloat || c.isInt)
	switch {
	case allNum && anyFloat && anyBig:
		return "C06:transitivity:int-float-beyond-2^53"
	case a.nestedNamed || b.nestedNamed || c.nestedNamed:
		return "C06:transitivity:nested-named-type"
	}
	return "C06:transitivity:other:" + a.kind + ":" + b.kind + ":" + c.kind
}

func b2i(b bool) int {
	if b {
		return 1
	}
	return 0
}

// ---- sort ----------------------------------------------------------------------------------------

type sortCase struct {
	Check      string     `json:"check"`
	Keys       [][]string `json:"keys"` // per row: literal of each key, "MISSING" = field absent
	Dirs       []bool     `json:"dirs"` // true = desc
	NullsFirst bool       `json:"nulls_first"`
	Reverse    bool       `json:"reverse"`
	Batches    []int      `json:"batches"` // batch sizes
	Limits     []int      `json:"limits"`
	Lossy      bool       `json:"lossy"`
	// KeyMode: "deref" = the harness's own field accessor (no per-type-id cache), "dot" = the
	// runtime's expr.DotExpr as the compiler builds it
	KeyMode string `json:"key_mode"`
}

// derefKey evaluates a top-level field by name on every call.
type derefKey struct {
	name string
	zctx *zed.Context
}

func (d *derefKey) Eval(_ expr.Context, this zed.Value) zed.Value {
	rt := zed.TypeRecordOf(this.Type())
	if rt == nil {
		return d.zctx.Missing()
	}
	i, ok := rt.IndexOfField(d.name)
	if !ok {
		return d.zctx.Missing()
	}
	it := this.Bytes().Iter()
	for j := 0; j < i; j++ {
		it.Next()
	}
	return zed.NewValue(rt.Fields[i].Type, it.Next())
}

func (sc *sortCase) keyEval(zctx *zed.Context, k int) expr.Evaluator {
	name := fmt.Sprintf("k%d", k)
	if sc.KeyMode == "dot" {
		return expr.NewDottedExpr(zctx, field.Path{name})
	}
	return &derefKey{name, zctx}
}

// recordTypes: number of distinct record types among the rows
func recordTypes(rows []zed.Value) int {
	seen := map[zed.Type]bool{}
	for _, r := range rows {
		seen[r.Type()] = true
	}
	return len(seen)
}

// key literal pools; "safe" pools never mix a float with an integer beyond 2^53
var keyPools = [][]string{
	{"0", "1", "2", "3", "-1", "5", "7", "null(int64)", "MISSING"},
	{"0", "1", "1(uint8)", "1(uint64)", "1.", "1.5", "2", "-1", "null", "MISSING", "0.5", "NaN", "-Inf"},
	{"9223372036854775807", "9223372036854775807(uint64)", "9223372036854775808(uint64)", "18446744073709551615(uint64)", "-9223372036854775808", "9223372036854775806", "0", "null(int64)", "null(uint64)", "MISSING"},
	{`"a"`, `"b"`, `"ab"`, `""`, "1", "null(string)", "MISSING", "true", "0x01", "1.2.3.4", "[1]", "[1,2]", "{a:1}", "<int64>"},
	{"1s", "2s", "-1s", "0s", "null(duration)", "1970-01-01T00:00:01Z", "1970-01-01T00:00:02Z", "null(time)", "1", "2"},
	{"1(x=int64)", "2(x=int64)", "1", "2", "1(y=int64)", "null(x=int64)", "MISSING", "1.5"},
	{"[1]", "[2]", "[1,2]", "[]", "[null(int64)]", "[1,null(int64)]", "null([int64])", "|[1]|", "|[2]|", `["a"]`},
	{"0.", "-0.", "1.", "NaN", "+Inf", "-Inf", "1.5(float32)", "1.(float16)", "null(float64)", "MISSING", "2"},
}
var lossyPool = []string{"9007199254740992", "9007199254740993", "9007199254740992.", "9007199254740994", "9007199254740994.", "9007199254740993(uint64)", "9007199254740991", "1", "null(int64)"}

func genSortCase(c *Ctx, lossy bool) *sortCase {
	r := c.Rng
	sc := &sortCase{Check: "sort", Lossy: lossy}
	nk := 1 + r.Intn(3)
	n := r.Intn(40)
	if r.Intn(5) == 0 {
		n = 40 + r.Intn(200)
	}
	pools := make([][]string, nk)
	for k := range pools {
		pools[k] = keyPools[r.Intn(len(keyPools))]
		if lossy && k == 0 {
			pools[k] = lossyPool
		}
		// few distinct values so that ties (stability) and later keys matter
		if r.Intn(2) == 0 {
			sub := []string{}
			for i := 0; i < 3; i++ {
				sub = append(sub, pools[k][r.Intn(len(pools[k]))])
			}
			pools[k] = sub
		}
		sc.Dirs = append(sc.Dirs, r.Intn(3) == 0)
	}
	for i := 0; i < n; i++ {
		row := make([]string, nk)
		for k := range row {
			row[k] = pools[k][r.Intn(len(pools[k]))]
		}
		sc.Keys = append(sc.Keys, row)
	}
	sc.NullsFirst = r.Intn(3) == 0
	sc.Reverse = r.Intn(4) == 0
	for left := n; left > 0; {
		b := 1 + r.Intn(12)
		if r.Intn(4) == 0 {
			b = 1 + r.Intn(60)
		}
		if b > left {
			b = left
		}
		sc.Batches = append(sc.Batches, b)
		left -= b
	}
	sc.Limits = []int{1 << 30, 1, []int{2 + r.Intn(60), 40 + r.Intn(400)}[r.Intn(2)]}
	return sc
}

type sliceBatchPuller struct {
	batches [][]zed.Value
	i       int
	eos     bool
}

func (p *sliceBatchPuller) Pull(done bool) (zbuf.Batch, error) {
	if done || p.i >= len(p.batches) {
		p.i = len(p.batches)
		return nil, nil
	}
	b := zbuf.NewArray(p.batches[p.i])
	p.i++
	return b, nil
}

func (sc *sortCase) rows(zctx *zed.Context) ([]zed.Value, error) {
	var out []zed.Value
	for i, ks := range sc.Keys {
		var fs []string
		for k, lit := range ks {
			if lit != "MISSING" {
				fs = append(fs, fmt.Sprintf("k%d:%s", k, lit))
			}
		}
		fs = append(fs, fmt.Sprintf("id:%d", i))
		v, err := zson.ParseValue(zctx, "{"+strings.Join(fs, ",")+"}")
		if err != nil {
			return nil, fmt.Errorf("row %v: %w", ks, err)
		}
		out = append(out, v)
	}
	return out, nil
}

func rowID(v zed.Value) int {
	d := v.Deref("id")
	if d == nil {
		return -1
	}
	return int(d.Int())
}

// realSort runs the real sort operator over the rows in the given batches with the given limit.
func realSort(zctx *zed.Context, sc *sortCase, rows []zed.Value, limit int) (ids []int, err error) {
	e, _ := Protect(func() error {
		old := sortop.MemMaxBytes
		sortop.MemMaxBytes = limit
		defer func() { sortop.MemMaxBytes = old }()
		ctx, cancel := context.WithTimeout(context.Background(), 60*time.Second)
		defer cancel()
		rctx := runtime.NewContext(ctx, zctx)
		defer rctx.Cancel()
		var bs [][]zed.Value
		off := 0
		for _, n := range sc.Batches {
			bs = append(bs, rows[off:off+n])
			off += n
		}
		var fields []expr.SortEvaluator
		for k, d := range sc.Dirs {
			o := order.Asc
			if d {
				o = order.Desc
			}
			fields = append(fields, expr.NewSortEvaluator(sc.keyEval(zctx, k), o))
		}
		op := sortop.New(rctx, &sliceBatchPuller{batches: bs}, fields, sc.NullsFirst, sc.Reverse, expr.Resetters{})
		for {
			b, err := op.Pull(false)
			if err != nil {
				return err
			}
			if b == nil {
				return nil
			}
			for _, v := range b.Values() {
				ids = append(ids, rowID(v))
			}
		}
	})
	return ids, e
}

func keyVal(zctx *zed.Context, lit string) (zed.Value, error) {
	if lit == "MISSING" {
		return zed.Null, nil
	}
	return zson.ParseValue(zctx, lit)
}

func checkSort(c *Ctx, sc *sortCase) {
	zctx := zed.NewContext()
	rows, err := sc.rows(zctx)
	if err != nil {
		c.Stat("sort:unparsed")
		return
	}
	n := len(rows)
	c.Eval(fmt.Sprintf("sort:%v:%v:%v:%v:%v", sc.Keys, sc.Dirs, sc.NullsFirst, sc.Reverse, sc.Batches))
	c.Stat(fmt.Sprintf("sort:keys:%d", len(sc.Dirs)))
	c.Stat(fmt.Sprintf("sort:rows:%s", bucket(n)))
	rp := sc
	var outs [][]int
	t00 := time.Now()
	defer func() { c.StatN("sort:total-ms", int(time.Since(t00).Milliseconds())) }()
	for _, limit := range sc.Limits {
		ids, err := realSort(zctx, sc, rows, limit)
		if err != nil {
			kind := "oracle"
			if strings.Contains(err.Error(), "panic") {
				kind = "panic"
			}
			c.Fail(kind, "C06:sort:error", fmt.Sprintf("sort failed at limit %d: %v", limit, err), rp)
			return
		}
		outs = append(outs, ids)
	}
	cls := "safe"
	if sc.Lossy {
		cls = "int-float-beyond-2^53"
	}
	if sc.KeyMode == "dot" {
		if recordTypes(rows) > 1 {
			cls += ":dotexpr:several-record-types"
		} else {
			cls += ":dotexpr:one-record-type"
		}
	}
	// (S) spill invariance
	for li := 1; li < len(outs); li++ {
		if fmt.Sprint(outs[li]) != fmt.Sprint(outs[0]) {
			c.Fail("oracle", "C06:spill-invariance:"+cls, fmt.Sprintf("sort output differs between memory limit %d and %d: %v vs %v", sc.Limits[0], sc.Limits[li], outs[0], outs[li]), rp)
			break
		}
	}
	// (S) permutation, sorted, stable, null placement
	dirs := append([]bool(nil), sc.Dirs...)
	if sc.Reverse {
		for i := range dirs {
			dirs[i] = !dirs[i]
		}
	}
	nullsMax := !sc.NullsFirst
	if dirs[0] {
		nullsMax = !nullsMax
	}
	var fields []expr.SortEvaluator
	for k, d := range dirs {
		o := order.Asc
		if d {
			o = order.Desc
		}
		fields = append(fields, expr.NewSortEvaluator(&derefKey{fmt.Sprintf("k%d", k), zctx}, o))
	}
	cmp := expr.NewComparator(nullsMax, fields...).WithMissingAsNull()
	for li, ids := range outs {
		seen := make([]bool, n)
		ok := len(ids) == n
		for _, id := range ids {
			if id < 0 || id >= n || seen[id] {
				ok = false
				break
			}
			seen[id] = true
		}
		if !ok {
			c.Fail("oracle", "C06:sort:permutation:"+cls, fmt.Sprintf("sort output at limit %d is not a permutation of the %d input rows: %v", sc.Limits[li], n, ids), rp)
			return
		}
		for i := 0; i+1 < len(ids); i++ {
			v := cmp.Compare(rows[ids[i]], rows[ids[i+1]])
			if v > 0 {
				c.Fail("oracle", "C06:sort:order:"+cls, fmt.Sprintf("limit %d: output row %v precedes %v but compares greater", sc.Limits[li], sc.Keys[ids[i]], sc.Keys[ids[i+1]]), rp)
				break
			}
			if v == 0 && ids[i] > ids[i+1] {
				c.Fail("oracle", "C06:sort:stability:"+cls, fmt.Sprintf("limit %d: rows %d and %d compare equal but left the sort in the opposite order", sc.Limits[li], ids[i+1], ids[i]), rp)
				break
			}
		}
		// primary-key nulls (null or missing) are first / last as the flag says
		isNull := func(id int) bool { l := sc.Keys[id][0]; return l == "MISSING" || strings.HasPrefix(l, "null") }
		firstNonNull, lastNonNull, firstNull, lastNull := -1, -1, -1, -1
		for pos, id := range ids {
			if isNull(id) {
				if firstNull < 0 {
					firstNull = pos
				}
				lastNull = pos
			} else {
				if firstNonNull < 0 {
					firstNonNull = pos
				}
				lastNonNull = pos
			}
		}
		if firstNull >= 0 && firstNonNull >= 0 {
			if sc.NullsFirst && lastNull > firstNonNull {
				c.Fail("oracle", "C06:sort:nulls-first:"+cls, fmt.Sprintf("nulls first requested, a null key is at position %d after a value at %d", lastNull, firstNonNull), rp)
			}
			if !sc.NullsFirst && firstNull < lastNonNull {
				c.Fail("oracle", "C06:sort:nulls-last:"+cls, fmt.Sprintf("nulls last requested, a null key is at position %d before a value at %d", firstNull, lastNonNull), rp)
			}
		}
	}
	if sc.Lossy {
		return
	}
	// (T2) model of sort.Op for every limit
	var reqs []string
	for _, limit := range sc.Limits {
		var req strings.Builder
		fmt.Fprintf(&req, "(C06 sortop %d %d (", b2i(sc.NullsFirst), b2i(sc.Reverse))
		for i, d := range sc.Dirs {
			if i > 0 {
				req.WriteString(" ")
			}
			fmt.Fprint(&req, b2i(d))
		}
		fmt.Fprintf(&req, ") %d (", limit)
		off := 0
		for _, bn := range sc.Batches {
			req.WriteString("(")
			for i := off; i < off+bn; i++ {
				fmt.Fprintf(&req, "(%d %d", i, len(rows[i].Bytes()))
				for _, lit := range sc.Keys[i] {
					kv, err := keyVal(zctx, lit)
					if err != nil {
						return
					}
					req.WriteString(" " + valSexp(kv))
				}
				req.WriteString(")")
			}
			req.WriteString(")")
			off += bn
		}
		req.WriteString("))")
		reqs = append(reqs, req.String())
	}
	t0 := time.Now()
	answers := c.Model().Batch(reqs)
	c.StatN("sort:model-ms", int(time.Since(t0).Milliseconds()))
	for li, a := range answers {
		c.Res.ModelCases++
		var want []string
		for _, id := range outs[li] {
			want = append(want, fmt.Sprint(id))
		}
		if a != strings.Join(want, " ") {
			c.Fail("correspondence", "C06:sortop", fmt.Sprintf("limit %d: real %v model %s", sc.Limits[li], outs[li], a), rp)
			break
		}
	}
}

func bucket(n int) string {
	switch {
	case n == 0:
		return "0"
	case n < 10:
		return "1-9"
	case n < 40:
		return "10-39"
	}
	return "40+"
}

func runSort(c *Ctx) {
	for i, n := 0, c.N(140, 1600); i < n; i++ {
		sc := genSortCase(c, false)
		if i < 2 {
			c.Sample(sc)
		}
		checkSort(c, sc)
	}
	for i, n := 0, c.N(20, 200); i < n; i++ {
		checkSort(c, genSortCase(c, true))
	}
	// the runtime's own field accessor
	for i, n := 0, c.N(60, 600); i < n; i++ {
		sc := genSortCase(c, false)
		sc.KeyMode = "dot"
		if i%2 == 0 {
			// one record type: every row has every key, all of one type per key
			for _, row := range sc.Keys {
				for k := range row {
					row[k] = []string{"0", "1", "2", "-1", "5"}[c.Rng.Intn(5)]
				}
			}
		}
		checkSort(c, sc)
	}
}

// ---- through the compiler -------------------------------------------------------------------------

func checkQuery(c *Ctx, sc *sortCase) {
	zctx := zed.NewContext()
	rows, err := sc.rows(zctx)
	if err != nil || len(rows) == 0 {
		return
	}
	var text []string
	for _, r := range rows {
		text = append(text, zson.FormatValue(r))
	}
	q := "sort"
	if sc.Reverse {
		q += " -r"
	}
	if sc.NullsFirst {
		q += " -nulls first"
	}
	var ks []string
	for k, d := range sc.Dirs {
		s := fmt.Sprintf("k%d", k)
		if d {
			s += " desc"
		}
		ks = append(ks, s)
	}
	q += " " + strings.Join(ks, ", ")
	c.Eval("query:" + q + fmt.Sprint(sc.Keys))
	c.Stat("query:cases")
	direct, err := realSort(zctx, sc, rows, 1<<30)
	if err != nil {
		return
	}
	var outs [][]int
	for _, limit := range []int{1 << 30, 1} {
		old := sortop.MemMaxBytes
		sortop.MemMaxBytes = limit
		res, err := QueryZSON(q, strings.Join(text, "\n"))
		sortop.MemMaxBytes = old
		if err != nil {
			c.Fail("oracle", "C06:query:error", fmt.Sprintf("`%s`: %v", q, err), sc)
			return
		}
		z2 := zed.NewContext()
		var ids []int
		for _, s := range res {
			v, err := zson.ParseValue(z2, s)
			if err != nil {
				return
			}
			ids = append(ids, rowID(v))
		}
		outs = append(outs, ids)
	}
	if fmt.Sprint(outs[0]) != fmt.Sprint(direct) {
		c.Fail("correspondence", "C06:query:flags", fmt.Sprintf("`%s` gives %v, the sort operator with the same flags %v", q, outs[0], direct), sc)
	}
	if fmt.Sprint(outs[0]) != fmt.Sprint(outs[1]) {
		cls := "one-record-type"
		if recordTypes(rows) > 1 {
			cls = "several-record-types"
		}
		c.Fail("oracle", "C06:spill-invariance:query:dotexpr:"+cls, fmt.Sprintf("`%s` gives %v in memory and %v with sort.MemMaxBytes=1", q, outs[0], outs[1]), sc)
	}
}

func runQuery(c *Ctx) {
	for i, n := 0, c.N(15, 120); i < n; i++ {
		sc := genSortCase(c, false)
		if i%5 == 0 {
			// enough rows for several reader batches
			for len(sc.Keys) < 250 {
				sc.Keys = append(sc.Keys, sc.Keys...)
				if len(sc.Keys) == 0 {
					break
				}
			}
		}
		sc.Check = "query"
		sc.Batches = []int{len(sc.Keys)}
		checkQuery(c, sc)
	}
}

// ---- merge ------------------------------------------------------------------------------------------

type mergeCase struct {
	Check    string       `json:"check"`
	Parents  [][][]string `json:"parents"` // parent → batches → key literal
	NullsMax bool         `json:"nulls_max"`
	Desc     bool         `json:"desc"`
}

func genMergeCase(c *Ctx) *mergeCase {
	r := c.Rng
	mc := &mergeCase{Check: "merge", NullsMax: r.Intn(2) == 0, Desc: r.Intn(3) == 0}
	pool := keyPools[r.Intn(len(keyPools))]
	np := 1 + r.Intn(5)
	maxVals, maxBatch := 30, 6
	if r.Intn(6) == 0 {
		// long overlapping batches: the read path runs into the value limit of the zbuf puller
		np, maxVals, maxBatch = 2+r.Intn(2), 160, 90
	}
	for p := 0; p < np; p++ {
		var vals []string
		for i, n := 0, r.Intn(maxVals); i < n; i++ {
			vals = append(vals, pool[r.Intn(len(pool))])
		}
		var bs [][]string
		for len(vals) > 0 {
			b := 1 + r.Intn(maxBatch)
			if b > len(vals) {
				b = len(vals)
			}
			bs = append(bs, vals[:b])
			vals = vals[b:]
		}
		mc.Parents = append(mc.Parents, bs)
	}
	return mc
}

func checkMerge(c *Ctx, mc *mergeCase) {
	zctx := zed.NewContext()
	o := order.Asc
	if mc.Desc {
		o = order.Desc
	}
	cmp := expr.NewComparator(mc.NullsMax, expr.NewSortEvaluator(expr.NewDottedExpr(zctx, field.Path{"k"}), o)).WithMissingAsNull()
	// sort each parent with the comparator (the precondition of the property), keep batch sizes
	type rowT struct {
		v      zed.Value
		parent int
		seq    int
	}
	var parents []zbuf.Puller
	var all [][]rowT
	var req strings.Builder
	fmt.Fprintf(&req, "(C06 merge %d (%d) (", b2i(mc.NullsMax), b2i(mc.Desc))
	modelOK := true
	id := 0
	for p, bs := range mc.Parents {
		var vals []zed.Value
		var sizes []int
		for _, b := range bs {
			sizes = append(sizes, len(b))
			for _, lit := range b {
				f := "k:" + lit + ","
				if lit == "MISSING" {
					f = ""
				}
				v, err := zson.ParseValue(zctx, fmt.Sprintf("{%sp:%d,id:%d}", f, p, id))
				if err != nil {
					return
				}
				id++
				vals = append(vals, v)
			}
		}
		cmp.SortStable(vals)
		var rs []rowT
		for i, v := range vals {
			rs = append(rs, rowT{v, p, i})
		}
		all = append(all, rs)
		var batches [][]zed.Value
		off := 0
		req.WriteString("(")
		for _, n := range sizes {
			batches = append(batches, vals[off:off+n])
			req.WriteString("(")
			for _, v := range vals[off : off+n] {
				k := zed.Null
				if d := v.Deref("k"); d != nil {
					k = *d
				}
				fmt.Fprintf(&req, "(%d %s)", rowID(v), valSexp(k))
			}
			req.WriteString(")")
			off += n
		}
		req.WriteString(")")
		parents = append(parents, &sliceBatchPuller{batches: batches})
	}
	req.WriteString(") (")
	c.Eval(fmt.Sprintf("merge:%v:%v:%v", mc.Parents, mc.NullsMax, mc.Desc))
	c.Stat(fmt.Sprintf("merge:parents:%d", len(mc.Parents)))
	var out []zed.Value
	var pulls [][]zed.Value
	e, _ := Protect(func() error {
		ctx, cancel := context.WithTimeout(context.Background(), 30*time.Second)
		defer cancel()
		m := merge.New(ctx, parents, cmp.Compare, expr.Resetters{})
		for {
			b, err := m.Pull(false)
			if err != nil {
				return err
			}
			if b == nil {
				return nil
			}
			var one []zed.Value
			for _, v := range b.Values() {
				out = append(out, v.Copy())
				one = append(one, v.Copy())
			}
			pulls = append(pulls, one)
		}
	})
	if e != nil {
		kind := "oracle"
		if strings.Contains(e.Error(), "panic") {
			kind = "panic"
		}
		c.Fail(kind, "C06:merge:error", e.Error(), mc)
		return
	}
	total := 0
	for _, rs := range all {
		total += len(rs)
	}
	if len(out) != total {
		c.Fail("oracle", "C06:merge:count", fmt.Sprintf("merge of %d values produced %d", total, len(out)), mc)
		return
	}
	next := make([]int, len(all))
	for i, v := range out {
		p := int(v.Deref("p").Int())
		if next[p] >= len(all[p]) || rowID(all[p][next[p]].v) != rowID(v) {
			c.Fail("oracle", "C06:merge:interleaving", fmt.Sprintf("output value %d (%s) is not the next value of parent %d", i, zson.FormatValue(v), p), mc)
			return
		}
		next[p]++
		if i > 0 && cmp.Compare(out[i-1], v) > 0 {
			c.Fail("oracle", "C06:merge:order", fmt.Sprintf("output value %s precedes %s but compares greater", zson.FormatValue(out[i-1]), zson.FormatValue(v)), mc)
			return
		}
	}
	// (T2) the model of merge.Op accepts exactly this run: every Pull result is what the heap of
	// parents, the whole-batch rule and the read path (up to PullerBatchValues values) allow
	if !modelOK {
		return
	}
	var want []string
	for _, one := range pulls {
		req.WriteString("(")
		var ts []string
		for i, v := range one {
			if i > 0 {
				req.WriteString(" ")
			}
			fmt.Fprint(&req, v.Deref("p").Int())
			ts = append(ts, fmt.Sprint(rowID(v)))
		}
		req.WriteString(")")
		want = append(want, strings.Join(ts, " "))
		c.Stat(fmt.Sprintf("merge:pull:%s", bucket(len(one))))
		if len(one) >= 100 {
			c.Stat("merge:pull:value-limit")
		}
	}
	req.WriteString("))")
	a := c.Model().Call(req.String())
	c.Res.ModelCases++
	if w := "ok " + strings.Join(want, "/"); a != w {
		var sizes []int
		for _, one := range pulls {
			sizes = append(sizes, len(one))
		}
		c.Fail("correspondence", "C06:mergeop", fmt.Sprintf("real Pull results (sizes %v) %s; model: %s", sizes, w, a), mc)
	}
}

func runMerge(c *Ctx) {
	for i, n := 0, c.N(150, 3000); i < n; i++ {
		checkMerge(c, genMergeCase(c))
	}
}

// ---- main ---------------------------------------------------------------------------------------------

func runC06(c *Ctx) {
	c.Rule("matrix: every pair and triple of a curated universe of boundary values (ints/uints around 2^53 and 2^63, floats incl. NaN/±Inf/-0/float16/32, " +
		"durations, times, strings, bytes, ips, nets, type values, nulls of each type, errors incl. missing, arrays, sets, records, maps, unions, named and nested-named, native representations), " +
		"both nullsMax settings; sort: 0-240 rows with 1-3 keys from 8 pools (few distinct values → ties), asc/desc, -r, nulls first/last, batch sizes 1-60, " +
		"sort.MemMaxBytes ∈ {2^30, 1, small, medium}; merge: 1-5 sorted parents in batches of 1-6; distinct by the full input")
	_ = zcode.Bytes(nil)
	if c.Replay != nil {
		replayC06(c)
		return
	}
	for _, rc := range c.CorpusCases() {
		c.Replay = rc
		replayC06(c)
		c.Replay = nil
	}
	if c.Want("matrix") {
		runMatrix(c)
	}
	if c.Want("sort") {
		runSort(c)
	}
	if c.Want("query") {
		runQuery(c)
	}
	if c.Want("merge") {
		runMerge(c)
	}
	if c.Want("nullsites") {
		runNullSites(c)
	}
}

func replayC06(c *Ctx) {
	var r struct {
		Check    string `json:"check"`
		A, B, C  string
		NullsMax bool `json:"nullsMax"`
	}
	if err := json.Unmarshal(c.Replay, &r); err != nil {
		c.Note("replay not understood: %v", err)
		return
	}
	c.Eval("replay")
	switch r.Check {
	case "pair", "triple", "matrix":
		zctx := zed.NewContext()
		cf := expr.NewValueCompareFn(order.Asc, r.NullsMax)
		var vs []zed.Value
		var cl []vclass
		for _, l := range []string{r.A, r.B, r.C} {
			if l == "" {
				continue
			}
			v, err := zson.ParseValue(zctx, l)
			if err != nil {
				c.Note("replay literal %s: %v", l, err)
				return
			}
			vs = append(vs, v)
			cl = append(cl, classify(v))
		}
		if len(vs) == 3 {
			ab, bc, ac := cf(vs[0], vs[1]), cf(vs[1], vs[2]), cf(vs[0], vs[2])
			if ab <= 0 && bc <= 0 && ac > 0 {
				c.Fail("oracle", transKey(cl[0], cl[1], cl[2]), fmt.Sprintf("a=%s ≤ b=%s ≤ c=%s but compare(a, c) = %d", r.A, r.B, r.C, ac), r)
			}
		} else if len(vs) == 2 {
			if sgn(cf(vs[0], vs[1])) != -sgn(cf(vs[1], vs[0])) {
				c.Fail("oracle", "C06:antisymmetry:"+cl[0].kind+":"+cl[1].kind, "replayed", r)
			}
			a := c.Model().Call(fmt.Sprintf("(C06 cmp %d %s %s)", b2i(r.NullsMax), valSexp(vs[0]), valSexp(vs[1])))
			if want := string("<=>"[sgn(cf(vs[0], vs[1]))+1]); a != want {
				c.Fail("correspondence", "C06:compare:"+cl[0].kind+":"+cl[1].kind, fmt.Sprintf("real %s model %s", want, a), r)
			}
		}
	case "sort":
		var sc sortCase
		if json.Unmarshal(c.Replay, &sc) == nil {
			checkSort(c, &sc)
		}
	case "query":
		var sc sortCase
		if json.Unmarshal(c.Replay, &sc) == nil {
			checkQuery(c, &sc)
		}
	case "merge":
		var mc mergeCase
		if json.Unmarshal(c.Replay, &mc) == nil {
			checkMerge(c, &mc)
		}
	case "nullsites":
		var nc nsCase
		if json.Unmarshal(c.Replay, &nc) == nil {
			checkNullSites(c, &nc)
		}
	default:
		c.Note("replay check %q not understood", r.Check)
	}
}
