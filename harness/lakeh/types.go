// Package lakeh is the shared machinery of the C13 / C14 / C15 harnesses: operation
// histories on a real throw-away lake, observed after every step (query results, object
// metadata, object file contents, readability of every branch and commit), the same
// history through the Lean model (driver protocol of Zed.Model.LakeDrv), and the trivial
// references the oracles compare the real code with.
package lakeh

import (
	"encoding/hex"
	"fmt"
	"sort"
	"strings"

	zed "github.com/brimdata/super"
	"github.com/brimdata/super/pkg/field"
	"github.com/brimdata/super/zson"
)

// Cfg is a pool configuration.
type Cfg struct {
	Key    string `json:"key"` // "k", "a.b" or "this"
	Desc   bool   `json:"desc"`
	Thresh int64  `json:"thresh"`
	Stride int    `json:"stride"`
}

// Op is one operation of a history.  Object ids and commit ids are *abstract*: object
// ids number the data objects in order of creation (1-based, ties within one operation in
// canonical content order), commit ids number the successful commits (1-based, 0 = no
// commit); ids >= Unknown stand for a fresh random KSUID.
type Op struct {
	Kind   string `json:"kind"` // load delete delwhere compact addvec delvec vacuum branch merge revert
	Branch int    `json:"b,omitempty"`
	Vals   []int  `json:"vals,omitempty"`   // load: value tokens in input order
	IDs    []int  `json:"ids,omitempty"`    // delete / compact / vectors
	Pred   string `json:"pred,omitempty"`   // delete-where
	Vec    bool   `json:"vec,omitempty"`    // compact: write vectors
	Commit int    `json:"commit,omitempty"` // revert / branch parent / vacuum
	Child  int    `json:"child,omitempty"`  // merge
	Name   int    `json:"name,omitempty"`   // new branch
}

const Unknown = 9000

func (o Op) String() string {
	switch o.Kind {
	case "load":
		return fmt.Sprintf("load(b%d,%v)", o.Branch, o.Vals)
	case "delete", "addvec", "delvec":
		return fmt.Sprintf("%s(b%d,%v)", o.Kind, o.Branch, o.IDs)
	case "delwhere":
		return fmt.Sprintf("delwhere(b%d,%q)", o.Branch, o.Pred)
	case "compact":
		return fmt.Sprintf("compact(b%d,%v,vec=%v)", o.Branch, o.IDs, o.Vec)
	case "vacuum":
		return fmt.Sprintf("vacuum(c%d)", o.Commit)
	case "branch":
		return fmt.Sprintf("branch(b%d@c%d)", o.Name, o.Commit)
	case "merge":
		return fmt.Sprintf("merge(b%d->b%d)", o.Child, o.Branch)
	case "revert":
		return fmt.Sprintf("revert(b%d,c%d)", o.Branch, o.Commit)
	}
	return o.Kind
}

// History is a replayable case.
type History struct {
	Cfg     Cfg      `json:"cfg"`
	Vals    []string `json:"vals"` // ZSON text per token
	Keys    []string `json:"keys"` // key atom per token: n | i<int> | s<hex>
	Ops     []Op     `json:"ops"`
	Profile string   `json:"profile,omitempty"`
}

// Val is a table entry of a history's value alphabet.
type Val struct {
	Text  string // canonical ZSON (zson.FormatValue)
	Key   string // intended pool key of the value (the oracle's reading of the property)
	MKey  string // pool key as the implementation derives it (what the model is told)
	Bytes []byte // zcode body
	Ty    int    // interned type
	KB    int    // len(key.Bytes()) of the pool key as the writer derives it (seek-index trigger)
}

type Table struct {
	Vals   []Val
	byText map[string]int
}

func keyPath(key string) field.Path { return field.Dotted(key) }

// NewTable parses the value alphabet with the real ZSON parser (bytes and types are the real
// ones; the key atom is the generator's).
func NewTable(cfg Cfg, texts, keys []string) (*Table, error) {
	t := &Table{byText: map[string]int{}}
	zctx := zed.NewContext()
	types := map[string]int{}
	for i, s := range texts {
		v, err := zson.ParseValue(zctx, s)
		if err != nil {
			return nil, fmt.Errorf("value %q: %w", s, err)
		}
		ts := zson.FormatType(v.Type())
		ty, ok := types[ts]
		if !ok {
			ty = len(types)
			types[ts] = ty
		}
		text := zson.FormatValue(v)
		if _, dup := t.byText[text]; dup {
			return nil, fmt.Errorf("duplicate value %q in alphabet", text)
		}
		t.byText[text] = i
		mkey := keys[i]
		if cfg.Key == "this" {
			// sort key path ["this"] is looked up as a *field* named this: missing -> null
			mkey = "n"
		}
		kv := v.DerefPath(keyPath(cfg.Key)).MissingAsNull()
		t.Vals = append(t.Vals, Val{Text: text, Key: keys[i], MKey: mkey, Bytes: append([]byte(nil), v.Bytes()...), Ty: ty, KB: len(kv.Bytes())})
	}
	return t, nil
}

func (t *Table) Tok(text string) (int, bool) {
	i, ok := t.byText[text]
	return i, ok
}

func (t *Table) Toks(texts []string) ([]int, error) {
	out := make([]int, len(texts))
	for i, s := range texts {
		k, ok := t.byText[s]
		if !ok {
			return nil, fmt.Errorf("value %s is not in the history's alphabet", s)
		}
		out[i] = k
	}
	return out, nil
}

func (t *Table) Texts(toks []int) string {
	var sb strings.Builder
	for _, k := range toks {
		sb.WriteString(t.Vals[k].Text)
		sb.WriteByte('\n')
	}
	return sb.String()
}

// KeyLess is the harness's own (independent) reading of the pool-key order: int64 before
// string, null/missing last; ints numerically, strings bytewise.
func KeyCmp(a, b string) int {
	rank := func(s string) int {
		switch s[0] {
		case 'i':
			return 0
		case 's':
			return 1
		}
		return 2
	}
	ra, rb := rank(a), rank(b)
	if ra != rb {
		if ra < rb {
			return -1
		}
		return 1
	}
	switch ra {
	case 0:
		var x, y int64
		fmt.Sscan(a[1:], &x)
		fmt.Sscan(b[1:], &y)
		switch {
		case x < y:
			return -1
		case x > y:
			return 1
		}
		return 0
	case 1:
		x, _ := hex.DecodeString(strings.TrimPrefix(a[1:], "-"))
		y, _ := hex.DecodeString(strings.TrimPrefix(b[1:], "-"))
		return strings.Compare(string(x), string(y))
	}
	return 0
}

// CanonTies sorts the tokens within every maximal run of equal pool keys: the order of
// equal-key values that live in different objects is not fixed by the property beyond
// being deterministic.
func (t *Table) CanonTies(seq []int) []int {
	out := append([]int(nil), seq...)
	i := 0
	for i < len(out) {
		j := i + 1
		for j < len(out) && KeyCmp(t.Vals[out[j]].MKey, t.Vals[out[i]].MKey) == 0 {
			j++
		}
		sort.Ints(out[i:j])
		i = j
	}
	return out
}

func SortedInts(xs []int) []int {
	ys := append([]int(nil), xs...)
	sort.Ints(ys)
	return ys
}

func EqInts(a, b []int) bool {
	if len(a) != len(b) {
		return false
	}
	for i := range a {
		if a[i] != b[i] {
			return false
		}
	}
	return true
}

// MsSub returns a - b as multisets of ints (sorted).
func MsSub(a, b []int) []int {
	cnt := map[int]int{}
	for _, x := range b {
		cnt[x]++
	}
	var out []int
	for _, x := range a {
		if cnt[x] > 0 {
			cnt[x]--
			continue
		}
		out = append(out, x)
	}
	sort.Ints(out)
	return out
}

// ---- observations -------------------------------------------------------------------

// SeekObs is one entry of an object's seek index (byte offsets are not compared).
type SeekObs struct {
	Min string `json:"min"`
	Max string `json:"max"`
	Off int    `json:"off"`
	Cnt int    `json:"cnt"`
}

type ObjObs struct {
	ID    int       `json:"id"`
	Min   string    `json:"min"`
	Max   string    `json:"max"`
	Count int       `json:"count"`
	Vec   bool      `json:"vec"`
	Toks  []int     `json:"toks"` // file content in file order; nil when the file is gone
	Gone  bool      `json:"gone,omitempty"`
	Seek  []SeekObs `json:"seek,omitempty"`
	Size  int64     `json:"size,omitempty"` // stored size in bytes (not compared with the model)
}

type BranchObs struct {
	Name   int      `json:"name"`
	Tip    int      `json:"tip"`
	Status string   `json:"status"`           // ok or an error class
	Objs   []ObjObs `json:"objs"`             // sorted by id
	Lister []int    `json:"lister,omitempty"` // object ids in the order of the :objects meta query
	Scan   []int    `json:"scan"`
}

type CommitObs struct {
	ID     int    `json:"id"`
	Status string `json:"status"`
	Scan   []int  `json:"scan"`
}

type StepObs struct {
	Res      string      `json:"res"`
	ErrText  string      `json:"err,omitempty"`
	Parts    [][]int     `json:"parts,omitempty"`
	Dels     []int       `json:"dels,omitempty"` // delete-where: tokens the predicate is true of
	Branches []BranchObs `json:"branches"`
	Commits  []CommitObs `json:"commits"`
	// cold probe (C13): what a freshly opened handle returned right after the operation
	ColdCommits  []CommitObs `json:"cold_commits,omitempty"`
	ColdBranches []BranchObs `json:"cold_branches,omitempty"`
}

// ErrClass maps a real error to the model's error enum.
func ErrClass(err error) string {
	if err == nil {
		return "ok"
	}
	s := err.Error()
	has := func(x string) bool { return strings.Contains(s, x) }
	switch {
	case has("panic:"):
		return "panic"
	case has("delete of a non-existent data object"):
		return "no-object"
	case has("add of a duplicate data object"):
		return "dup-object"
	case has("add of a duplicate vector"):
		return "dup-vector"
	case has("delete of a non-present vector"):
		return "no-vector"
	case has("empty transaction"):
		return "empty"
	case has("difference is empty"):
		return "empty-diff"
	case has("delete conflict"):
		return "delete-conflict"
	case has("parent branch deletes object that child branch adds"):
		return "add-del-conflict"
	case has("cannot locate common ancestor"), has("no path for nil commit ID"):
		return "no-ancestor"
	case has("revert commit is empty"):
		return "revert-empty"
	case has("commit not found"):
		return "no-commit"
	case has("two or more source objects required"):
		return "too-few"
	case has("vector exists for"):
		return "exists"
	case has("does not exist: vector delete"):
		return "no-vector"
	case has("non-existent object"):
		return "not-found"
	case has("commit object already exists"):
		return "exists"
	case has("commit object not found"):
		return "not-found"
	case has("branch already exists"), has("already exists"):
		return "branch-exists"
	case has("no such file"), has("file does not exist"), has("not exist"):
		return "missing-file"
	}
	return "other:" + s
}
