package main

// Generators: small type alphabets enumerated exhaustively, random types beyond, and values.

import (
	"encoding/hex"
	"fmt"
	"math/rand"
	"net/netip"

	zed "github.com/brimdata/super"
)

const (
	idUint64  = 3
	idInt64   = 9
	idDur     = 12
	idTime    = 13
	idFloat64 = 16
	idBool    = 23
	idBytes   = 24
	idString  = 25
	idIP      = 26
	idNull    = 29
)

func p(id int) *T             { return &T{K: "p", ID: id} }
func rec(fs ...F) *T          { return &T{K: "r", Fields: fs} }
func arr(t *T) *T             { return &T{K: "a", Elems: []*T{t}} }
func set(t *T) *T             { return &T{K: "s", Elems: []*T{t}} }
func mp(k, v *T) *T           { return &T{K: "m", Elems: []*T{k, v}} }
func un(ts ...*T) *T          { return &T{K: "u", Elems: ts} }
func named(n string, t *T) *T { return &T{K: "n", Name: n, Elems: []*T{t}} }

func d0() []*T { return []*T{p(idInt64), p(idString), p(idFloat64), p(idNull)} }

// level builds every type with one constructor over the inner alphabet xs (pairs of record
// fields over ys, a smaller alphabet).
func level(xs, ys []*T) []*T {
	var out []*T
	for _, x := range xs {
		out = append(out, rec(F{"a", x}), rec(F{"b", x}), arr(x), set(x), named("x", x), named("y", x))
		out = append(out, mp(p(idString), x), mp(p(idInt64), x))
	}
	for _, x := range ys {
		for _, y := range ys {
			out = append(out, rec(F{"a", x}, F{"b", y}), rec(F{"b", y}, F{"a", x}))
		}
	}
	for i, x := range xs {
		for j, y := range xs {
			if i < j && x.K+fmt.Sprint(x.ID) != "p29" && y.K+fmt.Sprint(y.ID) != "p29" {
				out = append(out, un(x, y))
			}
		}
	}
	if len(xs) >= 3 {
		out = append(out, un(xs[0], xs[1], xs[2]))
	}
	return out
}

func uniqTypes(ts []*T) []*T {
	seen := map[string]bool{}
	var out []*T
	for _, t := range ts {
		s := t.Sexp()
		if !seen[s] {
			seen[s] = true
			out = append(out, t)
		}
	}
	return out
}

// alphabetD1: depth ≤ 1.
func alphabetD1() []*T {
	a := d0()
	return uniqTypes(append(a, level(d0(), d0())...))
}

// alphabetD2: depth ≤ 2 over a reduced inner alphabet (kept small enough to enumerate pairs).
func alphabetD2() []*T {
	inner := []*T{
		p(idInt64), p(idString),
		rec(F{"a", p(idInt64)}), rec(F{"b", p(idString)}), rec(F{"a", p(idString)}, F{"b", p(idInt64)}),
		arr(p(idInt64)), arr(p(idString)), set(p(idInt64)),
		mp(p(idString), p(idInt64)), mp(p(idString), p(idString)),
		un(p(idInt64), p(idString)), un(p(idString), rec(F{"a", p(idInt64)})),
		named("x", p(idInt64)), named("x", rec(F{"a", p(idInt64)})),
	}
	small := []*T{p(idInt64), rec(F{"a", p(idInt64)}), arr(p(idString)), un(p(idInt64), p(idString))}
	return uniqTypes(level(inner, small))
}

// ---- values ---------------------------------------------------------------------------------

type vgen struct {
	r       *rand.Rand
	ctr     int
	nullP   float64 // probability of null at any position
	emptyP  float64 // probability of an empty container
	maxElem int
}

func (g *vgen) prim(id int) *V {
	g.ctr++
	n := g.ctr
	var b []byte
	switch id {
	case idInt64, idDur, idTime:
		b = zed.EncodeInt(int64(n) * sign(g.r))
	case idUint64:
		b = zed.EncodeUint(uint64(n))
	case idFloat64:
		b = zed.EncodeFloat64(float64(n) + 0.5)
	case idBool:
		b = zed.EncodeBool(n%2 == 0)
	case idString:
		b = []byte(fmt.Sprintf("s%d", n))
	case idBytes:
		b = []byte{byte(n), 0xff}
	case idIP:
		b = zed.EncodeIP(netip.AddrFrom4([4]byte{10, 0, byte(n >> 8), byte(n)}))
	case idNull:
		return &V{Null: true}
	default:
		panic(fmt.Sprintf("gen: unsupported primitive id %d", id))
	}
	return &V{K: "p", ID: id, Bytes: hex.EncodeToString(b)}
}

func sign(r *rand.Rand) int64 {
	if r != nil && r.Intn(4) == 0 {
		return -1
	}
	return 1
}

func (g *vgen) chance(p float64) bool { return g.r != nil && p > 0 && g.r.Float64() < p }

// value generates a value for a canonical type tree.
func (g *vgen) value(t *T) *V {
	u := t.Under()
	if u.K == "p" && u.ID == idNull {
		return &V{Null: true}
	}
	if g.chance(g.nullP) {
		return &V{Null: true}
	}
	switch u.K {
	case "p":
		return g.prim(u.ID)
	case "r":
		v := &V{K: "r"}
		for _, f := range u.Fields {
			v.Elems = append(v.Elems, g.value(f.Type))
		}
		return v
	case "a", "s":
		v := &V{K: "l"}
		n := g.maxElem
		if g.r != nil {
			n = g.r.Intn(g.maxElem + 1)
		}
		if g.chance(g.emptyP) {
			n = 0
		}
		for i := 0; i < n; i++ {
			v.Elems = append(v.Elems, g.value(u.Elems[0]))
		}
		return v
	case "m":
		v := &V{K: "m"}
		n := 1
		if g.r != nil {
			n = g.r.Intn(g.maxElem + 1)
		}
		for i := 0; i < n; i++ {
			k := g.value(u.Elems[0])
			if k.Null {
				continue
			}
			v.Elems = append(v.Elems, k, g.value(u.Elems[1]))
		}
		return v
	case "en":
		g.ctr++
		return &V{K: "p", ID: idEnumLeaf, Bytes: hex.EncodeToString(zed.EncodeUint(uint64(g.ctr % len(u.Syms))))}
	case "e":
		in := g.value(u.Elems[0])
		if in.Null {
			return &V{Null: true}
		}
		return &V{K: "x", Elems: []*V{in}}
	case "u":
		tag := 0
		if g.r != nil {
			tag = g.r.Intn(len(u.Elems))
		} else {
			g.ctr++
			tag = g.ctr % len(u.Elems)
		}
		if um := u.Elems[tag].Under(); um.K == "p" && um.ID == idNull {
			return &V{Null: true}
		}
		in := g.value(u.Elems[tag])
		if in.Null {
			return &V{Null: true}
		}
		return &V{K: "u", Tag: tag, Elems: []*V{in}}
	}
	panic("gen: unsupported kind " + u.K)
}

// randType: random type of bounded depth over a wider primitive alphabet.
func randType(r *rand.Rand, depth int) *T {
	prims := []int{idInt64, idString, idFloat64, idNull, idBool, idUint64, idIP, idTime, idBytes}
	names := []string{"a", "b", "c", "d"}
	if depth <= 0 || r.Intn(4) == 0 {
		return p(prims[r.Intn(len(prims))])
	}
	switch r.Intn(12) {
	case 10:
		return &T{K: "en", Syms: [][]string{{"a", "b"}, {"a", "b", "c"}, {"x"}}[r.Intn(3)]}
	case 11:
		return &T{K: "e", Elems: []*T{randType(r, depth-1)}}
	case 0, 1, 2, 3:
		n := r.Intn(4)
		perm := r.Perm(len(names))
		t := &T{K: "r"}
		for i := 0; i < n; i++ {
			t.Fields = append(t.Fields, F{names[perm[i]], randType(r, depth-1)})
		}
		return t
	case 4:
		return arr(randType(r, depth-1))
	case 5:
		return set(randType(r, depth-1))
	case 6:
		return mp(p([]int{idString, idInt64}[r.Intn(2)]), randType(r, depth-1))
	case 7, 8:
		n := 2 + r.Intn(2)
		t := &T{K: "u"}
		seen := map[string]bool{}
		for i := 0; i < n; i++ {
			m := randType(r, depth-1)
			if m.K == "u" || (m.K == "p" && m.ID == idNull) || seen[m.Sexp()] {
				continue
			}
			seen[m.Sexp()] = true
			t.Elems = append(t.Elems, m)
		}
		if len(t.Elems) < 2 {
			return randType(r, depth-1)
		}
		return t
	default:
		return named([]string{"x", "y", "z"}[r.Intn(3)], randType(r, depth-1))
	}
}

// mutateType derives a type "near" t: same shape with one place changed, so that merges
// meet overlapping structure rather than unrelated types.
func mutateType(r *rand.Rand, t *T, depth int) *T {
	c := cloneT(t)
	switch c.K {
	case "r":
		switch r.Intn(4) {
		case 0:
			c.Fields = append(c.Fields, F{[]string{"c", "d", "e"}[r.Intn(3)], randType(r, depth-1)})
			c.Fields = dedupFields(c.Fields)
		case 1:
			if len(c.Fields) > 0 {
				i := r.Intn(len(c.Fields))
				c.Fields = append(c.Fields[:i:i], c.Fields[i+1:]...)
			}
		case 2:
			r.Shuffle(len(c.Fields), func(i, j int) { c.Fields[i], c.Fields[j] = c.Fields[j], c.Fields[i] })
		default:
			if len(c.Fields) > 0 {
				i := r.Intn(len(c.Fields))
				c.Fields[i].Type = mutateType(r, c.Fields[i].Type, depth-1)
			}
		}
		return c
	case "a", "s":
		switch r.Intn(3) {
		case 0:
			if c.K == "a" {
				c.K = "s"
			} else {
				c.K = "a"
			}
		default:
			c.Elems[0] = mutateType(r, c.Elems[0], depth-1)
		}
		return c
	case "m":
		c.Elems[1] = mutateType(r, c.Elems[1], depth-1)
		return c
	case "n":
		if r.Intn(2) == 0 {
			return c.Elems[0]
		}
		c.Elems[0] = mutateType(r, c.Elems[0], depth-1)
		return c
	case "u":
		i := r.Intn(len(c.Elems))
		if r.Intn(2) == 0 {
			return c.Elems[i]
		}
		c.Elems[i] = mutateType(r, c.Elems[i], depth-1)
		return c
	}
	return randType(r, depth)
}

func dedupFields(fs []F) []F {
	seen := map[string]bool{}
	var out []F
	for _, f := range fs {
		if !seen[f.Name] {
			seen[f.Name] = true
			out = append(out, f)
		}
	}
	return out
}

func cloneT(t *T) *T {
	c := *t
	c.Elems = nil
	for _, e := range t.Elems {
		c.Elems = append(c.Elems, cloneT(e))
	}
	c.Fields = nil
	for _, f := range t.Fields {
		c.Fields = append(c.Fields, F{f.Name, cloneT(f.Type)})
	}
	return &c
}
