import Zed.Model.NullsSites
import Zed.Proofs.FastPath
namespace Zed
open List

/-- where a null key goes: after every non-null key iff `nullsMax ≠ desc` -/
theorem cmpKeys_null_left (nm d : Bool) (t : Ty) (x : Val) (hx : x.isNull = false) :
    cmpKeys nm [d] [.null t] [x] = if nullsLast nm d then .gt else .lt := by
  cases d <;> cases nm <;>
    simp [cmpKeys, nullsLast, cmpVal_null_left _ t x hx, cmpVal_null_right _ t x hx]

theorem cmpKeys_null_right (nm d : Bool) (t : Ty) (x : Val) (hx : x.isNull = false) :
    cmpKeys nm [d] [x] [.null t] = if nullsLast nm d then .lt else .gt := by
  cases d <;> cases nm <;>
    simp [cmpKeys, nullsLast, cmpVal_null_left _ t x hx, cmpVal_null_right _ t x hx]

end Zed
