package main

// nullsites — nulls first/last across the sites that construct a comparator (Props:
// comparator_sites_known, nulls_consistency).
//
//   pairs  (T2) zbuf.NewComparator, lake.ImportComparator (= zbuf.NewComparatorNullsMax) and the
//          compare() function with an explicit third argument, on pairs of rows over key pools with
//          nulls and missing keys, asc and desc, vs the model's rule of that site of the regenerated
//          table (`(C06 sitecmp …)`); pairs the model calls equal are skipped for the two zbuf
//          comparators (their last key is a byte-wise tie-break the model does not have)
//   merge  (S) `fork (=> where p==0 | sort k => where p==1 | sort k) | merge k` through the compiler:
//          a plain sort has the kernel merge's order (nulls_consistency (e)), so the output is a
//          sorted permutation with the nulls last
//   lake   (S) rows with null and missing keys loaded into an ascending and a descending pool come
//          back non-decreasing under the pool's order with the nulls last (asc) / first (desc)

import (
	"fmt"
	"strings"
	. "verifharness/hlib"

	zed "github.com/brimdata/super"
	"github.com/brimdata/super/lake"
	"github.com/brimdata/super/lake/pools"
	"github.com/brimdata/super/order"
	"github.com/brimdata/super/pkg/field"
	"github.com/brimdata/super/runtime/sam/expr"
	"github.com/brimdata/super/zbuf"
	"github.com/brimdata/super/zson"
)

type nsCase struct {
	Check string   `json:"check"`
	Sub   string   `json:"sub"`
	Keys  []string `json:"keys"`
	Desc  bool     `json:"desc"`
}

func nsRow(zctx *zed.Context, lit string, p, id int) (zed.Value, error) {
	f := "k:" + lit + ","
	if lit == "MISSING" {
		f = ""
	}
	return zson.ParseValue(zctx, fmt.Sprintf("{%sp:%d,id:%d}", f, p, id))
}

func nsKey(v zed.Value) zed.Value {
	if d := v.Deref("k"); d != nil {
		return *d
	}
	return zed.Null
}

func checkNullPairs(c *Ctx, nc *nsCase) {
	zctx := zed.NewContext()
	var rows []zed.Value
	for i, l := range nc.Keys {
		v, err := nsRow(zctx, l, 0, i)
		if err != nil {
			return
		}
		rows = append(rows, v)
	}
	c.Eval(fmt.Sprintf("nullsites:pairs:%v:%v", nc.Keys, nc.Desc))
	o := order.Asc
	if nc.Desc {
		o = order.Desc
	}
	sk := order.SortKeys{order.NewSortKey(o, field.Path{"k"})}
	type siteT struct {
		name string
		cmp  func(a, b zed.Value) int
		ties bool // equal keys are decided by something the model does not have
	}
	imp := lake.ImportComparator(zctx, &lake.Pool{Config: pools.Config{SortKeys: sk}})
	sites := []siteT{
		{"zbuf/merger.go:NewComparator", zbuf.NewComparator(zctx, sk).Compare, true},
		{"lake/writer.go:ImportComparator", imp.Compare, true},
		{"zbuf/merger.go:NewComparatorNullsMax", zbuf.NewComparatorNullsMax(zctx, sk).Compare, true},
	}
	var reqs []string
	type q struct{ s, i, j int }
	var qs []q
	for si, s := range sites {
		for i := range rows {
			for j := range rows {
				reqs = append(reqs, fmt.Sprintf("(C06 sitecmp %s 0 0 0 %d %s %s)", s.name, b2i(nc.Desc), valSexp(nsKey(rows[i])), valSexp(nsKey(rows[j]))))
				qs = append(qs, q{si, i, j})
			}
		}
	}
	ans := c.Model().Batch(reqs)
	for n, a := range ans {
		c.Res.ModelCases++
		x := qs[n]
		s := sites[x.s]
		if a == "=" && s.ties {
			continue
		}
		got := string("<=>"[sgn(s.cmp(rows[x.i], rows[x.j]))+1])
		if got != a {
			c.Fail("correspondence", "C06:nullsites:"+s.name, fmt.Sprintf("desc=%v: %s vs %s: real %s, the site's rule in the model %s", nc.Desc, nc.Keys[x.i], nc.Keys[x.j], got, a), nc)
			return
		}
	}
	c.Stat("nullsites:pairs")
	// compare(a, b, nullsMax) with the third argument given
	if nc.Desc {
		return
	}
	for _, nm := range []bool{true, false} {
		var in, reqs []string
		for i := range rows {
			for j := range rows {
				in = append(in, fmt.Sprintf("{a:%s,b:%s}", zson.FormatValue(nsKey(rows[i])), zson.FormatValue(nsKey(rows[j]))))
				reqs = append(reqs, fmt.Sprintf("(C06 cmp %d %s %s)", b2i(nm), valSexp(nsKey(rows[i])), valSexp(nsKey(rows[j]))))
			}
		}
		out, err := QueryZSON(fmt.Sprintf("yield compare(a, b, %v)", nm), strings.Join(in, "\n"))
		if err != nil || len(out) != len(in) {
			c.Fail("oracle", "C06:nullsites:compare-func:error", fmt.Sprintf("compare(a, b, %v): %v (%d results for %d inputs)", nm, err, len(out), len(in)), nc)
			return
		}
		ans := c.Model().Batch(reqs)
		for n, a := range ans {
			c.Res.ModelCases++
			want := map[string]string{"<": "-1", "=": "0", ">": "1"}[a]
			if out[n] != want {
				c.Fail("correspondence", "C06:nullsites:compare-func", fmt.Sprintf("compare(a, b, %v) on %s: real %s model %s", nm, in[n], out[n], want), nc)
				return
			}
		}
	}
}

func isNullKey(l string) bool { return l == "MISSING" || strings.HasPrefix(l, "null") }

// sortedWithNulls: ids in output order → keys are non-decreasing under cmp and the null keys are
// where they should be.
func checkPlacement(c *Ctx, what, key string, nc *nsCase, lits []string, outIDs []int, cmp func(a, b zed.Value) int, rows []zed.Value, nullsLast bool) {
	seen := map[int]bool{}
	for _, id := range outIDs {
		if id < 0 || id >= len(rows) || seen[id] {
			c.Fail("oracle", key+":permutation", fmt.Sprintf("%s: output %v is not a permutation of the %d input rows", what, outIDs, len(rows)), nc)
			return
		}
		seen[id] = true
	}
	if len(outIDs) != len(rows) {
		c.Fail("oracle", key+":permutation", fmt.Sprintf("%s: %d rows out for %d rows in", what, len(outIDs), len(rows)), nc)
		return
	}
	for i := 0; i+1 < len(outIDs); i++ {
		if cmp(rows[outIDs[i]], rows[outIDs[i+1]]) > 0 {
			c.Fail("oracle", key+":order", fmt.Sprintf("%s: %s precedes %s", what, lits[outIDs[i]], lits[outIDs[i+1]]), nc)
			return
		}
	}
	firstNull, lastNull, firstVal, lastVal := -1, -1, -1, -1
	for pos, id := range outIDs {
		if isNullKey(lits[id]) {
			if firstNull < 0 {
				firstNull = pos
			}
			lastNull = pos
		} else {
			if firstVal < 0 {
				firstVal = pos
			}
			lastVal = pos
		}
	}
	if firstNull >= 0 && firstVal >= 0 {
		if nullsLast && firstNull < lastVal {
			c.Fail("oracle", key+":nulls-last", fmt.Sprintf("%s: a null key at position %d before a value at %d", what, firstNull, lastVal), nc)
		}
		if !nullsLast && lastNull > firstVal {
			c.Fail("oracle", key+":nulls-first", fmt.Sprintf("%s: a null key at position %d after a value at %d", what, lastNull, firstVal), nc)
		}
	}
}

func outIDsOf(out []string) []int {
	zctx := zed.NewContext()
	var ids []int
	for _, s := range out {
		v, err := zson.ParseValue(zctx, s)
		if err != nil {
			ids = append(ids, -1)
			continue
		}
		ids = append(ids, rowID(v))
	}
	return ids
}

func checkNullMerge(c *Ctx, nc *nsCase) {
	zctx := zed.NewContext()
	var rows []zed.Value
	var text []string
	for i, l := range nc.Keys {
		v, err := nsRow(zctx, l, i%2, i)
		if err != nil {
			return
		}
		rows = append(rows, v)
		text = append(text, zson.FormatValue(v))
	}
	c.Eval(fmt.Sprintf("nullsites:merge:%v", nc.Keys))
	q := "fork (=> where p==0 | sort k => where p==1 | sort k) | merge k"
	out, err := QueryZSON(q, strings.Join(text, "\n"))
	if err != nil {
		c.Fail("oracle", "C06:nullsites:merge:error", fmt.Sprintf("`%s`: %v", q, err), nc)
		return
	}
	cmp := expr.NewComparator(true, expr.NewSortEvaluator(&derefKey{"k", zctx}, order.Asc)).WithMissingAsNull()
	checkPlacement(c, "`"+q+"`", "C06:nullsites:merge", nc, nc.Keys, outIDsOf(out), cmp.Compare, rows, true)
	c.Stat("nullsites:merge")
}

func checkNullLake(c *Ctx, nc *nsCase) {
	zctx := zed.NewContext()
	var rows []zed.Value
	var text []string
	for i, l := range nc.Keys {
		v, err := nsRow(zctx, l, 0, i)
		if err != nil {
			return
		}
		rows = append(rows, v)
		text = append(text, zson.FormatValue(v))
	}
	c.Eval(fmt.Sprintf("nullsites:lake:%v:%v", nc.Keys, nc.Desc))
	lk, err := NewTLake()
	if err != nil {
		c.Note("nullsites: no lake: %v", err)
		return
	}
	defer lk.Close()
	pool, err := lk.CreatePool("p", "k", nc.Desc, 0, 0)
	if err != nil {
		c.Note("nullsites: create pool: %v", err)
		return
	}
	// two loads: the scan merges two objects
	half := len(text) / 2
	for _, part := range [][]string{text[:half], text[half:]} {
		if len(part) == 0 {
			continue
		}
		if _, err := lk.LoadZSON(pool, "main", strings.Join(part, "\n")); err != nil {
			c.Fail("oracle", "C06:nullsites:lake:error", fmt.Sprintf("load: %v", err), nc)
			return
		}
	}
	out, err := lk.Query("from p")
	if err != nil {
		c.Fail("oracle", "C06:nullsites:lake:error", fmt.Sprintf("from p: %v", err), nc)
		return
	}
	o := order.Asc
	if nc.Desc {
		o = order.Desc
	}
	cmp := expr.NewComparator(true, expr.NewSortEvaluator(&derefKey{"k", zctx}, o)).WithMissingAsNull()
	checkPlacement(c, fmt.Sprintf("`from p` (pool key k desc=%v)", nc.Desc), "C06:nullsites:lake", nc, nc.Keys, outIDsOf(out), cmp.Compare, rows, !nc.Desc)
	c.Stat("nullsites:lake")
}

func checkNullSites(c *Ctx, nc *nsCase) {
	switch nc.Sub {
	case "pairs":
		checkNullPairs(c, nc)
	case "merge":
		checkNullMerge(c, nc)
	case "lake":
		checkNullLake(c, nc)
	}
}

func runNullSites(c *Ctx) {
	r := c.Rng
	pick := func(n int) []string {
		pool := keyPools[r.Intn(len(keyPools))]
		var ks []string
		for i := 0; i < n; i++ {
			ks = append(ks, pool[r.Intn(len(pool))])
		}
		return ks
	}
	// every pool once as a whole, both directions
	for _, pool := range keyPools {
		for _, d := range []bool{false, true} {
			checkNullSites(c, &nsCase{Check: "nullsites", Sub: "pairs", Keys: pool, Desc: d})
		}
	}
	for i, n := 0, c.N(12, 150); i < n; i++ {
		checkNullSites(c, &nsCase{Check: "nullsites", Sub: "merge", Keys: pick(2 + r.Intn(14))})
	}
	for i, n := 0, c.N(6, 60); i < n; i++ {
		checkNullSites(c, &nsCase{Check: "nullsites", Sub: "lake", Keys: pick(2 + r.Intn(10)), Desc: i%2 == 1})
	}
}
