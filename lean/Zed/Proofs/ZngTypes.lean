import Zed.Model.ZngTypes
import Zed.Proofs.ZngUvarint
/-!
  The typedef encoder and decoder agree: the typedef bytes one `Encoder.Encode` call emits
  decode — starting from the context before the call — to exactly the context after the
  call, and the returned id denotes the encoded type.  (`typedefs_before_use` and the core of
  `zng_roundtrip`.)
-/
namespace Zed.Zng
open Zed.Generated.C01

/-! ### well-formed types (what `zed.Context` only ever builds) -/

mutual
def ZTy.valid : ZTy → Bool
  | .prim id => primitiveIDs.contains id
  | .record fs => fs.valid && !hasDup (fs.toList.map (·.1)) && decide (fs.toList.length ≤ maxRecordFields)
  | .array t => t.valid
  | .set t => t.valid
  | .map k v => k.valid && v.valid
  | .union ts => ts.valid && decide (ts.toList.length ≠ 0) && sortedTys ts.toList &&
      decide (ts.toList.length ≤ maxUnionTypes)
  | .enum syms => decide (syms.length ≤ maxEnumSymbols)
  | .error t => t.valid
  | .named n t => validTypeName n && t.valid
def ZFields.valid : ZFields → Bool
  | .nil => true
  | .cons _ t r => t.valid && r.valid
def ZTys.valid : ZTys → Bool
  | .nil => true
  | .cons t r => t.valid && r.valid
end

/-! ### context lemmas -/

theorem Ctx.find_some {ctx : Ctx} {t : ZTy} {i : Nat} (h : Ctx.find ctx t = some i) : ctx[i]? = some t := by
  induction ctx generalizing i with
  | nil => simp [Ctx.find] at h
  | cons x xs ih =>
    simp only [Ctx.find] at h
    split at h
    · rename_i hx; cases h; simp [hx]
    · cases hf : Ctx.find xs t with
      | none => simp [hf] at h
      | some j => simp [hf] at h; subst h; simpa using ih hf

theorem Ctx.find_append {ctx : Ctx} {t : ZTy} {i : Nat} (e : Ctx) (h : Ctx.find ctx t = some i) :
    Ctx.find (ctx ++ e) t = some i := by
  induction ctx generalizing i with
  | nil => simp [Ctx.find] at h
  | cons x xs ih =>
    simp only [Ctx.find, List.cons_append] at h ⊢
    split
    · rename_i hx; simpa [hx] using h
    · rename_i hx
      simp only [hx, if_false] at h
      cases hf : Ctx.find xs t with
      | none => simp [hf] at h
      | some j => simp [hf] at h; subst h; simp [ih hf]

theorem Ctx.find_none_append_self {ctx : Ctx} {t : ZTy} (h : Ctx.find ctx t = none) :
    Ctx.find (ctx ++ [t]) t = some ctx.length := by
  induction ctx with
  | nil => simp [Ctx.find]
  | cons x xs ih =>
    simp only [Ctx.find, List.cons_append] at h ⊢
    split
    · rename_i hx; simp [hx] at h
    · rename_i hx
      simp only [hx, if_false] at h
      cases hf : Ctx.find xs t with
      | none => simp [ih hf]
      | some j => simp [hf] at h

theorem typeOfId_complex (ctx : Ctx) (i : Nat) :
    ctx.typeOfId ((idTypeComplex + i : Nat) : Int) = ctx[i]? := by
  unfold Ctx.typeOfId
  have h1 : ¬ (((idTypeComplex + i : Nat) : Int) < 0) := by omega
  have h2 : ((idTypeComplex + i : Nat) : Int).toNat = idTypeComplex + i := Int.toNat_natCast _
  simp only [h1, if_false, h2]
  have h3 : ¬ (idTypeComplex + i < idTypeComplex) := by omega
  simp only [h3, if_false]
  congr 1; omega

theorem typeOfId_append {ctx : Ctx} {id : Int} {t : ZTy} (e : Ctx) (h : ctx.typeOfId id = some t) :
    (ctx ++ e).typeOfId id = some t := by
  unfold Ctx.typeOfId at h ⊢
  split
  · rename_i h0; simp [h0] at h
  · rename_i h0
    simp only [h0, if_false] at h
    split
    · rename_i h1; simpa [h1] using h
    · rename_i h1
      simp only [h1, if_false] at h
      have hl := List.getElem?_eq_some_iff.mp h
      obtain ⟨hlt, _⟩ := hl
      rw [List.getElem?_append_left hlt]; exact h

theorem typeOfId_prim {ctx : Ctx} {id : Nat} (h : primitiveIDs.contains id = true) :
    ctx.typeOfId (id : Int) = some (.prim id) := by
  have hlt : id < idTypeComplex := by
    have : ∀ x ∈ primitiveIDs, x < idTypeComplex := by decide
    exact this id (by simpa using h)
  unfold Ctx.typeOfId
  have h1 : ¬ ((id : Int) < 0) := by omega
  have h2 : (id : Int).toNat = id := Int.toNat_natCast _
  simp only [h1, if_false, h2, hlt, if_true, h]

/-- after `enter`, the returned id denotes the type -/
theorem enter_typeOfId (ctx : Ctx) (t : ZTy) :
    (ctx.enter t).1.typeOfId ((ctx.enter t).2 : Int) = some t := by
  unfold Ctx.enter
  cases hf : Ctx.find ctx t with
  | some i => simp only; rw [typeOfId_complex]; exact Ctx.find_some hf
  | none => simp only; rw [typeOfId_complex]; simp

theorem enter_ext (ctx : Ctx) (t : ZTy) : ∃ e, (ctx.enter t).1 = ctx ++ e := by
  unfold Ctx.enter
  cases Ctx.find ctx t with
  | some i => exact ⟨[], by simp⟩
  | none => exact ⟨[t], rfl⟩

theorem enter_find (ctx : Ctx) (t : ZTy) : ∃ i, Ctx.find (ctx.enter t).1 t = some i := by
  unfold Ctx.enter
  cases hf : Ctx.find ctx t with
  | some i => exact ⟨i, hf⟩
  | none => exact ⟨ctx.length, Ctx.find_none_append_self hf⟩

/-! ### decoder lemmas on encoder output -/

theorem rdInt_uvarint (n : Nat) (rest : Bytes) (hn : n < two63) :
    rdInt (uvarint n ++ rest) = .ok ((n : Int), rest) := by
  unfold rdInt; rw [readUvarintAsInt_uvarint n rest hn]

theorem rdType_uvarint {ctx : Ctx} {id : Nat} {t : ZTy} (rest : Bytes) (hn : id < two63)
    (ht : ctx.typeOfId (id : Int) = some t) : rdType ctx (uvarint id ++ rest) = .ok (t, rest) := by
  unfold rdType; rw [rdInt_uvarint id rest hn]; simp only [ht]

theorem rdCounted_counted (b rest : Bytes) (hn : b.length < two63) :
    rdCounted (uvarint b.length ++ (b ++ rest)) = .ok (b, rest) := by
  unfold rdCounted
  rw [rdInt_uvarint b.length _ hn]
  have h1 : ¬ ((b.length : Int) < 0) := by omega
  have h2 : hasLen (b ++ rest) (b.length : Int).toNat = true := by rw [hasLen_iff]; simp
  simp only [h1, if_false, h2, Bool.not_true, Bool.false_eq_true]
  simp

/-- the bytes `putFields`, `putIds`, `putSyms` append -/
def fieldsBytes : List (Bytes × Nat) → Bytes
  | [] => []
  | (n, id) :: r => uvarint n.length ++ (n ++ (uvarint id ++ fieldsBytes r))
def idsBytes : List Nat → Bytes
  | [] => []
  | id :: r => uvarint id ++ idsBytes r
def symsBytes : List Bytes → Bytes
  | [] => []
  | b :: r => uvarint b.length ++ (b ++ symsBytes r)

def fieldsSmall : List (Bytes × Nat) → Bool
  | [] => true
  | (n, id) :: r => decide (n.length < two63) && decide (id < two63) && fieldsSmall r
def idsSmall : List Nat → Bool
  | [] => true
  | id :: r => decide (id < two63) && idsSmall r
def symsSmall : List Bytes → Bool
  | [] => true
  | b :: r => decide (b.length < two63) && symsSmall r

theorem putFields_eq : ∀ (ids : List (Bytes × Nat)) (s : EncSt),
    putFields ids s = { s with bytes := s.bytes ++ fieldsBytes ids, small := s.small && fieldsSmall ids } := by
  intro ids
  induction ids with
  | nil => intro s; simp [putFields, fieldsBytes, fieldsSmall]
  | cons x r ih =>
    intro s
    obtain ⟨n, id⟩ := x
    simp only [putFields, ih, fieldsBytes, fieldsSmall, EncSt.putCounted, EncSt.putUv, EncSt.put]
    simp [Bool.and_assoc]

theorem putIds_eq : ∀ (ids : List Nat) (s : EncSt),
    putIds ids s = { s with bytes := s.bytes ++ idsBytes ids, small := s.small && idsSmall ids } := by
  intro ids
  induction ids with
  | nil => intro s; simp [putIds, idsBytes, idsSmall]
  | cons x r ih =>
    intro s
    simp only [putIds, ih, idsBytes, idsSmall, EncSt.putUv]
    simp [Bool.and_assoc]

theorem putSyms_eq : ∀ (ss : List Bytes) (s : EncSt),
    putSyms ss s = { s with bytes := s.bytes ++ symsBytes ss, small := s.small && symsSmall ss } := by
  intro ss
  induction ss with
  | nil => intro s; simp [putSyms, symsBytes, symsSmall]
  | cons x r ih =>
    intro s
    simp only [putSyms, ih, symsBytes, symsSmall, EncSt.putCounted, EncSt.putUv, EncSt.put]
    simp [Bool.and_assoc]

/-- ids resolve, pairwise, to the field types -/
def FieldsResolve (ctx : Ctx) : List (Bytes × Nat) → List (Bytes × ZTy) → Prop
  | [], [] => True
  | (n, id) :: r, (n', t) :: r' => n = n' ∧ ctx.typeOfId (id : Int) = some t ∧ FieldsResolve ctx r r'
  | _, _ => False

def IdsResolve (ctx : Ctx) : List Nat → List ZTy → Prop
  | [], [] => True
  | id :: r, t :: r' => ctx.typeOfId (id : Int) = some t ∧ IdsResolve ctx r r'
  | _, _ => False

theorem FieldsResolve.append {ctx : Ctx} (e : Ctx) : ∀ {ids fs}, FieldsResolve ctx ids fs → FieldsResolve (ctx ++ e) ids fs
  | [], [], _ => trivial
  | (_, _) :: _, (_, _) :: _, ⟨h1, h2, h3⟩ => ⟨h1, typeOfId_append e h2, FieldsResolve.append e h3⟩
  | [], _ :: _, h => h.elim
  | _ :: _, [], h => by cases ‹_ × _›; exact h.elim

theorem IdsResolve.append {ctx : Ctx} (e : Ctx) : ∀ {ids ts}, IdsResolve ctx ids ts → IdsResolve (ctx ++ e) ids ts
  | [], [], _ => trivial
  | _ :: _, _ :: _, ⟨h2, h3⟩ => ⟨typeOfId_append e h2, IdsResolve.append e h3⟩
  | [], _ :: _, h => h.elim
  | _ :: _, [], h => h.elim

theorem FieldsResolve.length {ctx : Ctx} : ∀ {ids fs}, FieldsResolve ctx ids fs → ids.length = fs.length
  | [], [], _ => rfl
  | (_, _) :: _, (_, _) :: _, ⟨_, _, h3⟩ => by simp [FieldsResolve.length h3]
  | [], _ :: _, h => h.elim
  | _ :: _, [], h => by cases ‹_ × _›; exact h.elim

theorem IdsResolve.length {ctx : Ctx} : ∀ {ids ts}, IdsResolve ctx ids ts → ids.length = ts.length
  | [], [], _ => rfl
  | _ :: _, _ :: _, ⟨_, h3⟩ => by simp [IdsResolve.length h3]
  | [], _ :: _, h => h.elim
  | _ :: _, [], h => h.elim

theorem rdFields_fieldsBytes {ctx : Ctx} (rest : Bytes) : ∀ {ids : List (Bytes × Nat)} {fs : List (Bytes × ZTy)},
    FieldsResolve ctx ids fs → fieldsSmall ids = true →
    rdFields ctx ids.length (fieldsBytes ids ++ rest) = .ok (fs, rest)
  | [], [], _, _ => by simp [rdFields, fieldsBytes]
  | (n, id) :: r, (n', t) :: r', ⟨h1, h2, h3⟩, hs => by
    simp only [fieldsSmall, Bool.and_eq_true, decide_eq_true_eq] at hs
    obtain ⟨⟨hn, hid⟩, hr⟩ := hs
    subst h1
    simp only [List.length_cons, rdFields, fieldsBytes, List.append_assoc]
    rw [rdCounted_counted n _ hn]
    simp only
    rw [rdType_uvarint _ hid h2]
    simp only
    rw [rdFields_fieldsBytes rest h3 hr]
  | [], _ :: _, h, _ => h.elim
  | x :: _, [], h, _ => by cases x; exact h.elim

theorem rdTypes_idsBytes {ctx : Ctx} (rest : Bytes) : ∀ {ids : List Nat} {ts : List ZTy},
    IdsResolve ctx ids ts → idsSmall ids = true →
    rdTypes ctx ids.length (idsBytes ids ++ rest) = .ok (ts, rest)
  | [], [], _, _ => by simp [rdTypes, idsBytes]
  | id :: r, t :: r', ⟨h2, h3⟩, hs => by
    simp only [idsSmall, Bool.and_eq_true, decide_eq_true_eq] at hs
    obtain ⟨hid, hr⟩ := hs
    simp only [List.length_cons, rdTypes, idsBytes, List.append_assoc]
    rw [rdType_uvarint _ hid h2]
    simp only
    rw [rdTypes_idsBytes rest h3 hr]
  | [], _ :: _, h, _ => h.elim
  | _ :: _, [], h, _ => h.elim

theorem rdSyms_symsBytes (rest : Bytes) : ∀ {ss : List Bytes}, symsSmall ss = true →
    rdSyms ss.length (symsBytes ss ++ rest) = .ok (ss, rest)
  | [], _ => by simp [rdSyms, symsBytes]
  | b :: r, hs => by
    simp only [symsSmall, Bool.and_eq_true, decide_eq_true_eq] at hs
    obtain ⟨hb, hr⟩ := hs
    simp only [List.length_cons, rdSyms, symsBytes, List.append_assoc]
    rw [rdCounted_counted b _ hb]
    simp only
    rw [rdSyms_symsBytes rest hr]

theorem sortTys_sorted : ∀ (l : List ZTy), sortedTys l = true → sortTys l = l
  | [], _ => rfl
  | [x], _ => by simp [sortTys, insertTy]
  | x :: y :: r, h => by
    simp only [sortedTys, Bool.and_eq_true, Bool.not_eq_true', decide_eq_false_iff_not] at h
    obtain ⟨hxy, hr⟩ := h
    have ih := sortTys_sorted (y :: r) hr
    simp only [sortTys] at ih ⊢
    rw [ih]
    simp [insertTy, hxy]

/-! ### `decTypedefs` unfolding -/

theorem decTypedefs_nil (ctx : Ctx) : decTypedefs ctx [] = .ok ctx := by
  rw [decTypedefs]

theorem decTypedefs_cons {ctx ctx' : Ctx} {code : UInt8} {bs r : Bytes}
    (h : decTypedef ctx code.toNat bs = .ok (ctx', r)) :
    decTypedefs ctx (code :: bs) = decTypedefs ctx' r := by
  rw [decTypedefs]
  split
  · rename_i e he; rw [h] at he; cases he
  · rename_i c2 r2 he; rw [h] at he; cases he; rfl

theorem decTypedef_of {ctx : Ctx} {code : Nat} {bs r : Bytes} {t : ZTy}
    (h : rdTypedef ctx code bs = .ok (t, r)) (ht : translatable t = true) :
    decTypedef ctx code bs = .ok ((ctx.enter t).1, r) := by
  unfold decTypedef enterLocal
  rw [h]; simp [ht]

end Zed.Zng

namespace Zed.Zng
open Zed.Generated.C01

/-! ### the encoder invariant -/

def CacheOk (s : EncSt) : Prop := ∀ c t, (c, t) ∈ s.cache → ∃ i, Ctx.find s.ctx t = some i

structure EncOk (s s' : EncSt) : Prop where
  cache : CacheOk s'
  ext : ∃ e, s'.ctx = s.ctx ++ e
  dec : ∃ d, s'.bytes = s.bytes ++ d ∧ ∀ rest, decTypedefs s.ctx (d ++ rest) = decTypedefs s'.ctx rest
  small : s.small = true

theorem EncOk.refl {s : EncSt} (hc : CacheOk s) (hs : s.small = true) : EncOk s s :=
  ⟨hc, ⟨[], by simp⟩, ⟨[], by simp, fun _ => rfl⟩, hs⟩

theorem EncOk.trans {s s1 s2 : EncSt} (h1 : EncOk s s1) (h2 : EncOk s1 s2) : EncOk s s2 := by
  obtain ⟨e1, he1⟩ := h1.ext
  obtain ⟨e2, he2⟩ := h2.ext
  obtain ⟨d1, hd1, hdec1⟩ := h1.dec
  obtain ⟨d2, hd2, hdec2⟩ := h2.dec
  refine ⟨h2.cache, ⟨e1 ++ e2, by rw [he2, he1, List.append_assoc]⟩, ⟨d1 ++ d2, by rw [hd2, hd1, List.append_assoc], ?_⟩, h1.small⟩
  intro rest
  rw [List.append_assoc, hdec1, hdec2]

theorem cache_hit {s : EncSt} {cid : Nat} {t : ZTy} (hc : CacheOk s)
    (h : s.cache.contains (cid, t) = true) (hnp : ∀ id, t ≠ .prim id) :
    s.ctx.typeOfId ((s.ctx.idOf t : Nat) : Int) = some t := by
  have hm : (cid, t) ∈ s.cache := by simpa using h
  obtain ⟨i, hi⟩ := hc cid t hm
  have : s.ctx.idOf t = idTypeComplex + i := by
    cases t <;> simp [Ctx.idOf, hi] <;> exact absurd rfl (hnp _)
  rw [this, typeOfId_complex]
  exact Ctx.find_some hi

/-- finishing a typedef: `s1'` is the state after the children plus this typedef's bytes -/
theorem finish_spec {s s1 s1' : EncSt} (cid : Nat) (t : ZTy) (code : UInt8) (body : Bytes)
    (h1 : EncOk s s1)
    (hctx : s1'.ctx = s1.ctx) (hcache : s1'.cache = s1.cache) (hbytes : s1'.bytes = s1.bytes ++ code :: body)
    (hrd : ∀ rest, rdTypedef s1.ctx code.toNat (body ++ rest) = .ok (t, rest))
    (htr : translatable t = true) :
    EncOk s (s1'.finish cid t).1 ∧
      (s1'.finish cid t).1.ctx.typeOfId (((s1'.finish cid t).2 : Nat) : Int) = some t := by
  obtain ⟨e1, he1⟩ := h1.ext
  obtain ⟨d1, hd1, hdec1⟩ := h1.dec
  obtain ⟨e2, he2⟩ := enter_ext s1.ctx t
  have hfin : (s1'.finish cid t) = ({ s1' with ctx := (s1.ctx.enter t).1, cache := (cid, t) :: s1.cache }, (s1.ctx.enter t).2) := by
    simp [EncSt.finish, hctx, hcache]
  rw [hfin]
  refine ⟨⟨?_, ⟨e1 ++ e2, by simp only [he2]; rw [he1, List.append_assoc]⟩, ⟨d1 ++ code :: body, by simp [hbytes, hd1], ?_⟩, h1.small⟩, enter_typeOfId s1.ctx t⟩
  · intro c t' hm
    simp only [List.mem_cons, Prod.mk.injEq] at hm
    rcases hm with ⟨_, rfl⟩ | hm
    · exact enter_find s1.ctx t'
    · obtain ⟨i, hi⟩ := h1.cache c t' hm
      exact ⟨i, by simp only [he2]; exact Ctx.find_append e2 hi⟩
  · intro rest
    simp only [List.append_assoc, List.cons_append]
    rw [hdec1]
    exact decTypedefs_cons (decTypedef_of (hrd rest) htr)

end Zed.Zng

namespace Zed.Zng
open Zed.Generated.C01

theorem byteCode (n : Nat) (h : n < 256) : (UInt8.ofNat n).toNat = n := by
  simp [UInt8.toNat_ofNat']; omega

theorem finish_small {s : EncSt} {cid : Nat} {t : ZTy} : (s.finish cid t).1.small = s.small := by
  simp [EncSt.finish]

mutual
theorem encTy_small (cid : Nat) : ∀ (t : ZTy) (s : EncSt), (encTy cid t s).1.small = true → s.small = true
  | .prim _, s, h => by simpa [encTy] using h
  | .record fs, s, h => by
    simp only [encTy] at h
    split at h
    · exact h
    · cases hk : encFields cid fs s with
      | mk s1 ids =>
        simp only [hk, finish_small, putFields_eq, EncSt.put, EncSt.putUv, Bool.and_eq_true] at h
        exact encFields_small cid fs s (by rw [hk]; exact h.1.1)
  | .array e, s, h => by
    simp only [encTy] at h
    split at h
    · exact h
    · cases hk : encTy cid e s with
      | mk s1 eid =>
        simp only [hk, finish_small, EncSt.put, EncSt.putUv, Bool.and_eq_true] at h
        exact encTy_small cid e s (by rw [hk]; exact h.1)
  | .set e, s, h => by
    simp only [encTy] at h
    split at h
    · exact h
    · cases hk : encTy cid e s with
      | mk s1 eid =>
        simp only [hk, finish_small, EncSt.put, EncSt.putUv, Bool.and_eq_true] at h
        exact encTy_small cid e s (by rw [hk]; exact h.1)
  | .error e, s, h => by
    simp only [encTy] at h
    split at h
    · exact h
    · cases hk : encTy cid e s with
      | mk s1 eid =>
        simp only [hk, finish_small, EncSt.put, EncSt.putUv, Bool.and_eq_true] at h
        exact encTy_small cid e s (by rw [hk]; exact h.1)
  | .named n e, s, h => by
    simp only [encTy] at h
    split at h
    · exact h
    · cases hk : encTy cid e s with
      | mk s1 eid =>
        simp only [hk, finish_small, EncSt.put, EncSt.putUv, EncSt.putCounted, Bool.and_eq_true] at h
        exact encTy_small cid e s (by rw [hk]; exact h.1.1)
  | .map k v, s, h => by
    simp only [encTy] at h
    split at h
    · exact h
    · cases hk : encTy cid k s with
      | mk s1 kid =>
        cases hv : encTy cid v s1 with
        | mk s2 vid =>
          simp only [hk, hv, finish_small, EncSt.put, EncSt.putUv, Bool.and_eq_true] at h
          have h1 := encTy_small cid v s1 (by rw [hv]; exact h.1.1)
          exact encTy_small cid k s (by rw [hk]; exact h1)
  | .union ts, s, h => by
    simp only [encTy] at h
    split at h
    · exact h
    · cases hk : encTys cid ts s with
      | mk s1 ids =>
        simp only [hk, finish_small, putIds_eq, EncSt.put, EncSt.putUv, Bool.and_eq_true] at h
        exact encTys_small cid ts s (by rw [hk]; exact h.1.1)
  | .enum syms, s, h => by
    simp only [encTy] at h
    split at h
    · exact h
    · simp only [finish_small, putSyms_eq, EncSt.put, EncSt.putUv, Bool.and_eq_true] at h
      exact h.1.1
theorem encFields_small (cid : Nat) : ∀ (fs : ZFields) (s : EncSt), (encFields cid fs s).1.small = true → s.small = true
  | .nil, s, h => by simpa [encFields] using h
  | .cons n t r, s, h => by
    simp only [encFields] at h
    cases hk : encTy cid t s with
    | mk s1 id =>
      cases hr : encFields cid r s1 with
      | mk s2 rest =>
        simp only [hk, hr] at h
        have h1 := encFields_small cid r s1 (by rw [hr]; exact h)
        exact encTy_small cid t s (by rw [hk]; exact h1)
theorem encTys_small (cid : Nat) : ∀ (ts : ZTys) (s : EncSt), (encTys cid ts s).1.small = true → s.small = true
  | .nil, s, h => by simpa [encTys] using h
  | .cons t r, s, h => by
    simp only [encTys] at h
    cases hk : encTy cid t s with
    | mk s1 id =>
      cases hr : encTys cid r s1 with
      | mk s2 rest =>
        simp only [hk, hr] at h
        have h1 := encTys_small cid r s1 (by rw [hr]; exact h)
        exact encTy_small cid t s (by rw [hk]; exact h1)
end

end Zed.Zng

namespace Zed.Zng
open Zed.Generated.C01

theorem FieldsResolve.names {ctx : Ctx} : ∀ {ids : List (Bytes × Nat)} {fs : List (Bytes × ZTy)},
    FieldsResolve ctx ids fs → ids.map (·.1) = fs.map (·.1)
  | [], [], _ => rfl
  | (_, _) :: _, (_, _) :: _, ⟨h1, _, h3⟩ => by simp [h1, FieldsResolve.names h3]
  | [], _ :: _, h => h.elim
  | x :: _, [], h => by cases x; exact h.elim

/-- unary typedefs (array, set, error): code, then the element id -/
theorem rdTypedef_unary {ctx : Ctx} {eid : Nat} {e : ZTy} (rest : Bytes) (hid : eid < two63)
    (he : ctx.typeOfId (eid : Int) = some e) :
    rdTypedef ctx typeDefArray (uvarint eid ++ rest) = .ok (.array e, rest) ∧
    rdTypedef ctx typeDefSet (uvarint eid ++ rest) = .ok (.set e, rest) ∧
    rdTypedef ctx typeDefError (uvarint eid ++ rest) = .ok (.error e, rest) := by
  refine ⟨?_, ?_, ?_⟩ <;>
  · simp only [rdTypedef, typeDefRecord, typeDefArray, typeDefSet, typeDefMap, typeDefUnion, typeDefEnum, typeDefName, typeDefError,
      Nat.reduceEqDiff, if_true, if_false]
    rw [rdType_uvarint rest hid he]

mutual
theorem encTy_spec (cid : Nat) : ∀ (t : ZTy) (s : EncSt), t.valid = true → CacheOk s →
    (encTy cid t s).1.small = true →
    EncOk s (encTy cid t s).1 ∧ (encTy cid t s).1.ctx.typeOfId (((encTy cid t s).2 : Nat) : Int) = some t
  | .prim id, s, hv, hc, hs => by
    simp only [encTy] at hs ⊢
    simp only [ZTy.valid] at hv
    exact ⟨EncOk.refl hc hs, typeOfId_prim hv⟩
  | .array e, s, hv, hc, hs => by
    simp only [encTy] at hs ⊢
    split
    · rename_i hit
      rw [if_pos hit] at hs
      exact ⟨EncOk.refl hc hs, cache_hit hc hit (by intro id h; cases h)⟩
    · rename_i miss
      rw [if_neg miss] at hs
      simp only [ZTy.valid] at hv
      cases hk : encTy cid e s with
      | mk s1 eid =>
        simp only [hk] at hs ⊢
        have hs1 : s1.small = true ∧ eid < two63 := by
          simpa [EncSt.finish, EncSt.put, EncSt.putUv] using hs
        have ih := encTy_spec cid e s hv hc (by rw [hk]; exact hs1.1)
        rw [hk] at ih
        exact finish_spec cid (.array e) (UInt8.ofNat typeDefArray) (uvarint eid) ih.1 rfl rfl
          (by simp [EncSt.put, EncSt.putUv])
          (by intro rest; rw [byteCode typeDefArray (by decide)]; exact (rdTypedef_unary rest hs1.2 ih.2).1)
          rfl
  | .set e, s, hv, hc, hs => by
    simp only [encTy] at hs ⊢
    split
    · rename_i hit
      rw [if_pos hit] at hs
      exact ⟨EncOk.refl hc hs, cache_hit hc hit (by intro id h; cases h)⟩
    · rename_i miss
      rw [if_neg miss] at hs
      simp only [ZTy.valid] at hv
      cases hk : encTy cid e s with
      | mk s1 eid =>
        simp only [hk] at hs ⊢
        have hs1 : s1.small = true ∧ eid < two63 := by
          simpa [EncSt.finish, EncSt.put, EncSt.putUv] using hs
        have ih := encTy_spec cid e s hv hc (by rw [hk]; exact hs1.1)
        rw [hk] at ih
        exact finish_spec cid (.set e) (UInt8.ofNat typeDefSet) (uvarint eid) ih.1 rfl rfl
          (by simp [EncSt.put, EncSt.putUv])
          (by intro rest; rw [byteCode typeDefSet (by decide)]; exact (rdTypedef_unary rest hs1.2 ih.2).2.1)
          rfl
  | .error e, s, hv, hc, hs => by
    simp only [encTy] at hs ⊢
    split
    · rename_i hit
      rw [if_pos hit] at hs
      exact ⟨EncOk.refl hc hs, cache_hit hc hit (by intro id h; cases h)⟩
    · rename_i miss
      rw [if_neg miss] at hs
      simp only [ZTy.valid] at hv
      cases hk : encTy cid e s with
      | mk s1 eid =>
        simp only [hk] at hs ⊢
        have hs1 : s1.small = true ∧ eid < two63 := by
          simpa [EncSt.finish, EncSt.put, EncSt.putUv] using hs
        have ih := encTy_spec cid e s hv hc (by rw [hk]; exact hs1.1)
        rw [hk] at ih
        exact finish_spec cid (.error e) (UInt8.ofNat typeDefError) (uvarint eid) ih.1 rfl rfl
          (by simp [EncSt.put, EncSt.putUv])
          (by intro rest; rw [byteCode typeDefError (by decide)]; exact (rdTypedef_unary rest hs1.2 ih.2).2.2)
          rfl
  | .named n e, s, hv, hc, hs => by
    simp only [encTy] at hs ⊢
    split
    · rename_i hit
      rw [if_pos hit] at hs
      exact ⟨EncOk.refl hc hs, cache_hit hc hit (by intro id h; cases h)⟩
    · rename_i miss
      rw [if_neg miss] at hs
      simp only [ZTy.valid, Bool.and_eq_true] at hv
      cases hk : encTy cid e s with
      | mk s1 eid =>
        simp only [hk] at hs ⊢
        have hs1 : (s1.small = true ∧ n.length < two63) ∧ eid < two63 := by
          simpa [EncSt.finish, EncSt.put, EncSt.putUv, EncSt.putCounted] using hs
        have ih := encTy_spec cid e s hv.2 hc (by rw [hk]; exact hs1.1.1)
        rw [hk] at ih
        exact finish_spec cid (.named n e) (UInt8.ofNat typeDefName) (uvarint n.length ++ (n ++ uvarint eid)) ih.1 rfl rfl
          (by simp [EncSt.put, EncSt.putUv, EncSt.putCounted])
          (by
            intro rest
            rw [byteCode typeDefName (by decide)]
            simp only [rdTypedef, typeDefRecord, typeDefArray, typeDefSet, typeDefMap, typeDefUnion, typeDefEnum, typeDefName, typeDefError,
              Nat.reduceEqDiff, if_true, if_false, List.append_assoc]
            rw [rdCounted_counted n _ hs1.1.2]
            simp only
            rw [rdType_uvarint rest hs1.2 ih.2]
            simp [hv.1])
          rfl
  | .map k v, s, hv, hc, hs => by
    simp only [encTy] at hs ⊢
    split
    · rename_i hit
      rw [if_pos hit] at hs
      exact ⟨EncOk.refl hc hs, cache_hit hc hit (by intro id h; cases h)⟩
    · rename_i miss
      rw [if_neg miss] at hs
      simp only [ZTy.valid, Bool.and_eq_true] at hv
      cases hk : encTy cid k s with
      | mk s1 kid =>
        cases hvv : encTy cid v s1 with
        | mk s2 vid =>
          simp only [hk, hvv] at hs ⊢
          have hs2 : (s2.small = true ∧ kid < two63) ∧ vid < two63 := by
            simpa [EncSt.finish, EncSt.put, EncSt.putUv] using hs
          have hs1 : s1.small = true := encTy_small cid v s1 (by rw [hvv]; exact hs2.1.1)
          have ih1 := encTy_spec cid k s hv.1 hc (by rw [hk]; exact hs1)
          rw [hk] at ih1
          have ih2 := encTy_spec cid v s1 hv.2 ih1.1.cache (by rw [hvv]; exact hs2.1.1)
          rw [hvv] at ih2
          obtain ⟨e2, he2⟩ := ih2.1.ext
          have hkres : s2.ctx.typeOfId (kid : Int) = some k := by rw [he2]; exact typeOfId_append e2 ih1.2
          exact finish_spec cid (.map k v) (UInt8.ofNat typeDefMap) (uvarint kid ++ uvarint vid) (ih1.1.trans ih2.1) rfl rfl
            (by simp [EncSt.put, EncSt.putUv])
            (by
              intro rest
              rw [byteCode typeDefMap (by decide)]
              simp only [rdTypedef, typeDefRecord, typeDefArray, typeDefSet, typeDefMap, typeDefUnion, typeDefEnum, typeDefName, typeDefError,
                Nat.reduceEqDiff, if_true, if_false, List.append_assoc]
              rw [rdType_uvarint _ hs2.1.2 hkres]
              simp only
              rw [rdType_uvarint rest hs2.2 ih2.2])
            rfl
  | .enum syms, s, hv, hc, hs => by
    simp only [encTy] at hs ⊢
    split
    · rename_i hit
      rw [if_pos hit] at hs
      exact ⟨EncOk.refl hc hs, cache_hit hc hit (by intro id h; cases h)⟩
    · rename_i miss
      rw [if_neg miss] at hs
      simp only [ZTy.valid, decide_eq_true_eq] at hv
      have hs1 : (s.small = true ∧ syms.length < two63) ∧ symsSmall syms = true := by
        simpa [EncSt.finish, EncSt.put, EncSt.putUv, putSyms_eq] using hs
      exact finish_spec cid (.enum syms) (UInt8.ofNat typeDefEnum) (uvarint syms.length ++ symsBytes syms)
          (EncOk.refl hc hs1.1.1) (by simp [EncSt.put, EncSt.putUv, putSyms_eq]) (by simp [EncSt.put, EncSt.putUv, putSyms_eq])
          (by simp [EncSt.put, EncSt.putUv, putSyms_eq])
          (by
            intro rest
            rw [byteCode typeDefEnum (by decide)]
            simp only [rdTypedef, typeDefRecord, typeDefArray, typeDefSet, typeDefMap, typeDefUnion, typeDefEnum, typeDefName, typeDefError,
              Nat.reduceEqDiff, if_true, if_false, List.append_assoc]
            rw [rdInt_uvarint _ _ hs1.1.2]
            simp only [Int.toNat_natCast]
            rw [rdSyms_symsBytes rest hs1.2])
          (by simp [translatable, hv])
  | .record fs, s, hv, hc, hs => by
    simp only [encTy] at hs ⊢
    split
    · rename_i hit
      rw [if_pos hit] at hs
      exact ⟨EncOk.refl hc hs, cache_hit hc hit (by intro id h; cases h)⟩
    · rename_i miss
      rw [if_neg miss] at hs
      simp only [ZTy.valid, Bool.and_eq_true, decide_eq_true_eq, Bool.not_eq_true'] at hv
      cases hk : encFields cid fs s with
      | mk s1 ids =>
        simp only [hk] at hs ⊢
        have hs1 : (s1.small = true ∧ ids.length < two63) ∧ fieldsSmall ids = true := by
          simpa [EncSt.finish, EncSt.put, EncSt.putUv, putFields_eq] using hs
        have ih := encFields_spec cid fs s hv.1.1 hc (by rw [hk]; exact hs1.1.1)
        rw [hk] at ih
        exact finish_spec cid (.record fs) (UInt8.ofNat typeDefRecord) (uvarint ids.length ++ fieldsBytes ids)
            ih.1 (by simp [EncSt.put, EncSt.putUv, putFields_eq]) (by simp [EncSt.put, EncSt.putUv, putFields_eq])
            (by simp [EncSt.put, EncSt.putUv, putFields_eq])
            (by
              intro rest
              rw [byteCode typeDefRecord (by decide)]
              simp only [rdTypedef, typeDefRecord, if_true, List.append_assoc]
              rw [rdInt_uvarint _ _ hs1.1.2]
              simp only [Int.toNat_natCast]
              rw [rdFields_fieldsBytes rest ih.2 hs1.2]
              simp only [← ih.2.names, ZFields.ofList_toList]
              rw [ih.2.names, hv.1.2]
              simp)
            (by simp [translatable, hv.2])
  | .union ts, s, hv, hc, hs => by
    simp only [encTy] at hs ⊢
    split
    · rename_i hit
      rw [if_pos hit] at hs
      exact ⟨EncOk.refl hc hs, cache_hit hc hit (by intro id h; cases h)⟩
    · rename_i miss
      rw [if_neg miss] at hs
      simp only [ZTy.valid, Bool.and_eq_true, decide_eq_true_eq] at hv
      cases hk : encTys cid ts s with
      | mk s1 ids =>
        simp only [hk] at hs ⊢
        have hs1 : (s1.small = true ∧ ids.length < two63) ∧ idsSmall ids = true := by
          simpa [EncSt.finish, EncSt.put, EncSt.putUv, putIds_eq] using hs
        have ih := encTys_spec cid ts s hv.1.1.1 hc (by rw [hk]; exact hs1.1.1)
        rw [hk] at ih
        have hlen : ids.length = ts.toList.length := ih.2.length
        exact finish_spec cid (.union ts) (UInt8.ofNat typeDefUnion) (uvarint ids.length ++ idsBytes ids)
            ih.1 (by simp [EncSt.put, EncSt.putUv, putIds_eq]) (by simp [EncSt.put, EncSt.putUv, putIds_eq])
            (by simp [EncSt.put, EncSt.putUv, putIds_eq])
            (by
              intro rest
              rw [byteCode typeDefUnion (by decide)]
              simp only [rdTypedef, typeDefRecord, typeDefArray, typeDefSet, typeDefMap, typeDefUnion, typeDefEnum, typeDefName, typeDefError,
                Nat.reduceEqDiff, if_true, if_false, List.append_assoc]
              rw [rdInt_uvarint _ _ hs1.1.2]
              have hne : ¬ ((ids.length : Int) = 0) := by
                have := hv.1.1.2; omega
              simp only [hne, if_false, Int.toNat_natCast]
              rw [rdTypes_idsBytes rest ih.2 hs1.2]
              simp only [sortTys_sorted _ hv.1.2, ZTys.ofList_toList])
            (by simp [translatable, hv.2])
theorem encFields_spec (cid : Nat) : ∀ (fs : ZFields) (s : EncSt), fs.valid = true → CacheOk s →
    (encFields cid fs s).1.small = true →
    EncOk s (encFields cid fs s).1 ∧ FieldsResolve (encFields cid fs s).1.ctx (encFields cid fs s).2 fs.toList
  | .nil, s, _, hc, hs => by
    simp only [encFields] at hs ⊢
    exact ⟨EncOk.refl hc hs, trivial⟩
  | .cons n t r, s, hv, hc, hs => by
    simp only [encFields] at hs ⊢
    simp only [ZFields.valid, Bool.and_eq_true] at hv
    cases hk : encTy cid t s with
    | mk s1 id =>
      cases hr : encFields cid r s1 with
      | mk s2 rest =>
        simp only [hk, hr] at hs ⊢
        have hs1 : s1.small = true := encFields_small cid r s1 (by rw [hr]; exact hs)
        have ih1 := encTy_spec cid t s hv.1 hc (by rw [hk]; exact hs1)
        rw [hk] at ih1
        have ih2 := encFields_spec cid r s1 hv.2 ih1.1.cache (by rw [hr]; exact hs)
        rw [hr] at ih2
        obtain ⟨e2, he2⟩ := ih2.1.ext
        refine ⟨ih1.1.trans ih2.1, ?_⟩
        simp only [ZFields.toList]
        exact ⟨rfl, by rw [he2]; exact typeOfId_append e2 ih1.2, ih2.2⟩
theorem encTys_spec (cid : Nat) : ∀ (ts : ZTys) (s : EncSt), ts.valid = true → CacheOk s →
    (encTys cid ts s).1.small = true →
    EncOk s (encTys cid ts s).1 ∧ IdsResolve (encTys cid ts s).1.ctx (encTys cid ts s).2 ts.toList
  | .nil, s, _, hc, hs => by
    simp only [encTys] at hs ⊢
    exact ⟨EncOk.refl hc hs, trivial⟩
  | .cons t r, s, hv, hc, hs => by
    simp only [encTys] at hs ⊢
    simp only [ZTys.valid, Bool.and_eq_true] at hv
    cases hk : encTy cid t s with
    | mk s1 id =>
      cases hr : encTys cid r s1 with
      | mk s2 rest =>
        simp only [hk, hr] at hs ⊢
        have hs1 : s1.small = true := encTys_small cid r s1 (by rw [hr]; exact hs)
        have ih1 := encTy_spec cid t s hv.1 hc (by rw [hk]; exact hs1)
        rw [hk] at ih1
        have ih2 := encTys_spec cid r s1 hv.2 ih1.1.cache (by rw [hr]; exact hs)
        rw [hr] at ih2
        obtain ⟨e2, he2⟩ := ih2.1.ext
        refine ⟨ih1.1.trans ih2.1, ?_⟩
        simp only [ZTys.toList]
        exact ⟨by rw [he2]; exact typeOfId_append e2 ih1.2, ih2.2⟩
end

end Zed.Zng
