/-
  C04 — the buffer filter pushed into the ZNG scanner and its compiler.

  Anchors: compiler/kernel/bufferfilter.go (CompileBufferFilter, isFieldEqualOrIn,
  newBufferFilterForLiteral), runtime/sam/expr/bufferfilter.go (BufferFilter.Eval and the
  constructors' "unprofitable pattern" rules), runtime/sam/expr/fieldnamefinder.go
  (FieldNameFinder.Find), pkg/stringsearch (Finder / CaseFinder: Boyer–Moore, modelled as
  "the pattern occurs"), zio/zngio/scanner.go (worker.scanBatch: a frame whose buffer filter
  is false is dropped unread).

  The filter expression is the model DAG expression of `Zed.Opt`; literals are resolved through
  a table (ZSON text ↦ type and value), which the harness fills with the real ZSON parser.
-/
import Zed.Model.OptDag
import Zed.Model.BfEval
namespace Zed.Bf
open Zed.Opt (Expr Path)

inductive BufFilter where
  | and (l r : BufFilter)
  | or (l r : BufFilter)
  | fieldName (pat : Bytes)
  | stringCase (pat : Bytes)
  | string (pat : Bytes)
  deriving Repr, DecidableEq

/-- a parsed literal: its type, its value, and the NFC bytes when it is a string. -/
structure Lit where
  ty : Ty
  val : Val
  deriving Repr, DecidableEq

abbrev Lits := String → Option Lit

def pathBytes (p : Path) : List Bytes := p.map fun s => s.toUTF8.toList

def primBytes : Val → Bytes
  | .prim b => b
  | _ => []

/-- `NewBufferFilterForString`: patterns shorter than 2 bytes are unprofitable. -/
def forString (pat : Bytes) : Option BufFilter := if pat.length < 2 then none else some (.string pat)

/-- `NewBufferFilterForStringCase`: additionally all-ASCII. -/
def forStringCase (pat : Bytes) : Option BufFilter :=
  if pat.length < 2 then none else if isAscii pat then some (.stringCase pat) else none

/-- `newBufferFilterForLiteral`: numbers and null have no useful byte pattern; otherwise the
    complete tagged value. -/
def forLiteral (l : Lit) : Option BufFilter :=
  match under l.ty with
  | .prim id => if isNumberId id || id == idNull then none else forString (enc l.val)
  | _ => forString (enc l.val)

/-- `isFieldEqualOrIn`: `this.path == literal` or `literal in this.path`; the outer option is
    "the shape matched". -/
def fieldEqualOrIn (lits : Lits) (op : String) (l r : Expr) : Option Lit :=
  match l, r with
  | .this _, .lit v => if op == "==" then lits v else none
  | .lit v, .this _ =>
    if op == "in" then
      match lits v with
      | some lit => if lit.ty == .prim idNet then none else some lit
      | none => none
    else none
  | _, _ => none

/-- `CompileBufferFilter`; `none` = no useful filter (every frame is read). -/
def compile (lits : Lits) : Expr → Option BufFilter
  | .bin op l r =>
    match fieldEqualOrIn lits op l r with
    | some lit => forLiteral lit
    | none =>
      if op == "and" then
        match compile lits l, compile lits r with
        | none, x => x
        | x, none => x
        | some a, some b => some (.and a b)
      else if op == "or" then
        match compile lits l, compile lits r with
        | some a, some b => some (.or a b)
        | _, _ => none
      else none
  | .search text value (.this _) =>
    match lits value with
    | none => none
    | some lit =>
      match under lit.ty with
      | .prim id =>
        if id == idNet then none
        else if id == idString then
          match forStringCase (primBytes lit.val) with
          | none => none
          | some left => some (.or left (.fieldName (primBytes lit.val)))
        else
          match forStringCase text.toUTF8.toList, forLiteral lit with
          | some left, some right => some (.or left right)
          | _, _ => none
      | _ => none      -- the evaluator has no comparison for such a literal: the program does not compile
  -- a search over a computed operand has no buffer filter: the term need not occur in the frame
  | _ => none

/-- the local type context of a stream segment: type id ↦ type. -/
abbrev Ctx := Nat → Option Ty

/-- `FieldNameFinder.Find` over the messages of a frame: true for a non-record value, for an
    unknown type id, and when a leaf name of a record type inside the value's type contains the
    pattern. -/
def fieldNameFind (ctx : Ctx) (pat : Bytes) : List (Nat × Val) → Bool
  | [] => false
  | (id, _) :: r =>
    (match ctx id with
     | none => true
     | some t =>
       match under t with
       | .record fs => matchType pat (.record fs)
       | _ => true) || fieldNameFind ctx pat r

def byteEq (a b : UInt8) : Bool := a == b

/-- `BufferFilter.Eval` on a frame (given both as messages and as its bytes). -/
def BufFilter.eval (ctx : Ctx) (frame : List (Nat × Val)) (bytes : Bytes) : BufFilter → Bool
  | .and l r => l.eval ctx frame bytes && r.eval ctx frame bytes
  | .or l r => l.eval ctx frame bytes || r.eval ctx frame bytes
  | .fieldName pat => fieldNameFind ctx pat frame
  | .stringCase pat => findBy foldEq (pat.map lowerAscii) bytes
  | .string pat => findBy byteEq pat bytes

/-- `scanBatch`: the frame is read iff there is no buffer filter or it says true. -/
def bufferFilter (ctx : Ctx) (bf : Option BufFilter) (frame : List (Nat × Val)) : Bool :=
  match bf with
  | none => true
  | some f => f.eval ctx frame (encFrame frame)

/-! ## the filter itself on one value (the subset that has a push-down) -/

/-- result of a predicate as far as "is it Bool true" goes: true, false, error("missing"),
    any other error (incl. a non-boolean result). -/
inductive Tri where
  | tt | ff | miss | err
  deriving DecidableEq, Repr

/-- `And.Eval`. -/
def Tri.and : Tri → Tri → Tri
  | .tt, b => b
  | .ff, _ => .ff
  | .miss, _ => .miss
  | .err, _ => .err

/-- `Or.Eval`: a true left operand wins, a non-missing error is returned at once, otherwise
    (false or missing) the result is the right operand. -/
def Tri.or : Tri → Tri → Tri
  | .tt, _ => .tt
  | .err, _ => .err
  | _, b => b

/-- `Not.Eval`. -/
def Tri.not : Tri → Tri
  | .tt => .ff
  | .ff => .tt
  | r => r

def ofBool (b : Bool) : Tri := if b then .tt else .ff

/-- What is not modelled (comparisons with numbers, regular expressions, function calls…) is a
    parameter. -/
abbrev Atoms := Expr → Ty → Val → Tri

def missingBytes : Bytes := [109, 105, 115, 115, 105, 110, 103]   -- "missing"

/-- an operand that is an error value: `error("missing")` or any other error. -/
def errOperand (t : Ty) (v : Val) : Option Tri :=
  match under t with
  | .error et => if under et == .prim idString && v == .prim missingBytes then some .miss else some .err
  | _ => none

/-- evaluate a field operand and continue with `k`; a missing field or an error-valued operand
    is the result (`numeric.eval`, `In.Eval`: an error operand is returned as is). -/
def withField (t : Ty) (v : Val) (p : List Bytes) (k : Ty → Val → Tri) : Tri :=
  match getPath t v p with
  | none => .miss
  | some (ft, fv) =>
    match errOperand ft fv with
    | some e => e
    | none => k ft fv

/-- the operand of a search: a missing field or an error value makes the search false. -/
def withSearched (t : Ty) (v : Val) (p : List Bytes) (k : Ty → Val → Tri) : Tri :=
  match getPath t v p with
  | none => .ff
  | some (ft, fv) =>
    match errOperand ft fv with
    | some _ => .ff
    | none => k ft fv

def evalFilter (lits : Lits) (atoms : Atoms) : Expr → Ty → Val → Tri
  | .bin op l r, t, v =>
    if op == "and" then (evalFilter lits atoms l t v).and (evalFilter lits atoms r t v)
    else if op == "or" then (evalFilter lits atoms l t v).or (evalFilter lits atoms r t v)
    else
      match op, l, r with
      | "==", .this p, .lit lv =>
        match lits lv with
        | some lit =>
          (match under lit.ty with
           | .prim id =>
             if isNumberId id || id == idNull then atoms (.bin op l r) t v
             else withField t v (pathBytes p) fun ft fv => ofBool (litEq lit.ty lit.val ft fv)
           | _ => withField t v (pathBytes p) fun ft fv => ofBool (litEq lit.ty lit.val ft fv))
        | none => atoms (.bin op l r) t v
      | "in", .lit lv, .this p =>
        match lits lv with
        | some lit =>
          (match under lit.ty with
           | .prim id =>
             if isNumberId id || id == idNull then atoms (.bin op l r) t v
             else withField t v (pathBytes p) fun ft fv => ofBool (inEval lit.ty lit.val ft fv)
           | _ => withField t v (pathBytes p) fun ft fv => ofBool (inEval lit.ty lit.val ft fv))
        | none => atoms (.bin op l r) t v
      | _, _, _ => atoms (.bin op l r) t v
  | .un op a, t, v => if op == "!" then (evalFilter lits atoms a t v).not else atoms (.un op a) t v
  | .search text value e, t, v =>
    match lits value, e with
    | some lit, .this p =>
      withSearched t v (pathBytes p) fun ft fv =>
        match under lit.ty with
        | .prim id =>
          if id == idNet then atoms (.search text value e) t v
          else if id == idString then ofBool (searchStringEval (primBytes lit.val) ft fv)
          else if isNumberId id then atoms (.search text value e) t v
          else ofBool (searchLitEval text.toUTF8.toList lit.ty lit.val ft fv)
        | _ => atoms (.search text value e) t v
    | _, _ => atoms (.search text value e) t v
  | e, t, v => atoms e t v

theorem withField_tt {t : Ty} {v : Val} {p : List Bytes} {k : Ty → Val → Tri}
    (h : withField t v p k = .tt) : ∃ ft fv, getPath t v p = some (ft, fv) ∧ k ft fv = .tt := by
  unfold withField at h
  split at h
  · simp at h
  · rename_i ft fv hg
    split at h
    · rename_i e he
      unfold errOperand at he
      split at he
      · split at he <;> simp_all
      · simp at he
    · exact ⟨ft, fv, hg, h⟩

theorem withSearched_tt {t : Ty} {v : Val} {p : List Bytes} {k : Ty → Val → Tri}
    (h : withSearched t v p k = .tt) : ∃ ft fv, getPath t v p = some (ft, fv) ∧ k ft fv = .tt := by
  unfold withSearched at h
  split at h
  · simp at h
  · rename_i ft fv hg
    split at h
    · simp at h
    · exact ⟨ft, fv, hg, h⟩

end Zed.Bf
