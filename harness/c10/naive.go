package main

// Naive evaluation written independently of the code under test: aggregates as plain folds
// over the list of argument values of a group, group-by as "group rows by (type, value) of
// every key", join as a nested loop.

import (
	"fmt"
	"sort"
	"strings"

	zed "github.com/brimdata/super"
	"github.com/brimdata/super/zson"
)

// aggSpec is one aggregate of a summarize: out:=fn(arg) [where w <op> c].
type aggSpec struct {
	Out   string `json:"out"`
	Fn    string `json:"fn"`
	Arg   string `json:"arg"`             // field name; "" for count()
	Where string `json:"where,omitempty"` // "" | "w>1" | "w<=1" | "has(w)"
}

func (a aggSpec) text() string {
	s := a.Out + ":=" + a.Fn + "(" + a.Arg + ")"
	if a.Where != "" {
		s += " where " + a.Where
	}
	return s
}

func whereHolds(w string, r grow) bool {
	if w == "" {
		return true
	}
	v := r.get("w")
	switch w {
	case "has(w)":
		return !v.Missing
	case "w>1":
		return !v.Missing && !v.Null && v.Kind != 'n' && v.Num8 > 8
	case "w<=1":
		return !v.Missing && !v.Null && v.Kind != 'n' && v.Num8 <= 8
	}
	panic("where " + w)
}

// colStr is the canonical rendering of one output column: "type:value", with the elements
// of arrays / sets sorted (collect order and set order are not fixed by the property).
func colStr(typ, val string) string { return typ + ":" + val }

func fmtNum(kind byte, num8 int64) (string, string) {
	switch kind {
	case 'u':
		return "uint64", zson.FormatValue(zed.NewUint64(uint64(num8 / 8)))
	case 'i':
		return "int64", zson.FormatValue(zed.NewInt64(num8 / 8))
	case 'f':
		return "float64", zson.FormatValue(zed.NewFloat64(float64(num8) / 8))
	}
	panic("kind")
}

func nullOf(kind byte) (string, string) {
	switch kind {
	case 'u':
		return "uint64", zson.FormatValue(zed.NewValue(zed.TypeUint64, nil))
	case 'i':
		return "int64", zson.FormatValue(zed.NewValue(zed.TypeInt64, nil))
	case 'f':
		return "float64", zson.FormatValue(zed.NewValue(zed.TypeFloat64, nil))
	}
	return "null", "null"
}

var kindRank = map[byte]int{'n': 0, 'u': 1, 'i': 2, 'f': 3}

// naiveAgg folds one aggregate over the argument values (in input order; missing already
// removed) and returns the canonical column string.
func naiveAgg(fn string, vals []gval) string {
	switch fn {
	case "count":
		return colStr("uint64", zson.FormatValue(zed.NewUint64(uint64(len(vals)))))
	case "sum", "min", "max":
		kind := byte('n')
		has := false
		var acc int64
		for _, v := range vals {
			if v.Kind == 'n' {
				continue
			}
			if kindRank[v.Kind] > kindRank[kind] {
				kind = v.Kind
			}
			if v.Null {
				continue
			}
			switch {
			case !has:
				acc = v.Num8
			case fn == "sum":
				acc += v.Num8
			case fn == "min" && v.Num8 < acc:
				acc = v.Num8
			case fn == "max" && v.Num8 > acc:
				acc = v.Num8
			}
			has = true
		}
		if !has {
			return colStr(nullOf(kind))
		}
		if kind != 'f' && acc%8 != 0 {
			panic("non-integral integer accumulator")
		}
		return colStr(fmtNum(kind, acc))
	case "avg":
		var sum int64
		n := 0
		for _, v := range vals {
			if v.Null || v.Kind == 'n' {
				continue
			}
			sum += v.Num8
			n++
		}
		if n == 0 {
			return colStr("float64", zson.FormatValue(zed.NewValue(zed.TypeFloat64, nil)))
		}
		return colStr("float64", zson.FormatValue(zed.NewFloat64(float64(sum)/8/float64(n))))
	case "and", "or":
		has := false
		acc := fn == "and"
		for _, v := range vals {
			if v.Null || !v.IsBool {
				continue
			}
			has = true
			if fn == "and" {
				acc = acc && v.B
			} else {
				acc = acc || v.B
			}
		}
		if !has {
			return colStr("bool", zson.FormatValue(zed.NewValue(zed.TypeBool, nil)))
		}
		return colStr("bool", zson.FormatValue(zed.NewBool(acc)))
	case "collect":
		var el []string
		for _, v := range vals {
			if !v.Null {
				el = append(el, v.ident())
			}
		}
		if len(el) == 0 {
			return colStr("null", "null")
		}
		sort.Strings(el)
		return "elems:" + strings.Join(el, ";")
	case "union":
		set := map[string]bool{}
		for _, v := range vals {
			if !v.Null {
				set[v.ident()] = true
			}
		}
		if len(set) == 0 {
			return colStr("null", "null")
		}
		var el []string
		for e := range set {
			el = append(el, e)
		}
		sort.Strings(el)
		return "elems:" + strings.Join(el, ";")
	case "dcount":
		set := map[string]bool{}
		for _, v := range vals {
			set[v.ident()] = true
		}
		return colStr("uint64", zson.FormatValue(zed.NewUint64(uint64(len(set)))))
	}
	panic("naiveAgg " + fn)
}

// realCol renders a field of a real output record canonically (same format as naiveAgg).
func realCol(v zed.Value, name string) (string, bool) {
	fv, ok := fieldVal(v, name)
	if !ok {
		return "", false
	}
	switch t := zed.TypeUnder(fv.Type()).(type) {
	case *zed.TypeArray:
		if fv.IsNull() {
			break
		}
		return "elems:" + strings.Join(elemsOf(fv, t.Type), ";"), true
	case *zed.TypeSet:
		if fv.IsNull() {
			break
		}
		return "elems:" + strings.Join(elemsOf(fv, t.Type), ";"), true
	}
	return colStr(zson.String(fv.Type()), zson.FormatValue(fv)), true
}

func elemsOf(v zed.Value, inner zed.Type) (out []string) {
	defer func() {
		if r := recover(); r != nil {
			// the real code produced a structurally invalid value (e.g. bad union tag)
			out = []string{fmt.Sprintf("INVALID-VALUE(%v)", r)}
		}
	}()
	for it := v.Iter(); !it.Done(); {
		e := zed.NewValue(inner, it.Next()).Under()
		out = append(out, zson.String(e.Type())+"|"+zson.FormatValue(e))
	}
	sort.Strings(out)
	return out
}

// realKeyCol renders a key column exactly (no element sorting: a key is a value).
func realKeyCol(v zed.Value, name string) (string, bool) {
	f, ok := fieldVal(v, name)
	if !ok {
		return "", false
	}
	return zson.String(f.Type()) + "|" + zson.FormatValue(f), true
}

// ---- group-by ----------------------------------------------------------------------------

type keySpec struct {
	Out  string `json:"out"`
	Expr string `json:"expr"` // field name, or "a+1"
}

func (k keySpec) text() string {
	if k.Out == k.Expr {
		return k.Out
	}
	return k.Out + ":=" + k.Expr
}

// keyValue evaluates a key expression the harness knows the meaning of.
func keyValue(k keySpec, r grow) gval {
	if k.Expr == "a+1" {
		a := r.get("a")
		if a.Missing {
			return a
		}
		// generator: a is always int64 when present
		return mk(fmt.Sprint(a.Num8/8 + 1))
	}
	return r.get(k.Expr)
}

type group struct {
	Keys []gval
	Rows []grow
}

func keyIdent(ks []gval) string {
	var p []string
	for _, k := range ks {
		p = append(p, k.ident())
	}
	return strings.Join(p, "\x00")
}

func keyTie(ks []gval) string {
	var p []string
	for _, k := range ks {
		p = append(p, k.tie())
	}
	return strings.Join(p, "\x00")
}

func naiveGroups(keys []keySpec, rows []grow) []*group {
	idx := map[string]*group{}
	var out []*group
	for _, r := range rows {
		var ks []gval
		for _, k := range keys {
			ks = append(ks, keyValue(k, r))
		}
		id := keyIdent(ks)
		g := idx[id]
		if g == nil {
			g = &group{Keys: ks}
			idx[id] = g
			out = append(out, g)
		}
		g.Rows = append(g.Rows, r)
	}
	return out
}

// aggCols computes the aggregate columns over the given rows.
func aggCols(aggs []aggSpec, rows []grow) []string {
	var out []string
	for _, a := range aggs {
		var vals []gval
		for _, r := range rows {
			if !whereHolds(a.Where, r) {
				continue
			}
			if a.Fn == "count" && a.Arg == "" {
				vals = append(vals, mk("true"))
				continue
			}
			v := r.get(a.Arg)
			if v.Missing {
				continue
			}
			vals = append(vals, v)
		}
		out = append(out, a.Out+"="+naiveAgg(a.Fn, vals))
	}
	return out
}

// ---- join --------------------------------------------------------------------------------

type jrow struct {
	ID  int
	Key gval
}

// naiveJoin: nested loop; match = both keys present and in the same tie class
// (numbers by value across types; null matches null — the operator's comparison).
// Returns "l r" / "l -" strings.  kind right is evaluated by the caller with sides swapped.
func naiveJoin(kind string, l, r []jrow) []string {
	var out []string
	for _, a := range l {
		if a.Key.Missing {
			continue
		}
		n := 0
		for _, b := range r {
			if b.Key.Missing || a.Key.tie() != b.Key.tie() {
				continue
			}
			n++
			if kind != "anti" {
				out = append(out, fmt.Sprintf("%d %d", a.ID, b.ID))
			}
		}
		if n == 0 && kind != "inner" {
			out = append(out, fmt.Sprintf("%d -", a.ID))
		}
	}
	return out
}
