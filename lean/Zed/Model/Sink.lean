/-
  Model of output writers over a failing sink (C18).
  Anchors: zio/zngio/writer.go, zio/csvio/writer.go (over bufio), pkg/bufwriter/writer.go,
  zio/{zsonio,zjsonio,zeekio,textio,tableio}/writer.go, vng/writer.go, lake/data/writer.go.

  A sink is an oracle `fail : Nat → Bool` indexed by the number of the Write call.  Every
  writer is a state machine whose API operations issue sink calls.  What each *call site*
  does with a sink error (return it / drop it / swallow it by returning nil) is not copied by
  hand: it comes from `Zed.Generated.C18.sites`, which the extractor regenerates from the Go
  source on every check.
-/
import Zed.Generated.C18
namespace Zed.Sink

abbrev Oracle := Nat → Bool

/-- What a call site does with the error of the sink-reaching call it makes. -/
inductive Handling where
  | returned    -- `if err != nil { return err }`, `return f()`, close idiom …
  | dropped     -- result discarded, execution continues
  | swallowed   -- `if err != nil { return nil }`
  deriving DecidableEq, Repr, Inhabited

def Handling.ofStr : String → Option Handling
  | "returned" => some .returned | "dropped" => some .dropped | "swallowed" => some .swallowed
  | _ => none

/-- Result of running part of an operation: next call number, whether the API call returns
    an error, and whether it stopped early. -/
structure R where
  next : Nat
  err : Bool
  stop : Bool
  deriving Repr, DecidableEq

/-- One sink call made at a site with the given handling. -/
def sinkCall (fail : Oracle) (h : Handling) (n : Nat) : R :=
  if fail n then
    match h with
    | .returned => ⟨n + 1, true, true⟩
    | .dropped => ⟨n + 1, false, false⟩
    | .swallowed => ⟨n + 1, false, true⟩
  else ⟨n + 1, false, false⟩

/-- A straight-line operation: sink calls in program order. -/
def runSteps (fail : Oracle) : List Handling → Nat → R
  | [], n => ⟨n, false, false⟩
  | h :: rest, n =>
    let r := sinkCall fail h n
    if r.stop then r else runSteps fail rest r.next

/-- A *direct* writer (zson, zjson, zeek, text …): every API operation is a straight-line list
    of sink calls; there is no state between operations. Returns the per-operation error
    flags and the number of sink calls made. -/
def runDirect (fail : Oracle) : List (List Handling) → Nat → List Bool × Nat
  | [], n => ([], n)
  | op :: ops, n =>
    let r := runSteps fail op n
    let (es, m) := runDirect fail ops r.next
    (r.err :: es, m)

/-! ### ZNG writer -/

/-- Handling of the sink-reaching call sites, looked up in the generated table by
    (package, function, index of the site within the function). A missing site reads as
    `dropped`, so a renamed or removed function re-opens the obligations. -/
def siteOf (pkg fn : String) (idx : Nat) : Handling :=
  let hs := Zed.Generated.C18.sites.filter fun s => s.1 == pkg && s.2.1 == fn
  match hs[idx]? with
  | some s => (Handling.ofStr s.2.2.2).getD .dropped
  | none => .dropped

/-- All sites of a package except the named functions are `returned`. -/
def pkgAllReturned (pkg : String) (except : List String) : Bool :=
  (Zed.Generated.C18.sites.filter fun s => s.1 == pkg && !except.contains s.2.1).all
    fun s => s.2.2.2 == "returned"

def pkgSiteCount (pkg : String) : Nat :=
  (Zed.Generated.C18.sites.filter fun s => s.1 == pkg).length

/-- The error handling of zngio.Writer as far as the model distinguishes it. -/
structure ZngSites where
  low : Bool            -- write / writeHeader / writeCompHeader / all four writeBlock sites return the error
  flushTypes : Handling -- flush: writeBlock(TypesFrame)
  flushValues : Handling
  endFlush : Handling   -- EndStream: flush
  endEOS : Handling     -- EndStream: write(EOS)
  writeFlush : Handling -- Write: flush
  closeEnd : Handling   -- Close: EndStream
  deriving Repr, DecidableEq

def genZngSites : ZngSites where
  low := siteOf "zngio" "write" 0 == .returned && siteOf "zngio" "writeHeader" 0 == .returned
    && siteOf "zngio" "writeCompHeader" 0 == .returned
    && siteOf "zngio" "writeBlock" 0 == .returned && siteOf "zngio" "writeBlock" 1 == .returned
    && siteOf "zngio" "writeBlock" 2 == .returned && siteOf "zngio" "writeBlock" 3 == .returned
  flushTypes := siteOf "zngio" "flush" 0
  flushValues := siteOf "zngio" "flush" 1
  endFlush := siteOf "zngio" "EndStream" 0
  endEOS := siteOf "zngio" "EndStream" 1
  writeFlush := siteOf "zngio" "Write" 0
  closeEnd := siteOf "zngio" "Close" 0

def allReturned : ZngSites :=
  ⟨true, .returned, .returned, .returned, .returned, .returned, .returned⟩

structure ZngCfg where
  thresh : Nat
  sites : ZngSites
  deriving Repr

structure ZngState where
  tbuf : Nat := 0        -- bytes pending in the types buffer
  vbuf : Nat := 0        -- bytes pending in the values buffer
  dirty : Bool := false  -- position ≠ flushed: something reached the sink since the last EOS
  next : Nat := 0        -- number of sink calls made so far
  deriving Repr, DecidableEq

inductive ZngOp where
  | write (tlen vlen : Nat)   -- a value adding tlen typedef bytes and vlen value bytes
  | endStream
  | close
  deriving Repr

/-- `w.write(p)`: one sink call; on success the position advances. -/
def zWrite (fail : Oracle) (s : ZngState) : ZngState × Bool :=
  if fail s.next then ({ s with next := s.next + 1 }, true)
  else ({ s with next := s.next + 1, dirty := true }, false)

/-- `writeBlock`: nothing for an empty block, else header then body (compressed or not: two
    sink calls either way).  With `low` the first error is returned at once; without it the
    model drops low-level errors. -/
def zWriteBlock (low : Bool) (fail : Oracle) (s : ZngState) (len : Nat) : ZngState × Bool :=
  if len = 0 then (s, false) else
  let (s1, e1) := zWrite fail s
  if e1 && low then (s1, true)
  else
    let (s2, e2) := zWrite fail s1
    (s2, e2 && low)

/-- Continue-or-stop after a callee reported an error, as the call site dictates. -/
def after (h : Handling) : Bool × Bool :=   -- (stop, err)
  match h with
  | .returned => (true, true)
  | .swallowed => (true, false)
  | .dropped => (false, false)

/-- `flush`: types block, then values block, then reset both buffers. -/
def zFlush (st : ZngSites) (fail : Oracle) (s : ZngState) : ZngState × Bool :=
  let (s1, e1) := zWriteBlock st.low fail s s.tbuf
  if e1 && (after st.flushTypes).1 then (s1, (after st.flushTypes).2)
  else
    let (s2, e2) := zWriteBlock st.low fail s1 s1.vbuf
    if e2 && (after st.flushValues).1 then (s2, (after st.flushValues).2)
    else ({ s2 with tbuf := 0, vbuf := 0 }, false)

/-- `EndStream`: flush, then EOS if anything was written since the last EOS. -/
def zEndStream (st : ZngSites) (fail : Oracle) (s : ZngState) : ZngState × Bool :=
  let (s1, e1) := zFlush st fail s
  if e1 && (after st.endFlush).1 then (s1, (after st.endFlush).2)
  else if s1.dirty then
    let (s2, e2) := zWrite fail s1
    if e2 then (s2, st.low && st.endEOS == .returned)
    else ({ s2 with dirty := false }, false)
  else (s1, false)

def zStep (cfg : ZngCfg) (fail : Oracle) (s : ZngState) : ZngOp → ZngState × Bool
  | .write t v =>
    let s' := { s with tbuf := s.tbuf + t, vbuf := s.vbuf + v }
    if s'.vbuf ≥ cfg.thresh || s'.tbuf ≥ cfg.thresh then
      let (s2, e) := zFlush cfg.sites fail s'
      (s2, e && cfg.sites.writeFlush == .returned)
    else (s', false)
  | .endStream => zEndStream cfg.sites fail s
  | .close =>
    -- err := w.EndStream(); closeErr := w.writer.Close(); the sink's Close never fails here
    let (s1, e) := zEndStream cfg.sites fail s
    (s1, e && cfg.sites.closeEnd == .returned)

def zRun (cfg : ZngCfg) (fail : Oracle) : List ZngOp → ZngState → List Bool × ZngState
  | [], s => ([], s)
  | op :: ops, s =>
    let (s1, e) := zStep cfg fail s op
    let (es, s2) := zRun cfg fail ops s1
    (e :: es, s2)

/-! ### bufio-buffered writers (csv/tsv over encoding/csv, pkg/bufwriter) -/

structure BufState where
  cap : Nat
  buffered : Nat := 0
  sticky : Bool := false   -- bufio.Writer.err
  next : Nat := 0
  deriving Repr, DecidableEq

/-- bufio `Flush`: no-op on empty buffer or sticky error (returns the sticky error). -/
def bFlush (fail : Oracle) (s : BufState) : BufState :=
  if s.sticky then s
  else if s.buffered = 0 then s
  else if fail s.next then { s with sticky := true, next := s.next + 1 }
  else { s with buffered := 0, next := s.next + 1 }

/-- Append `n` bytes in pieces smaller than the buffer: a full buffer is flushed whenever a
    byte does not fit.  Fuel = n (each round consumes at least one byte). -/
def bAppend (fail : Oracle) : Nat → BufState → Nat → BufState
  | 0, s, _ => s
  | fuel + 1, s, n =>
    if n = 0 || s.sticky then s
    else
      let avail := s.cap - s.buffered
      if n ≤ avail then { s with buffered := s.buffered + n }
      else
        let s1 := bFlush fail { s with buffered := s.cap }
        if s1.sticky then s1 else bAppend fail fuel s1 (n - avail)

inductive BufOp where
  | write (n : Nat)     -- API Write producing n bytes of output
  | close
  deriving Repr

/-- `closeReports`: does Close return the final flush's error?  (csvio: generated site;
    bufwriter: generated site.) -/
def bStep (closeReports : Bool) (fail : Oracle) (s : BufState) : BufOp → BufState × Bool
  | .write n =>
    let s1 := bAppend fail n s n
    (s1, s1.sticky)             -- csv.Writer.Write / bufio Write return the sticky error
  | .close =>
    let s1 := bFlush fail s
    (s1, s1.sticky && closeReports)

def bRun (closeReports : Bool) (fail : Oracle) : List BufOp → BufState → List Bool × BufState
  | [], s => ([], s)
  | op :: ops, s =>
    let (s1, e) := bStep closeReports fail s op
    let (es, s2) := bRun closeReports fail ops s1
    (e :: es, s2)

/-- Sink oracles used by the harness. -/
def oneShot (k : Nat) : Oracle := fun n => n == k
def stickyFrom (k : Nat) : Oracle := fun n => n ≥ k

end Zed.Sink
