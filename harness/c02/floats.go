package main

// floats: the text of float16/32/64 values survives zson.FormatValue → zson.ParseValue bit for
// bit (NaN ≡ NaN): every float16 bit pattern, boundary values of float32/float64 (±2^63 and
// its neighbours — the integer-spelling branch goes through int64 —, ±2^53, ±2^24, largest
// and smallest finite, normal/subnormal border, shortest-representation classics) and
// random bit patterns.

import (
	"encoding/binary"
	"fmt"
	"math"
	h "verifharness/hlib"

	zed "github.com/brimdata/super"
	"github.com/brimdata/super/zson"
)

func floatBoundaries64() []float64 {
	p63 := math.Ldexp(1, 63)
	p53 := math.Ldexp(1, 53)
	xs := []float64{p63, -p63, math.Nextafter(p63, math.Inf(1)), math.Nextafter(p63, 0), math.Nextafter(-p63, math.Inf(-1)), math.Nextafter(-p63, 0),
		math.Ldexp(1, 64), math.Ldexp(1, 62), -math.Ldexp(1, 62), p53, -p53, p53 + 2, p53 - 1, -(p53 - 1), math.Ldexp(1, 31), math.Ldexp(1, 32),
		math.MaxFloat64, -math.MaxFloat64, math.Nextafter(math.MaxFloat64, 0), math.SmallestNonzeroFloat64, -math.SmallestNonzeroFloat64,
		2.2250738585072014e-308, 2.225073858507201e-308, -2.2250738585072014e-308, 1e23, 8.41e21, 1e22, 1e21, 1e20, 0.1 + 0.2, 1.0 / 3, 2.0 / 3,
		9007199254740993, 1e15, 1e16, 1e17, 123456789012345680, 0.000001, 0.0000001, 1e-5, 5e-5, 4.35, 1.7976931348623157e308,
		math.Inf(1), math.Inf(-1), math.NaN(), 0, math.Copysign(0, -1), 1, -1, 0.5, 1e100, 1e-100}
	return xs
}

func floatBoundaries32() []float32 {
	p63 := float32(math.Ldexp(1, 63))
	xs := []float32{p63, -p63, math.Nextafter32(p63, float32(math.Inf(1))), math.Nextafter32(p63, 0), math.Nextafter32(-p63, 0),
		float32(math.Ldexp(1, 64)), float32(math.Ldexp(1, 62)), float32(math.Ldexp(1, 31)), float32(math.Ldexp(1, 32)), 16777216, 16777218, 16777215, -16777216,
		math.MaxFloat32, -math.MaxFloat32, math.Nextafter32(math.MaxFloat32, 0), math.SmallestNonzeroFloat32, -math.SmallestNonzeroFloat32,
		1.17549435e-38, 1.17549421e-38, 0.1, 0.2, 0.3, 1.0 / 3, 1e10, 1e20, 1e30, 1e-10, 1e-30, 3.4e38, 8388608, 8388607.5, 0.5, 1, -1, 1.5,
		float32(math.Inf(1)), float32(math.Inf(-1)), float32(math.NaN()), 0, float32(math.Copysign(0, -1)), 65504, 65520, 9.223372e18, 1e7, 1e8, 123456.79}
	return xs
}

func floatRT(id int, body []byte) (ok bool, text string, detail string) {
	typ, _ := zed.LookupPrimitiveByID(id)
	var got zed.Value
	err, panicked := h.Protect(func() error {
		text = zson.FormatValue(zed.NewValue(typ, body))
		var e error
		got, e = zson.ParseValue(zed.NewContext(), text)
		return e
	})
	if panicked {
		return false, text, "panic: " + err.Error()
	}
	if err != nil {
		return false, text, err.Error()
	}
	if got.Type() != typ {
		return false, text, "read back as " + zson.FormatType(got.Type())
	}
	if rawPrim(typ, got.Bytes()) != rawPrim(typ, body) {
		return false, text, fmt.Sprintf("bits %x read back as %x", body, []byte(got.Bytes()))
	}
	return true, text, ""
}

func floatsCheck(c *h.Ctx) {
	report := func(id int, body []byte) {
		ok, text, detail := floatRT(id, body)
		c.Eval(fmt.Sprintf("float%d:%x", id, body))
		if ok {
			c.Stat(fmt.Sprintf("floats:ok:%d", id))
			return
		}
		key := "C02:roundtrip:float-text"
		if hzc := primHazard(id, body); hzc == "float-negative-zero" {
			key = "C02:roundtrip:float-negative-zero"
		}
		c.Fail("oracle", key, fmt.Sprintf("float type %d bits %x is written %q: %s", id, body, text, detail),
			replayObj{Check: "oracle", RT: &rtCase{Mode: "value", Vals: []tv{{Prim(id), pv(body)}}}})
	}
	// every float16
	step := 1
	if !c.Thorough() {
		step = 5 // plus, below, every pattern around each exponent border
	}
	for b := 0; b < 1<<16; b += step {
		report(idFloat16, le16(uint16(b)))
	}
	if step > 1 {
		for e := 0; e < 64; e++ {
			for d := -2; d <= 2; d++ {
				report(idFloat16, le16(uint16(e<<10+d)))
			}
		}
	}
	for _, f := range floatBoundaries32() {
		report(idFloat32, zed.EncodeFloat32(f))
	}
	for _, f := range floatBoundaries64() {
		report(idFloat64, zed.EncodeFloat64(f))
		// the same value as float32 when it is one
		if float64(float32(f)) == f {
			report(idFloat32, zed.EncodeFloat32(float32(f)))
		}
	}
	n := c.N(2000, 200000)
	for i := 0; i < n; i++ {
		var b4 [4]byte
		binary.LittleEndian.PutUint32(b4[:], c.Rng.Uint32())
		report(idFloat32, b4[:])
		var b8 [8]byte
		binary.LittleEndian.PutUint64(b8[:], c.Rng.Uint64())
		report(idFloat64, b8[:])
		// integers near the int64 border as floats
		e := 40 + c.Rng.Intn(30)
		f := math.Ldexp(1+c.Rng.Float64(), e)
		if c.Rng.Intn(2) == 0 {
			f = -f
		}
		if c.Rng.Intn(2) == 0 {
			f = math.Trunc(f)
		}
		report(idFloat64, zed.EncodeFloat64(f))
		report(idFloat32, zed.EncodeFloat32(float32(f)))
	}
}
