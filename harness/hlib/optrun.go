package hlib

// In-process execution of a query as an explicit plan: exactly as analyzed (compiler.NewJob
// + Build, no Optimize) or optimized (+ Parallelize for lake sources), over any zio.Reader
// or a lake.  Shared by C07 and C04.

import (
	"context"
	"errors"
	"fmt"
	"strings"
	"time"

	zed "github.com/brimdata/super"
	"github.com/brimdata/super/compiler"
	"github.com/brimdata/super/compiler/ast/dag"
	"github.com/brimdata/super/compiler/data"
	"github.com/brimdata/super/lakeparse"
	"github.com/brimdata/super/order"
	"github.com/brimdata/super/pkg/field"
	"github.com/brimdata/super/pkg/storage"
	"github.com/brimdata/super/runtime"
	"github.com/brimdata/super/runtime/sam/expr"
	"github.com/brimdata/super/zio"
	"github.com/brimdata/super/zio/zsonio"
	"github.com/brimdata/super/zson"
)

// PlanCfg describes one execution.
type PlanCfg struct {
	Query string
	// SortKey, when non-nil, is declared on the default scan (compiler.CompileWithSortKey).
	SortKey *order.SortKey
	// Optimize runs Job.Optimize; Parallel > 1 additionally runs Job.Parallelize (lake only).
	Optimize bool
	Parallel int
	// Readers opens the input(s) in the query's context (nil for `from` programs).
	Readers func(zctx *zed.Context) ([]zio.Reader, error)
	// Lake, when set, resolves `from pool` sources.
	Lake *TLake
	// Files lets `file <path>` sources read the local file system.
	Files bool
	// Hold keeps every pulled batch referenced until the end of the run (aliasing probe).
	Timeout time.Duration
}

// PlanResult is the canonicalised outcome of one execution.
type PlanResult struct {
	Out      []string // ZSON of each output value, in order
	Err      string   // "" or the error text (compile, build or run time)
	ErrStage string   // "parse" | "compile" | "optimize" | "build" | "run"
	Panicked bool
	Before   dag.Seq // the plan as analyzed (rendered before Optimize mutates it) – only the sexp is kept
	BeforeS  string
	AfterS   string
	After    dag.Seq
}

func (r PlanResult) Failed() bool { return r.Err != "" }

// ZSONReaders returns a Readers function over ZSON text.
func ZSONReaders(text string) func(*zed.Context) ([]zio.Reader, error) {
	return func(zctx *zed.Context) ([]zio.Reader, error) {
		return []zio.Reader{zsonio.NewReader(zctx, strings.NewReader(text))}, nil
	}
}

// RunPlan executes cfg.  Panics of the real code are recovered and reported.  The run has the
// timeout of cfg as context deadline; when the runtime does not honour the cancellation the run
// is abandoned a few seconds later (its goroutines leak) and reported as a timeout as well.
func RunPlan(cfg PlanCfg) PlanResult {
	to := cfg.Timeout
	if to == 0 {
		to = 60 * time.Second
	}
	ch := make(chan PlanResult, 1)
	go func() { ch <- runPlan(cfg) }()
	select {
	case r := <-ch:
		return r
	case <-time.After(to + 4*time.Second):
		return PlanResult{Err: "context deadline exceeded (hard: the runtime did not return after cancellation)", ErrStage: "run"}
	}
}

func runPlan(cfg PlanCfg) (res PlanResult) {
	to := cfg.Timeout
	if to == 0 {
		to = 60 * time.Second
	}
	err, panicked := Protect(func() error {
		seq, _, err := compiler.Parse(cfg.Query)
		if err != nil {
			res.ErrStage = "parse"
			return err
		}
		ctx, cancel := context.WithTimeout(context.Background(), to)
		defer cancel()
		zctx := zed.NewContext()
		rctx := runtime.NewContext(ctx, zctx)
		defer rctx.Cancel()
		var src *data.Source
		var head *lakeparse.Commitish
		if cfg.Lake != nil {
			src = data.NewSource(storage.NewRemoteEngine(), cfg.Lake.Root)
			head = &lakeparse.Commitish{}
		} else if cfg.Files {
			src = data.NewSource(storage.NewLocalEngine(), nil)
		} else {
			src = data.NewSource(nil, nil)
		}
		job, err := compiler.NewJob(rctx, seq, src, head)
		if err != nil {
			res.ErrStage = "compile"
			return err
		}
		scan, hasScan := job.DefaultScan()
		if cfg.SortKey != nil && hasScan {
			scan.SortKeys = order.SortKeys{*cfg.SortKey}
		}
		res.BeforeS = OptSeqSexp(job.Entry(), OptDagOpts{IgnoreFields: true})
		if cfg.Optimize {
			res.ErrStage = "optimize"
			if err := job.Optimize(); err != nil {
				return err
			}
			if cfg.Parallel > 1 {
				if err := job.Parallelize(cfg.Parallel); err != nil {
					return err
				}
			}
			res.After = job.Entry()
			res.AfterS = OptSeqSexp(job.Entry(), OptDagOpts{IgnoreFields: true})
		}
		var readers []zio.Reader
		if hasScan {
			if cfg.Readers == nil {
				res.ErrStage = "build"
				return errors.New("program reads the default input but none was given")
			}
			if readers, err = cfg.Readers(zctx); err != nil {
				res.ErrStage = "build"
				return err
			}
		}
		res.ErrStage = "build"
		if err := job.Build(readers...); err != nil {
			return err
		}
		res.ErrStage = "run"
		p := job.Puller()
		if p == nil {
			return nil
		}
		defer p.Pull(true)
		for {
			b, err := p.Pull(false)
			if err != nil {
				return err
			}
			if b == nil {
				break
			}
			for _, v := range b.Values() {
				res.Out = append(res.Out, zson.FormatValue(v))
			}
			b.Unref()
		}
		res.ErrStage = ""
		return nil
	})
	if err != nil {
		res.Err = err.Error()
		res.Panicked = panicked
		if panicked {
			res.ErrStage = "panic:" + res.ErrStage
		}
	}
	return res
}

// ---- sortedness of an output under a sort specification ------------------------------------

// SortSpec is the comparator of a `sort` operator or of a scan order.
type SortSpec struct {
	Keys       []SortSpecKey `json:"keys"`
	NullsFirst bool          `json:"nullsfirst"`
	Reverse    bool          `json:"reverse"`
	// Scan: the order of a pool scan / merge (nullsMax, no flag games).
	Scan bool `json:"scan"`
}

type SortSpecKey struct {
	Path []string `json:"path"`
	Desc bool     `json:"desc"`
}

// comparator builds the real comparator the `sort` operator (runtime/sam/op/sort
// setComparator) resp. the merge operator / pool order (kernel: NewComparator(true, …))
// would use for spec.
func (s SortSpec) comparator(zctx *zed.Context) *expr.Comparator {
	var evs []expr.SortEvaluator
	for _, k := range s.Keys {
		o := order.Asc
		if k.Desc {
			o = order.Desc
		}
		evs = append(evs, expr.NewSortEvaluator(expr.NewDottedExpr(zctx, field.Path(k.Path)), o))
	}
	if s.Scan {
		return expr.NewComparator(true, evs...).WithMissingAsNull()
	}
	nullsMax := !s.NullsFirst
	if s.Reverse {
		for i := range evs {
			evs[i].Order = !evs[i].Order
		}
	}
	if len(evs) > 0 && evs[0].Order == order.Desc {
		nullsMax = !nullsMax
	}
	return expr.NewComparator(nullsMax, evs...).WithMissingAsNull()
}

// FirstUnsorted returns the index i of the first adjacent pair out[i] > out[i+1] under the
// real comparator for spec, or -1 when out is sorted.
func FirstUnsorted(out []string, spec SortSpec) (int, error) {
	zctx := zed.NewContext()
	cmp := spec.comparator(zctx)
	var prev zed.Value
	for i, s := range out {
		v, err := zson.ParseValue(zctx, s)
		if err != nil {
			return -1, fmt.Errorf("cannot parse output value %q: %w", s, err)
		}
		if i > 0 && cmp.Compare(prev, v) > 0 {
			return i - 1, nil
		}
		prev = v.Copy()
	}
	return -1, nil
}

// CompileDAG returns the plan as analyzed (before any optimization).
func CompileDAG(q string, l *TLake) (seq dag.Seq, err error) {
	e, _ := Protect(func() error {
		ast, _, err := compiler.Parse(q)
		if err != nil {
			return err
		}
		rctx := runtime.NewContext(context.Background(), zed.NewContext())
		defer rctx.Cancel()
		var src *data.Source
		var head *lakeparse.Commitish
		if l != nil {
			src = data.NewSource(storage.NewRemoteEngine(), l.Root)
			head = &lakeparse.Commitish{}
		} else {
			src = data.NewSource(nil, nil)
		}
		job, err := compiler.NewJob(rctx, ast, src, head)
		if err != nil {
			return err
		}
		seq = job.Entry()
		return nil
	})
	return seq, e
}

// OptimizeOnly compiles cfg.Query and runs Job.Optimize (and Parallelize when cfg.Parallel > 1)
// without building or running it; before/after are renderings for the Lean model.  before is
// "" when the program does not compile.
func OptimizeOnly(cfg PlanCfg) (before, after, errText string, panicked bool) {
	err, p := Protect(func() error {
		ast, _, err := compiler.Parse(cfg.Query)
		if err != nil {
			return nil
		}
		rctx := runtime.NewContext(context.Background(), zed.NewContext())
		defer rctx.Cancel()
		var src *data.Source
		var head *lakeparse.Commitish
		if cfg.Lake != nil {
			src = data.NewSource(storage.NewRemoteEngine(), cfg.Lake.Root)
			head = &lakeparse.Commitish{}
		} else {
			src = data.NewSource(nil, nil)
		}
		job, err := compiler.NewJob(rctx, ast, src, head)
		if err != nil {
			return nil
		}
		if scan, ok := job.DefaultScan(); ok && cfg.SortKey != nil {
			scan.SortKeys = order.SortKeys{*cfg.SortKey}
		}
		before = OptSeqSexp(job.Entry(), OptDagOpts{IgnoreFields: true})
		if err := job.Optimize(); err != nil {
			return err
		}
		if cfg.Parallel > 1 {
			if err := job.Parallelize(cfg.Parallel); err != nil {
				return err
			}
		}
		after = OptSeqSexp(job.Entry(), OptDagOpts{IgnoreFields: true})
		return nil
	})
	if err != nil {
		errText = err.Error()
	}
	return before, after, errText, p
}
