/-
  Model of the second read path of a VNG object (C03): the vector cache loader and the
  materializer.
  Anchors: runtime/vcache/shadow.go newShadow (lengths = values + nulls of the enclosing
  records); runtime/vcache/nulls.go fetch / flatten / convolve; runtime/vcache/loader.go
  fetchNulls / flattenNulls / loadVector / loadPrimitive / loadVals / loadDict / empty /
  loadOffsets / loadUint32; runtime/vcache/project.go; vector/*.go Serialize;
  runtime/vam/materialize.go.

  A VNG child column has no slot where an enclosing record is null; a vector has one slot
  per slot of its parent.  The loader therefore expands every column's own null bitmap
  (`nullsFetch`) into its parent's slots (`convolve`) on the way down, and fills value /
  offset / selector arrays slot by slot.

  The defects of the current code are modelled as they are:
    * enum columns that are not const-encoded: the load fails (`none`) (net columns in plain encoding did too until
      /repo 496cea1e9; the model follows the regenerated allocation fact);
    * a union's tags are loaded WITHOUT expansion over null slots and `Union.Serialize`
      ignores the union's nulls;
    * the inner column of an error type is flattened with a nil parent although its length
      includes the enclosing records' nulls.
  `none` stands for "error or panic".
-/
import Zed.Model.VngColumns
import Zed.Model.VecProject
namespace Zed.Vng
open Zed.Generated.C03

abbrev Bitmap := Option (List Bool)     -- *vector.Bool, nil = no nulls

/-- `(*Bool).Value(slot)`: false on a nil receiver (and, here, past the end). -/
def Bitmap.get (b : Bitmap) (slot : Nat) : Bool :=
  match b with
  | none => false
  | some bs => bs.getD slot false

mutual
inductive Vec where
  | flat (t : Ty) (vals : List Bytes) (nulls : Bitmap)                     -- Uint Int Float Bool Bytes String IP Net TypeValue
  | dict (t : Ty) (entries : List Bytes) (index : List Nat) (nulls : Bitmap) -- vector.Dict
  | const (t : Ty) (v : Bytes) (len : Nat) (nulls : Bitmap)                -- vector.Const
  | constNull (len : Nat)                                                  -- vector.Const(zed.Null)
  | record (fs : FVecs) (len : Nat) (nulls : Bitmap)
  | array (offs : List Nat) (vals : Vec) (nulls : Bitmap)
  | set (offs : List Nat) (vals : Vec) (nulls : Bitmap)
  | map (offs : List Nat) (keys vals : Vec) (nulls : Bitmap)
  | union (tags : List Nat) (vals : Vecs) (nulls : Bitmap)
  | named (name : Bytes) (v : Vec)
  | error (v : Vec) (nulls : Bitmap)
  | missing (len : Nat)                                                    -- vector.NewMissing
  deriving Repr
inductive FVecs where
  | nil
  | cons (name : Bytes) (v : Vec) (rest : FVecs)
  deriving Repr
inductive Vecs where
  | nil
  | cons (v : Vec) (rest : Vecs)
  deriving Repr
end

/-- `nulls.flatten(parent)`: the node's own bitmap (`local`, from its `Nulls` metadata)
    expanded into the parent's slots. -/
def flattenNulls (parent : Bitmap) (own : Option (List Nat × Nat)) : Bitmap :=
  match own with
  | none => parent
  | some (runs, _) =>
    let loc := nullsFetch false runs
    match parent with
    | none => some loc
    | some p => some (convolve p loc)

/-- fill `length` slots: a null slot gets the default, every other slot the next value
    (the loops of `loadVals`, and of `loadPrimitive` for dictionary selectors). -/
def fillSlots {α : Type} (dflt : α) : Nat → Nat → Bitmap → List α → List α
  | 0, _, _, _ => []
  | n + 1, slot, nulls, vals =>
    if nulls.get slot then dflt :: fillSlots dflt n (slot + 1) nulls vals
    else match vals with
      | [] => dflt :: fillSlots dflt n (slot + 1) nulls []     -- iterator exhausted (not reached when consistent)
      | v :: r => v :: fillSlots dflt n (slot + 1) nulls r

def fillTags (n slot : Nat) (nulls : Bitmap) (tags : List Nat) : List Nat := fillSlots 0 n slot nulls tags

/-- `loadOffsets`: `offs[k]` = start of slot k; a null slot has length 0. -/
def offsetsOf : Nat → Nat → Nat → Bitmap → List Nat → List Nat
  | 0, _, off, _, _ => [off]
  | n + 1, slot, off, nulls, lens =>
    if nulls.get slot then off :: offsetsOf n (slot + 1) off nulls lens
    else match lens with
      | [] => off :: offsetsOf n (slot + 1) off nulls []
      | l :: r => off :: offsetsOf n (slot + 1) (off + l) nulls r

def isNetTy : Ty → Bool
  | .prim 27 => true
  | _ => false

/-- the `net` case of `loadVals` allocates its slice before indexing it (T1 fact; it did not
    before /repo 496cea1e9: `var values []netip.Prefix; values[slot] = …`). -/
def netAllocated : Bool := !(loadValsCases.contains ("TypeOfNet", "nil-slice"))

def isEnumTy : Ty → Bool
  | .enum _ => true
  | _ => false

def isNullTy : Ty → Bool
  | .prim 29 => true
  | _ => false

/-- `loadPrimitive` for one leaf; `length` = values + nulls of the column and of the
    enclosing records. -/
def loadLeaf (t : Ty) (p : PCol) (length : Nat) (nulls : Bitmap) : Option Vec :=
  if isEnumTy t then
    -- no enum case in loadVals (error), loadDict (panic) and empty (panic); a Const column
    -- (all values equal) goes through none of them and loads
    match p with
    | .const v _ => some (.const t v length nulls)
    | _ => none
  else match p with
    | .const v _ => some (.const t v length nulls)
    | .dict es sel _ =>
      some (.dict t (es.map (·.1)) (if nulls.isSome then fillTags length 0 nulls sel else sel) nulls)
    | .plain vals count =>
      if isNullTy t then some (.constNull length)
      else if count = 0 then some (.flat t (List.replicate length []) nulls)   -- `empty`
      else if isNetTy t && !netAllocated then none          -- a nil slice would be indexed
      else some (.flat t (fillSlots [] length 0 nulls vals) nulls)

mutual
/-- newShadow + fetchNulls + flattenNulls + loadVector + project(nil) for one column.
    `parent`: the flattened nulls of the enclosing record chain; `cnt`: their null count
    (`nullsCnt`); `own`: the `Nulls` metadata directly above this node. -/
def load : Col → Bitmap → Nat → Option (List Nat × Nat) → Option Vec
  | .nulls runs count inner, parent, cnt, own =>
    match own with
    | some _ => none                                        -- "can't wrap nulls inside of nulls"
    | none => load inner parent (cnt + count) (some (runs, count))
  | .prim t p, parent, cnt, own => loadLeaf t p (cnt + p.len) (flattenNulls parent own)
  | .record len fs, parent, cnt, own =>
    let nulls := flattenNulls parent own
    match loadFields fs nulls cnt with
    | none => none
    | some vs => some (.record vs (cnt + len) nulls)
  | .array len lens vals, parent, cnt, own =>
    let nulls := flattenNulls parent own
    match load vals none 0 none with
    | none => none
    | some v => some (.array (offsetsOf (cnt + len) 0 0 nulls lens) v nulls)
  | .set len lens vals, parent, cnt, own =>
    let nulls := flattenNulls parent own
    match load vals none 0 none with
    | none => none
    | some v => some (.set (offsetsOf (cnt + len) 0 0 nulls lens) v nulls)
  | .map len lens keys vals, parent, cnt, own =>
    let nulls := flattenNulls parent own
    match load keys none 0 none, load vals none 0 none with
    | some k, some v => some (.map (offsetsOf (cnt + len) 0 0 nulls lens) k v nulls)
    | _, _ => none
  | .union _ tags vals, parent, _, own =>
    match loadCols vals with
    | none => none
    | some vs => some (.union tags vs (flattenNulls parent own))   -- tags NOT expanded over nulls
  | .named n c, parent, cnt, own =>
    match load c parent cnt own with
    | none => none
    | some v => some (.named n v)
  | .error c, parent, cnt, own =>
    -- error_{newShadow(m.Values, n, cnt), nulls{meta: n}}; flattenNulls passes nil to the inner
    match load c none cnt own with
    | none => none
    | some v => some (.error v (flattenNulls parent own))
def loadFields : FCols → Bitmap → Nat → Option FVecs
  | .nil, _, _ => some .nil
  | .cons n c rest, nulls, cnt =>
    match load c nulls cnt none, loadFields rest nulls cnt with
    | some v, some vs => some (.cons n v vs)
    | _, _ => none
def loadCols : Cols → Option Vecs
  | .nil => some .nil
  | .cons c rest =>
    match load c none 0 none, loadCols rest with
    | some v, some vs => some (.cons v vs)
    | _, _ => none
end

/-! ### Serialize -/

/-- number of earlier slots with the same tag (`TagMap.Forward[slot]`). -/
def forwardOf (tags : List Nat) (slot : Nat) : Nat :=
  ((tags.take slot).filter (· == tags.getD slot 0)).length

/-- `f off, f (off+1), …` (`n` results); `none` if one of them is. -/
def mapRange (f : Nat → Option Val) : Nat → Nat → Option (List Val)
  | _, 0 => some []
  | off, n + 1 =>
    match f off, mapRange f (off + 1) n with
    | some x, some xs => some (x :: xs)
    | _, _ => none

mutual
/-- `vec.Serialize(builder, slot)`; `none` = index out of range (panic). -/
def serialize : Vec → Nat → Option Val
  | .flat _ vals nulls, slot =>
    if nulls.get slot then some .null else (vals[slot]?).map Val.prim
  | .dict _ es idx nulls, slot =>
    if nulls.get slot then some .null
    else match idx[slot]? with
      | none => none
      | some i => (es[i]?).map Val.prim
  | .const _ v len nulls, slot =>
    if nulls.get slot then some .null else if slot < len then some (.prim v) else none
  | .constNull _, _ => some .null
  | .record fs _ nulls, slot =>
    if nulls.get slot then some .null
    else (serializeFields fs slot).map fun xs => .cont (Vals.ofList xs)
  | .array offs vals nulls, slot =>
    if nulls.get slot then some .null
    else match offs[slot]?, offs[slot + 1]? with
      | some a, some b => (mapRange (serialize vals) a (b - a)).map fun xs => .cont (Vals.ofList xs)
      | _, _ => none
  | .set offs vals nulls, slot =>
    if nulls.get slot then some .null
    else match offs[slot]?, offs[slot + 1]? with
      | some a, some b => (mapRange (serialize vals) a (b - a)).map fun xs => .cont (Vals.ofList xs)
      | _, _ => none
  | .map offs keys vals nulls, slot =>
    if nulls.get slot then some .null
    else match offs[slot]?, offs[slot + 1]? with
      | some a, some b =>
        match mapRange (serialize keys) a (b - a), mapRange (serialize vals) a (b - a) with
        | some ks, some vs => some (.cont (Vals.ofList (interleaveKV ks vs)))
        | _, _ => none
      | _, _ => none
  | .union tags vals _, slot =>            -- the union's nulls are not consulted
    match tags[slot]? with
    | none => none
    | some tag => (serializeAt vals tag (forwardOf tags slot)).map fun x => .union tag x
  | .named _ v, slot => serialize v slot
  | .error v nulls, slot => if nulls.get slot then some .null else serialize v slot
  | .missing _, _ => some missingVal
def serializeFields : FVecs → Nat → Option (List Val)
  | .nil, _ => some []
  | .cons _ v rest, slot =>
    match serialize v slot, serializeFields rest slot with
    | some x, some xs => some (x :: xs)
    | _, _ => none
/-- `d.Values[tag].Serialize(b, slot)` -/
def serializeAt : Vecs → Nat → Nat → Option Val
  | .nil, _, _ => none
  | .cons v _, 0, slot => serialize v slot
  | .cons _ rest, tag + 1, slot => serializeAt rest tag slot
end

end Zed.Vng

namespace Zed.Vng

/-! ### Projection of loaded vectors (runtime/vcache/project.go with non-empty paths) -/

def FVecs.lookup : FVecs → Bytes → Option Vec
  | .nil, _ => none
  | .cons n v rest, a => if n = a then some v else rest.lookup a

def Vec.len : Vec → Nat
  | .flat _ vals _ => vals.length
  | .dict _ _ idx _ => idx.length
  | .const _ _ len _ => len
  | .constNull len => len
  | .record _ len _ => len
  | .array offs _ _ => offs.length - 1
  | .set offs _ _ => offs.length - 1
  | .map offs _ _ _ => offs.length - 1
  | .union tags _ _ => tags.length
  | .named _ v => v.len
  | .error v _ => v.len
  | .missing len => len

/-- a `named` / `error` wrapper around a vector (`project` passes the paths through them). -/
inductive Wrap where
  | named (name : Bytes)
  | error (nulls : Bitmap)
  deriving Repr

/-- strip the wrappers (outermost first). -/
def Vec.peel : Vec → List Wrap × Vec
  | .named n v => let (ws, c) := v.peel; (.named n :: ws, c)
  | .error v nulls => let (ws, c) := v.peel; (.error nulls :: ws, c)
  | v => ([], v)

def Vec.rewrap : List Wrap → Vec → Vec
  | [], v => v
  | .named n :: ws, v => .named n (Vec.rewrap ws v)
  | .error nulls :: ws, v => .error (Vec.rewrap ws v) nulls

mutual
/-- `project(zctx, paths, s)` on a fully loaded column: the paths pass through named and
    error wrappers, select the fields of a record, turn a leaf into `missing`, and are ignored
    by arrays, sets, maps and unions. -/
def projVec : Proj → Vec → Vec
  | .all, v => v
  | .fields fs, v =>
    Vec.rewrap v.peel.1 (match v.peel.2 with
      | .record rfs len nulls => .record (projFieldVecs fs rfs len) len nulls
      | .flat _ vals _ => .missing vals.length
      | .dict _ _ idx _ => .missing idx.length
      | .const _ _ len _ => .missing len
      | .constNull len => .missing len
      | c => c)
def projFieldVecs : PFields → FVecs → Nat → FVecs
  | .nil, _, _ => .nil
  | .cons a p rest, rfs, len =>
    .cons a (match rfs.lookup a with
      | some v => projVec p v
      | none => .missing len) (projFieldVecs rest rfs len)
end

mutual
/-- the type of a loaded vector (`vec.Type()`). -/
def vecType : Vec → Ty
  | .flat t _ _ => t
  | .dict t _ _ _ => t
  | .const t _ _ _ => t
  | .constNull _ => .prim 29
  | .record fs _ _ => .record (fvecTypes fs)
  | .array _ v _ => .array (vecType v)
  | .set _ v _ => .set (vecType v)
  | .map _ k v _ => .map (vecType k) (vecType v)
  | .union _ vs _ => .union (vecTypes vs)
  | .named n v => .named n (vecType v)
  | .error v _ => .error (vecType v)
  | .missing _ => missingTy
def fvecTypes : FVecs → Fields
  | .nil => .nil
  | .cons n v rest => .cons n (vecType v) (fvecTypes rest)
def vecTypes : Vecs → Tys
  | .nil => .nil
  | .cons v rest => .cons (vecType v) (vecTypes rest)
end

/-- all slots of a vector, with its type (`Materializer.Pull` on a non-Dynamic vector). -/
def materialize (v : Vec) : Option (List (Ty × Val)) :=
  (mapRange (serialize v) 0 v.len).map (·.map fun x => (vecType v, x))

end Zed.Vng

namespace Zed.Vng

/-! ### partial loading under a projection (loader.go loadVector / loadRecord with paths)

  `loadVector` hands the projection paths down through arrays, sets, maps and unions, so a
  record nested below such a container is loaded only at the selected fields; `project`,
  however, rebuilds the contents of a container with nil paths, i.e. ALL fields of that
  record.  A field that was not loaded is a nil vector: the projection panics (nil pointer
  dereference).  `projCrashes` says when that happens. -/

def PFields.find : PFields → Bytes → Option Proj
  | .nil, _ => none
  | .cons a p rest, n => if a = n then some p else PFields.find rest n

mutual
/-- the column has no leaf vector at all (records without fields, possibly nested): nothing of
    it is ever loaded, so nothing of it can be missing. -/
def Col.noLeaves : Col → Bool
  | .record _ fs => FCols.noLeaves fs
  | .nulls _ _ c => Col.noLeaves c
  | .named _ c => Col.noLeaves c
  | .error c => Col.noLeaves c
  | _ => false
def FCols.noLeaves : FCols → Bool
  | .nil => true
  | .cons _ c rest => Col.noLeaves c && FCols.noLeaves rest
end

mutual
/-- loading `c` with paths `P` loads every leaf of `c`. -/
def fullyLoaded : Proj → Col → Bool
  | .all, _ => true
  | .fields fs, .record _ rfs => fieldsLoaded fs rfs (match fs with | .cons _ _ .nil => true | _ => false)
  | .fields fs, .nulls _ _ c => fullyLoaded (.fields fs) c
  | .fields fs, .named _ c => fullyLoaded (.fields fs) c
  | .fields fs, .error c => fullyLoaded (.fields fs) c
  | .fields fs, .array _ _ c => fullyLoaded (.fields fs) c
  | .fields fs, .set _ _ c => fullyLoaded (.fields fs) c
  | .fields fs, .map _ _ k v => fullyLoaded (.fields fs) k && fullyLoaded (.fields fs) v
  | .fields fs, .union _ _ cs => colsLoaded (.fields fs) cs
  | .fields _, .prim _ _ => true
/-- every field of the record is selected (a single path element loads the field with the
    rest of the path, a fork loads the selected fields completely). -/
def fieldsLoaded : PFields → FCols → Bool → Bool
  | _, .nil, _ => true
  | fs, .cons n c rest, single =>
    (match PFields.find fs n with
      | none => Col.noLeaves c
      | some q => if single then fullyLoaded q c else true) && fieldsLoaded fs rest single
def colsLoaded : Proj → Cols → Bool
  | _, .nil => true
  | p, .cons c rest => fullyLoaded p c && colsLoaded p rest
end

def FCols.find : FCols → Bytes → Option Col
  | .nil, _ => none
  | .cons n c rest, a => if n = a then some c else rest.find a

mutual
/-- the projection `P` of column `c` dereferences a vector that was never loaded. -/
def projCrashes : Proj → Col → Bool
  | .all, _ => false
  | .fields fs, .nulls _ _ c => projCrashes (.fields fs) c
  | .fields fs, .named _ c => projCrashes (.fields fs) c
  | .fields fs, .error c => projCrashes (.fields fs) c
  | .fields fs, .record _ rfs =>
    (match fs with
      | .cons _ _ .nil => true
      | _ => false) && fieldCrashes fs rfs        -- a fork loads its fields completely
  | .fields _, .prim _ _ => false
  | .fields fs, .array _ _ c => !fullyLoaded (.fields fs) c
  | .fields fs, .set _ _ c => !fullyLoaded (.fields fs) c
  | .fields fs, .map _ _ k v => !(fullyLoaded (.fields fs) k && fullyLoaded (.fields fs) v)
  | .fields fs, .union _ _ cs => !colsLoaded (.fields fs) cs
/-- single path element `a`: descend into field `a` with the rest of the path. -/
def fieldCrashes : PFields → FCols → Bool
  | .nil, _ => false
  | .cons a q _, rfs =>
    match rfs with
    | .nil => false
    | .cons n c rest => if n = a then projCrashes q c else fieldCrashes (.cons a q .nil) rest
end

/-- `Object.Fetch(zctx, paths)` + `Materializer`: the second read path, projected. -/
def readVec (paths : List (List Bytes)) : Top → Option (List (Ty × Val))
  | .single c =>
    if projCrashes (mkProj paths) c then none else
    match load c none 0 none with
    | none => none
    | some v => materialize (projVec (mkProj paths) v)
  | .dynamic tags cols _ =>
    if cols.any (projCrashes (mkProj paths)) then none else
    match cols.mapM fun c => (load c none 0 none).map (projVec (mkProj paths)) with
    | none => none
    | some vs =>
      -- `vector.NewDynamic` panics ("bad VNG tagmap") unless the lengths add up to the tags
      if (vs.map Vec.len).sum != tags.length then none
      else
        (List.range tags.length).mapM fun slot =>
          match vs[tags.getD slot 0]? with
          | none => none
          | some v => (serialize v (forwardOf tags slot)).map fun x => (vecType v, x)


end Zed.Vng
