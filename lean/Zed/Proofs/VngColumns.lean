import Zed.Model.VngColumns
import Zed.Proofs.VngNulls
import Zed.Proofs.VngPrimitive
/-! Round trip of the column shredding (row path). -/
namespace Zed.Vng
open Zed.Generated.C03

theorem Vals.toList_ofList (xs : List Val) : (Vals.ofList xs).toList = xs := by
  induction xs with
  | nil => rfl
  | cons x xs ih => simp [Vals.ofList, Vals.toList, ih]

theorem Vals.ofList_toList : ∀ xs : Vals, Vals.ofList xs.toList = xs
  | .nil => rfl
  | .cons x xs => by simp [Vals.ofList, Vals.toList, Vals.ofList_toList xs]

@[simp] theorem Val.items_cont (xs : Vals) : (Val.cont xs).items = xs.toList := rfl
@[simp] theorem Val.utag_union (t : Nat) (v : Val) : (Val.union t v).utag = t := rfl
@[simp] theorem Val.uval_union (t : Nat) (v : Val) : (Val.union t v).uval = v := rfl

theorem Val.ofOpt_toOpt (v : Val) : Val.ofOpt v.toOpt = v := by
  cases v <;> rfl

theorem map_ofOpt_toOpt (vs : List Val) : (vs.map Val.toOpt).map Val.ofOpt = vs := by
  induction vs with
  | nil => rfl
  | cons v vs ih => simp only [List.map_cons, Val.ofOpt_toOpt, ih]

theorem filterMap_id_map_toOpt (vs : List Val) :
    (vs.map Val.toOpt).filterMap id = nonNull vs := by
  simp [nonNull, List.filterMap_map]

theorem mem_nonNull {vs : List Val} {v : Val} (h : v ∈ nonNull vs) : v ∈ vs ∧ v ≠ .null := by
  simp only [nonNull, List.mem_filterMap] at h
  obtain ⟨a, ha, h2⟩ := h
  cases a with
  | null => simp [Val.toOpt] at h2
  | prim b => simp only [Val.toOpt, Option.some.injEq] at h2; subst h2; exact ⟨ha, by simp⟩
  | cont xs => simp only [Val.toOpt, Option.some.injEq] at h2; subst h2; exact ⟨ha, by simp⟩
  | union t x => simp only [Val.toOpt, Option.some.injEq] at h2; subst h2; exact ⟨ha, by simp⟩

theorem initialNull_true : nullsBuilderInitialNull = true := rfl

/-- `NullsEncoder` around any encoder whose builder returns the non-null bodies. -/
theorem nullsWrap_spec (vs : List Val) (c : Col)
    (hd : dec c = some (nonNull vs)) (hl : colLen c = (nonNull vs).length) :
    dec (nullsWrap vs c) = some vs ∧ colLen (nullsWrap vs c) = vs.length ∧
    colType (nullsWrap vs c) = colType c := by
  have hdec := nullsDecode_nullsEncode (vs.map Val.toOpt)
  have hcnt := nullsEncode_count_add (vs.map Val.toOpt)
  rw [filterMap_id_map_toOpt] at hcnt
  unfold nullsWrap
  simp only
  by_cases h0 : (nullsEncode (vs.map Val.toOpt)).count = 0
  · simp only [h0, if_true]
    have hz := nullsEncode_count_zero _ h0
    rw [filterMap_id_map_toOpt] at hz
    have hvs : vs = nonNull vs := by
      have := congrArg (List.map Val.ofOpt) hz
      rw [map_ofOpt_toOpt] at this
      simpa [List.map_map, Function.comp_def, Val.ofOpt] using this
    refine ⟨by rw [hd, ← hvs], ?_, ?_⟩
    · rw [hl]; simp at hcnt; omega
    · first | rfl | trivial
  · simp only [h0, if_false]
    unfold nullsDecode at hdec
    simp only [h0, if_false, nullsEncode_values, filterMap_id_map_toOpt] at hdec
    refine ⟨?_, ?_, by simp [colType]⟩
    · simp only [dec, hd, hl, initialNull_true, hdec, Option.map_some, map_ofOpt_toOpt]
    · simp only [colLen, hl]; simpa using hcnt

/-! ### list lemmas -/

theorem splitLens_flatten (xss : List (List Val)) :
    splitLens (xss.map List.length) xss.flatten = some xss := by
  induction xss with
  | nil => rfl
  | cons xs xss ih =>
    simp only [List.map_cons, List.flatten_cons, splitLens, List.length_append]
    have : ¬ (xs.length + xss.flatten.length < xs.length) := by omega
    simp [this, ih]

theorem zipWith_head_tail (rows : List (List Val)) (h : ∀ r ∈ rows, r ≠ []) :
    List.zipWith (· :: ·) (rows.map headV) (rows.map List.tail) = rows := by
  induction rows with
  | nil => rfl
  | cons r rows ih =>
    cases r with
    | nil => exact absurd rfl (h [] (by simp))
    | cons x xs =>
      simp only [List.map_cons, List.zipWith_cons_cons, headV, List.tail_cons]
      rw [ih (fun r hr => h r (List.mem_cons_of_mem _ hr))]

theorem evens_odds_length (xs : List Val) (h : xs.length % 2 = 0) :
    (evens xs).length = (odds xs).length := by
  induction xs using evens.induct with
  | case1 => rfl
  | case2 a => simp at h
  | case3 a b r ih =>
    simp only [evens, odds, List.length_cons]
    rw [ih (by simp at h; omega)]

theorem interleaveKV_evens_odds (xs : List Val) (h : xs.length % 2 = 0) :
    interleaveKV (evens xs) (odds xs) = xs := by
  induction xs using evens.induct with
  | case1 => rfl
  | case2 a => simp at h
  | case3 a b r ih =>
    simp only [evens, odds, interleaveKV]
    rw [ih (by simp at h; omega)]

theorem partitionBy_cons {α : Type} (k t : Nat) (a : α) (ps : List (Nat × α)) :
    partitionBy k ((t, a) :: ps) = if t = k then a :: partitionBy k ps else partitionBy k ps := by
  unfold partitionBy
  by_cases h : t = k <;> simp [List.filter_cons, h]

/-- popping the values in tag order out of the per-tag partitions restores the sequence. -/
theorem mergeTags_partition {α : Type} (n : Nat) (ps : List (Nat × α)) (h : ∀ p ∈ ps, p.1 < n) :
    mergeTags (ps.map (·.1)) ((List.range n).map (partitionBy · ps)) = some ps := by
  induction ps with
  | nil => rfl
  | cons p ps ih =>
    obtain ⟨t, a⟩ := p
    have ht : t < n := h (t, a) (by simp)
    have hget : ((List.range n).map (partitionBy · ((t, a) :: ps)))[t]? =
        some (a :: partitionBy t ps) := by
      simp [ht, partitionBy_cons]
    have hset : ((List.range n).map (partitionBy · ((t, a) :: ps))).set t (partitionBy t ps) =
        (List.range n).map (partitionBy · ps) := by
      apply List.ext_getElem
      · simp
      · intro i h1 h2
        simp only [List.length_set, List.length_map, List.length_range] at h1
        by_cases hi : t = i
        · subst hi; simp
        · simp [List.getElem_set, hi, partitionBy_cons]
    simp only [List.map_cons, mergeTags, hget, hset]
    rw [ih (fun p hp => h p (List.mem_cons_of_mem _ hp))]
    rfl

/-! ### shape of conforming non-null bodies -/

theorem conforms_prim_nonnull {id : Nat} {v : Val} (h : conforms (.prim id) v = true) (hn : v ≠ .null) :
    ∃ b, v = .prim b := by
  cases v <;> simp_all [conforms]

theorem conforms_enum_nonnull {s : List Bytes} {v : Val} (h : conforms (.enum s) v = true) (hn : v ≠ .null) :
    ∃ b, v = .prim b := by
  cases v <;> simp_all [conforms]

theorem conforms_record_nonnull {fs : Fields} {v : Val} (h : conforms (.record fs) v = true)
    (hn : v ≠ .null) : ∃ xs, v = .cont xs ∧ conformsRow fs xs.toList = true := by
  cases v <;> simp_all [conforms]

theorem conforms_array_nonnull {t : Ty} {v : Val} (h : conforms (.array t) v = true)
    (hn : v ≠ .null) : ∃ xs, v = .cont xs ∧ ∀ x ∈ xs.toList, conforms t x = true := by
  cases v <;> simp_all [conforms]

theorem conforms_set_nonnull {t : Ty} {v : Val} (h : conforms (.set t) v = true)
    (hn : v ≠ .null) : ∃ xs, v = .cont xs ∧ ∀ x ∈ xs.toList, conforms t x = true := by
  cases v <;> simp_all [conforms]

theorem conforms_map_nonnull {k w : Ty} {v : Val} (h : conforms (.map k w) v = true)
    (hn : v ≠ .null) : ∃ xs, v = .cont xs ∧ xs.toList.length % 2 = 0 ∧
      (∀ x ∈ evens xs.toList, conforms k x = true) ∧ (∀ x ∈ odds xs.toList, conforms w x = true) := by
  cases v <;> simp_all [conforms]

theorem conforms_union_nonnull {ts : Tys} {v : Val} (h : conforms (.union ts) v = true)
    (hn : v ≠ .null) : ∃ tag x, v = .union tag x ∧ conformsTag ts tag x = true := by
  cases v with
  | union t x => exact ⟨t, x, rfl, by simpa [conforms] using h⟩
  | null => exact absurd rfl hn
  | prim b => simp [conforms] at h
  | cont xs => simp [conforms] at h

theorem map_cont_items (vs : List Val) (h : ∀ v ∈ vs, ∃ xs, v = .cont xs) :
    (vs.map Val.items).map (fun r => Val.cont (Vals.ofList r)) = vs := by
  induction vs with
  | nil => rfl
  | cons v vs ih =>
    obtain ⟨xs, rfl⟩ := h v (by simp)
    simp only [List.map_cons, Val.items_cont, Vals.ofList_toList]
    rw [ih (fun v hv => h v (List.mem_cons_of_mem _ hv))]

theorem conformsRow_cons {n : Bytes} {t : Ty} {rest : Fields} {r : List Val}
    (h : conformsRow (.cons n t rest) r = true) :
    r ≠ [] ∧ conforms t (headV r) = true ∧ conformsRow rest r.tail = true := by
  cases r with
  | nil => simp [conformsRow] at h
  | cons x xs => simpa [conformsRow, headV] using h

theorem conformsRow_nil {r : List Val} (h : conformsRow .nil r = true) : r = [] := by
  cases r with
  | nil => rfl
  | cons x xs => simp [conformsRow] at h

theorem conformsTag_lt : ∀ {ts : Tys} {n : Nat} {v : Val}, conformsTag ts n v = true → n < ts.length
  | .nil, _, _, h => by simp [conformsTag] at h
  | .cons _ _, 0, _, _ => by simp [Tys.length]
  | .cons _ rest, m + 1, _, h => by
    simp only [conformsTag] at h
    have := conformsTag_lt (ts := rest) h
    simp [Tys.length]; omega

/-! ### the mutual induction over types -/

def Spec (t : Ty) : Prop :=
  ∀ vs : List Val, (∀ v ∈ vs, conforms t v = true) →
    dec (enc t vs) = some vs ∧ colLen (enc t vs) = vs.length ∧ colType (enc t vs) = t

theorem spec_wrap {t : Ty} {vs : List Val} {c : Col}
    (hd : dec c = some (nonNull vs)) (hl : colLen c = (nonNull vs).length) (ht : colType c = t) :
    dec (nullsWrap vs c) = some vs ∧ colLen (nullsWrap vs c) = vs.length ∧
    colType (nullsWrap vs c) = t := by
  obtain ⟨a, b, c'⟩ := nullsWrap_spec vs c hd hl
  exact ⟨a, b, c'.trans ht⟩

theorem leaf_spec (t : Ty) (id : Nat) (vs : List Val)
    (hp : ∀ v ∈ vs, v ≠ .null → ∃ b, v = .prim b) :
    dec (nullsWrap vs (.prim t (primEncode id true ((nonNull vs).map Val.primBytes)))) = some vs ∧
    colLen (nullsWrap vs (.prim t (primEncode id true ((nonNull vs).map Val.primBytes)))) = vs.length ∧
    colType (nullsWrap vs (.prim t (primEncode id true ((nonNull vs).map Val.primBytes)))) = t := by
  apply spec_wrap
  · simp only [dec, primEncode_build, Option.map_some]
    congr 1
    have : ∀ v ∈ nonNull vs, ∃ b, v = .prim b := fun v hv =>
      hp v (mem_nonNull hv).1 (mem_nonNull hv).2
    generalize nonNull vs = nn at this
    induction nn with
    | nil => rfl
    | cons v nn ih =>
      obtain ⟨b, rfl⟩ := this v (by simp)
      simp only [List.map_cons, Val.primBytes]
      rw [ih (fun v hv => this v (List.mem_cons_of_mem _ hv))]
  · simp [colLen, primEncode_len]
  · rfl

mutual
theorem enc_spec : ∀ t : Ty, Spec t
  | .named n t => by
    intro vs h
    have ih := enc_spec t vs (by simpa [conforms] using h)
    simp only [enc, dec, colLen, colType]
    exact ⟨ih.1, ih.2.1, by rw [ih.2.2]⟩
  | .error t => by
    intro vs h
    have ih := enc_spec t vs (by simpa [conforms] using h)
    simp only [enc, dec, colLen, colType]
    exact ⟨ih.1, ih.2.1, by rw [ih.2.2]⟩
  | .prim id => by
    intro vs h
    simp only [enc]
    exact leaf_spec _ _ vs (fun v hv hn => conforms_prim_nonnull (h v hv) hn)
  | .enum syms => by
    intro vs h
    simp only [enc]
    exact leaf_spec _ _ vs (fun v hv hn => conforms_enum_nonnull (h v hv) hn)
  | .record fs => by
    intro vs h
    simp only [enc]
    have hnn : ∀ v ∈ nonNull vs, ∃ xs, v = .cont xs ∧ conformsRow fs xs.toList = true :=
      fun v hv => conforms_record_nonnull (h v (mem_nonNull hv).1) (mem_nonNull hv).2
    have ih := encFields_spec fs ((nonNull vs).map Val.items) (by
      intro r hr
      obtain ⟨v, hv, rfl⟩ := List.mem_map.mp hr
      obtain ⟨xs, rfl, hc⟩ := hnn v hv
      exact hc)
    apply spec_wrap
    · simp only [dec]
      rw [show (nonNull vs).length = ((nonNull vs).map Val.items).length by simp, ih.1]
      simp only [Option.map_some]
      rw [map_cont_items _ (fun v hv => let ⟨xs, e, _⟩ := hnn v hv; ⟨xs, e⟩)]
    · rfl
    · simp only [colType, ih.2]
  | .array t => by
    intro vs h
    simp only [enc]
    have hnn : ∀ v ∈ nonNull vs, ∃ xs, v = .cont xs ∧ ∀ x ∈ xs.toList, conforms t x = true :=
      fun v hv => conforms_array_nonnull (h v (mem_nonNull hv).1) (mem_nonNull hv).2
    have ih := enc_spec t ((nonNull vs).flatMap Val.items) (by
      intro x hx
      obtain ⟨v, hv, hx⟩ := List.mem_flatMap.mp hx
      obtain ⟨xs, rfl, hc⟩ := hnn v hv
      exact hc x hx)
    apply spec_wrap
    · simp only [dec, ih.1]
      have := splitLens_flatten ((nonNull vs).map Val.items)
      simp only [List.map_map, Function.comp_def, ← List.flatMap_def] at this
      rw [this]
      simp only [Option.map_some]
      rw [map_cont_items _ (fun v hv => let ⟨xs, e, _⟩ := hnn v hv; ⟨xs, e⟩)]
    · rfl
    · simp only [colType, ih.2.2]
  | .set t => by
    intro vs h
    simp only [enc]
    have hnn : ∀ v ∈ nonNull vs, ∃ xs, v = .cont xs ∧ ∀ x ∈ xs.toList, conforms t x = true :=
      fun v hv => conforms_set_nonnull (h v (mem_nonNull hv).1) (mem_nonNull hv).2
    have ih := enc_spec t ((nonNull vs).flatMap Val.items) (by
      intro x hx
      obtain ⟨v, hv, hx⟩ := List.mem_flatMap.mp hx
      obtain ⟨xs, rfl, hc⟩ := hnn v hv
      exact hc x hx)
    apply spec_wrap
    · simp only [dec, ih.1]
      have := splitLens_flatten ((nonNull vs).map Val.items)
      simp only [List.map_map, Function.comp_def, ← List.flatMap_def] at this
      rw [this]
      simp only [Option.map_some]
      rw [map_cont_items _ (fun v hv => let ⟨xs, e, _⟩ := hnn v hv; ⟨xs, e⟩)]
    · rfl
    · simp only [colType, ih.2.2]
  | .map k w => by
    intro vs h
    simp only [enc]
    have hnn : ∀ v ∈ nonNull vs, ∃ xs, v = .cont xs ∧ xs.toList.length % 2 = 0 ∧
        (∀ x ∈ evens xs.toList, conforms k x = true) ∧ (∀ x ∈ odds xs.toList, conforms w x = true) :=
      fun v hv => conforms_map_nonnull (h v (mem_nonNull hv).1) (mem_nonNull hv).2
    have ihk := enc_spec k ((nonNull vs).flatMap fun x => evens x.items) (by
      intro x hx
      obtain ⟨v, hv, hx⟩ := List.mem_flatMap.mp hx
      obtain ⟨xs, rfl, _, hc, _⟩ := hnn v hv
      exact hc x hx)
    have ihw := enc_spec w ((nonNull vs).flatMap fun x => odds x.items) (by
      intro x hx
      obtain ⟨v, hv, hx⟩ := List.mem_flatMap.mp hx
      obtain ⟨xs, rfl, _, _, hc⟩ := hnn v hv
      exact hc x hx)
    apply spec_wrap
    · simp only [dec, ihk.1, ihw.1]
      have hk := splitLens_flatten ((nonNull vs).map fun x => evens x.items)
      have hw := splitLens_flatten ((nonNull vs).map fun x => odds x.items)
      simp only [List.map_map, Function.comp_def, ← List.flatMap_def] at hk hw
      have hlen : ((nonNull vs).map fun x => (evens x.items).length) =
          (nonNull vs).map fun x => (odds x.items).length := by
        apply List.map_congr_left
        intro v hv
        obtain ⟨xs, rfl, he, _⟩ := hnn v hv
        exact evens_odds_length _ he
      rw [hlen] at hk
      rw [hk, hw]
      simp only [Option.some.injEq]
      generalize nonNull vs = nn at hnn
      induction nn with
      | nil => rfl
      | cons v nn ih =>
        obtain ⟨xs, rfl, he, _⟩ := hnn v (by simp)
        simp only [List.map_cons, List.zipWith_cons_cons, Val.items_cont]
        rw [interleaveKV_evens_odds _ he, Vals.ofList_toList,
          ih (fun v hv => hnn v (List.mem_cons_of_mem _ hv))]
    · rfl
    · simp only [colType, ihk.2.2, ihw.2.2]
  | .union ts => by
    intro vs h
    simp only [enc]
    have hnn : ∀ v ∈ nonNull vs, ∃ tag x, v = .union tag x ∧ conformsTag ts tag x = true :=
      fun v hv => conforms_union_nonnull (h v (mem_nonNull hv).1) (mem_nonNull hv).2
    have ih := encTys_spec ts 0 ((nonNull vs).map fun x => (x.utag, x.uval)) (by
      intro p hp _
      obtain ⟨v, hv, rfl⟩ := List.mem_map.mp hp
      obtain ⟨tag, x, rfl, hc⟩ := hnn v hv
      simpa using hc)
    apply spec_wrap
    · simp only [dec, ih.1]
      have hm := mergeTags_partition ts.length ((nonNull vs).map fun x => (x.utag, x.uval)) (by
        intro p hp
        obtain ⟨v, hv, rfl⟩ := List.mem_map.mp hp
        obtain ⟨tag, x, rfl, hc⟩ := hnn v hv
        exact conformsTag_lt hc)
      simp only [List.map_map, Function.comp_def] at hm
      rw [List.range_eq_range'] at hm
      rw [hm]
      simp only [Option.map_some, List.map_map, Function.comp_def, Option.some.injEq]
      generalize nonNull vs = nn at hnn
      induction nn with
      | nil => rfl
      | cons v nn ih =>
        obtain ⟨tag, x, rfl, _⟩ := hnn v (by simp)
        simp only [List.map_cons, Val.utag_union, Val.uval_union]
        rw [ih (fun v hv => hnn v (List.mem_cons_of_mem _ hv))]
    · rfl
    · simp only [colType, ih.2]

theorem encFields_spec : ∀ (fs : Fields) (rows : List (List Val)),
    (∀ r ∈ rows, conformsRow fs r = true) →
    decFields (encFields fs rows) rows.length = some rows ∧ fcolTypes (encFields fs rows) = fs
  | .nil, rows => by
    intro h
    simp only [encFields, decFields, fcolTypes, and_true, Option.some.injEq]
    symm
    rw [List.eq_replicate_iff]
    exact ⟨rfl, fun r hr => conformsRow_nil (h r hr)⟩
  | .cons n t rest, rows => by
    intro h
    have h1 := enc_spec t (rows.map headV) (by
      intro v hv
      obtain ⟨r, hr, rfl⟩ := List.mem_map.mp hv
      exact (conformsRow_cons (h r hr)).2.1)
    have h2 := encFields_spec rest (rows.map List.tail) (by
      intro r hr
      obtain ⟨r', hr', rfl⟩ := List.mem_map.mp hr
      exact (conformsRow_cons (h r' hr')).2.2)
    simp only [List.length_map] at h2
    simp only [encFields, decFields, h1.1, h2.1, List.length_map, if_true, fcolTypes, h1.2.2, h2.2,
      and_true, Option.some.injEq]
    exact zipWith_head_tail rows (fun r hr => (conformsRow_cons (h r hr)).1)

theorem encTys_spec : ∀ (ts : Tys) (k : Nat) (ps : List (Nat × Val)),
    (∀ p ∈ ps, k ≤ p.1 → conformsTag ts (p.1 - k) p.2 = true) →
    decCols (encTys ts k ps) = some ((List.range' k ts.length).map (partitionBy · ps)) ∧
    colTypes (encTys ts k ps) = ts
  | .nil, k, ps => by
    intro _
    simp [encTys, decCols, colTypes, Tys.length]
  | .cons t rest, k, ps => by
    intro h
    have h1 := enc_spec t (partitionBy k ps) (by
      intro v hv
      simp only [partitionBy, List.mem_map, List.mem_filter] at hv
      obtain ⟨p, ⟨hp, hk⟩, rfl⟩ := hv
      have hk' : p.1 = k := by simpa using hk
      have := h p hp (by omega)
      simpa [hk', conformsTag] using this)
    have h2 := encTys_spec rest (k + 1) ps (by
      intro p hp hk
      have := h p hp (by omega)
      have e : p.1 - k = (p.1 - (k + 1)) + 1 := by omega
      rw [e] at this
      simpa [conformsTag] using this)
    simp only [encTys, decCols, h1.1, h2.1, colTypes, h1.2.2, h2.2, Tys.length, and_true,
      Option.some.injEq]
    rw [List.range'_succ]
    simp
end

end Zed.Vng

namespace Zed.Vng

/-! ### top level: dynamic tags -/

theorem encTypes_spec : ∀ (ts : List Ty) (k : Nat) (ps : List (Nat × Val)),
    (∀ p ∈ ps, k ≤ p.1 → ∃ t, ts[p.1 - k]? = some t ∧ conforms t p.2 = true) →
    decAll (encTypes ts k ps) = some ((List.range' k ts.length).map (partitionBy · ps)) ∧
    (encTypes ts k ps).map colType = ts ∧
    (encTypes ts k ps).map colLen = (List.range' k ts.length).map fun i => (partitionBy i ps).length
  | [], k, ps => by intro _; simp [encTypes, decAll]
  | t :: rest, k, ps => by
    intro h
    have h1 := enc_spec t (partitionBy k ps) (by
      intro v hv
      simp only [partitionBy, List.mem_map, List.mem_filter] at hv
      obtain ⟨p, ⟨hp, hk⟩, rfl⟩ := hv
      have hk' : p.1 = k := by simpa using hk
      obtain ⟨t', ht', hc⟩ := h p hp (by omega)
      simp [hk'] at ht'
      subst ht'; exact hc)
    have h2 := encTypes_spec rest (k + 1) ps (by
      intro p hp hk
      obtain ⟨t', ht', hc⟩ := h p hp (by omega)
      have e : p.1 - k = (p.1 - (k + 1)) + 1 := by omega
      rw [e] at ht'
      exact ⟨t', by simpa using ht', hc⟩)
    simp only [encTypes, decAll, h1.1, h2.1, List.map_cons, h1.2.2, h2.2.1, h1.2.1, h2.2.2,
      List.length_cons, List.range'_succ, and_self]

theorem seenTypes_mem : ∀ (vs : List (Ty × Val)) (seen : List Ty),
    (∀ t ∈ seen, t ∈ seenTypes seen vs) ∧ (∀ p ∈ vs, p.1 ∈ seenTypes seen vs)
  | [], seen => by simp [seenTypes]
  | (t, v) :: r, seen => by
    simp only [seenTypes]
    by_cases hc : seen.contains t = true
    · simp only [hc, if_true]
      obtain ⟨h1, h2⟩ := seenTypes_mem r seen
      refine ⟨h1, ?_⟩
      intro p hp
      cases List.mem_cons.mp hp with
      | inl e => subst e; exact h1 _ (by simpa using hc)
      | inr e => exact h2 p e
    · simp only [hc]
      obtain ⟨h1, h2⟩ := seenTypes_mem r (seen ++ [t])
      refine ⟨fun x hx => h1 x (by simp [hx]), ?_⟩
      intro p hp
      cases List.mem_cons.mp hp with
      | inl e => subst e; exact h1 _ (by simp)
      | inr e => exact h2 p e

theorem tagOf_spec (types : List Ty) (t : Ty) (h : t ∈ types) :
    types[tagOf types t]? = some t := by
  unfold tagOf
  have hlt : List.findIdx (· == t) types < types.length :=
    List.findIdx_lt_length_of_exists ⟨t, h, by simp⟩
  have := List.findIdx_getElem (w := hlt)
  simp only [beq_iff_eq] at this
  rw [List.getElem?_eq_getElem hlt, this]

/-- **Row path, top level.**  Any sequence of typed values, whatever the interleaving of its
    top-level types, is read back identically and in order. -/
theorem readRows_encTop (vs : List (Ty × Val)) (h : ∀ p ∈ vs, conforms p.1 p.2 = true) :
    readRows (encTop vs) = some vs := by
  unfold encTop
  simp only
  generalize hty : seenTypes [] vs = types
  have hmem : ∀ p ∈ vs, p.1 ∈ types := by rw [← hty]; exact (seenTypes_mem vs []).2
  have hspec := encTypes_spec types 0 (vs.map fun p => (tagOf types p.1, p.2)) (by
    intro q hq _
    obtain ⟨p, hp, rfl⟩ := List.mem_map.mp hq
    exact ⟨p.1, by simpa using tagOf_spec types p.1 (hmem p hp), h p hp⟩)
  have htags : ∀ q ∈ vs.map (fun p => (tagOf types p.1, p.2)), q.1 < types.length := by
    intro q hq
    obtain ⟨p, hp, rfl⟩ := List.mem_map.mp hq
    have := tagOf_spec types p.1 (hmem p hp)
    by_cases hlt : tagOf types p.1 < types.length
    · exact hlt
    · rw [List.getElem?_eq_none (by omega)] at this; cases this
  have hmerge := mergeTags_partition types.length _ htags
  rw [List.range_eq_range'] at hmerge
  -- the value list is recovered from the tagged list
  have hback : ∀ (cols : List Col), cols.map colType = types →
      ((vs.map fun p => (tagOf types p.1, p.2)).map fun p =>
        ((cols[p.1]?.map colType).getD (.prim 29), p.2)) = vs := by
    intro cols hc
    rw [List.map_map]
    conv => rhs; rw [← List.map_id vs]
    apply List.map_congr_left
    intro p hp
    have h1 := tagOf_spec types p.1 (hmem p hp)
    have h2 : (cols.map colType)[tagOf types p.1]? = some p.1 := by rw [hc]; exact h1
    rw [List.getElem?_map] at h2
    simp only [Function.comp_def, id, h2, Option.getD_some]
  generalize hcols : encTypes types 0 (vs.map fun p => (tagOf types p.1, p.2)) = cols at hspec
  obtain ⟨hdec, htypes, hlens⟩ := hspec
  have hdyn : readRows (.dynamic ((vs.map fun p => (tagOf types p.1, p.2)).map (·.1)) cols vs.length)
      = some vs := by
    simp only [readRows, hdec, hmerge, Option.map_some, hback cols htypes]
  match cols, hcols, hdec, htypes, hlens, hdyn with
  | [c], hcols, hdec, htypes, hlens, _ =>
    -- exactly one type: every value has it, every tag is 0
    have hone : types = [colType c] := by simpa using htypes.symm
    subst hone
    have hall : ∀ p ∈ vs, tagOf [colType c] p.1 = 0 := by
      intro p hp
      have := htags (tagOf [colType c] p.1, p.2) (List.mem_map.mpr ⟨p, hp, rfl⟩)
      simpa using this
    have hpart : partitionBy 0 (vs.map fun p => (tagOf [colType c] p.1, p.2)) = vs.map (·.2) := by
      unfold partitionBy
      rw [List.filter_eq_self.mpr]
      · simp [List.map_map, Function.comp_def]
      · intro q hq
        obtain ⟨p, hp, rfl⟩ := List.mem_map.mp hq
        simp [hall p hp]
    have hd : dec c = some (vs.map (·.2)) := by
      simp only [decAll, List.length_singleton] at hdec
      cases hdc : dec c with
      | none => simp [hdc] at hdec
      | some col =>
        simp only [hdc, Option.some.injEq] at hdec
        simp only [List.range', List.map_cons, List.map_nil, List.cons.injEq, and_true] at hdec
        rw [hdec, hpart]
    have hl : colLen c = vs.length := by
      simp only [List.length_singleton, List.map_cons, List.map_nil, List.range',
        List.cons.injEq, and_true] at hlens
      rw [hlens, hpart]; simp
    simp only [readRows, hd, hl, List.length_map, if_true, Option.some.injEq, List.map_map]
    conv => rhs; rw [← List.map_id vs]
    apply List.map_congr_left
    intro p hp
    have := tagOf_spec [colType c] p.1 (hmem p hp)
    rw [hall p hp] at this
    simp only [List.getElem?_cons_zero, Option.some.injEq] at this
    simp [Function.comp_def, this]
  | [], _, _, _, _, hdyn => exact hdyn
  | _ :: _ :: _, _, _, _, _, hdyn => exact hdyn

end Zed.Vng
