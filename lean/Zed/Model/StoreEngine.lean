/-
  L5 (DESIGN.md §4) — the storage engine as a map path → value, with atomic
  get / put / putIfNotExists / delete / deleteByPrefix.

  Paths are structured (the harness maps the real URIs onto them):
    head j / tail j / snap j / ent j n   files HEAD, TAIL, snap.zng, <n>.zng of journal j
                                         (j = 0: the `pools/` journal; j = p ≥ 1: `<pool p>/branches/`)
    cobj p c                             commit object c of pool p (`<pool>/commits/<c>.zng`)
  Values are typed: serialisation of journal entries / commit objects (zson marshalling) is a
  parameter of the model (trusted base), not modelled.
  Core Lean only: this file is linked into the driver executables.
-/
namespace Zed.Store

inductive Path where
  | head (j : Nat)
  | tail (j : Nat)
  | snap (j : Nat)
  | ent (j n : Nat)
  | cobj (p c : Nat)
  deriving DecidableEq, Repr

/-- The pool directory (journal id) a path lives under; 0 = the lake-level `pools/` journal. -/
def Path.pool : Path → Nat
  | .head j => j
  | .tail j => j
  | .snap j => j
  | .ent j _ => j
  | .cobj p _ => p

/-- One key/value mutation inside a journal entry (`journal.Add/Update/Delete`). -/
inductive JAct where
  | add (k v : Nat)
  | update (k v : Nat)
  | delete (k : Nat)
  deriving DecidableEq, Repr

/-- A journal store table: key (name) ↦ value (pool id / branch tip). -/
abbrev Table := List (Nat × Nat)

inductive SVal where
  | num (n : Nat)                                   -- HEAD
  | tailv (id base : Nat)                           -- TAIL
  | entry (acts : List JAct)                        -- <n>.zng
  | commit (parent : Nat) (adds dels : List Nat)    -- commit object: parent pointer + actions
  | jsnap (pos : Nat) (t : Table)                    -- journal snapshot snap.zng
  deriving DecidableEq, Repr

abbrev Store := Path → Option SVal

def Store.empty : Store := fun _ => none

def Store.put (s : Store) (p : Path) (v : SVal) : Store :=
  fun q => if q = p then some v else s q

def Store.del (s : Store) (p : Path) : Store :=
  fun q => if q = p then none else s q

/-- `DeleteByPrefix(<pool dir>)`. -/
def Store.delPool (s : Store) (p : Nat) : Store :=
  fun q => if q.pool = p then none else s q

@[simp] theorem Store.put_same (s : Store) (p v) : (s.put p v) p = some v := by simp [Store.put]
theorem Store.put_other (s : Store) (p q v) (h : q ≠ p) : (s.put p v) q = s q := by simp [Store.put, h]
@[simp] theorem Store.del_same (s : Store) (p) : (s.del p) p = none := by simp [Store.del]
theorem Store.del_other (s : Store) (p q) (h : q ≠ p) : (s.del p) q = s q := by simp [Store.del, h]

/-! ### Journal tables -/

def Table.get (t : Table) (k : Nat) : Option Nat := t.lookup k

def Table.erase (t : Table) (k : Nat) : Table := t.filter fun e => e.1 != k

def Table.set (t : Table) (k v : Nat) : Table := (k, v) :: t.erase k

/-- `journal.Store.load`'s switch: Add overwrites, Update requires the key, Delete is silent. -/
def applyAct (t : Table) : JAct → Option Table
  | .add k v => some (t.set k v)
  | .update k v => if (t.get k).isSome then some (t.set k v) else none
  | .delete k => some (t.erase k)

def applyActs (t : Table) : List JAct → Option Table
  | [] => some t
  | a :: as => match applyAct t a with
    | some t' => applyActs t' as
    | none => none

/-- The head position recorded in the store (0 when HEAD is absent or unreadable). -/
def headOf (s : Store) (j : Nat) : Nat :=
  match s (.head j) with
  | some (.num h) => h
  | _ => 0

/-- Replay of entries 1..n of journal j on the empty table (`none`: an entry is missing,
    is not an entry, or does not apply). -/
def tableAt (s : Store) (j : Nat) : Nat → Option Table
  | 0 => some []
  | n + 1 => match tableAt s j n with
    | some t => match s (.ent j (n + 1)) with
      | some (.entry acts) => applyActs t acts
      | _ => none
    | none => none

/-- What a fresh client sees: the replay up to HEAD. -/
def visibleTable (s : Store) (j : Nat) : Option Table := tableAt s j (headOf s j)

/-! ### Commit chains -/

/-- Parent chain from commit `c` (leaf first).  `fuel` bounds the walk; since parents are
    allocated before their children, `fuel = c` always suffices (see `chain`). -/
def chainF (s : Store) (p : Nat) : Nat → Nat → List Nat
  | 0, _ => []
  | fuel + 1, c =>
    if c = 0 then [] else
    match s (.cobj p c) with
    | some (.commit par _ _) => c :: chainF s p fuel par
    | _ => [c]

def chain (s : Store) (p c : Nat) : List Nat := chainF s p c c

/-- Every commit on the chain has its object (the chain does not dangle). -/
def chainOkF (s : Store) (p : Nat) : Nat → Nat → Bool
  | 0, c => c == 0
  | fuel + 1, c =>
    if c = 0 then true else
    match s (.cobj p c) with
    | some (.commit par _ _) => chainOkF s p fuel par
    | _ => false

/-- `commits.PlayAction` on a set of data-object names: duplicate add / delete of an absent
    object are errors. -/
def playAdds (snap : List Nat) : List Nat → Option (List Nat)
  | [] => some snap
  | a :: as => if snap.contains a then none else playAdds (a :: snap) as

def playDels (snap : List Nat) : List Nat → Option (List Nat)
  | [] => some snap
  | d :: ds => if snap.contains d then playDels (snap.filter (· != d)) ds else none

/-- `commits.Store.Snapshot(c)`: fold the actions root-first. -/
def snapshotF (s : Store) (p : Nat) : Nat → Nat → Option (List Nat)
  | 0, c => if c = 0 then some [] else none
  | fuel + 1, c =>
    if c = 0 then some [] else
    match s (.cobj p c) with
    | some (.commit par adds dels) =>
      match snapshotF s p fuel par with
      | some base => match playAdds base adds with
        | some b1 => playDels b1 dels
        | none => none
      | none => none
    | _ => none

def snapshot (s : Store) (p c : Nat) : Option (List Nat) := snapshotF s p c c

end Zed.Store
