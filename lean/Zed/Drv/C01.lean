import Zed.Drv.ZngGlue
/-!
  Driver glue for C01 (line protocol, see AGENT_GUIDE):
    (C01 write <thresh> (ops…))              → (<hex out> <small01> <maxFrame>)     model writer, no compression
    (C01 read <maxSize> <validate01> <hex>)  → (<outcome> (allocs…) (vals (ty body)…)) model reader, LZ4 = none
    (C01 zcode (items…))                     → hex   zappendAll
    (C01 ziter <hex>)                        → (ok items…) | (panic)
    (C01 uvarint <n>)                        → hex
    (C01 header <kind> <size>)               → hex   frameHeader
    (C01 cheader <kind> <size> <zlen>)       → hex   compFrameHeader
    (C01 sched <total> <threads> (workflags…) (actions…)) → (delivered slot numbers…) of the scanner model
-/
namespace Zed.Drv.C01
open Zed Zed.Zng Zed.Drv.Zng

def actionOf : Sexp → Option Scanner.Action
  | .atom "d" => some .dispatch
  | .atom "c" => some .control
  | .atom "p" => some .pull
  | .list [.atom "f", .atom k] => do pure (.finish (← k.toNat?))
  | _ => none

def handle : List Sexp → String
  | [.atom "write", .atom thresh, .list ops] =>
    match thresh.toNat?, ops.mapM opOf with
    | some t, some ops =>
      let w := writeAll ⟨false, t⟩ (fun _ => none) ops
      toString (Sexp.list [.atom (hexOfBytesFast w.out), .atom (if w.small && w.enc.small then "1" else "0"), .atom (toString w.maxFrame)])
    | _, _ => "bad-op"
  | [.atom "read", .atom maxSize, .atom validate, .atom hex] =>
    match maxSize.toNat?, bytesOfHexFast hex with
    | some m, some bs =>
      if validate != "0" && validate != "1" then "bad-op" else
      toString (sexpOfRRes (readAll ⟨m, validate == "1"⟩ (fun _ _ => none) bs) true)
    | _, _ => "bad-op"
  | [.atom "zcode", .list items] =>
    match items.mapM bodyOf with
    | some vs => hexOfBytesFast (zappendAll vs)
    | none => "bad-op"
  | [.atom "ziter", .atom hex] =>
    match bytesOfHexFast hex with
    | some bs =>
      match ziterAll bs with
      | .ok vs => toString (Sexp.list (.atom "ok" :: vs.map sexpOfBody))
      | .error _ => "(panic)"
    | none => "bad-op"
  | [.atom "uvarint", .atom n] =>
    match n.toNat? with
    | some n => hexOfBytesFast (uvarint n)
    | none => "bad-op"
  | [.atom "header", .atom k, .atom n] =>
    match k.toNat?, n.toNat? with
    | some k, some n => hexOfBytesFast (frameHeader k n)
    | _, _ => "bad-op"
  | [.atom "cheader", .atom k, .atom n, .atom z] =>
    match k.toNat?, n.toNat?, z.toNat? with
    | some k, some n, some z => hexOfBytesFast (compFrameHeader k n z)
    | _, _, _ => "bad-op"
  | [.atom "sched", .atom total, .atom threads, .list flags, .list acts] =>
    match total.toNat?, threads.toNat?, acts.mapM actionOf with
    | some total, some threads, some acts =>
      let fl : List Bool := flags.map fun | .atom "1" => true | _ => false
      let s := Scanner.run (R := Nat) id (fun k => fl.getD k true) total (Scanner.init threads) acts
      toString (Sexp.list (s.delivered.map fun k => .atom (toString k)))
    | _, _, _ => "bad-op"
  | _ => "bad-op"

end Zed.Drv.C01
