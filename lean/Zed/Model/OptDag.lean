/-
  Model DAG of the query optimizer (C07; shared with C04 for the push-down grammar).
  Anchors: compiler/ast/dag/op.go, compiler/ast/dag/expr.go.

  Only what the optimizer looks at is structured; everything else is an opaque atom
  carrying its canonical JSON (`x`/`X` constructors), which the rewrites move around but
  never inspect and which "commute with nothing".
-/
namespace Zed.Opt

abbrev Path := List String

mutual
/-- DAG expressions as far as the optimizer inspects them. -/
inductive Expr where
  | this (p : Path)
  | lit (v : String)
  | bin (op : String) (l r : Expr)
  | un (op : String) (e : Expr)
  | call (name : String) (args : Exprs)
  | search (text value : String) (e : Expr)
  | rmatch (pat : String) (e : Expr)          -- dag.RegexpMatch
  | rsearch (pat : String) (e : Expr)         -- dag.RegexpSearch
  | dot (e : Expr) (name : String)
  | record (elems : Elems)
  | map (entries : Exprs)                     -- key, value, key, value …
  | agg (name : String) (e whr : Expr)
  | none                                      -- a nil dag.Expr
  | x (kind : String) (json : String)         -- any other expression kind
inductive Exprs where
  | nil
  | cons (e : Expr) (r : Exprs)
inductive Elems where
  | nil
  | field (name : String) (v : Expr) (r : Elems)
  | spread (e : Expr) (r : Elems)
end

instance : Inhabited Expr := ⟨.none⟩

def Exprs.toList : Exprs → List Expr
  | .nil => []
  | .cons e r => e :: r.toList

def Exprs.ofList : List Expr → Exprs
  | [] => .nil
  | e :: r => .cons e (Exprs.ofList r)

structure Assign where
  lhs : Expr
  rhs : Expr

/-- order.Which: `false` = asc, `true` = desc. -/
abbrev Desc := Bool

structure SortKey where
  desc : Desc
  key : Path
  deriving DecidableEq, Repr

/-- order.SortKeys; `[]` is the nil (unknown) order. -/
abbrev SortKeys := List SortKey

structure SortArg where
  key : Expr
  desc : Desc

mutual
inductive Op where
  | filter (e : Expr)
  | pass
  | head (n : Nat)
  | tail (n : Nat)
  | cut (args : List Assign)
  | drop (args : List Expr)
  | put (args : List Assign)
  | rename (args : List Assign)
  | yield (exprs : List Expr)
  | sort (args : List SortArg) (nullsFirst reverse : Bool)
  | uniq (cflag : Bool)
  | fuse
  | summarize (limit : Nat) (keys aggs : List Assign) (inputSortDir : Int) (partialsIn partialsOut : Bool)
  | fork (paths : Seqs)
  | scatter (paths : Seqs)
  | mirror (main mirror : Seq)
  | scope (hdr : String) (body : Seq)
  | over (hdr : String) (hasBody : Bool) (body : Seq)
  | merge (e : Expr) (desc : Desc)
  | combine
  | join (style : String) (leftKey : Expr) (leftDir : Int) (rightKey : Expr) (rightDir : Int) (args : String)
  | output (name : String)
  | defaultScan (filter : Expr) (sortKeys : SortKeys)
  | fileScan (hdr : String) (filter : Expr) (sortKeys : SortKeys)
  | poolScan (id commit : String)
  | lister (pool commit : String)
  | slicer
  | seqScan (pool commit : String) (fields : List Path) (filter : Expr)
  | X (kind : String) (json : String)         -- any other operator (Switch, Load, Top, Explode, Shape, …)
inductive Seq where
  | nil
  | cons (op : Op) (rest : Seq)
inductive Seqs where
  | nil
  | cons (s : Seq) (rest : Seqs)
end

instance : Inhabited Op := ⟨.pass⟩

/-- The Go type name (`dag.<Kind>`), the index into the regenerated classification tables. -/
def Op.kind : Op → String
  | .filter _ => "Filter" | .pass => "Pass" | .head _ => "Head" | .tail _ => "Tail"
  | .cut _ => "Cut" | .drop _ => "Drop" | .put _ => "Put" | .rename _ => "Rename"
  | .yield _ => "Yield" | .sort .. => "Sort" | .uniq _ => "Uniq" | .fuse => "Fuse"
  | .summarize .. => "Summarize" | .fork _ => "Fork" | .scatter _ => "Scatter"
  | .mirror .. => "Mirror" | .scope .. => "Scope" | .over .. => "Over"
  | .merge .. => "Merge" | .combine => "Combine" | .join .. => "Join" | .output _ => "Output"
  | .defaultScan .. => "DefaultScan" | .fileScan .. => "FileScan" | .poolScan .. => "PoolScan"
  | .lister .. => "Lister" | .slicer => "Slicer" | .seqScan .. => "SeqScan"
  | .X k _ => k

def Expr.kind : Expr → String
  | .this _ => "This" | .lit _ => "Literal" | .bin .. => "BinaryExpr" | .un .. => "UnaryExpr"
  | .call .. => "Call" | .search .. => "Search" | .rmatch .. => "RegexpMatch"
  | .rsearch .. => "RegexpSearch" | .dot .. => "Dot" | .record _ => "RecordExpr"
  | .map _ => "MapExpr" | .agg .. => "Agg" | .none => "nil" | .x k _ => k

def Seq.toList : Seq → List Op
  | .nil => []
  | .cons o r => o :: r.toList

def Seq.ofList : List Op → Seq
  | [] => .nil
  | o :: r => .cons o (Seq.ofList r)

def Seqs.toList : Seqs → List Seq
  | .nil => []
  | .cons s r => s :: r.toList

def Seqs.ofList : List Seq → Seqs
  | [] => .nil
  | s :: r => .cons s (Seqs.ofList r)

def Seq.append : Seq → Seq → Seq
  | .nil, t => t
  | .cons o r, t => .cons o (r.append t)

def Seq.length : Seq → Nat
  | .nil => 0
  | .cons _ r => r.length + 1

/-- `paths[k].Append(op)` for every k. -/
def Seqs.appendEach : Seqs → Op → Seqs
  | .nil, _ => .nil
  | .cons s r, o => .cons (s.append (.cons o .nil)) (r.appendEach o)

theorem Seq.toList_ofList (l : List Op) : (Seq.ofList l).toList = l := by
  induction l with
  | nil => rfl
  | cons a l ih => simp [Seq.ofList, Seq.toList, ih]

theorem Seq.ofList_toList : ∀ (s : Seq), Seq.ofList s.toList = s
  | .nil => rfl
  | .cons o r => by simp [Seq.ofList, Seq.toList, Seq.ofList_toList r]

theorem Seq.toList_append : ∀ (s t : Seq), (s.append t).toList = s.toList ++ t.toList
  | .nil, _ => rfl
  | .cons o r, t => by simp [Seq.append, Seq.toList, Seq.toList_append r t]

/-- `fieldOf`: the path of a `dag.This`, else nil.  Go's `field.Path.Equal` does not
    distinguish a nil path from an empty one, and the path of the root `this` is nil (the
    analyzer never builds an empty non-nil path; the JSON copy of an op turns either into
    nil), so nil and `[]` are identified: `fieldOf` of a non-`This` expression is `[]`, and
    the `key == nil` test of `sortKeyOfExpr` is `path = []`. -/
def fieldOf : Expr → Path
  | .this p => p
  | _ => []

end Zed.Opt
