import Zed.Model.ZngUvarint
import Zed.Generated.C11
/-!
  VNG object header (`vng/header.go Header.Deserialize`) and the buffer requests of the vector
  readers (`vng/primitive.go PrimitiveBuilder.ReadBytes`, `DictBuilder.ReadBytes`,
  `vng/segment.go Segment.Read`).  The metadata section in between is a ZNG stream read by
  `zngio.NewReader` (so `alloc_bounded` covers it) and unmarshalled into Go structs by `zson`
  (not modelled: a parameter).
-/
namespace Zed.Zng.Vng
open Zed.Zng Zed.Generated.C11

structure Header where
  version : Nat
  metaSize : Nat
  dataSize : Nat
  deriving DecidableEq, Repr

/-- `binary.LittleEndian.UintN` -/
def le : Bytes → Nat
  | [] => 0
  | b :: r => b.toNat + 256 * le r

/-- `Header.Deserialize` -/
def deserialize (bs : Bytes) : Option Header :=
  if bs.length ≠ vngHeaderSize then none
  else if bs.take 4 ≠ [86, 78, 71, 0] then none      -- 'V' 'N' 'G' 0
  else
    let h : Header := ⟨le ((bs.drop 4).take 4), le ((bs.drop 8).take 8), le ((bs.drop 16).take 8)⟩
    if h.version ≠ vngVersion then none
    else if h.metaSize > vngMaxMetaSize then none
    else if h.dataSize > vngMaxDataSize then none
    else some h

/-- a segment descriptor as it comes out of the (untrusted) metadata section -/
structure Segment where
  offset : Nat
  length : Nat
  memLength : Nat
  lz4 : Bool

/-- buffers requested to read one primitive or dictionary-selector column: `make([]byte,
    MemLength)` with no guard (the regenerated guard lists are empty), and for an LZ4 segment
    `slices.Grow(zbuf, Length)` -/
def readAllocs (s : Segment) : List Nat := s.memLength :: (if s.lz4 then [s.length] else [])

end Zed.Zng.Vng
