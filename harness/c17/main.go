package main

// C17 — a crash at any storage operation leaves the lake consistent, atomic and usable.
//
// Sub-checks:
//   crash   for generated sequential histories h and every k: run h on a real lake handle over
//           the in-memory engine, fail-stop the handle at the k-th storage operation of the last
//           operation of h (every Get/Put/PutIfNotExists/Delete/DeleteByPrefix/Exists, data
//           objects included), reopen with a cold handle and check
//             readable  every pool and branch can be read,
//             atomic    the last operation shows all or none of its effect,
//             durable   every earlier acknowledged operation is intact
//                       (atomic+durable = the all-or-nothing linearizability oracle of hlib/storelin.go),
//             live      a fixed follow-up workload (load + delete on every branch of every pool,
//                       create/rename/remove of a new pool, create/remove of a new branch) succeeds,
//           and feed history + crash point + follow-up to the Lean model (trace, results, final
//           state must agree).
//   init    crash lake.Create at every storage operation; the lake must then open or be
//           creatable again.
// The confirmed defect "HEAD one behind the journal end" (DESIGN §11 item 7) is reported under
// the key C17:live:head-behind-journal-end only when the failing follow-up commit's journal
// really has an entry at HEAD+1; any other failure has another key.

import (
	"os"
	"time"
	"context"
	"encoding/json"
	"fmt"
	"strconv"
	"strings"
	"sync"
	. "verifharness/hlib"

	"github.com/brimdata/super/lake"
	"go.uber.org/zap"
)

func main() { Main("C17", runC17) }

type sink struct {
	mu sync.Mutex
	c  *Ctx
}

func (k *sink) Fail(kind, key, what string, replay any) {
	k.mu.Lock()
	defer k.mu.Unlock()
	k.c.Fail(kind, key, what, replay)
}
func (k *sink) Stat(n string)   { k.mu.Lock(); k.c.Stat(n); k.mu.Unlock() }
func (k *sink) Eval(key string) { k.mu.Lock(); k.c.Eval(key); k.mu.Unlock() }
func (k *sink) Sample(x any)    { k.mu.Lock(); k.c.Sample(x); k.mu.Unlock() }
func (k *sink) Compare(r *StoreRun, fill bool) (string, string) {
	k.mu.Lock()
	defer k.mu.Unlock()
	k.c.Res.ModelCases++
	if fill {
		return r.CompareWithModelMode(k.c.Model(), "C17", "runfill")
	}
	return r.CompareWithModel(k.c.Model(), "C17")
}

const c17Workers = 4

type c17Case struct {
	Hist    []StoreOp `json:"hist"`
	K       int       `json:"k"`                  // crash at the k-th storage operation of the last operation
	Fill    bool      `json:"fill,omitempty"`     // create-then-fill puts: creates and write chunks are operations of their own
	PartNum int       `json:"part_num,omitempty"` // when the crashing operation is a write chunk: this fraction of it is still written
	PartDen int       `json:"part_den,omitempty"`
	K2      int       `json:"k2,omitempty"` // double crash: the follow-up workload crashes at its K2-th storage operation
}

// journalBehind reports the journals (relative directory) whose HEAD is behind the highest
// existing entry.
func journalBehind(e *StoreEngine) []string {
	heads := map[string]int{}
	maxEnt := map[string]int{}
	for _, p := range e.Paths() {
		i := strings.LastIndexByte(p, '/')
		if i < 0 {
			continue
		}
		dir, f := p[:i], p[i+1:]
		if dir != "pools" && !strings.HasSuffix(dir, "/branches") {
			continue
		}
		if f == "HEAD" {
			b, _ := e.File(p)
			n, _ := strconv.Atoi(string(b))
			heads[dir] = n
		} else if strings.HasSuffix(f, ".zng") && f != "snap.zng" {
			if n, err := strconv.Atoi(strings.TrimSuffix(f, ".zng")); err == nil && n > maxEnt[dir] {
				maxEnt[dir] = n
			}
		}
	}
	var out []string
	for d, m := range maxEnt {
		if heads[d] < m {
			out = append(out, d)
		}
	}
	return out
}

// followUp builds the fixed follow-up workload from the recovered visible state.  Labels and
// names are taken from a range no history uses.
func followUp(obs []StorePoolState, poolLbl map[string]int, stage int) []StoreOp {
	var ops []StoreOp
	obj, lbl := 900+40*stage, 900+40*stage
	for _, p := range obs {
		pl, ok := poolLbl[p.ID]
		if !ok || !p.Readable {
			continue
		}
		for _, b := range p.Branches {
			ops = append(ops, StoreOp{Kind: "load", Pool: pl, Branch: b.Key, Obj: obj, Lbl: lbl})
			ops = append(ops, StoreOp{Kind: "delete", Pool: pl, Branch: b.Key, Objs: []int{obj}, Lbl: lbl + 1})
			obj++
			lbl += 2
		}
		ops = append(ops, StoreOp{Kind: "createBranch", Pool: pl, Name: 77 + stage, Parent: 0})
		ops = append(ops, StoreOp{Kind: "removeBranch", Pool: pl, Name: 77 + stage})
	}
	ops = append(ops, StoreOp{Kind: "createPool", Lbl: 990 + stage, Name: 90 + 2*stage})
	ops = append(ops, StoreOp{Kind: "load", Pool: 990 + stage, Branch: 0, Obj: obj, Lbl: lbl})
	ops = append(ops, StoreOp{Kind: "renamePool", Pool: 990 + stage, Name: 91 + 2*stage})
	ops = append(ops, StoreOp{Kind: "removePool", Pool: 990 + stage})
	return ops
}

// opCount runs the history without a crash and returns the number of storage operations of
// its last operation.
func opCount(hist []StoreOp) (int, error) {
	n, _, err := opList(hist, false)
	return n, err
}

// opList also returns the storage operations of the last operation in order (op, path).
func opList(hist []StoreOp, fill bool) (int, []StoreEvent, error) {
	e := NewStoreEngine()
	e.Atomic = !fill
	r, err := NewStoreRun(e, [][]StoreOp{hist[:len(hist)-1]})
	if err != nil {
		return 0, nil, err
	}
	r.RunSequential(0)
	n0 := e.TraceLen()
	r.Append(0, hist[len(hist)-1])
	e.CrashAt(0, 1<<30, 0, 0)
	r.RunSequential(0)
	var evs []StoreEvent
	for _, ev := range e.TraceFrom(n0) {
		if ev.Client == 0 {
			evs = append(evs, ev)
		}
	}
	return e.Ops(0), evs, nil
}

type c17Ref struct{ before, after []string }

var (
	c17RefMu sync.Mutex
	c17Refs  = map[string]*c17Ref{}
)

// c17Reference runs the history without a crash and returns the user-level content of the lake
// (values per pool@branch, vector counts) before and after its last operation.  Content does not
// depend on object ids, so it can be compared with the recovered state of a crashed run.
func c17Reference(hist []StoreOp) (*c17Ref, error) {
	b, _ := json.Marshal(hist)
	c17RefMu.Lock()
	ref := c17Refs[string(b)]
	c17RefMu.Unlock()
	if ref != nil {
		return ref, nil
	}
	e := NewStoreEngine()
	r, err := NewStoreRun(e, [][]StoreOp{hist[:len(hist)-1]})
	if err != nil {
		return nil, err
	}
	r.RunSequential(0)
	before, err := r.ContentView()
	if err != nil {
		return nil, err
	}
	r.Append(0, hist[len(hist)-1])
	r.RunSequential(0)
	after, err := r.ContentView()
	if err != nil {
		return nil, err
	}
	ref = &c17Ref{before, after}
	c17RefMu.Lock()
	c17Refs[string(b)] = ref
	c17RefMu.Unlock()
	return ref, nil
}

func sameLines(a, b []string) bool {
	if len(a) != len(b) {
		return false
	}
	for i := range a {
		if a[i] != b[i] {
			return false
		}
	}
	return true
}

// headFiles inspects the HEAD file of every journal: empty (created / truncated and never
// filled), or holding a number more than one behind the highest entry (a prefix of its digits).
func headFiles(e *StoreEngine) (empty []string, farBehind []string) {
	maxEnt := map[string]int{}
	heads := map[string]string{}
	for _, p := range e.Paths() {
		i := strings.LastIndexByte(p, '/')
		if i < 0 {
			continue
		}
		dir, f := p[:i], p[i+1:]
		if dir != "pools" && !strings.HasSuffix(dir, "/branches") {
			continue
		}
		if f == "HEAD" {
			b, _ := e.File(p)
			heads[dir] = string(b)
		} else if strings.HasSuffix(f, ".zng") && f != "snap.zng" {
			if n, err := strconv.Atoi(strings.TrimSuffix(f, ".zng")); err == nil && n > maxEnt[dir] {
				maxEnt[dir] = n
			}
		}
	}
	for d, h := range heads {
		if h == "" {
			empty = append(empty, d)
			continue
		}
		if n, err := strconv.Atoi(h); err == nil && n+1 < maxEnt[d] {
			farBehind = append(farBehind, fmt.Sprintf("%s (HEAD=%d, last entry %d)", d, n, maxEnt[d]))
		}
	}
	return
}

func c17Run(c *sink, cs *c17Case) {
	hist := cs.Hist
	e := NewStoreEngine()
	e.Atomic = !cs.Fill
	r, err := NewStoreRun(e, [][]StoreOp{hist[:len(hist)-1]})
	if err != nil {
		c.Fail("harness", "C17:harness:setup", err.Error(), cs)
		return
	}
	r.RunSequential(0)
	last := hist[len(hist)-1]
	r.Append(0, last)
	e.CrashAt(0, cs.K, cs.PartNum, cs.PartDen)
	r.RunSequential(0)
	if len(r.Panicked) > 0 {
		c.Fail("panic", "C17:panic:"+last.Kind, r.Panicked[0], cs)
		return
	}
	if e.Crashed(0) {
		c.Stat("crashed-in:" + last.Kind)
	} else {
		c.Stat("no-crash(k>ops)")
	}
	desc := fmt.Sprintf("a crash at storage operation %d of %s", cs.K, last)
	if cs.Fill {
		desc += " (create-then-fill puts"
		if cs.PartDen > 0 {
			desc += fmt.Sprintf(", %d/%d of the chunk written", cs.PartNum, cs.PartDen)
		}
		desc += ")"
	}
	compareModel := true
	for stage := 0; ; stage++ {
		emptyHeads, farBehind := headFiles(e)
		if len(emptyHeads)+len(farBehind) > 0 {
			compareModel = false // readID's give-up point is timing dependent; the model retries forever
		}
		// ---- recovery: cold handle
		obs, err := r.Observe()
		if err != nil {
			if len(emptyHeads) > 0 {
				c.Fail("oracle", "C17:fill:head-empty", fmt.Sprintf("%s left %v/HEAD created and empty; the lake cannot be opened/listed any more: %v", desc, emptyHeads, err), cs)
				return
			}
			c.Fail("oracle", "C17:readable:lake", fmt.Sprintf("after %s the lake cannot be opened/listed: %v", desc, err), cs)
			return
		}
		for _, p := range obs {
			if !p.Readable {
				if len(emptyHeads) > 0 {
					c.Fail("oracle", "C17:fill:head-empty", fmt.Sprintf("%s left %v/HEAD created and empty; pool %s is listed but unreadable: %s", desc, emptyHeads, p.Name, p.Err), cs)
					return
				}
				c.Fail("oracle", "C17:readable:pool", fmt.Sprintf("after %s pool %s is listed but unreadable: %s", desc, p.Name, p.Err), cs)
				return
			}
			for _, b := range p.Branches {
				if !b.Readable {
					c.Fail("oracle", "C17:readable:branch", fmt.Sprintf("after %s branch %s/%s is unreadable: %s", desc, p.Name, b.Name, b.Err), cs)
					return
				}
			}
		}
		pl, cm := r.StoreIDStrings()
		specable := StoreSpecable(r.Ops)
		why := ""
		if specable {
			why, _ = StoreLinearizable(r.History, obs, pl, cm)
		} else if stage == 0 {
			// merge / delete-where / vector add: all-or-nothing by content against crash-free runs
			ref, err := c17Reference(hist)
			if err != nil {
				c.Fail("harness", "C17:harness:reference", err.Error(), cs)
				return
			}
			got, err := r.ContentView()
			if err != nil {
				c.Fail("oracle", "C17:readable:content", fmt.Sprintf("after %s the lake cannot be queried: %v", desc, err), cs)
				return
			}
			if !sameLines(got, ref.before) && !sameLines(got, ref.after) {
				why = fmt.Sprintf("content %v is neither the content before %v nor after %v the interrupted operation", got, ref.before, ref.after)
			}
			c.Stat("content-oracle:" + last.Kind)
		}
		if os.Getenv("C17_DEBUG") != "" {
			fmt.Fprintf(os.Stderr, "stage %d: empty=%v far=%v why=%q obs=%+v\n", stage, emptyHeads, farBehind, why, obs)
		}
		if why != "" {
			if len(farBehind) > 0 {
				c.Fail("oracle", "C17:fill:head-prefix", fmt.Sprintf("%s left a prefix of the digits in HEAD of %v; acknowledged operations are no longer visible: %s", desc, farBehind, why), cs)
				return
			}
			c.Fail("oracle", "C17:atomic:"+last.Kind, fmt.Sprintf("after %s the recovered state is neither the state before nor after the interrupted operation (or an earlier acknowledged operation is damaged): %s", desc, why), cs)
			return
		}
		// ---- follow-up workload on a cold handle
		poolLbl := map[string]int{}
		for l, id := range pl {
			poolLbl[id] = l
		}
		// a pool created by a crashed operation has no label the harness knows; register it
		for _, p := range obs {
			if _, ok := poolLbl[p.ID]; ok {
				continue
			}
			for _, h := range r.History {
				if h.Res == "" && h.Op.Kind == "createPool" && p.Key == h.Op.Name {
					poolLbl[p.ID] = h.Op.Lbl
					if id, err := ParseKSUID(p.ID); err == nil {
						r.Pools[h.Op.Lbl] = id
					}
				}
			}
		}
		behind := journalBehind(e)
		fu := followUp(obs, poolLbl, stage)
		rc, err := r.AddClient(fu)
		if err != nil {
			c.Fail("oracle", "C17:readable:lake", "cannot reopen the lake: "+err.Error(), cs)
			return
		}
		if stage == 0 && cs.K2 > 0 {
			e.CrashAt(rc, cs.K2, 0, 0)
		}
		r.RunSequential(rc)
		if stage == 0 && cs.K2 > 0 && e.Crashed(rc) {
			c.Stat("double-crash")
			desc += fmt.Sprintf(", recovery, and a second crash at storage operation %d of the follow-up workload", cs.K2)
			continue
		}
		live := true
		for _, h := range r.History {
			if h.Client != rc || h.Res == "ok" {
				continue
			}
			live = false
			if h.Res == "panic" {
				c.Fail("panic", "C17:panic:followup:"+h.Op.Kind, h.Err, cs)
				break
			}
			if h.Res == "unresolved" {
				continue // follow-up on a pool whose creation failed before
			}
			if h.Res == "retries" && len(behind) > 0 {
				c.Fail("oracle", "C17:live:head-behind-journal-end",
					fmt.Sprintf("%s left HEAD of %v one behind the journal end; follow-up %s then fails: %s", desc, behind, h.Op, h.Err), cs)
				c.Stat("wedged-after:" + last.Kind)
			} else {
				c.Fail("oracle", "C17:live:"+h.Op.Kind+":"+strings.SplitN(h.Res, ":", 2)[0],
					fmt.Sprintf("after %s follow-up %s fails: %s", desc, h.Op, h.Err), cs)
			}
			break
		}
		if live {
			c.Stat("live-after:" + last.Kind)
			if len(behind) > 0 {
				c.Stat("head-behind-but-live")
			}
		}
		// the lake must still be readable and linearizable after the follow-up
		obs2, err := r.Observe()
		if err != nil {
			c.Fail("oracle", "C17:readable:lake", "lake unreadable after the follow-up workload: "+err.Error(), cs)
			return
		}
		pl, cm = r.StoreIDStrings()
		why2 := ""
		if StoreSpecable(r.Ops) {
			why2, _ = StoreLinearizable(r.History, obs2, pl, cm)
		} else {
			why2 = StoreChainOracle(r.History, obs2, pl)
		}
		if why := why2; why != "" {
			if os.Getenv("C17_DEBUG") != "" {
				for _, h := range r.History {
					fmt.Fprintf(os.Stderr, "%+v\n", *h)
				}
				fmt.Fprintf(os.Stderr, "%+v\n", obs2)
			}
			if len(farBehind) > 0 {
				c.Fail("oracle", "C17:fill:head-prefix", fmt.Sprintf("%s left a prefix of the digits in HEAD of %v; after the follow-up workload acknowledged operations are no longer visible: %s", desc, farBehind, why), cs)
				return
			}
			c.Fail("oracle", "C17:atomic:followup", "state after "+desc+" + follow-up is not explained by any order of the operations: "+why, cs)
			return
		}
		if d := r.CompareHandleWithCold(rc); d != "" {
			c.Fail("oracle", "C17:warm:followup", "after "+desc+" + follow-up: "+d, cs)
			return
		}
		break
	}
	for k := range r.TraceCounts() {
		c.Stat("runs-with:" + k)
	}
	// ---- the model
	if compareModel && StoreOpsModelled(r.Ops) {
		if diff, req := c.Compare(r, cs.Fill); diff != "" {
			c.Fail("correspondence", "C17:model:"+strings.SplitN(diff, "[", 2)[0], "model and code disagree: "+diff, map[string]any{"case": cs, "model_request": req})
		}
	}
}

// ---- histories ---------------------------------------------------------------------------

func c17History(c *Ctx) []StoreOp {
	r := c.Rng
	hist := []StoreOp{{Kind: "createPool", Lbl: 1, Name: 1}}
	nextObj, nextLbl := 1, 101
	var objs []int
	hasB1, hasP2 := false, false
	n := 1 + r.Intn(5)
	if r.Intn(8) == 0 {
		n += 9 // long enough for journal snapshots
	}
	gen := func(final bool) StoreOp {
		for {
			switch x := r.Intn(20); {
			case x < 8:
				br := 0
				if hasB1 && r.Intn(3) == 0 {
					br = 1
				}
				op := StoreOp{Kind: "load", Pool: 1, Branch: br, Obj: nextObj, Lbl: nextLbl}
				if br == 0 {
					objs = append(objs, nextObj)
				}
				nextObj++
				nextLbl++
				return op
			case x < 11:
				if len(objs) == 0 {
					continue
				}
				i := r.Intn(len(objs))
				o := objs[i]
				objs = append(objs[:i], objs[i+1:]...)
				nextLbl++
				return StoreOp{Kind: "delete", Pool: 1, Branch: 0, Objs: []int{o}, Lbl: nextLbl - 1}
			case x < 13:
				if hasB1 {
					continue
				}
				hasB1 = true
				par := 0
				if nextLbl > 101 && r.Intn(2) == 0 {
					par = 101
				}
				return StoreOp{Kind: "createBranch", Pool: 1, Name: 1, Parent: par}
			case x < 14:
				if !hasB1 {
					continue
				}
				hasB1 = false
				return StoreOp{Kind: "removeBranch", Pool: 1, Name: 1}
			case x < 16:
				if hasP2 {
					continue
				}
				hasP2 = true
				return StoreOp{Kind: "createPool", Lbl: 2, Name: 2}
			case x < 17:
				return StoreOp{Kind: "renamePool", Pool: 1, Name: 3 + r.Intn(3)}
			case x < 18:
				if !hasP2 {
					continue
				}
				hasP2 = false
				return StoreOp{Kind: "removePool", Pool: 2}
			default:
				if !final {
					continue
				}
				return StoreOp{Kind: "removePool", Pool: 1}
			}
		}
	}
	for i := 0; i < n; i++ {
		hist = append(hist, gen(i == n-1))
	}
	return hist
}

func runC17(c0 *Ctx) {
	c := &sink{c: c0}
	c0.Rule("history = createPool + 1–5 (sometimes 10–14) sequential operations (load, delete, branch create/remove, pool create/rename/remove) on one real lake handle over the in-memory engine; for every k ≤ number of storage operations of the last operation the handle is fail-stopped at that operation, a cold handle reopens the lake, checks readable/atomic/durable and runs the follow-up workload; distinct = (history, k); every case is also fed to the Lean model")
	if c0.Replay != nil {
		var cs c17Case
		if err := json.Unmarshal(c0.Replay, &cs); err != nil || len(cs.Hist) == 0 {
			var w struct {
				Case c17Case `json:"case"`
			}
			if json.Unmarshal(c0.Replay, &w) == nil && len(w.Case.Hist) > 0 {
				cs = w.Case
			} else {
				c.Fail("harness", "C17:harness:replay", "cannot parse replay", nil)
				return
			}
		}
		c17Run(c, &cs)
		c.Eval(fmt.Sprint(cs))
		return
	}
	for _, raw := range c0.CorpusCases() {
		var cs c17Case
		if json.Unmarshal(raw, &cs) == nil && len(cs.Hist) > 0 {
			c17Run(c, &cs)
			c.Eval(fmt.Sprint(cs))
			c.Stat("corpus")
		}
	}
	if c0.Want("crash") {
		nh := c0.N(30, 1200)
		deadline := time.Now().Add(time.Duration(c0.N(40, 700)) * time.Second)
		type job struct {
			hist []StoreOp
			k    int
		}
		var jobs []job
		// the witness of the confirmed defect first: a crash inside a plain load
		fixed := [][]StoreOp{
			{{Kind: "createPool", Lbl: 1, Name: 1}, {Kind: "load", Pool: 1, Branch: 0, Obj: 1, Lbl: 101}},
			{{Kind: "createPool", Lbl: 1, Name: 1}},
			{{Kind: "createPool", Lbl: 1, Name: 1}, {Kind: "load", Pool: 1, Branch: 0, Obj: 1, Lbl: 101}, {Kind: "removePool", Pool: 1}},
		}
		var hists [][]StoreOp
		hists = append(hists, fixed...)
		for i := 0; i < nh; i++ {
			hists = append(hists, c17History(c0))
		}
		for _, h := range hists {
			n, err := opCount(h)
			if err != nil {
				c.Fail("harness", "C17:harness:count", err.Error(), h)
				continue
			}
			c.Stat(fmt.Sprintf("last-op:%s", h[len(h)-1].Kind))
			c.Stat(fmt.Sprintf("hist-len:%d", len(h)))
			for k := 1; k <= n+1; k++ {
				jobs = append(jobs, job{h, k})
			}
		}
		c0.Sample(map[string]any{"history": hists[len(fixed)], "crash_points": "1..ops+1"})
		ParallelDo(len(jobs), c17Workers, func(i int) {
			if !time.Now().Before(deadline) {
				c.Stat("crash:skipped-deadline")
				return
			}
			cs := &c17Case{Hist: jobs[i].hist, K: jobs[i].k}
			c17Run(c, cs)
			b, _ := json.Marshal(cs)
			c.Eval(string(b))
		})
	}
	if c0.Want("ops2") {
		// the remaining mutations of the property: compact, revert, merge, delete-where, vector add
		// as the interrupted operation
		setup := []StoreOp{{Kind: "createPool", Lbl: 1, Name: 1}, {Kind: "load", Pool: 1, Branch: 0, Obj: 1, Lbl: 101}, {Kind: "load", Pool: 1, Branch: 0, Obj: 2, Lbl: 102}}
		with := func(ops ...StoreOp) []StoreOp { return append(append([]StoreOp(nil), setup...), ops...) }
		hists := [][]StoreOp{
			with(StoreOp{Kind: "compact", Pool: 1, Branch: 0, Lbl: 103, Obj: 3, Objs: []int{1, 2}}),
			with(StoreOp{Kind: "revert", Pool: 1, Branch: 0, Lbl: 103, Parent: 102}),
			with(StoreOp{Kind: "createBranch", Pool: 1, Name: 1, Parent: 101}, StoreOp{Kind: "load", Pool: 1, Branch: 1, Obj: 3, Lbl: 103},
				StoreOp{Kind: "merge", Pool: 1, Branch: 1, Name: 0, Lbl: 104}),
			with(StoreOp{Kind: "deleteWhere", Pool: 1, Branch: 0, Lbl: 103, Obj: 1}),
			with(StoreOp{Kind: "addVectors", Pool: 1, Branch: 0, Lbl: 103, Objs: []int{1}}),
		}
		var jobs []*c17Case
		for _, h := range hists {
			n, err := opCount(h)
			if err != nil {
				c.Fail("harness", "C17:harness:count", err.Error(), h)
				continue
			}
			c.Stat("last-op:" + h[len(h)-1].Kind)
			for k := 1; k <= n+1; k++ {
				if !c0.Thorough() && n > 24 && k%2 == 0 && k < n-8 {
					continue // quick: every other early crash point of the long operations
				}
				jobs = append(jobs, &c17Case{Hist: h, K: k})
			}
		}
		deadline := time.Now().Add(time.Duration(c0.N(30, 400)) * time.Second)
		ParallelDo(len(jobs), c17Workers, func(i int) {
			if !time.Now().Before(deadline) {
				c.Stat("ops2:skipped-deadline")
				return
			}
			c17Run(c, jobs[i])
			b, _ := json.Marshal(jobs[i])
			c.Eval(string(b))
			c.Stat("ops2:runs")
		})
	}
	if c0.Want("fillcrash") {
		// create-then-fill puts (local file engine): every create and every write chunk is a crash
		// point; a chunk can also be cut in the middle (a prefix is left behind)
		A := []StoreOp{{Kind: "createPool", Lbl: 1, Name: 1}, {Kind: "load", Pool: 1, Branch: 0, Obj: 1, Lbl: 101}}
		B := append(append([]StoreOp(nil), A...), StoreOp{Kind: "delete", Pool: 1, Branch: 0, Objs: []int{1}, Lbl: 102})
		C := []StoreOp{{Kind: "createPool", Lbl: 1, Name: 1}, {Kind: "createPool", Lbl: 2, Name: 2}}
		D := append(append([]StoreOp(nil), A...), StoreOp{Kind: "removePool", Pool: 1})
		long := []StoreOp{{Kind: "createPool", Lbl: 1, Name: 1}}
		for i := 0; i < 11; i++ {
			long = append(long, StoreOp{Kind: "load", Pool: 1, Branch: 0, Obj: 1 + i, Lbl: 101 + i})
		}
		hists := [][]StoreOp{A, C}
		if c0.Thorough() {
			hists = [][]StoreOp{A, B, C, D}
		}
		slowBudget := c0.N(1, 4) // a HEAD left empty makes every reader retry for seconds (readID backoff)
		var jobs []*c17Case
		for _, h := range hists {
			n, evs, err := opList(h, true)
			if err != nil {
				c.Fail("harness", "C17:harness:count", err.Error(), h)
				continue
			}
			for k := 1; k <= n; k++ {
				ev := evs[k-1]
				isHead := strings.HasSuffix(ev.Path, "/HEAD")
				if ev.Op == "write" && isHead {
					if slowBudget > 0 {
						slowBudget--
						jobs = append(jobs, &c17Case{Hist: h, K: k, Fill: true})
					} else {
						c.Stat("fillcrash:head-empty-case-skipped(slow)")
					}
					continue
				}
				jobs = append(jobs, &c17Case{Hist: h, K: k, Fill: true})
				if ev.Op == "write" && len(ev.Data) >= 2 {
					jobs = append(jobs, &c17Case{Hist: h, K: k, Fill: true, PartNum: 1, PartDen: 2})
				}
			}
		}
		// a two-digit HEAD cut after its first digit
		if n, evs, err := opList(long, true); err == nil {
			for k := n; k >= 1; k-- {
				if evs[k-1].Op == "write" && strings.HasSuffix(evs[k-1].Path, "/branches/HEAD") {
					jobs = append(jobs, &c17Case{Hist: long, K: k, Fill: true, PartNum: 1, PartDen: 2})
					break
				}
			}
		}
		ParallelDo(len(jobs), c17Workers, func(i int) {
			c17Run(c, jobs[i])
			b, _ := json.Marshal(jobs[i])
			c.Eval(string(b))
			c.Stat("fillcrash:runs")
		})
	}
	if c0.Want("double") {
		// double crashes: the recovery's follow-up workload crashes too
		A := []StoreOp{{Kind: "createPool", Lbl: 1, Name: 1}, {Kind: "load", Pool: 1, Branch: 0, Obj: 1, Lbl: 101}}
		B := append(append([]StoreOp(nil), A...), StoreOp{Kind: "delete", Pool: 1, Branch: 0, Objs: []int{1}, Lbl: 102})
		hists := [][]StoreOp{A}
		if c0.Thorough() {
			hists = [][]StoreOp{A, B}
		}
		var jobs []*c17Case
		for _, h := range hists {
			n, err := opCount(h)
			if err != nil {
				continue
			}
			for k := 1; k <= n; k++ {
				for _, k2 := range []int{2, 5, 9, 14, 20, 27, 35, 44, 54, 65} {
					if !c0.Thorough() && (k+k2)%3 != 0 {
						continue
					}
					jobs = append(jobs, &c17Case{Hist: h, K: k, K2: k2})
				}
			}
		}
		deadline := time.Now().Add(time.Duration(c0.N(20, 300)) * time.Second)
		ParallelDo(len(jobs), c17Workers, func(i int) {
			if !time.Now().Before(deadline) {
				c.Stat("double:skipped-deadline")
				return
			}
			c17Run(c, jobs[i])
			b, _ := json.Marshal(jobs[i])
			c.Eval(string(b))
			c.Stat("double:runs")
		})
	}
	if c0.Want("init") {
		// crash lake.Create at every storage operation
		for k := 1; k <= 8; k++ {
			e := NewStoreEngine()
			e.CrashAt(50, k, 0, 0)
			ctx := context.Background()
			_, err := lake.Create(ctx, e.Client(50), zap.NewNop(), e.Root)
			c.Eval(fmt.Sprintf("init:%d", k))
			if err == nil {
				c.Stat("init:no-crash")
			}
			// recovery: open, else create again, then the lake must be usable
			err2, _ := Protect(func() error {
				if _, err := lake.Open(ctx, e.Client(51), zap.NewNop(), e.Root); err == nil {
					return nil
				}
				_, err := lake.Create(ctx, e.Client(51), zap.NewNop(), e.Root)
				return err
			})
			if err2 != nil {
				c.Fail("oracle", "C17:init:stuck", fmt.Sprintf("after a crash at storage operation %d of lake.Create the lake neither opens nor can be created: %v", k, err2), map[string]any{"init_k": k})
				continue
			}
			r, err := NewStoreRun(e, [][]StoreOp{{{Kind: "createPool", Lbl: 1, Name: 1}, {Kind: "load", Pool: 1, Branch: 0, Obj: 1, Lbl: 101}}})
			if err == nil {
				r.RunSequential(0)
				for _, h := range r.History {
					if h.Res != "ok" {
						err = fmt.Errorf("%s: %s", h.Op, h.Err)
					}
				}
			}
			if err != nil {
				c.Fail("oracle", "C17:init:unusable", fmt.Sprintf("after a crash at storage operation %d of lake.Create and re-creation the lake is unusable: %v", k, err), map[string]any{"init_k": k})
			}
		}
	}
}

func init() { debugHook = func(r *StoreRun, obs []StorePoolState) {} }

var debugHook func(r *StoreRun, obs []StorePoolState)
