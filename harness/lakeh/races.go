package lakeh

import (
	"context"
	"fmt"
	"strings"
	"time"

	"github.com/brimdata/super/api"
	"github.com/brimdata/super/lake"
	lakeapi "github.com/brimdata/super/lake/api"
	"github.com/brimdata/super/order"
	"github.com/segmentio/ksuid"
	"go.uber.org/zap"

	"verifharness/hlib"
)

// Merges racing with other commits on the parent (C15: "data committed to either branch after
// the merge started is kept"; the merge object is rebuilt against the new tip inside the commit
// retry loop).  Two handles over one hlib.StoreEngine in cooperative mode; writer A runs k
// scheduled storage calls, then writer B's whole operation, then A finishes — for every k.

type raceOp func(l *hlib.TLake, pool ksuid.KSUID) error

type raceScenario struct {
	name string
	// setup prepares the pool through handle 0 and returns the two racing operations and the
	// expected contents of main given which of them were acknowledged
	setup func(l0 *hlib.TLake, pool ksuid.KSUID) (a, b raceOp, want func(ackA, ackB bool) []string, err error)
}

type raceCase struct {
	Scenario string `json:"scenario"`
	Pre      int    `json:"a_steps_before_b"`
	First    string `json:"first"`
}

func mergeOp(child string) raceOp {
	return func(l *hlib.TLake, pool ksuid.KSUID) error {
		return protect(func() error {
			ctx, cancel := context.WithTimeout(context.Background(), 100*time.Second)
			defer cancel()
			_, err := l.LK.MergeBranch(ctx, pool, child, "main", api.CommitMessage{Author: "verif", Body: "merge"})
			return err
		})
	}
}

func loadOp(text string) raceOp {
	return func(l *hlib.TLake, pool ksuid.KSUID) error {
		_, err := loadTextTo(l, pool, "main", text)
		return err
	}
}

func deleteOp(ids []ksuid.KSUID) raceOp {
	return func(l *hlib.TLake, pool ksuid.KSUID) error {
		return protect(func() error {
			ctx, cancel := context.WithTimeout(context.Background(), 100*time.Second)
			defer cancel()
			_, err := l.LK.Delete(ctx, pool, "main", ids, api.CommitMessage{Author: "verif", Body: "delete"})
			return err
		})
	}
}

func branchAt(l *hlib.TLake, pool ksuid.KSUID, name, at string) error {
	ctx := context.Background()
	tip, err := l.LK.CommitObject(ctx, pool, at)
	if err != nil {
		return err
	}
	return l.LK.CreateBranch(ctx, pool, name, tip)
}

func raceScenarios() []raceScenario {
	const o1, y, z, w = `{k:1,w:"o1"}`, `{k:2,w:"y"}`, `{k:3,w:"z"}`, `{k:4,w:"w"}`
	childWithY := func(l0 *hlib.TLake, pool ksuid.KSUID) error {
		if _, err := loadTextTo(l0, pool, "main", o1); err != nil {
			return err
		}
		if err := branchAt(l0, pool, "b1", "main"); err != nil {
			return err
		}
		_, err := loadTextTo(l0, pool, "b1", y)
		return err
	}
	return []raceScenario{
		{"merge-vs-load", func(l0 *hlib.TLake, pool ksuid.KSUID) (raceOp, raceOp, func(bool, bool) []string, error) {
			err := childWithY(l0, pool)
			return mergeOp("b1"), loadOp(z), func(a, b bool) []string {
				out := []string{o1}
				if a {
					out = append(out, y)
				}
				if b {
					out = append(out, z)
				}
				return out
			}, err
		}},
		{"merge-vs-same-merge", func(l0 *hlib.TLake, pool ksuid.KSUID) (raceOp, raceOp, func(bool, bool) []string, error) {
			err := childWithY(l0, pool)
			return mergeOp("b1"), mergeOp("b1"), func(a, b bool) []string {
				out := []string{o1}
				if a || b {
					out = append(out, y)
				}
				return out
			}, err
		}},
		{"merge-vs-nested-merge", func(l0 *hlib.TLake, pool ksuid.KSUID) (raceOp, raceOp, func(bool, bool) []string, error) {
			err := childWithY(l0, pool)
			if err == nil {
				err = branchAt(l0, pool, "b2", "b1") // b2 shares the object holding y
			}
			if err == nil {
				_, err = loadTextTo(l0, pool, "b2", w)
			}
			return mergeOp("b1"), mergeOp("b2"), func(a, b bool) []string {
				out := []string{o1}
				if a || b {
					out = append(out, y)
				}
				if b {
					out = append(out, w)
				}
				return out
			}, err
		}},
		{"merge-vs-delete", func(l0 *hlib.TLake, pool ksuid.KSUID) (raceOp, raceOp, func(bool, bool) []string, error) {
			err := childWithY(l0, pool)
			var ids []ksuid.KSUID
			if err == nil {
				var ss []string
				ss, err = l0.ObjectIDs("p", "main")
				for _, s := range ss {
					if k, e := ksuid.Parse(strings.Trim(s, "\"")); e == nil {
						ids = append(ids, k)
					}
				}
			}
			return mergeOp("b1"), deleteOp(ids), func(a, b bool) []string {
				var out []string
				if !b {
					out = append(out, o1)
				}
				if a {
					out = append(out, y)
				}
				return out
			}, err
		}},
	}
}

func loadTextTo(l *hlib.TLake, pool ksuid.KSUID, branch, text string) (ksuid.KSUID, error) {
	var id ksuid.KSUID
	err := protect(func() error {
		var e error
		id, e = l.LoadZSON(pool, branch, text)
		return e
	})
	return id, err
}

func runRace(sc raceScenario, rc raceCase) (key, what string, aDone bool, herr error) {
	ctx := context.Background()
	e := hlib.NewStoreEngine()
	e.NoTrace = true
	root0, err := lake.Create(ctx, e.Client(0), zap.NewNop(), e.Root)
	if err != nil {
		return "", "", false, err
	}
	l0 := &hlib.TLake{LK: lakeapi.FromRoot(root0), Root: root0}
	sk, _ := order.ParseSortKeys("k:asc")
	pool, err := l0.LK.CreatePool(ctx, "p", sk, 0, 0)
	if err != nil {
		return "", "", false, err
	}
	opA, opB, want, err := sc.setup(l0, pool)
	if err != nil {
		return "", "", false, fmt.Errorf("setup: %w", err)
	}
	h1, err := storeHandle(e, 1)
	if err != nil {
		return "", "", false, err
	}
	h2, err := storeHandle(e, 2)
	if err != nil {
		return "", "", false, err
	}
	for _, h := range []*hlib.TLake{h1, h2} {
		if _, err := h.Query("from p"); err != nil {
			return "", "", false, fmt.Errorf("warm: %w", err)
		}
	}
	// which handle runs which operation
	first, second := opA, opB
	if rc.First == "B" {
		first, second = opB, opA
	}
	var errFirst, errSecond error
	e.Coop = true
	if err := e.StartOp(1, func() { errFirst = first(h1, pool) }); err != nil {
		return "", "", false, err
	}
	for i := 0; i < rc.Pre && e.Running(1); i++ {
		if err := e.Step(1); err != nil {
			return "", "", false, err
		}
	}
	aDone = !e.Running(1)
	if err := e.StartOp(2, func() { errSecond = second(h2, pool) }); err != nil {
		return "", "", aDone, err
	}
	for n := 0; e.Running(2); n++ {
		if n > 3000 {
			return "", "", aDone, fmt.Errorf("second operation does not terminate")
		}
		if err := e.Step(2); err != nil {
			return "", "", aDone, err
		}
	}
	for n := 0; e.Running(1); n++ {
		if n > 3000 {
			return "", "", aDone, fmt.Errorf("first operation does not terminate")
		}
		if err := e.Step(1); err != nil {
			return "", "", aDone, err
		}
	}
	e.Coop = false
	if e.Problem != "" {
		return "", "", aDone, fmt.Errorf("scheduler protocol: %s", e.Problem)
	}
	errA, errB := errFirst, errSecond
	if rc.First == "B" {
		errA, errB = errSecond, errFirst
	}
	expect := want(errA == nil, errB == nil)
	h3, err := storeHandle(e, 3)
	if err != nil {
		return "", "", aDone, err
	}
	for name, h := range map[string]*hlib.TLake{"first handle": h1, "second handle": h2, "fresh handle": h3} {
		got, err := h.Query("from p")
		if err != nil {
			return "C15:race:" + sc.name + ":unreadable", fmt.Sprintf("%s: after the two operations (errors %v / %v) main cannot be read through the %s: %v", sc.name, errA, errB, name, err), aDone, nil
		}
		if !hlib.SameMultiset(got, expect) {
			return "C15:race:" + sc.name + ":contents", fmt.Sprintf("%s: after the two operations (errors %v / %v) main holds %v through the %s, expected %v", sc.name, errA, errB, got, name, expect), aDone, nil
		}
		for _, br := range []string{"b1", "b2"} {
			if _, err := h.Query("from p@" + br); err != nil && !strings.Contains(err.Error(), "not found") && !strings.Contains(err.Error(), "no such") {
				return "C15:race:" + sc.name + ":child-unreadable", fmt.Sprintf("%s: branch %s cannot be read through the %s: %v", sc.name, br, name, err), aDone, nil
			}
		}
	}
	return "", "", aDone, nil
}

// RunRaces enumerates, for every scenario and both role assignments, the schedules "the first
// operation runs k scheduled storage calls, the second runs completely, the first finishes".
func RunRaces(c *hlib.Ctx, maxPre int) {
	for _, sc := range raceScenarios() {
		for _, first := range []string{"A", "B"} {
			for pre := 0; pre <= maxPre; pre++ {
				rc := raceCase{Scenario: sc.name, Pre: pre, First: first}
				key, what, aDone, err := runRace(sc, rc)
				c.Stat("race:" + sc.name)
				c.Eval(fmt.Sprintf("race %+v", rc))
				if err != nil {
					c.Fail("correspondence", "C15:race:harness", fmt.Sprintf("%+v: %v", rc, err), rc)
					break
				}
				if key != "" {
					c.Fail("oracle", key, fmt.Sprintf("%s (schedule: operation %s runs %d scheduled storage calls, then the other operation completely, then it finishes)", what, first, pre), rc)
				}
				if aDone {
					break
				}
			}
		}
	}
}
