import Zed.Proofs.FuseBuild
/-!
  C20 helper lemmas: the `Fuser` (buffer / spill, schema) and the shaper loop.
-/
namespace Zed.Fuse

theorem shapeAll_length (T : Ty) (c : Cache) (xs : List Input) : (shapeAll T c xs).length = xs.length := by
  induction xs generalizing c with
  | nil => simp [shapeAll]
  | cons x xs ih => simp [shapeAll, ih]

/-- the shaper cache after a prefix of the input -/
def cacheAfter (T : Ty) : Cache → List Input → Cache
  | c, [] => c
  | c, x :: xs => cacheAfter T (evalShaper T c x.ty x.val).2 xs

theorem shapeAll_getElem (T : Ty) (c : Cache) (xs : List Input) (i : Nat) (h : i < xs.length) :
    (shapeAll T c xs)[i]'(by rw [shapeAll_length]; exact h) =
      (evalShaper T (cacheAfter T c (xs.take i)) xs[i].ty xs[i].val).1 := by
  induction xs generalizing c i with
  | nil => simp at h
  | cons x xs ih =>
    cases i with
    | zero => simp [shapeAll, cacheAfter]
    | succ i =>
      simp only [shapeAll, List.getElem_cons_succ, List.take_succ_cons, cacheAfter]
      exact ih _ i (by simpa using h)

theorem guardsFrom_length (T : Ty) (c : Cache) (xs : List Input) : (guardsFrom T c xs).length = xs.length := by
  induction xs generalizing c with
  | nil => simp [guardsFrom]
  | cons x xs ih => simp [guardsFrom, ih]

theorem guardsFrom_getElem (T : Ty) (c : Cache) (xs : List Input) (i : Nat) (h : i < xs.length) :
    (guardsFrom T c xs)[i]'(by rw [guardsFrom_length]; exact h) =
      evalGuard T (cacheAfter T c (xs.take i)) xs[i].ty xs[i].val := by
  induction xs generalizing c i with
  | nil => simp at h
  | cons x xs ih =>
    cases i with
    | zero => simp [guardsFrom, cacheAfter]
    | succ i =>
      simp only [guardsFrom, List.getElem_cons_succ, List.take_succ_cons, cacheAfter]
      exact ih _ i (by simpa using h)

theorem store_spec (f : Fuser) (x : Input) :
    (f.store x).stored = f.stored ++ [x] ∧ (f.store x).schema = f.schema ∧
    (f.store x).types = f.types := by
  unfold Fuser.store Fuser.stored
  cases hsp : f.spill with
  | some sp => simp
  | none =>
    by_cases hn : f.nbytes + x.nbytes ≥ f.memMax
    · simp [hn]
    · simp [hn]

/-- What `Read` will see after `writeAll`: everything written, in order, whatever was spilled;
    and the schema is the fold of `merge` over the distinct types in first-seen order. -/
theorem writeAll_view (fuel : Nat) (f : Fuser) (xs : List Input) :
    (Fuser.writeAll fuel f xs).map (fun f' => (f'.stored, f'.schema)) =
      (mixinAll fuel f.schema (firstSeen f.types (xs.map (·.ty)))).map fun s => (f.stored ++ xs, s) := by
  induction xs generalizing f with
  | nil => simp [Fuser.writeAll, firstSeen, mixinAll]
  | cons x xs ih =>
    simp only [Fuser.writeAll, Fuser.write, Fuser.mix, List.map_cons, firstSeen]
    by_cases hm : x.ty ∈ f.types
    · simp only [hm, if_true, Option.map_some, Option.bind_some]
      obtain ⟨s1, s2, s3⟩ := store_spec f x
      rw [ih (f.store x), s1, s2, s3]
      simp
    · simp only [hm, if_false, mixinAll]
      cases hmx : mixin fuel f.schema x.ty with
      | none => simp
      | some s =>
        simp only [Option.map_some, Option.bind_some]
        obtain ⟨s1, s2, s3⟩ := store_spec { f with types := x.ty :: f.types, schema := s } x
        rw [ih, s1, s2, s3]
        simp [Fuser.stored]

/-- The outputs for a fused type (`none`: no input at all). -/
def shapeWith : Option Ty → List Input → List Out
  | none, _ => []
  | some T, xs => shapeAll T [] xs

/-- The `fuse` operator is: the aggregate's type, then the shaper over the input in order.
    The memory limit does not occur on the right-hand side. -/
theorem fuse_eq (fuel memMax : Nat) (xs : List Input) :
    fuse fuel memMax xs = (aggType fuel (xs.map (·.ty))).map fun s => shapeWith s xs := by
  have h := writeAll_view fuel { memMax := memMax } xs
  have h0 : ({ memMax := memMax } : Fuser).stored = [] := rfl
  have h1 : ({ memMax := memMax } : Fuser).schema = none := rfl
  have h2 : ({ memMax := memMax } : Fuser).types = [] := rfl
  rw [h0, h1, h2, List.nil_append] at h
  unfold fuse aggType
  have : ∀ o : Option Fuser, o.map Fuser.readAll = (o.map fun f' => (f'.stored, f'.schema)).map fun p => shapeWith p.2 p.1 := by
    intro o; cases o with
    | none => rfl
    | some f =>
      simp only [Option.map_some, Fuser.readAll, shapeWith]
      cases f.schema <;> rfl
  rw [this, h]
  cases mixinAll fuel none (firstSeen [] (xs.map (·.ty))) <;> simp

theorem evalShaper_good (T : Ty) (c : Cache) (a : Ty) (v : Val)
    (hg : evalGuard T c a v = true) (ht : hasType v a = true) :
    ∃ v', (evalShaper T c a v).1 = .val T v' ∧ ∀ l, l ∈ leaves T v' ↔ l ∈ leaves a v := by
  unfold evalGuard at hg
  unfold evalShaper
  by_cases he : a.isError = true
  · simp only [he, if_true, beq_iff_eq] at hg ⊢
    subst hg
    exact ⟨v, rfl, fun l => Iff.rfl⟩
  · simp only [he, Bool.false_eq_true, if_false] at hg ⊢
    by_cases hn : v = .null
    · subst hn; exact ⟨.null, by simp, by simp [leaves]⟩
    · simp only [hn, if_false] at hg ⊢
      by_cases hu : a.under = T.under
      · simp only [hu, if_true]
        exact ⟨v, rfl, fun l => by rw [leaves_under hu.symm v]⟩
      · simp only [hu, if_false] at hg ⊢
        cases hf : c.find a.under with
        | some p =>
          obtain ⟨typ, s⟩ := p
          simp only [hf, Bool.and_eq_true, beq_iff_eq] at hg ⊢
          obtain ⟨v', h1, h2⟩ := build_good s a v hg.2 ht
          rw [hg.1] at h1 h2
          exact ⟨v', by simp [h1, outOfBuild], h2⟩
        | none =>
          simp only [hf] at hg ⊢
          cases hs : newShaper a T with
          | error e => simp [hs] at hg
          | ok p =>
            obtain ⟨typ, s⟩ := p
            simp only [hs, Bool.and_eq_true, beq_iff_eq] at hg ⊢
            obtain ⟨v', h1, h2⟩ := build_good s a v hg.2 ht
            rw [hg.1] at h1 h2
            exact ⟨v', by simp [h1, outOfBuild], h2⟩

end Zed.Fuse
