package main

import (
	"fmt"
	"strings"
	"time"

	. "verifharness/hlib"

	zed "github.com/brimdata/super"
)

type harness struct {
	c    *Ctx
	w    *Worker
	seen map[string]bool
}

func (c *ocase) wreq(op string) *wReq {
	r := c.replay("")
	return &wReq{Op: op, Types: r.Types, Objects: r.Objects}
}

// ---- columns of a case, as the model groups them ------------------------------------------------

type column struct {
	T     *TSpec // nil = field missing
	Vals  []*VVal
	Nulls int
}

func (c *ocase) columnsOf() []column {
	var out []column
	for _, o := range c.Objects {
		var order []string
		groups := map[string][]rec{}
		for _, x := range o {
			k := x.shapeKey()
			if _, ok := groups[k]; !ok {
				order = append(order, k)
			}
			groups[k] = append(groups[k], x)
		}
		for _, k := range order {
			g := groups[k]
			col := column{}
			if g[0].T >= 0 {
				col.T = c.Types[g[0].T]
			}
			for _, x := range g {
				if x.T >= 0 {
					col.Vals = append(col.Vals, x.F)
					if x.F.Null {
						col.Nulls++
					}
				} else {
					col.Vals = append(col.Vals, nil)
				}
			}
			out = append(out, col)
		}
	}
	return out
}

func isIntKind(id int) bool  { return id >= zed.IDInt8 && id <= zed.IDTime && id != 10 && id != 11 }
func isUintKind(id int) bool { return id <= zed.IDUint64 }

// cbTags: the modelled mechanisms by which CountByString departs from `count() by f` on
// this input (kinds = the model's vector kind per column).
func cbTags(cols []column, kinds []string) map[string]bool {
	tags := map[string]bool{}
	table := map[string]bool{}
	for i, col := range cols {
		if i >= len(kinds) {
			break
		}
		k := kinds[i]
		switch {
		case k == "loadfails":
			tags["load-fails"] = true
		case col.T == nil:
			tags["missing-field-panic"] = true
		case k == "other:Named":
			tags["named-type-panic"] = true
		case strings.HasPrefix(k, "other:"):
			tags["non-string-panic"] = true
		case strings.HasPrefix(k, "flat:") && k != "flat:String":
			tags["non-string-panic"] = true
		case strings.HasPrefix(k, "dict:") && k != "dict:String":
			tags["non-string-panic"] = true
		case k == "constnull":
			tags["null-type-key"] = true
		case strings.HasPrefix(k, "const:") && k != "const:25":
			tags["non-string-const-dropped"] = true
		}
		if k == "flat:String" || k == "dict:String" || k == "const:25" {
			if col.Nulls > 0 {
				tags["null-slots-miscounted"] = true
			}
			keys := map[string]bool{}
			for _, v := range col.Vals {
				if v != nil && !v.Null {
					keys[string(v.Prim)] = true
				}
			}
			if k == "flat:String" && col.Nulls > 0 {
				keys[""] = true
			}
			if k == "dict:String" {
				for s := range keys {
					if table[s] {
						tags["dict-across-objects"] = true
					}
				}
			}
			for s := range keys {
				table[s] = true
			}
		}
	}
	return tags
}

// sumTags: the modelled mechanisms by which Sum departs from `sum(f)`.
func sumTags(cols []column, kinds []string) map[string]bool {
	tags := map[string]bool{}
	summed := false
	for i, col := range cols {
		if i >= len(kinds) || col.T == nil {
			continue
		}
		k := kinds[i]
		id := -1
		if col.T.Kind == "prim" {
			id = col.T.ID
		}
		nonNull := len(col.Vals) - col.Nulls
		if id == zed.IDDuration || id == zed.IDTime || (id >= zed.IDFloat16 && id <= zed.IDFloat64) {
			// the sequential result takes the type of such a column even when all its values
			// are null (typed nulls take part in the promotion); the vector result is int64
			tags["result-type-int64"] = true
		}
		numeric := id >= 0 && (isIntKind(id) || isUintKind(id) || (id >= zed.IDFloat16 && id <= zed.IDFloat64))
		switch {
		case k == "loadfails":
			tags["load-fails"] = true
		case strings.HasPrefix(k, "const:") && numeric && nonNull > 0:
			tags["const-column-ignored"] = true
		case (k == "flat:Float" || k == "dict:Float") && nonNull > 0:
			tags["non-integer-kind-ignored"] = true
		case k == "other:Union" && unionHasNumber(col):
			// the sequential runtime untags union values and adds the numeric ones once its
			// accumulator has a numeric type (e.g. after plain integer values)
			tags["union-values-ignored"] = true
		case k == "flat:Int" || k == "flat:Uint" || k == "dict:Int" || k == "dict:Uint":
			if nonNull > 0 {
				summed = true
				if isUintKind(id) || id == zed.IDDuration || id == zed.IDTime {
					tags["result-type-int64"] = true
				}
			}
		}
	}
	if !summed {
		tags["zero-instead-of-null"] = true
	}
	return tags
}

var cbPanicPriority = []string{"load-fails", "missing-field-panic", "named-type-panic", "non-string-panic"}
var cbDiffPriority = []string{"dict-across-objects", "non-string-const-dropped", "null-type-key", "null-slots-miscounted"}
var sumPriority = []string{"load-fails", "const-column-ignored", "non-integer-kind-ignored", "union-values-ignored", "result-type-int64", "zero-instead-of-null"}

func pick(tags map[string]bool, prio []string) string {
	for _, t := range prio {
		if tags[t] {
			return t
		}
	}
	return ""
}

// ---- ops check --------------------------------------------------------------------------------------

type opsOutcome struct {
	crashed  bool
	crashMsg string
	res      *opsResult
	kinds    []string // model
	mCB      string   // model answers
	mSum     string
}

func (h *harness) runOpsCase(oc *ocase) *opsOutcome {
	out := &opsOutcome{}
	var resp wResp
	crashed, msg := h.w.Call(oc.wreq("ops"), 25*time.Second, &resp)
	if crashed {
		out.crashed, out.crashMsg = true, msg
	} else {
		out.res = resp.Ops
		if resp.Err != "" && out.res == nil {
			out.res = &opsResult{Err: resp.Err}
		}
	}
	mo := oc.modelObjects()
	ans := h.c.Model().Batch([]string{"(C09 kinds" + mo + ")", "(C09 countby" + mo + ")", "(C09 sum " + oc.intVals() + mo + ")"})
	out.kinds = strings.Fields(ans[0])
	out.mCB, out.mSum = ans[1], ans[2]
	return out
}

func normPanic(s string) string {
	s = strings.SplitN(s, "\n", 2)[0]
	s = strings.TrimPrefix(s, "panic: ")
	s = strings.TrimPrefix(s, "panic: ")
	s = strings.ReplaceAll(s, "UNKNOWN *vector.", "UNKNOWN ")
	s = strings.ReplaceAll(s, "(", "_")
	s = strings.ReplaceAll(s, ")", "_")
	return strings.TrimSpace(s)
}

func cbRowsCanon(rows []aggRow) []string {
	var out []string
	for _, r := range rows {
		if r.Key == "" {
			out = append(out, "?"+r.Exact)
		} else {
			out = append(out, "("+r.Key+" "+r.Count+")")
		}
	}
	return sorted(out)
}

// splitRows splits the model's "ok (row) (row)…" answer.
func splitRows(s string) []string {
	var out []string
	depth, start := 0, -1
	for i, ch := range s {
		switch ch {
		case '(':
			if depth == 0 {
				start = i
			}
			depth++
		case ')':
			depth--
			if depth == 0 && start >= 0 {
				out = append(out, s[start:i+1])
				start = -1
			}
		}
	}
	return sorted(out)
}

// describe the real count() by outcome / sum outcome in one comparable string
func realCB(o *opsOutcome) string {
	switch {
	case o.crashed:
		return "crash"
	case o.res.Err != "":
		return "loaderr " + trunc(o.res.Err, 200)
	case strings.HasPrefix(o.res.CBErr, "panic"):
		return "panic " + normPanic(o.res.CBErr)
	case o.res.CBErr != "":
		return "error " + trunc(o.res.CBErr, 200)
	}
	return "ok " + strings.Join(cbRowsCanon(o.res.CB), " ")
}

func modelCB(o *opsOutcome) string {
	if strings.HasPrefix(o.mCB, "panic load:") {
		return "crash"
	}
	if strings.HasPrefix(o.mCB, "panic ") {
		return "panic " + strings.TrimSpace(strings.TrimPrefix(o.mCB, "panic "))
	}
	if strings.HasPrefix(o.mCB, "ok") {
		return "ok " + strings.Join(splitRows(strings.TrimPrefix(o.mCB, "ok")), " ")
	}
	return o.mCB
}

func realSum(o *opsOutcome) string {
	switch {
	case o.crashed:
		return "crash"
	case o.res.Err != "":
		return "loaderr " + trunc(o.res.Err, 200)
	case strings.HasPrefix(o.res.SumErr, "panic"):
		return "panic " + normPanic(o.res.SumErr)
	case o.res.SumErr != "":
		return "error " + trunc(o.res.SumErr, 200)
	}
	return "ok " + strings.Join(o.res.Sum, " ")
}

func modelSum(o *opsOutcome) string {
	if strings.HasPrefix(o.mSum, "panic load:") {
		return "crash"
	}
	if strings.HasPrefix(o.mSum, "ok ") {
		return "ok {sum:" + strings.TrimPrefix(o.mSum, "ok ") + "}"
	}
	return o.mSum
}

func seqCB(o *opsOutcome) string {
	if o.res == nil {
		return "?"
	}
	if o.res.SeqCBE != "" {
		return "error " + o.res.SeqCBE
	}
	return "ok " + strings.Join(cbRowsCanon(o.res.SeqCB), " ")
}

func seqSum(o *opsOutcome) string {
	if o.res == nil {
		return "?"
	}
	if o.res.SeqSumE != "" {
		return "error " + o.res.SeqSumE
	}
	if len(o.res.SeqSum) == 1 {
		// `summarize sum(f)` yields the bare value; the vector operator the record {sum:value}
		return "ok {sum:" + o.res.SeqSum[0] + "}"
	}
	return "ok " + strings.Join(o.res.SeqSum, " ")
}

func cls(s string) string {
	if i := strings.Index(s, " "); i > 0 {
		return s[:i]
	}
	return s
}

func isCrashy(c string) bool { return c == "crash" || c == "panic" || c == "loaderr" }

func (h *harness) opsCheck(oc *ocase) {
	c := h.c
	c.Eval(oc.key())
	o := h.runOpsCase(oc)
	if o.crashed {
		// confirm and get the sequential answers from a second worker call is not possible
		// (the same call crashes): the model must predict the crash
		c.Stat("ops:crash")
	}
	cols := oc.columnsOf()
	for _, k := range o.kinds {
		c.Stat("kind:" + k)
	}
	c.Stat(fmt.Sprintf("objects:%d", len(oc.Objects)))
	c.Stat(fmt.Sprintf("columns:%d", len(cols)))
	if len(c.Res.Samples) < 4 && len(oc.Objects) > 0 && len(oc.Objects[0]) < 4 {
		c.Sample(map[string]any{"objects": oc.modelObjects(), "model_countby": o.mCB, "model_sum": o.mSum})
	}

	// T2: vector kinds, count() by, sum
	c.Res.ModelCases++
	if !o.crashed && o.res.Err == "" {
		if got, want := strings.Join(o.res.Kinds, " "), strings.Join(o.kinds, " "); got != want {
			c.Fail("correspondence", "C09:corr:kinds", fmt.Sprintf("vectors handed to the operator differ from the model: real=[%s] model=[%s] for%s", got, want, trunc(oc.modelObjects(), 300)), oc.replay("ops"))
		}
	}
	rcb, mcb := realCB(o), modelCB(o)
	if cls(rcb) == "loaderr" && cls(mcb) == "crash" {
		rcb = "crash"
	}
	if rcb != mcb {
		c.Fail("correspondence", "C09:corr:countby", fmt.Sprintf("real CountByString differs from the model: real=%s model=%s for%s", trunc(rcb, 300), trunc(mcb, 300), trunc(oc.modelObjects(), 300)), oc.replay("ops"))
	}
	rs, ms := realSum(o), modelSum(o)
	if cls(rs) == "loaderr" && cls(ms) == "crash" {
		rs = "crash"
	}
	if oc.intValsAmbiguous() {
		c.Stat("sum:tie-skipped(body ambiguous between a signed and an unsigned type)")
	} else if rs != ms {
		c.Fail("correspondence", "C09:corr:sum", fmt.Sprintf("real Sum differs from the model: real=%s model=%s for%s", trunc(rs, 300), trunc(ms, 300), trunc(oc.modelObjects(), 300)), oc.replay("ops"))
	}
	if o.crashed {
		h.reportOps(oc, "countby", "crash "+firstPanicLine(o.crashMsg))
		return
	}
	// S: vector vs sequential
	c.Stat("ops:countby:" + cls(rcb))
	if scb := seqCB(o); realCB(o) != scb {
		h.reportOps(oc, "countby", cls(realCB(o))+" vector="+trunc(realCB(o), 200)+" sequential="+trunc(scb, 200))
	} else {
		c.Stat("ops:countby:agrees")
	}
	c.Stat("ops:sum:" + cls(rs))
	if ss := seqSum(o); sumAgrees(realSum(o), ss) {
		c.Stat("ops:sum:agrees")
	} else {
		h.reportOps(oc, "sum", cls(realSum(o))+" vector="+trunc(realSum(o), 200)+" sequential="+trunc(ss, 200))
	}
}

// the vector operator yields {sum:N}; the sequential `summarize sum(f)` yields {sum:N} too
func sumAgrees(vec, seq string) bool { return vec == seq }

func firstPanicLine(msg string) string {
	for _, l := range strings.Split(msg, "\n") {
		if strings.HasPrefix(l, "panic:") || strings.HasPrefix(l, "fatal error:") || strings.HasPrefix(l, "timeout") {
			return trunc(l, 200)
		}
	}
	return trunc(msg, 200)
}

// failsAgg: does the oracle (vector vs sequential) fail for this case, and how (class).
func (h *harness) failsAgg(oc *ocase, agg string) (string, *opsOutcome) {
	o := h.runOpsCase(oc)
	if o.crashed {
		return "crash", o
	}
	if agg == "countby" {
		if r := realCB(o); r != seqCB(o) {
			c := cls(r)
			if c == "ok" {
				c = "diff"
			}
			return c, o
		}
		return "", o
	}
	if r := realSum(o); !sumAgrees(r, seqSum(o)) {
		c := cls(r)
		if c == "ok" {
			c = "diff"
		}
		return c, o
	}
	return "", o
}

func (h *harness) keyOf(oc *ocase, agg, class string, o *opsOutcome) string {
	cols := oc.columnsOf()
	if agg == "countby" {
		if class == "diff" {
			if t := pick(cbTags(cols, o.kinds), cbDiffPriority); t != "" {
				return "C09:countby:" + t
			}
			return "C09:countby:unexplained-diff"
		}
		if t := pick(cbTags(cols, o.kinds), cbPanicPriority); t != "" {
			return "C09:countby:" + t
		}
		return "C09:countby:unexplained-" + class
	}
	if class == "diff" {
		if t := pick(sumTags(cols, o.kinds), sumPriority); t != "" {
			return "C09:sum:" + t
		}
		return "C09:sum:unexplained-diff"
	}
	if t := pick(sumTags(cols, o.kinds), []string{"load-fails"}); t != "" {
		return "C09:sum:" + t
	}
	return "C09:sum:unexplained-" + class
}

// reportOps: shrink within the same failure class and mechanism, then report.
func (h *harness) reportOps(oc *ocase, agg, what string) {
	c := h.c
	class, o0 := h.failsAgg(oc, agg)
	if class == "" {
		c.Stat("ops:unconfirmed")
		return
	}
	if class == "loaderr" {
		class = "crash"
	}
	key0 := h.keyOf(oc, agg, crashAsPanic(class), o0)
	if h.seen == nil {
		h.seen = map[string]bool{}
	}
	if h.seen[key0] && !strings.Contains(key0, "unexplained") {
		c.Stat("ops:repeat:" + key0)
		return
	}
	h.seen[key0] = true
	min := shrinkOCase(oc, func(x *ocase) bool {
		cl, o := h.failsAgg(x, agg)
		if cl == "" {
			return false
		}
		if cl == "loaderr" {
			cl = "crash"
		}
		return crashAsPanic(cl) == crashAsPanic(class) && h.keyOf(x, agg, crashAsPanic(cl), o) == key0
	}, 60)
	cl, o := h.failsAgg(min, agg)
	if cl == "" {
		min, o = oc, o0
	}
	kind := "oracle"
	if isCrashy(class) {
		kind = "panic"
	}
	desc := ""
	if o != nil && o.res != nil {
		if agg == "countby" {
			desc = fmt.Sprintf("vector=%s sequential=%s", trunc(realCB(o), 240), trunc(seqCB(o), 240))
		} else {
			desc = fmt.Sprintf("vector=%s sequential=%s", trunc(realSum(o), 120), trunc(seqSum(o), 120))
		}
	} else {
		desc = what
	}
	q := map[string]string{"countby": "count() by f", "sum": "sum(f)"}[agg]
	c.Fail(kind, key0, fmt.Sprintf("%s over%s: %s", q, trunc(min.modelObjects(), 300), desc), min.replay("ops"))
}

func crashAsPanic(c string) string {
	if c == "crash" {
		return "panic"
	}
	return c
}

// shrinkOCase: fewer objects, fewer records.
func shrinkOCase(oc *ocase, fails func(*ocase) bool, budget int) *ocase {
	calls := 0
	try := func(x *ocase) bool {
		if calls >= budget {
			return false
		}
		calls++
		return fails(x)
	}
	cur := oc
	for progress := true; progress && calls < budget; {
		progress = false
		if len(cur.Objects) > 1 {
			for i := range cur.Objects {
				x := &ocase{Types: cur.Types, Label: cur.Label}
				x.Objects = append(append([][]rec{}, cur.Objects[:i]...), cur.Objects[i+1:]...)
				if try(x) {
					cur, progress = x, true
					break
				}
			}
			if progress {
				continue
			}
		}
		for oi := range cur.Objects {
			n := len(cur.Objects[oi])
			for chunk := (n + 1) / 2; chunk >= 1 && !progress; chunk /= 2 {
				for lo := 0; lo < n; lo += chunk {
					hi := lo + chunk
					if hi > n {
						hi = n
					}
					if hi-lo == n && len(cur.Objects) == 1 {
						continue
					}
					x := &ocase{Types: cur.Types, Label: cur.Label}
					for j, o := range cur.Objects {
						if j != oi {
							x.Objects = append(x.Objects, o)
							continue
						}
						no := append(append([]rec{}, o[:lo]...), o[hi:]...)
						if len(no) > 0 {
							x.Objects = append(x.Objects, no)
						}
					}
					if len(x.Objects) == 0 {
						continue
					}
					if try(x) {
						cur, progress = x, true
						break
					}
				}
				if chunk == 1 {
					break
				}
			}
			if progress {
				break
			}
		}
	}
	return cur
}

// unionHasNumber: some non-null value of the union column holds a number.
func unionHasNumber(col column) bool {
	if col.T == nil || col.T.Kind != "union" {
		return false
	}
	for _, v := range col.Vals {
		if v == nil || v.Null || len(v.Items) != 2 || v.Items[1].Null {
			continue
		}
		tag := int(zed.DecodeInt(v.Items[0].Prim))
		if tag < 0 || tag >= len(col.T.Elems) {
			continue
		}
		m := col.T.Elems[tag]
		if m.Kind == "prim" && (isIntKind(m.ID) || isUintKind(m.ID) || (m.ID >= zed.IDFloat16 && m.ID <= zed.IDFloat64)) {
			return true
		}
	}
	return false
}
