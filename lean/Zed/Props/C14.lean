/-
  C14 — pool contents always equal the loaded values minus the deleted ones, in pool-key order.
  Property theorems only (model: Zed/Model/Lake*.lean; lemmas: Zed/Proofs/Lake*.lean).
-/
import Zed.Proofs.LakeSorted
import Zed.Proofs.LakeCompact
import Zed.Proofs.LakeFresh
namespace Zed.Props.C14
open Zed.Lake

variable {K V : Type} [DecidableEq V]

omit [DecidableEq V] in
/-- a commit id whose snapshot can be computed exists -/
theorem snapAt_ok_le (cs : List (Commit K)) (t : Nat) (snap : Snap K) (h : snapAt cs t = .ok snap) :
    t ≤ cs.length := by
  unfold snapAt parentSnap at h
  by_cases h0 : t = 0
  · omega
  · simp only [h0, if_false] at h
    cases hg : (snapsOf cs)[t - 1]? with
    | none => simp [hg] at h
    | some r =>
      have := (List.getElem?_eq_some_iff.mp hg).1
      rw [snapsOf_length] at this
      omega

omit [DecidableEq V] in
/-- the snapshot of a freshly committed object is its parent's snapshot with the actions played -/
theorem commit_snap (s : State K V) (b t : Nat) (acts : List (Action K)) (snap : Snap K)
    (h : snapAt s.commits t = .ok snap) :
    snapAt (s.commit b t acts).commits (s.commits.length + 1) = play snap acts := by
  rw [commit_commits, snapAt_new, commitSnap_eq]
  simp only [h]

omit [DecidableEq V] in
/-- **scan contents** (`contents_correct`, read side).  Whatever the object layout, the lister
    order and the partitioning, the unfiltered scan of a commit returns exactly the values held
    by the objects of its snapshot (as a multiset). -/
theorem scan_contents (cfg : Cfg K V) (s : State K V) (c : Nat) (snap : Snap K) (r : List V)
    (hs : snapAt s.commits c = .ok snap) (h : State.query cfg s c = .ok r) :
    r.Perm (snap.objs.flatMap (pay s.files)) := by
  unfold State.query at h
  simp only [hs] at h
  exact scanObjs_perm cfg s.files snap.objs r h

omit [DecidableEq V] in
/-- **delete by id** (object-set refinement).  A successful `delete(ids)` — ids in any order,
    with or without repetitions (`Branch.Delete` de-duplicates the list since fix f09056a37;
    before it a repeated id made the branch unreadable) — yields a readable tip whose objects
    are exactly the previous ones minus `ids`; vectors are untouched. -/
theorem delete_exact (s s' : State K V) (b : Nat) (ids : List Nat)
    (h : delete s b ids = .ok s') :
    ∃ t snap snap', s.tip b = some t ∧ snapAt s.commits t = .ok snap ∧
      snapAt s'.commits (s.commits.length + 1) = .ok snap' ∧ snap'.vecs = snap.vecs ∧
      ∀ id, snap'.hasObj id = (snap.hasObj id && !ids.contains id) := by
  unfold delete at h
  simp only [] at h
  split at h
  · cases h
  · rename_i t ht
    split at h
    · cases h
    · rename_i snap hs
      split at h
      · rename_i hall
        cases h
        obtain ⟨snap', h1, h2, h3⟩ := play_dels snap (uniqueIds ids) (nodup_uniqueIds ids) (by
          intro id hid
          exact (List.all_eq_true.mp hall) id hid)
        refine ⟨t, snap, snap', ht, hs, by rw [commit_snap s b t _ snap hs, h1], h2, ?_⟩
        intro id
        rw [h3 id, contains_uniqueIds]
      · cases h

omit [DecidableEq V] in
private theorem flatMap_congr' {α β : Type} (l : List α) (f g : α → List β) (h : ∀ a ∈ l, f a = g a) :
    l.flatMap f = l.flatMap g := by
  induction l with
  | nil => rfl
  | cons a as ih =>
    simp only [List.flatMap_cons]
    rw [h a (by simp), ih (fun x hx => h x (by simp [hx]))]

omit [DecidableEq V] in
private theorem hasObj_false_of_lt (snap : Snap K) (n id : Nat) (h : ∀ o ∈ snap.objs, o.id < n) (hid : n ≤ id) :
    snap.hasObj id = false := by
  cases hc : snap.hasObj id with
  | false => rfl
  | true =>
    obtain ⟨o, ho, hoid⟩ := List.any_eq_true.mp hc
    have := h o ho
    have : o.id = id := by simpa using hoid
    omega

/-- **refinement, load** (`abs (step s (load vals)) = abs s ⊎ vals`).  A successful load makes
    the branch tip readable and its contents — the values held by the objects of its snapshot —
    the previous contents plus exactly the loaded values, for every threshold (any partition of
    the input into buffers), every comparator and every earlier history.  Freshness of object
    ids (`KSUID` uniqueness) appears as the two hypotheses on `nextObj`. -/
theorem load_refines (cfg : Cfg K V) (s s' : State K V) (b : Nat) (vals : List V) (parts : List (List V))
    (h : load cfg s b vals parts = .ok s')
    (hfiles : ∀ f ∈ s.files, f.1 < s.nextObj) :
    ∃ t, s.tip b = some t ∧ ∀ snap, snapAt s.commits t = .ok snap → (∀ o ∈ snap.objs, o.id < s.nextObj) →
      ∃ snap', snapAt s'.commits (s.commits.length + 1) = .ok snap' ∧ snap'.vecs = snap.vecs ∧
        (snap'.objs.flatMap (pay s'.files)).Perm (snap.objs.flatMap (pay s.files) ++ vals) := by
  unfold load at h
  split at h
  · cases h
  · rename_i t ht
    refine ⟨t, ht, ?_⟩
    intro snap hs hfresh
    split at h
    · cases h
    · split at h
      · cases h
      · rename_i hperm
        simp only [] at h
        have w := writeObjs_spec cfg s parts hfiles
        cases hw : writeObjs cfg s parts with
        | mk s1 objs =>
          rw [hw] at h w
          simp only [] at h w
          cases h
          have hc1 : s1.commits = s.commits := by
            have := writeObjs_commits cfg s parts; rw [hw] at this; exact this
          have hs1 : snapAt s1.commits t = .ok snap := by rw [hc1]; exact hs
          have hplay := play_adds snap objs w.nodup (by
            intro o ho
            exact hasObj_false_of_lt snap s.nextObj o.id hfresh (w.ids o ho).1)
          have hlen : s.commits.length = s1.commits.length := by rw [hc1]
          refine ⟨{ snap with objs := snap.objs ++ objs }, by rw [hlen, commit_snap s1 b t _ snap hs1, hplay], rfl, ?_⟩
          simp only [commit_files, List.flatMap_append]
          obtain ⟨e, he, hee⟩ := w.ext
          have hold : snap.objs.flatMap (pay s1.files) = snap.objs.flatMap (pay s.files) := by
            apply flatMap_congr'
            intro o ho
            unfold pay
            rw [he, fileOf_append_none]
            intro f hf
            have := (hee f hf).1
            have := hfresh o ho
            omega
          rw [hold, w.payload]
          apply List.Perm.append_left
          have hp : parts.Perm ((chunk cfg vals).map (sortVals cfg)) := by
            have : parts.isPerm ((chunk cfg vals).map (sortVals cfg)) = true := by simpa using hperm
            exact List.isPerm_iff.mp this
          exact (hp.flatten).trans ((flatten_map_sort_perm cfg _).trans (by rw [chunk_flatten]))

omit [DecidableEq V] in
/-- **refinement, delete by id** (value level): the previous contents are the new contents plus
    exactly the values of the deleted objects; nothing else changes. -/
theorem delete_refines (s s' : State K V) (b : Nat) (ids : List Nat)
    (h : delete s b ids = .ok s') :
    ∃ t snap snap', s.tip b = some t ∧ snapAt s.commits t = .ok snap ∧
      snapAt s'.commits (s.commits.length + 1) = .ok snap' ∧ s'.files = s.files ∧
      (snap.objs.flatMap (pay s.files)).Perm
        (snap'.objs.flatMap (pay s'.files) ++ (snap.objs.filter (fun o => ids.contains o.id)).flatMap (pay s.files)) := by
  obtain ⟨t, snap, snap', ht, hs, hs', _, _⟩ := delete_exact s s' b ids h
  have hf : s'.files = s.files := by
    unfold delete at h
    simp only [] at h
    rw [ht] at h
    simp only [hs] at h
    split at h
    · cases h; rfl
    · cases h
  have hplay : play snap ((uniqueIds ids).map .del) = .ok snap' := by
    unfold delete at h
    simp only [] at h
    rw [ht] at h
    simp only [hs] at h
    split at h
    · cases h
      rw [commit_snap s b t _ snap hs] at hs'
      exact hs'
    · cases h
  obtain ⟨hobjs, _⟩ := play_dels_objs snap snap' (uniqueIds ids) hplay
  have hobjs : snap'.objs = snap.objs.filter (fun o => !ids.contains o.id) := by
    rw [hobjs]; congr 1; funext o; rw [contains_uniqueIds]
  refine ⟨t, snap, snap', ht, hs, hs', hf, ?_⟩
  rw [hf, hobjs, ← List.flatMap_append]
  exact ((List.filter_append_perm (fun o => !ids.contains o.id) snap.objs).symm.trans
    (by
      have : (snap.objs.filter fun o => !!ids.contains o.id) = snap.objs.filter (fun o => ids.contains o.id) := by
        congr 1; funext o; cases ids.contains o.id <;> rfl
      rw [this])).flatMap_right _

/-- **refinement, compaction** (`abs (step s (compact ids)) = abs s`).  A successful compaction
    — any set of source objects, with or without vectors, any cut of the merged output into new
    objects that the model's validation accepts — leaves the branch readable with exactly the
    same contents.  Hypotheses: fresh ids as in `load_refines`, and distinct object ids in the
    tip snapshot (the discipline `Snapshot.AddDataObject` enforces). -/
theorem compact_refines (cfg : Cfg K V) (s s' : State K V) (b : Nat) (ids : List Nat) (vec : Bool)
    (parts : List (List V)) (h : compact cfg s b ids vec parts = .ok s')
    (hfiles : ∀ f ∈ s.files, f.1 < s.nextObj) :
    ∃ t, s.tip b = some t ∧ ∀ snap, snapAt s.commits t = .ok snap →
      (∀ o ∈ snap.objs, o.id < s.nextObj) → (∀ v ∈ snap.vecs, v < s.nextObj) →
      (snap.objs.map (·.id)).Nodup →
      ∃ snap', snapAt s'.commits (s.commits.length + 1) = .ok snap' ∧
        (snap'.objs.flatMap (pay s'.files)).Perm (snap.objs.flatMap (pay s.files)) :=
  Zed.Lake.compact_refines cfg s s' b ids vec parts h hfiles

/-- **history invariant.**  For every history — of any length — of loads, deletes,
    compactions, vector adds/deletes, vacuums and branch creations from a state satisfying the
    freshness invariant `Good` (in particular from the empty pool, `Good.init`), the invariant
    holds again; so the hypotheses of `load_refines` / `compact_refines` hold at every step of
    every such history (`refinement_load`, `refinement_compact` below). -/
theorem history_invariant (cfg : Cfg K V) (s : State K V) (ops : List (Op V))
    (hp : ops.all Op.isPlain = true) (g : Good s) : Good (run cfg s ops) := run_good cfg s ops hp g

/-- **refinement** for load, stated with the invariant only -/
theorem refinement_load (cfg : Cfg K V) (s s' : State K V) (b : Nat) (vals : List V) (parts : List (List V))
    (g : Good s) (h : load cfg s b vals parts = .ok s') :
    Good s' ∧ ∃ t, s.tip b = some t ∧ ∀ snap, snapAt s.commits t = .ok snap →
      ∃ snap', snapAt s'.commits (s.commits.length + 1) = .ok snap' ∧
        (snap'.objs.flatMap (pay s'.files)).Perm (snap.objs.flatMap (pay s.files) ++ vals) := by
  refine ⟨load_good cfg s s' b vals parts g h, ?_⟩
  obtain ⟨t, ht, hr⟩ := load_refines cfg s s' b vals parts h g.files
  refine ⟨t, ht, ?_⟩
  intro snap hs
  obtain ⟨snap', h1, _, h2⟩ := hr snap hs (Good.snap s g t snap hs).1
  exact ⟨snap', h1, h2⟩

/-- **refinement** for compaction, stated with the invariant only -/
theorem refinement_compact (cfg : Cfg K V) (s s' : State K V) (b : Nat) (ids : List Nat) (vec : Bool)
    (parts : List (List V)) (g : Good s) (h : compact cfg s b ids vec parts = .ok s') :
    Good s' ∧ ∃ t, s.tip b = some t ∧ ∀ snap, snapAt s.commits t = .ok snap →
      ∃ snap', snapAt s'.commits (s.commits.length + 1) = .ok snap' ∧
        (snap'.objs.flatMap (pay s'.files)).Perm (snap.objs.flatMap (pay s.files)) := by
  refine ⟨compact_good cfg s s' b ids vec parts g h, ?_⟩
  obtain ⟨t, ht, hr⟩ := compact_refines cfg s s' b ids vec parts h g.files
  refine ⟨t, ht, ?_⟩
  intro snap hs
  have hb := Good.snap s g t snap hs
  exact hr snap hs hb.1 hb.2 (snapAt_nodup s.commits t snap hs)

/-- non-vacuity: the empty pool satisfies the invariant -/
example : Good ({} : State K V) := Good.init

omit [DecidableEq V] in
/-- **object_meta_correct.**  The metadata `data.Writer` records for an object equals that of
    the values it holds: `count` is their number, and — the values being in pool-key order —
    every value's key lies in `[min, max]` (both ascending and descending pools).
    Guard `cfg.mkey = cfg.key` (the key `DerefPath` finds is the key the comparator sorts by):
    false for pool key `this`, see finding C14:this-key. -/
theorem object_meta_correct (cfg : Cfg K V) (L : KeyLaws cfg) (hk : cfg.mkey = cfg.key)
    (id : Nat) (p : List V) (o : Obj K) (h : mkObj cfg id p = some o) (hs : isSorted cfg p = true) :
    o.id = id ∧ o.count = p.length ∧
      ∀ v ∈ p, cfg.kle o.min (cfg.key v) = true ∧ cfg.kle (cfg.key v) o.max = true := by
  refine ⟨mkObj_id cfg id p o h, ?_⟩
  unfold mkObj at h
  split at h
  · rename_i f l hf hl
    have hb := sorted_bounds cfg L p f l hs hf hl
    simp only [Option.some.injEq] at h
    cases hd : cfg.desc
    · simp only [hd, Bool.false_eq_true, if_false] at h
      subst h
      refine ⟨rfl, ?_⟩
      intro v hv
      have := hb v hv
      simp only [kvle, hd, Bool.false_eq_true, if_false] at this
      simpa [hk] using this
    · simp only [hd, if_true] at h
      subst h
      refine ⟨rfl, ?_⟩
      intro v hv
      have := hb v hv
      simp only [kvle, hd, if_true] at this
      simpa [hk] using ⟨this.2, this.1⟩
  · cases h

omit [DecidableEq V] in
/-- **scan_sorted** (partial: one partition).  If every object of a partition holds its values
    in pool-key order, the merged scan of the partition is in pool-key order — ascending or
    descending, null/missing keys largest (that is the key order `kle`).  The order among
    values of equal key is NOT fixed by this (and is nondeterministic in the code: finding
    C14:scan:tie-order).  Across partitions the order follows from the slicer's separation of
    key ranges; that part is tied by correspondence only. -/
theorem scan_sorted_partial (cfg : Cfg K V) (L : OrderLaws cfg) (ls : List (List V))
    (h : ∀ l ∈ ls, SortedK cfg l) : SortedK cfg (mergeK cfg ls) := sortedK_mergeK cfg L ls h

/-- **delete-where rewrites into sorted objects.**  A delete-where is accepted by the model only
    if every object it wrote is non-empty and holds its values in pool-key order (and together
    they hold exactly the kept values): the survivors reach the rewriting `lake.Writer` one
    whole object after another — not in key order when the touched objects overlap — so the
    writer must sort each buffer (`load_object_sorted`).  The harness compares this step with
    the real code also with `compiler.Parallelism = 1`, where all objects go through one
    deleter thread. -/
theorem deleteWhere_objects_sorted (cfg : Cfg K V) (s s' : State K V) (b : Nat) (keep : V → Bool)
    (parts : List (List V)) (h : deleteWhere cfg s b keep parts = .ok s') :
    ∀ p ∈ parts, p ≠ [] ∧ isSorted cfg p = true := by
  have key : ∃ kept, validParts cfg kept parts = true := by
    unfold deleteWhere at h
    split at h
    · cases h
    · split at h
      · cases h
      · split at h
        · cases h
        · rename_i ids kept _
          split at h
          · cases h
          · split at h
            · cases h
            · rename_i hv
              exact ⟨kept, by simpa using hv⟩
  obtain ⟨kept, hv⟩ := key
  intro p hp
  unfold validParts at hv
  simp only [Bool.and_eq_true, List.all_eq_true] at hv
  have := hv.1 p hp
  exact ⟨by intro he; rw [he] at this; simp at this, this.2⟩

omit [DecidableEq V] in
/-- every object a load writes holds its values in pool-key order -/
theorem load_object_sorted (cfg : Cfg K V) (L : OrderLaws cfg) (buf : List V) :
    isSorted cfg (sortVals cfg buf) = true :=
  isSorted_of_sortedK cfg _ (sortedK_sortVals cfg L buf)

/-! negation witness for `object_meta_correct` without its guard: pool key `this` -/
private def thisCfg : Cfg (Option Nat) Nat :=
  { key := some, mkey := fun _ => none,
    kle := fun a b => match a, b with
      | _, none => true
      | none, some _ => false
      | some x, some y => Nat.ble x y,
    keq := (· == ·), vle := Nat.ble, desc := false, thresh := 4, size := fun _ => 1 }

/-- **not_object_meta_correct** (pool key `this`): the sort key path `this` is looked up as a
    field, so the recorded range is `[null, null]` and does not bound the values' keys.
    Replayed on the real code by the harness (witness:this-key). -/
theorem not_object_meta_correct :
    ∃ o, mkObj thisCfg 1 [1, 2] = some o ∧ isSorted thisCfg [1, 2] = true ∧
      thisCfg.kle o.min (thisCfg.key 1) = false := ⟨_, rfl, rfl, rfl⟩

/-! the former negation witness (one object, `delete [1, 1]`): since fix f09056a37 the model,
    like the code, de-duplicates, and the branch stays readable -/
private def dupState : State Nat Nat :=
  { commits := [{ parent := 0, acts := [.add { id := 1, min := 1, max := 1, count := 1 }] }],
    branches := [(0, 1)], files := [(1, [1])], nextObj := 2 }

/-- `delete(main, [1, 1])` is acknowledged and leaves `main` readable and empty (replayed on the
    real code by the harness, witness:duplicate-id) -/
example : ∃ s' snap, delete dupState 0 [1, 1] = .ok s' ∧ s'.tip 0 = some 2 ∧
    snapAt s'.commits 2 = .ok snap ∧ snap.objs = [] := ⟨_, _, rfl, rfl, rfl, rfl⟩

/-- non-vacuity of `load_refines`: the freshness hypotheses hold in `dupState` -/
example : (∀ f ∈ dupState.files, f.1 < dupState.nextObj) ∧
    ∃ snap, snapAt dupState.commits 1 = .ok snap ∧ ∀ o ∈ snap.objs, o.id < dupState.nextObj := by
  refine ⟨by decide, _, rfl, by decide⟩

private def natCfg : Cfg Nat Nat :=
  { key := id, mkey := id, kle := Nat.ble, keq := (· == ·), vle := Nat.ble, desc := false,
    thresh := 4, size := fun _ => 1 }

/-- non-vacuity of `OrderLaws` / `KeyLaws`: the natural numbers -/
example : OrderLaws natCfg where
  refl := by intro a; simp [natCfg]
  trans := by intro a b c h1 h2; simp [natCfg] at *; omega
  vtrans := by intro a b c h1 h2; simp [natCfg] at *; omega
  vtotal := by intro a b; simp [natCfg]; omega
  refine1 := by intro a b h; simpa [kvle, natCfg] using h
  refine2 := by
    intro a b h
    have h0 : a.ble b = false := h
    have h' : ¬ a ≤ b := by
      intro hle
      rw [Nat.ble_eq_true_of_le hle] at h0; cases h0
    simp [kvle, natCfg]; omega

end Zed.Props.C14
