/-
  L5 — `lake/journal/queue.go` + `lake/journal/store.go` as a small-step machine:
  one transition per storage operation.

    Store.load    : Get HEAD; unchanged → done; else Get snap.zng, (Get TAIL), Get entries …,
                    (Put snap.zng when more than `snapEvery` entries were replayed)
    Store.commit  : for attempts < maxRetries: load; check the constraint under the loaded
                    table; Queue.CommitAt(at) = PutIfNotExists(entry at+1) then Put(HEAD, at+1);
                    on "exists" retry.  After success the cache position is reset (forces reload).
-/
import Zed.Model.StoreEngine
import Zed.Generated.C12
namespace Zed.Store

/-- `journal.maxRetries` and the "more than N new entries" snapshot rule (store.go): regenerated
    from the source on every check (T1, `Zed/Generated/C12.lean`). -/
def maxRetries : Nat := Zed.Generated.C12.maxRetries
def snapEvery : Nat := Zed.Generated.C12.snapEvery

/-- The four mutating calls of `journal.Store` with their constraint and their entry. -/
inductive JOp where
  | insert (k v : Nat)            -- Insert: key absent;                    [add k v]
  | move (old new v : Nat)        -- Move: old present, new absent;         [delete old, add new v]
  | delete (k v : Nat)            -- Delete with constraint "value = v";    [delete k]
  | update (k old new : Nat)      -- Update with constraint "value = old";  [update k new]
  deriving DecidableEq, Repr

inductive Res where
  | ok
  | keyExists | noSuchKey | constraint     -- journal.ErrKeyExists / ErrNoSuchKey / ErrConstraint
  | retries                                -- journal.ErrRetriesExceeded
  | io                                     -- a Get failed (missing file / unparsable)
  | notFound | exists                      -- name-level lookups of the API layer
  | buildErr                               -- commit constructor failed (delete of an absent object)
  | commitFailed                           -- lake.ErrCommitFailed
  | committed (id : Nat)                   -- branch commit acknowledged with this commit id
  | created (j : Nat)                      -- journal / pool directory created with this id
  deriving DecidableEq, Repr

def JOp.acts : JOp → List JAct
  | .insert k v => [.add k v]
  | .move old new v => [.delete old, .add new v]
  | .delete k _ => [.delete k]
  | .update k _ new => [.update k new]

/-- The constraint closure `fn()` of `Store.commit`, evaluated under the cached table. -/
def JOp.check (t : Table) : JOp → Option Res
  | .insert k _ => if (t.get k).isSome then some .keyExists else none
  | .move old new _ =>
    if (t.get old).isNone then some .noSuchKey
    else if (t.get new).isSome then some .keyExists else none
  | .delete k v => match t.get k with
    | none => some .noSuchKey
    | some x => if x = v then none else some .constraint
  | .update k old _ => match t.get k with
    | none => some .noSuchKey
    | some x => if x = old then none else some .constraint

/-- `journal.Store`'s in-process cache: table at position `pos` (`pos = 0` forces a reload). -/
structure JCache where
  pos : Nat
  table : Table
  deriving DecidableEq, Repr

def JCache.empty : JCache := ⟨0, []⟩

inductive JKind where
  | load
  | commit (op : JOp) (attempt : Nat)
  deriving DecidableEq, Repr

/-- Program counter inside load / commit: the *next* storage operation. -/
inductive JPc where
  | rdHead                                  -- Get HEAD
  | rdSnap (h : Nat)                        -- Get snap.zng
  | rdTail (h : Nat)                        -- Get TAIL (no snapshot)
  | rdEnt (h n : Nat) (t : Table) (a : Nat) -- Get entry n (≤ h); t = table so far; a = snapshot position
  | putSnap (h : Nat) (t : Table)           -- Put snap.zng
  | putx (pos : Nat)                         -- PutIfNotExists entry at+1
  | putHead (n : Nat)                       -- Put HEAD n
  deriving DecidableEq, Repr

inductive EvOp where
  | get | put | putx | del | delp
  | create | createx | write      -- create-then-fill puts (StoreFill.lean): truncate/create, exclusive create, fill
  deriving DecidableEq, Repr

inductive EvRes where
  | ok | notfound | exists
  | empty                         -- a file read between its creation and its filling
  deriving DecidableEq, Repr

/-- One storage operation as seen by the engine: op, path, result, value read or written. -/
structure Ev where
  op : EvOp
  path : Path
  res : EvRes
  val : Option SVal
  deriving DecidableEq, Repr

inductive JOut where
  | cont (s : Store) (c : JCache) (k : JKind) (pc : JPc) (ev : Ev)
  | done (s : Store) (c : JCache) (r : Res) (ev : Ev)

/-- End of `load`: a plain load is finished; a commit evaluates its constraint under the
    table just loaded and either fails or goes on to `CommitAt(cache.at)`. -/
def afterLoad (s : Store) (c : JCache) (k : JKind) (ev : Ev) : JOut :=
  match k with
  | .load => .done s c .ok ev
  | .commit op _ => match op.check c.table with
    | some err => .done s c err ev
    | none => .cont s c k (.putx c.pos) ev

def getEv (s : Store) (p : Path) : Ev :=
  match s p with
  | some v => ⟨.get, p, .ok, some v⟩
  | none => ⟨.get, p, .notfound, none⟩

/-- One storage operation of a journal procedure on journal `j` using cache `c`. -/
def jstep (s : Store) (j : Nat) (c : JCache) (k : JKind) : JPc → JOut
  | .rdHead =>
    let ev := getEv s (.head j)
    match s (.head j) with
    | some (.num h) =>
      if h = c.pos then afterLoad s c k ev
      else if h = 0 then .done s c .io ev
      else .cont s c k (.rdSnap h) ev
    | _ => .done s c .io ev
  | .rdSnap h =>
    let ev := getEv s (.snap j)
    match s (.snap j) with
    | some (.jsnap a t) =>
      -- the reader starts at the snapshot position (re-reading entry a); a snapshot newer than
      -- the HEAD just read yields an empty reader: the newer table is cached under position h
      if a ≤ h then .cont s c k (.rdEnt h a t a) ev
      else afterLoad s ⟨h, t⟩ k ev
    | none => .cont s c k (.rdTail h) ev
    | _ => .done s c .io ev
  | .rdTail h =>
    let ev := getEv s (.tail j)
    match s (.tail j) with
    | some (.tailv id _) => .cont s c k (.rdEnt h id [] 0) ev
    | _ => .done s c .io ev
  | .rdEnt h n t a =>
    let ev := getEv s (.ent j n)
    match s (.ent j n) with
    | some (.entry acts) =>
      match applyActs t acts with
      | none => .done s c .io ev
      | some t' =>
        if n < h then .cont s c k (.rdEnt h (n + 1) t' a) ev
        else
          let c' : JCache := ⟨h, t'⟩
          if h - a > snapEvery then .cont s c' k (.putSnap h t') ev
          else afterLoad s c' k ev
    | _ => .done s c .io ev
  | .putSnap h t =>
    let v := SVal.jsnap h t
    afterLoad (s.put (.snap j) v) c k ⟨.put, .snap j, .ok, some v⟩
  | .putx pos =>
    match k with
    | .load => .done s c .io ⟨.putx, .ent j (pos + 1), .exists, none⟩   -- not a state of `load`
    | .commit op attempt =>
      let v := SVal.entry op.acts
      match s (.ent j (pos + 1)) with
      | some _ =>
        let ev : Ev := ⟨.putx, .ent j (pos + 1), .exists, some v⟩
        if attempt + 1 < maxRetries then .cont s c (.commit op (attempt + 1)) .rdHead ev
        else .done s c .retries ev
      | none =>
        .cont (s.put (.ent j (pos + 1)) v) c k (.putHead (pos + 1)) ⟨.putx, .ent j (pos + 1), .ok, some v⟩
  | .putHead n =>
    let v := SVal.num n
    .done (s.put (.head j) v) ⟨0, c.table⟩ .ok ⟨.put, .head j, .ok, some v⟩

end Zed.Store
