package main

// meta: the real lister order, slicer partitions, scatter+merge and partial aggregation
// against the Lean model (driver protocol: lean/Zed/Drv/C08.lean).

import (
	"context"
	"encoding/hex"
	"encoding/json"
	"fmt"
	"math/rand"
	"sort"
	"strconv"
	"strings"
	"time"
	. "verifharness/hlib"

	zed "github.com/brimdata/super"
	"github.com/brimdata/super/compiler"
	"github.com/brimdata/super/runtime"
	"github.com/brimdata/super/zson"
)

// queryVals runs a lake query and returns copies of the output values.
func queryVals(l *TLake, q string, par int) (out []zed.Value, err error) {
	err, _ = Protect(func() error {
		ctx, cancel := context.WithTimeout(context.Background(), 300*time.Second)
		defer cancel()
		ast, _, err := compiler.Parse(q)
		if err != nil {
			return err
		}
		rctx := runtime.NewContext(ctx, zed.NewContext())
		defer rctx.Cancel()
		query, err := compiler.NewLakeCompiler(l.Root).NewLakeQuery(rctx, ast, par, nil)
		if err != nil {
			return err
		}
		defer query.Pull(true)
		for {
			b, err := query.Pull(false)
			if err != nil {
				return err
			}
			if b == nil {
				return nil
			}
			for _, v := range b.Values() {
				out = append(out, v.Copy())
			}
			b.Unref()
		}
	})
	return out, err
}

type objInfo struct {
	ID         string // hex of the ksuid
	MinT, MaxT string // ZSON text
	MinB, MaxB string // hex of the value bytes ("N" = null)
	Count      int
}

func fieldText(v *zed.Value) (string, string) {
	if v == nil || v.IsNull() {
		return "null", "N"
	}
	return zson.FormatValue(v.Under()), hex.EncodeToString(v.Under().Bytes())
}

func objOf(v zed.Value) objInfo {
	u := v.Under()
	var o objInfo
	if id := u.Deref("id"); id != nil {
		o.ID = hex.EncodeToString(id.Under().Bytes())
	}
	o.MinT, o.MinB = fieldText(u.Deref("min"))
	o.MaxT, o.MaxB = fieldText(u.Deref("max"))
	if cnt := u.Deref("count"); cnt != nil && zed.IsUnsigned(cnt.Under().Type().ID()) {
		o.Count = int(cnt.Under().Uint())
	}
	return o
}

type partInfo struct {
	MinT, MaxT string
	Objs       []objInfo
}

func partOf(v zed.Value) partInfo {
	u := v.Under()
	var p partInfo
	p.MinT, _ = fieldText(u.Deref("min"))
	p.MaxT, _ = fieldText(u.Deref("max"))
	if objs := u.Deref("objects"); objs != nil {
		arr := objs.Under()
		inner := zed.InnerType(arr.Type())
		if inner != nil && !arr.IsNull() {
			for it := arr.Iter(); !it.Done(); {
				p.Objs = append(p.Objs, objOf(zed.NewValue(inner, it.Next())))
			}
		}
	}
	return p
}

// ---- this harness's own key order: numbers by value < strings < null/missing ----------------

type keyParsed struct {
	class int // 0 number, 1 string, 2 null/missing
	num   float64
	str   string
}

func parseKey(t string) (keyParsed, bool) {
	switch {
	case t == "null" || t == "" || t == "-" || t == `error("missing")`:
		return keyParsed{class: 2}, true
	case strings.HasPrefix(t, `"`) && strings.HasSuffix(t, `"`) && len(t) >= 2:
		return keyParsed{class: 1, str: t[1 : len(t)-1]}, true
	}
	if i := strings.IndexByte(t, '('); i > 0 {
		t = t[:i]
	}
	f, err := strconv.ParseFloat(t, 64)
	if err != nil {
		return keyParsed{}, false
	}
	return keyParsed{class: 0, num: f}, true
}

func cmpKP(a, b keyParsed) int {
	if a.class != b.class {
		if a.class < b.class {
			return -1
		}
		return 1
	}
	switch a.class {
	case 0:
		if a.num < b.num {
			return -1
		} else if a.num > b.num {
			return 1
		}
	case 1:
		return strings.Compare(a.str, b.str)
	}
	return 0
}

type ranker struct{ vals []keyParsed }

func newRanker(texts []string) (*ranker, error) {
	var vals []keyParsed
	for _, t := range texts {
		k, ok := parseKey(t)
		if !ok {
			return nil, fmt.Errorf("unparseable key %q", t)
		}
		vals = append(vals, k)
	}
	sort.Slice(vals, func(i, j int) bool { return cmpKP(vals[i], vals[j]) < 0 })
	var d []keyParsed
	for _, v := range vals {
		if len(d) == 0 || cmpKP(d[len(d)-1], v) != 0 {
			d = append(d, v)
		}
	}
	return &ranker{d}, nil
}

func (r *ranker) rank(t string) (int, bool) {
	k, ok := parseKey(t)
	if !ok {
		return 0, false
	}
	i := sort.Search(len(r.vals), func(i int) bool { return cmpKP(r.vals[i], k) >= 0 })
	if i < len(r.vals) && cmpKP(r.vals[i], k) == 0 {
		return i, true
	}
	return 0, false
}

// ---- gather (real code; may run concurrently) ------------------------------------------------

type metaData struct {
	spec     *poolSpec
	n        int
	err      error
	objs     []objInfo
	parts    []partInfo
	logIDs   []string // object ids in commit (= load) order
	yieldK   []string
	yieldErr error
	sumVals  []zed.Value
	sumErr   error
}

func gatherMeta(spec *poolSpec, n int, intOnly bool) *metaData {
	md := &metaData{spec: spec, n: n}
	l, name, _, err := buildPool(spec)
	if err != nil {
		md.err = err
		return md
	}
	defer l.Close()
	ovals, err := queryVals(l, "from "+name+"@main:objects", 1)
	if err != nil {
		md.err = err
		return md
	}
	for _, v := range ovals {
		md.objs = append(md.objs, objOf(v))
	}
	pvals, err := queryVals(l, "from "+name+"@main:partitions", 1)
	if err != nil {
		md.err = err
		return md
	}
	for _, v := range pvals {
		md.parts = append(md.parts, partOf(v))
	}
	lvals, err := queryVals(l, "from "+name+"@main:rawlog", 1)
	if err != nil {
		md.err = err
		return md
	}
	for _, v := range lvals {
		u := v.Under()
		if o := u.Deref("object"); o != nil {
			md.logIDs = append(md.logIDs, objOf(*o).ID)
		}
	}
	if intOnly {
		var recs []outRec
		recs, md.yieldErr, _ = queryRecs(l, "from "+name+" | where id >= 0 | yield "+spec.Key, n, nil, nil)
		md.yieldK = texts(recs)
		md.sumVals, md.sumErr = queryVals(l, "from "+name+" | where id >= 0 | summarize s:=sum(v), c:=count()", n)
	}
	return md
}

// ---- compare with the model (sequential) ------------------------------------------------------

type metaReplay struct {
	Check string    `json:"check"`
	What  string    `json:"what"`
	Pool  *poolSpec `json:"pool"`
	N     int       `json:"parallelism"`
	Req   string    `json:"model_request,omitempty"`
	Model string    `json:"model_answer,omitempty"`
	Real  string    `json:"real,omitempty"`
}

func compareMeta(c *Ctx, md *metaData, r *rand.Rand, intOnly bool) {
	spec := md.spec
	ord := "asc"
	descBit := "0"
	if spec.Desc {
		ord, descBit = "desc", "1"
	}
	fail := func(what, msg, req, model, real string) {
		c.Fail("correspondence", "C08:meta:"+what, msg, metaReplay{Check: "meta", What: what, Pool: spec, N: md.n, Req: req, Model: model, Real: real})
	}
	if md.err != nil {
		fail("setup", "cannot build/query pool: "+md.err.Error(), "", "", "")
		return
	}
	c.Eval(fmt.Sprintf("meta:%s:%s:%s:%s:%d", spec.Class, ord, spec.Key, spec.Shape, len(spec.Recs)))
	c.Stat("meta:pools")
	c.Stat("meta:keyclass:" + spec.Class)
	c.Stat("meta:order:" + ord)
	c.Stat("meta:shape:" + spec.Shape)
	c.Stat("meta:partitions:" + bucket(len(md.parts)))
	c.Stat("meta:objects:" + bucket(len(md.objs)))

	// ranks and byte identities
	var keyTexts []string
	for _, l := range spec.Recs {
		for _, x := range l {
			keyTexts = append(keyTexts, x.K)
		}
	}
	rk, err := newRanker(keyTexts)
	if err != nil {
		fail("rank", err.Error(), "", "", "")
		return
	}
	byteID := map[string]int{}
	bid := func(b string) int {
		if _, ok := byteID[b]; !ok {
			byteID[b] = len(byteID)
		}
		return byteID[b]
	}
	objID := map[string]int{}
	oid := func(id string) int {
		if _, ok := objID[id]; !ok {
			objID[id] = len(objID)
		}
		return objID[id]
	}
	var flat []objInfo
	for _, p := range md.parts {
		flat = append(flat, p.Objs...)
	}
	for _, o := range flat {
		oid(o.ID)
	}
	rankOf := func(t string) (int, bool) {
		x, ok := rk.rank(t)
		if !ok {
			fail("rank", fmt.Sprintf("object/partition bound %s is not a key value of any generated record", t), "", "", t)
		}
		return x, ok
	}
	objAtom := func(o objInfo, withIDs bool) (string, bool) {
		mn, ok1 := rankOf(o.MinT)
		mx, ok2 := rankOf(o.MaxT)
		if !ok1 || !ok2 {
			return "", false
		}
		if withIDs {
			return fmt.Sprintf("(%d %d %d %d %d)", oid(o.ID), mn, mx, bid(o.MinB), bid(o.MaxB)), true
		}
		return fmt.Sprintf("(%d %d %d)", oid(o.ID), mn, mx), true
	}
	atoms := func(os []objInfo, withIDs bool) (string, bool) {
		var xs []string
		for _, o := range os {
			a, ok := objAtom(o, withIDs)
			if !ok {
				return "", false
			}
			xs = append(xs, a)
		}
		return strings.Join(xs, " "), true
	}
	m := c.Model()

	// (d) exactly once
	{
		var a, b []string
		for _, o := range md.objs {
			a = append(a, o.ID)
		}
		for _, o := range flat {
			b = append(b, o.ID)
		}
		c.Res.ModelCases++
		if !SameMultiset(a, b) || len(distinctSet(b)) != len(b) || len(a) != len(spec.Recs) {
			fail("exactly-once", fmt.Sprintf("%d loads, :objects lists %d objects, the partitions hold %d (distinct %d)", len(spec.Recs), len(a), len(b), len(distinctSet(b))), "", "", fmt.Sprint(b))
		}
	}
	// (a) lister order
	listerOK := true
	{
		type fk struct{ t, b string }
		from := func(o objInfo) (fk, int) {
			t, b := o.MinT, o.MinB
			if spec.Desc {
				t, b = o.MaxT, o.MaxB
			}
			x, _ := rk.rank(t)
			return fk{t, b}, x
		}
		byRank := map[int]string{}
		byBytes := map[string]string{}
		for _, o := range md.objs {
			f, x := from(o)
			if t, ok := byRank[x]; ok && t != f.t {
				listerOK = false
			}
			byRank[x] = f.t
			if t, ok := byBytes[f.b]; ok && t != f.t {
				listerOK = false
			}
			byBytes[f.b] = f.t
		}
	}
	if !listerOK {
		c.Stat("meta:lister-skipped-mixed-type-ties")
	} else {
		for _, order := range [][]objInfo{md.objs, flat} {
			a, ok := atoms(order, true)
			if !ok {
				return
			}
			req := "(C08 lister " + descBit + " " + a + ")"
			ans := m.Call(req)
			c.Res.ModelCases++
			if ans != "ok" {
				fail("lister", fmt.Sprintf("real object order has an inversion by the model's sortObjects order at index %s (%s pool)", ans, ord), req, ans, "")
			}
		}
	}
	// (b) slice
	{
		a, ok := atoms(flat, false)
		if !ok {
			return
		}
		req := "(C08 slice " + a + ")"
		ans := m.Call(req)
		var ps []string
		for _, p := range md.parts {
			var ids []string
			for _, o := range p.Objs {
				ids = append(ids, strconv.Itoa(oid(o.ID)))
			}
			ps = append(ps, "("+strings.Join(ids, " ")+")")
		}
		real := "(" + strings.Join(ps, " ") + ")"
		c.Res.ModelCases++
		if ans != real {
			fail("slice", fmt.Sprintf("model slicer over the real object order gives %s, real partitions are %s (%s pool)", ans, real, ord), req, ans, real)
		}
	}
	// (c) span per partition
	{
		var reqs, reals []string
		for _, p := range md.parts {
			a, ok := atoms(p.Objs, false)
			mn, ok1 := rankOf(p.MinT)
			mx, ok2 := rankOf(p.MaxT)
			if !ok || !ok1 || !ok2 {
				return
			}
			reqs = append(reqs, "(C08 span "+a+")")
			reals = append(reals, fmt.Sprintf("%d %d", mn, mx))
		}
		for i, ans := range m.Batch(reqs) {
			c.Res.ModelCases++
			if ans != reals[i] {
				fail("span", fmt.Sprintf("partition %d: model span %s, real min/max ranks %s (%s..%s)", i, ans, reals[i], md.parts[i].MinT, md.parts[i].MaxT), reqs[i], ans, reals[i])
			}
		}
	}
	if !intOnly {
		return
	}
	// bookkeeping: object id -> load index (commit order = load order)
	loadOf := map[string]int{}
	if len(md.logIDs) != len(spec.Recs) {
		fail("bookkeeping", fmt.Sprintf("%d Add actions in the log for %d loads", len(md.logIDs), len(spec.Recs)), "", "", "")
		return
	}
	for i, id := range md.logIDs {
		loadOf[id] = i
	}
	for _, o := range md.objs {
		if i, ok := loadOf[o.ID]; !ok || o.Count != len(spec.Recs[i]) {
			fail("bookkeeping", "object does not match its load", "", "", o.ID)
			return
		}
	}
	sign := 1
	if spec.Desc {
		sign = -1
	}
	sched := func(items int) string {
		n := items + r.Intn(items+3)
		var xs []string
		// random schedule; sometimes bursty (one leg takes several items in a row)
		leg := r.Intn(md.n)
		for i := 0; i < n; i++ {
			if r.Intn(3) != 0 {
				leg = r.Intn(md.n)
			}
			xs = append(xs, strconv.Itoa(leg))
		}
		return "(" + strings.Join(xs, " ") + ")"
	}
	ints := func(xs []int) string {
		var s []string
		for _, x := range xs {
			s = append(s, strconv.Itoa(x))
		}
		return "(" + strings.Join(s, " ") + ")"
	}
	// (e) scatter + merge
	if md.yieldErr != nil {
		fail("scatter", "real query failed: "+md.yieldErr.Error(), "", "", "")
	} else {
		var items []string
		for _, p := range md.parts {
			var ks []int
			for _, o := range p.Objs {
				for _, x := range spec.Recs[loadOf[o.ID]] {
					k, _ := strconv.Atoi(x.K)
					ks = append(ks, sign*k)
				}
			}
			sort.Ints(ks)
			items = append(items, ints(ks))
		}
		var real []int
		for _, t := range md.yieldK {
			k, err := strconv.Atoi(t)
			if err != nil {
				fail("scatter", "unexpected key in real output: "+t, "", "", t)
				return
			}
			real = append(real, sign*k)
		}
		req := fmt.Sprintf("(C08 scatter %d %s %s)", md.n, sched(len(items)), strings.Join(items, " "))
		ans := m.Call(req)
		c.Res.ModelCases++
		c.Stat(fmt.Sprintf("meta:scatter:n=%d", md.n))
		want := "merged=" + ints(real)
		if !strings.HasPrefix(ans, "remaining=0 ") || !strings.HasSuffix(ans, " "+want) {
			fail("scatter", fmt.Sprintf("model scatter/merge under a random schedule differs from the real `where id>=0 | yield %s` at parallelism %d (%s pool): model %s, real %s", spec.Key, md.n, ord, short([]string{ans}), short([]string{want})), req, ans, want)
		}
	}
	// (f) partial sums
	if md.sumErr != nil || len(md.sumVals) != 1 {
		fail("partials", fmt.Sprintf("real query failed: %v (%d values)", md.sumErr, len(md.sumVals)), "", "", "")
	} else {
		var items []string
		for _, o := range md.objs {
			var vs []int
			for _, x := range spec.Recs[loadOf[o.ID]] {
				vs = append(vs, x.VN)
			}
			items = append(items, ints(vs))
		}
		v := md.sumVals[0]
		real := fmt.Sprintf("%s %s", tieAtom(v.Deref("s")), tieAtom(v.Deref("c")))
		req := fmt.Sprintf("(C08 partials %d %s %s)", md.n, sched(len(items)), strings.Join(items, " "))
		ans := m.Call(req)
		c.Res.ModelCases++
		f := strings.Fields(ans)
		model := ans
		if len(f) == 3 && f[0] == "remaining=0" {
			model = fmt.Sprintf("n:%s n:%s", f[1], f[2])
		}
		if model != real {
			fail("partials", fmt.Sprintf("model partial sum/count %q differs from real `summarize s:=sum(v), c:=count()` at parallelism %d: %s", ans, md.n, real), req, ans, real)
		}
	}
}

func runMeta(c *Ctx) {
	n := c.N(8, 120)
	type job struct {
		spec    *poolSpec
		par     int
		intOnly bool
		md      *metaData
	}
	jobs := make([]*job, n)
	for i := range jobs {
		r := rand.New(rand.NewSource(c.Rng.Int63()))
		j := &job{intOnly: i%2 == 0, par: []int{2, 3, 8, 16}[r.Intn(4)]}
		j.spec = genPool(r, j.intOnly)
		jobs[i] = j
	}
	ParallelDo(n, 12, func(i int) {
		jobs[i].md = gatherMeta(jobs[i].spec, jobs[i].par, jobs[i].intOnly)
	})
	r := rand.New(rand.NewSource(c.Rng.Int63()))
	for _, j := range jobs {
		compareMeta(c, j.md, r, j.intOnly)
	}
}

func replayMeta(c *Ctx, raw json.RawMessage) bool {
	var r metaReplay
	if err := json.Unmarshal(raw, &r); err != nil || r.Pool == nil || r.Check != "meta" {
		return false
	}
	intOnly := r.Pool.Class == "int" && !r.Pool.VFloat
	if r.N < 2 {
		r.N = 3
	}
	md := gatherMeta(r.Pool, r.N, intOnly)
	compareMeta(c, md, rand.New(rand.NewSource(c.Seed)), intOnly)
	return true
}
