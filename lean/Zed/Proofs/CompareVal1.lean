import Zed.Proofs.FastPath
import Zed.Proofs.CompareNum
import Zed.Proofs.CompareTypesTrans
namespace Zed
open Zed.Ord

/-- the class a value is compared in: null, number, or its underlying type -/
inductive VK where
  | nullv
  | num
  | ty (u : Ty)
  deriving DecidableEq

def vk (v : Val) : VK :=
  if v.isNull then .nullv else if v.ty.isNumber then .num else .ty v.ty.under

def cmpVK (nm : Bool) : VK → VK → Ordering
  | .nullv, .nullv => .eq
  | .nullv, _ => if nm then .gt else .lt
  | _, .nullv => if nm then .lt else .gt
  | .num, .num => .eq
  | .num, .ty _ => .lt
  | .ty _, .num => .gt
  | .ty u, .ty u' => cmpS u u'

def within (nm : Bool) (a b : Val) : Ordering :=
  match vk a with
  | .nullv => .eq
  | .num => match a.num?, b.num? with
    | some x, some y => cmpNum x y
    | _, _ => .eq
  | .ty _ => cmpSameOf nm a b

theorem isNumber_under {t : Ty} (h : t.isNumber = true) : ∃ i, t.under = .prim i ∧ isNumberId i = true := by
  unfold Ty.isNumber Ty.primId? at h
  cases hu : t.under <;> simp [hu] at h
  exact ⟨_, rfl, h⟩

theorem not_isNumber_under {t : Ty} (h : t.isNumber = false) : ∀ i, t.under = .prim i → isNumberId i = false := by
  intro i hu
  unfold Ty.isNumber Ty.primId? at h
  simpa [hu] using h

/-- a number type is below every non-number type -/
theorem cmpTy_number_lt (s t : Ty) (hs : s.isNumber = true) (ht : t.isNumber = false) : cmpTy s t = .lt := by
  obtain ⟨i, hu, hi⟩ := isNumber_under hs
  have hn := not_isNumber_under ht
  have hne : s.under ≠ t.under := by
    intro e; rw [hu] at e; have := hn i e.symm; rw [hi] at this; exact absurd this (by simp)
  rw [cmpTy_def, if_neg hne, hu]
  have hv := Ty.under_not_named t
  generalize t.under = v at *
  cases v with
  | prim j =>
    have hj := hn j rfl
    simp only [cmpS_prim]
    apply Nat.compare_eq_lt.mpr
    simp [isNumberId, evalBounds, evalBound, Generated.C06.isNumber] at hi hj
    omega
  | named => simp [Ty.isNamed] at hv
  | _ => rw [cmpS_kind _ _ rfl rfl (by simp)]; exact Nat.compare_eq_lt.mpr (by simp)

theorem cmpTy_lt_number (s t : Ty) (hs : s.isNumber = false) (ht : t.isNumber = true) : cmpTy s t = .gt := by
  rw [cmpTy_swap t s, cmpTy_number_lt t s ht hs]; rfl

theorem cmpVal_classified (nm : Bool) (a b : Val) :
    cmpVal nm a b = if vk a = vk b then within nm a b else cmpVK nm (vk a) (vk b) := by
  rw [cmpVal_eq]
  unfold cmpCore vk within
  by_cases ha : a.isNull = true <;> by_cases hb : b.isNull = true
  · simp [ha, hb, vk, ordOfInt, Generated.C06.bothNull]
  · cases nm <;> simp [ha, hb, vk, cmpVK, ordOfInt, Generated.C06.nullA] <;> split <;> simp_all [cmpVK]
  · cases nm <;> simp [ha, hb, vk, cmpVK, ordOfInt, Generated.C06.nullB] <;> split <;> simp_all [cmpVK]
  · simp only [ha, hb, Bool.false_and, Bool.false_eq_true, if_false, vk]
    by_cases na : a.ty.isNumber = true <;> by_cases nb : b.ty.isNumber = true
    · simp only [na, nb, Bool.and_self, if_true, ha]
      cases a.num? <;> cases b.num? <;> rfl
    · simp [na, nb, cmpVK]
      have := cmpTy_number_lt a.ty b.ty na (by simpa using nb)
      obtain ⟨i, hu, hi⟩ := isNumber_under na
      have hne : a.ty.under ≠ b.ty.under := by
        intro e; rw [hu] at e
        have := not_isNumber_under (by simpa using nb) i e.symm
        rw [hi] at this; exact absurd this (by simp)
      simp [hne, this]
    · simp [na, nb, cmpVK]
      have := cmpTy_lt_number a.ty b.ty (by simpa using na) nb
      obtain ⟨i, hu, hi⟩ := isNumber_under nb
      have hne : a.ty.under ≠ b.ty.under := by
        intro e; rw [hu] at e
        have := not_isNumber_under (by simpa using na) i e
        rw [hi] at this; exact absurd this (by simp)
      simp [hne, this]
    · simp only [na, nb, Bool.false_and, Bool.false_eq_true, if_false, VK.ty.injEq, ne_eq]
      by_cases hu : a.ty.under = b.ty.under
      · simp [hu, ha, na, vk]
      · simp only [hu, not_false_eq_true, if_true, if_false, cmpVK]
        rw [cmpTy_def, if_neg hu]

end Zed
namespace Zed
open Zed.Ord

def VKok : VK → Prop
  | .ty u => u.isNamed = false
  | _ => True

theorem vk_ok (v : Val) : VKok (vk v) := by
  unfold vk
  split
  · trivial
  · split
    · trivial
    · exact Ty.under_not_named _

theorem cmpVK_eq_iff (nm : Bool) : (k k' : VK) → VKok k → VKok k' → (cmpVK nm k k' = .eq ↔ k = k')
  | .ty u, .ty u', h, h' => by simp [cmpVK, cmpS_eq_iff u u' h h']
  | .nullv, .nullv, _, _ => by simp [cmpVK]
  | .nullv, .num, _, _ | .nullv, .ty _, _, _ | .num, .nullv, _, _ | .ty _, .nullv, _, _ => by cases nm <;> simp [cmpVK]
  | .num, .num, _, _ => by simp [cmpVK]
  | .num, .ty _, _, _ | .ty _, .num, _, _ => by simp [cmpVK]

theorem cmpVK_swap (nm : Bool) : (k k' : VK) → VKok k → VKok k' → cmpVK nm k' k = (cmpVK nm k k').swap
  | .ty u, .ty u', h, h' => by simp only [cmpVK]; exact cmpS_swap u u' h h'
  | .nullv, .nullv, _, _ => rfl
  | .nullv, .num, _, _ | .nullv, .ty _, _, _ | .num, .nullv, _, _ | .ty _, .nullv, _, _ => by cases nm <;> simp [cmpVK, Ordering.swap]
  | .num, .num, _, _ => rfl
  | .num, .ty _, _, _ | .ty _, .num, _, _ => rfl

theorem cmpVK_STr (nm : Bool) (k1 k2 k3 : VK) (h1 : VKok k1) (h2 : VKok k2) (h3 : VKok k3) :
    STr (cmpVK nm k1 k2) (cmpVK nm k2 k3) (cmpVK nm k1 k3) := by
  cases k1 <;> cases k2 <;> cases k3 <;> cases nm <;> simp only [cmpVK, if_true, if_false, Bool.false_eq_true] <;>
    first
    | decide
    | (rename_i u u' u''
       have := cmpTy_STr u u' u''
       rwa [cmpTy_eq_cmpS u u' h1 h2, cmpTy_eq_cmpS u' u'' h2 h3, cmpTy_eq_cmpS u u'' h1 h3] at this)
    | (rename_i u u'; cases cmpS u u' <;> decide)

end Zed
