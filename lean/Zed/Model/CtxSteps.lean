import Zed.Model.TyContext
/-!
  The context under concurrency: the ATOMIC STEPS of its clients.

  Every `Lookup*` method of `zed.Context` is one critical section of `c.mu`; `LookupByValue` is
  three things: a critical section that probes `toType`, then `DecodeTypeValue` *outside* the
  mutex — a recursive descent over the bytes whose only accesses to the context are calls of the
  `Lookup*` methods (one critical section each, `LookupTypeDef` for a NameRef) — and a final
  critical section that stores the caller's bytes as a key of the decoded type (T1: the lock
  shape of every method and the calls of `DecodeTypeValue` are regenerated, `lockShape`).

  `DecodeTypeValue`'s control flow depends on the bytes only (results of the calls flow into later
  calls as arguments, and a failed call ends the decoding), so a decoding thread is: a program of
  instructions compiled from the bytes (`compileTV`, the same descent as `decodeTV`) run on a
  thread-local stack of types, one instruction = one critical section (`stepI`).

  `runSched` interleaves any number of such threads and of client threads (histories of direct
  `Lookup*` calls, `Ctx.exec`) under an arbitrary schedule.
-/
namespace Zed
open Zcode Generated.C05

inductive Instr where
  | prim (id : Nat)
  | array
  | set
  | error
  | map
  | union (n : Nat)
  | enum (syms : List Name)
  | record (names : List Name)
  | named (n : Name)
  | ref (n : Name)
  deriving Repr, DecidableEq

namespace Ctx

/-- the `n` most recent results, oldest first, and the rest of the stack -/
def popN (n : Nat) (st : List Ty) : Option (List Ty × List Ty) :=
  if n ≤ st.length then some ((st.take n).reverse, st.drop n) else none

/-- one instruction of a decoding thread: the context afterwards and the thread's stack, `none` =
    the call failed and `DecodeTypeValue` returns `(nil, nil)` -/
def stepI (c : Ctx) (st : List Ty) : Instr → Ctx × Option (List Ty)
  | .prim id =>
    match primitiveByID? id with
    | some t => (c, some (t :: st))
    | none => (c, none)
  | .array =>
    match st with
    | t :: st => let r := c.lookupArray t; (r.2, some (r.1 :: st))
    | [] => (c, none)
  | .set =>
    match st with
    | t :: st => let r := c.lookupSet t; (r.2, some (r.1 :: st))
    | [] => (c, none)
  | .error =>
    match st with
    | t :: st => let r := c.lookupError t; (r.2, some (r.1 :: st))
    | [] => (c, none)
  | .map =>
    match st with
    | v :: k :: st => let r := c.lookupMap k v; (r.2, some (r.1 :: st))
    | _ => (c, none)
  | .union n =>
    match popN n st with
    | some (ts, st) => let r := c.lookupUnion ts; (r.2, some (r.1 :: st))
    | none => (c, none)
  | .enum syms => let r := c.lookupEnum syms; (r.2, some (r.1 :: st))
  | .record names =>
    match popN names.length st with
    | some (ts, st) =>
      match c.lookupRecord (names.zip ts) with
      | (some t, c) => (c, some (t :: st))
      | (none, c) => (c, none)
    | none => (c, none)
  | .named n =>
    match st with
    | t :: st =>
      match c.lookupNamed n t with
      | (some nt, c) => (c, some (nt :: st))
      | (none, c) => (c, none)
    | [] => (c, none)
  | .ref n =>
    match c.lookupTypeDef n with
    | some t => (c, some (t :: st))
    | none => (c, none)

/-- a program run by one thread alone; stops at the first failed call -/
def runI : List Instr → Ctx → List Ty → Ctx × Option (List Ty)
  | [], c, st => (c, some st)
  | i :: is, c, st =>
    match c.stepI st i with
    | (c, some st) => runI is c st
    | (c, none) => (c, none)

/-! #### the program of a type value: `DecodeTypeValue` with the context calls emitted instead of
    made.  The second component is the rest of the bytes, `none` = the bytes are malformed at this
    point (the instructions emitted so far have been executed by then). -/

mutual
def compileTV : Nat → Bytes → List Instr × Option Bytes
  | 0, _ => ([], none)
  | _, [] => ([], none)
  | f+1, id :: tv =>
    let id := id.toNat
    if id = tvNameDef then
      match decodeName tv with
      | none => ([], none)
      | some (name, tv) =>
        match compileTV f tv with
        | (is, none) => (is, none)
        | (is, some tv) => (is ++ [.named name], some tv)
    else if id = tvNameRef then
      match decodeName tv with
      | none => ([], none)
      | some (name, tv) => ([.ref name], some tv)
    else if id = tvRecord then
      match decodeLength tv with
      | none => ([], none)
      | some (n, tv) =>
        if n > maxRecordFields then ([], none) else
        match compileFields f n tv with
        | (is, none) => (is, none)
        | (is, some (names, tv)) => (is ++ [.record names], some tv)
    else if id = tvArray then
      match compileTV f tv with
      | (is, none) => (is, none)
      | (is, some tv) => (is ++ [.array], some tv)
    else if id = tvSet then
      match compileTV f tv with
      | (is, none) => (is, none)
      | (is, some tv) => (is ++ [.set], some tv)
    else if id = tvMap then
      match compileTV f tv with
      | (is, none) => (is, none)
      | (is, some tv) =>
        match compileTV f tv with
        | (is2, none) => (is ++ is2, none)
        | (is2, some tv) => (is ++ is2 ++ [.map], some tv)
    else if id = tvUnion then
      match decodeLength tv with
      | none => ([], none)
      | some (n, tv) =>
        if n > maxUnionTypes then ([], none) else
        match compileTys f n tv with
        | (is, none) => (is, none)
        | (is, some tv) => (is ++ [.union n], some tv)
    else if id = tvEnum then
      match decodeLength tv with
      | none => ([], none)
      | some (n, tv) =>
        if n > maxEnumSymbols then ([], none) else
        match decodeSyms n tv with
        | none => ([], none)
        | some (syms, tv) => ([.enum syms], some tv)
    else if id = tvError then
      match compileTV f tv with
      | (is, none) => (is, none)
      | (is, some tv) => (is ++ [.error], some tv)
    else
      match primitiveByID? id with
      | none => ([], none)
      | some _ => ([.prim id], some tv)
def compileFields : Nat → Nat → Bytes → List Instr × Option (List Name × Bytes)
  | _, 0, tv => ([], some ([], tv))
  | 0, _+1, _ => ([], none)
  | f+1, n+1, tv =>
    match decodeName tv with
    | none => ([], none)
    | some (name, tv) =>
      match compileTV f tv with
      | (is, none) => (is, none)
      | (is, some tv) =>
        match compileFields f n tv with
        | (is2, none) => (is ++ is2, none)
        | (is2, some (names, tv)) => (is ++ is2, some (name :: names, tv))
def compileTys : Nat → Nat → Bytes → List Instr × Option Bytes
  | _, 0, tv => ([], some tv)
  | 0, _+1, _ => ([], none)
  | f+1, n+1, tv =>
    match compileTV f tv with
    | (is, none) => (is, none)
    | (is, some tv) =>
      match compileTys f n tv with
      | (is2, none) => (is ++ is2, none)
      | (is2, some tv) => (is ++ is2, some tv)
end

/-- the program of `DecodeTypeValue(tv)` and whether the bytes were well-formed to the end -/
def prog (tv : Bytes) : List Instr × Bool :=
  let r := compileTV (tv.length + 1) tv
  (r.1, r.2.isSome)

/-! #### a `LookupByValue(tv)` thread -/

inductive DPhase where
  | probe
  | run (is : List Instr) (st : List Ty) (parsed : Bool)
  | done (r : Option Ty)
  deriving Repr

structure DThread where
  tv : Bytes
  ph : DPhase
  deriving Repr

def startD (tv : Bytes) : DThread := { tv := tv, ph := .probe }

/-- one atomic step of the thread -/
def stepD (c : Ctx) (d : DThread) : Ctx × DThread :=
  match d.ph with
  | .probe =>
    match c.toType.lookup d.tv with
    | some t => (c, { d with ph := .done (some t) })
    | none => let p := prog d.tv; (c, { d with ph := .run p.1 [] p.2 })
  | .run [] st parsed =>
    if parsed then
      match st with
      | t :: _ => (c.storeByValue d.tv t, { d with ph := .done (some t) })
      | [] => (c, { d with ph := .done none })
    else (c, { d with ph := .done none })
  | .run (i :: is) st parsed =>
    match c.stepI st i with
    | (c, some st) => (c, { d with ph := .run is st parsed })
    | (c, none) => (c, { d with ph := .done none })
  | .done _ => (c, d)

/-- the thread running alone for `n` steps -/
def runD : Nat → Ctx → DThread → Ctx × DThread
  | 0, c, d => (c, d)
  | n+1, c, d => let r := c.stepD d; runD n r.1 r.2

/-! #### threads and schedules -/

/-- the operations of `Op` that are a single critical section -/
def Op.atomic : Op → Bool
  | .byValue _ => false
  | .translate _ => false
  | .typeValue _ => false
  | _ => true

inductive Thread where
  | dec (d : DThread)
  | cli (ops : List Op) (env : Env)
  deriving Repr

def stepT (c : Ctx) : Thread → Ctx × Thread
  | .dec d => let r := c.stepD d; (r.1, .dec r.2)
  | .cli [] env => (c, .cli [] env)
  | .cli (op :: ops) env => let r := c.exec env op; (r.2.2, .cli ops (env ++ [r.1]))

/-- `sched[k]` = the thread that takes the k-th atomic step (a finished or missing thread idles) -/
def runSched : List Nat → Ctx → List Thread → Ctx × List Thread
  | [], c, ths => (c, ths)
  | i :: s, c, ths =>
    match ths[i]? with
    | none => runSched s c ths
    | some th => let r := c.stepT th; runSched s r.1 (ths.set i r.2)

/-! #### programs whose result does not depend on the context

  An instruction that cannot fail and does not read `typedefs`: valid primitive id, names within
  the decoder's limits, a valid type name, no duplicate field name, no NameRef. -/

def Instr.ok : Instr → Bool
  | .prim id => (primitiveByID? id).isSome
  | .array => true
  | .set => true
  | .error => true
  | .map => true
  | .union n => decide (n ≤ maxUnionTypes)
  | .enum syms => syms.all nameOk && decide (syms.length ≤ maxEnumSymbols)
  | .record names => names.all nameOk && decide (names.length ≤ maxRecordFields) && !hasDup names
  | .named n => validTypeName n && nameOk n
  | .ref _ => false

/-- the effect of an `ok` instruction on the stack -/
def pureStep (st : List Ty) : Instr → Option (List Ty)
  | .prim id => (primitiveByID? id).map (· :: st)
  | .array => match st with | t :: st => some (.array t :: st) | [] => none
  | .set => match st with | t :: st => some (.set t :: st) | [] => none
  | .error => match st with | t :: st => some (.error t :: st) | [] => none
  | .map => match st with | v :: k :: st => some (.map k v :: st) | _ => none
  | .union n => (popN n st).map fun (ts, st) => .union (Tys.ofList (sortTys ts)) :: st
  | .enum syms => some (.enum syms :: st)
  | .record names => (popN names.length st).map fun (ts, st) => .record (Fields.ofList (names.zip ts)) :: st
  | .named n => match st with | t :: st => some (.named n t :: st) | [] => none
  | .ref _ => none

def pureRun : List Instr → List Ty → Option (List Ty)
  | [], st => some st
  | i :: is, st => match pureStep st i with | some st => pureRun is st | none => none

/-- type values the positive interleaving theorem speaks about: well-formed bytes whose program has
    only `ok` instructions -/
def progOk (tv : Bytes) : Bool := (prog tv).2 && (prog tv).1.all Instr.ok

/-- what `LookupByValue(tv)` returns for such a type value, whatever the context -/
def pureDecode (tv : Bytes) : Option Ty :=
  match pureRun (prog tv).1 [] with
  | some (t :: _) => some t
  | _ => none

end Ctx
end Zed
