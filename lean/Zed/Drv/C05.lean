import Zed.Model.Sexp
import Zed.Model.TyContext
import Zed.Model.CtxSteps
/-!
  Driver glue for C05.

  `(C05 hist <op>…)`        run a creation history on up to 4 model contexts; one answer per op
  `(C05 describe <tvhex>)`  decode a type value in an empty context, print the structure
  `(C05 cmptypes <tv> <tv>)` CompareTypes of two decoded type values (-1/0/1)
  `(C05 typematrix <tv>…)`  the whole CompareTypes matrix, rows separated by `/`
  `(C05 sortunion <tv>…)`   member order LookupTypeUnion gives (indices into the input)
  `(C05 sched (<tv>…) (<thread index>…))`  one `LookupByValue(tv)` thread per type value, run on one
       empty context under the schedule (`Ctx.runSched`); answers
       `<thread>;<thread>;…|<type value of byID[0]> <type value of byID[1]> …` with
       thread = `<progOk 0|1>,<parsed 0|1>,<instr> <instr> …,<running | nil | type value of the result>`
-/
namespace Zed.Drv.C05
open Zed Zed.Sexp

partial def descr : Ty → Sexp
  | .prim id => .list [.atom "prim", .atom (toString id)]
  | .record fs => .list (.atom "record" :: fs.toList.map fun (n, t) => .list [.atom (hexOfBytes n), descr t])
  | .array t => .list [.atom "array", descr t]
  | .set t => .list [.atom "set", descr t]
  | .map k v => .list [.atom "map", descr k, descr v]
  | .union ts => .list (.atom "union" :: ts.toList.map descr)
  | .enum syms => .list (.atom "enum" :: syms.map fun s => .atom (hexOfBytes s))
  | .error t => .list [.atom "error", descr t]
  | .named n t => .list [.atom "named", .atom (hexOfBytes n), descr t]

structure St where
  ctxs : Array Ctx := #[{}, {}, {}, {}]
  results : Array (Option Ty) := #[]
  out : Array String := #[]

def argOfStr (s : String) : Option Ctx.Arg :=
  if s.startsWith "p" then (s.drop 1).toNat?.map Ctx.Arg.prim
  else if s.startsWith "r" then (s.drop 1).toNat?.map Ctx.Arg.res
  else none

def argsOfSexp : List Sexp → Option (List Ctx.Arg)
  | [] => some []
  | .atom s :: rest => do
    let a ← argOfStr s
    let r ← argsOfSexp rest
    pure (a :: r)
  | _ => none

def hexes : List Sexp → Option (List Bytes)
  | [] => some []
  | .atom s :: rest => do
    let b ← bytesOfHex s
    let r ← hexes rest
    pure (b :: r)
  | _ => none

def fieldArgs : List Sexp → Option (List (Name × Ctx.Arg))
  | [] => some []
  | .list [.atom n, .atom r] :: rest => do
    let n ← bytesOfHex n
    let a ← argOfStr r
    let fs ← fieldArgs rest
    pure ((n, a) :: fs)
  | _ => none

def answer (c : Ctx) (t : Ty) : String :=
  match c.idOf t with
  | some id => s!"{id},{hexOfBytes (encodeTV t)}"
  | none => s!"noid,{hexOfBytes (encodeTV t)}"

/-- parse one request into an operation of the model (`Ctx.Op`) -/
def opOf (st : St) (kind : String) (args : List Sexp) : Option Ctx.Op :=
  match kind, args with
  | "rec", fs => (fieldArgs fs).map Ctx.Op.record
  | "arr", [.atom r] => (argOfStr r).map Ctx.Op.array
  | "set", [.atom r] => (argOfStr r).map Ctx.Op.set
  | "err", [.atom r] => (argOfStr r).map Ctx.Op.error
  | "map", [.atom k, .atom v] => do pure (Ctx.Op.map (← argOfStr k) (← argOfStr v))
  | "union", rs => (argsOfSexp rs).map Ctx.Op.union
  | "enum", hs => (hexes hs).map Ctx.Op.enum
  | "named", [.atom n, .atom r] => do pure (Ctx.Op.named (← bytesOfHex n) (← argOfStr r))
  | "byvalue", [.atom h] => (bytesOfHex h).map Ctx.Op.byValue
  | "translate", [.atom r] => do
    let a ← argOfStr r
    let t ← Ctx.argOf st.results.toList a
    pure (Ctx.Op.translate t)
  | "typevalue", [.atom r] => (argOfStr r).map Ctx.Op.typeValue
  | "typedef", [.atom n] => (bytesOfHex n).map Ctx.Op.typeDef
  | _, _ => none

/-- one op, executed by the model's `Ctx.exec`; `none` = malformed request -/
def step (st : St) (op : Sexp) : Option St :=
  match op with
  | .list (.atom kind :: .atom cs :: args) => do
    let ci ← cs.toNat?
    let c ← st.ctxs[ci]?
    let o ← opOf st kind args
    let r := c.exec st.results.toList o
    let c' := r.2.2
    let out := match r.1, r.2.1 with
      | some t, _ => answer c' t
      | none, some b => s!"tv,{hexOfBytes b}"
      | none, none => "err"
    pure { ctxs := st.ctxs.set! ci c', results := st.results.push r.1, out := st.out.push out }
  | _ => none

def runHist (ops : List Sexp) : Option St := ops.foldlM step {}

def decodeHex (h : String) : Option Ty := do
  let b ← bytesOfHex h
  match Ctx.empty.decode b with
  | some (t, [], _) => some t
  | _ => none

def ordChar : Ordering → String
  | .lt => "-1"
  | .eq => "0"
  | .gt => "1"

def handle : List Sexp → String
  | .atom "hist" :: ops =>
    match runHist ops with
    | none => "bad-op"
    | some st =>
      let sizes := st.ctxs.toList.map fun c => toString c.byID.length
      " ".intercalate st.out.toList ++ " | " ++ " ".intercalate sizes
  | [.atom "describe", .atom h] =>
    match bytesOfHex h with
    | none => "bad-op"
    | some b =>
      match Ctx.empty.decode b with
      | some (t, rest, _) => toString (descr t) ++ " " ++ hexOfBytes rest
      | none => "undecodable"
  | [.atom "cmptypes", .atom a, .atom b] =>
    match decodeHex a, decodeHex b with
    | some a, some b => ordChar (cmpTy a b)
    | _, _ => "bad-op"
  | .atom "typematrix" :: hs =>
    match hs.mapM (fun | .atom h => decodeHex h | _ => none) with
    | none => "bad-op"
    | some ts =>
      "/".intercalate (ts.map fun a => String.join (ts.map fun b =>
        match cmpTy a b with | .lt => "<" | .eq => "=" | .gt => ">"))
  | .atom "sortunion" :: hs =>
    match hs.mapM (fun | .atom h => decodeHex h | _ => none) with
    | none => "bad-op"
    | some ts =>
      let tagged := ts.zipIdx
      let sorted := insertionSort (fun a b => tyLess a.1 b.1) tagged
      " ".intercalate (sorted.map fun p => toString p.2)
  | [.atom "sched", .list tvs, .list sched] =>
    match hexes tvs, sched.mapM (fun | .atom a => a.toNat? | _ => none) with
    | some tvs, some sched =>
      let r := Ctx.runSched sched Ctx.empty (tvs.map fun tv => .dec (Ctx.startD tv))
      let instr : Instr → String
        | .prim id => s!"p{id}"
        | .array => "arr"
        | .set => "set"
        | .error => "err"
        | .map => "map"
        | .union n => s!"u{n}"
        | .enum syms => "e:" ++ ".".intercalate (syms.map hexOfBytes)
        | .record names => "r:" ++ ".".intercalate (names.map hexOfBytes)
        | .named n => "n:" ++ hexOfBytes n
        | .ref n => "f:" ++ hexOfBytes n
      let b01 (b : Bool) : String := if b then "1" else "0"
      let thread : Ctx.Thread → String
        | .dec d =>
          let p := Ctx.prog d.tv
          let res := match d.ph with
            | .done (some t) => hexOfBytes (encodeTV t)
            | .done none => "nil"
            | _ => "running"
          s!"{b01 (Ctx.progOk d.tv)},{b01 p.2},{" ".intercalate (p.1.map instr)},{res}"
        | .cli _ _ => "client"
      ";".intercalate (r.2.map thread) ++ "|" ++ " ".intercalate (r.1.byID.map fun t => hexOfBytes (encodeTV t))
    | _, _ => "bad-op"
  | _ => "bad-op"

end Zed.Drv.C05
