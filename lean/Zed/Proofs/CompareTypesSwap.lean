import Zed.Proofs.CompareTypes
namespace Zed
open Zed.Ord

@[simp] theorem kind_prim (i : Nat) : (Ty.prim i).kind = 0 := by show Ty.kindIdx _ = _; decide
@[simp] theorem kind_record (fs) : (Ty.record fs).kind = 1 := by show Ty.kindIdx _ = _; decide
@[simp] theorem kind_array (t) : (Ty.array t).kind = 2 := by show Ty.kindIdx _ = _; decide
@[simp] theorem kind_set (t) : (Ty.set t).kind = 3 := by show Ty.kindIdx _ = _; decide
@[simp] theorem kind_map (k v) : (Ty.map k v).kind = 4 := by show Ty.kindIdx _ = _; decide
@[simp] theorem kind_union (ts) : (Ty.union ts).kind = 5 := by show Ty.kindIdx _ = _; decide
@[simp] theorem kind_enum (s) : (Ty.enum s).kind = 6 := by show Ty.kindIdx _ = _; decide
@[simp] theorem kind_error (t) : (Ty.error t).kind = 7 := by show Ty.kindIdx _ = _; decide

theorem cmpFs_cons (n x r m y s) : cmpFs (.cons n x r) (.cons m y s) = (cmpTy x y).then (cmpFs r s) := rfl
theorem cmpTs_cons (x r y s) : cmpTs (.cons x r) (.cons y s) = (cmpTy x y).then (cmpTs r s) := rfl

theorem cmpS_record (fs gs) : cmpS (.record fs) (.record gs) =
    (compare fs.length gs.length).then ((cmpFieldNames fs gs).then (cmpFs fs gs)) := by simp [cmpS]
theorem cmpS_array (x y) : cmpS (.array x) (.array y) = cmpTy x y := by simp [cmpS, cmpTy]
theorem cmpS_set (x y) : cmpS (.set x) (.set y) = cmpTy x y := by simp [cmpS, cmpTy]
theorem cmpS_error (x y) : cmpS (.error x) (.error y) = cmpTy x y := by simp [cmpS, cmpTy]
theorem cmpS_map (k v k' v') : cmpS (.map k v) (.map k' v') = (cmpTy k k').then (cmpTy v v') := by simp [cmpS, cmpTy]
theorem cmpS_union (ts us) : cmpS (.union ts) (.union us) = (compare ts.length us.length).then (cmpTs ts us) := by simp [cmpS]
theorem cmpS_enum (s s') : cmpS (.enum s) (.enum s') = (compare s.length s'.length).then (cmpNames s s') := by simp [cmpS]
theorem cmpS_prim (i j) : cmpS (.prim i) (.prim j) = compare i j := by simp [cmpS]

theorem cmpS_kind (u v : Ty) (hu : u.isNamed = false) (hv : v.isNamed = false) (h : u.kind ≠ v.kind) :
    cmpS u v = compare u.kind v.kind := by
  cases u <;> cases v <;> simp_all [cmpS, Ty.isNamed]
end Zed
namespace Zed
open Zed.Ord
theorem cmpS_swap_diffkind (u v : Ty) (hu : u.isNamed = false) (hv : v.isNamed = false) (h : u.kind ≠ v.kind) :
    cmpS v u = (cmpS u v).swap := by
  rw [cmpS_kind u v hu hv h, cmpS_kind v u hv hu (Ne.symm h), compare_nat_swap]

theorem cmpTy_swap_of (a b : Ty) (ha : a.isNamed = false)
    (hS : a ≠ b.under → b.under.isNamed = false → cmpS b.under a = (cmpS a b.under).swap) :
    cmpTy b a = (cmpTy a b).swap := by
  rw [cmpTy_def, cmpTy_def]
  simp only [Ty.under_of_not_named ha]
  by_cases h : a = b.under
  · rw [if_pos h.symm, if_pos h]; exact cmpRank_swap _ _
  · rw [if_neg (Ne.symm h), if_neg h]; exact hS h (Ty.under_not_named b)

mutual
theorem cmpTy_swap : (a b : Ty) → cmpTy b a = (cmpTy a b).swap
  | .named n x, b => by
    have hu : (Ty.named n x).under = x.under := rfl
    rw [cmpTy_def, cmpTy_def]
    by_cases h : x.under = b.under
    · simp only [hu, h, if_true]; exact cmpRank_swap _ _
    · have ih := cmpTy_swap x b.under
      rw [cmpTy_def, cmpTy_def] at ih
      simp only [Ty.under_under, h, Ne.symm h, if_false] at ih
      simp only [hu, h, Ne.symm h, if_false]; exact ih
  | .prim i, b => by
    refine cmpTy_swap_of _ b rfl (fun h hv => ?_)
    · generalize b.under = v at *
      cases v with
      | prim j => simp only [cmpS_prim]; exact compare_nat_swap i j
      | named => simp [Ty.isNamed] at hv
      | _ => exact cmpS_swap_diffkind _ _ rfl rfl (by simp)
  | .record fs, b => by
    refine cmpTy_swap_of _ b rfl (fun h hv => ?_)
    · generalize b.under = v at *
      cases v with
      | record gs =>
        simp only [cmpS_record, Ordering.swap_then, cmpFieldNames_eq]
        rw [compare_nat_swap fs.length gs.length, cmpNames_swap fs.names gs.names, cmpFs_swap fs gs]
      | named => simp [Ty.isNamed] at hv
      | _ => exact cmpS_swap_diffkind _ _ rfl rfl (by simp)
  | .array x, b => by
    refine cmpTy_swap_of _ b rfl (fun h hv => ?_)
    · generalize b.under = v at *
      cases v with
      | array y => simp only [cmpS_array]; exact cmpTy_swap x y
      | named => simp [Ty.isNamed] at hv
      | _ => exact cmpS_swap_diffkind _ _ rfl rfl (by simp)
  | .set x, b => by
    refine cmpTy_swap_of _ b rfl (fun h hv => ?_)
    · generalize b.under = v at *
      cases v with
      | set y => simp only [cmpS_set]; exact cmpTy_swap x y
      | named => simp [Ty.isNamed] at hv
      | _ => exact cmpS_swap_diffkind _ _ rfl rfl (by simp)
  | .error x, b => by
    refine cmpTy_swap_of _ b rfl (fun h hv => ?_)
    · generalize b.under = v at *
      cases v with
      | error y => simp only [cmpS_error]; exact cmpTy_swap x y
      | named => simp [Ty.isNamed] at hv
      | _ => exact cmpS_swap_diffkind _ _ rfl rfl (by simp)
  | .map k w, b => by
    refine cmpTy_swap_of _ b rfl (fun h hv => ?_)
    · generalize b.under = v at *
      cases v with
      | map k' w' => simp only [cmpS_map, Ordering.swap_then]; rw [cmpTy_swap k k', cmpTy_swap w w']
      | named => simp [Ty.isNamed] at hv
      | _ => exact cmpS_swap_diffkind _ _ rfl rfl (by simp)
  | .union ts, b => by
    refine cmpTy_swap_of _ b rfl (fun h hv => ?_)
    · generalize b.under = v at *
      cases v with
      | union us => simp only [cmpS_union, Ordering.swap_then]; rw [compare_nat_swap ts.length us.length, cmpTs_swap ts us]
      | named => simp [Ty.isNamed] at hv
      | _ => exact cmpS_swap_diffkind _ _ rfl rfl (by simp)
  | .enum s, b => by
    refine cmpTy_swap_of _ b rfl (fun h hv => ?_)
    · generalize b.under = v at *
      cases v with
      | enum s' => simp only [cmpS_enum, Ordering.swap_then]; rw [compare_nat_swap s.length s'.length, cmpNames_swap s s']
      | named => simp [Ty.isNamed] at hv
      | _ => exact cmpS_swap_diffkind _ _ rfl rfl (by simp)
theorem cmpFs_swap : (fs gs : Fields) → cmpFs gs fs = (cmpFs fs gs).swap
  | .nil, .nil => rfl
  | .nil, .cons _ _ _ => rfl
  | .cons _ _ _, .nil => rfl
  | .cons n x r, .cons m y s => by
    simp only [cmpFs_cons, Ordering.swap_then]; rw [cmpTy_swap x y, cmpFs_swap r s]
theorem cmpTs_swap : (ts us : Tys) → cmpTs us ts = (cmpTs ts us).swap
  | .nil, .nil => rfl
  | .nil, .cons _ _ => rfl
  | .cons _ _, .nil => rfl
  | .cons x r, .cons y s => by
    simp only [cmpTs_cons, Ordering.swap_then]; rw [cmpTy_swap x y, cmpTs_swap r s]
end
end Zed
