package main

// Minimal witnesses of the defects found by this check (findings/C08.json); replayed on the
// real code at the start of every `par` run so that a finding is reported (or seen to be
// fixed) deterministically, independent of what the random generators happen to hit.

import (
	"encoding/json"
	"fmt"
	"runtime"
	. "verifharness/hlib"
)

var witnessJSON = []string{
	// descending sort with a null sort value: sort.Op puts nulls last, the merge first
	// (fixed in /repo by 8f641a47c: this witness must pass)
	`{"check":"par","pool":{"key":"k","desc":false,"class":"int","shape":"witness","recs":[
	   [{"pos":1,"k":"1","id":0,"v":"null","b":"true","s":"a"}],
	   [{"pos":2,"k":"2","id":1,"v":"5","b":"true","s":"a"},{"pos":3,"k":"3","id":2,"v":"4","b":"true","s":"a"}]]},
	  "prog":{"class":"sort","body":"sort -r v","mode":"seq","tie":["v"],"base":"sort -r v"},"parallelism":2}`,
	// cut that drops the pool key is copied into the legs in front of the merge on the key
	`{"check":"par","pool":{"key":"k","desc":false,"class":"int","shape":"witness","recs":[
	   [{"pos":2,"k":"2","id":0,"v":"1","b":"true","s":"a"}],
	   [{"pos":1,"k":"1","id":1,"v":"5","b":"true","s":"a"}]]},
	  "prog":{"class":"cut-destroys-key","body":"cut id","mode":"seq","tie":["@id"],"base":"cut id"},"parallelism":2}`,
	// group-by g, k on a pool sorted by k: InputSortDir was set although the FIRST key is g
	// (fixed in /repo by 32e95e058: this witness must pass)
	`{"check":"par","pool":{"key":"k","desc":false,"class":"int","shape":"witness","recs":[
	   [{"pos":5,"k":"5","id":0,"g":"\"a\"","v":"1","b":"true","s":"a"},{"pos":5,"k":"5","id":1,"g":"\"b\"","v":"1","b":"true","s":"a"}],
	   [{"pos":5,"k":"5","id":2,"g":"\"a\"","v":"5","b":"true","s":"a"}]]},
	  "prog":{"class":"summarize-by-g-key","body":"count() by g, k","mode":"ms","base":"count() by g, k"},"parallelism":2}`,
	// fuse() aggregate: the partials of two legs with the same type are merged into a union
	`{"check":"par","pool":{"key":"k","desc":false,"class":"int","shape":"witness","recs":[
	   [{"pos":1,"k":"1","id":0,"v":"1","b":"true","s":"a"}],
	   [{"pos":2,"k":"2","id":1,"v":"5","b":"true","s":"a"}]]},
	  "prog":{"class":"summarize-fuse-agg","body":"summarize fuse(v)","mode":"ms","base":"summarize fuse(v)"},"parallelism":2}`,
}

func runWitnesses(c *Ctx) {
	for i, w := range witnessJSON {
		var r parReplay
		if err := json.Unmarshal([]byte(w), &r); err != nil {
			panic(fmt.Errorf("witness %d: %v", i, err))
		}
		r.GMP = runtime.GOMAXPROCS(0)
		c.Eval(fmt.Sprintf("witness:%d", i))
		c.Stat("par:witnesses")
		how, what, panicked, ok := tryCase(r.Pool, r.Prog, r.Par, 6)
		if !ok {
			c.Note("witness %d: cannot build pool", i)
			continue
		}
		if how == "" {
			c.Stat("par:witness-passes")
			c.Note("witness %d (`%s`) no longer fails", i, r.Prog.Body)
			continue
		}
		kind := "oracle"
		if panicked {
			kind = "panic"
		}
		c.Fail(kind, "C08:par:"+how, fmt.Sprintf("witness: `%s` at parallelism %d: %s", r.Prog.query("POOL", r.Prog.Body), r.Par, what), mkReplay(r.Pool, r.Prog, r.Par, r.GMP))
	}
}
