import Zed.Proofs.TypeValueRT
/-! Re-export: injectivity (`encodeTV_injective`, Proofs/TypeValueInj) and the round trip through
    the context decoder (`rt_ty`, Proofs/TypeValueRT) of serialized type values. -/
