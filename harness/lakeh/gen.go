package lakeh

import (
	"encoding/hex"
	"fmt"
	"math/rand"
	"sort"
	"strings"
)

// Profile selects the operation alphabet of a generated history.
type Profile struct {
	Name    string
	W       map[string]int // weights per op kind (+ "dupdelete", "badid")
	MaxOps  int
	Guarded bool // avoid inputs predicted to hit the known defects (duplicate ids, common-delete merges)
	// Plain: stay away from the C14 findings (pool key `this`, typed-null keys) and from
	// branches without a commit; used by the C13 / C15 plans, whose properties they are not.
	Plain         bool
	NoEmptyBranch bool
	// Script: instead of drawing operations, resolve these symbols in order (exhaust.go);
	// symbols that do not apply in the current state are skipped.
	Script []string
	// MinThresh: pool thresholds below this are raised to it (objects with several values,
	// so that successive loads give overlapping multi-value objects).
	MinThresh int64
}

const DefaultThreshold = 500 * 1024 * 1024

// GenCfg draws a pool configuration.
func GenCfg(r *rand.Rand) Cfg {
	keys := []string{"k", "k", "k", "a.b", "this"}
	th := []int64{1, 4, 9, 16, 40, 200, 0}
	st := []int{1, 1, 2, 7, 0}
	return Cfg{Key: keys[r.Intn(len(keys))], Desc: r.Intn(2) == 0, Thresh: th[r.Intn(len(th))], Stride: st[r.Intn(len(st))]}
}

func (c Cfg) ModelThresh() int64 {
	if c.Thresh == 0 {
		return DefaultThreshold
	}
	return c.Thresh
}

// ModelStride: the seek stride data.Writer uses (0 = DefaultSeekStride, 64 KiB).
func (c Cfg) ModelStride() int {
	if c.Stride == 0 {
		return 64 * 1024
	}
	return c.Stride
}

// keyLitP with plain=true avoids keys whose zcode bytes are empty (the int64 0 and the empty
// string), which together with null range starts hit finding C14:lister-order:empty-bytes-key;
// used for the C13 / C15 plans.
func keyLit(r *rand.Rand, mixed bool) (zsonLit, atom string) {
	return keyLitP(r, mixed, false)
}

func keyLitP(r *rand.Rand, mixed, plain bool) (zsonLit, atom string) {
	if mixed && r.Intn(4) == 0 {
		ss := []string{"a", "b", "ab", "", "z"}
		s := ss[r.Intn(len(ss))]
		if plain && s == "" {
			s = "c"
		}
		if s == "" {
			return `""`, "s-"
		}
		return fmt.Sprintf("%q", s), "s" + hex.EncodeToString([]byte(s))
	}
	n := r.Intn(9) - 2
	if plain && n == 0 {
		n = 7
	}
	return fmt.Sprint(n), fmt.Sprintf("i%d", n)
}

// GenAlphabet draws the value alphabet of a history: distinct values with duplicate keys,
// null / missing keys, keys of mixed types, and pairs of values with equal bytes but
// different types.
func GenAlphabet(r *rand.Rand, cfg Cfg, plain bool) (texts, keys []string) {
	n := 8 + r.Intn(14)
	mixed := r.Intn(2) == 0
	typedNull := r.Intn(4) == 0 && !plain
	seen := map[string]bool{}
	add := func(t, k string) {
		if !seen[t] {
			seen[t] = true
			texts = append(texts, t)
			keys = append(keys, k)
		}
	}
	for i := 0; len(texts) < n && i < 200; i++ {
		lit, atom := keyLitP(r, mixed, plain)
		switch cfg.Key {
		case "this":
			add(lit, atom)
		case "k":
			switch x := r.Intn(12); {
			case x == 0:
				add(fmt.Sprintf("{v:%d}", i), "n")
			case x == 1 && typedNull:
				add(fmt.Sprintf("{k:null(int64),v:%d}", i), "n")
			case x == 2:
				add(fmt.Sprintf("{k:null,v:%d}", i), "n")
			case x == 3:
				// same bytes, different type
				add(fmt.Sprintf("{k:%s,a:7}", lit), atom)
				add(fmt.Sprintf("{k:%s,b:7}", lit), atom)
			case x == 4:
				add(fmt.Sprintf("{k:%s,v:%d,w:\"x\"}", lit, i), atom)
			default:
				add(fmt.Sprintf("{k:%s,v:%d}", lit, i%5), atom)
			}
		case "a.b":
			switch x := r.Intn(10); {
			case x == 0:
				add(fmt.Sprintf("{a:%d,v:%d}", i, i), "n")
			case x == 1:
				add(fmt.Sprintf("{v:%d}", i), "n")
			case x == 2 && typedNull:
				add(fmt.Sprintf("{a:{b:null(int64)},v:%d}", i), "n")
			case x == 3:
				add(fmt.Sprintf("{a:{c:%d},v:%d}", i, i), "n")
			default:
				add(fmt.Sprintf("{a:{b:%s},v:%d}", lit, i%5), atom)
			}
		}
	}
	return texts, keys
}

func genPred(r *rand.Rand, cfg Cfg, depth int) string {
	ops := []string{"==", "!=", "<", "<=", ">", ">="}
	if cfg.Key != "this" && (depth == 0 || r.Intn(3) > 0) && r.Intn(5) < 2 {
		// a predicate on a NON-key field: hits some values of many (overlapping) objects
		return fmt.Sprintf("v %s %d", ops[r.Intn(len(ops))], r.Intn(5))
	}
	if depth == 0 || r.Intn(3) > 0 {
		lit, _ := keyLit(r, r.Intn(3) == 0)
		if r.Intn(4) == 0 {
			return fmt.Sprintf("%s %s %s", lit, ops[r.Intn(len(ops))], cfg.Key)
		}
		return fmt.Sprintf("%s %s %s", cfg.Key, ops[r.Intn(len(ops))], lit)
	}
	switch r.Intn(3) {
	case 0:
		return "!(" + genPred(r, cfg, depth-1) + ")"
	case 1:
		return "(" + genPred(r, cfg, depth-1) + ") and (" + genPred(r, cfg, depth-1) + ")"
	}
	return "(" + genPred(r, cfg, depth-1) + ") or (" + genPred(r, cfg, depth-1) + ")"
}

// View is what the generator knows about the current state (taken from observations).
type View struct {
	Branches   []int
	Tips       map[int]int
	Live       map[int][]int    // branch -> live abstract object ids (nil if unreadable)
	Vecs       map[int][]int    // branch -> ids with vectors
	Gone       map[int]bool     // branch -> some live object's file has been vacuumed
	Objs       map[int][]ObjObs // branch -> observed objects (metadata)
	NCommits   int
	NObjs      int
	ObjsAt     map[int][]int // commit -> object ids (missing if unreadable)
	Parent     []int
	NVals      int
	LastRevert int // commit id of the last successful revert (0 = none)
}

func pick(r *rand.Rand, xs []int) int { return xs[r.Intn(len(xs))] }

func subset(r *rand.Rand, xs []int, min int) []int {
	if len(xs) == 0 {
		return nil
	}
	p := r.Perm(len(xs))
	if min > len(xs) {
		min = len(xs)
	}
	n := min + r.Intn(len(xs)-min+1)
	if n > 4 {
		n = 2 + r.Intn(3)
	}
	var out []int
	for _, i := range p[:n] {
		out = append(out, xs[i])
	}
	return out
}

// PathOf returns the leaf-to-root path of commit c in the harness's own record of the
// commit graph.
func PathOf(parent []int, c int) []int {
	var p []int
	for c != 0 {
		p = append(p, c)
		c = parent[c-1]
	}
	return p
}

func CommonAncestor(parent []int, a, b int) int {
	in := map[int]bool{}
	for _, c := range PathOf(parent, a) {
		in[c] = true
	}
	for _, c := range PathOf(parent, b) {
		if in[c] {
			return c
		}
	}
	return 0
}

func setOf(xs []int) map[int]bool {
	m := map[int]bool{}
	for _, x := range xs {
		m[x] = true
	}
	return m
}

// SetSub returns a \ b, sorted.
func SetSub(a, b []int) []int {
	m := setOf(b)
	var out []int
	for _, x := range a {
		if !m[x] {
			out = append(out, x)
		}
	}
	sort.Ints(out)
	return out
}

func SetUnion(a, b []int) []int {
	m := setOf(a)
	out := append([]int(nil), a...)
	for _, x := range b {
		if !m[x] {
			m[x] = true
			out = append(out, x)
		}
	}
	sort.Ints(out)
	return out
}

// CommonDelete reports whether merging child into parent would re-delete an object the
// parent no longer has (the C15 known defect): some object of the common ancestor that
// the child deleted is absent from the parent tip.
func (v *View) CommonDelete(child, parent int) bool {
	ct, pt := v.Tips[child], v.Tips[parent]
	if ct == 0 || pt == 0 {
		return false
	}
	anc := CommonAncestor(v.Parent, pt, ct)
	if anc == 0 {
		return false
	}
	ao, ok1 := v.ObjsAt[anc]
	co, ok2 := v.ObjsAt[ct]
	po, ok3 := v.ObjsAt[pt]
	if !ok1 || !ok2 || !ok3 {
		return false
	}
	d := SetSub(ao, co)
	return len(SetSub(d, po)) > 0
}

// Next draws the next operation.
func (p *Profile) Next(r *rand.Rand, cfg Cfg, v *View) Op {
	total := 0
	kinds := make([]string, 0, len(p.W))
	for k := range p.W {
		kinds = append(kinds, k)
	}
	sort.Strings(kinds)
	for _, k := range kinds {
		total += p.W[k]
	}
	for try := 0; try < 50; try++ {
		x := r.Intn(total)
		kind := ""
		for _, k := range kinds {
			if x < p.W[k] {
				kind = k
				break
			}
			x -= p.W[k]
		}
		b := pick(r, v.Branches)
		live := v.Live[b]
		switch kind {
		case "load":
			n := 1 + r.Intn(7)
			if r.Intn(6) == 0 {
				n = 8 + r.Intn(10)
			}
			vals := make([]int, n)
			for i := range vals {
				vals[i] = r.Intn(v.NVals)
			}
			return Op{Kind: "load", Branch: b, Vals: vals}
		case "delete":
			if len(live) == 0 {
				continue
			}
			return Op{Kind: "delete", Branch: b, IDs: subset(r, live, 1)}
		case "dupdelete":
			if len(live) == 0 {
				continue
			}
			ids := subset(r, live, 1)
			return Op{Kind: "delete", Branch: b, IDs: append(ids, ids[0])}
		case "manage":
			// manage-style compaction (cmd/super/internal/lakemanage/scan.go): objects sorted by
			// min; a run grows while the next object overlaps it or the run is still smaller than
			// the pool threshold; every run of two or more objects is compacted, a single object
			// without a vector gets one.
			runs := manageRuns(cfg, v.Objs[b])
			if len(runs) == 0 || v.Gone[b] {
				continue
			}
			run := runs[r.Intn(len(runs))]
			if len(run) == 1 {
				return Op{Kind: "addvec", Branch: b, IDs: run}
			}
			return Op{Kind: "compact", Branch: b, IDs: run, Vec: r.Intn(2) == 0}
		case "dupvec":
			// a vector operation listing an id twice
			if cand := SetSub(live, v.Vecs[b]); len(cand) > 0 && r.Intn(3) > 0 {
				id := pick(r, cand)
				return Op{Kind: "addvec", Branch: b, IDs: []int{id, id}}
			}
			if len(v.Vecs[b]) == 0 {
				continue
			}
			id := pick(r, v.Vecs[b])
			return Op{Kind: "delvec", Branch: b, IDs: []int{id, id}}
		case "badid":
			// an id that is not live on this branch: dead, foreign or unknown
			var id int
			if v.NObjs > 0 && r.Intn(2) == 0 {
				id = 1 + r.Intn(v.NObjs)
				if setOf(live)[id] {
					id = Unknown + r.Intn(5)
				}
			} else {
				id = Unknown + r.Intn(5)
			}
			ids := []int{id}
			if len(live) > 0 && r.Intn(2) == 0 {
				ids = append([]int{pick(r, live)}, id)
			}
			switch r.Intn(4) {
			case 0:
				return Op{Kind: "delete", Branch: b, IDs: ids}
			case 1:
				return Op{Kind: "compact", Branch: b, IDs: append(ids, id)}
			case 2:
				return Op{Kind: "addvec", Branch: b, IDs: ids}
			}
			return Op{Kind: "delvec", Branch: b, IDs: ids}
		case "delwhere":
			// (a branch with a vacuumed object: the real delete-where reads only the objects
			// its key pruner lets through, which the model does not predict)
			if v.Tips[b] == 0 || v.Gone[b] {
				continue
			}
			return Op{Kind: "delwhere", Branch: b, Pred: genPred(r, cfg, 2)}
		case "compact":
			if len(live) < 1 {
				continue
			}
			ids := subset(r, live, 2)
			if len(ids) == 1 {
				if r.Intn(3) > 0 {
					continue
				}
				if r.Intn(2) == 0 {
					ids = append(ids, ids[0]) // [a, a]: accepted by the length check
				}
			}
			return Op{Kind: "compact", Branch: b, IDs: ids, Vec: r.Intn(4) == 0}
		case "addvec":
			cand := SetSub(live, v.Vecs[b])
			if len(cand) == 0 {
				continue
			}
			return Op{Kind: "addvec", Branch: b, IDs: subset(r, cand, 1)}
		case "delvec":
			if len(v.Vecs[b]) == 0 {
				continue
			}
			return Op{Kind: "delvec", Branch: b, IDs: subset(r, v.Vecs[b], 1)}
		case "vacuum":
			if v.NCommits == 0 {
				continue
			}
			c := v.Tips[b]
			if r.Intn(3) == 0 {
				c = 1 + r.Intn(v.NCommits)
			}
			if c == 0 {
				continue
			}
			return Op{Kind: "vacuum", Commit: c}
		case "branch":
			if len(v.Branches) >= 4 {
				continue
			}
			c := v.Tips[b]
			if v.NCommits > 0 && r.Intn(3) == 0 {
				c = r.Intn(v.NCommits + 1)
			}
			if c == 0 && r.Intn(8) > 0 {
				continue // branches without a commit only now and then
			}
			if c != 0 {
				if _, ok := v.ObjsAt[c]; !ok {
					continue
				}
			} else if p.NoEmptyBranch {
				continue
			}
			return Op{Kind: "branch", Name: len(v.Branches), Commit: c}
		case "merge":
			if len(v.Branches) < 2 {
				continue
			}
			child := pick(r, v.Branches)
			if child == b && r.Intn(10) > 0 {
				continue
			}
			if p.Guarded && v.CommonDelete(child, b) {
				continue
			}
			return Op{Kind: "merge", Branch: b, Child: child}
		case "revert":
			if v.NCommits == 0 {
				continue
			}
			c := 1 + r.Intn(v.NCommits)
			if v.LastRevert != 0 && r.Intn(2) == 0 {
				c = v.LastRevert
			} else if r.Intn(2) == 0 {
				path := PathOf(v.Parent, v.Tips[b])
				if len(path) > 0 {
					c = pick(r, path)
				}
			}
			if r.Intn(25) == 0 {
				c = Unknown
			}
			return Op{Kind: "revert", Branch: b, Commit: c}
		}
	}
	vals := []int{r.Intn(v.NVals)}
	return Op{Kind: "load", Branch: v.Branches[0], Vals: vals}
}

// manageRuns reproduces the run selection of lakemanage.scan on the observed objects.
func manageRuns(cfg Cfg, objs []ObjObs) [][]int {
	os := append([]ObjObs(nil), objs...)
	sort.SliceStable(os, func(i, j int) bool { return KeyCmp(os[i].Min, os[j].Min) < 0 })
	var runs [][]int
	var cur []ObjObs
	var size int64
	lo, hi := "", ""
	flush := func() {
		if len(cur) >= 2 || (len(cur) == 1 && !cur[0].Vec) {
			var ids []int
			for _, o := range cur {
				ids = append(ids, o.ID)
			}
			runs = append(runs, ids)
		}
		cur, size = nil, 0
	}
	for _, o := range os {
		overlaps := len(cur) > 0 && KeyCmp(o.Min, hi) <= 0 && KeyCmp(o.Max, lo) >= 0
		if len(cur) == 0 || overlaps || size+o.Size < cfg.ModelThresh() {
			if len(cur) == 0 {
				lo, hi = o.Min, o.Max
			}
			cur = append(cur, o)
			size += o.Size
			if KeyCmp(o.Min, lo) < 0 {
				lo = o.Min
			}
			if KeyCmp(o.Max, hi) > 0 {
				hi = o.Max
			}
			continue
		}
		flush()
		cur, size, lo, hi = []ObjObs{o}, o.Size, o.Min, o.Max
	}
	flush()
	return runs
}

func (h *History) Summary() string {
	var ss []string
	for _, o := range h.Ops {
		ss = append(ss, o.String())
	}
	return fmt.Sprintf("pool key=%s desc=%v thresh=%d stride=%d: %s", h.Cfg.Key, h.Cfg.Desc, h.Cfg.Thresh, h.Cfg.Stride, strings.Join(ss, "; "))
}
