/-
  Helper lemmas for C12 / C17: the create-then-fill put discipline (Zed/Model/StoreFill.lean)
  refines the atomic system; half-written files are never the ones readers rely on.
-/
import Zed.Proofs.StoreBranch
import Zed.Model.StoreFill
namespace Zed.Store

/-- Each create-then-fill transition is, on the atomic component, a stutter, the atomic
    transition of the same client, or the truncation of a snapshot file. -/
theorem fill_step_refines (f : FSys) (c : Nat) :
    (f.step c).1.a = f.a ∨ (f.step c).1.a = (f.a.step c).1 ∨ ∃ j, (f.step c).1.a = f.a.exec (.truncSnap j) := by
  unfold FSys.step
  split
  · rename_i p hp
    split
    · left; rfl
    · right; left; simp [FSys.clear]
  · split
    · left; rfl
    · rename_i ev hev
      split
      · split
        · right; left; simp [FSys.setHalf]
        · rename_i j' _; right; right; exact ⟨j', by simp [FSys.setHalf]⟩
        · left; simp [FSys.setHalf]
      · split
        · split
          · left; rfl
          · right; left; rfl
          · right; left; rfl
        · right; left; rfl

theorem noReset_nil (j : Nat) : NoReset j [] := fun _ hl => by cases hl
theorem noDrop_nil (j : Nat) : NoDrop j [] := fun _ hl => by cases hl

def FLabel.resets (j : Nat) : FLabel → Bool
  | .start _ st => st.resets j
  | .step _ => false

def FLabel.drops (j : Nat) : FLabel → Bool
  | .start _ st => st.drops j
  | .step _ => false

def NoResetF (j : Nat) (ls : List FLabel) : Prop := ∀ l ∈ ls, l.resets j = false
def NoDropF (j : Nat) (ls : List FLabel) : Prop := ∀ l ∈ ls, l.drops j = false

/-- One create-then-fill label is zero or one atomic label that neither resets nor drops
    anything the original label did not. -/
theorem fill_exec_refines (f : FSys) (l : FLabel) :
    ∃ ls : List Label, (f.exec l).a = f.a.run ls ∧
      (∀ j, l.resets j = false → NoReset j ls) ∧ (∀ j, l.drops j = false → NoDrop j ls) := by
  cases l with
  | start c st =>
    refine ⟨[.start c st], rfl, ?_, ?_⟩
    · intro j h l hl; simp at hl; subst hl; simpa [Label.resets, FLabel.resets] using h
    · intro j h l hl; simp at hl; subst hl; simpa [Label.drops, FLabel.drops] using h
  | step c =>
    rcases fill_step_refines f c with h | h | ⟨j', h⟩
    · exact ⟨[], by simpa [FSys.exec, Sys.run] using h, ⟨fun j _ => noReset_nil j, fun j _ => noDrop_nil j⟩⟩
    · refine ⟨[.step c], by simpa [FSys.exec, Sys.run, Sys.exec] using h, ?_, ?_⟩
      · intro j _ l hl; simp at hl; subst hl; rfl
      · intro j _ l hl; simp at hl; subst hl; rfl
    · refine ⟨[.truncSnap j'], by simpa [FSys.exec, Sys.run] using h, ?_, ?_⟩
      · intro j _ l hl; simp at hl; subst hl; rfl
      · intro j _ l hl; simp at hl; subst hl; rfl

theorem fill_run_refines (ls : List FLabel) : ∀ (f : FSys),
    ∃ ls' : List Label, (f.run ls).a = f.a.run ls' ∧
      (∀ j, NoResetF j ls → NoReset j ls') ∧ (∀ j, NoDropF j ls → NoDrop j ls') := by
  induction ls with
  | nil => intro f; exact ⟨[], rfl, ⟨fun j _ => noReset_nil j, fun j _ => noDrop_nil j⟩⟩
  | cons l ls ih =>
    intro f
    obtain ⟨l1, h1, r1, d1⟩ := fill_exec_refines f l
    obtain ⟨l2, h2, r2, d2⟩ := ih (f.exec l)
    refine ⟨l1 ++ l2, ?_, ?_, ?_⟩
    · simp only [FSys.run]; rw [h2, h1, Sys.run_append]
    · intro j hn x hx
      rcases List.mem_append.mp hx with hx | hx
      · exact r1 j (hn l (by simp)) x hx
      · exact r2 j (fun y hy => hn y (by simp [hy])) x hx
    · intro j hn x hx
      rcases List.mem_append.mp hx with hx | hx
      · exact d1 j (hn l (by simp)) x hx
      · exact d2 j (fun y hy => hn y (by simp [hy])) x hx

/-- The atomic component of every create-then-fill run is a reachable atomic state: all C12 /
    C17 theorems of the atomic system hold of it. -/
theorem fill_reach {j : Nat} {f : FSys} (h : Reach j f.a) (ls : List FLabel) (hn : NoResetF j ls) :
    Reach j (f.run ls).a := by
  obtain ⟨ls', h1, r1, _⟩ := fill_run_refines ls f
  rw [h1]; exact h.run ls' (r1 j hn)

theorem fill_reachB {j : Nat} {f : FSys} (h : ReachB j f.a) (ls : List FLabel) (hn : NoResetF j ls)
    (hd : NoDropF j ls) : ReachB j (f.run ls).a := by
  obtain ⟨ls', h1, r1, d1⟩ := fill_run_refines ls f
  rw [h1]; exact h.run ls' (r1 j hn) (d1 j hd)


def JOut.ev : JOut → Ev
  | .cont _ _ _ _ ev => ev
  | .done _ _ _ ev => ev

@[simp] theorem JOut.ev_cont (s c k pc ev) : (JOut.cont s c k pc ev).ev = ev := rfl
@[simp] theorem JOut.ev_done (s c r ev) : (JOut.done s c r ev).ev = ev := rfl

theorem getEv_op (s : Store) (p : Path) : (getEv s p).op = .get ∧ (getEv s p).path = p := by
  unfold getEv; split <;> simp

@[simp] theorem afterLoad_ev (s c k ev) : (afterLoad s c k ev).ev = ev := by
  unfold afterLoad; split <;> try split
  all_goals rfl

/-- The only journal step that reads an entry file is the reader at `rdEnt`. -/
theorem jstep_get_ent (s : Store) (j' : Nat) (jc : JCache) (k : JKind) (pc : JPc) (j n : Nat)
    (hop : (jstep s j' jc k pc).ev.op = .get) (hpath : (jstep s j' jc k pc).ev.path = .ent j n) :
    j' = j ∧ ∃ h t a0, pc = .rdEnt h n t a0 := by
  cases pc with
  | rdEnt h n' t a0 =>
    have hp : (jstep s j' jc k (.rdEnt h n' t a0)).ev = getEv s (.ent j' n') := by
      simp only [jstep]; repeat' split
      all_goals simp
    rw [hp, (getEv_op _ _).2] at hpath
    cases hpath
    exact ⟨rfl, h, t, a0, rfl⟩
  | rdHead =>
    have hp : (jstep s j' jc k .rdHead).ev = getEv s (.head j') := by
      simp only [jstep]; repeat' split
      all_goals simp
    rw [hp, (getEv_op _ _).2] at hpath; cases hpath
  | rdSnap h =>
    have hp : (jstep s j' jc k (.rdSnap h)).ev = getEv s (.snap j') := by
      simp only [jstep]; repeat' split
      all_goals simp
    rw [hp, (getEv_op _ _).2] at hpath; cases hpath
  | rdTail h =>
    have hp : (jstep s j' jc k (.rdTail h)).ev = getEv s (.tail j') := by
      simp only [jstep]; repeat' split
      all_goals simp
    rw [hp, (getEv_op _ _).2] at hpath; cases hpath
  | putSnap h t =>
    simp [jstep] at hop
  | putx pos =>
    exfalso
    simp only [jstep] at hop
    repeat' split at hop
    all_goals simp at hop
  | putHead n' =>
    simp [jstep] at hop



/-- A successful put-if-absent is the step from `putx n-1` to `putHead n`. -/
theorem jstep_putx_ok (s : Store) (j' : Nat) (jc : JCache) (k : JKind) (pc : JPc) (j n : Nat)
    (hop : (jstep s j' jc k pc).ev.op = .putx) (hres : (jstep s j' jc k pc).ev.res = .ok)
    (hpath : (jstep s j' jc k pc).ev.path = .ent j n) :
    j' = j ∧ (jstep s j' jc k pc).pc? = some (.putHead n) := by
  cases pc with
  | putx pos =>
    simp only [jstep] at hop hres hpath ⊢
    split at hres
    · simp at hres
    · split at hres
      · split at hres <;> simp at hres
      · rename_i hnone
        simp only [hnone] at hpath ⊢
        simp at hpath
        obtain ⟨rfl, rfl⟩ := hpath
        exact ⟨rfl, rfl⟩
  | rdHead =>
    have hp : (jstep s j' jc k .rdHead).ev = getEv s (.head j') := by
      simp only [jstep]; repeat' split
      all_goals simp
    rw [hp, (getEv_op _ _).1] at hop; cases hop
  | rdSnap h =>
    have hp : (jstep s j' jc k (.rdSnap h)).ev = getEv s (.snap j') := by
      simp only [jstep]; repeat' split
      all_goals simp
    rw [hp, (getEv_op _ _).1] at hop; cases hop
  | rdTail h =>
    have hp : (jstep s j' jc k (.rdTail h)).ev = getEv s (.tail j') := by
      simp only [jstep]; repeat' split
      all_goals simp
    rw [hp, (getEv_op _ _).1] at hop; cases hop
  | rdEnt h n' t a0 =>
    have hp : (jstep s j' jc k (.rdEnt h n' t a0)).ev = getEv s (.ent j' n') := by
      simp only [jstep]; repeat' split
      all_goals simp
    rw [hp, (getEv_op _ _).1] at hop; cases hop
  | putSnap h t => simp [jstep] at hop
  | putHead n' => simp [jstep] at hop

/-- A journal step that `put`s writes a snapshot or HEAD, never an entry. -/
theorem jstep_put_not_ent (s : Store) (j' : Nat) (jc : JCache) (k : JKind) (pc : JPc)
    (hop : (jstep s j' jc k pc).ev.op = .put) (j n : Nat) : (jstep s j' jc k pc).ev.path ≠ .ent j n := by
  cases pc with
  | putSnap h t => simp [jstep]
  | putHead n' => simp [jstep]
  | putx pos =>
    exfalso
    simp only [jstep] at hop
    repeat' split at hop
    all_goals simp at hop
  | rdHead =>
    have hp : (jstep s j' jc k .rdHead).ev = getEv s (.head j') := by
      simp only [jstep]; repeat' split
      all_goals simp
    rw [hp, (getEv_op _ _).1] at hop; cases hop
  | rdSnap h =>
    have hp : (jstep s j' jc k (.rdSnap h)).ev = getEv s (.snap j') := by
      simp only [jstep]; repeat' split
      all_goals simp
    rw [hp, (getEv_op _ _).1] at hop; cases hop
  | rdTail h =>
    have hp : (jstep s j' jc k (.rdTail h)).ev = getEv s (.tail j') := by
      simp only [jstep]; repeat' split
      all_goals simp
    rw [hp, (getEv_op _ _).1] at hop; cases hop
  | rdEnt h n' t a0 =>
    have hp : (jstep s j' jc k (.rdEnt h n' t a0)).ev = getEv s (.ent j' n') := by
      simp only [jstep]; repeat' split
      all_goals simp
    rw [hp, (getEv_op _ _).1] at hop; cases hop

/-- Where the event of a step comes from. -/
theorem step_ev (s : Sys) (c : Nat) (ev : Ev) (h : (s.step c).2 = some ev) :
    (∃ j slot k pc, (s.cl c).onJ j = some (slot, pc) ∧ (s.cl c).kindOn j = some k ∧
      ev = (jstep s.store j ((s.cl c).cache j slot) k pc).ev) ∨
    (∃ p id, ev.path = .cobj p id) ∨
    (ev.op = .put ∧ ∃ j' st, (s.cl c).proc = some (.create j' st)) ∨
    (∃ j', (s.cl c).proc = some (.openJ j')) ∨ ev.op = .delp := by
  unfold Sys.step at h
  simp only [] at h
  split at h
  · cases h
  · rename_i j slot k pc hp
    left
    refine ⟨j, slot, k, pc, by simp [Client.onJ, hp, Proc.onJ], by simp [Client.kindOn, hp, Proc.kindOn], ?_⟩
    split at h <;> (rename_i heq; simp at h; rw [heq]; simp [h])
  · rename_i b pc hp
    left
    refine ⟨b.pool, b.slot, .load, pc, by simp [Client.onJ, hp, Proc.onJ], by simp [Client.kindOn, hp, Proc.kindOn], ?_⟩
    split at h <;> (rename_i heq; simp at h; rw [heq]; simp [h])
  · right; left; simp at h; exact ⟨_, _, by rw [← h]⟩
  · rename_i b tip id att pc hp
    left
    refine ⟨b.pool, b.slot, .commit (.update b.branch tip id) att, pc, by simp [Client.onJ, hp, Proc.onJ],
      by simp [Client.kindOn, hp, Proc.kindOn], ?_⟩
    split at h
    · rename_i heq; simp at h; rw [heq]; simp [h]
    · rename_i heq; rw [heq]; split at h <;> (simp at h; simp [h])
  · right; left
    repeat' split at h
    all_goals (simp at h; exact ⟨_, _, by rw [← h]⟩)
  · rename_i j' st hp
    right; right; left
    split at h <;> (simp at h; exact ⟨by rw [← h], j', st, hp⟩)
  · rename_i j' hp; right; right; right; left; exact ⟨j', hp⟩
  · right; right; right; right; simp at h; rw [← h]

theorem step_pcOn (s : Sys) (c j slot : Nat) (k : JKind) (pc : JPc)
    (hon : (s.cl c).onJ j = some (slot, pc)) (hk : (s.cl c).kindOn j = some k) :
    (((s.step c).1).cl c).pcOn j = (jstep s.store j ((s.cl c).cache j slot) k pc).pc? := by
  cases step_summary s c j with
  | frame _ _ hold _ _ _ _ => rw [hold] at hon; cases hon
  | reset p hp hr =>
    cases p <;> simp [Proc.resets] at hr
    all_goals simp [Client.onJ, hp, Proc.onJ] at hon
  | jrun slot' k' pc' hold _ hpc _ hkind _ =>
    rw [hold] at hon; cases hon
    rw [hkind] at hk; cases hk
    exact hpc



/-- The files of journal j that are half-written: an entry only by its creator, who has already
    won the exclusive create (atomic component at `putHead n`). -/
structure FInv (j : Nat) (f : FSys) : Prop where
  ent_mid : ∀ c n, f.mid c = some (.ent j n) → (f.a.cl c).pcOn j = some (.putHead n)
  ent_half : ∀ n, f.half (.ent j n) = true → ∃ c, f.mid c = some (.ent j n)

theorem FInv.ofSys (j : Nat) (a : Sys) : FInv j (FSys.ofSys a) :=
  ⟨fun c n h => by simp [FSys.ofSys] at h, fun n h => by simp [FSys.ofSys] at h⟩

theorem start_keeps_busy (s : Sys) (c c' : Nat) (st : Start) (j : Nat) (pc : JPc)
    (h : (s.cl c').pcOn j = some pc) : ((s.start c st).cl c').pcOn j = some pc := by
  by_cases hcc : c' = c
  · subst hcc
    have hp : (s.cl c').proc ≠ none := by
      intro hn; simp [Client.pcOn, Client.onJ, hn] at h
    simp only [Sys.start]
    split
    · exact h
    · rename_i hn; exact absurd hn hp
  · have : (s.start c st).cl c' = s.cl c' := by
      simp only [Sys.start]; repeat' split
      all_goals simp [Sys.setClient, hcc]
    rw [this]; exact h

theorem fill_inv_exec {j : Nat} {f : FSys} (l : FLabel) (hr : Reach j f.a) (hi : FInv j f) :
    FInv j (f.exec l) := by
  obtain ⟨e, h1⟩ := hr.inv1
  cases l with
  | start c st =>
    exact ⟨fun c' n hm => start_keeps_busy _ _ _ _ _ _ (hi.ent_mid c' n hm), hi.ent_half⟩
  | step c =>
    simp only [FSys.exec]
    -- the atomic state of every other client is untouched by whatever c does
    have hoth : ∀ a', (a' = f.a ∨ a' = (f.a.step c).1 ∨ ∃ j', a' = f.a.exec (.truncSnap j')) →
        ∀ c', c' ≠ c → a'.cl c' = f.a.cl c' := by
      intro a' ha c' hcc
      rcases ha with rfl | rfl | ⟨j', rfl⟩
      · rfl
      · exact step_others _ _ _ hcc
      · rfl
    unfold FSys.step
    split
    · -- completing a put
      rename_i p hp
      have hcm : ∀ c' n, (if c' = c then none else f.mid c') = some (Path.ent j n) → c' ≠ c ∧ f.mid c' = some (.ent j n) := by
        intro c' n h; by_cases hcc : c' = c
        · simp [hcc] at h
        · simp [hcc] at h; exact ⟨hcc, h⟩
      split
      · rename_i j' n'
        refine ⟨?_, ?_⟩
        · intro c' n hm
          obtain ⟨hcc, hm'⟩ := hcm c' n (by simpa [FSys.clear] using hm)
          simpa [FSys.clear] using hi.ent_mid c' n hm'
        · intro n hh
          simp only [FSys.clear] at hh ⊢
          split at hh
          · cases hh
          · rename_i hne
            obtain ⟨c'', hc''⟩ := hi.ent_half n hh
            have : c'' ≠ c := by intro h; subst h; rw [hp] at hc''; cases hc''; exact hne rfl
            exact ⟨c'', by simp [this, hc'']⟩
      · rename_i hnotent
        refine ⟨?_, ?_⟩
        · intro c' n hm
          obtain ⟨hcc, hm'⟩ := hcm c' n (by simpa [FSys.clear] using hm)
          simp only [FSys.clear]
          rw [step_others _ _ _ hcc]; exact hi.ent_mid c' n hm'
        · intro n hh
          simp only [FSys.clear] at hh ⊢
          split at hh
          · cases hh
          · obtain ⟨c'', hc''⟩ := hi.ent_half n hh
            have : c'' ≠ c := by
              intro h; subst h; rw [hp] at hc''; cases hc''; exact hnotent _ _ rfl
            exact ⟨c'', by simp [this, hc'']⟩
    · rename_i hmid
      have hkeep : ∀ a' b, (a' = f.a ∨ a' = (f.a.step c).1 ∨ ∃ j', a' = f.a.exec (.truncSnap j')) →
          FInv j { f with a := a', broken := b } := by
        intro a' b ha
        refine ⟨?_, hi.ent_half⟩
        intro c' n hm
        have hcc : c' ≠ c := by intro h; subst h; rw [hmid] at hm; cases hm
        show (a'.cl c').pcOn j = _
        rw [hoth a' ha c' hcc]; exact hi.ent_mid c' n hm
      split
      · exact hi
      · rename_i ev hev
        split
        · rename_i hw
          split
          · -- exclusive create of an entry: the atomic step is taken now
            rename_i j' n' hpath
            refine ⟨?_, ?_⟩
            · intro c' n hm
              simp only [FSys.setHalf] at hm ⊢
              by_cases hcc : c' = c
              · subst hcc
                simp at hm
                rw [hpath] at hm
                obtain ⟨hj, hn⟩ := Path.ent.inj hm
                rw [hj, hn] at hpath
                -- the event is a successful put-if-absent of entry n of journal j
                have hw' : ev.op = .putx ∧ ev.res = .ok := by
                  simp only [Ev.isWrite, Bool.or_eq_true, Bool.and_eq_true, beq_iff_eq] at hw
                  rcases hw with hw | hw
                  · exfalso
                    rcases step_ev _ _ _ hev with ⟨j2, sl, k, pc, _, _, hev2⟩ | ⟨p, id, h2⟩ | ⟨_, j2, st2, hp2⟩ | ⟨j2, hp2⟩ | h2
                    · exact jstep_put_not_ent _ _ _ _ _ (by rw [← hev2]; exact hw) j n (by rw [← hev2]; exact hpath)
                    · rw [hpath] at h2; cases h2
                    · simp only [Sys.step, hp2] at hev
                      split at hev <;> (simp at hev; rw [← hev] at hpath; cases hpath)
                    · simp only [Sys.step, hp2] at hev
                      simp at hev; rw [← hev, (getEv_op _ _).2] at hpath; cases hpath
                    · rw [h2] at hw; cases hw
                  · exact hw
                rcases step_ev _ _ _ hev with ⟨j2, sl, k, pc, hon, hk, hev2⟩ | ⟨p, id, h2⟩ | ⟨h2, _⟩ | ⟨j2, hp2⟩ | h2
                · obtain ⟨hjj, hpc⟩ := jstep_putx_ok _ _ _ _ _ j n (by rw [← hev2]; exact hw'.1)
                    (by rw [← hev2]; exact hw'.2) (by rw [← hev2]; exact hpath)
                  subst hjj
                  rw [step_pcOn _ _ _ _ _ _ hon hk]; exact hpc
                · rw [hpath] at h2; cases h2
                · rw [hw'.1] at h2; cases h2
                · simp only [Sys.step, hp2] at hev
                  simp at hev; rw [← hev, (getEv_op _ _).2] at hpath; cases hpath
                · rw [hw'.1] at h2; cases h2
              · simp [hcc] at hm
                show (((f.a.step c).1).cl c').pcOn j = _
                rw [step_others _ _ _ hcc]; exact hi.ent_mid c' n hm
            · intro n hh
              simp only [FSys.setHalf] at hh ⊢
              split at hh
              · rename_i hq; exact ⟨c, by simp [hq]⟩
              · obtain ⟨c'', hc''⟩ := hi.ent_half n hh
                have : c'' ≠ c := by intro h; subst h; rw [hmid] at hc''; cases hc''
                exact ⟨c'', by simp [this, hc'']⟩
          · -- truncation of a snapshot
            rename_i j' hpath
            have h0 := hkeep (f.a.exec (.truncSnap j')) f.broken (Or.inr (Or.inr ⟨j', rfl⟩))
            refine ⟨?_, ?_⟩
            · intro c' n hm
              simp only [FSys.setHalf] at hm
              by_cases hcc : c' = c
              · simp [hcc] at hm; rw [hpath] at hm; cases hm
              · simp [hcc] at hm; exact h0.ent_mid c' n hm
            · intro n hh
              simp only [FSys.setHalf] at hh ⊢
              split at hh
              · rename_i hq; rw [hpath] at hq; cases hq
              · obtain ⟨c'', hc''⟩ := hi.ent_half n hh
                have : c'' ≠ c := by intro h; subst h; rw [hmid] at hc''; cases hc''
                exact ⟨c'', by simp [this, hc'']⟩
          · -- any other put: the atomic state waits for the completing write
            rename_i hne hns
            refine ⟨?_, ?_⟩
            · intro c' n hm
              simp only [FSys.setHalf] at hm
              by_cases hcc : c' = c
              · simp [hcc] at hm; exact (hne _ _ hm).elim
              · simp [hcc] at hm; exact hi.ent_mid c' n hm
            · intro n hh
              simp only [FSys.setHalf] at hh ⊢
              split at hh
              · rename_i hq; exact (hne _ _ hq.symm).elim
              · obtain ⟨c'', hc''⟩ := hi.ent_half n hh
                have : c'' ≠ c := by intro h; subst h; rw [hmid] at hc''; cases hc''
                exact ⟨c'', by simp [this, hc'']⟩
        · split
          · split
            · exact hi
            · exact hkeep _ true (Or.inr (Or.inl rfl))
            · exact hkeep _ f.broken (Or.inr (Or.inl rfl))
          · exact hkeep _ f.broken (Or.inr (Or.inl rfl))



/-- A half-written entry file is the newest entry, one beyond HEAD. -/
theorem fill_half_entry_is_end {j : Nat} {f : FSys} {e : Nat} (h1 : Inv1 j f.a e) (hi : FInv j f) (n : Nat)
    (hh : f.half (.ent j n) = true) : n = e ∧ headOf f.a.store j + 1 = e := by
  obtain ⟨c, hc⟩ := hi.ent_half n hh
  exact h1.ph c n (hi.ent_mid c n hc)

/-- No client ever reads a journal entry file between its exclusive create and its filling. -/
theorem fill_entry_reads_complete {j : Nat} {f : FSys} (hr : Reach j f.a) (hi : FInv j f) (c n : Nat) (ev : Ev)
    (hev : (f.a.step c).2 = some ev) (hop : ev.op = .get) (hpath : ev.path = .ent j n) :
    f.half (.ent j n) = false := by
  obtain ⟨e, h1, h2⟩ := hr.inv12
  rcases step_ev _ _ _ hev with ⟨j2, sl, k, pc, hon, hk, hev2⟩ | ⟨p, id, h3⟩ | ⟨h3, _⟩ | ⟨j2, hp2⟩ | h3
  · obtain ⟨hjj, h, t, a0, hpc⟩ := jstep_get_ent _ _ _ _ _ j n (by rw [← hev2]; exact hop) (by rw [← hev2]; exact hpath)
    subst hjj; subst hpc
    have hh : h ≤ headOf f.a.store j2 := h1.known c _ h (pcOn_of_onJ hon) (by simp [JPc.known])
    obtain ⟨_, hnh, _, _⟩ := h2.pcs c sl k _ hon hk
    cases hx : f.half (.ent j2 n) with
    | false => rfl
    | true => have := fill_half_entry_is_end h1 hi n hx; omega
  · rw [hpath] at h3; cases h3
  · rw [hop] at h3; cases h3
  · simp only [Sys.step, hp2] at hev
    simp at hev; rw [← hev, (getEv_op _ _).2] at hpath; cases hpath
  · rw [hop] at h3; cases h3

/-- States of the create-then-fill system reachable from a fresh journal j. -/
def FReach (j : Nat) (f : FSys) : Prop :=
  ∃ a0 ls, JFresh j a0 ∧ NoResetF j ls ∧ f = (FSys.ofSys a0).run ls

theorem fill_inv_run {j : Nat} (ls : List FLabel) : ∀ {f : FSys}, Reach j f.a → FInv j f → NoResetF j ls →
    Reach j (f.run ls).a ∧ FInv j (f.run ls) := by
  induction ls with
  | nil => intro f hr hi _; exact ⟨hr, hi⟩
  | cons l ls ih =>
    intro f hr hi hn
    have hr' : Reach j (f.exec l).a := fill_reach (f := f) hr [l] (fun x hx => by simp at hx; rw [hx]; exact hn l (by simp))
    exact ih hr' (fill_inv_exec l hr hi) (fun x hx => hn x (by simp [hx]))

theorem FReach.inv {j : Nat} {f : FSys} (h : FReach j f) : Reach j f.a ∧ FInv j f := by
  obtain ⟨a0, ls, hf, hn, rfl⟩ := h
  exact fill_inv_run ls (f := FSys.ofSys a0) ⟨a0, [], hf, noReset_nil j, rfl⟩ (FInv.ofSys j a0) hn


end Zed.Store
