/-
  C07 — the optimizer preserves program meaning (theorems are added below as they are proved).
-/
import Zed.Model.OptRewrites
namespace Zed.Props.C07
open Zed.Opt

/-- placeholder while the semantic layer is being built (replaced below). -/
theorem mergeFiltersSeq_nil : mergeFiltersSeq .nil = .nil := rfl

end Zed.Props.C07
