package main

// T2: the Lean model (Fuser + merge + const shaper) on the same inputs, through the driver.

import (
	"fmt"
	"strings"

	. "verifharness/hlib"
)

type modelOut struct {
	Kind  string // v e panic unsupported
	T     *T
	V     *V
	Err   string
	Guard bool
	Fits  bool
}

type modelAns struct {
	Raw     string
	Bad     string // non-empty: the answer could not be used
	Spilled map[int]bool
	Fused   *T
	Agg     *T
	Outs    []modelOut
}

func modelLine(cs Case, limit int) string {
	var b strings.Builder
	if limit == 0 {
		limit = defaultMemMax
	}
	fmt.Fprintf(&b, "(C20 fuse %d", limit)
	for _, in := range cs.Ins {
		fmt.Fprintf(&b, " (%s %s %d)", in.T.Sexp(), in.V.Sexp(), in.N)
	}
	b.WriteString(")")
	return b.String()
}

func parseModel(ans string) (m modelAns) {
	m.Raw = ans
	e, err := parseSx(ans)
	if err != nil || !e.isL || len(e.list) < 3 {
		m.Bad = "unparsable model answer: " + ans
		return
	}
	optT := func(x *sx) (*T, error) {
		if !x.isL && x.atom == "nil" {
			return nil, nil
		}
		return typeOfSx(x)
	}
	m.Spilled = map[int]bool{}
	if m.Fused, err = optT(e.list[1]); err != nil {
		m.Bad = "bad fused type: " + err.Error()
		return
	}
	if m.Agg, err = optT(e.list[2]); err != nil {
		m.Bad = "bad agg type: " + err.Error()
		return
	}
	for _, o := range e.list[3:] {
		if !o.isL || len(o.list) != 3 {
			m.Bad = "bad output entry"
			return
		}
		mo := modelOut{Guard: o.list[1].atom == "1", Fits: o.list[2].atom == "1"}
		x := o.list[0]
		switch {
		case !x.isL:
			mo.Kind = x.atom
		case len(x.list) == 3 && x.list[0].atom == "v":
			mo.Kind = "v"
			if mo.T, err = typeOfSx(x.list[1]); err != nil {
				m.Bad = err.Error()
				return
			}
			if mo.V, err = valueOfSx(x.list[2]); err != nil {
				m.Bad = err.Error()
				return
			}
		case len(x.list) == 2 && x.list[0].atom == "e":
			mo.Kind = "e"
			mo.Err = x.list[1].atom
		default:
			m.Bad = "bad output"
			return
		}
		m.Outs = append(m.Outs, mo)
	}
	return
}

var errText = map[string]string{
	"maps":        "cannot yet use maps in shaping functions",
	"unionCast":   "cannot cast union",
	"createStep":  "createStep: incompatible types",
	"dupField":    "duplicate field",
	"castNotImpl": "not implemented",
}

// runModel asks the model for every case once per limit that changes the spill decision
// (the default limit and the smallest spilling limit).
func runModel(c *Ctx, cases []Case) []modelAns {
	m := c.Model()
	var lines []string
	idx := make([][2]int, len(cases)) // positions of the default-limit and low-limit answers
	for i, cs := range cases {
		idx[i][0] = len(lines)
		lines = append(lines, modelLine(cs, 0))
		idx[i][1] = len(lines)
		lines = append(lines, modelLine(cs, lowLimit(cs)))
	}
	ans := m.Batch(lines)
	out := make([]modelAns, len(cases))
	for i := range cases {
		a := parseModel(ans[idx[i][0]])
		b := parseModel(ans[idx[i][1]])
		if a.Bad == "" && b.Bad == "" {
			// spill-invariance of the model itself (also a theorem): everything but the flag
			if strings.SplitN(a.Raw, " ", 2)[1] != strings.SplitN(b.Raw, " ", 2)[1] {
				a.Bad = "model answers differ between memMax settings: " + a.Raw + " vs " + b.Raw
			}
			a.Spilled[0] = strings.HasPrefix(a.Raw, "(1")
			a.Spilled[1] = strings.HasPrefix(b.Raw, "(1")
		} else if b.Bad != "" {
			a.Bad = b.Bad
		}
		out[i] = a
	}
	return out
}

// lowLimit: a limit that makes the Fuser spill in the middle of this input when possible.
func lowLimit(cs Case) int {
	tot := 0
	for _, in := range cs.Ins {
		tot += in.N
	}
	if tot/2 >= 1 {
		return tot / 2
	}
	return 1
}

func compareModel(c *Ctx, cs Case, runs []caseRun, fused *T, m modelAns) {
	c.Res.ModelCases++
	fail := func(key, what string) {
		c.Fail("correspondence", key, what+"; inputs "+brief(cs), cs)
	}
	if m.Bad != "" {
		fail("C20:model:answer", m.Bad)
		return
	}
	if !m.Spilled[1] && len(cs.Ins) > 0 {
		tot := 0
		for _, in := range cs.Ins {
			tot += in.N
		}
		if tot >= 1 {
			fail("C20:model:spill-flag", "model did not spill at the low limit")
		}
	}
	if m.Spilled[1] {
		c.Stat("model-spilled-at-low-limit")
	}
	// fused type: the model's Fuser schema, the model's aggregate and the real aggregate
	switch {
	case fused == nil:
		// the real aggregate failed: reported by the oracle
	case m.Agg == nil || !sameT(m.Agg, fused):
		fail("C20:model:agg-type", fmt.Sprintf("fuse() reports %s, the model's aggregate %s", fused.Sexp(), sexpOrNil(m.Agg)))
	case m.Fused == nil || !sameT(m.Fused, fused):
		fail("C20:model:fused-type", fmt.Sprintf("fuse() reports %s, the model's Fuser schema is %s", fused.Sexp(), sexpOrNil(m.Fused)))
	}
	for _, r := range runs {
		res := r.res
		if res.Panic != "" || res.Err != "" {
			anyPanic := false
			for _, o := range m.Outs {
				if o.Kind == "panic" {
					anyPanic = true
				}
			}
			if !(res.Panic != "" && anyPanic) {
				fail("C20:model:run-failed", fmt.Sprintf("MemMaxBytes=%d: real run failed (%s%s), model did not predict it", r.limit, res.Err, firstLine(res.Panic)))
			}
			continue
		}
		if len(res.Outs) != len(m.Outs) {
			fail("C20:model:count", fmt.Sprintf("MemMaxBytes=%d: real %d outputs, model %d", r.limit, len(res.Outs), len(m.Outs)))
			continue
		}
		for i, o := range res.Outs {
			mo := m.Outs[i]
			if r.limit == 0 {
				if mo.Guard {
					c.Stat("guard:holds")
				} else {
					c.Stat("guard:fails")
				}
				c.Stat("model-out:" + mo.Kind + mo.Err)
				if mo.Fits {
					c.Stat("fits:holds")
				} else {
					c.Stat("fits:fails")
				}
				if mo.Fits && !mo.Guard {
					fail("C20:model:fits-without-guard", fmt.Sprintf("output %d: fits holds but the plan-level guard does not (contradicts fits_gives_good_plan)", i))
				}
			}
			switch mo.Kind {
			case "v":
				if o.ErrMsg != "" && cs.Ins[i].T.Under().K != "e" && !(sameT(o.T, cs.Ins[i].T)) {
					fail("C20:model:out-kind", fmt.Sprintf("MemMaxBytes=%d output %d: real error(%q), model a value of type %s", r.limit, i, o.ErrMsg, mo.T.Sexp()))
					continue
				}
				if !sameT(o.T, mo.T) {
					fail("C20:model:out-type", fmt.Sprintf("MemMaxBytes=%d output %d: real type %s, model type %s", r.limit, i, o.T.Sexp(), mo.T.Sexp()))
					continue
				}
				if Canon(o.T, o.V) != Canon(mo.T, mo.V) {
					fail("C20:model:out-value", fmt.Sprintf("MemMaxBytes=%d output %d: real value %s, model value %s (type %s)", r.limit, i, o.V.Sexp(), mo.V.Sexp(), o.T.Sexp()))
				}
			case "e":
				if o.ErrMsg == "" || !strings.Contains(o.ErrMsg, errText[mo.Err]) {
					fail("C20:model:out-error", fmt.Sprintf("MemMaxBytes=%d output %d: model error class %s, real output %s %q", r.limit, i, mo.Err, o.T.Sexp(), o.ErrMsg))
				}
			default:
				fail("C20:model:"+mo.Kind, fmt.Sprintf("MemMaxBytes=%d output %d: the model's answer is %q, real output %s", r.limit, i, mo.Kind, o.V.Sexp()))
			}
			// the guard of fuse_lossless_partial / fuse_uniform_partial, cross-checked on the real run
			if mo.Guard && fused != nil {
				if !sameT(o.T, fused) {
					fail("C20:model:guard-uniform", fmt.Sprintf("output %d: the guard holds but the real output type %s is not the fused type %s", i, o.T.Sexp(), fused.Sexp()))
				} else if e := lossless(cs.Ins[i].T, cs.Ins[i].V, o.T, o.V, "this"); e != "" {
					fail("C20:model:guard-lossless", fmt.Sprintf("output %d: the guard holds but the real output is not lossless: %s", i, e))
				}
			}
		}
	}
}
