import Zed.Model.Sexp
import Zed.Model.BfFilter
import Zed.Drv.C07
/-!
  Driver glue for C04.

  `(C04 eval <expr> (lits (<value-hex> <ty> <val>) …) (types (<id> <ty>) …) (frame (<id> <val>) …) <bytes-hex>)`
  → `(r <bf> <ev> <enc>)` with
    bf  = `none` (no buffer filter) | `0` | `1`      model compile + BufferFilter.Eval on the frame
    ev  = `0` | `1` | `a`                            some value of the frame makes the filter true
                                                     (`a`: the expression has an unmodelled atom)
    enc = `1` iff the model's serialisation of the frame equals the given bytes
-/
namespace Zed.Drv.C04
open Zed Zed.Bf

def unhexB (s : String) : Option Bytes := Sexp.bytesOfHex s

mutual
partial def tyOf : Sexp → Option Ty
  | .list [.atom "p", .atom n] => do pure (.prim (← n.toNat?))
  | .list (.atom "rec" :: fs) => do pure (.record (← fieldsOf fs))
  | .list [.atom "arr", t] => do pure (.array (← tyOf t))
  | .list [.atom "set", t] => do pure (.set (← tyOf t))
  | .list [.atom "map", k, v] => do pure (.map (← tyOf k) (← tyOf v))
  | .list (.atom "union" :: ts) => do pure (.union (← tysOf ts))
  | .list [.atom "named", .atom n, t] => do pure (.named (← unhexB n) (← tyOf t))
  | .list [.atom "err", t] => do pure (.error (← tyOf t))
  | .list [.atom "enum", .atom n] => do pure (.enum (← n.toNat?))
  | _ => none
partial def fieldsOf : List Sexp → Option Fields
  | [] => some .nil
  | .list [.atom "f", .atom n, t] :: r => do pure (.cons (← unhexB n) (← tyOf t) (← fieldsOf r))
  | _ => none
partial def tysOf : List Sexp → Option Tys
  | [] => some .nil
  | t :: r => do pure (.cons (← tyOf t) (← tysOf r))
end

mutual
partial def valOf : Sexp → Option Val
  | .atom "n" => some .null
  | .list [.atom "b", .atom h] => do pure (.prim (← unhexB h))
  | .list (.atom "c" :: xs) => do pure (.cont (← valsOf xs))
  | _ => none
partial def valsOf : List Sexp → Option Vals
  | [] => some .nil
  | x :: r => do pure (.cons (← valOf x) (← valsOf r))
end

def litsOf (xs : List Sexp) : Option (List (String × Lit)) := xs.mapM fun
  | .list [.atom h, t, v] => do
    let s ← Zed.Drv.C07.unhx h
    pure (s, ⟨← tyOf t, ← valOf v⟩)
  | _ => none

def typesOf (xs : List Sexp) : Option (List (Nat × Ty)) := xs.mapM fun
  | .list [.atom n, t] => do pure (← n.toNat?, ← tyOf t)
  | _ => none

def frameOf (xs : List Sexp) : Option (List (Nat × Val)) := xs.mapM fun
  | .list [.atom n, v] => do pure (← n.toNat?, ← valOf v)
  | _ => none

def lookupL {α : Type} [BEq κ] (k : κ) : List (κ × α) → Option α
  | [] => none
  | (k', v) :: r => if k' == k then some v else lookupL k r

/-- evaluation with "unmodelled atom" tracked: `none` = an atom was needed. -/
def triAtom : Atoms := fun _ _ _ => .err

/-- does the expression stay inside the modelled subset (no atoms)? -/
partial def modelled (lits : Lits) : Zed.Opt.Expr → Bool
  | .bin op l r =>
    if op == "and" || op == "or" then modelled lits l && modelled lits r
    else
      match op, l, r with
      | "==", .this _, .lit lv | "in", .lit lv, .this _ =>
        match lits lv with
        | some lit =>
          match under lit.ty with
          | .prim id => !(isNumberId id || id == idNull)
          | _ => true
        | none => false
      | _, _, _ => false
  | .un op a => op == "!" && modelled lits a
  | .search _ value e =>
    match lits value, e with
    | some lit, .this _ =>
      match under lit.ty with
      | .prim id => !(id == idNet) && (id == idString || !(isNumberId id))
      | _ => false
    | _, _ => false
  | _ => false

def handle : List Sexp → String
  | [.atom "eval", e, .list (.atom "lits" :: ls), .list (.atom "types" :: ts), .list (.atom "frame" :: fr), .atom bytes] =>
    match Zed.Drv.C07.exprOf e, litsOf ls, typesOf ts, frameOf fr, unhexB bytes with
    | some e, some ls, some ts, some fr, some bytes =>
      let lits : Lits := fun s => lookupL s ls
      let ctx : Ctx := fun id => lookupL id ts
      let bf := compile lits e
      let bfS := match bf with
        | none => "none"
        | some f => if f.eval ctx fr (encFrame fr) then "1" else "0"
      let ev :=
        if modelled lits e then
          if fr.any (fun m => match ctx m.1 with
              | some t => evalFilter lits triAtom e t m.2 == .tt
              | none => false) then "1" else "0"
        else "a"
      let encS := if encFrame fr == bytes then "1" else "0"
      s!"(r {bfS} {ev} {encS})"
    | _, _, _, _, _ => "bad-op"
  | _ => "bad-op"

end Zed.Drv.C04
