import Zed.Proofs.VecLoadFull
/-! The vector read path of a whole object: several top-level types, order through the tags. -/
namespace Zed.Vng

theorem mapM_some {α β : Type} (f : α → Option β) (g : α → β) (l : List α)
    (h : ∀ x ∈ l, f x = some (g x)) : l.mapM f = some (l.map g) := by
  induction l with
  | nil => simp
  | cons x xs ih =>
    simp only [List.mapM_cons, h x (by simp), ih (fun y hy => h y (List.mem_cons_of_mem _ hy))]
    rfl

theorem mkProj_nil : mkProj [] = .all := rfl

theorem projCrashes_all (c : Col) : projCrashes .all c = false := by
  cases c <;> rfl

/-- the columns of the seen types, loaded: lengths, types and slot contents. -/
theorem encTypes_vspec : ∀ (ts : List Ty) (k : Nat) (ps : List (Nat × Val)),
    (∀ p ∈ ps, k ≤ p.1 → ∃ t, ts[p.1 - k]? = some t ∧ conforms t p.2 = true) →
    okTypes ts k ps = true →
    ∃ vvs : List Vec, (encTypes ts k ps).mapM (fun c => load c none 0 none) = some vvs ∧
      vvs.map vecType = ts ∧
      vvs.map Vec.len = (List.range' k ts.length).map (fun i => (partitionBy i ps).length) ∧
      ∀ j, j < ts.length → ∀ v, vvs[j]? = some v → ∀ i, i < (partitionBy (k + j) ps).length →
        serialize v i = (partitionBy (k + j) ps)[i]?
  | [], k, ps => by intro _ _; exact ⟨[], by simp [encTypes], rfl, rfl, fun j hj => by simp at hj⟩
  | t :: rest, k, ps => by
    intro h hok
    simp only [okTypes, Bool.and_eq_true] at hok
    obtain ⟨cv, hcv, hcty, hcl, _, _, hcs, _⟩ := load_top_all t (partitionBy k ps) (by
      intro v hv
      simp only [partitionBy, List.mem_map, List.mem_filter] at hv
      obtain ⟨p, ⟨hp, hk⟩, rfl⟩ := hv
      have hk' : p.1 = k := by simpa using hk
      obtain ⟨t', ht', hc⟩ := h p hp (by omega)
      simp [hk'] at ht'
      subst ht'; exact hc) hok.1
    obtain ⟨vvs, hvv, hvty, hvl, hvs⟩ := encTypes_vspec rest (k + 1) ps (by
      intro p hp hk
      obtain ⟨t', ht', hc⟩ := h p hp (by omega)
      have e : p.1 - k = (p.1 - (k + 1)) + 1 := by omega
      rw [e] at ht'
      exact ⟨t', by simpa using ht', hc⟩) hok.2
    refine ⟨cv :: vvs, ?_, by simp [hcty, hvty], ?_, ?_⟩
    · simp only [encTypes, List.mapM_cons, hcv, hvv]
      rfl
    · simp [List.range'_succ, hcl, hvl]
    · intro j hj v hv i hi
      cases j with
      | zero =>
        simp only [List.getElem?_cons_zero, Option.some.injEq] at hv
        subst hv; exact hcs i (by simpa using hi)
      | succ j =>
        have e : k + 1 + j = k + (j + 1) := by omega
        simp only [List.getElem?_cons_succ] at hv
        have := hvs j (by simpa using hj) v hv i (by rw [e]; exact hi)
        rw [e] at this; exact this

theorem sum_map_zero {α : Type} (l : List α) : (l.map fun _ => 0).sum = 0 := by
  induction l with
  | nil => rfl
  | cons x xs ih => simp [ih]

theorem sum_ite_range (n t : Nat) (ht : t < n) :
    ((List.range n).map fun k => if t = k then 1 else 0).sum = 1 := by
  induction n with
  | zero => omega
  | succ n ih =>
    rw [List.range_succ, List.map_append, List.sum_append]
    by_cases h : t = n
    · subst h
      have : ((List.range t).map fun k => if t = k then 1 else 0) = (List.range t).map fun _ => 0 := by
        apply List.map_congr_left
        intro k hk
        have : k < t := List.mem_range.mp hk
        simp; omega
      rw [this, sum_map_zero]; simp
    · rw [ih (by omega)]; simp [h]

/-- the per-tag partitions together have the length of the sequence. -/
theorem sum_partition_lengths {α : Type} (n : Nat) (ps : List (Nat × α)) (h : ∀ p ∈ ps, p.1 < n) :
    ((List.range n).map fun k => (partitionBy k ps).length).sum = ps.length := by
  induction ps with
  | nil => simp [partitionBy, sum_map_zero]
  | cons p ps ih =>
    obtain ⟨t, a⟩ := p
    have ht : t < n := h (t, a) (by simp)
    have hsplit : ((List.range n).map fun k => (partitionBy k ((t, a) :: ps)).length) =
        (List.range n).map fun k => (partitionBy k ps).length + (if t = k then 1 else 0) := by
      apply List.map_congr_left
      intro k _
      rw [partitionBy_cons]
      by_cases hk : t = k <;> simp [hk]
    rw [hsplit]
    have hadd : ∀ (l : List Nat) (f g : Nat → Nat), (l.map fun k => f k + g k).sum = (l.map f).sum + (l.map g).sum := by
      intro l f g
      induction l with
      | nil => rfl
      | cons x xs ih2 => simp [ih2]; omega
    rw [hadd, ih (fun p hp => h p (List.mem_cons_of_mem _ hp)), sum_ite_range n t ht]
    simp

/-- **the vector read path of a whole object** (no projection): any number of top-level
    types interleaved in any order; the tags restore the order. -/
theorem readVec_encTop (vs : List (Ty × Val)) (h : ∀ p ∈ vs, conforms p.1 p.2 = true)
    (hok : seqOK vs = true) : readVec [] (encTop vs) = some vs := by
  unfold seqOK at hok
  unfold encTop
  simp only
  generalize hty : seenTypes [] vs = types at hok
  have hmem : ∀ p ∈ vs, p.1 ∈ types := by rw [← hty]; exact (seenTypes_mem vs []).2
  have hconfT : ∀ q ∈ vs.map (fun p => (tagOf types p.1, p.2)), 0 ≤ q.1 →
      ∃ t, types[q.1 - 0]? = some t ∧ conforms t q.2 = true := by
    intro q hq _
    obtain ⟨p, hp, rfl⟩ := List.mem_map.mp hq
    exact ⟨p.1, by simpa using tagOf_spec types p.1 (hmem p hp), h p hp⟩
  obtain ⟨vvs, hvv, hvty, hvl, hvs⟩ := encTypes_vspec types 0 _ hconfT hok
  have htags : ∀ q ∈ vs.map (fun p => (tagOf types p.1, p.2)), q.1 < types.length := by
    intro q hq
    obtain ⟨p, hp, rfl⟩ := List.mem_map.mp hq
    have := tagOf_spec types p.1 (hmem p hp)
    by_cases hlt : tagOf types p.1 < types.length
    · exact hlt
    · rw [List.getElem?_eq_none (by omega)] at this; cases this
  generalize htg : vs.map (fun p => (tagOf types p.1, p.2)) = tagged at hok hvv hvl hvs htags
  have hlenT : tagged.length = vs.length := by rw [← htg]; simp
  have hvlen : vvs.length = types.length := by rw [← hvty]; simp
  -- the dynamic read
  have hdyn : readVec [] (.dynamic (tagged.map (·.1)) (encTypes types 0 tagged) vs.length) = some vs := by
    have hfun : (fun c => (load c none 0 none).map (projVec .all)) = fun c => load c none 0 none := by
      funext c; cases load c none 0 none <;> simp [projVec]
    simp only [readVec, mkProj_nil, projCrashes_all, List.any_eq_true, Bool.false_eq_true, and_false,
      exists_false, if_false, hfun, hvv]
    have hsum : (vvs.map Vec.len).sum = (tagged.map (·.1)).length := by
      rw [hvl, ← List.range_eq_range', sum_partition_lengths types.length tagged htags]; simp
    simp only [hsum, bne_self_eq_false, Bool.false_eq_true, if_false, List.length_map]
    rw [mapM_some _ (fun slot => vs.getD slot (.prim 29, .null)) (List.range tagged.length)]
    · congr 1
      apply List.ext_getElem?
      intro i
      by_cases hi : i < vs.length
      · simp [hlenT, hi, List.getD_eq_getElem?_getD, List.getElem?_eq_getElem hi]
      · simp [hlenT, hi, List.getElem?_eq_none (Nat.le_of_not_lt hi)]
    · intro slot hslot
      have hs : slot < tagged.length := List.mem_range.mp hslot
      have hsv : slot < vs.length := by rw [← hlenT]; exact hs
      have htagslot : (tagged.map (·.1)).getD slot 0 = (tagged[slot]).1 := by
        simp [List.getD_eq_getElem?_getD, List.getElem?_eq_getElem hs]
      have hlt := htags _ (List.getElem_mem hs)
      have hvj : (tagged[slot]).1 < vvs.length := by rw [hvlen]; exact hlt
      simp only [htagslot, List.getElem?_eq_getElem hvj]
      have hser := hvs _ hlt _ (List.getElem?_eq_getElem hvj) _ (by rw [Nat.zero_add]; exact forwardOf_lt tagged slot hs)
      simp only [Nat.zero_add] at hser
      rw [hser, partition_forward tagged slot hs]
      -- the type of the selected vector and the value are those of vs[slot]
      have hvt : vecType (vvs[(tagged[slot]).1]) = types[(tagged[slot]).1]'hlt := by
        have := congrArg (fun l => l[(tagged[slot]).1]?) hvty
        simp only [List.getElem?_map, List.getElem?_eq_getElem hvj, List.getElem?_eq_getElem hlt,
          Option.map_some, Option.some.injEq] at this
        exact this
      have hts : tagged[slot] = (tagOf types (vs[slot]).1, (vs[slot]).2) := by
        simp [← htg]
      have htt := tagOf_spec types (vs[slot]).1 (hmem _ (List.getElem_mem hsv))
      simp only [Option.map_some, Option.some.injEq, List.getD_eq_getElem?_getD,
        List.getElem?_eq_getElem hsv, Option.getD_some, hvt]
      have e1 : (tagged[slot]).1 = tagOf types (vs[slot]).1 := by rw [hts]
      have e2 : (tagged[slot]).2 = (vs[slot]).2 := by rw [hts]
      have e3 : types[(tagged[slot]).1]'hlt = (vs[slot]).1 := by
        have : types[(tagged[slot]).1]? = some (vs[slot]).1 := by rw [e1]; exact htt
        rw [List.getElem?_eq_getElem hlt] at this
        exact Option.some.inj this
      rw [e2, e3]
  -- one type: `Encode` returns the child's metadata, no Dynamic node
  generalize hcols : encTypes types 0 tagged = cols at hdyn hvv
  match cols, hcols, hvv, hdyn with
  | [c], hcols, hvv, _ =>
    cases types with
    | nil => simp [encTypes] at hcols
    | cons t rest =>
      cases rest with
      | cons t2 r2 => simp [encTypes] at hcols
      | nil =>
        simp only [encTypes, List.cons.injEq, and_true] at hcols
        have hall : ∀ p ∈ vs, tagOf [t] p.1 = 0 := by
          intro p hp
          have := htags (tagOf [t] p.1, p.2) (by rw [← htg]; exact List.mem_map.mpr ⟨p, hp, rfl⟩)
          simpa using this
        have hpart : partitionBy 0 tagged = vs.map (·.2) := by
          rw [← htg]
          unfold partitionBy
          rw [List.filter_eq_self.mpr]
          · simp [List.map_map, Function.comp_def]
          · intro q hq
            obtain ⟨p, hp, rfl⟩ := List.mem_map.mp hq
            simp [hall p hp]
        have hpt : ∀ p ∈ vs, p.1 = t := by
          intro p hp
          have := tagOf_spec [t] p.1 (hmem p hp)
          rw [hall p hp] at this
          simpa using this.symm
        simp only [okTypes, Bool.and_true] at hok
        rw [← hcols, hpart]
        rw [readVec_single [] t (vs.map (·.2)) (by
            intro v hv
            obtain ⟨p, hp, rfl⟩ := List.mem_map.mp hv
            rw [← hpt p hp]; exact h p hp) (by rw [← hpart]; exact hok) (by rw [mkProj_nil]; exact projCrashes_all _)]
        simp only [List.map_map, Option.some.injEq]
        conv => rhs; rw [← List.map_id vs]
        apply List.map_congr_left
        intro p hp
        simp [restrict, mkProj_nil, projTy, projVal, ← hpt p hp]
  | [], _, _, hdyn => exact hdyn
  | _ :: _ :: _, _, _, hdyn => exact hdyn

end Zed.Vng
