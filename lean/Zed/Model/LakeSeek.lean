/-
  L4 — lake model, part 5: the seek index of a data object.
  Anchors: lake/data/writer.go (WriteWithKey, writeIndex, flushSeekIndex, Close),
  lake/seekindex/writer.go (Entry{Min,Max,ValOff,ValCnt,Offset,Length}).

  `data.Writer` accumulates the byte length of the keys it writes; when the sum reaches the
  seek stride it ends the ZNG stream and emits one entry for the values written since the
  previous entry: min = key of the first of them, max = key of the last (swapped for descending
  pools), val_off / val_cnt = their position and number; `Close` emits a last entry for what is
  left.  Byte offsets / lengths depend on compression and are not modelled.
-/
import Zed.Model.LakeOps
namespace Zed.Lake

structure SeekEntry (K : Type) where
  min : K
  max : K
  valOff : Nat
  valCnt : Nat
  deriving Repr, DecidableEq

variable {K V : Type}

def mkEntry (cfg : Cfg K V) (first last : K) (off cnt : Nat) : SeekEntry K :=
  if cfg.desc then { min := last, max := first, valOff := off, valCnt := cnt }
  else { min := first, max := last, valOff := off, valCnt := cnt }

/-- the values of one object in file order → (entry, the values it covers).
    `trig`: key bytes accumulated since the last entry; `cur`: values since the last entry
    (the first of them gave `seekMin`); `off`: number of values before `cur`. -/
def seekGo (cfg : Cfg K V) (stride : Nat) (kbytes : V → Nat) :
    List V → Nat → List V → Nat → List (SeekEntry K × List V)
  | [], _, cur, off =>
    match cur.head?, cur.getLast? with
    | some f, some l => [(mkEntry cfg (cfg.mkey f) (cfg.mkey l) off cur.length, cur)]
    | _, _ => []
  | v :: vs, trig, cur, off =>
    let trig' := trig + kbytes v
    let cur' := cur ++ [v]
    if trig' < stride then seekGo cfg stride kbytes vs trig' cur' off
    else
      (match cur'.head? with
       | some f => (mkEntry cfg (cfg.mkey f) (cfg.mkey v) off cur'.length, cur')
       | none => (mkEntry cfg (cfg.mkey v) (cfg.mkey v) off cur'.length, cur')) ::
        seekGo cfg stride kbytes vs 0 [] (off + cur'.length)

def seekSegs (cfg : Cfg K V) (stride : Nat) (kbytes : V → Nat) (vals : List V) : List (SeekEntry K × List V) :=
  seekGo cfg stride kbytes vals 0 [] 0

/-- the entries of the `<id>-seek.zng` file of an object holding `vals` -/
def seekEntries (cfg : Cfg K V) (stride : Nat) (kbytes : V → Nat) (vals : List V) : List (SeekEntry K) :=
  (seekSegs cfg stride kbytes vals).map (·.1)

end Zed.Lake
