/-
  The lock protocol of `vcache.Cache.Fetch` (runtime/vcache/cache.go) for two goroutines that
  fetch the SAME object (two scan legs, or the scanners of two queries sharing the lake's cache;
  a vam Scanner keeps fetching on its own goroutine after its query has delivered) (C09).

  Two mutexes: `c.mu` (the cache) and the per-object mutex `c.locks[id]`.  A goroutine runs the
  slow path of `Fetch`: probe the map under `c.mu`; `c.lock(id)`; probe again under `c.mu`; load
  the object; store it under `c.mu`; `c.unlock(id)`.  The order of the lock operations inside
  `lock` / `unlock` / `Fetch` is a regenerated fact (`cacheLockLockOps`, `cacheUnlockLockOps`,
  `cacheFetchLockOps`).

  `lockReleased` is the current `lock` (since /repo f9684f0a8): `c.mu` is released before the
  goroutine blocks on the object mutex.  `lockHeld` is the order it had before:
  `c.mu.Lock(); defer c.mu.Unlock(); …; mu.Lock()` — blocking on the object mutex while holding
  `c.mu`.
-/
namespace Zed.VecCacheLock

inductive Ins where
  | acqC | relC | acqM | relM
  deriving DecidableEq, Repr

/-- `Cache.lock` before /repo f9684f0a8: the deferred `c.mu.Unlock()` ran after `mu.Lock()`. -/
def lockHeld : List Ins := [.acqC, .acqM, .relC]
/-- `Cache.lock` as it is. -/
def lockReleased : List Ins := [.acqC, .relC, .acqM]
/-- `Cache.unlock`. -/
def unlockOps : List Ins := [.acqC, .relM, .relC]

/-- the slow path of `Fetch` around a given `lock`. -/
def fetchOps (lock : List Ins) : List Ins :=
  [.acqC, .relC] ++ lock ++ [.acqC, .relC] ++ [.acqC, .relC] ++ unlockOps

/-- two goroutines: program counters and the owners of the two mutexes. -/
structure St where
  pc0 : Nat
  pc1 : Nat
  c : Option Bool      -- owner of c.mu (false = goroutine 0, true = goroutine 1)
  m : Option Bool      -- owner of the object mutex
  deriving DecidableEq, Repr

def init : St := { pc0 := 0, pc1 := 0, c := none, m := none }

def St.pc (s : St) (t : Bool) : Nat := if t then s.pc1 else s.pc0
def St.bump (s : St) (t : Bool) : St := if t then { s with pc1 := s.pc1 + 1 } else { s with pc0 := s.pc0 + 1 }

/-- one step of goroutine `t`; `none` = it is blocked or has finished. -/
def step (prog : List Ins) (s : St) (t : Bool) : Option St :=
  match prog[s.pc t]? with
  | none => none
  | some .acqC => if s.c = none then some ({ s with c := some t }.bump t) else none
  | some .relC => some ({ s with c := none }.bump t)
  | some .acqM => if s.m = none then some ({ s with m := some t }.bump t) else none
  | some .relM => some ({ s with m := none }.bump t)

def finished (prog : List Ins) (s : St) : Bool := s.pc0 ≥ prog.length && s.pc1 ≥ prog.length

/-- nobody can move although somebody still has work to do. -/
def deadlocked (prog : List Ins) (s : St) : Bool :=
  !finished prog s && (step prog s false).isNone && (step prog s true).isNone

def run (prog : List Ins) : List Bool → St → Option St
  | [], s => some s
  | t :: rest, s => match step prog s t with
    | some s' => run prog rest s'
    | none => none

/-- all states reachable in at most `fuel` rounds (breadth first, without repetitions). -/
def reach (prog : List Ins) : Nat → List St → List St → List St
  | 0, seen, _ => seen
  | fuel + 1, seen, frontier =>
    let next := frontier.flatMap fun s => [step prog s false, step prog s true].filterMap id
    let fresh := next.eraseDups.filter fun s => !seen.contains s
    if fresh.isEmpty then seen else reach prog fuel (seen ++ fresh) fresh

/-- the set is closed under `step`. -/
def closed (prog : List Ins) (ss : List St) : Bool :=
  ss.all fun s => [step prog s false, step prog s true].all fun o =>
    match o with
    | none => true
    | some s' => ss.contains s'

end Zed.VecCacheLock
