/-
  L5 — the API layer (`lake/root.go`, `lake/pool.go`, `lake/api/local.go`) as programs over the
  procedures of `BranchCommit.lean`, and the scenario driver used by the C12 / C17 harnesses:
  per-client operation lists + an explicit schedule (one entry = one storage operation granted
  to that client) ↦ trace of storage events, per-operation results, final visible state.

  Every run of the driver is a `Sys.run` over `start`/`step` labels (see `grant`), so the
  theorems about all label sequences cover everything the driver can do.  Nothing in this file
  is used in a theorem statement.
-/
import Zed.Model.BranchCommit
import Zed.Model.StoreFill
import Zed.Model.Sexp
namespace Zed.Store

inductive ApiOp where
  | createPool (lbl name : Nat)
  | renamePool (plbl newName : Nat)
  | removePool (plbl : Nat)
  | createBranch (plbl name parentLbl : Nat)     -- parentLbl = 0: Nil parent; else label of a commit
  | removeBranch (plbl name : Nat)
  | load (plbl branch obj lbl : Nat)
  | delete (plbl branch : Nat) (objs : List Nat) (lbl : Nat)
  | compact (plbl branch : Nat) (objs : List Nat) (newObj lbl : Nat)   -- exec.Compact + Branch.CommitCompact
  deriving Repr

structure ApiClient where
  ops : List ApiOp := []
  opIdx : Nat := 0
  pc : Nat := 0
  pool : Nat := 0
  aux : Nat := 0
  saved : Option Res := none
  opened : List Nat := []          -- lake.Root.poolCache

structure Drv where
  sys : Sys
  fill : Bool := false               -- create-then-fill puts (StoreFill.lean)
  half : Path → Bool := fun _ => false
  mid : Nat → Option Path := fun _ => none
  broken : Bool := false
  api : Nat → ApiClient
  pools : List (Nat × Nat) := []     -- registry: createPool label ↦ pool id
  commits : List (Nat × Nat) := []   -- registry: commit label ↦ commit id
  trace : Array String := #[]
  results : Array String := #[]

inductive Act where
  | start (st : Start) (pc : Nat)            -- begin a procedure, continue at pc
  | goto (pc : Nat)
  | finish (r : String)
  | finishRes (r : Res)

def resStr : Res → String
  | .ok => "ok"
  | .keyExists => "keyexists"
  | .noSuchKey => "nosuchkey"
  | .constraint => "constraint"
  | .retries => "retries"
  | .io => "io"
  | .notFound => "notfound"
  | .exists => "exists"
  | .buildErr => "builderr"
  | .commitFailed => "commitfailed"
  | .committed _ => "ok"
  | .created _ => "ok"

def keyOfVal (t : Table) (v : Nat) : Option Nat := (t.find? fun e => e.2 == v).map (·.1)

/-- The next action of client `c`'s current API operation (pure decision from local state). -/
def advance (d : Drv) (c : Nat) (a : ApiClient) (op : ApiOp) : Act × ApiClient :=
  let x := d.sys.cl c
  let res := x.res
  let ok := res == some .ok
  let ptab := (x.cache 0 0).table
  let resolve (plbl : Nat) : Option Nat := d.pools.lookup plbl
  -- shared prefix of removeBranch / load / delete: Root.OpenPool + LookupBranchByName
  let openPoolThen (plbl : Nat) (k : ApiClient → Act × ApiClient) : Act × ApiClient :=
    match a.pc with
    | 0 => match resolve plbl with
      | none => (.finish "unresolved", a)
      | some id => (.start (.load 0 0) 1, { a with pool := id })
    | 1 =>
      if ok && (keyOfVal ptab a.pool).isSome then
        if a.opened.contains a.pool then (.goto 4, a) else (.start (.openJ a.pool) 2, a)
      else (.finish "notfound", a)
    | 2 => if ok then (.start (.resetSlot a.pool 0) 3, { a with opened := a.pool :: a.opened }) else (.finish "io", a)
    | 3 => (.goto 4, a)
    | 4 => (.start (.load a.pool 0) 5, a)
    | _ => k a
  match op with
  | .createPool lbl name =>
    match a.pc with
    | 0 => (.start (.load 0 0) 1, a)
    | 1 =>
      if ok && (ptab.get name).isSome then (.finish "exists", a)
      else (.start .create 2, { a with pool := d.sys.next })
    | 2 => (.start (.openJ a.pool) 3, a)
    | 3 => if ok then (.start (.resetSlot a.pool 1) 4, a) else (.finish "io", a)
    | 4 => (.start (.load a.pool 1) 5, a)
    | 5 =>
      if ok && (((x.cache a.pool 1).table).get 0).isSome then (.finish "exists", a)
      else (.start (.commit a.pool 1 (.insert 0 0)) 6, a)
    | 6 => if ok then (.start (.openJ a.pool) 7, a) else (.finishRes (res.getD .io), a)
    | 7 =>
      if ok then (.start (.resetSlot a.pool 0) 8, { a with opened := a.pool :: a.opened })
      else (.start (.delPool a.pool) 10, { a with saved := some .io })
    | 8 => (.start (.commit 0 0 (.insert name a.pool)) 9, a)
    | 9 =>
      if ok then (.finish s!"ok pool {lbl}", a)
      else (.start (.delPool a.pool) 10, { a with saved := res })
    | _ => (.finishRes (a.saved.getD .io), a)
  | .renamePool plbl newName =>
    match a.pc with
    | 0 => match resolve plbl with
      | none => (.finish "unresolved", a)
      | some id => (.start (.load 0 0) 1, { a with pool := id })
    | 1 => match (if ok then keyOfVal ptab a.pool else none) with
      | none => (.finish "notfound", a)
      | some old => (.start (.commit 0 0 (.move old newName a.pool)) 2, a)
    | _ => match res with
      | some .keyExists => (.finish "exists", a)
      | some .noSuchKey => (.finish "notfound", a)
      | r => (.finishRes (r.getD .io), a)
  | .removePool plbl =>
    match a.pc with
    | 0 => match resolve plbl with
      | none => (.finish "unresolved", a)
      | some id => (.start (.load 0 0) 1, { a with pool := id })
    | 1 => match (if ok then keyOfVal ptab a.pool else none) with
      | none => (.finish "notfound", a)
      | some name => (.start (.commit 0 0 (.delete name a.pool)) 2, a)
    | 2 => match res with
      | some .ok => (.start (.delPool a.pool) 3, { a with opened := a.opened.filter (· != a.pool) })
      | some .noSuchKey => (.finish "notfound", a)
      | r => (.finishRes (r.getD .io), a)
    | _ => (.finish "ok", a)
  | .createBranch plbl name parentLbl =>
    match a.pc with
    | 0 => match resolve plbl, (if parentLbl = 0 then some 0 else d.commits.lookup parentLbl) with
      | some id, some par => (.start (.load 0 0) 1, { a with pool := id, aux := par })
      | _, _ => (.finish "unresolved", a)
    | 1 =>
      if ok && (keyOfVal ptab a.pool).isSome then (.start (.openJ a.pool) 2, a)
      else (.finish "notfound", a)
    | 2 => if ok then (.start (.resetSlot a.pool 1) 3, a) else (.finish "io", a)
    | 3 => (.start (.load a.pool 1) 4, a)
    | 4 =>
      if ok && (((x.cache a.pool 1).table).get name).isSome then (.finish "exists", a)
      else (.start (.commit a.pool 1 (.insert name a.aux)) 5, a)
    | _ => (.finishRes (res.getD .io), a)
  | .removeBranch plbl name =>
    openPoolThen plbl fun a =>
      match a.pc with
      | 5 => match (if ok then ((x.cache a.pool 0).table).get name else none) with
        | none => (.finish "notfound", a)
        | some tip => (.start (.commit a.pool 0 (.delete name tip)) 6, a)
      | _ => match res with
        | some .noSuchKey => (.finish "notfound", a)
        | r => (.finishRes (r.getD .io), a)
  | .load plbl branch obj lbl =>
    openPoolThen plbl fun a =>
      match a.pc with
      | 5 => match (if ok then ((x.cache a.pool 0).table).get branch else none) with
        | none => (.finish "notfound", a)
        | some _ => (.start (.bcommit a.pool 0 branch [obj] []) 6, a)
      | _ => match res with
        | some (.committed _) => (.finish s!"ok commit {lbl}", a)
        | r => (.finishRes (r.getD .io), a)
  | .delete plbl branch objs lbl =>
    openPoolThen plbl fun a =>
      match a.pc with
      | 5 => match (if ok then ((x.cache a.pool 0).table).get branch else none) with
        | none => (.finish "notfound", a)
        | some _ => (.start (.bcommit a.pool 0 branch [] objs.eraseDups) 6, a)   -- Branch.Delete: uniqueIDs(ids)
      | _ => match res with
        | some (.committed _) => (.finish s!"ok commit {lbl}", a)
        | r => (.finishRes (r.getD .io), a)

  | .compact plbl branch objs newObj lbl =>
    openPoolThen plbl fun a =>
      match a.pc with
      | 5 => match (if ok then ((x.cache a.pool 0).table).get branch else none) with
        | none => (.finish "notfound", a)
        | some tip =>
          -- exec.Compact looks the source objects up in the snapshot of the tip it has opened, reads
          -- them and writes the rollup object (data objects: no model events), then CommitCompact
          match snapshot d.sys.store a.pool tip with
          | some snap =>
            if objs.all fun o => snap.contains o then (.start (.bcommit a.pool 0 branch [newObj] objs) 6, a)
            else (.finish "builderr", a)
          | none => (.finish "builderr", a)
      | _ => match res with
        | some (.committed _) => (.finish s!"ok commit {lbl}", a)
        | r => (.finishRes (r.getD .io), a)

/-! ### Rendering -/

def jName (j : Nat) : String := if j = 0 then "pools" else s!"p#{j}"

def pathStr : Path → String
  | .head j => s!"j:{jName j}/HEAD"
  | .tail j => s!"j:{jName j}/TAIL"
  | .snap j => s!"j:{jName j}/snap"
  | .ent j n => s!"j:{jName j}/E{n}"
  | .cobj p c => s!"p#{p}/c#{c}"

def valOf (j v : Nat) : String := if j = 0 then s!"p#{v}" else s!"c#{v}"

def actStr (j : Nat) : JAct → String
  | .add k v => s!"A:k{k}={valOf j v}"
  | .update k v => s!"U:k{k}={valOf j v}"
  | .delete k => s!"D:k{k}"

def natsStr (pre : String) (xs : List Nat) : String := ",".intercalate (xs.map fun x => s!"{pre}{x}")

def insertSorted (e : Nat × Nat) : List (Nat × Nat) → List (Nat × Nat)
  | [] => [e]
  | x :: xs => if e.1 ≤ x.1 then e :: x :: xs else x :: insertSorted e xs

def sortTable (t : Table) : Table := t.foldl (fun acc e => insertSorted e acc) []

def svalStr (j : Nat) : SVal → String
  | .num n => s!"n{n}"
  | .tailv id base => s!"t{id},{base}"
  | .entry acts => if acts.isEmpty then "-" else "+".intercalate (acts.map (actStr j))
  | .commit par adds dels =>
    let srt (xs : List Nat) : List Nat := (sortTable (xs.map fun x => (x, 0))).map (·.1)
    s!"par=c#{par};adds={natsStr "o" (srt adds)};dels={natsStr "o" (srt dels)}"
  | .jsnap pos t => s!"s{pos}:" ++ ",".intercalate ((sortTable t).map fun e => s!"k{e.1}={valOf j e.2}")

def evStr (c : Nat) (ev : Ev) : String :=
  let op := match ev.op with
    | .get => "get" | .put => "put" | .putx => "putx" | .del => "del" | .delp => "delp"
    | .create => "create" | .createx => "createx" | .write => "write"
  let r := match ev.res with | .ok => "ok" | .notfound => "notfound" | .exists => "exists" | .empty => "ok"
  let p := match ev.op with | .delp => s!"p#{ev.path.pool}" | _ => pathStr ev.path
  let v := match ev.val with | some v => svalStr ev.path.pool v | none => "-"
  let v := match ev.res with | .empty => "empty" | _ => v
  s!"(e {c} {op} {p} {r} {v})"

/-! ### The driver -/

def Drv.setApi (d : Drv) (c : Nat) (a : ApiClient) : Drv :=
  { d with api := fun c' => if c' = c then a else d.api c' }

def Drv.pushResult (d : Drv) (c idx : Nat) (r : String) : Drv :=
  if r == "unresolved" then d   -- never issued: no storage operation, no schedule entry
  else { d with results := d.results.push s!"(r {c} {idx} {r})" }

/-- One storage operation of client c under the driver's put discipline. -/
def Drv.stepC (d : Drv) (c : Nat) : Drv × Option Ev :=
  if d.fill then
    let f : FSys := ⟨d.sys, d.half, d.mid, d.broken⟩
    let (f', ev) := f.step c
    ({ d with sys := f'.a, half := f'.half, mid := f'.mid, broken := f'.broken }, ev)
  else
    let (s', ev) := d.sys.step c
    ({ d with sys := s' }, ev)

/-- One schedule entry for client c: at most one storage operation.  Non-storage transitions
    before it are run; after it the current API operation is settled (a finished operation is
    recorded at once, the next operation starts lazily at the client's next grant — the harness
    drives the real handles by the same rule). -/
def grant (d : Drv) (c : Nat) (stepped : Bool) : Nat → Drv
  | 0 => d
  | fuel + 1 =>
    if (d.sys.cl c).proc.isSome then
      if stepped then d else
      let (d, ev) := d.stepC c
      let d := match ev with
        | some ev => { d with trace := d.trace.push (evStr c ev) }
        | none => d
      grant d c true fuel
    else
      let a := d.api c
      match a.ops with
      | [] => d
      | op :: rest =>
        if stepped && a.pc == 0 then d else
        let (act, a) := advance d c a op
        let fin (d : Drv) (a : ApiClient) (r : String) : Drv :=
          (d.setApi c { a with ops := rest, opIdx := a.opIdx + 1, pc := 0, saved := none }).pushResult c a.opIdx r
        match act with
        | .start st pc =>
          grant ({ d with sys := d.sys.start c st }.setApi c { a with pc := pc }) c stepped fuel
        | .goto pc => grant (d.setApi c { a with pc := pc }) c stepped fuel
        | .finishRes r => grant (fin d a (resStr r)) c stepped fuel
        | .finish r =>
          -- registry updates on acknowledged creates / commits
          let d := match op, (d.sys.cl c).res with
            | .createPool lbl _, _ => if r.startsWith "ok" then { d with pools := (lbl, a.pool) :: d.pools } else d
            | .load _ _ _ lbl, some (.committed id) => { d with commits := (lbl, id) :: d.commits }
            | .delete _ _ _ lbl, some (.committed id) => { d with commits := (lbl, id) :: d.commits }
            | .compact _ _ _ _ lbl, some (.committed id) => { d with commits := (lbl, id) :: d.commits }
            | _, _ => d
          grant (fin d a ((r.splitOn " ").headD r)) c stepped fuel

def runSched (d : Drv) : List Nat → Drv
  | [] => d
  | c :: cs => runSched (grant d c false 64) cs

/-- Final visible state as a cold client sees it: pools table at HEAD; per pool the branches
    table at HEAD; per branch the parent chain and the snapshot. -/
def finalState (s : Store) : List String :=
  match visibleTable s 0 with
  | none => ["(pools unreadable)"]
  | some pt =>
    (sortTable pt).flatMap fun (name, id) =>
      match visibleTable s id with
      | none => [s!"(pool k{name} p#{id} unreadable)"]
      | some bt =>
        s!"(pool k{name} p#{id})" ::
        (sortTable bt).map fun (b, tip) =>
          let ch := natsStr "c#" (chain s id tip)
          match snapshot s id tip with
          | none => s!"(branch p#{id} k{b} c#{tip} chain={ch} unreadable)"
          | some objs =>
            let os := (sortTable (objs.map fun o => (o, 0))).map (·.1)
            s!"(branch p#{id} k{b} c#{tip} chain={ch} objs={natsStr "o" os})"

/-! ### Line protocol (shared by the C12 and C17 drivers)

  `(run (clients (<c> <op> …) …) (sched <c> …))` where `<op>` is one of
  `(createPool lbl name) (renamePool plbl name) (removePool plbl) (createBranch plbl name parentLbl)
   (removeBranch plbl name) (load plbl branch obj lbl) (delete plbl branch lbl obj …)`. -/

def natOf : Sexp → Option Nat
  | .atom a => a.toNat?
  | _ => none

def opOf : Sexp → Option ApiOp
  | .list (.atom "createPool" :: [a, b]) => do pure (.createPool (← natOf a) (← natOf b))
  | .list (.atom "renamePool" :: [a, b]) => do pure (.renamePool (← natOf a) (← natOf b))
  | .list (.atom "removePool" :: [a]) => do pure (.removePool (← natOf a))
  | .list (.atom "createBranch" :: [a, b, c]) => do pure (.createBranch (← natOf a) (← natOf b) (← natOf c))
  | .list (.atom "removeBranch" :: [a, b]) => do pure (.removeBranch (← natOf a) (← natOf b))
  | .list (.atom "load" :: [a, b, c, d]) => do pure (.load (← natOf a) (← natOf b) (← natOf c) (← natOf d))
  | .list (.atom "delete" :: a :: b :: c :: objs) => do
    pure (.delete (← natOf a) (← natOf b) (← objs.mapM natOf) (← natOf c))
  | .list (.atom "compact" :: a :: b :: c :: n :: objs) => do
    pure (.compact (← natOf a) (← natOf b) (← objs.mapM natOf) (← natOf n) (← natOf c))
  | _ => none

def clientOf : Sexp → Option (Nat × List ApiOp)
  | .list (c :: ops) => do pure (← natOf c, ← ops.mapM opOf)
  | _ => none

def handleRunMode (fill : Bool) (cls sch : List Sexp) : String :=
    match cls.mapM clientOf, sch.mapM natOf with
    | some cls, some sch =>
      let api : Nat → ApiClient := fun c => match cls.lookup c with
        | some ops => { ops := ops }
        | none => {}
      let d : Drv := { sys := Sys.init, api := api, fill := fill }
      let d := runSched d sch
      let left := cls.filterMap fun (c, _) =>
        let a := d.api c
        if a.ops.isEmpty && (d.sys.cl c).proc.isNone then none else some s!"(left {c} {a.opIdx})"
      let fin := if d.broken then ["(broken empty-entry-read)"] else finalState d.sys.store
      "(ok (trace " ++ " ".intercalate d.trace.toList ++ ") (results " ++ " ".intercalate d.results.toList ++
        ") (final " ++ " ".intercalate fin ++ ") (left " ++ " ".intercalate left ++ "))"
    | _, _ => "bad-op"

def handleRun : List Sexp → String
  | [.atom "run", .list (.atom "clients" :: cls), .list (.atom "sched" :: sch)] => handleRunMode false cls sch
  | [.atom "runfill", .list (.atom "clients" :: cls), .list (.atom "sched" :: sch)] => handleRunMode true cls sch
  | _ => "bad-op"

end Zed.Store
