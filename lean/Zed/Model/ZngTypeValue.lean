import Zed.Model.ZngTypes
/-!
  `zed.Context.DecodeTypeValue` / `LookupByValue` (`context.go`) on untrusted bytes, for a fresh
  context: self-describing type values (`TypeValue*` codes, `NameDef`/`NameRef` with the context's
  name table, `Max*` limits).  Types are structural (C05 is about canonicity), the name table is
  a list with the latest binding first.  Where the Go code panics the model returns the site.

  The decoder takes fuel; `typevalue_decode_total` (Props/C11) shows `length + 1` always suffices,
  because every recursive call and every loop iteration first consumes a byte.
-/
namespace Zed.Zng.TV
open Zed.Zng Zed.Generated.C01

abbrev Defs := List (Bytes × ZTy)

inductive Res (α : Type) where
  | ok (a : α) (rest : Bytes) (defs : Defs)
  | fail                     -- `return nil, nil`
  | panic (site : String)
  | fuelOut
  deriving Repr

/-- `DecodeLength`: a uvarint converted to `int`; `binary.Uvarint` fails on an empty, truncated or
    overlong varint. -/
def decLength (tv : Bytes) : Option (Int × Bytes) :=
  match readUvarint tv with
  | .ok (u, r) => some (asInt u, r)
  | .error _ => none

/-- `DecodeName`: `namelen > len(tv)` is a signed comparison, so a negative length passes and
    `tv[:namelen]` panics. -/
def decName (tv : Bytes) : Res Bytes :=
  match decLength tv with
  | none => .fail
  | some (n, r) =>
    if n > (r.length : Int) then .fail
    else if n < 0 then .panic "typevalue-negative-name-length"
    else .ok (r.take n.toNat) (r.drop n.toNat) []

def lookupDef (defs : Defs) (name : Bytes) : Option ZTy :=
  match defs with
  | [] => none
  | (n, t) :: r => if n = name then some t else lookupDef r name

/-- enum symbols: `for k := 0; k < n; k++ { DecodeName }` -/
def decSyms : Nat → Bytes → Res (List Bytes)
  | 0, tv => .ok [] tv []
  | n + 1, tv =>
    match decName tv with
    | .ok s r _ =>
      match decSyms n r with
      | .ok ss r2 _ => .ok (s :: ss) r2 []
      | .fail => .fail
      | .panic p => .panic p
      | .fuelOut => .fuelOut
    | .fail => .fail
    | .panic p => .panic p
    | .fuelOut => .fuelOut

mutual
def decTV : Nat → Defs → Bytes → Res ZTy
  | 0, _, _ => .fuelOut
  | _ + 1, _, [] => .fail
  | fuel + 1, defs, id :: tv =>
    let c := id.toNat
    if c = typeValueNameDef then
      match decName tv with
      | .ok name r _ =>
        match decTV fuel defs r with
        | .ok t r2 defs2 =>
          if validTypeName name then .ok (.named name t) r2 ((name, .named name t) :: defs2) else .fail
        | e => e
      | .fail => .fail
      | .panic p => .panic p
      | .fuelOut => .fuelOut
    else if c = typeValueNameRef then
      match decName tv with
      | .ok name r _ =>
        match lookupDef defs name with
        | some t => .ok t r defs
        | none => .fail
      | .fail => .fail
      | .panic p => .panic p
      | .fuelOut => .fuelOut
    else if c = typeValueRecord then
      match decLength tv with
      | none => .fail
      | some (n, r) =>
        if n > (maxRecordFields : Int) then .fail
        else if n < 0 then .panic "typevalue-negative-count"       -- make([]Field, 0, n)
        else match decFields fuel n.toNat defs r with
          | .ok fs r2 defs2 =>
            if hasDup (fs.map (·.1)) then .fail else .ok (.record (ZFields.ofList fs)) r2 defs2
          | .fail => .fail
          | .panic p => .panic p
          | .fuelOut => .fuelOut
    else if c = typeValueArray then
      match decTV fuel defs tv with
      | .ok t r d => .ok (.array t) r d
      | e => e
    else if c = typeValueSet then
      match decTV fuel defs tv with
      | .ok t r d => .ok (.set t) r d
      | e => e
    else if c = typeValueError then
      match decTV fuel defs tv with
      | .ok t r d => .ok (.error t) r d
      | e => e
    else if c = typeValueMap then
      match decTV fuel defs tv with
      | .ok k r d =>
        match decTV fuel d r with
        | .ok v r2 d2 => .ok (.map k v) r2 d2
        | e => e
      | e => e
    else if c = typeValueUnion then
      match decLength tv with
      | none => .fail
      | some (n, r) =>
        if n > (maxUnionTypes : Int) then .fail
        else if n < 0 then .panic "typevalue-negative-count"       -- make([]Type, 0, n)
        else match decMembers fuel n.toNat defs r with
          | .ok ts r2 defs2 => .ok (.union (ZTys.ofList (sortTys ts))) r2 defs2
          | .fail => .fail
          | .panic p => .panic p
          | .fuelOut => .fuelOut
    else if c = typeValueEnum then
      match decLength tv with
      | none => .fail
      | some (n, r) =>
        if n > (maxEnumSymbols : Int) then .fail
        else match decSyms n.toNat r with
          | .ok ss r2 _ => .ok (.enum ss) r2 defs
          | .fail => .fail
          | .panic p => .panic p
          | .fuelOut => .fuelOut
    else if primitiveIDs.contains c then .ok (.prim c) tv defs
    else .fail
/-- record fields: name, then type, `n` times -/
def decFields : Nat → Nat → Defs → Bytes → Res (List (Bytes × ZTy))
  | 0, _, _, _ => .fuelOut
  | _ + 1, 0, defs, tv => .ok [] tv defs
  | fuel + 1, n + 1, defs, tv =>
    match decName tv with
    | .ok name r _ =>
      match decTV fuel defs r with
      | .ok t r2 defs2 =>
        match decFields fuel n defs2 r2 with
        | .ok fs r3 defs3 => .ok ((name, t) :: fs) r3 defs3
        | .fail => .fail
        | .panic p => .panic p
        | .fuelOut => .fuelOut
      | .fail => .fail
      | .panic p => .panic p
      | .fuelOut => .fuelOut
    | .fail => .fail
    | .panic p => .panic p
    | .fuelOut => .fuelOut
/-- union members: the Go loop does not test the result of a member decode; a failed member is
    appended as nil and `LookupTypeUnion` then panics on it -/
def decMembers : Nat → Nat → Defs → Bytes → Res (List ZTy)
  | 0, _, _, _ => .fuelOut
  | _ + 1, 0, defs, tv => .ok [] tv defs
  | fuel + 1, n + 1, defs, tv =>
    match decTV fuel defs tv with
    | .ok t r defs2 =>
      match decMembers fuel n defs2 r with
      | .ok ts r2 defs3 => .ok (t :: ts) r2 defs3
      | e => e
    | .fail => .panic "typevalue-union-nil-member"
    | .panic p => .panic p
    | .fuelOut => .fuelOut
end

/-- `Context.LookupByValue` on a fresh context (trailing bytes are not looked at) -/
def lookupByValue (tv : Bytes) : Res ZTy := decTV (tv.length + 1) [] tv

end Zed.Zng.TV
