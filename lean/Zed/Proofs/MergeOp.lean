import Zed.Model.MergeOp
import Zed.Proofs.Merge
/-! every run of `merge.Op` the replay model accepts is a `MergeRun`; hence sorted and a permutation
    (`mergeOp_sorted`). -/
namespace Zed
open List

section
variable {α : Type} (le : α → α → Bool)

def mabs (ps : MState α) : List (List α) := ps.map List.flatten

theorem headOf_eq : (p : List (List α)) → (∀ b ∈ p, b ≠ []) → headOf p = p.flatten.head?
  | [], _ => rfl
  | [] :: bs, h => absurd rfl (h [] (by simp))
  | (x :: r) :: bs, _ => by simp [headOf]

theorem othersGe_spec {ps : MState α} {i : Nat} {x : α} (h : othersGe le ps i x = true)
    (j : Nat) (q : List (List α)) (y : α) (hj : j ≠ i) (hq : ps[j]? = some q) (hy : headOf q = some y) :
    le x y = true := by
  unfold othersGe at h
  rw [all_eq_true] at h
  have := h (q, j) (mk_mem_zipIdx_iff_getElem?.mpr hq)
  simp only [Bool.or_eq_true, beq_iff_eq, hy] at this
  rcases this with e | e
  · exact absurd e hj
  · exact e

theorem mabs_getElem? (ps : MState α) (j : Nat) : (mabs ps)[j]? = (ps[j]?).map List.flatten := by
  simp [mabs]

theorem mabs_modify : (ps : MState α) → (i : Nat) → (f : List (List α) → List (List α)) → (p : List (List α)) →
    ps[i]? = some p → mabs (ps.modify i f) = (mabs ps).set i (f p).flatten
  | [], i, _, _, h => by simp at h
  | q :: ps, 0, f, p, h => by
    simp only [getElem?_cons_zero, Option.some.injEq] at h
    subst h; simp [mabs]
  | q :: ps, i+1, f, p, h => by
    simp only [getElem?_cons_succ] at h
    have ih := mabs_modify ps i f p h
    simp only [mabs] at ih ⊢
    simp [ih]

theorem noEmpty_modify {ps : MState α} {i : Nat} {f : List (List α) → List (List α)}
    (hn : MNoEmpty ps) (hf : ∀ p, (∀ b ∈ p, b ≠ []) → ∀ b ∈ f p, b ≠ []) : MNoEmpty (ps.modify i f) := by
  intro p hp
  obtain ⟨j, hj⟩ := mem_iff_getElem?.mp hp
  by_cases e : i = j
  · subst e
    rw [getElem?_modify_eq] at hj
    cases h : ps[i]? with
    | none => simp [h] at hj
    | some q =>
      rw [h] at hj
      have hj' : f q = p := by simpa using hj
      subst hj'
      exact hf q (hn q (mem_of_getElem? h))
  · rw [getElem?_modify_ne _ _ e] at hj
    exact hn p (mem_of_getElem? hj)

theorem noEmpty_popBatch {ps : MState α} (i : Nat) (hn : MNoEmpty ps) : MNoEmpty (popBatch ps i) :=
  noEmpty_modify hn (fun _ hp b hb => hp b (mem_of_mem_tail hb))

theorem popOneP_noEmpty : (p : List (List α)) → (∀ b ∈ p, b ≠ []) → ∀ b ∈ popOneP p, b ≠ []
  | [], _, b, hb => by simp [popOneP] at hb
  | [] :: bs, h, b, hb => h b (by simpa [popOneP] using hb)
  | (x :: []) :: bs, h, b, hb => h b (by simp only [popOneP] at hb; exact mem_cons_of_mem _ hb)
  | (x :: y :: r) :: bs, h, b, hb => by
    simp only [popOneP, mem_cons] at hb
    rcases hb with rfl | hb
    · simp
    · exact h b (mem_cons_of_mem _ hb)

theorem noEmpty_popOne {ps : MState α} (i : Nat) (hn : MNoEmpty ps) : MNoEmpty (popOne ps i) :=
  noEmpty_modify hn popOneP_noEmpty

theorem popOneP_flatten (x : α) (r : List α) (bs : List (List α)) :
    (popOneP ((x :: r) :: bs)).flatten = r ++ bs.flatten := by
  cases r <;> simp [popOneP]

theorem exhausted_spec {ps : MState α} (hn : MNoEmpty ps) (h : exhausted ps = true) : ∀ p ∈ mabs ps, p = [] := by
  intro p hp
  simp only [mabs, mem_map] at hp
  obtain ⟨q, hq, rfl⟩ := hp
  unfold exhausted at h
  rw [all_eq_true] at h
  have h1 := h q hq
  rw [headOf_eq q (hn q hq)] at h1
  cases hf : q.flatten with
  | nil => rfl
  | cons a b => simp [hf] at h1

/-- the `hmin` hypothesis of `MergeStep` from `othersGe` -/
theorem othersGe_abs {ps : MState α} (hn : MNoEmpty ps) {i : Nat} {x : α} (h : othersGe le ps i x = true) :
    ∀ j q y, j ≠ i → (mabs ps)[j]? = some q → q.head? = some y → le x y = true := by
  intro j q y hj hq hy
  rw [mabs_getElem?] at hq
  cases hp : ps[j]? with
  | none => simp [hp] at hq
  | some p =>
    simp only [hp, Option.map_some, Option.some.injEq] at hq
    subst hq
    rw [← headOf_eq p (hn p (mem_of_getElem? hp))] at hy
    exact othersGe_spec le h j p y hj hp hy

/-- one `Read` is a `MergeStep` emitting one value -/
theorem read_step {ps : MState α} (hn : MNoEmpty ps) {i : Nat} {x : α}
    (hm : minHead le ps i = true) (hx : (ps[i]?).bind headOf = some x) :
    MergeStep le (mabs ps) [x] (mabs (popOne ps i)) := by
  unfold minHead at hm
  rw [hx] at hm
  cases hp : ps[i]? with
  | none => simp [hp] at hx
  | some p =>
    simp only [hp, Option.bind_some] at hx
    match p, hx with
    | (x' :: r) :: bs, hx =>
      simp only [headOf, Option.some.injEq] at hx
      subst hx
      have e : mabs (popOne ps i) = (mabs ps).set i (r ++ bs.flatten) := by
        rw [popOne, mabs_modify ps i popOneP _ hp, popOneP_flatten]
      rw [e]
      have hp' : (mabs ps)[i]? = some (x' :: [] ++ (r ++ bs.flatten)) := by
        rw [mabs_getElem?, hp]; simp
      exact MergeStep.emit (mabs ps) i x' [] (r ++ bs.flatten) hp' (othersGe_abs le hn hm)
        (by intro z hz; simp at hz)

theorem replayReads_run {out : List α} : (obs : List Nat) → (ps : MState α) → (vs : List α) → (ps' : MState α) →
    MNoEmpty ps → replayReads le ps obs = some (vs, ps') → MergeRun le (mabs ps') out →
    MNoEmpty ps' ∧ MergeRun le (mabs ps) (vs ++ out)
  | [], ps, vs, ps', hn, h, hr => by
    simp only [replayReads, Option.some.injEq, Prod.mk.injEq] at h
    obtain ⟨rfl, rfl⟩ := h
    exact ⟨hn, hr⟩
  | i :: rest, ps, vs, ps', hn, h, hr => by
    simp only [replayReads] at h
    split at h
    · rename_i hm
      split at h
      · rename_i x hx
        cases hrr : replayReads le (popOne ps i) rest with
        | none => simp [hrr] at h
        | some r =>
          obtain ⟨vs1, ps1⟩ := r
          simp only [hrr, Option.map_some, Option.some.injEq, Prod.mk.injEq] at h
          obtain ⟨rfl, rfl⟩ := h
          have ih := replayReads_run rest (popOne ps i) vs1 ps1 (noEmpty_popOne i hn) hrr hr
          exact ⟨ih.1, MergeRun.step _ _ [x] _ (read_step le hn hm hx) ih.2⟩
      · simp at h
    · simp at h

theorem batch_step {ps : MState α} (hn : MNoEmpty ps) {i : Nat} {b : List α} {bs : List (List α)}
    (hp : ps[i]? = some (b :: bs)) (hm : minHead le ps i = true) (hb : batchRule le ps i = true) :
    MergeStep le (mabs ps) b (mabs (popBatch ps i)) := by
  have e : mabs (popBatch ps i) = (mabs ps).set i bs.flatten := by
    rw [popBatch, mabs_modify ps i List.tail _ hp]; rfl
  rw [e]
  match b, hp with
  | [], hp => exact absurd rfl (hn _ (mem_of_getElem? hp) [] (by simp))
  | x :: r, hp =>
    unfold minHead at hm
    simp only [hp, Option.bind_some, headOf] at hm
    unfold batchRule at hb
    simp only [hp] at hb
    have hp' : (mabs ps)[i]? = some (x :: r ++ bs.flatten) := by
      rw [mabs_getElem?, hp]; simp
    exact MergeStep.emit (mabs ps) i x r bs.flatten hp' (othersGe_abs le hn hm)
      (fun z _ => othersGe_abs le hn hb)

theorem acceptPull_run {limit : Nat} {ps ps' : MState α} {obs : List Nat} {vs out : List α}
    (hn : MNoEmpty ps) (h : acceptPull le limit ps obs = some (vs, ps')) (hr : MergeRun le (mabs ps') out) :
    MNoEmpty ps' ∧ MergeRun le (mabs ps) (vs ++ out) := by
  unfold acceptPull at h
  split at h
  · rename_i r hb
    simp only [Option.some.injEq] at h
    subst h
    unfold acceptBatchPath at hb
    split at hb
    · simp at hb
    · rename_i i _
      split at hb
      · rename_i b bs hp
        split at hb
        · rename_i hc
          simp only [Option.some.injEq, Prod.mk.injEq] at hb
          obtain ⟨rfl, rfl⟩ := hb
          simp only [Bool.and_eq_true] at hc
          exact ⟨noEmpty_popBatch i hn, MergeRun.step _ _ _ _ (batch_step le hn hp hc.1.2 hc.2) hr⟩
        · simp at hb
      · simp at hb
  · unfold acceptReadPath at h
    split at h
    · simp at h
    · split at h
      · simp at h
      · split at h
        · rename_i vs1 ps1 hrr
          split at h
          · simp only [Option.some.injEq, Prod.mk.injEq] at h
            obtain ⟨rfl, rfl⟩ := h
            exact replayReads_run le obs ps _ _ hn hrr hr
          · simp at h
        · simp at h

theorem replayReads_noEmpty : (obs : List Nat) → (ps : MState α) → (vs : List α) → (ps' : MState α) →
    MNoEmpty ps → replayReads le ps obs = some (vs, ps') → MNoEmpty ps'
  | [], ps, vs, ps', hn, h => by
    simp only [replayReads, Option.some.injEq, Prod.mk.injEq] at h
    rw [← h.2]; exact hn
  | i :: rest, ps, vs, ps', hn, h => by
    simp only [replayReads] at h
    split at h
    · split at h
      · cases hrr : replayReads le (popOne ps i) rest with
        | none => simp [hrr] at h
        | some r =>
          obtain ⟨vs1, ps1⟩ := r
          simp only [hrr, Option.map_some, Option.some.injEq, Prod.mk.injEq] at h
          rw [← h.2]
          exact replayReads_noEmpty rest (popOne ps i) vs1 ps1 (noEmpty_popOne i hn) hrr
      · simp at h
    · simp at h

theorem acceptPull_noEmpty {limit : Nat} {ps ps' : MState α} {obs : List Nat} {vs : List α}
    (hn : MNoEmpty ps) (h : acceptPull le limit ps obs = some (vs, ps')) : MNoEmpty ps' := by
  unfold acceptPull at h
  split at h
  · rename_i r hb
    simp only [Option.some.injEq] at h
    subst h
    unfold acceptBatchPath at hb
    split at hb
    · simp at hb
    · rename_i i _
      split at hb
      · split at hb
        · simp only [Option.some.injEq, Prod.mk.injEq] at hb
          rw [← hb.2]; exact noEmpty_popBatch i hn
        · simp at hb
      · simp at hb
  · unfold acceptReadPath at h
    split at h
    · simp at h
    · split at h
      · simp at h
      · split at h
        · rename_i vs1 ps1 hrr
          split at h
          · simp only [Option.some.injEq, Prod.mk.injEq] at h
            rw [← h.2]
            exact replayReads_noEmpty le obs ps _ _ hn hrr
          · simp at h
        · simp at h

theorem acceptRun_run (limit : Nat) : (obs : List (List Nat)) → (ps : MState α) → (outs : List (List α)) →
    MNoEmpty ps → acceptRun le limit ps obs = some outs → MergeRun le (mabs ps) outs.flatten
  | [], ps, outs, hn, h => by
    simp only [acceptRun] at h
    split at h
    · rename_i he
      simp only [Option.some.injEq] at h
      subst h
      exact MergeRun.done _ (exhausted_spec hn he)
    · simp at h
  | o :: os, ps, outs, hn, h => by
    simp only [acceptRun] at h
    split at h
    · rename_i vs ps' hp
      cases hr : acceptRun le limit ps' os with
      | none => simp [hr] at h
      | some outs' =>
        simp only [hr, Option.map_some, Option.some.injEq] at h
        subst h
        have hn' : MNoEmpty ps' := acceptPull_noEmpty le hn hp
        have ih := acceptRun_run limit os ps' outs' hn' hr
        simp only [flatten_cons]
        exact (acceptPull_run le hn hp ih).2
    · simp at h

/-- **mergeOp_sorted**: every sequence of `Pull` results the rules of `merge.Op` allow — whichever
    minimal parent the heap returns at every pop and at every `Read` — is sorted and delivers every
    input value exactly once, when each parent is sorted and `le` is transitive on the values. -/
theorem mergeOp_sorted_on (P : α → Prop)
    (trans : ∀ a b c, P a → P b → P c → le a b = true → le b c = true → le a c = true)
    (refl : ∀ a, le a a = true) (limit : Nat) (ps : MState α) (obs : List (List Nat)) (outs : List (List α))
    (hn : MNoEmpty ps) (h : acceptRun le limit ps obs = some outs)
    (hP : ∀ p ∈ ps, ∀ b ∈ p, ∀ a ∈ b, P a)
    (hs : ∀ p ∈ ps, p.flatten.Pairwise (fun a b => le a b = true)) :
    outs.flatten.Pairwise (fun a b => le a b = true) ∧ outs.flatten.Perm (ps.map List.flatten).flatten := by
  refine merge_sorted_on le P trans refl (mabs ps) outs.flatten (acceptRun_run le limit obs ps outs hn h) ?_ ?_
  · intro p hp a ha
    simp only [mabs, mem_map] at hp
    obtain ⟨q, hq, rfl⟩ := hp
    obtain ⟨b, hb, hab⟩ := mem_flatten.mp ha
    exact hP q hq b hb a hab
  · intro p hp
    simp only [mabs, mem_map] at hp
    obtain ⟨q, hq, rfl⟩ := hp
    exact hs q hq
end

/-- non-vacuity: a run that uses the batch path, then the read path (parent 0's batch `[3, 9]`
    overlaps parent 1's head 5), is accepted; taking the whole batch there is not. -/
example : acceptRun Nat.ble 100 [[[1, 2], [3, 9]], [[5], [7]]] [[0, 0], [0, 1, 1, 0]] = some [[1, 2], [3, 5, 7, 9]] := by decide
example : acceptRun Nat.ble 100 [[[1, 2], [3, 9]], [[5], [7]]] [[0, 0], [0, 0], [1], [1]] = none := by decide
/-- the read path stops at the value limit -/
example : acceptRun Nat.ble 2 [[[3, 9]], [[5], [7]]] [[0, 1], [1], [0]] = some [[3, 5], [7], [9]] := by decide
example : acceptRun Nat.ble 2 [[[3, 9]], [[5], [7]]] [[0, 1, 1], [0]] = none := by decide
end Zed
