package main

// sched: the real scatter under adversarial, scripted assignments of objects to legs.
//
// The lake lives on a storage.Engine wrapper whose Get of a DATA OBJECT passes through a gate.
// A script is a permutation of the pool's objects: the order in which their opens are allowed
// to complete.  A gated Get blocks until every object earlier in the script has been opened;
// a leg that is held in Get keeps the object (or partition) it was handed while the other legs
// drain the shared lister/slicer.  Stall rule: when calls are waiting and none completed for
// ~15 ms (merge needs a first batch from every leg; legs only pull when downstream consumes),
// the waiting call earliest in the script is released ("forced"; a statistic, never a failure).
// The gate logs, per open: object, goroutine, start order, completion order.

import (
	"context"
	"encoding/hex"
	"encoding/json"
	"fmt"
	"math/rand"
	"os"
	"path"
	"runtime"
	"sort"
	"strconv"
	"strings"
	"sync"
	"time"
	. "verifharness/hlib"

	"github.com/brimdata/super/lake"
	lakeapi "github.com/brimdata/super/lake/api"
	"github.com/brimdata/super/pkg/storage"
	"github.com/segmentio/ksuid"
	"go.uber.org/zap"
)

type gateEvent struct {
	Obj    string // ksuid text
	Gor    int64  // goroutine that called Get (= the leg)
	Start  int    // order in which the opens started
	Done   int    // order in which they were allowed to complete
	Forced bool
}

type gwaiter struct {
	rank int
	ch   chan struct{}
	ev   *gateEvent
}

type gateEngine struct {
	storage.Engine
	mu        sync.Mutex
	active    bool
	rank      map[string]int // data object (ksuid text) -> position in the script
	completed map[int]bool
	next      int
	waiters   []*gwaiter
	events    []*gateEvent
	nstart    int
	ndone     int
	last      time.Time
	forced    int
	stop      chan struct{}
	stall     time.Duration
}

func goid() int64 {
	var buf [64]byte
	n := runtime.Stack(buf[:], false)
	f := strings.Fields(string(buf[:n]))
	if len(f) >= 2 {
		id, _ := strconv.ParseInt(f[1], 10, 64)
		return id
	}
	return -1
}

func (g *gateEngine) releaseLocked(w *gwaiter, forced bool) {
	for i, x := range g.waiters {
		if x == w {
			g.waiters = append(g.waiters[:i], g.waiters[i+1:]...)
			break
		}
	}
	g.completed[w.rank] = true
	for g.completed[g.next] {
		g.next++
	}
	w.ev.Done = g.ndone
	w.ev.Forced = forced
	g.ndone++
	g.last = time.Now()
	if forced {
		g.forced++
	}
	close(w.ch)
}

// pumpLocked releases every waiter whose turn it is.
func (g *gateEngine) pumpLocked() {
	for again := true; again; {
		again = false
		for _, w := range g.waiters {
			if w.rank == g.next || g.completed[w.rank] {
				g.releaseLocked(w, false)
				again = true
				break
			}
		}
	}
}

func (g *gateEngine) Get(ctx context.Context, u *storage.URI) (storage.Reader, error) {
	name := strings.TrimSuffix(path.Base(u.Path), ".zng")
	g.mu.Lock()
	r, ok := g.rank[name]
	if !g.active || !ok {
		g.mu.Unlock()
		return g.Engine.Get(ctx, u)
	}
	ev := &gateEvent{Obj: name, Gor: goid(), Start: g.nstart, Done: -1}
	g.nstart++
	g.events = append(g.events, ev)
	w := &gwaiter{rank: r, ch: make(chan struct{}), ev: ev}
	g.waiters = append(g.waiters, w)
	g.pumpLocked()
	g.mu.Unlock()
	select {
	case <-w.ch:
	case <-ctx.Done():
		return nil, ctx.Err()
	}
	return g.Engine.Get(ctx, u)
}

// arm starts gating with the given script (object ksuid texts in allowed completion order).
func (g *gateEngine) arm(script []string) {
	g.mu.Lock()
	defer g.mu.Unlock()
	g.rank = map[string]int{}
	for i, o := range script {
		g.rank[o] = i
	}
	g.completed = map[int]bool{}
	g.next, g.nstart, g.ndone, g.forced = 0, 0, 0, 0
	g.waiters, g.events = nil, nil
	g.last = time.Now()
	g.active = true
	g.stop = make(chan struct{})
	go g.watchdog(g.stop)
}

func (g *gateEngine) watchdog(stop chan struct{}) {
	t := time.NewTicker(3 * time.Millisecond)
	defer t.Stop()
	for {
		select {
		case <-stop:
			return
		case <-t.C:
		}
		g.mu.Lock()
		if g.active && len(g.waiters) > 0 && time.Since(g.last) >= g.stall {
			best := g.waiters[0]
			for _, w := range g.waiters {
				if w.rank < best.rank {
					best = w
				}
			}
			g.releaseLocked(best, true)
			g.pumpLocked()
		}
		g.mu.Unlock()
	}
}

// disarm stops gating, lets every waiter through and returns the log.
func (g *gateEngine) disarm() (events []gateEvent, forced int) {
	g.mu.Lock()
	defer g.mu.Unlock()
	if g.stop != nil {
		close(g.stop)
		g.stop = nil
	}
	g.active = false
	for _, w := range g.waiters {
		close(w.ch)
	}
	g.waiters = nil
	for _, e := range g.events {
		events = append(events, *e)
	}
	return events, g.forced
}

func newGateLake() (*TLake, *gateEngine, error) {
	dir, err := os.MkdirTemp("", "zvh-gatelake-")
	if err != nil {
		return nil, nil, err
	}
	uri, err := storage.ParseURI(dir)
	if err != nil {
		return nil, nil, err
	}
	eng := &gateEngine{Engine: storage.NewLocalEngine(), stall: 15 * time.Millisecond}
	root, err := lake.Create(context.Background(), eng, zap.NewNop(), uri)
	if err != nil {
		os.RemoveAll(dir)
		return nil, nil, err
	}
	return &TLake{Dir: dir, LK: lakeapi.FromRoot(root), Root: root}, eng, nil
}

// ---- scripts --------------------------------------------------------------------------------

var scriptNames = []string{"hold-first", "reverse", "evens-then-odds", "swap-pairs", "hold-every-pth", "hold-first-half", "random", "random", "identity"}

// scriptPerm returns the allowed completion order as indexes into the lister order.
func scriptPerm(r *rand.Rand, name string, n, p int) []int {
	id := make([]int, n)
	for i := range id {
		id[i] = i
	}
	var out []int
	switch name {
	case "identity":
		return id
	case "hold-first":
		return append(id[1:], 0)
	case "reverse":
		for i := n - 1; i >= 0; i-- {
			out = append(out, i)
		}
	case "evens-then-odds":
		for i := 0; i < n; i += 2 {
			out = append(out, i)
		}
		for i := 1; i < n; i += 2 {
			out = append(out, i)
		}
	case "swap-pairs":
		for i := 0; i < n; i += 2 {
			if i+1 < n {
				out = append(out, i+1)
			}
			out = append(out, i)
		}
	case "hold-every-pth":
		var held []int
		for i := 0; i < n; i++ {
			if i%p == 0 {
				held = append(held, i)
			} else {
				out = append(out, i)
			}
		}
		out = append(out, held...)
	case "hold-first-half":
		out = append(out, id[n/2:]...)
		out = append(out, id[:n/2]...)
	default:
		out = r.Perm(n)
	}
	return out
}

// ---- one pool ----------------------------------------------------------------------------------

type schedRun struct {
	Prog   int
	Par    int
	Script string
	Perm   []int
	GMP    int // 0 = leave as is
}

type schedObs struct {
	run      schedRun
	how      string
	what     string
	class    string
	panicked bool
	events   []gateEvent
	forced   int
	out      []outRec
	shape    string
}

type schedPool struct {
	spec    *poolSpec
	lake    *TLake
	eng     *gateEngine
	name    string
	err     error
	objs    []objInfo  // lister order at build time
	parts   []partInfo // slicer partitions
	ks      []string   // ksuid text per objs index
	loadOf  map[string]int
	progs   []prog
	refs    []refRes
	shapes  map[string]string
	runs    []schedRun
	obs     []schedObs
	tieFree bool
	idPos   map[int64]int
}

func ksText(hexID string) string {
	b, err := hex.DecodeString(hexID)
	if err != nil {
		return hexID
	}
	id, err := ksuid.FromBytes(b)
	if err != nil {
		return hexID
	}
	return id.String()
}

func schedProgs(r *rand.Rand, sp *poolSpec) []prog {
	g := newProgGen(r, sp)
	K := sp.Key
	n := func() int { return []int{1, 2, 3, 5, 9}[r.Intn(5)] }
	ht := func(q prog, h string, n int) prog {
		q.HT, q.N, q.Base = h, n, q.Body
		q.Body = join(q.Body, fmt.Sprintf("%s %d", h, n))
		return q
	}
	return []prog{
		g.seq("filter-id", "where id >= 0", K),
		ht(g.seq("filter-head", fmt.Sprintf("where v > %d", r.Intn(4)), K), "head", n()),
		ht(g.seq("tail", "", K), "tail", n()),
		g.seq("cut-keeps-key", "cut "+K+", v", K),
		g.seq("summarize-by-key", "summarize count() by "+K, K),
		g.ms("summarize-by-g", "summarize sum(v), count() by g"),
		ht(g.seq("sort-head", "sort v", "v"), "head", n()),
		g.ms("summarize-nokey", "where id >= 0 | summarize s:=sum(v), c:=count()"),
	}
}

func (sp *schedPool) prepare() {
	sp.lake, sp.eng, sp.err = newGateLake()
	if sp.err != nil {
		return
	}
	sp.name, _, sp.err = buildPoolOn(sp.lake, sp.spec)
	if sp.err != nil {
		return
	}
	l := sp.lake
	ovals, err := queryVals(l, "from "+sp.name+"@main:objects", 1)
	if err != nil {
		sp.err = err
		return
	}
	for _, v := range ovals {
		o := objOf(v)
		sp.objs = append(sp.objs, o)
		sp.ks = append(sp.ks, ksText(o.ID))
	}
	pvals, err := queryVals(l, "from "+sp.name+"@main:partitions", 1)
	if err != nil {
		sp.err = err
		return
	}
	for _, v := range pvals {
		sp.parts = append(sp.parts, partOf(v))
	}
	lvals, err := queryVals(l, "from "+sp.name+"@main:rawlog", 1)
	if err != nil {
		sp.err = err
		return
	}
	sp.loadOf = map[string]int{}
	i := 0
	for _, v := range lvals {
		u := v.Under()
		if o := u.Deref("object"); o != nil {
			sp.loadOf[ksText(objOf(*o).ID)] = i
			i++
		}
	}
	sp.tieFree, sp.idPos = sp.spec.tieFree(), sp.spec.idPos()
	sp.refs = make([]refRes, len(sp.progs))
	sp.shapes = map[string]string{}
	for pi, q := range sp.progs {
		sp.refs[pi] = computeRef(l, sp.name, q, sp.idPos)
	}
}

// runOne executes one scripted query and the oracle comparison.
func (sp *schedPool) runOne(rs schedRun) schedObs {
	q := sp.progs[rs.Prog]
	ob := schedObs{run: rs}
	key := fmt.Sprintf("%d:%d", rs.Prog, rs.Par)
	if s, ok := sp.shapes[key]; ok {
		ob.shape = s
	} else {
		ob.shape, _ = planShape(sp.lake, q.query(sp.name, q.Body), rs.Par)
		sp.shapes[key] = ob.shape
	}
	script := make([]string, len(rs.Perm))
	for i, j := range rs.Perm {
		script[i] = sp.ks[j]
	}
	sp.eng.arm(script)
	out, err, panicked := queryRecs(sp.lake, q.query(sp.name, q.Body), rs.Par, q.Tie, sp.idPos)
	ob.events, ob.forced = sp.eng.disarm()
	ob.out = out
	if panicked && !sp.refs[rs.Prog].panicked {
		ob.panicked, ob.how, ob.what, ob.class = true, "panic", err.Error(), q.Class
		return ob
	}
	how, what, _ := judge(sp.tieFree, q, sp.refs[rs.Prog], out, err)
	if how != "" {
		ob.how, ob.what, ob.class = how, what, q.Class
	}
	return ob
}

type schedReplay struct {
	Check  string    `json:"check"`
	Pool   *poolSpec `json:"pool"`
	Prog   prog      `json:"prog"`
	Par    int       `json:"parallelism"`
	GMP    int       `json:"gomaxprocs"`
	Script string    `json:"script"`
	Perm   []int     `json:"completion_order"`
	Query  string    `json:"query"`
	Log    []string  `json:"gate_log,omitempty"`
}

func (sp *schedPool) replayOf(ob schedObs) schedReplay {
	q := sp.progs[ob.run.Prog]
	var log []string
	for _, e := range ob.events {
		log = append(log, fmt.Sprintf("obj#%d goroutine=%d start=%d done=%d forced=%v", sp.indexOf(e.Obj), e.Gor, e.Start, e.Done, e.Forced))
	}
	return schedReplay{Check: "sched", Pool: sp.spec, Prog: q, Par: ob.run.Par, GMP: ob.run.GMP, Script: ob.run.Script, Perm: ob.run.Perm, Query: q.query("POOL", q.Body), Log: log}
}

func (sp *schedPool) indexOf(ks string) int {
	for i, k := range sp.ks {
		if k == ks {
			return i
		}
	}
	return -1
}

// analyse checks one observation (single-threaded: uses Ctx and the model).
func (sp *schedPool) analyse(c *Ctx, ob schedObs) {
	q := sp.progs[ob.run.Prog]
	ord := "asc"
	if sp.spec.Desc {
		ord = "desc"
	}
	gm := "gmp-default"
	if ob.run.GMP > 0 {
		gm = fmt.Sprintf("gmp%d", ob.run.GMP)
	}
	c.Eval(fmt.Sprintf("sched:%s:%s:%s:p%d:%s:%s:%s", sp.spec.Shape, ord, q.Class, ob.run.Par, ob.run.Script, gm, fmt.Sprint(ob.run.Perm)))
	c.Stat("sched:runs")
	c.Stat("sched:script:" + ob.run.Script)
	c.Stat("sched:prog:" + q.Class)
	c.Stat(fmt.Sprintf("sched:parallelism:%d", ob.run.Par))
	c.Stat("sched:" + gm)
	c.Stat("sched:plan:" + strings.TrimPrefix(ob.shape, "lister|"))
	c.StatN("sched:forced-releases", ob.forced)
	c.StatN("sched:gated-opens", len(ob.events))
	rp := sp.replayOf(ob)
	if ob.how != "" {
		kind := "oracle"
		if ob.panicked {
			kind = "panic"
		}
		c.Fail(kind, "C08:sched:"+ob.class+":"+ob.how, fmt.Sprintf("`%s` at parallelism %d under script %s %v (%s pool, %d objects): %s", q.query("POOL", q.Body), ob.run.Par, ob.run.Script, ob.run.Perm, ord, len(sp.objs), ob.what), rp)
		return
	}
	if sp.refs[ob.run.Prog].err != nil {
		return
	}
	// how adversarial was the realised schedule: number of legs, largest share of one leg,
	// objects opened while object 0's leg was held
	legOf := map[int64]int{}
	perLeg := map[int]int{}
	evs := append([]gateEvent(nil), ob.events...)
	sort.Slice(evs, func(i, j int) bool { return evs[i].Start < evs[j].Start })
	for _, e := range evs {
		if _, ok := legOf[e.Gor]; !ok {
			legOf[e.Gor] = len(legOf)
		}
		perLeg[legOf[e.Gor]]++
	}
	c.Stat(fmt.Sprintf("sched:legs-used:%d", len(legOf)))
	if len(evs) > 0 {
		mx := 0
		for _, n := range perLeg {
			if n > mx {
				mx = n
			}
		}
		switch share := mx * 100 / len(evs); {
		case share >= 90:
			c.Stat("sched:max-leg-share:>=90%")
		case share >= 60:
			c.Stat("sched:max-leg-share:60-89%")
		default:
			c.Stat("sched:max-leg-share:<60%")
		}
	}
	// exactly once on the real scatter
	complete := q.HT != "head"
	seen := map[string]int{}
	for _, e := range evs {
		seen[e.Obj]++
	}
	for k, n := range seen {
		if n > 1 {
			c.Fail("oracle", "C08:sched:exactly-once-dup", fmt.Sprintf("`%s` at parallelism %d, script %s: data object #%d opened %d times", q.query("POOL", q.Body), ob.run.Par, ob.run.Script, sp.indexOf(k), n), rp)
			return
		}
	}
	if complete {
		for i, k := range sp.ks {
			if seen[k] == 0 {
				c.Fail("oracle", "C08:sched:exactly-once-missing", fmt.Sprintf("`%s` at parallelism %d, script %s: data object #%d never opened", q.query("POOL", q.Body), ob.run.Par, ob.run.Script, i), rp)
				return
			}
		}
	}
	// every leg opens its objects in lister order (objects with identical ranges form one
	// position class: their relative order is not fixed by the code)
	cls := map[string]int{}
	pos := map[string]int{}
	for i, o := range sp.objs {
		k := o.MinT + "|" + o.MaxT
		if _, ok := cls[k]; !ok {
			cls[k] = len(cls)
		}
		pos[sp.ks[i]] = cls[k]
	}
	last := map[int64]int{}
	for _, e := range evs {
		if p, ok := last[e.Gor]; ok && pos[e.Obj] < p {
			c.Fail("oracle", "C08:sched:leg-order", fmt.Sprintf("`%s` at parallelism %d, script %s: goroutine %d opened object #%d (position class %d) after position class %d", q.query("POOL", q.Body), ob.run.Par, ob.run.Script, e.Gor, sp.indexOf(e.Obj), pos[e.Obj], p), rp)
			return
		}
		last[e.Gor] = pos[e.Obj]
	}
	c.Res.ModelCases++ // the real hand-out satisfies the model's invariant: each item to exactly one leg, per-leg subsequences of the lister order
	slicer := strings.Contains(ob.shape, "slicer")
	partOfObj := map[string]int{}
	for pi, p := range sp.parts {
		for _, o := range p.Objs {
			partOfObj[ksText(o.ID)] = pi
		}
	}
	if slicer {
		// a partition is handed to one leg and opened as a whole
		legOfPart := map[int]int64{}
		for i, e := range evs {
			pi := partOfObj[e.Obj]
			if g, ok := legOfPart[pi]; ok && g != e.Gor {
				c.Fail("oracle", "C08:sched:partition-split", fmt.Sprintf("`%s` at parallelism %d, script %s: partition %d opened by goroutines %d and %d", q.query("POOL", q.Body), ob.run.Par, ob.run.Script, pi, g, e.Gor), rp)
				return
			}
			legOfPart[pi] = e.Gor
			_ = i
		}
	}
	if !complete || len(legOf) > ob.run.Par || len(evs) == 0 {
		if len(legOf) > ob.run.Par {
			c.Stat("sched:model-skipped-more-goroutines-than-legs")
		}
		return
	}
	// model with the REALISED schedule: item i (lister / partition order) went to leg sched[i]
	sign := 1
	if sp.spec.Desc {
		sign = -1
	}
	ints := func(xs []int) string {
		var s []string
		for _, x := range xs {
			s = append(s, strconv.Itoa(x))
		}
		return "(" + strings.Join(s, " ") + ")"
	}
	gorOf := map[string]int64{}
	startOf := map[string]int{}
	for _, e := range evs {
		gorOf[e.Obj] = e.Gor
		startOf[e.Obj] = e.Start
	}
	switch {
	case q.Class == "filter-id" && strings.Contains(ob.shape, "|merge"):
		var sched []int
		var items []string
		for _, p := range sp.parts {
			var ks []int
			for _, o := range p.Objs {
				for _, x := range sp.spec.Recs[sp.loadOf[ksText(o.ID)]] {
					k, _ := strconv.Atoi(x.K)
					ks = append(ks, sign*k)
				}
			}
			sort.Ints(ks)
			items = append(items, ints(ks))
			sched = append(sched, legOf[gorOf[ksText(p.Objs[0].ID)]])
		}
		var real []int
		for _, r := range ob.out {
			k, err := strconv.ParseFloat(strings.TrimPrefix(r.Tie, "n:"), 64)
			if err != nil {
				return
			}
			real = append(real, sign*int(k))
		}
		req := fmt.Sprintf("(C08 scatter %d %s %s)", ob.run.Par, ints(sched), strings.Join(items, " "))
		ans := c.Model().Call(req)
		c.Res.ModelCases++
		c.Stat("sched:model-scatter")
		want := "merged=" + ints(real)
		if !strings.HasPrefix(ans, "remaining=0 ") || !strings.HasSuffix(ans, " "+want) {
			c.Fail("correspondence", "C08:sched:model-scatter", fmt.Sprintf("model scatter+merge under the realised assignment %v differs from the real output at parallelism %d (script %s): model %s, real %s", sched, ob.run.Par, ob.run.Script, short([]string{ans}), short([]string{want})),
				metaReplay{Check: "sched-model", What: "scatter", Pool: sp.spec, N: ob.run.Par, Req: req, Model: ans, Real: want})
		}
	case q.Class == "summarize-nokey" && len(ob.out) == 1:
		// items in hand-out order: position class, then start order
		idx := make([]int, len(sp.ks))
		for i := range idx {
			idx[i] = i
		}
		sort.SliceStable(idx, func(a, b int) bool {
			ka, kb := sp.ks[idx[a]], sp.ks[idx[b]]
			if pos[ka] != pos[kb] {
				return pos[ka] < pos[kb]
			}
			return startOf[ka] < startOf[kb]
		})
		var sched []int
		var items []string
		for _, i := range idx {
			var vs []int
			for _, x := range sp.spec.Recs[sp.loadOf[sp.ks[i]]] {
				vs = append(vs, x.VN)
			}
			items = append(items, ints(vs))
			sched = append(sched, legOf[gorOf[sp.ks[i]]])
		}
		req := fmt.Sprintf("(C08 partials %d %s %s)", ob.run.Par, ints(sched), strings.Join(items, " "))
		ans := c.Model().Call(req)
		c.Res.ModelCases++
		c.Stat("sched:model-partials")
		f := strings.Fields(ans)
		real := ob.out[0].Text
		if len(f) != 3 || f[0] != "remaining=0" || real != fmt.Sprintf("{s:%s,c:%s(uint64)}", f[1], f[2]) {
			c.Fail("correspondence", "C08:sched:model-partials", fmt.Sprintf("model partial sum/count under the realised assignment %v is %q, real result %s (parallelism %d, script %s)", sched, ans, real, ob.run.Par, ob.run.Script),
				metaReplay{Check: "sched-model", What: "partials", Pool: sp.spec, N: ob.run.Par, Req: req, Model: ans, Real: real})
		}
	}
}

func (sp *schedPool) close() {
	if sp.lake != nil {
		sp.lake.Close()
	}
}

func trimLoads(sp *poolSpec, max int) {
	if len(sp.Recs) > max {
		sp.Recs = sp.Recs[:max]
	}
}

func runSched(c *Ctx) {
	npools := c.N(4, 16)
	nprogs := c.N(3, 8)
	nscripts := c.N(4, 6)
	pools := make([]*schedPool, npools)
	for i := range pools {
		r := rand.New(rand.NewSource(c.Rng.Int63()))
		sp := &schedPool{spec: genPool(r, true)}
		if i%2 == 0 {
			// many partitions: the slicer hands out many items, so merge plans have freedom too
			for k := 0; k < 50 && !(sp.spec.Shape == "disjoint" || sp.spec.Shape == "single" || sp.spec.Shape == "touching") || len(sp.spec.Recs) < 8; k++ {
				sp.spec = genPool(r, true)
			}
		}
		trimLoads(sp.spec, c.N(12, 24))
		sp.progs = schedProgs(r, sp.spec)
		n := len(sp.spec.Recs)
		perm := r.Perm(len(sp.progs))
		if i == 0 {
			// always cover the two programs that are also compared with the model
			perm = append([]int{0, 7}, perm...)
		}
		seenProg := map[int]bool{}
		var chosen []int
		for _, pi := range perm {
			if !seenProg[pi] && len(chosen) < nprogs {
				seenProg[pi] = true
				chosen = append(chosen, pi)
			}
		}
		for _, pi := range chosen {
			for s := 0; s < nscripts; s++ {
				name := scriptNames[(s+i)%len(scriptNames)]
				if s == 0 {
					name = "hold-first"
				}
				for _, p := range []int{2, 3} {
					if c.Thorough() && s%2 == 1 {
						p = []int{8, 16}[p-2]
					}
					sp.runs = append(sp.runs, schedRun{Prog: pi, Par: p, Script: name, Perm: scriptPerm(r, name, n, p)})
				}
			}
		}
		pools[i] = sp
	}
	t0 := time.Now()
	ParallelDo(npools, 8, func(i int) {
		sp := pools[i]
		sp.prepare()
		if sp.err != nil {
			return
		}
		for _, rs := range sp.runs {
			sp.obs = append(sp.obs, sp.runOne(rs))
		}
	})
	// a few scripts under GOMAXPROCS(1): cooperative scheduling of the free-running part
	old := runtime.GOMAXPROCS(0)
	runtime.GOMAXPROCS(1)
	for i, sp := range pools {
		if sp.err != nil || i >= c.N(2, 6) {
			continue
		}
		for k, rs := range sp.runs {
			if k%c.N(6, 4) == 0 {
				rs.GMP = 1
				sp.obs = append(sp.obs, sp.runOne(rs))
			}
		}
	}
	runtime.GOMAXPROCS(old)
	c.Note("sched: %d pools, gated queries done in %.1fs", npools, time.Since(t0).Seconds())
	for _, sp := range pools {
		if sp.err != nil {
			c.Fail("oracle", "C08:sched:setup", sp.err.Error(), map[string]any{"check": "sched", "pool": sp.spec})
			continue
		}
		c.Stat("sched:pools")
		c.Stat("sched:objects:" + bucket(len(sp.objs)))
		c.Stat("sched:partitions:" + bucket(len(sp.parts)))
		for _, ob := range sp.obs {
			sp.analyse(c, ob)
		}
		sp.close()
	}
}

func replaySched(c *Ctx, raw json.RawMessage) bool {
	var r schedReplay
	if err := json.Unmarshal(raw, &r); err != nil || r.Pool == nil || r.Check != "sched" {
		return false
	}
	sp := &schedPool{spec: r.Pool, progs: []prog{r.Prog}}
	sp.prepare()
	defer sp.close()
	if sp.err != nil {
		c.Note("replay: cannot build pool: %v", sp.err)
		return true
	}
	n := len(sp.ks)
	perm := r.Perm
	if len(perm) != n {
		perm = scriptPerm(rand.New(rand.NewSource(c.Seed)), r.Script, n, r.Par)
	}
	old := runtime.GOMAXPROCS(0)
	defer runtime.GOMAXPROCS(old)
	if r.GMP > 0 {
		runtime.GOMAXPROCS(r.GMP)
	}
	for rep := 0; rep < 5; rep++ {
		ob := sp.runOne(schedRun{Prog: 0, Par: r.Par, Script: r.Script, Perm: perm, GMP: r.GMP})
		sp.analyse(c, ob)
	}
	return true
}
