package main

// C10 — aggregation and join agree with naive evaluation at any memory limit, input order,
// declared sortedness and partial decomposition.
//
// Sub-checks (-only):
//   witness  (S)     the confirmed defects, replayed on the real code (KNOWN-FINDING lines)
//   agg      (T2+S)  one aggregate, one group: real direct vs naive, real partials-out |
//                    partials-in (any chunking) vs real direct, Lean model vs both
//   groupby  (S)     real summarize (1..3 keys, computed keys, mixed-type/null/missing keys,
//                    aggregate sets with where-clauses, permuted input, DefaultLimit forcing
//                    0..k spills, declared sort asc/desc with chosen batch boundaries,
//                    partial decomposition) vs the naive evaluator
//   corr     (T2)    real summarize of a row of eight aggregates over mixed-type values vs the
//                    Lean model of the Aggregator (table keyed by exact key, spill merge by
//                    comparison, sorted-input mode with spills, partials): final rows and the
//                    partial rows of every partials-out stage
//   join     (T2+S)  real join (inner/left/right/anti; key multiplicities 0/1/many; null,
//                    missing, cross-type keys; fork legs unsorted / sorted asc / desc, or
//                    join.New over two readers with independently declared directions) vs the
//                    Lean join plan model (joinFull) and vs a nested loop

import (
	"encoding/hex"
	"encoding/json"
	"fmt"
	"math/rand"
	"os"
	"os/exec"
	"sort"
	"strconv"
	"strings"
	"time"

	. "verifharness/hlib"

	zed "github.com/brimdata/super"
)

const (
	keySpillMerge   = "C10:groupby:spill-merges-cross-type-equal-keys"
	keySortNotFirst = "C10:groupby:declared-sort-key-not-first:duplicate-group"
	keyJoinNullDesc = "C10:join:null-keys-declared-desc"
	keyBigUint      = "C10:agg:math-uint64-above-maxint64-mixed-signed"
	keyNullClass    = "C10:agg:minmax-typed-null-class-change"
	keyFusePanic    = "C10:agg:fuse:panic-empty-partial"
	// values read back from group-by spill files belong to the spiller's private type context
	keySpillCtxSorted = "C10:groupby:spill-foreign-context:sorted-input"
	keySpillCtxPanic  = "C10:groupby:spill-foreign-context:panic-collect-union"
	keySpillCtxColl   = "C10:groupby:spill-foreign-context:collect-union-of-mixed-types"
	keySortedMissing  = "C10:groupby:declared-sorted:missing-and-null-keys:duplicate-group"
	keySortedSpillNil = "C10:groupby:sorted-input-spill:panic-missing-primary-key"
	keyFuseUnion      = "C10:agg:fuse:partial-union-of-identical-types"
)

func main() {
	if len(os.Args) > 1 && os.Args[1] == "probe" {
		probeMain()
		return
	}
	Main("C10", runC10)
}

func runC10(c *Ctx) {
	c.Rule("agg: value lists drawn from typed classes (int/uint/float of several widths, dyadic floats only, typed and untyped nulls, missing, bools, strings, containers) cut into 1..5 chunks incl. empty ones; " +
		"groupby: 0..60 rows, 1..3 keys from per-column classes (small ints, numerically equal values of different types, strings, nulls of several types, missing, containers, computed a+1), 1..4 aggregates with optional where, " +
		"DefaultLimit in {default,1,2,3,D-1,D,D+1}, input permuted / declared sorted asc|desc on the first (rarely: a later) key with random batch boundaries / split into partials-out chunks + partials-in; " +
		"join: fork legs over one input, key multiplicities 0/1/many per side, null/missing/cross-type keys, each leg unsorted or sorted asc/desc. " +
		"A case is distinct by (sub-check, key/value classes, aggregate set, limit regime, mode, sizes); non-trivial = at least 2 rows and 2 distinct keys (groupby), 2 values (agg), a matching key (join)")
	if c.Replay != nil {
		replayCase(c, c.Replay)
		return
	}
	for _, rc := range c.CorpusCases() {
		replayCase(c, rc)
	}
	if c.Want("witness") {
		runWitnesses(c)
	}
	if c.Want("agg") {
		runAgg(c)
	}
	if c.Want("groupby") {
		runGroupby(c)
	}
	if c.Want("corr") {
		runCorr(c)
	}
	if c.Want("join") {
		runJoin(c)
	}
}

func replayCase(c *Ctx, raw json.RawMessage) {
	var k struct {
		Kind string `json:"kind"`
	}
	if err := json.Unmarshal(raw, &k); err != nil {
		c.Note("unreadable replay: %v", err)
		return
	}
	switch k.Kind {
	case "agg":
		var x aggCase
		json.Unmarshal(raw, &x)
		checkAgg(c, x)
	case "groupby":
		var x gbCase
		json.Unmarshal(raw, &x)
		checkGroupby(c, x)
	case "corr":
		var x corrCase
		json.Unmarshal(raw, &x)
		checkCorr(c, x)
	case "join":
		var x joinCase
		json.Unmarshal(raw, &x)
		checkJoin(c, x)
	default:
		c.Note("replay of unknown kind %q", k.Kind)
	}
}

func hexTok(s string) string {
	if s == "" {
		return "-"
	}
	return hex.EncodeToString([]byte(s))
}

func unhexTok(s string) string {
	if s == "-" {
		return ""
	}
	b, _ := hex.DecodeString(s)
	return string(b)
}

func sameSet(a, b []string) bool { return SameMultiset(a, b) }

func short(xs []string, n int) string {
	if len(xs) > n {
		return strings.Join(xs[:n], " ") + fmt.Sprintf(" …(+%d)", len(xs)-n)
	}
	return strings.Join(xs, " ")
}

// =========================================================================================
// agg
// =========================================================================================

type aggCase struct {
	Kind   string   `json:"kind"`
	Fn     string   `json:"fn"`
	Vals   []string `json:"vals"` // literals in input order; "" = field absent
	Chunks []int    `json:"chunks"`
}

var aggFns = []string{"count", "sum", "min", "max", "avg", "and", "or", "collect", "union", "dcount", "fuse"}

func aggRows(vals []string) []string {
	rows := make([]string, len(vals))
	for i, v := range vals {
		if v == "" {
			rows[i] = fmt.Sprintf("{id:%d}", i)
		} else {
			rows[i] = fmt.Sprintf("{id:%d,v:%s}", i, v)
		}
	}
	return rows
}

// twoStage runs prog as partials-out over each chunk and partials-in over the concatenated
// partial rows (the decomposition optimizer.liftIntoParPaths builds for scatter legs).
func twoStage(prog string, zctx *zed.Context, in []zed.Value, chunks []int, limit1, limit2 int, sortKey string, sizes []int) ([]zed.Value, int, error) {
	var mid []zed.Value
	pos := 0
	for _, n := range chunks {
		part := in[pos : pos+n]
		pos += n
		if len(part) == 0 {
			continue
		}
		out, err := runQuery(qopts{Prog: prog, Zctx: zctx, Inputs: [][]zed.Value{part}, Limit: limit1, PartOut: true, SortKey: sortKey, Sizes: sizes})
		if err != nil {
			return nil, 0, fmt.Errorf("partials-out stage: %w", err)
		}
		mid = append(mid, out...)
	}
	if len(mid) == 0 {
		return nil, 0, nil
	}
	out, err := runQuery(qopts{Prog: prog, Zctx: zctx, Inputs: [][]zed.Value{mid}, Limit: limit2, PartIn: true})
	if err != nil {
		return nil, len(mid), fmt.Errorf("partials-in stage: %w", err)
	}
	return out, len(mid), nil
}

// modelAggCanon turns the driver's rendering of an aggregate state into the canonical
// column string used for the real and the naive results.
func modelAggCanon(fn, r string) (string, error) {
	switch fn {
	case "count", "dcount":
		n, err := strconv.ParseUint(r, 10, 64)
		if err != nil {
			return "", err
		}
		return naiveAgg("count", make([]gval, n)), nil
	case "sum", "min", "max":
		p := strings.SplitN(r, ":", 2)
		if len(p) != 2 || len(p[0]) != 1 {
			return "", fmt.Errorf("bad math state %q", r)
		}
		if p[1] == "null" {
			return colStr(nullOf(p[0][0])), nil
		}
		n, err := strconv.ParseInt(p[1], 10, 64)
		if err != nil {
			return "", err
		}
		return colStr(fmtNum(p[0][0], n)), nil
	case "avg":
		p := strings.SplitN(r, "/", 2)
		s, err1 := strconv.ParseInt(p[0], 10, 64)
		n, err2 := strconv.ParseInt(p[1], 10, 64)
		if err1 != nil || err2 != nil {
			return "", fmt.Errorf("bad avg state %q", r)
		}
		if n == 0 {
			return naiveAgg("avg", nil), nil
		}
		// the same IEEE division the real Result performs on the exactly represented sum
		return colStr("float64", fmtFloat(float64(s)/8/float64(n))), nil
	case "and", "or":
		switch r {
		case "null":
			return naiveAgg(fn, nil), nil
		case "1":
			return naiveAgg(fn, []gval{mk("true")}), nil
		case "0":
			return naiveAgg(fn, []gval{mk("false")}), nil
		}
	case "collect", "union", "fuse":
		body := strings.TrimSuffix(strings.TrimPrefix(r, "("), ")")
		if body == "" {
			return colStr("null", "null"), nil
		}
		var el []string
		for _, t := range strings.Fields(body) {
			el = append(el, unhexTok(t))
		}
		sort.Strings(el)
		return "elems:" + strings.Join(el, ";"), nil
	}
	return "", fmt.Errorf("cannot read model result %q for %s", r, fn)
}

func modelOrdered(r string) []string {
	body := strings.TrimSuffix(strings.TrimPrefix(r, "("), ")")
	var el []string
	for _, t := range strings.Fields(body) {
		el = append(el, unhexTok(t))
	}
	return el
}

func avalSexp(g gval) string {
	b := "-"
	if g.IsBool && !g.Null {
		b = "0"
		if g.B {
			b = "1"
		}
	}
	avg := "-"
	if g.Kind != 'n' && !g.Null {
		avg = fmt.Sprint(g.Num8)
	}
	nul := "0"
	if g.Null {
		nul = "1"
	}
	return fmt.Sprintf("(%s %s %s %c %d %s %s)", hexTok(g.ident()), hexTok(g.Typ), nul, g.Kind, g.Num8, b, avg)
}

// typedNullClassChange: the input class in which defect keyNullClass can show.
func typedNullClassChange(vals []gval) bool {
	classes := map[byte]bool{}
	typedNull := false
	for _, v := range vals {
		if v.Kind == 'n' || v.Missing {
			continue
		}
		classes[v.Kind] = true
		if v.Null {
			typedNull = true
		}
	}
	return typedNull && len(classes) >= 2
}

func checkAgg(c *Ctx, x aggCase) {
	x.Kind = "agg"
	var vals []gval
	for _, l := range x.Vals {
		vals = append(vals, mk(l))
	}
	var present []gval
	for _, v := range vals {
		if !v.Missing {
			present = append(present, v)
		}
	}
	c.Eval(fmt.Sprintf("agg|%s|%d|%v", x.Fn, len(x.Vals), x.Chunks))
	c.Stat("agg:fn:" + x.Fn)
	c.Stat(fmt.Sprintf("agg:chunks:%d", len(x.Chunks)))
	prog := "summarize r:=" + x.Fn + "(v)"
	if x.Fn == "fuse" && fuseEmptyPartial(x) && os.Getenv("C10_CHILD") == "" && inChild("fuse") {
		// before the fix (findings: C10:agg:fuse:panic-empty-partial) the partials-in stage
		// panicked inside the group-by goroutine, which cannot be recovered in-process: a few
		// cases of this class are still run in a child process so that a regression is
		// reported as a panic with its input rather than as a dead harness
		runInChild(c, x, keyFusePanic)
		return
	}
	zctx := zed.NewContext()
	in, err := parseRows(zctx, aggRows(x.Vals))
	if err != nil {
		c.Note("agg: %v", err)
		return
	}
	fail := func(kind, how, what string) {
		key := "C10:agg:" + x.Fn + ":" + how
		c.Fail(kind, key, fmt.Sprintf("%s(v) over %s chunks %v: %s", x.Fn, short(x.Vals, 12), x.Chunks, what), x)
	}
	direct, err := runQuery(qopts{Prog: prog, Zctx: zctx, Inputs: [][]zed.Value{in}})
	if err != nil {
		if isPanic(err) {
			c.Fail("panic", "C10:agg:"+x.Fn+":panic-direct", err.Error(), x)
		} else {
			fail("oracle", "error-direct", err.Error())
		}
		return
	}
	if len(direct) != 1 {
		fail("oracle", "rows-direct", fmt.Sprintf("%d output rows", len(direct)))
		return
	}
	realDirect, _ := realCol(direct[0], "r")
	part, _, err := twoStage(prog, zctx, in, x.Chunks, 0, 0, "", nil)
	if err != nil {
		if isPanic(err) {
			c.Fail("panic", "C10:agg:"+x.Fn+":panic-partials", fmt.Sprintf("%s(v) over %s chunks %v: %v", x.Fn, short(x.Vals, 12), x.Chunks, firstLine(err.Error())), x)
		} else {
			fail("oracle", "error-partials", err.Error())
		}
		return
	}
	if len(part) != 1 {
		fail("oracle", "rows-partials", fmt.Sprintf("%d output rows", len(part)))
		return
	}
	realPart, _ := realCol(part[0], "r")
	if x.Fn == "fuse" {
		// field order of a fused record depends on input order: compare as sets of types
		// only through the real code itself (C20 owns the merge): partials vs direct, and
		// direct over one representative per distinct type (the model: state = set of types).
		if canonType(realDirect) != canonType(realPart) {
			how := "partial-vs-direct"
			if canonTypeDedup(realDirect, true) == canonTypeDedup(realPart, true) {
				// the only difference: a union whose members are one and the same type
				how = "partial-union-of-identical-types"
			}
			fail("oracle", how, fmt.Sprintf("direct %s, partials %s", realDirect, realPart))
		}
		seen := map[string]bool{}
		var reps []string
		for _, l := range x.Vals {
			if l == "" || seen[mk(l).Typ] {
				continue
			}
			seen[mk(l).Typ] = true
			reps = append(reps, l)
		}
		if len(reps) > 0 {
			in2, _ := parseRows(zctx, aggRows(reps))
			d2, err := runQuery(qopts{Prog: prog, Zctx: zctx, Inputs: [][]zed.Value{in2}})
			c.Res.ModelCases++
			if err != nil || len(d2) != 1 {
				fail("correspondence", "fuse-set-of-types", fmt.Sprint(err))
			} else if r2, _ := realCol(d2[0], "r"); canonType(r2) != canonType(realDirect) {
				fail("correspondence", "fuse-set-of-types", fmt.Sprintf("fuse over all values %s, over one value per type %s", realDirect, r2))
			}
		}
		return
	}
	want := naiveAgg(x.Fn, present)
	if realDirect != want {
		fail("oracle", "direct-vs-naive", fmt.Sprintf("real %s, naive %s", realDirect, want))
	}
	if realPart != realDirect {
		fail("oracle", "partial-vs-direct", fmt.Sprintf("direct %s, partials-out|partials-in %s", realDirect, realPart))
	}
	// model
	var cs []string
	pos := 0
	for _, n := range x.Chunks {
		var vs []string
		for _, v := range vals[pos : pos+n] {
			if !v.Missing {
				vs = append(vs, avalSexp(v))
			}
		}
		pos += n
		cs = append(cs, "("+strings.Join(vs, " ")+")")
	}
	ans := c.Model().Call("(C10 agg " + x.Fn + " " + strings.Join(cs, " ") + ")")
	c.Res.ModelCases++
	var md, mp string
	if _, err := fmt.Sscanf(ans, "direct=%s partial=%s", &md, &mp); err != nil {
		// results with spaces: split by the markers
		i := strings.Index(ans, " partial=")
		if !strings.HasPrefix(ans, "direct=") || i < 0 {
			c.Fail("correspondence", "C10:agg:model-answer", "model answered "+ans, x)
			return
		}
	}
	i := strings.Index(ans, " partial=")
	md, mp = ans[len("direct="):i], ans[i+len(" partial="):]
	mdc, err1 := modelAggCanon(x.Fn, md)
	mpc, err2 := modelAggCanon(x.Fn, mp)
	if err1 != nil || err2 != nil {
		c.Fail("correspondence", "C10:agg:model-answer", fmt.Sprintf("model answered %s (%v %v)", ans, err1, err2), x)
		return
	}
	if mdc != realDirect {
		fail("correspondence", "model-direct", fmt.Sprintf("model %s, real %s", mdc, realDirect))
	}
	if mpc != realPart {
		fail("correspondence", "model-partial", fmt.Sprintf("model %s, real %s", mpc, realPart))
	}
	if mdc != want {
		fail("correspondence", "model-vs-naive", fmt.Sprintf("model %s, naive %s", mdc, want))
	}
	if x.Fn == "collect" && len(present) > 0 {
		// order: the model's ordered homomorphism against the real element order
		ro := orderedElems(direct[0], "r")
		po := orderedElems(part[0], "r")
		if !SameSeq(ro, modelOrdered(md)) {
			fail("correspondence", "collect-order-direct", fmt.Sprintf("real %v model %v", ro, modelOrdered(md)))
		}
		if !SameSeq(po, modelOrdered(mp)) {
			fail("correspondence", "collect-order-partial", fmt.Sprintf("real %v model %v", po, modelOrdered(mp)))
		}
	}
}

// fuseEmptyPartial: some non-empty chunk holds no value for v, so its partial is the null
// type value.
func fuseEmptyPartial(x aggCase) bool {
	pos := 0
	for _, n := range x.Chunks {
		any := false
		for _, v := range x.Vals[pos : pos+n] {
			if v != "" {
				any = true
			}
		}
		pos += n
		if n > 0 && !any {
			return true
		}
	}
	return false
}

// runInChild re-executes this binary on one case; a crash of the child is a panic of the
// real code (reported under crashKey), otherwise the child's failures are taken over.
func runInChild(c *Ctx, x any, crashKey string) { runInChildN(c, x, crashKey, 1) }

// runInChildN repeats the run (the crash may depend on Go's map iteration order).
func runInChildN(c *Ctx, x any, crashKey string, tries int) {
	for i := 0; i < tries; i++ {
		n := c.Res.Stats["fail:"+crashKey]
		runInChild1(c, x, crashKey)
		if c.Res.Stats["fail:"+crashKey] > n {
			return
		}
	}
}

func runInChild1(c *Ctx, x any, crashKey string) {
	dir, err := os.MkdirTemp("", "c10child-")
	if err != nil {
		c.Note("child: %v", err)
		return
	}
	defer os.RemoveAll(dir)
	b, _ := json.Marshal(x)
	os.WriteFile(dir+"/case.json", b, 0o644)
	cmd := exec.Command(os.Args[0], "-replay", dir+"/case.json", "-out", dir+"/out.json", "-tier", c.Tier)
	cmd.Env = append(os.Environ(), "C10_CHILD=1")
	outb, runErr := cmd.CombinedOutput()
	res, rerr := os.ReadFile(dir + "/out.json")
	if runErr != nil || rerr != nil {
		c.Eval("")
		c.Fail("panic", crashKey, "the real code panicked in a goroutine (process died): "+firstLine(string(outb)), x)
		return
	}
	var r Result
	if json.Unmarshal(res, &r) != nil {
		c.Note("child: unreadable result")
		return
	}
	c.Res.Evaluations += r.Evaluations
	c.Res.ModelCases += r.ModelCases
	for _, f := range r.Failures {
		c.Fail(f.Kind, f.Key, f.What, f.Replay)
	}
}

func firstLine(s string) string {
	if i := strings.Index(s, "\n"); i >= 0 {
		return s[:i]
	}
	return s
}

// Starting a child costs ~1.5 s (package initialisation of the module under test), so only a
// few cases of the classes that are known to crash the process are run; the rest of the
// generated cases of those classes are turned into neighbouring non-crashing cases.
var childBudget = 0
var childLeft = map[string]int{}

// inChild: the first few cases of a formerly crashing class go to a child process.
func inChild(class string) bool {
	if childLeft[class] > 0 {
		childLeft[class]--
		return true
	}
	return false
}

func runAgg(c *Ctx) {
	r := c.Rng
	childLeft["fuse"] = c.N(1, 6)
	n := c.N(200, 3000)
	for i := 0; i < n; i++ {
		fn := aggFns[r.Intn(len(aggFns))]
		var gen func() string
		var cls string
		switch fn {
		case "and", "or":
			cls = "bools"
			gen = func() string {
				switch r.Intn(7) {
				case 0:
					return "null(bool)"
				case 1:
					return pick(r, clsInt)
				case 2:
					return ""
				case 3:
					return "null"
				}
				return pick(r, clsBool)
			}
		case "fuse":
			cls = "records"
			recs := []string{"{a:1}", `{a:"x"}`, "{b:1}", "{a:1,b:2}", "{b:2,a:1}", "{a:{c:1}}", "{a:{d:1}}", "1", `"s"`, "{a:null(int64)}", "{a:[1]}", "{}"}
			gen = func() string {
				if r.Intn(8) == 0 {
					return ""
				}
				return pick(r, recs)
			}
		default:
			cls, gen = valClass(r)
			if fn == "dcount" {
				// DCount hashes (type id, bytes): a typed null and the value with empty
				// encoding (0, "") coincide — an approximation outside this property
				g0 := gen
				gen = func() string {
					for {
						if l := g0(); l == "" || !mk(l).Null {
							return l
						}
					}
				}
			}
		}
		cnt := 1 + r.Intn(14)
		if r.Intn(10) == 0 {
			cnt = 1 + r.Intn(40)
		}
		x := aggCase{Kind: "agg", Fn: fn}
		for j := 0; j < cnt; j++ {
			x.Vals = append(x.Vals, gen())
		}
		x.Chunks = chunking(r, cnt, 1+r.Intn(5))
		c.Stat("agg:class:" + cls)
		if i < 2 {
			c.Sample(x)
		}
		checkAgg(c, x)
	}
}

// =========================================================================================
// groupby (oracle)
// =========================================================================================

type gbCase struct {
	Kind   string    `json:"kind"`
	Keys   []keySpec `json:"keys"`
	Aggs   []aggSpec `json:"aggs"`
	Rows   []string  `json:"rows"`
	Limit  int       `json:"limit"`
	Sort   string    `json:"sort,omitempty"`  // declared order, e.g. "k1:asc"
	Sizes  []int     `json:"sizes,omitempty"` // batch sizes
	Chunks []int     `json:"chunks,omitempty"`
	Limit2 int       `json:"limit2,omitempty"`
}

func (x gbCase) prog() string {
	var as, ks []string
	as = append(as, "ids:=union(id)")
	for _, a := range x.Aggs {
		as = append(as, a.text())
	}
	for _, k := range x.Keys {
		ks = append(ks, k.text())
	}
	return "summarize " + strings.Join(as, ", ") + " by " + strings.Join(ks, ", ")
}

// riskyGroupby: the class in which the real code is known to panic inside the group-by
// goroutine (collect/union partials of several value types read back from a spill file).
func riskyGroupby(x gbCase, rows []grow, distinct int) bool {
	if !((x.Limit > 0 && x.Limit < distinct) || (x.Limit2 > 0 && x.Limit2 < distinct)) {
		return false
	}
	for _, a := range x.Aggs {
		if a.Fn != "collect" && a.Fn != "union" {
			continue
		}
		types := map[string]bool{}
		for _, r := range rows {
			if v := r.get(a.Arg); !v.Missing && !v.Null {
				types[v.Typ] = true
			}
		}
		if len(types) > 1 {
			return true
		}
	}
	return false
}

type realGroup struct {
	keys []string // exact ident per key column
	ids  []int
	cols []string
}

func idsOf(v zed.Value, name string) ([]int, error) {
	s, ok := realCol(v, name)
	if !ok {
		return nil, fmt.Errorf("no %s column", name)
	}
	if s == "null:null" {
		return nil, nil
	}
	var out []int
	for _, e := range strings.Split(strings.TrimPrefix(s, "elems:"), ";") {
		p := strings.SplitN(e, "|", 2)
		if len(p) != 2 || p[0] != "int64" {
			return nil, fmt.Errorf("ids element %q", e)
		}
		n, err := strconv.Atoi(p[1])
		if err != nil {
			return nil, err
		}
		out = append(out, n)
	}
	sort.Ints(out)
	return out, nil
}

func checkGroupby(c *Ctx, x gbCase) {
	x.Kind = "groupby"
	var rows []grow
	for _, z := range x.Rows {
		rows = append(rows, growFromZSON(z))
	}
	byID := map[int]grow{}
	pos := map[int]int{}
	for i, r := range rows {
		byID[r.ID] = r
		pos[r.ID] = i
	}
	prog := x.prog()
	naive := naiveGroups(x.Keys, rows)
	if os.Getenv("C10_CHILD") == "" && riskyGroupby(x, rows, len(naive)) && inChild("groupby") {
		// same for collect/union partials of several types read back from a spill
		// (findings: C10:groupby:spill-foreign-context)
		c.Stat("groupby:run-in-child")
		runInChild(c, x, keySpillCtxPanic)
		return
	}
	mode := "direct"
	if x.Chunks != nil {
		mode = "partials"
	}
	if x.Sort != "" {
		mode += "+sorted"
	}
	trivial := len(rows) < 2 || len(naive) < 2
	ek := ""
	if !trivial {
		ek = fmt.Sprintf("gb|%s|%d|%d|%s|%v|%v|%d", prog, len(rows), x.Limit, x.Sort, x.Sizes, x.Chunks, len(naive))
	}
	c.Eval(ek)
	c.Stat("groupby:mode:" + mode)
	c.Stat(fmt.Sprintf("groupby:keys:%d", len(x.Keys)))
	switch {
	case x.Limit == 0:
		c.Stat("groupby:limit:default")
	case x.Limit < len(naive):
		c.Stat("groupby:limit:spills")
	default:
		c.Stat("groupby:limit:fits")
	}
	zctx := zed.NewContext()
	in, err := parseRows(zctx, x.Rows)
	if err != nil {
		c.Note("groupby: %v", err)
		return
	}
	var out []zed.Value
	midRows := 0
	if x.Chunks == nil {
		out, err = runQuery(qopts{Prog: prog, Zctx: zctx, Inputs: [][]zed.Value{in}, Limit: x.Limit, SortKey: x.Sort, Sizes: x.Sizes})
	} else {
		out, midRows, err = twoStage(prog, zctx, in, x.Chunks, x.Limit, x.Limit2, x.Sort, x.Sizes)
	}
	what := func(s string) string {
		return fmt.Sprintf("`%s` limit=%d sort=%q sizes=%v chunks=%v limit2=%d over %d rows: %s", prog, x.Limit, x.Sort, x.Sizes, x.Chunks, x.Limit2, len(rows), s)
	}
	if err != nil {
		if isPanic(err) {
			c.Fail("panic", "C10:groupby:panic", what(firstLine(err.Error())), x)
		} else {
			c.Fail("oracle", "C10:groupby:error", what(err.Error()), x)
		}
		return
	}
	if os.Getenv("C10_DEBUG") != "" {
		fmt.Println("PROG", prog)
		for _, s := range fmtVals(out) {
			fmt.Println("  OUT", s)
		}
	}
	// spill possible?
	spill := false
	if x.Limit > 0 {
		if x.Chunks == nil {
			spill = len(naive) > x.Limit
		} else {
			p := 0
			for _, n := range x.Chunks {
				if len(naiveGroups(x.Keys, rows[p:p+n])) > x.Limit {
					spill = true
				}
				p += n
			}
		}
	}
	if x.Limit2 > 0 && midRows > x.Limit2 {
		spill = true
	}
	if spill {
		c.Stat("groupby:spill-possible")
	}
	fail := func(key, w string) {
		c.Fail("oracle", key, what(w), x)
	}
	// read the real groups
	var rgs []realGroup
	for _, v := range out {
		var g realGroup
		for _, k := range x.Keys {
			s, ok := realKeyCol(v, k.Out)
			if !ok {
				fail("C10:groupby:missing-key-column", "output row "+fmtVals([]zed.Value{v})[0]+" lacks "+k.Out)
				return
			}
			g.keys = append(g.keys, s)
		}
		ids, err := idsOf(v, "ids")
		if err != nil {
			fail("C10:groupby:bad-ids-column", err.Error()+" in "+fmtVals([]zed.Value{v})[0])
			return
		}
		g.ids = ids
		for _, a := range x.Aggs {
			s, ok := realCol(v, a.Out)
			if !ok {
				s = "<absent>"
			}
			g.cols = append(g.cols, a.Out+"="+s)
		}
		rgs = append(rgs, g)
	}
	// A. every input row in exactly one output group
	seen := map[int]int{}
	for _, g := range rgs {
		for _, id := range g.ids {
			seen[id]++
		}
	}
	for _, r := range rows {
		if seen[r.ID] != 1 {
			// union(id) across duplicate groups still has each id once overall
			fail("C10:groupby:lost-or-duplicated-rows", fmt.Sprintf("input row id %d appears in %d output groups", r.ID, seen[r.ID]))
			return
		}
	}
	merged, dup := false, false
	groupsOfKey := map[string]int{}
	for _, g := range rgs {
		if len(g.ids) == 0 {
			fail("C10:groupby:empty-group", "an output group holds no input row")
			return
		}
		sort.Slice(g.ids, func(i, j int) bool { return pos[g.ids[i]] < pos[g.ids[j]] })
		var members []grow
		idents := map[string]bool{}
		ties := map[string]bool{}
		for _, id := range g.ids {
			r := byID[id]
			members = append(members, r)
			var ks []gval
			for _, k := range x.Keys {
				ks = append(ks, keyValue(k, r))
			}
			idents[keyIdent(ks)] = true
			ties[keyTie(ks)] = true
		}
		// B. only rows whose keys compare equal may share a group
		if len(ties) > 1 {
			fail("C10:groupby:rows-of-unequal-keys-grouped", fmt.Sprintf("group %v holds rows %v whose keys do not compare equal", g.keys, g.ids))
			return
		}
		// C. the group's key is the key of one of its rows
		own := strings.Join(g.keys, "\x00")
		if !idents[own] {
			fail("C10:groupby:key-not-of-member", fmt.Sprintf("group key %v is not the key of any of its rows %v", g.keys, g.ids))
			return
		}
		// D. aggregates over exactly the group's rows
		want := aggCols(x.Aggs, members)
		for i := range want {
			if want[i] != g.cols[i] {
				key := "C10:groupby:wrong-aggregate:" + x.Aggs[i].Fn
				fail(key, fmt.Sprintf("group %v rows %v: real %s, naive %s", g.keys, g.ids, g.cols[i], want[i]))
				return
			}
		}
		if len(idents) > 1 {
			merged = true
		}
		groupsOfKey[own]++
		if groupsOfKey[own] > 1 {
			dup = true
		}
	}
	for _, ng := range naive {
		// a naive group split over several real groups whose keys are another member's
		n := 0
		want := map[int]bool{}
		for _, r := range ng.Rows {
			want[r.ID] = true
		}
		for _, g := range rgs {
			for _, id := range g.ids {
				if want[id] {
					n++
					break
				}
			}
		}
		if n > 1 {
			dup = true
		}
	}
	if merged {
		key := "C10:groupby:merged-distinct-keys-without-spill"
		if spill {
			key = keySpillMerge
		}
		fail(key, fmt.Sprintf("%d output groups for %d distinct keys: keys of different type/value that compare equal were merged", len(rgs), len(naive)))
		return
	}
	if dup {
		// (declared sort key not the first key / missing and null keys in the declared
		// sort column used to produce this: findings keySortNotFirst, keySortedMissing)
		key := "C10:groupby:duplicate-group"
		if x.Sort != "" && len(x.Keys) > 0 && !strings.HasPrefix(x.Sort, x.Keys[0].Out+":") {
			key = keySortNotFirst
		} else if x.Sort != "" {
			hasNull, hasMissing := false, false
			for _, r := range rows {
				v := keyValue(x.Keys[0], r)
				hasNull = hasNull || v.Null
				hasMissing = hasMissing || v.Missing
			}
			if hasNull && hasMissing {
				key = keySortedMissing
			}
		}
		fail(key, fmt.Sprintf("%d output groups for %d distinct keys: some key is emitted more than once", len(rgs), len(naive)))
		return
	}
	if len(rgs) != len(naive) {
		fail("C10:groupby:group-count", fmt.Sprintf("%d output groups, %d distinct keys", len(rgs), len(naive)))
	}
}

var aggMenu = []aggSpec{
	{"c", "count", "", ""}, {"cv", "count", "v", ""}, {"s", "sum", "v", ""}, {"mn", "min", "v", ""}, {"mx", "max", "v", ""},
	{"av", "avg", "v", ""}, {"an", "and", "b", ""}, {"o", "or", "b", ""}, {"co", "collect", "v", ""}, {"u", "union", "v", ""},
	{"dc", "dcount", "s", ""}, {"cw", "count", "", "w>1"}, {"sw", "sum", "v", "w<=1"}, {"ch", "collect", "v", "has(w)"},
	{"us", "union", "s", ""}, {"mw", "max", "v", "w>1"},
}

// sortRows orders rows on a key column the way the declared order says the input is
// sorted: tie classes ascending/descending; nulls (and missing) are the largest values
// (nullsMax), so last when ascending and first when descending.
func sortRows(rows []grow, ks keySpec, desc bool, noMissing bool) []grow {
	out := append([]grow(nil), rows...)
	// (noMissing: before fix bcfe3221f a spill in sorted-input mode could panic on a missing
	// primary key, and missing keys were kept out of the declared sort column; no longer.)
	_ = noMissing
	var vals []gval
	for _, r := range out {
		vals = append(vals, keyValue(ks, r))
	}
	rk := ranksOf(vals)
	sort.SliceStable(out, func(i, j int) bool {
		a, b := rk[keyValue(ks, out[i]).tie()], rk[keyValue(ks, out[j]).tie()]
		if desc {
			return a > b
		}
		return a < b
	})
	return out
}

func genRows(r *rand.Rand, n int, keyGens []func() string, vgen func() string) []grow {
	rows := make([]grow, n)
	for i := range rows {
		g := grow{ID: i, F: map[string]gval{}}
		for k, kg := range keyGens {
			g.F[fmt.Sprintf("k%d", k+1)] = mk(kg())
		}
		if r.Intn(8) != 0 {
			g.F["a"] = mk(fmt.Sprint(r.Intn(4)))
		}
		g.F["v"] = mk(vgen())
		switch r.Intn(8) {
		case 0:
			g.F["b"] = mk("null(bool)")
		case 1:
		case 2:
			g.F["b"] = mk(pick(r, clsInt))
		default:
			g.F["b"] = mk(pick(r, clsBool))
		}
		g.F["s"] = mk(pick(r, clsStr))
		if r.Intn(5) != 0 {
			g.F["w"] = mk(fmt.Sprint(r.Intn(4)))
		}
		rows[i] = g
	}
	return rows
}

func pickLimit(r *rand.Rand, distinct int) int {
	l := pickLimit0(r, distinct)
	if l > 0 && distinct > 24 && l < distinct/8+1 {
		l = distinct/8 + 1 // at most ~8 spill files: keep the run cheap
	}
	return l
}

func pickLimit0(r *rand.Rand, distinct int) int {
	switch r.Intn(9) {
	case 0, 1:
		return 0
	case 2:
		return 1
	case 3:
		return 2
	case 4:
		return 3
	case 5:
		if distinct > 1 {
			return distinct - 1
		}
		return 1
	case 6:
		return distinct + 1
	case 7:
		return 1 + r.Intn(distinct+1)
	}
	if distinct > 0 {
		return distinct
	}
	return 1
}

func randSizes(r *rand.Rand, n int) []int {
	var sizes []int
	for left := n; left > 0; {
		s := 1 + r.Intn(6)
		if r.Intn(6) == 0 {
			s = 1 + r.Intn(30)
		}
		sizes = append(sizes, s)
		left -= s
	}
	return sizes
}

func runGroupby(c *Ctx) {
	r := c.Rng
	childLeft["groupby"] = c.N(1, 6)
	n := c.N(240, 3000)
	for i := 0; i < n; i++ {
		nk := 1 + r.Intn(3)
		if r.Intn(3) == 0 {
			nk = 1
		}
		var keyGens []func() string
		var classes []string
		var keys []keySpec
		mode := r.Intn(10)
		for k := 0; k < nk; k++ {
			cl, g := keyClass(r)
			if mode >= 4 && k < 2 { // a column that may become the declared sort key
				cl, g = keyClassSortable(r)
			}
			classes = append(classes, cl)
			keyGens = append(keyGens, g)
			name := fmt.Sprintf("k%d", k+1)
			keys = append(keys, keySpec{name, name})
		}
		if r.Intn(6) == 0 { // a computed key, anywhere
			keys = append(keys, keySpec{"kc", "a+1"})
			j := r.Intn(len(keys))
			keys[j], keys[len(keys)-1] = keys[len(keys)-1], keys[j]
		}
		vcl, vgen := valClass(r)
		nrows := r.Intn(40)
		if r.Intn(20) == 0 {
			nrows = 40 + r.Intn(120)
		}
		rows := genRows(r, nrows, keyGens, vgen)
		x := gbCase{Kind: "groupby", Keys: keys}
		na := 1 + r.Intn(4)
		used := map[string]bool{}
		for len(x.Aggs) < na {
			a := aggMenu[r.Intn(len(aggMenu))]
			if !used[a.Out] {
				used[a.Out] = true
				x.Aggs = append(x.Aggs, a)
			}
		}
		distinct := len(naiveGroups(keys, rows))
		x.Limit = pickLimit(r, distinct)
		switch {
		case mode < 4: // direct, input in random order
		case mode < 7 && keys[0].Expr != "a+1": // declared sorted on the first key
			desc := r.Intn(2) == 0
			rows = sortRows(rows, keys[0], desc, x.Limit > 0)
			x.Sort = keys[0].Out + ":asc"
			if desc {
				x.Sort = keys[0].Out + ":desc"
			}
			x.Sizes = randSizes(r, len(rows))
			if r.Intn(25) == 0 && len(keys) > 1 && keys[1].Expr != "a+1" {
				// declared sorted on a later key: the optimizer must not tell the group-by
				rows = sortRows(perm(r, rows), keys[1], desc, x.Limit > 0)
				x.Sort = keys[1].Out + strings.TrimPrefix(x.Sort, keys[0].Out)
			}
		default: // partial decomposition
			x.Chunks = chunking(r, len(rows), 1+r.Intn(4))
			x.Limit2 = pickLimit(r, distinct)
			if r.Intn(3) == 0 && keys[0].Expr != "a+1" {
				rows = sortRows(rows, keys[0], false, x.Limit > 0)
				x.Sort = keys[0].Out + ":asc"
				x.Sizes = randSizes(r, 8)
			}
		}
		x.Rows = rowsZSON(rows)
		c.Stat("groupby:keyclass:" + strings.Join(classes, "+"))
		c.Stat("groupby:valclass:" + vcl)
		for _, a := range x.Aggs {
			c.Stat("groupby:agg:" + a.Fn)
		}
		if i < 2 {
			c.Sample(map[string]any{"prog": x.prog(), "limit": x.Limit, "sort": x.Sort, "chunks": x.Chunks, "rows": len(x.Rows)})
		}
		t0 := time.Now()
		checkGroupby(c, x)
		if d := time.Since(t0); d > 300*time.Millisecond && os.Getenv("C10_DEBUG") != "" {
			fmt.Printf("SLOW %.2fs rows=%d limit=%d limit2=%d sort=%q chunks=%v distinct=%d prog=%s\n", d.Seconds(), len(x.Rows), x.Limit, x.Limit2, x.Sort, x.Chunks, distinct, x.prog())
		}
	}
}

// =========================================================================================
// corr: real Aggregator vs Lean model
// =========================================================================================

type corrCase struct {
	Kind   string   `json:"kind"`
	NKeys  int      `json:"nkeys"`
	Rows   []string `json:"rows"`
	Limit  int      `json:"limit"`
	Sort   string   `json:"sort,omitempty"` // "asc" | "desc": declared on k1, input really sorted
	Sizes  []int    `json:"sizes,omitempty"`
	Chunks []int    `json:"chunks,omitempty"`
	Limit2 int      `json:"limit2,omitempty"`
}

// mgroup is one group as the model (or the real code, re-rendered) reports it: the row of
// count(), sum(v), min(v), max(v), avg(v), union(id), union(v), dcount(s).
type mgroup struct {
	tok  string
	st   string   // the model's `(st …)` rendering (re-fed to the next stage)
	cols []string // canonical columns c, s, mn, mx, a (final form), u, dc
	avgP string   // avg in partial form "sum8/count"
	ids  []int
}

func (g mgroup) sig(partial bool) string {
	cols := append([]string(nil), g.cols...)
	if partial {
		cols[4] = g.avgP
		cols[6] = "-" // dcount's partial is a sketch: only its type is checked
	}
	return strings.Join(cols, " ") + " " + fmt.Sprint(g.ids)
}

// sx is a minimal s-expression reader for the driver's answers.
type sx struct {
	atom string
	list []sx
	isL  bool
}

func parseSx(s string) ([]sx, error) {
	var stack [][]sx
	cur := []sx{}
	i := 0
	for i < len(s) {
		switch ch := s[i]; {
		case ch == '(':
			stack = append(stack, cur)
			cur = []sx{}
			i++
		case ch == ')':
			if len(stack) == 0 {
				return nil, fmt.Errorf("unbalanced )")
			}
			l := sx{list: cur, isL: true}
			cur = append(stack[len(stack)-1], l)
			stack = stack[:len(stack)-1]
			i++
		case ch == ' ':
			i++
		default:
			j := i
			for j < len(s) && s[j] != ' ' && s[j] != '(' && s[j] != ')' {
				j++
			}
			cur = append(cur, sx{atom: s[i:j]})
			i = j
		}
	}
	if len(stack) != 0 {
		return nil, fmt.Errorf("unbalanced (")
	}
	return cur, nil
}

func (e sx) render() string {
	if !e.isL {
		return e.atom
	}
	var p []string
	for _, x := range e.list {
		p = append(p, x.render())
	}
	return "(" + strings.Join(p, " ") + ")"
}

func parseModelGroups(ans string) (int, []mgroup, error) {
	var spills int
	if _, err := fmt.Sscanf(ans, "spills=%d", &spills); err != nil {
		return 0, nil, fmt.Errorf("model answered %q", ans)
	}
	rest := ""
	if i := strings.Index(ans, " "); i >= 0 {
		rest = ans[i:]
	}
	es, err := parseSx(rest)
	if err != nil {
		return 0, nil, fmt.Errorf("model answered %q: %v", ans, err)
	}
	var out []mgroup
	for _, e := range es {
		if !e.isL || len(e.list) != 2 || !e.list[1].isL || len(e.list[1].list) != 10 {
			return 0, nil, fmt.Errorf("model group %q", e.render())
		}
		st := e.list[1].list
		g := mgroup{tok: e.list[0].atom, st: e.list[1].render()}
		for _, a := range st[7].list {
			n, _ := strconv.Atoi(a.atom)
			g.ids = append(g.ids, n)
		}
		sort.Ints(g.ids)
		col := func(fn, r string) string {
			c, err2 := modelAggCanon(fn, r)
			if err2 != nil {
				err = err2
			}
			return c
		}
		g.cols = []string{
			col("count", st[1].atom), col("sum", st[2].atom), col("min", st[3].atom), col("max", st[4].atom),
			col("avg", st[5].atom+"/"+st[6].atom), col("union", st[8].render()), col("count", fmt.Sprint(len(st[9].list))),
		}
		g.avgP = st[5].atom + "/" + st[6].atom
		if err != nil {
			return 0, nil, err
		}
		out = append(out, g)
	}
	return spills, out, nil
}

var corrCols = []string{"c", "s", "mn", "mx", "a", "u", "dc"}

const corrAggs = "c:=count(), s:=sum(v), mn:=min(v), mx:=max(v), a:=avg(v), ids:=union(id), u:=union(v), dc:=dcount(s)"

// realGroupOf re-renders a real output row (final or partial form) like a model group.
func realGroupOf(v zed.Value, keys []keySpec, partial bool) (mgroup, error) {
	var g mgroup
	var ks []string
	for _, k := range keys {
		s, ok := realKeyCol(v, k.Out)
		if !ok {
			return g, fmt.Errorf("no key column %s in %s", k.Out, fmtVals([]zed.Value{v})[0])
		}
		ks = append(ks, s)
	}
	g.tok = hexTok(strings.Join(ks, "\x00"))
	ids, err := idsOf(v, "ids")
	if err != nil {
		return g, err
	}
	g.ids = ids
	for _, c := range corrCols {
		s, ok := realCol(v, c)
		if !ok {
			return g, fmt.Errorf("no column %s in %s", c, fmtVals([]zed.Value{v})[0])
		}
		g.cols = append(g.cols, s)
	}
	if partial {
		// avg's partial is {sum:float64,count:uint64}; dcount's is a bytes sketch
		av, _ := fieldVal(v, "a")
		sum, ok1 := fieldVal(av, "sum")
		cnt, ok2 := fieldVal(av, "count")
		if !ok1 || !ok2 || zson_type(sum) != "float64" || zson_type(cnt) != "uint64" {
			return g, fmt.Errorf("avg column of a partials-out row is not in partial form {sum:float64,count:uint64}: %s", g.cols[4])
		}
		f := sum.Float() * 8
		if f != float64(int64(f)) {
			return g, fmt.Errorf("avg partial sum %v outside the exact class", sum.Float())
		}
		g.avgP = fmt.Sprintf("%d/%d", int64(f), cnt.Uint())
		dv, _ := fieldVal(v, "dc")
		if zson_type(dv) != "bytes" {
			return g, fmt.Errorf("dcount column of a partials-out row is not a sketch (bytes): %s", g.cols[6])
		}
	}
	return g, nil
}

func checkCorr(c *Ctx, x corrCase) {
	x.Kind = "corr"
	var rows []grow
	for _, z := range x.Rows {
		rows = append(rows, growFromZSON(z))
	}
	var keys []keySpec
	var knames []string
	for k := 0; k < x.NKeys; k++ {
		n := fmt.Sprintf("k%d", k+1)
		keys = append(keys, keySpec{n, n})
		knames = append(knames, n)
	}
	prog := "summarize " + corrAggs + " by " + strings.Join(knames, ", ")
	mode := "direct"
	if x.Chunks != nil {
		mode = "partials"
	}
	if x.Sort != "" {
		mode = "sorted-" + x.Sort
	}
	naive := naiveGroups(keys, rows)
	ek := ""
	if len(rows) >= 2 && len(naive) >= 2 {
		ek = fmt.Sprintf("corr|%d|%d|%d|%s|%v|%v|%d", x.NKeys, len(rows), x.Limit, x.Sort, x.Sizes, x.Chunks, len(naive))
	}
	c.Eval(ek)
	c.Stat("corr:mode:" + mode)
	colRanks := make([]map[string]int, x.NKeys)
	for k := range keys {
		var vs []gval
		for _, r := range rows {
			vs = append(vs, keyValue(keys[k], r))
		}
		colRanks[k] = ranksOf(vs)
	}
	tieIdents := map[string]map[string]bool{}
	keyOf := func(r grow) (string, string) {
		var ks []gval
		var rk []string
		for k := range keys {
			v := keyValue(keys[k], r)
			ks = append(ks, v)
			rank := colRanks[k][v.tie()]
			if k == 0 && x.Sort == "desc" {
				rank = -rank
			}
			rk = append(rk, fmt.Sprint(rank))
		}
		t := keyTie(ks)
		if tieIdents[t] == nil {
			tieIdents[t] = map[string]bool{}
		}
		tieIdents[t][keyIdent(ks)] = true
		return hexTok(keyIdent(ks)), "(" + strings.Join(rk, " ") + ")"
	}
	ranksOfTok := map[string]string{}
	idKey := map[int]string{}
	var mrows []string
	for _, r := range rows {
		tok, rk := keyOf(r)
		ranksOfTok[tok] = rk
		idKey[r.ID] = tok
		av := "-"
		if v := r.get("v"); !v.Missing {
			av = avalSexp(v)
		}
		mrows = append(mrows, fmt.Sprintf("(%s %s (v %d %s %s))", tok, rk, r.ID, av, hexTok(r.get("s").ident())))
	}
	multiTie := false
	for _, ids := range tieIdents {
		if len(ids) > 1 {
			multiTie = true
		}
	}
	if multiTie {
		c.Stat("corr:keys-with-cross-type-ties")
	}
	what := func(s string) string {
		return fmt.Sprintf("`%s` limit=%d sort=%q sizes=%v chunks=%v limit2=%d over %d rows: %s", prog, x.Limit, x.Sort, x.Sizes, x.Chunks, x.Limit2, len(rows), s)
	}
	lim := func(l int) int {
		if l == 0 {
			return 1000000
		}
		return l
	}
	// ---- model ----
	m := c.Model()
	var mgs []mgroup
	var mstage1 [][]mgroup
	var mspills int
	var err error
	switch {
	case x.Sort != "":
		var bs []string
		p := 0
		for bi := 0; p < len(mrows); bi++ {
			n := 100
			if bi < len(x.Sizes) && x.Sizes[bi] > 0 {
				n = x.Sizes[bi]
			}
			e := min(p+n, len(mrows))
			bs = append(bs, "("+strings.Join(mrows[p:e], " ")+")")
			p = e
		}
		mspills, mgs, err = parseModelGroups(m.Call(fmt.Sprintf("(C10 sorted %d %s)", lim(x.Limit), strings.Join(bs, " "))))
	case x.Chunks == nil:
		mspills, mgs, err = parseModelGroups(m.Call(fmt.Sprintf("(C10 groupby %d %s)", lim(x.Limit), strings.Join(mrows, " "))))
	default:
		var mid []string
		p := 0
		for _, n := range x.Chunks {
			if n > 0 {
				sp, gs, e := parseModelGroups(m.Call(fmt.Sprintf("(C10 groupby %d %s)", lim(x.Limit), strings.Join(mrows[p:p+n], " "))))
				if e != nil {
					err = e
					break
				}
				mspills += sp
				mstage1 = append(mstage1, gs)
				for _, g := range gs {
					mid = append(mid, fmt.Sprintf("(%s %s %s)", g.tok, ranksOfTok[g.tok], g.st))
				}
			}
			p += n
		}
		if err == nil {
			var sp int
			sp, mgs, err = parseModelGroups(m.Call(fmt.Sprintf("(C10 groupby %d %s)", lim(x.Limit2), strings.Join(mid, " "))))
			mspills += sp
		}
	}
	c.Res.ModelCases++
	if err != nil {
		c.Fail("correspondence", "C10:corr:model-answer", err.Error(), x)
		return
	}
	if mspills > 0 {
		c.Stat("corr:model-spilled")
	}
	// ---- real ----
	zctx := zed.NewContext()
	in, perr := parseRows(zctx, x.Rows)
	if perr != nil {
		c.Note("corr: %v", perr)
		return
	}
	realErr := func(err error) {
		kind := "oracle"
		if isPanic(err) {
			kind = "panic"
		}
		c.Fail(kind, "C10:corr:real-error", what(firstLine(err.Error())), x)
	}
	var out []zed.Value
	if x.Chunks == nil {
		sk := ""
		if x.Sort != "" {
			sk = "k1:" + x.Sort
		}
		out, err = runQuery(qopts{Prog: prog, Zctx: zctx, Inputs: [][]zed.Value{in}, Limit: x.Limit, SortKey: sk, Sizes: x.Sizes})
		if err != nil {
			realErr(err)
			return
		}
	} else {
		var mid []zed.Value
		p, ci := 0, 0
		for _, n := range x.Chunks {
			part := in[p : p+n]
			p += n
			if n == 0 {
				continue
			}
			po, err := runQuery(qopts{Prog: prog, Zctx: zctx, Inputs: [][]zed.Value{part}, Limit: x.Limit, PartOut: true})
			if err != nil {
				realErr(err)
				return
			}
			// the partial rows of this stage against the model's stage (exact keys are only
			// determined when no two different keys compare equal)
			if !multiTie {
				var rs, ms []string
				for _, v := range po {
					g, e := realGroupOf(v, keys, true)
					if e != nil {
						c.Fail("correspondence", "C10:corr:partial-form", what(e.Error()), x)
						return
					}
					rs = append(rs, g.tok+" "+g.sig(true))
				}
				for _, g := range mstage1[ci] {
					ms = append(ms, g.tok+" "+g.sig(true))
				}
				if !sameSet(rs, ms) {
					c.Fail("correspondence", "C10:corr:partials-out-rows", what(fmt.Sprintf("chunk %d: model-only %v ; real-only %v", ci, MsDiff(ms, rs, 3), MsDiff(rs, ms, 3))), x)
					return
				}
			}
			ci++
			mid = append(mid, po...)
		}
		if len(mid) > 0 {
			out, err = runQuery(qopts{Prog: prog, Zctx: zctx, Inputs: [][]zed.Value{mid}, Limit: x.Limit2, PartIn: true})
			if err != nil {
				realErr(err)
				return
			}
		}
	}
	var rgs []mgroup
	for _, v := range out {
		g, e := realGroupOf(v, keys, false)
		if e != nil {
			c.Fail("correspondence", "C10:corr:real-row", what(e.Error()), x)
			return
		}
		rgs = append(rgs, g)
	}
	coarse := multiTie && x.Chunks != nil
	render := func(gs []mgroup) []string {
		var out []string
		if !coarse {
			for _, g := range gs {
				out = append(out, g.sig(false))
			}
			return out
		}
		// two-stage runs with cross-type ties: which representative a stage-1 spill keeps is
		// map-order dependent, so only the coarsening to tie classes is determined
		byTie := map[string][]int{}
		for _, g := range gs {
			if len(g.ids) == 0 {
				continue
			}
			var ks []gval
			r := rows[0]
			for _, rr := range rows {
				if rr.ID == g.ids[0] {
					r = rr
				}
			}
			for _, k := range keys {
				ks = append(ks, keyValue(k, r))
			}
			byTie[keyTie(ks)] = append(byTie[keyTie(ks)], g.ids...)
		}
		for t, ids := range byTie {
			sort.Ints(ids)
			out = append(out, hexTok(t)+fmt.Sprint(ids))
		}
		return out
	}
	a, b := render(mgs), render(rgs)
	if !sameSet(a, b) {
		c.Fail("correspondence", "C10:corr:"+mode+":groups", what(fmt.Sprintf("model-only groups (c s mn mx a u dc ids) %s ; real-only %s", short(MsDiff(a, b, 4), 4), short(MsDiff(b, a, 4), 4))), x)
		return
	}
	// representative: the real group's key is the key of one of its rows
	for _, g := range rgs {
		ok := false
		for _, id := range g.ids {
			if idKey[id] == g.tok {
				ok = true
			}
		}
		if !ok {
			c.Fail("correspondence", "C10:corr:"+mode+":representative", what(fmt.Sprintf("real group key %q is not the key of any of its rows %v", unhexTok(g.tok), g.ids)), x)
			return
		}
	}
}

func runCorr(c *Ctx) {
	r := c.Rng
	n := c.N(200, 2500)
	for i := 0; i < n; i++ {
		nk := 1 + r.Intn(2)
		var keyGens []func() string
		var classes []string
		for k := 0; k < nk; k++ {
			// ranks are computed by the harness: only classes whose order it knows
			cl, g := keyClassSortable(r)
			classes = append(classes, cl)
			keyGens = append(keyGens, g)
		}
		nrows := 1 + r.Intn(36)
		if r.Intn(25) == 0 {
			nrows = 100 + r.Intn(100)
		}
		vgen := func() string {
			switch r.Intn(12) {
			case 0:
				return pick(r, clsStr)
			case 1, 2:
				return pick(r, clsFloat)
			case 3:
				return fmt.Sprintf("%d(uint64)", r.Intn(9))
			case 4:
				return pick(r, clsNulls)
			case 5:
				return ""
			case 6:
				return pick(r, clsNumType)
			}
			return pick(r, clsInt)
		}
		if r.Intn(4) == 0 { // homogeneous ints: sums stay integral
			vgen = func() string { return pick(r, clsInt) }
		}
		rows := genRows(r, nrows, keyGens, vgen)
		var keys []keySpec
		for k := 0; k < nk; k++ {
			nm := fmt.Sprintf("k%d", k+1)
			keys = append(keys, keySpec{nm, nm})
		}
		distinct := len(naiveGroups(keys, rows))
		x := corrCase{Kind: "corr", NKeys: nk, Limit: pickLimit(r, distinct)}
		switch r.Intn(10) {
		case 0, 1, 2, 3:
		case 4, 5, 6:
			desc := r.Intn(2) == 0
			rows = sortRows(rows, keys[0], desc, false)
			x.Sort = "asc"
			if desc {
				x.Sort = "desc"
			}
			x.Sizes = randSizes(r, len(rows))
		default:
			x.Chunks = chunking(r, len(rows), 1+r.Intn(4))
			x.Limit2 = pickLimit(r, distinct)
		}
		x.Rows = rowsZSON(rows)
		c.Stat("corr:keyclass:" + strings.Join(classes, "+"))
		if i < 2 {
			c.Sample(map[string]any{"corr": x.NKeys, "limit": x.Limit, "sort": x.Sort, "chunks": x.Chunks, "rows": len(x.Rows)})
		}
		checkCorr(c, x)
	}
}

// =========================================================================================
// join
// =========================================================================================

type joinCase struct {
	Kind  string   `json:"kind"`
	Style string   `json:"style"` // inner | left | right | anti
	L     []string `json:"l"`     // key literals of the left rows ("" = key absent)
	R     []string `json:"r"`
	LMode string   `json:"lmode"` // "" unsorted | asc | desc   (leg sorted by a sort operator)
	RMode string   `json:"rmode"`
	Order []int    `json:"order"` // interleaving of the rows in the single input: index into L (i) or R (len(L)+j)
	// Direct: the join operator is built directly (join.New) over two separate readers;
	// LMode/RMode are then "" | fasc | fdesc: that side's reader delivers its rows sorted that
	// way (comparator convention: nulls last ascending, first descending) and that direction is
	// declared to join.New — independently per side.  (dag.FileScan.SortKeys is never propagated
	// by the optimizer, so declared orders cannot reach a join through `file` sources.)
	Direct bool `json:"direct,omitempty"`
}

func (x joinCase) prog() string {
	leg := func(has, key, mode string) string {
		s := "has(" + has + ")"
		switch mode {
		case "asc":
			s += " | sort " + key
		case "desc":
			s += " | sort -r " + key
		}
		return s
	}
	args := " rr:=r"
	switch x.Style {
	case "anti":
		args = ""
	case "right":
		args = " ll:=l"
	}
	if x.Direct {
		return fmt.Sprintf("join.New(%s; left reader declared %q, right reader declared %q) on a=b%s", x.Style, x.LMode, x.RMode, args)
	}
	return fmt.Sprintf("fork (=> %s => %s) | %s join on a=b%s", leg("l", "a", x.LMode), leg("r", "b", x.RMode), x.Style, args)
}

func checkJoin(c *Ctx, x joinCase) {
	x.Kind = "join"
	var l, r []jrow
	var rows []string
	for i, k := range x.L {
		l = append(l, jrow{i, mk(k)})
	}
	for j, k := range x.R {
		r = append(r, jrow{1000 + j, mk(k)})
	}
	rowText := func(idx int) string {
		if idx < len(l) {
			if l[idx].Key.Missing {
				return fmt.Sprintf("{l:%d}", l[idx].ID)
			}
			return fmt.Sprintf("{l:%d,a:%s}", l[idx].ID, l[idx].Key.Z)
		}
		j := idx - len(l)
		if r[j].Key.Missing {
			return fmt.Sprintf("{r:%d}", r[j].ID)
		}
		return fmt.Sprintf("{r:%d,b:%s}", r[j].ID, r[j].Key.Z)
	}
	// arrival order of each side before any sort = order of appearance in the input
	var lin, rin []jrow
	for _, idx := range x.Order {
		rows = append(rows, rowText(idx))
		if idx < len(l) {
			lin = append(lin, l[idx])
		} else {
			rin = append(rin, r[idx-len(l)])
		}
	}
	prog := x.prog()
	var all []gval
	for _, a := range l {
		all = append(all, a.Key)
	}
	for _, b := range r {
		all = append(all, b.Key)
	}
	rk := ranksOf(all)
	if x.Direct {
		// each side from its own reader, in the order given, sorted as declared
		declSort := func(side []jrow, mode string) []jrow {
			out := append([]jrow(nil), side...)
			if mode == "" {
				return out
			}
			sort.SliceStable(out, func(i, j int) bool {
				a, b := out[i].Key, out[j].Key
				an, bn := a.Null || a.Missing, b.Null || b.Missing
				if mode == "fdesc" {
					if an || bn {
						return an && !bn // nulls first
					}
					return rk[a.tie()] > rk[b.tie()]
				}
				if an || bn {
					return !an && bn // nulls last
				}
				return rk[a.tie()] < rk[b.tie()]
			})
			return out
		}
		lin, rin = declSort(l, x.LMode), declSort(r, x.RMode)
	}
	// naive
	var want []string
	if x.Style == "right" {
		for _, p := range naiveJoin("left", rin, lin) {
			f := strings.Fields(p)
			want = append(want, f[1]+" "+f[0])
		}
	} else {
		want = naiveJoin(x.Style, lin, rin)
	}
	matches := 0
	for _, p := range want {
		if !strings.Contains(p, "-") {
			matches++
		}
	}
	ek := ""
	if matches > 0 {
		ek = fmt.Sprintf("join|%s|%s|%s|%d|%d|%d", x.Style, x.LMode, x.RMode, len(l), len(r), matches)
	}
	c.Eval(ek)
	c.Stat("join:style:" + x.Style)
	c.Stat("join:modes:" + x.LMode + "/" + x.RMode)
	zctx := zed.NewContext()
	in, err := parseRows(zctx, rows)
	if err != nil {
		c.Note("join: %v", err)
		return
	}
	what := func(s string) string {
		return fmt.Sprintf("`%s` over left keys %s right keys %s: %s", prog, short(x.L, 14), short(x.R, 14), s)
	}
	var out []zed.Value
	if x.Direct {
		var lt, rt []string
		for i := range lin {
			for idx := range l {
				if l[idx].ID == lin[i].ID {
					lt = append(lt, rowText(idx))
				}
			}
		}
		for i := range rin {
			for j := range r {
				if r[j].ID == rin[i].ID {
					rt = append(rt, rowText(len(l)+j))
				}
			}
		}
		lv, e1 := parseRows(zctx, lt)
		rv, e2 := parseRows(zctx, rt)
		if e1 != nil || e2 != nil {
			c.Note("join: %v %v", e1, e2)
			return
		}
		out, err = runJoinDirect(zctx, x.Style, lv, rv, x.LMode, x.RMode)
	} else {
		out, err = runQuery(qopts{Prog: prog, Zctx: zctx, Inputs: [][]zed.Value{in}})
	}
	if err != nil {
		kind := "oracle"
		if isPanic(err) {
			kind = "panic"
		}
		c.Fail(kind, "C10:join:"+x.Style+":error", what(firstLine(err.Error())), x)
		return
	}
	num := func(v zed.Value, f string) string {
		fv, ok := fieldVal(v, f)
		if !ok || fv.IsNull() {
			return "-"
		}
		return fmt.Sprint(fv.Int())
	}
	var got []string
	for _, v := range out {
		switch x.Style {
		case "right":
			got = append(got, num(v, "ll")+" "+num(v, "r"))
		case "anti":
			got = append(got, num(v, "l")+" -")
		default:
			got = append(got, num(v, "l")+" "+num(v, "rr"))
		}
	}
	// model: the legs as the sources deliver them; the model plans the join (right-style swap,
	// direction, inserted sorts) and runs it
	desc := false // join.New: o from ITS left declared direction, else from its right
	first, second := x.LMode, x.RMode
	if x.Style == "right" { // sides are swapped before join.New
		first, second = second, first
	}
	switch {
	case first != "":
		desc = strings.HasSuffix(first, "desc")
	case second != "":
		desc = strings.HasSuffix(second, "desc")
	}
	legName := func(m string) string {
		if m == "" {
			return "-"
		}
		return m
	}
	side := func(rows []jrow) string {
		var s []string
		for _, a := range rows {
			if a.Key.Missing {
				continue
			}
			k := "null"
			if !a.Key.Null {
				k = fmt.Sprint(rk[a.Key.tie()])
			}
			s = append(s, fmt.Sprintf("(%s %d)", k, a.ID))
		}
		return "(" + strings.Join(s, " ") + ")"
	}
	ans := c.Model().Call(fmt.Sprintf("(C10 joinfull %s %s %s %s %s)", x.Style, legName(x.LMode), legName(x.RMode), side(lin), side(rin)))
	c.Res.ModelCases++
	var model []string
	for _, p := range strings.Split(strings.TrimSuffix(strings.TrimPrefix(ans, "("), ")"), ") (") {
		if p == "" {
			continue
		}
		f := strings.Fields(p)
		if len(f) != 2 {
			c.Fail("correspondence", "C10:join:model-answer", "model answered "+ans, x)
			return
		}
		model = append(model, f[0]+" "+f[1])
	}
	if !sameSet(model, got) {
		c.Fail("correspondence", "C10:join:"+x.Style+":model", what(fmt.Sprintf("model-only %v real-only %v", MsDiff(model, got, 6), MsDiff(got, model, 6))), x)
	}
	if !sameSet(got, want) {
		// classification: does the disagreement involve only rows with null keys under a
		// descending (declared or inserted) order?
		keyOf := map[string]gval{}
		for _, a := range l {
			keyOf[fmt.Sprint(a.ID)] = a.Key
		}
		for _, b := range r {
			keyOf[fmt.Sprint(b.ID)] = b.Key
		}
		onlyNull := true
		for _, p := range append(MsDiffAll(got, want), MsDiffAll(want, got)...) {
			f := strings.Fields(p)
			isNull := false
			for _, id := range f {
				if k, ok := keyOf[id]; ok && k.Null {
					isNull = true
				}
			}
			if !isNull {
				onlyNull = false
			}
		}
		key := "C10:join:" + x.Style + ":mismatch"
		if onlyNull && desc {
			key = keyJoinNullDesc
		}
		c.Fail("oracle", key, what(fmt.Sprintf("real-only pairs %v, nested-loop-only pairs %v", MsDiff(got, want, 6), MsDiff(want, got, 6))), x)
	}
}

func runJoin(c *Ctx) {
	r := c.Rng
	n := c.N(200, 2500)
	styles := []string{"inner", "left", "right", "anti"}
	modes := []string{"", "", "asc", "desc"}
	for i := 0; i < n; i++ {
		x := joinCase{Kind: "join", Style: styles[r.Intn(4)], LMode: modes[r.Intn(4)], RMode: modes[r.Intn(4)]}
		if r.Intn(3) == 0 && x.Style != "right" { // two separate readers, independently declared orders
			x.Direct = true
			fm := []string{"", "fasc", "fdesc"}
			x.LMode, x.RMode = fm[r.Intn(3)], fm[r.Intn(3)]
		}
		_, kg := keyClass(r)
		for {
			var cl string
			cl, kg = keyClass(r)
			if cl != "other" {
				break
			}
		}
		nullish := r.Intn(3) == 0
		gen := func() string {
			if nullish && r.Intn(5) == 0 {
				if r.Intn(3) == 0 {
					return ""
				}
				return pick(r, clsNulls)
			}
			return kg()
		}
		nl, nr := r.Intn(14), r.Intn(14)
		if r.Intn(12) == 0 {
			nl, nr = 20+r.Intn(120), 20+r.Intn(120)
		}
		for j := 0; j < nl; j++ {
			x.L = append(x.L, gen())
		}
		for j := 0; j < nr; j++ {
			x.R = append(x.R, gen())
		}
		x.Order = r.Perm(nl + nr)
		if i < 2 {
			c.Sample(map[string]any{"prog": x.prog(), "l": x.L, "r": x.R})
		}
		checkJoin(c, x)
	}
}

// =========================================================================================
// witnesses of the confirmed defects
// =========================================================================================

func runWitnesses(c *Ctx) {
	before := len(c.Res.Failures)
	expect := func(key string, f func()) {
		n := c.Res.Stats["fail:"+key]
		f()
		if c.Res.Stats["fail:"+key] == n {
			c.Stat("witness-not-reproduced:" + key)
			c.Note("witness for %s no longer fails on the real code (defect fixed?)", key)
		} else {
			c.Stat("witness-reproduced:" + key)
		}
	}
	// DESIGN §11 item 8
	expect(keySpillMerge, func() {
		checkGroupby(c, gbCase{Keys: []keySpec{{"k1", "k1"}}, Aggs: []aggSpec{{"s", "sum", "v", ""}},
			Rows: []string{"{id:0,k1:1,v:10}", "{id:1,k1:1(uint64),v:12}", "{id:2,k1:1.,v:1000}"}, Limit: 2})
	})
	// the same input, table fits: must agree with naive (no failure expected)
	checkGroupby(c, gbCase{Keys: []keySpec{{"k1", "k1"}}, Aggs: []aggSpec{{"s", "sum", "v", ""}},
		Rows: []string{"{id:0,k1:1,v:10}", "{id:1,k1:1(uint64),v:12}", "{id:2,k1:1.,v:1000}"}, Limit: 3})
	expect(keySortNotFirst, func() {
		checkGroupby(c, gbCase{Keys: []keySpec{{"k1", "k1"}, {"k2", "k2"}}, Aggs: []aggSpec{{"c", "count", "", ""}},
			Rows: []string{"{id:0,k1:1,k2:1}", "{id:1,k1:2,k2:1}", "{id:2,k1:1,k2:1}", "{id:3,k1:1,k2:2}"}, Sort: "k2:asc", Sizes: []int{2, 2}})
	})
	expect(keySortedMissing, func() {
		checkGroupby(c, gbCase{Keys: []keySpec{{"k1", "k1"}}, Aggs: []aggSpec{{"c", "count", "", ""}},
			Rows: []string{"{id:0,k1:1}", "{id:1}", "{id:2,k1:null(int64)}", "{id:3}"}, Sort: "k1:asc", Sizes: []int{3, 1}})
	})
	expect(keyJoinNullDesc, func() {
		checkJoin(c, joinCase{Style: "inner", L: []string{"2", "1", "null(int64)"}, R: []string{"2", "null(int64)"}, LMode: "desc", RMode: "desc", Order: []int{0, 1, 2, 3, 4}})
		// the same with ascending sorts agrees with the nested loop (no failure expected)
		checkJoin(c, joinCase{Style: "inner", L: []string{"2", "1", "null(int64)"}, R: []string{"2", "null(int64)"}, LMode: "asc", RMode: "asc", Order: []int{0, 1, 2, 3, 4}})
	})
	expect(keyNullClass, func() {
		checkAgg(c, aggCase{Fn: "min", Vals: []string{"null(uint64)", "5"}, Chunks: []int{2}})
	})
	expect(keyBigUint, func() { bigUintWitness(c) })
	expect(keyFuseUnion, func() {
		checkAgg(c, aggCase{Fn: "fuse", Vals: []string{"1", "5"}, Chunks: []int{1, 1}})
	})
	expect(keySortedSpillNil, func() {
		// descending: missing/null first.  The first spill holds three rows with a missing
		// primary key and one with key 7; when one of the former happens to be its last row
		// (Go map order: 3 in 4) maxSpillKey stays nil, and the release at the end of the batch
		// dereferences it when it reaches the row with key 7.
		runInChildN(c, gbCase{Kind: "groupby", Keys: []keySpec{{"k1", "k1"}, {"k2", "k2"}}, Aggs: []aggSpec{{"c", "count", "", ""}},
			Rows: []string{`{id:0,k2:"a"}`, `{id:1,k2:"b"}`, `{id:2,k2:"c"}`, `{id:3,k1:7,k2:"a"}`, `{id:4,k1:5,k2:"a"}`},
			Limit: 4, Sort: "k1:desc", Sizes: []int{5}}, keySortedSpillNil, 3)
	})
	expect(keyFusePanic, func() {
		checkAgg(c, aggCase{Fn: "fuse", Vals: []string{"{a:1}", ""}, Chunks: []int{1, 1}})
	})
	c.StatN("witness-failures", len(c.Res.Failures)-before)
}

// sum/min/max over an int64 and a uint64 above MaxInt64 depend on the input order
// (coerce.Promote refuses the uint64 when the accumulator is signed and silently drops it;
// in the other order the accumulator is converted with wrap-around).
func bigUintWitness(c *Ctx) {
	run := func(rows []string) string {
		zctx := zed.NewContext()
		in, _ := parseRows(zctx, rows)
		out, err := runQuery(qopts{Prog: "summarize s:=sum(v), mn:=min(v), mx:=max(v)", Zctx: zctx, Inputs: [][]zed.Value{in}})
		if err != nil || len(out) != 1 {
			return fmt.Sprint("error ", err)
		}
		return fmtVals(out)[0]
	}
	a := run([]string{"{v:1}", "{v:9223372036854775813(uint64)}"})
	b := run([]string{"{v:9223372036854775813(uint64)}", "{v:1}"})
	c.Eval("witness|biguint")
	if a != b {
		c.Fail("oracle", keyBigUint, fmt.Sprintf("sum/min/max over {1, 9223372036854775813(uint64)} depend on input order: %s vs %s", a, b),
			map[string]any{"kind": "witness-biguint"})
	}
}

// canonType: a fuse result compared modulo record field order (C20 owns field order).
func canonType(s string) string { return canonTypeDedup(s, false) }

// canonTypeDedup additionally removes repeated members of unions (and a union left with a
// single member becomes that member) when dedup is set.
func canonTypeDedup(s string, dedup bool) string {
	// sort the comma-separated items of every innermost {...} group, repeatedly
	b := []byte(s)
	var rec func(i int) (string, int)
	rec = func(i int) (string, int) {
		var items []string
		cur := strings.Builder{}
		for i < len(b) {
			ch := b[i]
			switch ch {
			case '{', '[', '(':
				close := map[byte]byte{'{': '}', '[': ']', '(': ')'}[ch]
				inner, j := rec(i + 1)
				if dedup && ch == '(' {
					var uniq []string
					for _, m := range splitTop(inner) {
						if len(uniq) == 0 || uniq[len(uniq)-1] != m {
							uniq = append(uniq, m)
						}
					}
					if len(uniq) == 1 {
						cur.WriteString(uniq[0])
						i = j + 1
						continue
					}
					inner = strings.Join(uniq, ",")
				}
				cur.WriteByte(ch)
				cur.WriteString(inner)
				cur.WriteByte(close)
				i = j + 1
				continue
			case '}', ']', ')':
				items = append(items, cur.String())
				sort.Strings(items)
				return strings.Join(items, ","), i
			case ',':
				items = append(items, cur.String())
				cur.Reset()
			default:
				cur.WriteByte(ch)
			}
			i++
		}
		items = append(items, cur.String())
		return strings.Join(items, ","), i
	}
	out, _ := rec(0)
	return out
}

// orderedElems returns the elements of an array column in order.
func orderedElems(v zed.Value, name string) []string {
	f, ok := fieldVal(v, name)
	if !ok || f.IsNull() {
		return nil
	}
	t, ok := zed.TypeUnder(f.Type()).(*zed.TypeArray)
	if !ok {
		return nil
	}
	var out []string
	for it := f.Iter(); !it.Done(); {
		e := zed.NewValue(t.Type, it.Next()).Under()
		out = append(out, typeValIdent(e))
	}
	return out
}
