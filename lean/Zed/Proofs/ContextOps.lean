import Zed.Proofs.ContextInv
import Zed.Proofs.InsertionSort2
import Zed.Proofs.CompareTypesSwap
namespace Zed
open Zcode List Generated.C05

theorem Fields.ofList_toList : (fs : Fields) → Fields.ofList fs.toList = fs
  | .nil => rfl
  | .cons n t r => by simp [Fields.toList, Fields.ofList, Fields.ofList_toList r]
theorem Fields.toList_ofList : (l : List (Name × Ty)) → (Fields.ofList l).toList = l
  | [] => rfl
  | (n, t) :: r => by simp [Fields.toList, Fields.ofList, Fields.toList_ofList r]
theorem Tys.ofList_toList : (ts : Tys) → Tys.ofList ts.toList = ts
  | .nil => rfl
  | .cons t r => by simp [Tys.toList, Tys.ofList, Tys.ofList_toList r]
theorem Tys.toList_ofList : (l : List Ty) → (Tys.ofList l).toList = l
  | [] => rfl
  | t :: r => by simp [Tys.toList, Tys.ofList, Tys.toList_ofList r]
theorem Fields.names_eq_map : (fs : Fields) → fs.names = fs.toList.map (·.1)
  | .nil => rfl
  | .cons n t r => by simp [Fields.names, Fields.toList, Fields.names_eq_map r]
theorem Fields.length_toList : (fs : Fields) → fs.toList.length = fs.length
  | .nil => rfl
  | .cons n t r => by simp [Fields.toList, Fields.length, Fields.length_toList r]
theorem Tys.length_toList : (ts : Tys) → ts.toList.length = ts.length
  | .nil => rfl
  | .cons t r => by simp [Tys.toList, Tys.length, Tys.length_toList r]
theorem Tys.length_ofList : (l : List Ty) → (Tys.ofList l).length = l.length
  | [] => rfl
  | t :: r => by simp [Tys.ofList, Tys.length, Tys.length_ofList r]
theorem Fields.length_ofList : (l : List (Name × Ty)) → (Fields.ofList l).length = l.length
  | [] => rfl
  | (n, t) :: r => by simp [Fields.ofList, Fields.length, Fields.length_ofList r]

theorem Fields.wf_ofList : (l : List (Name × Ty)) → (∀ p ∈ l, Ctx.nameOk p.1 = true ∧ p.2.wf = true) →
    (Fields.ofList l).wf = true
  | [], _ => rfl
  | (n, t) :: r, h => by
    have h1 := h (n, t) (by simp)
    simp only [Fields.ofList, Fields.wf, Bool.and_eq_true]
    exact ⟨⟨h1.1, h1.2⟩, Fields.wf_ofList r (fun p hp => h p (by simp [hp]))⟩
theorem Tys.wf_ofList : (l : List Ty) → (∀ t ∈ l, t.wf = true) → (Tys.ofList l).wf = true
  | [], _ => rfl
  | t :: r, h => by
    simp only [Tys.ofList, Tys.wf, Bool.and_eq_true]
    exact ⟨h t (by simp), Tys.wf_ofList r (fun u hu => h u (by simp [hu]))⟩

theorem tyLess_asymm (a b : Ty) (h : tyLess a b = true) : tyLess b a = false := by
  simp only [tyLess, beq_iff_eq] at h
  simp [tyLess, cmpTy_swap a b, h, Ordering.swap]

namespace Ctx

theorem lookupArray_spec (c : Ctx) (hc : c.Inv) (t : Ty) (ht : c.has t) :
    (c.lookupArray t).1 = .array t ∧ (c.lookupArray t).2.Inv ∧ (c.lookupArray t).2.typedefs = c.typedefs ∧
    (∀ u, c.has u → (c.lookupArray t).2.has u) ∧ (c.lookupArray t).2.has (.array t) :=
  lookupOrEnter_spec c hc (.array t) (by simpa [Ty.wf] using ht.1) rfl

theorem lookupSet_spec (c : Ctx) (hc : c.Inv) (t : Ty) (ht : c.has t) :
    (c.lookupSet t).1 = .set t ∧ (c.lookupSet t).2.Inv ∧ (c.lookupSet t).2.typedefs = c.typedefs ∧
    (∀ u, c.has u → (c.lookupSet t).2.has u) ∧ (c.lookupSet t).2.has (.set t) :=
  lookupOrEnter_spec c hc (.set t) (by simpa [Ty.wf] using ht.1) rfl

theorem lookupError_spec (c : Ctx) (hc : c.Inv) (t : Ty) (ht : c.has t) :
    (c.lookupError t).1 = .error t ∧ (c.lookupError t).2.Inv ∧ (c.lookupError t).2.typedefs = c.typedefs ∧
    (∀ u, c.has u → (c.lookupError t).2.has u) ∧ (c.lookupError t).2.has (.error t) :=
  lookupOrEnter_spec c hc (.error t) (by simpa [Ty.wf] using ht.1) rfl

theorem lookupMap_spec (c : Ctx) (hc : c.Inv) (k v : Ty) (hk : c.has k) (hv : c.has v) :
    (c.lookupMap k v).1 = .map k v ∧ (c.lookupMap k v).2.Inv ∧ (c.lookupMap k v).2.typedefs = c.typedefs ∧
    (∀ u, c.has u → (c.lookupMap k v).2.has u) ∧ (c.lookupMap k v).2.has (.map k v) :=
  lookupOrEnter_spec c hc (.map k v) (by simp [Ty.wf, hk.1, hv.1]) rfl

theorem lookupEnum_spec (c : Ctx) (hc : c.Inv) (syms : List Name) (hs : syms.all nameOk = true)
    (hl : syms.length ≤ maxEnumSymbols) :
    (c.lookupEnum syms).1 = .enum syms ∧ (c.lookupEnum syms).2.Inv ∧ (c.lookupEnum syms).2.typedefs = c.typedefs ∧
    (∀ u, c.has u → (c.lookupEnum syms).2.has u) ∧ (c.lookupEnum syms).2.has (.enum syms) :=
  lookupOrEnter_spec c hc (.enum syms) (by simp [Ty.wf, hs, hl]) rfl

/-- `LookupTypeUnion`: the members are sorted first; the sorted list is what is entered -/
theorem lookupUnion_spec (c : Ctx) (hc : c.Inv) (ts : List Ty) (ht : ∀ t ∈ ts, c.has t)
    (hl : ts.length ≤ maxUnionTypes) :
    (c.lookupUnion ts).1 = .union (Tys.ofList (sortTys ts)) ∧ (c.lookupUnion ts).2.Inv ∧
    (c.lookupUnion ts).2.typedefs = c.typedefs ∧
    (∀ u, c.has u → (c.lookupUnion ts).2.has u) ∧ (c.lookupUnion ts).2.has (.union (Tys.ofList (sortTys ts))) := by
  unfold lookupUnion
  refine lookupOrEnter_spec c hc _ ?_ rfl
  have hperm : ∀ (l acc : List Ty), (l.foldl (fun acc x => insRev tyLess x acc) acc).Perm (l ++ acc) := by
    intro l
    induction l with
    | nil => intro acc; exact Perm.refl _
    | cons x xs ih =>
      intro acc
      refine (ih _).trans ?_
      have : (insRev tyLess x acc).Perm (x :: acc) := by
        induction acc with
        | nil => simp [insRev]
        | cons y ys ih2 =>
          simp only [insRev]; split
          · exact (ih2.cons y).trans (Perm.swap x y ys)
          · exact Perm.refl _
      simp only [cons_append]
      exact (Perm.append_left xs this).trans perm_middle
  have hp : (sortTys ts).Perm ts := by
    unfold sortTys insertionSort
    have := hperm ts []
    simp only [append_nil] at this
    exact (reverse_perm _).trans this
  simp only [Ty.wf, Bool.and_eq_true, decide_eq_true_eq]
  refine ⟨⟨Tys.wf_ofList _ (fun t h => (ht t (hp.mem_iff.mp h)).1), ?_⟩, ?_⟩
  · rw [Tys.length_ofList, hp.length_eq]; exact hl
  · rw [Tys.toList_ofList]; exact adjSorted_insertionSort tyLess tyLess_asymm ts

theorem lookupRecord_hit (c : Ctx) (fs : List (Name × Ty)) (t' : Ty)
    (h : c.toType.lookup (encodeTV (Ty.record (Fields.ofList fs))) = some t') :
    c.lookupRecord fs = (some t', c) := by
  simp only [lookupRecord, h]

theorem lookupRecord_miss (c : Ctx) (fs : List (Name × Ty))
    (h : c.toType.lookup (encodeTV (Ty.record (Fields.ofList fs))) = none)
    (hd : hasDup (fs.map (·.1)) = false) :
    c.lookupRecord fs = (some (.record (Fields.ofList fs)),
      c.enter (encodeTV (Ty.record (Fields.ofList fs))) (.record (Fields.ofList fs))) := by
  simp only [lookupRecord, h, hd]; simp

/-- `LookupTypeRecord` -/
theorem lookupRecord_spec (c : Ctx) (hc : c.Inv) (fs : List (Name × Ty))
    (ht : ∀ p ∈ fs, nameOk p.1 = true ∧ c.has p.2) (hl : fs.length ≤ maxRecordFields)
    (hd : hasDup (fs.map (·.1)) = false) :
    (c.lookupRecord fs).1 = some (.record (Fields.ofList fs)) ∧ (c.lookupRecord fs).2.Inv ∧
    (c.lookupRecord fs).2.typedefs = c.typedefs ∧
    (∀ u, c.has u → (c.lookupRecord fs).2.has u) ∧ (c.lookupRecord fs).2.has (.record (Fields.ofList fs)) := by
  have wt : (Ty.record (Fields.ofList fs)).wf = true := by
    simp only [Ty.wf, Bool.and_eq_true, decide_eq_true_eq, Bool.not_eq_true']
    refine ⟨⟨Fields.wf_ofList fs (fun p hp => ⟨(ht p hp).1, (ht p hp).2.1⟩), ?_⟩, ?_⟩
    · rw [Fields.names_eq_map, Fields.toList_ofList]; exact hd
    · rw [Fields.length_ofList]; exact hl
  have sp := lookupOrEnter_spec c hc _ wt rfl
  cases hlk : c.toType.lookup (encodeTV (Ty.record (Fields.ofList fs))) with
  | some t' =>
    rw [lookupOrEnter_hit c _ _ hlk] at sp
    rw [lookupRecord_hit c fs t' hlk]
    have e : t' = Ty.record (Fields.ofList fs) := sp.1
    subst e
    exact ⟨rfl, sp.2⟩
  | none =>
    rw [lookupOrEnter_miss c _ hlk] at sp
    rw [lookupRecord_miss c fs hlk hd]
    exact ⟨rfl, sp.2⟩

theorem lookup_cons_name (k k' : Name) (v : Ty) (l : List (Name × Ty)) :
    List.lookup k ((k', v) :: l) = if k = k' then some v else List.lookup k l := by
  simp only [List.lookup]
  by_cases h : k = k'
  · subst h; simp
  · have : (k == k') = false := by simpa using h
    simp [this, h]

theorem lookupNamed_hit (c : Ctx) (n : Name) (t t' : Ty) (hn : validTypeName n = true)
    (h : c.toType.lookup (encodeTV (Ty.named n t)) = some t') :
    c.lookupNamed n t = (some t', { c with typedefs := bind c.typedefs n t' }) := by
  simp only [lookupNamed, hn, h]; simp

theorem lookupNamed_miss (c : Ctx) (n : Name) (t : Ty) (hn : validTypeName n = true)
    (h : c.toType.lookup (encodeTV (Ty.named n t)) = none) :
    c.lookupNamed n t = (some (.named n t),
      ({ c with typedefs := bind c.typedefs n (.named n t) } : Ctx).enter (encodeTV (Ty.named n t)) (.named n t)) := by
  simp only [lookupNamed, hn, h]; simp

/-- `LookupTypeNamed` -/
theorem lookupNamed_spec (c : Ctx) (hc : c.Inv) (n : Name) (t : Ty) (hn : validTypeName n = true)
    (hn2 : nameOk n = true) (ht : c.has t) :
    (c.lookupNamed n t).1 = some (.named n t) ∧ (c.lookupNamed n t).2.Inv ∧
    (c.lookupNamed n t).2.typedefs = (n, .named n t) :: c.typedefs ∧
    (∀ u, c.has u → (c.lookupNamed n t).2.has u) ∧ (c.lookupNamed n t).2.has (.named n t) := by
  have wt : (Ty.named n t).wf = true := by simp [Ty.wf, hn, hn2, ht.1]
  cases hlk : c.toType.lookup (encodeTV (Ty.named n t)) with
  | some t' =>
    have e := hc.sound t' _ wt hlk
    subst e
    have hin := hc.range _ _ hlk
    have hmem : Ty.named n t ∈ c.byID := hin.2.resolve_right (by simp [Ty.isComplex])
    rw [lookupNamed_hit c n t _ hn hlk]
    refine ⟨rfl, ⟨hc.nodup, hc.wf, hc.total, hc.sound, hc.range, ?_, hc.tvcanon, hc.tvtotal⟩, rfl, fun u h => h, hin⟩
    intro m u hl
    simp only [bind, lookup_cons_name] at hl
    by_cases e : m = n
    · subst e; rw [if_pos rfl] at hl
      have := Option.some.inj hl; subst this
      exact ⟨hmem, ⟨t, rfl⟩⟩
    · rw [if_neg e] at hl; exact hc.defs m u hl
  | none =>
    rw [lookupNamed_miss c n t hn hlk]
    -- entering with the rebinding already made
    have hent := enter_inv c hc (.named n t) wt rfl hlk
    refine ⟨rfl, ⟨hent.nodup, hent.wf, hent.total, hent.sound, ?_, ?_, hent.tvcanon, hent.tvtotal⟩, rfl, ?_, ?_⟩
    · intro k u hl; exact hent.range k u hl
    · intro m u hl
      simp only [enter, bind, lookup_cons_name] at hl
      by_cases e : m = n
      · subst e; rw [if_pos rfl] at hl
        have := Option.some.inj hl; subst this
        exact ⟨by simp [enter], ⟨t, rfl⟩⟩
      · rw [if_neg e] at hl
        obtain ⟨hm, hx⟩ := hc.defs m u hl
        exact ⟨by simp [enter, hm], hx⟩
    · intro u h; exact ⟨h.1, h.2.imp (fun h => by simp [enter, h]) id⟩
    · exact ⟨wt, Or.inl (by simp [enter])⟩

end Ctx
end Zed
