package hlib

// Seeded generators of query programs and input values shared by the C07 (optimizer) and
// C04 (encoding independence) harnesses, plus the loader of the repository's own program
// corpus (ztests `zed:` programs with their inputs, compiler/parser/valid.zed).

import (
	"fmt"
	"math/rand"
	"os"
	"path/filepath"
	"sort"
	"strings"

	"gopkg.in/yaml.v3"
)

// ---- values ---------------------------------------------------------------------------

var optStrs = []string{"foo", "bar", "Foo", "foobar", "b", "", "fo", "x y", "föo", "BAR", "a.b", "k"}

// OptGenKey draws a sort-key value: cross-type, null and (by the caller) missing.
func OptGenKey(r *rand.Rand) string {
	switch r.Intn(12) {
	case 0:
		return "null"
	case 1:
		return fmt.Sprintf("%d.", r.Intn(6))
	case 2:
		return fmt.Sprintf("%q", optStrs[r.Intn(4)])
	case 3:
		return fmt.Sprintf("%d(uint64)", r.Intn(6))
	default:
		return fmt.Sprint(r.Intn(8) - 1)
	}
}

func optGenInner(r *rand.Rand, depth int) string {
	switch r.Intn(14) {
	case 0:
		return "null"
	case 1:
		return fmt.Sprintf("%q", optStrs[r.Intn(len(optStrs))])
	case 2:
		return fmt.Sprintf("{foo:%d}", r.Intn(3))
	case 3:
		return fmt.Sprintf("[%d,%d]", r.Intn(4), r.Intn(4))
	case 4:
		return fmt.Sprintf("[{foo:%d},{foo:%d}]", r.Intn(3), r.Intn(3))
	case 5:
		return fmt.Sprintf("|[%q,%q]|", optStrs[r.Intn(4)], optStrs[4+r.Intn(4)])
	case 6:
		return fmt.Sprintf("|{%q:%d}|", optStrs[r.Intn(4)], r.Intn(3))
	case 7:
		return fmt.Sprintf("|{%q:{bar:%q}}|", optStrs[r.Intn(4)], optStrs[r.Intn(4)])
	case 8:
		return []string{"<int64>", "<string>", "<{a:int64}>", "<[string]>", "<port=uint16>"}[r.Intn(5)]
	case 9:
		return fmt.Sprintf("%d(port=uint16)", 80+r.Intn(3))
	case 10:
		return fmt.Sprintf("[%d,%q]", r.Intn(3), optStrs[r.Intn(4)]) // array of a union
	case 11:
		if depth > 0 {
			return fmt.Sprintf("{x:%s,y:%s}", optGenInner(r, depth-1), optGenInner(r, depth-1))
		}
		return "1"
	case 12:
		return fmt.Sprintf("error({foo:%d})", r.Intn(2))
	default:
		return fmt.Sprint(r.Intn(5))
	}
}

// OptGenValue draws one input value: a record over the fields the program grammar mentions,
// with heterogeneous shapes, nulls, missing fields, nested records inside arrays / maps /
// unions / errors, type values and named types; now and then a non-record value.
func OptGenValue(r *rand.Rand) string {
	if r.Intn(25) == 0 {
		return []string{"1", `"foo"`, "null", "[1,2]", `{foo:"bar"}`, "<int64>", `error("x")`, `|{"foo":1}|`}[r.Intn(8)]
	}
	var fs []string
	if r.Intn(8) != 0 {
		fs = append(fs, "k:"+OptGenKey(r))
	}
	if r.Intn(6) != 0 {
		fs = append(fs, fmt.Sprintf("a:%s", []string{"0", "1", "2", "3", "null", "1.5", `"1"`}[r.Intn(7)]))
	}
	if r.Intn(5) != 0 {
		fs = append(fs, fmt.Sprintf("b:%d", r.Intn(3)))
	}
	if r.Intn(3) != 0 {
		fs = append(fs, fmt.Sprintf("s:%q", optStrs[r.Intn(len(optStrs))]))
	}
	if r.Intn(3) == 0 {
		fs = append(fs, fmt.Sprintf("n:{x:%d,y:%q}", r.Intn(3), optStrs[r.Intn(4)]))
	}
	if r.Intn(3) == 0 {
		fs = append(fs, "arr:"+[]string{"[1,2]", "[2,3]", "[]", `["foo","x"]`, "[{foo:1}]", "null", `[1,"foo"]`, "[[1],[2]]"}[r.Intn(8)])
	}
	if r.Intn(3) == 0 {
		fs = append(fs, "v:"+optGenInner(r, 2))
	}
	if r.Intn(12) == 0 {
		// a field name that a keyword search can hit
		fs = append(fs, fmt.Sprintf("foo:%d", r.Intn(2)))
	}
	return "{" + strings.Join(fs, ",") + "}"
}

// OptGenInput draws n values with many duplicates (keys and whole values).
func OptGenInput(r *rand.Rand, n int) []string {
	var out []string
	for len(out) < n {
		v := OptGenValue(r)
		out = append(out, v)
		if r.Intn(4) == 0 && len(out) < n {
			out = append(out, out[r.Intn(len(out))])
		}
	}
	return out
}

// ---- programs -------------------------------------------------------------------------

// OptProg is a pipeline; Stages are joined with " | ".  Stage-level deletion is the shrink.
type OptProg struct {
	Stages []string `json:"stages"`
}

func (p OptProg) Text() string { return strings.Join(p.Stages, " | ") }

var optQFields = []string{"a", "b", "k", "s", "n.x", "v"}
var optTop = []string{"a", "b", "k", "s", "n", "v", "arr"}

func optLit(r *rand.Rand) string {
	return []string{"0", "1", "2", "3", `"foo"`, `"bar"`, "null", "1.", `"b"`}[r.Intn(9)]
}

// OptGenPred draws a boolean expression of the filter/search subset.  `total` avoids atoms
// that can evaluate to a non-boolean (so the filter never emits an error value).
func OptGenPred(r *rand.Rand, depth int) string {
	if depth > 0 && r.Intn(3) == 0 {
		switch r.Intn(4) {
		case 0:
			return "!(" + OptGenPred(r, depth-1) + ")"
		case 1, 2:
			return "(" + OptGenPred(r, depth-1) + ") and (" + OptGenPred(r, depth-1) + ")"
		default:
			return "(" + OptGenPred(r, depth-1) + ") or (" + OptGenPred(r, depth-1) + ")"
		}
	}
	f := optQFields[r.Intn(len(optQFields))]
	switch r.Intn(16) {
	case 0, 1, 2:
		return fmt.Sprintf("%s==%s", f, optLit(r))
	case 3:
		return fmt.Sprintf("%s%s%s", f, []string{"<", "<=", ">", ">=", "!="}[r.Intn(5)], optLit(r))
	case 4:
		return fmt.Sprintf("%s%s%s", optLit(r), []string{"<", "<=", ">", ">=", "=="}[r.Intn(5)], f)
	case 5:
		return fmt.Sprintf("%s in arr", []string{"1", "2", `"foo"`, `"x"`}[r.Intn(4)])
	case 6:
		return fmt.Sprintf("%s in v", []string{"1", `"foo"`, `"bar"`, "80"}[r.Intn(4)])
	case 7:
		return "grep(" + []string{`"foo"`, `"bar"`, `"fo"`, `"oba"`, `"FOO"`, `"x"`}[r.Intn(6)] + ")"
	case 8:
		return "grep(/" + []string{"fo+", "^b", "ar$", "[0-9]", "o.a"}[r.Intn(5)] + "/)"
	case 9:
		return "grep(" + []string{"f*", "*ar", "*o*", "b?r"}[r.Intn(4)] + ")"
	case 10:
		return "s ~ /" + []string{"fo+", "^b", "ar$"}[r.Intn(3)] + "/"
	case 11:
		return "has(" + f + ")"
	case 12:
		return "is(" + f + ", <int64>)"
	case 13:
		return "typeof(v)==" + []string{"<int64>", "<string>", "<{foo:int64}>", "<[int64]>"}[r.Intn(4)]
	case 14:
		return "len(arr)>" + fmt.Sprint(r.Intn(3))
	default:
		return "grep(" + []string{`"foo"`, `"80"`, `"1"`, `"a.b"`}[r.Intn(4)] + ", v)"
	}
}

func optGenExpr(r *rand.Rand) string {
	f := optQFields[r.Intn(len(optQFields))]
	switch r.Intn(10) {
	case 0:
		return f + "+1"
	case 1:
		return "typeof(" + f + ")"
	case 2:
		return optLit(r)
	case 3:
		return "len(arr)"
	case 4:
		return "{p:" + f + ",q:b}"
	case 5:
		return "-a"
	case 6:
		return "a%2"
	case 7:
		return "nameof(v)"
	default:
		return f
	}
}

var optAggs = []string{"count()", "sum(a)", "max(a)", "min(k)", "union(b)", "collect(b)", "count() where a==1", "any(b)", "avg(a)", "dcount(s)", "and(a==1)", "or(a==1)"}

// OptGenStage draws one operator of the grammar.  nest is the remaining depth for operators
// with bodies (fork, switch, over).
func OptGenStage(r *rand.Rand, nest int) string {
	f := optTop[r.Intn(len(optTop))]
	switch r.Intn(34) {
	case 0, 1, 2, 3:
		return "where " + OptGenPred(r, 2)
	case 4:
		return "search " + []string{"foo", "bar", "fo*", "/o+b/", "80", "1", `"x y"`, "foo and a==1", "foo or bar", "not foo", "a.b", "k"}[r.Intn(12)]
	case 5:
		fs := []string{f}
		if r.Intn(2) == 0 {
			fs = append(fs, optTop[r.Intn(len(optTop))])
		}
		return "cut " + strings.Join(fs, ",")
	case 6:
		return fmt.Sprintf("cut %s:=%s", []string{"x", "k", "a"}[r.Intn(3)], optGenExpr(r))
	case 7:
		return "drop " + f
	case 8, 9:
		return fmt.Sprintf("put %s:=%s", []string{"x", "k", "a", "n.x", "n"}[r.Intn(5)], optGenExpr(r))
	case 10:
		return fmt.Sprintf("rename %s:=%s", []string{"x", "k2", "a2"}[r.Intn(3)], []string{"k", "a", "b", "s"}[r.Intn(4)])
	case 11:
		return "yield " + optGenExpr(r)
	case 12, 13:
		return "sort " + []string{"k", "a", "b", "s", "k, a", "this", "n.x"}[r.Intn(7)]
	case 14:
		return "sort " + []string{"-r k", "-r a", "-nulls first k", "k desc", "a desc", "-r k, b", ""}[r.Intn(7)]
	case 15, 16:
		return fmt.Sprintf("head %d", 1+r.Intn(4))
	case 17:
		return fmt.Sprintf("tail %d", 1+r.Intn(4))
	case 18:
		if nest < 2 {
			// `uniq` pulled again after an end of stream (inside an over body, a fork leg …)
			// dereferences a nil `last` in a runtime goroutine, which kills the process in
			// every plan
			return "pass"
		}
		return []string{"uniq", "uniq -c"}[r.Intn(2)]
	case 19:
		if nest < 2 {
			// fuse ignores the done indicator (issue #3436 in its source): as a fork/switch leg
			// below a head it makes combine panic ("non-nil done batch") in a runtime goroutine
			return "pass"
		}
		return "fuse"
	case 20:
		return "pass"
	case 21, 22, 23:
		key := []string{"k", "b", "a", "s", "k:=k", "k2:=k", "k:=floor(k)", "k:=round(k)", "k:=a", "b,k", "n.x", "t:=typeof(k)"}[r.Intn(12)]
		agg := optAggs[r.Intn(len(optAggs))]
		if r.Intn(3) == 0 {
			agg += "," + optAggs[r.Intn(len(optAggs))]
		}
		s := fmt.Sprintf("%s by %s", agg, key)
		if r.Intn(6) == 0 {
			s = agg
		}
		if r.Intn(8) == 0 {
			s += fmt.Sprintf(" with -limit %d", 1+r.Intn(3))
		}
		return s
	case 24, 25, 26:
		if nest <= 0 {
			return "pass"
		}
		n := 2 + r.Intn(2)
		var legs []string
		for i := 0; i < n; i++ {
			legs = append(legs, "=> "+OptGenSeq(r, 1+r.Intn(2), nest-1).Text())
		}
		s := "fork (" + strings.Join(legs, " ") + ")"
		switch r.Intn(5) {
		case 0:
			s += " | merge " + []string{"k", "a", "b"}[r.Intn(3)]
		case 1:
			if n == 2 {
				s += " | " + []string{"", "inner ", "left ", "right ", "anti "}[r.Intn(5)] + "join on " + []string{"k=k", "a=a", "b=k", "k"}[r.Intn(4)] + []string{"", " x:=b", " y:=s"}[r.Intn(3)]
			}
		}
		return s
	case 27:
		if nest <= 0 {
			return "pass"
		}
		if r.Intn(2) == 0 {
			return fmt.Sprintf("switch (case %s => %s case %s => %s default => %s)", OptGenPred(r, 1), OptGenSeq(r, 1, nest-1).Text(),
				OptGenPred(r, 1), OptGenSeq(r, 1, nest-1).Text(), OptGenSeq(r, 1, nest-1).Text())
		}
		return fmt.Sprintf("switch b (case 0 => %s case 1 => %s default => %s)", OptGenSeq(r, 1, nest-1).Text(), OptGenSeq(r, 1, nest-1).Text(), OptGenSeq(r, 1, nest-1).Text())
	case 28:
		if nest <= 0 || r.Intn(2) == 0 {
			return "over arr"
		}
		return "over arr => (" + OptGenSeq(r, 1+r.Intn(2), nest-1).Text() + ")"
	case 29:
		if nest < 2 {
			// `top` inside a fork/switch/over body deadlocks the runtime in every plan
			return fmt.Sprintf("head %d", 1+r.Intn(3))
		}
		return fmt.Sprintf("top %d %s", 1+r.Intn(3), []string{"k", "a"}[r.Intn(2)])
	case 30:
		return "yield " + []string{"this", "{k,a}", "{k:k,b:b}", "{x:n.x}", "v", "{a,rest:{b,s}}"}[r.Intn(6)]
	case 31:
		return "where " + OptGenPred(r, 1) + " | where " + OptGenPred(r, 1)
	case 32:
		return "drop " + []string{"k", "n.x", "a,b"}[r.Intn(3)]
	default:
		return "put " + []string{"c:=count()", "y:=a+b", "k:=k", "z:=s+\"!\""}[r.Intn(4)]
	}
}

func OptGenSeq(r *rand.Rand, n, nest int) OptProg {
	var p OptProg
	for i := 0; i < n; i++ {
		p.Stages = append(p.Stages, OptGenStage(r, nest))
	}
	return p
}

// OptGenProg draws a whole program of 1..5 stages.
func OptGenProg(r *rand.Rand) OptProg {
	p := OptGenSeq(r, 1+r.Intn(5), 2)
	// `uniq` does not honour the done protocol (it returns its pending value when pulled with
	// done=true, and dereferences a nil `last` when pulled again after an end of stream); below a
	// fan-in that panics in a runtime goroutine ("non-nil done batch") and kills the process in
	// every plan.  It stays in linear programs only.
	if t := p.Text(); strings.Contains(t, "uniq") && (strings.Contains(t, "fork") || strings.Contains(t, "switch") || strings.Contains(t, "over ")) {
		for i, st := range p.Stages {
			if strings.HasPrefix(st, "uniq") {
				p.Stages[i] = "pass"
			}
		}
	}
	return p
}

// ---- the repository's own corpus ---------------------------------------------------------

type OptCorpusCase struct {
	File  string
	Zed   string
	Input string // ZSON text ("" when the test has none or it is not ZSON)
}

func RepoDir() string {
	if d := os.Getenv("VERIF_REPO"); d != "" {
		return d
	}
	return "/repo"
}

// OptLoadCorpus collects the `zed:` programs of every ztests/*.yaml under the repository
// (with their `input:` when it is plain ZSON) and the lines of compiler/parser/valid.zed.
func OptLoadCorpus() []OptCorpusCase {
	var out []OptCorpusCase
	repo := RepoDir()
	filepath.Walk(repo, func(path string, info os.FileInfo, err error) error {
		if err != nil {
			return nil
		}
		if info.IsDir() {
			if n := info.Name(); n == "node_modules" || n == ".git" {
				return filepath.SkipDir
			}
			return nil
		}
		if !strings.HasSuffix(path, ".yaml") || !strings.Contains(path, "ztests") {
			return nil
		}
		b, err := os.ReadFile(path)
		if err != nil {
			return nil
		}
		var t struct {
			Zed        string `yaml:"zed"`
			Input      string `yaml:"input"`
			InputFlags string `yaml:"input-flags"`
		}
		if yaml.Unmarshal(b, &t) != nil || strings.TrimSpace(t.Zed) == "" {
			return nil
		}
		in := t.Input
		if t.InputFlags != "" {
			in = ""
		}
		rel, _ := filepath.Rel(repo, path)
		out = append(out, OptCorpusCase{File: rel, Zed: strings.TrimSpace(t.Zed), Input: in})
		return nil
	})
	if b, err := os.ReadFile(filepath.Join(repo, "compiler/parser/valid.zed")); err == nil {
		for i, l := range strings.Split(string(b), "\n") {
			if strings.TrimSpace(l) != "" {
				out = append(out, OptCorpusCase{File: fmt.Sprintf("compiler/parser/valid.zed:%d", i+1), Zed: l})
			}
		}
	}
	sort.Slice(out, func(i, j int) bool { return out[i].File < out[j].File })
	return out
}
