import Zed.Model.Sexp
import Zed.Drv.C16
/-!
  Line-protocol driver: one s-expression per line on stdin, `(Cxx op args…)`, one line of
  output per input line.  Compiled once as a `lean_exe` (imports no Mathlib).
-/
open Zed

def dispatch (line : String) : String :=
  match Sexp.parse line with
  | some (.list (.atom tag :: args)) =>
    match tag with
    | "C16" => Zed.Drv.C16.handle args
    | "ping" => "pong"
    | _ => "bad-prop"
  | _ => "bad-line"

partial def loop (hin hout : IO.FS.Stream) : IO Unit := do
  let line ← hin.getLine
  if line.isEmpty then return ()
  hout.putStrLn (dispatch line)
  hout.flush
  loop hin hout

def main : IO Unit := do
  loop (← IO.getStdin) (← IO.getStdout)
