import Zed.Proofs.VecLoad
/-! Soundness of vector projections on the flat fragment (primitives, records, named types). -/
namespace Zed.Vng

theorem projVec_named (fs : PFields) (n : Bytes) (v : Vec) :
    projVec (.fields fs) (.named n v) = .named n (projVec (.fields fs) v) := by
  simp [projVec, Vec.peel, Vec.rewrap]

theorem projTy_named (fs : PFields) (n : Bytes) (t : Ty) :
    projTy (.fields fs) (.named n t) = .named n (projTy (.fields fs) t) := by
  simp [projTy, Ty.peel, Ty.rewrap]

theorem projVal_named (fs : PFields) (n : Bytes) (t : Ty) (x : Val) :
    projVal (.fields fs) (.named n t) x = projVal (.fields fs) t x := by
  simp [projVal, Ty.peel]


/-! ### well-formed vectors: leaf vectors carry leaf types -/

def isLeafTy : Ty → Bool
  | .prim _ => true
  | .enum _ => true
  | _ => false

mutual
def Vec.wf : Vec → Bool
  | .flat t _ _ => isLeafTy t
  | .dict t _ _ _ => isLeafTy t
  | .const t _ _ _ => isLeafTy t
  | .constNull _ => true
  | .record fs _ _ => FVecs.wf fs
  | .array _ v _ => Vec.wf v
  | .set _ v _ => Vec.wf v
  | .map _ k v _ => Vec.wf k && Vec.wf v
  | .union _ vs _ => Vecs.wf vs
  | .named _ v => Vec.wf v
  | .error v _ => Vec.wf v
  | .missing _ => false
def FVecs.wf : FVecs → Bool
  | .nil => true
  | .cons _ v rest => Vec.wf v && FVecs.wf rest
def Vecs.wf : Vecs → Bool
  | .nil => true
  | .cons v rest => Vec.wf v && Vecs.wf rest
end

def bitmapClear : Bitmap → Bool
  | none => true
  | some F => F.all (!·)

theorem bitmapClear_get {b : Bitmap} (h : bitmapClear b = true) (s : Nat) : b.get s = false := by
  cases b with
  | none => rfl
  | some F =>
    simp only [bitmapClear, List.all_eq_true, Bool.not_eq_true'] at h
    simp only [Bitmap.get, List.getD_eq_getElem?_getD]
    cases hs : F[s]? with
    | none => rfl
    | some x => simpa using h x (List.mem_of_getElem? hs)

mutual
/-- error wrappers (reached through records / named / error) never carry a null of their own. -/
def Vec.errClear : Vec → Bool
  | .error v nulls => bitmapClear nulls && Vec.errClear v
  | .named _ v => Vec.errClear v
  | .record fs _ _ => FVecs.errClear fs
  | _ => true
def FVecs.errClear : FVecs → Bool
  | .nil => true
  | .cons _ v rest => Vec.errClear v && FVecs.errClear rest
end

mutual
def Col.leafOK : Col → Bool
  | .prim t _ => isLeafTy t
  | .nulls _ _ c => Col.leafOK c
  | .record _ fs => FCols.leafOK fs
  | .array _ _ c => Col.leafOK c
  | .set _ _ c => Col.leafOK c
  | .map _ _ k v => Col.leafOK k && Col.leafOK v
  | .union _ _ cs => Cols.leafOK cs
  | .named _ c => Col.leafOK c
  | .error c => Col.leafOK c
def FCols.leafOK : FCols → Bool
  | .nil => true
  | .cons _ c rest => Col.leafOK c && FCols.leafOK rest
def Cols.leafOK : Cols → Bool
  | .nil => true
  | .cons c rest => Col.leafOK c && Cols.leafOK rest
end

theorem nullsWrap_leafOK (vs : List Val) (c : Col) (h : Col.leafOK c = true) :
    Col.leafOK (nullsWrap vs c) = true := by
  unfold nullsWrap; simp only; split <;> simp [Col.leafOK, h]

mutual
theorem enc_leafOK : ∀ (t : Ty) (vs : List Val), Col.leafOK (enc t vs) = true
  | .named _ t, vs => by simp [enc, Col.leafOK, enc_leafOK t vs]
  | .error t, vs => by simp [enc, Col.leafOK, enc_leafOK t vs]
  | .prim _, vs => by simp only [enc]; exact nullsWrap_leafOK _ _ (by simp [Col.leafOK, isLeafTy])
  | .enum _, vs => by simp only [enc]; exact nullsWrap_leafOK _ _ (by simp [Col.leafOK, isLeafTy])
  | .record fs, vs => by simp only [enc]; exact nullsWrap_leafOK _ _ (by simp [Col.leafOK, encFields_leafOK fs _])
  | .array t, vs => by simp only [enc]; exact nullsWrap_leafOK _ _ (by simp [Col.leafOK, enc_leafOK t _])
  | .set t, vs => by simp only [enc]; exact nullsWrap_leafOK _ _ (by simp [Col.leafOK, enc_leafOK t _])
  | .map k v, vs => by simp only [enc]; exact nullsWrap_leafOK _ _ (by simp [Col.leafOK, enc_leafOK k _, enc_leafOK v _])
  | .union ts, vs => by simp only [enc]; exact nullsWrap_leafOK _ _ (by simp [Col.leafOK, encTys_leafOK ts _ _])
theorem encFields_leafOK : ∀ (fs : Fields) (rows : List (List Val)), FCols.leafOK (encFields fs rows) = true
  | .nil, _ => rfl
  | .cons _ t rest, rows => by simp [encFields, FCols.leafOK, enc_leafOK t _, encFields_leafOK rest _]
theorem encTys_leafOK : ∀ (ts : Tys) (k : Nat) (ps : List (Nat × Val)), Cols.leafOK (encTys ts k ps) = true
  | .nil, _, _ => rfl
  | .cons t rest, k, ps => by simp [encTys, Cols.leafOK, enc_leafOK t _, encTys_leafOK rest _ _]
end

theorem loadLeaf_wf (t : Ty) (p : PCol) (n : Nat) (b : Bitmap) (v : Vec) (ht : isLeafTy t = true)
    (h : loadLeaf t p n b = some v) : Vec.wf v = true := by
  unfold loadLeaf at h
  split at h
  · cases p with
    | const x c => simp at h; subst h; simp [Vec.wf, ht]
    | dict es sel c => simp at h
    | plain vals c => simp at h
  · cases p with
    | const x c => simp at h; subst h; simp [Vec.wf, ht]
    | dict es sel c => simp at h; subst h; simp [Vec.wf, ht]
    | plain vals c =>
      simp only at h
      split at h
      · cases h; rfl
      · split at h
        · cases h; simp [Vec.wf, ht]
        · split at h
          · cases h
          · cases h; simp [Vec.wf, ht]

mutual
theorem load_wf : ∀ (c : Col) (P : Bitmap) (cnt : Nat) (own : Option (List Nat × Nat)) (v : Vec),
    Col.leafOK c = true → load c P cnt own = some v → Vec.wf v = true
  | .nulls runs count inner, P, cnt, own, v, hc, h => by
    cases own with
    | some _ => simp [load] at h
    | none => exact load_wf inner P _ _ v (by simpa [Col.leafOK] using hc) (by simpa [load] using h)
  | .prim t p, P, cnt, own, v, hc, h => loadLeaf_wf t p _ _ v (by simpa [Col.leafOK] using hc) (by simpa [load] using h)
  | .record len fs, P, cnt, own, v, hc, h => by
    simp only [load] at h
    cases hf : loadFields fs (flattenNulls P own) cnt with
    | none => simp [hf] at h
    | some fvs =>
      simp only [hf, Option.some.injEq] at h; subst h
      simpa [Vec.wf] using loadFields_wf fs _ _ fvs (by simpa [Col.leafOK] using hc) hf
  | .array len lens vals, P, cnt, own, v, hc, h => by
    simp only [load] at h
    cases hv : load vals none 0 none with
    | none => simp [hv] at h
    | some x =>
      simp only [hv, Option.some.injEq] at h; subst h
      simpa [Vec.wf] using load_wf vals _ _ _ x (by simpa [Col.leafOK] using hc) hv
  | .set len lens vals, P, cnt, own, v, hc, h => by
    simp only [load] at h
    cases hv : load vals none 0 none with
    | none => simp [hv] at h
    | some x =>
      simp only [hv, Option.some.injEq] at h; subst h
      simpa [Vec.wf] using load_wf vals _ _ _ x (by simpa [Col.leafOK] using hc) hv
  | .map len lens keys vals, P, cnt, own, v, hc, h => by
    simp only [load] at h
    simp only [Col.leafOK, Bool.and_eq_true] at hc
    cases hk : load keys none 0 none with
    | none => simp [hk] at h
    | some k =>
      cases hv : load vals none 0 none with
      | none => simp [hk, hv] at h
      | some x =>
        simp only [hk, hv, Option.some.injEq] at h; subst h
        simp [Vec.wf, load_wf keys _ _ _ k hc.1 hk, load_wf vals _ _ _ x hc.2 hv]
  | .union len tags vals, P, cnt, own, v, hc, h => by
    simp only [load] at h
    cases hv : loadCols vals with
    | none => simp [hv] at h
    | some vs =>
      simp only [hv, Option.some.injEq] at h; subst h
      simpa [Vec.wf] using loadCols_wf vals vs (by simpa [Col.leafOK] using hc) hv
  | .named n c, P, cnt, own, v, hc, h => by
    simp only [load] at h
    cases hv : load c P cnt own with
    | none => simp [hv] at h
    | some x =>
      simp only [hv, Option.some.injEq] at h; subst h
      simpa [Vec.wf] using load_wf c _ _ _ x (by simpa [Col.leafOK] using hc) hv
  | .error c, P, cnt, own, v, hc, h => by
    simp only [load] at h
    cases hv : load c none cnt own with
    | none => simp [hv] at h
    | some x =>
      simp only [hv, Option.some.injEq] at h; subst h
      simpa [Vec.wf] using load_wf c _ _ _ x (by simpa [Col.leafOK] using hc) hv
theorem loadFields_wf : ∀ (fs : FCols) (b : Bitmap) (cnt : Nat) (fvs : FVecs),
    FCols.leafOK fs = true → loadFields fs b cnt = some fvs → FVecs.wf fvs = true
  | .nil, _, _, fvs, _, h => by simp [loadFields] at h; subst h; rfl
  | .cons n c rest, b, cnt, fvs, hc, h => by
    simp only [loadFields] at h
    simp only [FCols.leafOK, Bool.and_eq_true] at hc
    cases hv : load c b cnt none with
    | none => simp [hv] at h
    | some x =>
      cases hr : loadFields rest b cnt with
      | none => simp [hv, hr] at h
      | some xs =>
        simp only [hv, hr, Option.some.injEq] at h; subst h
        simp [FVecs.wf, load_wf c _ _ _ x hc.1 hv, loadFields_wf rest _ _ xs hc.2 hr]
theorem loadCols_wf : ∀ (cs : Cols) (vs : Vecs), Cols.leafOK cs = true → loadCols cs = some vs → Vecs.wf vs = true
  | .nil, vs, _, h => by simp [loadCols] at h; subst h; rfl
  | .cons c rest, vs, hc, h => by
    simp only [loadCols] at h
    simp only [Cols.leafOK, Bool.and_eq_true] at hc
    cases hv : load c none 0 none with
    | none => simp [hv] at h
    | some x =>
      cases hr : loadCols rest with
      | none => simp [hv, hr] at h
      | some xs =>
        simp only [hv, hr, Option.some.injEq] at h; subst h
        simp [Vecs.wf, load_wf c _ _ _ x hc.1 hv, loadCols_wf rest xs hc.2 hr]
end

def PSpec (P : Proj) : Prop :=
  ∀ (t : Ty) (v : Vec) (D : Nat → Prop) (val : Nat → Val), vecType v = t →
    Vec.wf v = true → Vec.errClear v = true →
    (∀ s, D s → serialize v s = some (val s)) → (∀ s, D s → conforms t (val s) = true) →
    vecType (projVec P v) = projTy P t ∧ ∀ s, D s → serialize (projVec P v) s = some (projVal P t (val s))

def FSpec (fs : PFields) : Prop :=
  ∀ (rfs : FVecs) (rtys : Fields) (len : Nat) (D : Nat → Prop) (rows : Nat → List Val),
    fvecTypes rfs = rtys → FVecs.wf rfs = true → FVecs.errClear rfs = true →
    (∀ s, D s → serializeFields rfs s = some (rows s)) →
    (∀ s, D s → conformsRow rtys (rows s) = true) →
    fvecTypes (projFieldVecs fs rfs len) = projFieldTys fs rtys ∧
    ∀ s, D s → serializeFields (projFieldVecs fs rfs len) s = some (projFieldVals fs rtys (rows s))

/-- what looking a field name up gives on the vector side and on the type side. -/
theorem lookup_compat (a : Bytes) : ∀ (rfs : FVecs) (rtys : Fields), fvecTypes rfs = rtys →
    FVecs.wf rfs = true → FVecs.errClear rfs = true →
    (rfs.lookup a = none ∧ rtys.lookup a = none) ∨
    (∃ fv i ft, rfs.lookup a = some fv ∧ rtys.lookup a = some (i, ft) ∧ vecType fv = ft ∧
      Vec.wf fv = true ∧ Vec.errClear fv = true ∧
      (∀ s xs, serializeFields rfs s = some xs → serialize fv s = some (xs.getD i .null)) ∧
      (∀ row, conformsRow rtys row = true → conforms ft (row.getD i .null) = true))
  | .nil, rtys, h, _, _ => by
    simp only [fvecTypes] at h; subst h
    exact Or.inl ⟨rfl, rfl⟩
  | .cons n fv rest, rtys, h, hwf, hec => by
    simp only [fvecTypes] at h; subst h
    simp only [FVecs.wf, Bool.and_eq_true] at hwf
    simp only [FVecs.errClear, Bool.and_eq_true] at hec
    by_cases hn : n = a
    · subst hn
      refine Or.inr ⟨fv, 0, vecType fv, by simp [FVecs.lookup], by simp [Fields.lookup], rfl, hwf.1, hec.1, ?_, ?_⟩
      · intro s xs hx
        simp only [serializeFields] at hx
        cases h1 : serialize fv s with
        | none => simp [h1] at hx
        | some x =>
          cases h2 : serializeFields rest s with
          | none => simp [h1, h2] at hx
          | some ys => simp [h1, h2] at hx; subst hx; simp
      · intro row hr
        have := conformsRow_cons hr
        cases row with
        | nil => exact absurd rfl this.1
        | cons x xs => simpa [headV] using this.2.1
    · rcases lookup_compat a rest (fvecTypes rest) rfl hwf.2 hec.2 with ⟨h1, h2⟩ | ⟨fv', i, ft, h1, h2, h3, h4, h4', h5, h6⟩
      · exact Or.inl ⟨by simp [FVecs.lookup, hn, h1], by simp [Fields.lookup, hn, h2]⟩
      · refine Or.inr ⟨fv', i + 1, ft, by simp [FVecs.lookup, hn, h1], by simp [Fields.lookup, hn, h2], h3, h4, h4', ?_, ?_⟩
        · intro s xs hx
          simp only [serializeFields] at hx
          cases e1 : serialize fv s with
          | none => simp [e1] at hx
          | some x =>
            cases e2 : serializeFields rest s with
            | none => simp [e1, e2] at hx
            | some ys =>
              simp [e1, e2] at hx; subst hx
              simpa using h5 s ys e2
        · intro row hr
          have := conformsRow_cons hr
          cases row with
          | nil => exact absurd rfl this.1
          | cons x xs => simpa using h6 xs (by simpa using this.2.2)

theorem vecType_missing (len : Nat) : vecType (.missing len) = missingTy := rfl

theorem projVec_error (fs : PFields) (v : Vec) (nulls : Bitmap) :
    projVec (.fields fs) (.error v nulls) = .error (projVec (.fields fs) v) nulls := by
  simp [projVec, Vec.peel, Vec.rewrap]

theorem projTy_error (fs : PFields) (t : Ty) :
    projTy (.fields fs) (.error t) = .error (projTy (.fields fs) t) := by
  simp [projTy, Ty.peel, Ty.rewrap]

theorem projVal_error (fs : PFields) (t : Ty) (x : Val) :
    projVal (.fields fs) (.error t) x = projVal (.fields fs) t x := by
  simp [projVal, Ty.peel]

/-- a leaf vector projects to `missing`. -/
theorem leaf_proj (fs : PFields) (t : Ty) (hleaf : isLeafTy t = true) (v : Vec) (hty : vecType v = t)
    (hwf : Vec.wf v = true) (D : Nat → Prop) (val : Nat → Val) :
    vecType (projVec (.fields fs) v) = projTy (.fields fs) t ∧
    ∀ s, D s → serialize (projVec (.fields fs) v) s = some (projVal (.fields fs) t (val s)) := by
  have hT : projTy (.fields fs) t = missingTy := by
    cases t <;> simp [isLeafTy] at hleaf <;> simp [projTy, Ty.peel, Ty.rewrap]
  have hV : ∀ x, projVal (.fields fs) t x = missingVal := by
    intro x; cases t <;> simp [isLeafTy] at hleaf <;> simp [projVal, Ty.peel]
  cases v with
  | flat t' vals nulls => exact ⟨by simp [projVec, Vec.peel, Vec.rewrap, vecType, hT], fun s _ => by simp [projVec, Vec.peel, Vec.rewrap, serialize, hV]⟩
  | dict t' es idx nulls => exact ⟨by simp [projVec, Vec.peel, Vec.rewrap, vecType, hT], fun s _ => by simp [projVec, Vec.peel, Vec.rewrap, serialize, hV]⟩
  | const t' x len nulls => exact ⟨by simp [projVec, Vec.peel, Vec.rewrap, vecType, hT], fun s _ => by simp [projVec, Vec.peel, Vec.rewrap, serialize, hV]⟩
  | constNull len => exact ⟨by simp [projVec, Vec.peel, Vec.rewrap, vecType, hT], fun s _ => by simp [projVec, Vec.peel, Vec.rewrap, serialize, hV]⟩
  | missing len => simp [Vec.wf] at hwf
  | record _ _ _ => simp only [vecType] at hty; subst hty; simp [isLeafTy] at hleaf
  | array _ _ _ => simp only [vecType] at hty; subst hty; simp [isLeafTy] at hleaf
  | set _ _ _ => simp only [vecType] at hty; subst hty; simp [isLeafTy] at hleaf
  | map _ _ _ _ => simp only [vecType] at hty; subst hty; simp [isLeafTy] at hleaf
  | union _ _ _ => simp only [vecType] at hty; subst hty; simp [isLeafTy] at hleaf
  | named _ _ => simp only [vecType] at hty; subst hty; simp [isLeafTy] at hleaf
  | error _ _ => simp only [vecType] at hty; subst hty; simp [isLeafTy] at hleaf

/-- a container vector (array / set / map / union) is projected whole. -/
theorem whole_proj (fs : PFields) (t : Ty) (v : Vec) (hty : vecType v = t) (hwf : Vec.wf v = true)
    (hcont : ∀ n t', t ≠ .named n t') (hne : ∀ t', t ≠ .error t') (hnr : ∀ rfs, t ≠ .record rfs)
    (hnl : isLeafTy t = false) :
    projVec (.fields fs) v = v ∧ projTy (.fields fs) t = t ∧ ∀ x, projVal (.fields fs) t x = x := by
  cases v with
  | array offs cv nulls =>
    simp only [vecType] at hty; subst hty
    exact ⟨by simp [projVec, Vec.peel, Vec.rewrap], by simp [projTy, Ty.peel, Ty.rewrap], fun x => by simp [projVal, Ty.peel]⟩
  | set offs cv nulls =>
    simp only [vecType] at hty; subst hty
    exact ⟨by simp [projVec, Vec.peel, Vec.rewrap], by simp [projTy, Ty.peel, Ty.rewrap], fun x => by simp [projVal, Ty.peel]⟩
  | map offs k w nulls =>
    simp only [vecType] at hty; subst hty
    exact ⟨by simp [projVec, Vec.peel, Vec.rewrap], by simp [projTy, Ty.peel, Ty.rewrap], fun x => by simp [projVal, Ty.peel]⟩
  | union tags vs nulls =>
    simp only [vecType] at hty; subst hty
    exact ⟨by simp [projVec, Vec.peel, Vec.rewrap], by simp [projTy, Ty.peel, Ty.rewrap], fun x => by simp [projVal, Ty.peel]⟩
  | flat t' _ _ => simp only [vecType] at hty; subst hty; simp [Vec.wf] at hwf; simp [hwf] at hnl
  | dict t' _ _ _ => simp only [vecType] at hty; subst hty; simp [Vec.wf] at hwf; simp [hwf] at hnl
  | const t' _ _ _ => simp only [vecType] at hty; subst hty; simp [Vec.wf] at hwf; simp [hwf] at hnl
  | constNull _ => simp only [vecType] at hty; subst hty; simp [isLeafTy] at hnl
  | missing _ => simp [Vec.wf] at hwf
  | record rfs _ _ => simp only [vecType] at hty; exact absurd hty.symm (hnr _)
  | named n v' => simp only [vecType] at hty; exact absurd hty.symm (hcont _ _)
  | error v' _ => simp only [vecType] at hty; exact absurd hty.symm (hne _)

/-- the `.fields` case of the projection, given the fields-level statement. -/
theorem fieldsCase (fs : PFields) (h : FSpec fs) : ∀ (t : Ty) (v : Vec) (D : Nat → Prop) (val : Nat → Val),
    vecType v = t → Vec.wf v = true → Vec.errClear v = true →
    (∀ s, D s → serialize v s = some (val s)) → (∀ s, D s → conforms t (val s) = true) →
    vecType (projVec (.fields fs) v) = projTy (.fields fs) t ∧
    ∀ s, D s → serialize (projVec (.fields fs) v) s = some (projVal (.fields fs) t (val s))
  | .named n t, v, D, val, hty, hwf, hec, hser, hconf => by
    cases v with
    | named n' v' =>
      simp only [vecType, Ty.named.injEq] at hty
      obtain ⟨rfl, hty'⟩ := hty
      obtain ⟨a, b⟩ := fieldsCase fs h t v' D val hty' (by simpa [Vec.wf] using hwf)
        (by simpa [Vec.errClear] using hec)
        (fun s hs => by simpa [serialize] using hser s hs) (fun s hs => by simpa [conforms] using hconf s hs)
      rw [projVec_named, projTy_named]
      refine ⟨by simp [vecType, a], fun s hs => ?_⟩
      rw [projVal_named]; simpa [serialize] using b s hs
    | flat t' _ _ => simp only [vecType] at hty; subst hty; simp [Vec.wf, isLeafTy] at hwf
    | dict t' _ _ _ => simp only [vecType] at hty; subst hty; simp [Vec.wf, isLeafTy] at hwf
    | const t' _ _ _ => simp only [vecType] at hty; subst hty; simp [Vec.wf, isLeafTy] at hwf
    | _ => simp [vecType, missingTy] at hty
  | .error t, v, D, val, hty, hwf, hec, hser, hconf => by
    cases v with
    | error v' nulls =>
      simp only [vecType, Ty.error.injEq] at hty
      simp only [Vec.errClear, Bool.and_eq_true] at hec
      have hg := bitmapClear_get hec.1
      obtain ⟨a, b⟩ := fieldsCase fs h t v' D val hty (by simpa [Vec.wf] using hwf) hec.2
        (fun s hs => by simpa [serialize, hg s] using hser s hs) (fun s hs => by simpa [conforms] using hconf s hs)
      rw [projVec_error, projTy_error]
      refine ⟨by simp [vecType, a], fun s hs => ?_⟩
      rw [projVal_error]; simpa [serialize, hg s] using b s hs
    | flat t' _ _ => simp only [vecType] at hty; subst hty; simp [Vec.wf, isLeafTy] at hwf
    | dict t' _ _ _ => simp only [vecType] at hty; subst hty; simp [Vec.wf, isLeafTy] at hwf
    | const t' _ _ _ => simp only [vecType] at hty; subst hty; simp [Vec.wf, isLeafTy] at hwf
    | missing _ => simp [Vec.wf] at hwf
    | _ => simp [vecType] at hty
  | .prim id, v, D, val, hty, hwf, _, _, _ => leaf_proj fs _ rfl v hty hwf D val
  | .enum syms, v, D, val, hty, hwf, _, _, _ => leaf_proj fs _ rfl v hty hwf D val
  | .record rtys, v, D, val, hty, hwf, hec, hser, hconf => by
    cases v with
    | record rfs len nulls =>
      simp only [vecType, Ty.record.injEq] at hty
      -- the rows at the slots where the record is not null
      obtain ⟨h1, h2⟩ := h rfs rtys len (fun s => D s ∧ nulls.get s = false) (fun s => (val s).items) hty
        (by simpa [Vec.wf] using hwf) (by simpa [Vec.errClear] using hec)
        (by
          intro s ⟨hs, hn⟩
          have := hser s hs
          simp only [serialize, hn, Bool.false_eq_true, if_false] at this
          cases hx : serializeFields rfs s with
          | none => simp [hx] at this
          | some xs =>
            simp only [hx, Option.map_some, Option.some.injEq] at this
            rw [← this]; simp [Vals.toList_ofList])
        (by
          intro s ⟨hs, hn⟩
          have hc := hconf s hs
          have := hser s hs
          simp only [serialize, hn, Bool.false_eq_true, if_false] at this
          cases hx : serializeFields rfs s with
          | none => simp [hx] at this
          | some xs =>
            simp only [hx, Option.map_some, Option.some.injEq] at this
            rw [← this] at hc ⊢
            simpa [conforms] using hc)
      have hP : projVec (.fields fs) (.record rfs len nulls) = .record (projFieldVecs fs rfs len) len nulls := by
        simp [projVec, Vec.peel, Vec.rewrap]
      have hT : projTy (.fields fs) (.record rtys) = .record (projFieldTys fs rtys) := by
        simp [projTy, Ty.peel, Ty.rewrap]
      rw [hP, hT]
      refine ⟨by simp [vecType, h1], ?_⟩
      intro s hs
      have hk := hser s hs
      simp only [serialize] at hk ⊢
      cases hn : nulls.get s with
      | true =>
        simp only [hn, if_true, Option.some.injEq] at hk ⊢
        rw [← hk]; simp [projVal, Ty.peel]
      | false =>
        simp only [hn, Bool.false_eq_true, if_false] at hk ⊢
        rw [h2 s ⟨hs, hn⟩]
        cases hx : serializeFields rfs s with
        | none => simp [hx] at hk
        | some xs =>
          simp only [hx, Option.map_some, Option.some.injEq] at hk
          rw [← hk]
          simp [projVal, Ty.peel, Vals.toList_ofList]
    | flat t' _ _ => simp only [vecType] at hty; subst hty; simp [Vec.wf, isLeafTy] at hwf
    | dict t' _ _ _ => simp only [vecType] at hty; subst hty; simp [Vec.wf, isLeafTy] at hwf
    | const t' _ _ _ => simp only [vecType] at hty; subst hty; simp [Vec.wf, isLeafTy] at hwf
    | _ => simp [vecType, missingTy] at hty
  | .array t, v, D, val, hty, hwf, _, hser, _ => by
    obtain ⟨a, b, c⟩ := whole_proj fs (.array t) v hty hwf (by simp) (by simp) (by simp) rfl
    rw [a, b]; exact ⟨hty, fun s hs => by rw [c]; exact hser s hs⟩
  | .set t, v, D, val, hty, hwf, _, hser, _ => by
    obtain ⟨a, b, c⟩ := whole_proj fs (.set t) v hty hwf (by simp) (by simp) (by simp) rfl
    rw [a, b]; exact ⟨hty, fun s hs => by rw [c]; exact hser s hs⟩
  | .map k w, v, D, val, hty, hwf, _, hser, _ => by
    obtain ⟨a, b, c⟩ := whole_proj fs (.map k w) v hty hwf (by simp) (by simp) (by simp) rfl
    rw [a, b]; exact ⟨hty, fun s hs => by rw [c]; exact hser s hs⟩
  | .union ts, v, D, val, hty, hwf, _, hser, _ => by
    obtain ⟨a, b, c⟩ := whole_proj fs (.union ts) v hty hwf (by simp) (by simp) (by simp) rfl
    rw [a, b]; exact ⟨hty, fun s hs => by rw [c]; exact hser s hs⟩

mutual
theorem pspec : ∀ P : Proj, PSpec P
  | .all => by
    intro t v D val hty _ _ hser _
    exact ⟨by simp [projVec, projTy, hty], fun s hs => by simpa [projVec, projVal] using hser s hs⟩
  | .fields fs => fieldsCase fs (fspec fs)
theorem fspec : ∀ fs : PFields, FSpec fs
  | .nil => by
    intro rfs rtys len D rows _ _ _ _ _
    exact ⟨by simp [projFieldVecs, projFieldTys, fvecTypes], fun s _ => by simp [projFieldVecs, projFieldVals, serializeFields]⟩
  | .cons a p rest => by
    intro rfs rtys len D rows hty hwf hec hser hconf
    obtain ⟨r1, r2⟩ := fspec rest rfs rtys len D rows hty hwf hec hser hconf
    rcases lookup_compat a rfs rtys hty hwf hec with ⟨h1, h2⟩ | ⟨fv, i, ft, h1, h2, h3, h4, h4', h5, h6⟩
    · refine ⟨by simp [projFieldVecs, projFieldTys, fvecTypes, h1, h2, r1, vecType_missing], ?_⟩
      intro s hs
      simp [projFieldVecs, projFieldVals, serializeFields, h1, h2, r2 s hs, serialize]
    · obtain ⟨q1, q2⟩ := pspec p ft fv D (fun s => (rows s).getD i .null) h3 h4 h4'
        (fun s hs => h5 s (rows s) (hser s hs)) (fun s hs => h6 (rows s) (hconf s hs))
      refine ⟨by simp [projFieldVecs, projFieldTys, fvecTypes, h1, h2, r1, q1], ?_⟩
      intro s hs
      simp [projFieldVecs, projFieldVals, serializeFields, h1, h2, r2 s hs, q2 s hs]
end

end Zed.Vng
