package main

// C03 — VNG columnar round trip is the identity for both read paths; projection soundness.
//
// Every call into the real code runs in a child process (hlib.Worker): the vector-cache
// loader panics on goroutines the caller cannot recover from, and such a crash must be a
// finding, not the end of the harness.
//
// Sub-checks (per generated sequence of typed values):
//   rows   (S, oracle)  real vngio.NewWriter → real vngio.NewReader            == input
//   vec    (S, oracle)  real write → vcache + vam.NewProjection(nil) + Materializer == input
//   dec    (T2, crossed) real write → dump of metadata + segments → MODEL readRows == input
//   enc    (T2, crossed) MODEL encTop → VNG object assembled from it → real reader == input
//   vecm   (T2)          MODEL vector path (load + serialize) of the real dump == real vector path
//   proj   (S + T2)      real projection (vcache paths) == MODEL restrict of the input
//
// Generation: boundary (every primitive type x 1/2/255/256/257/300 distinct values x nulls),
// nullruns (null runs at start / middle / end for every kind of type), random (random type
// trees, several interleaved top-level types, per-node policies for distinct counts and null
// density), known (fixed witnesses of the recorded findings).

import (
	"encoding/hex"
	"encoding/json"
	"fmt"
	"sort"
	"strings"
	"time"

	. "verifharness/hlib"

	zed "github.com/brimdata/super"
	"github.com/brimdata/super/pkg/field"
)

func main() {
	WorkerMain(workerHandle)
	Main("C03", runC03)
}

// ---- cases ----------------------------------------------------------------------------------

type seqItem struct {
	T int
	V *VVal
}

type vcase struct {
	Types []*TSpec
	Seq   []seqItem
	Paths [][]string
	Label string
}

// replay form
type rcase struct {
	Check string     `json:"check"`
	Types []*TSpec   `json:"types"`
	Seq   [][2]any   `json:"seq"` // [type index, hex body | null]
	Paths [][]string `json:"paths,omitempty"`
	Label string     `json:"label,omitempty"`
}

func (c *vcase) replay(check string) *rcase {
	r := &rcase{Check: check, Types: c.Types, Paths: c.Paths, Label: c.Label}
	for _, it := range c.Seq {
		var body any
		if !it.V.Null {
			body = HexAtom(it.V.Body())
		}
		r.Seq = append(r.Seq, [2]any{it.T, body})
	}
	return r
}

func caseOfReplay(r *rcase) (*vcase, error) {
	c := &vcase{Types: r.Types, Paths: r.Paths, Label: r.Label}
	for _, it := range r.Seq {
		ti, ok := it[0].(float64)
		if !ok || int(ti) >= len(r.Types) {
			return nil, fmt.Errorf("bad replay item")
		}
		var body []byte
		if s, ok := it[1].(string); ok {
			if s == "-" {
				body = []byte{}
			} else {
				b, err := hex.DecodeString(s)
				if err != nil {
					return nil, err
				}
				body = b
			}
		}
		c.Seq = append(c.Seq, seqItem{int(ti), VValOfBody(r.Types[int(ti)], body)})
	}
	return c, nil
}

func (c *vcase) columns() [][]*VVal {
	cols := make([][]*VVal, len(c.Types))
	for _, it := range c.Seq {
		cols[it.T] = append(cols[it.T], it.V)
	}
	return cols
}

func (c *vcase) features() map[string]bool {
	f := map[string]bool{}
	for i, col := range c.columns() {
		if len(col) == 0 {
			continue // the writer never sees a type without values
		}
		for k := range Features(c.Types[i], col) {
			f[k] = true
		}
	}
	return f
}

func (c *vcase) modelInput() string {
	var sb strings.Builder
	sb.WriteString("(types")
	for _, t := range c.Types {
		sb.WriteByte(' ')
		sb.WriteString(t.Descr())
	}
	sb.WriteString(") (seq")
	for _, it := range c.Seq {
		fmt.Fprintf(&sb, " (%d %s)", it.T, it.V.SexpT(c.Types[it.T]))
	}
	sb.WriteString(")")
	return sb.String()
}

func (c *vcase) modelRows() string {
	var sb strings.Builder
	sb.WriteByte('(')
	for i, it := range c.Seq {
		if i > 0 {
			sb.WriteByte(' ')
		}
		fmt.Fprintf(&sb, "(%s %s)", c.Types[it.T].Descr(), it.V.SexpT(c.Types[it.T]))
	}
	sb.WriteByte(')')
	return sb.String()
}

func (c *vcase) key() string {
	var sb strings.Builder
	for _, t := range c.Types {
		sb.WriteString(t.Descr())
	}
	sb.WriteString(c.modelRowsShort())
	return sb.String()
}

func (c *vcase) modelRowsShort() string {
	s := c.modelRows()
	if len(s) > 4096 {
		return fmt.Sprintf("%s…%d", s[:4096], len(s))
	}
	return s
}

// ---- worker protocol ------------------------------------------------------------------------

type wReq struct {
	Types []*TSpec   `json:"types"`
	Seq   [][2]any   `json:"seq"`
	Paths [][]string `json:"paths,omitempty"`
	Ops   []string   `json:"ops"`           // rows dump vec proj built
	Top   string     `json:"top,omitempty"` // model encoding, for op built
}

type opRes struct {
	Rows []row  `json:"rows"`
	Err  string `json:"err,omitempty"` // "error: …" | "panic: …"
}

type wResp struct {
	WriteErr string `json:"write_err,omitempty"`
	Want     []row  `json:"want"`
	Rows     *opRes `json:"rows_res,omitempty"`
	Vec      *opRes `json:"vec_res,omitempty"`
	Proj     *opRes `json:"proj_res,omitempty"`
	Built    *opRes `json:"built_res,omitempty"`
	Dump     string `json:"dump,omitempty"`
	DumpErr  string `json:"dump_err,omitempty"`
}

func has(ops []string, s string) bool {
	for _, o := range ops {
		if o == s {
			return true
		}
	}
	return false
}

func mkRes(rows []row, err error, p bool) *opRes {
	r := &opRes{Rows: rows}
	if err != nil {
		r.Err = errClass(err, p) + ": " + err.Error()
	}
	return r
}

func workerHandle(raw json.RawMessage) any {
	var req wReq
	var resp wResp
	if err := json.Unmarshal(raw, &req); err != nil {
		resp.WriteErr = "bad request: " + err.Error()
		return &resp
	}
	zctx := zed.NewContext()
	var types []zed.Type
	for _, s := range req.Types {
		t, err := s.Build(zctx)
		if err != nil {
			resp.WriteErr = "bad type: " + err.Error()
			return &resp
		}
		types = append(types, t)
	}
	var vals []zed.Value
	for _, it := range req.Seq {
		ti := int(it[0].(float64))
		var body []byte
		if s, ok := it[1].(string); ok {
			if s == "-" {
				body = []byte{}
			} else {
				body, _ = hex.DecodeString(s)
			}
		}
		v := zed.NewValue(types[ti], body)
		vals = append(vals, v)
		resp.Want = append(resp.Want, rowOf(v))
	}
	b, err, p := realWrite(vals)
	if err != nil {
		resp.WriteErr = errClass(err, p) + ": " + err.Error()
		return &resp
	}
	if has(req.Ops, "rows") {
		resp.Rows = mkRes(realReadRows(b))
	}
	if has(req.Ops, "dump") {
		d, err := dumpTop(b)
		resp.Dump = d
		if err != nil {
			resp.DumpErr = err.Error()
		}
	}
	if has(req.Ops, "built") && req.Top != "" {
		bb, err := buildVNG(req.Top)
		if err != nil {
			resp.Built = &opRes{Err: "error: build: " + err.Error()}
		} else {
			resp.Built = mkRes(realReadRows(bb))
		}
	}
	suspicious := false
	if has(req.Ops, "vec") {
		resp.Vec = mkRes(realReadVec(b, nil))
		suspicious = suspicious || len(resp.Vec.Rows) != len(vals)
	}
	if has(req.Ops, "proj") {
		var paths []field.Path
		for _, p := range req.Paths {
			paths = append(paths, field.Path(p))
		}
		resp.Proj = mkRes(realReadVec(b, paths))
		suspicious = suspicious || len(resp.Proj.Rows) != len(vals)
	}
	if suspicious {
		// a goroutine of the loader may be panicking right now: give the process the time
		// to die before an answer computed from half-loaded vectors is sent
		time.Sleep(150 * time.Millisecond)
	}
	return &resp
}

// ---- the per-case checks ----------------------------------------------------------------------

type harness struct {
	c *Ctx
	w *Worker
	// classes of the vector path already reported in this run (a repeat is only counted)
	seenClass map[string]bool
}

func (h *harness) call(vc *vcase, ops []string, top string) (*wResp, bool, string) {
	req := vc.replay("")
	wr := wReq{Types: req.Types, Seq: req.Seq, Paths: req.Paths, Ops: ops, Top: top}
	var resp wResp
	crashed, msg := h.w.Call(&wr, 90*time.Second, &resp)
	return &resp, crashed, msg
}

func exact(rs []row) []string {
	out := make([]string, len(rs))
	for i, r := range rs {
		out[i] = r.Exact
	}
	return out
}

func modelOf(rs []row) string {
	var sb strings.Builder
	sb.WriteByte('(')
	for i, r := range rs {
		if i > 0 {
			sb.WriteByte(' ')
		}
		sb.WriteString(r.Model)
	}
	sb.WriteByte(')')
	return sb.String()
}

func firstDiff(a, b []string) string {
	if len(a) != len(b) {
		return fmt.Sprintf("%d values instead of %d", len(b), len(a))
	}
	for i := range a {
		if a[i] != b[i] {
			return fmt.Sprintf("value %d: want %s got %s", i, trunc(a[i], 160), trunc(b[i], 160))
		}
	}
	return ""
}

func panicSite(msg string) string {
	lines := strings.Split(msg, "\n")
	first := ""
	var keep []string
	for _, l := range lines {
		if first == "" && (strings.HasPrefix(l, "panic:") || strings.HasPrefix(l, "fatal error:") || strings.HasPrefix(l, "timeout")) {
			first = l
		}
		if strings.Contains(l, "/repo/") {
			l = strings.TrimSpace(l)
			if i := strings.Index(l, " +0x"); i > 0 {
				l = l[:i]
			}
			keep = append(keep, strings.TrimPrefix(l, "/repo/"))
		}
	}
	if len(keep) > 2 {
		keep = keep[:2]
	}
	if first == "" && len(lines) > 0 {
		first = lines[0]
	}
	return trunc(first, 140) + " @ " + strings.Join(keep, " | ")
}

// outcome of one real-code path on one case: "" (agrees with want), or a description whose
// first word is the class: crash | panic | error | diff.
func (h *harness) pathOutcome(vc *vcase, op string) (string, []row) {
	resp, crashed, msg := h.call(vc, []string{op}, "")
	if crashed {
		return "crash " + panicSite(msg), nil
	}
	if resp.WriteErr != "" {
		return "error write: " + trunc(resp.WriteErr, 200), nil
	}
	var r *opRes
	switch op {
	case "rows":
		r = resp.Rows
	case "vec":
		r = resp.Vec
	case "proj":
		r = resp.Proj
	}
	if r == nil {
		return "error no result", nil
	}
	if r.Err != "" {
		if strings.HasPrefix(r.Err, "panic") {
			return "panic " + panicSite(r.Err), r.Rows
		}
		return "error " + trunc(r.Err, 200), r.Rows
	}
	if op != "proj" {
		if d := firstDiff(exact(resp.Want), exact(r.Rows)); d != "" {
			return "diff " + d, r.Rows
		}
	}
	return "", r.Rows
}

func outcomeClass(o string) string {
	if i := strings.Index(o, " "); i > 0 {
		return o[:i]
	}
	return o
}

// vecClass: the narrow classification of a (shrunk) failing input of the vector path.
func vecClass(vc *vcase, outcome string) string {
	f := vc.features()
	cls := outcomeClass(outcome)
	if cls == "crash" {
		cls = "panic"
	}
	switch {
	case f["enum"]:
		return "enum-column"
	case f["null-union"]:
		return "union-null-slot"
	case f["error-under-null"]:
		return "error-under-null-record"
	case f["prim27"] && cls == "panic" && strings.Contains(outcome, "loader.go"):
		return "net-column-panic"
	}
	return "other-" + cls
}

func (h *harness) checkCase(vc *vcase, checks map[string]bool) {
	c := h.c
	c.Eval(vc.key())
	feat := vc.features()
	for k := range feat {
		c.Stat("feature:" + k)
	}
	c.Stat(fmt.Sprintf("types:%d", len(vc.Types)))
	c.Stat("len:" + sizeBucket(len(vc.Seq)))
	if len(c.Res.Samples) < 4 && len(vc.Seq) > 0 && len(vc.Seq) < 6 {
		c.Sample(map[string]any{"types": vc.modelInput()})
	}
	m := c.Model()

	// model encoding first (needed by the `built` op)
	top := ""
	wf := true
	if checks["enc"] || checks["stat"] {
		ans := m.Batch([]string{"(C03 wf " + vc.modelInput() + ")", "(C03 enc " + vc.modelInput() + ")"})
		if ans[0] != "1" {
			wf = false
			c.Stat("model:not-conforming")
			c.Fail("correspondence", "C03:corr:generator-not-conforming", "the model rejects a generated value as ill-formed: "+trunc(vc.modelInput(), 300), vc.replay("enc"))
		}
		top = ans[1]
	}
	// T2 for the guard of the vector-path theorems: the model's `seqOK` must be exactly the
	// complement of the recorded defect classes the harness classifies by
	if checks["vec"] {
		g := m.Call("(C03 guard " + vc.modelInput() + ")")
		inGuard := !(feat["enum"] || feat["null-union"] || feat["error-under-null"])
		c.Res.ModelCases++
		if (g == "1") != inGuard {
			c.Fail("correspondence", "C03:corr:guard", fmt.Sprintf("model guard seqOK=%s but harness features enum=%v null-union=%v error-under-null=%v for %s", g, feat["enum"], feat["null-union"], feat["error-under-null"], trunc(vc.modelInput(), 300)), vc.replay("vec"))
		} else if inGuard {
			c.Stat("guard:inside")
		} else {
			c.Stat("guard:outside")
		}
	}
	ops := []string{"rows", "dump"}
	if checks["enc"] && wf {
		ops = append(ops, "built")
	}
	resp, crashed, msg := h.call(vc, ops, top)
	if crashed {
		h.reportPath(vc, "rows", "crash "+panicSite(msg))
		return
	}
	if resp.WriteErr != "" {
		h.reportPath(vc, "rows", "error write: "+resp.WriteErr)
		return
	}
	want := exact(resp.Want)
	wantModel := modelOf(resp.Want)
	// rows (oracle)
	if checks["rows"] {
		c.Stat("rows:cases")
		if resp.Rows.Err != "" {
			h.reportPath(vc, "rows", outcomeOf(resp.Rows))
		} else if d := firstDiff(want, exact(resp.Rows.Rows)); d != "" {
			h.reportPath(vc, "rows", "diff "+d)
		}
	}
	// dec (crossed: real encode → model decode)
	if checks["dec"] {
		c.Res.ModelCases++
		c.Stat("dec:cases")
		if resp.DumpErr != "" {
			c.Fail("correspondence", "C03:corr:dump", "cannot dump the real object: "+resp.DumpErr, vc.replay("dec"))
		} else {
			got := m.Call("(C03 dec " + resp.Dump + ")")
			if got != wantModel {
				c.Fail("correspondence", "C03:corr:dec:"+kindsOf(vc), fmt.Sprintf("model reader over the real writer's columns differs from the input: model=%s input=%s", trunc(got, 300), trunc(wantModel, 300)), vc.replay("dec"))
			}
			if top != "" {
				if top == resp.Dump {
					c.Stat("enc:model-columns-identical-to-real")
				} else {
					c.Stat("enc:model-columns-differ-from-real(dict order etc.)")
				}
			}
			countEncodings(c, resp.Dump)
		}
	}
	// enc (crossed: model encode → real decode)
	if checks["enc"] && wf && resp.Built != nil {
		c.Res.ModelCases++
		c.Stat("enc:cases")
		if resp.Built.Err != "" {
			c.Fail("correspondence", "C03:corr:enc:"+kindsOf(vc), "real reader fails on the model's encoding: "+trunc(resp.Built.Err, 300), vc.replay("enc"))
		} else if d := firstDiff(want, exact(resp.Built.Rows)); d != "" {
			c.Fail("correspondence", "C03:corr:enc:"+kindsOf(vc), "real reader over the model's encoding differs from the input: "+d, vc.replay("enc"))
		}
	}
	// vec (oracle) + vecm (T2: model loader / materializer over the real columns)
	if checks["vec"] {
		known := feat["enum"] || feat["null-union"] || feat["error-under-null"]
		if known && !checks["vec-known"] {
			c.Stat("vec:skipped(known-broken feature)")
		} else {
			c.Stat("vec:cases")
			o, rows := h.pathOutcome(vc, "vec")
			if o != "" {
				// confirm (a dying worker can answer with half-loaded vectors)
				o2, _ := h.pathOutcome(vc, "vec")
				if o2 == "" {
					c.Stat("vec:unconfirmed")
					o = ""
				} else {
					if outcomeClass(o2) == "crash" || outcomeClass(o2) == "panic" {
						o = o2
					}
					h.reportPath(vc, "vec", o)
				}
			}
			if resp.DumpErr == "" && resp.Dump != "" {
				c.Res.ModelCases++
				mv := m.Call("(C03 vec (paths) " + resp.Dump + ")")
				switch {
				case o == "" && rows != nil && mv == modelOf(rows):
					c.Stat("vecm:agrees")
				case o == "" && len(vc.Seq) > 0:
					c.Fail("correspondence", "C03:corr:vec:"+kindsOf(vc), fmt.Sprintf("model vector path differs from the real one over the same columns: model=%s real=%s", trunc(mv, 300), trunc(modelOf(rows), 300)), vc.replay("vec"))
				case o == "":
					c.Stat("vecm:agrees")
				case mv == "fail":
					c.Stat("vecm:both-fail")
				case known || vecClass(vc, o) != "other-"+outcomeClass(o):
					c.Stat("vecm:real-fails-model-does-not(known class)")
				default:
					c.Stat("vecm:real-fails-model-does-not")
				}
			}
		}
	}
	if checks["proj"] && len(vc.Paths) > 0 {
		h.checkProj(vc, feat)
	}
}

func outcomeOf(r *opRes) string {
	if strings.HasPrefix(r.Err, "panic") {
		return "panic " + panicSite(r.Err)
	}
	return "error " + trunc(r.Err, 200)
}

func sizeBucket(n int) string {
	switch {
	case n == 0:
		return "0"
	case n == 1:
		return "1"
	case n <= 5:
		return "2-5"
	case n <= 50:
		return "6-50"
	case n <= 256:
		return "51-256"
	}
	return "257+"
}

func countEncodings(c *Ctx, dump string) {
	for _, k := range []string{"(plain", "(dict", "(const", "(nulls", "(dynamic", "(single", "(union", "(map", "(set", "(array", "(record", "(named", "(error"} {
		if n := strings.Count(dump, k); n > 0 {
			c.StatN("columns:"+k[1:], n)
		}
	}
}

func kindsOf(vc *vcase) string {
	ks := map[string]bool{}
	for _, t := range vc.Types {
		ks[t.Kind] = true
	}
	var out []string
	for k := range ks {
		out = append(out, k)
	}
	sort.Strings(out)
	return strings.Join(out, "+")
}

// reportPath shrinks a failing input of one real-code path and reports it.
func (h *harness) reportPath(vc *vcase, op string, outcome string) {
	c := h.c
	cls := outcomeClass(outcome)
	budget := 120
	if op == "vec" {
		if k := vecClass(vc, outcome); !strings.HasPrefix(k, "other-") {
			if h.seenClass == nil {
				h.seenClass = map[string]bool{}
			}
			if h.seenClass[k] {
				c.Stat("vec:repeat-of-reported-class:" + k)
				return
			}
			h.seenClass[k] = true
			budget = 40
		}
	}
	same := func(o string) bool {
		oc := outcomeClass(o)
		if cls == "crash" || cls == "panic" {
			return oc == "crash" || oc == "panic"
		}
		return oc == cls
	}
	min := shrinkCase(vc, func(x *vcase) bool {
		o, _ := h.pathOutcome(x, op)
		return o != "" && same(o)
	}, budget)
	o2, _ := h.pathOutcome(min, op)
	if o2 == "" {
		o2 = outcome
		min = vc
	}
	kind := "oracle"
	if oc := outcomeClass(o2); oc == "crash" || oc == "panic" {
		kind = "panic"
	}
	key := ""
	switch op {
	case "rows":
		key = "C03:row-path:" + outcomeClass(o2) + ":" + kindsOf(min)
	case "vec":
		key = "C03:vector-path:" + vecClass(min, o2)
	}
	what := fmt.Sprintf("%s read of %d value(s) of type(s) %s: %s", map[string]string{"rows": "row-path", "vec": "vector-path"}[op], len(min.Seq), trunc(typesOf(min), 200), trunc(o2, 400))
	c.Fail(kind, key, what, min.replay(op))
}

func typesOf(vc *vcase) string {
	var out []string
	for _, t := range vc.Types {
		out = append(out, t.Descr())
	}
	return strings.Join(out, " ")
}
