import Zed.Model.Sexp
import Zed.Model.ParSlicer
import Zed.Model.ParScatter
import Zed.Model.AggMonoid
/-!
  Driver glue for C08.

  `(C08 slice (<id> <min> <max>) …)`          objects in lister order → `((<id> …) …)`
  `(C08 span (<id> <min> <max>) …)`           → `<min> <max>` of one partition (nextPartition)
  `(C08 lister <desc 0|1> (<id> <min> <max> <minId> <maxId>) …)`
        → `ok`, or the index i of the first adjacent pair with less(obj[i+1], obj[i])
  `(C08 scatter <n> (<leg> …) (<key> …) …)`   items = partitions, each already merged (a list of
        integer keys); the schedule hands them to legs; → `remaining=<k> legs=((…) …) merged=(…)`
        where merged = kmergeFn over the legs' concatenated scans
  `(C08 partials <n> (<leg> …) (<int> …) …)`  items = lists of integers; per-leg partial sums and
        counts combined → `<sum> <count>` (sequential: the same over all items)
-/
namespace Zed.Drv.C08
open Zed Zed.Par

def objOf : Sexp → Option Obj
  | .list [.atom id, .atom mn, .atom mx] => do
    pure { id := (← id.toNat?), min := (← mn.toInt?), max := (← mx.toInt?) }
  | .list [.atom id, .atom mn, .atom mx, .atom a, .atom b] => do
    pure { id := (← id.toNat?), min := (← mn.toInt?), max := (← mx.toInt?),
           minId := (← a.toNat?), maxId := (← b.toNat?) }
  | _ => none

def showNats (xs : List Nat) : String := "(" ++ " ".intercalate (xs.map toString) ++ ")"
def showInts (xs : List Int) : String := "(" ++ " ".intercalate (xs.map toString) ++ ")"

def firstInversion (desc : Bool) : List Obj → Nat → Option Nat
  | a :: b :: rest, i => if listerLess desc b a then some i else firstInversion desc (b :: rest) (i + 1)
  | _, _ => none

def intsOf : Sexp → Option (List Int)
  | .list xs => xs.mapM (fun | .atom s => s.toInt? | _ => none)
  | _ => none

def natsOf : Sexp → Option (List Nat)
  | .list xs => xs.mapM (fun | .atom s => s.toNat? | _ => none)
  | _ => none

def intLe (a b : Int) : Bool := a ≤ b

def handle : List Sexp → String
  | .atom "slice" :: objs =>
    match objs.mapM objOf with
    | some os => "(" ++ " ".intercalate ((slice os).map fun p => showNats (p.map (·.id))) ++ ")"
    | none => "bad-op"
  | .atom "span" :: objs =>
    match objs.mapM objOf with
    | some os => toString (spanMin os) ++ " " ++ toString (spanMax os)
    | none => "bad-op"
  | .atom "lister" :: .atom desc :: objs =>
    match objs.mapM objOf with
    | some os =>
      if desc != "0" && desc != "1" then "bad-op" else
      match firstInversion (desc == "1") os 0 with
      | none => "ok"
      | some i => toString i
    | none => "bad-op"
  | .atom "scatter" :: .atom n :: sched :: parts =>
    match n.toNat?, natsOf sched, parts.mapM intsOf with
    | some n, some sched, some parts =>
      let st := runSched parts sched
      let legs := legsOut id st.log n
      let total := (legs.map List.length).sum
      "remaining=" ++ toString st.remaining.length ++ " legs=(" ++
        " ".intercalate (legs.map showInts) ++ ") merged=" ++ showInts (kmergeFn intLe total legs)
    | _, _, _ => "bad-op"
  | .atom "partials" :: .atom n :: sched :: parts =>
    match n.toNat?, natsOf sched, parts.mapM intsOf with
    | some n, some sched, some parts =>
      let st := runSched parts sched
      let legs := legsOut id st.log n
      let m : Agg.Mon (Int × Nat) := Agg.avgMon
      let f : Int → Int × Nat := fun x => (x, 1)
      let r := m.combineAll (legs.map (m.fold f))
      "remaining=" ++ toString st.remaining.length ++ " " ++ toString r.1 ++ " " ++ toString r.2
    | _, _, _ => "bad-op"
  | _ => "bad-op"

end Zed.Drv.C08
