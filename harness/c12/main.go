package main

import (
	"fmt"
	"os"
	. "verifharness/hlib"
)

func main() { Main("C12", runC12) }

func runC12(c *Ctx) {
	e := NewStoreEngine()
	e.Coop = true
	ops := [][]StoreOp{
		{{Kind: "createPool", Lbl: 1, Name: 1}, {Kind: "load", Pool: 1, Branch: 0, Obj: 5, Lbl: 7}, {Kind: "load", Pool: 1, Branch: 0, Obj: 6, Lbl: 8}, {Kind: "delete", Pool: 1, Branch: 0, Objs: []int{5}, Lbl: 9}},
		{{Kind: "load", Pool: 1, Branch: 0, Obj: 10, Lbl: 11}, {Kind: "createBranch", Pool: 1, Name: 2, Parent: 7}, {Kind: "renamePool", Pool: 1, Name: 3}, {Kind: "removeBranch", Pool: 1, Name: 2}, {Kind: "removePool", Pool: 1}},
	}
	r, err := NewStoreRun(e, ops)
	if err != nil {
		panic(err)
	}
	for !r.Finished(0) {
		r.Grant(0)
	}
	for !r.Finished(1) {
		r.Grant(1)
	}
	if r.Err != nil {
		panic(r.Err)
	}
	for _, h := range r.History {
		fmt.Fprintf(os.Stderr, "%+v\n", *h)
	}
	diff, req := r.CompareWithModel(c.Model(), "C12")
	fmt.Fprintln(os.Stderr, "DIFF:", diff)
	if diff != "" {
		fmt.Fprintln(os.Stderr, req)
		for _, l := range r.RenderTrace() {
			fmt.Fprintln(os.Stderr, l)
		}
	}
}
