package main

import (
	"bytes"
	"context"
	"encoding/hex"
	"fmt"
	"runtime/pprof"
	"strings"
	"time"

	. "verifharness/hlib"

	zed "github.com/brimdata/super"
	"github.com/brimdata/super/compiler"
	"github.com/brimdata/super/pkg/field"
	"github.com/brimdata/super/runtime"
	"github.com/brimdata/super/runtime/vam"
	vamexpr "github.com/brimdata/super/runtime/vam/expr"
	vamop "github.com/brimdata/super/runtime/vam/op"
	"github.com/brimdata/super/runtime/vcache"
	"github.com/brimdata/super/vector"
	"github.com/brimdata/super/vng"
	"github.com/brimdata/super/zbuf"
	"github.com/brimdata/super/zio"
	"github.com/brimdata/super/zio/vngio"
	"github.com/brimdata/super/zio/zsonio"
	"github.com/brimdata/super/zson"
)

type nopCloser struct{ *bytes.Buffer }

func (nopCloser) Close() error { return nil }

func writeVNG(vals []zed.Value) ([]byte, error) {
	var buf bytes.Buffer
	w := vngio.NewWriter(nopCloser{&buf})
	for _, v := range vals {
		if err := w.Write(v); err != nil {
			return nil, err
		}
	}
	if err := w.Close(); err != nil {
		return nil, err
	}
	return buf.Bytes(), nil
}

// vngOf writes the ZSON text as one VNG object.
func vngOf(input string) ([]byte, error) {
	var buf bytes.Buffer
	w := vngio.NewWriter(nopCloser{&buf})
	r := zsonio.NewReader(zed.NewContext(), strings.NewReader(input))
	if err := zio.Copy(w, r); err != nil {
		return nil, err
	}
	if err := w.Close(); err != nil {
		return nil, err
	}
	return buf.Bytes(), nil
}

// vectorQuery: compiler.VectorCompile over a vcache object holding the input (the path the
// repo's own `vector: true` ztests take).
func vectorQuery(q, input string) (out []string, err error, panicked bool) {
	err, panicked = Protect(func() error {
		b, err := vngOf(input)
		if err != nil {
			return fmt.Errorf("vng write: %w", err)
		}
		o, err := vng.NewObject(bytes.NewReader(b))
		if err != nil {
			return err
		}
		ctx, cancel := context.WithTimeout(context.Background(), 20*time.Second)
		defer cancel()
		rctx := runtime.NewContext(ctx, zed.NewContext())
		defer rctx.Cancel()
		p, err := compiler.VectorCompile(rctx, q, vcache.NewObjectFromVNG(o))
		if err != nil {
			return fmt.Errorf("compile: %w", err)
		}
		out, err = PullAll(p)
		return err
	})
	return
}

// ---- operator level: real vcache vectors of several objects through the real operators --------

type slicePuller struct {
	vecs []vector.Any
	i    int
}

func (s *slicePuller) Pull(done bool) (vector.Any, error) {
	if done || s.i >= len(s.vecs) {
		return nil, nil
	}
	v := s.vecs[s.i]
	s.i++
	return v, nil
}

// aggRow: one output value of an aggregate, exact and in the model's syntax.
type aggRow struct {
	Exact string `json:"x"`
	Key   string `json:"k,omitempty"` // count() by: (type value) of the key
	Count string `json:"c,omitempty"`
}

func cbRowOf(v zed.Value) aggRow {
	r := aggRow{Exact: zson.FormatValue(v)}
	if rt, ok := zed.TypeUnder(v.Type()).(*zed.TypeRecord); ok && len(rt.Fields) == 2 && !v.IsNull() {
		it := v.Bytes().Iter()
		kb := it.Next()
		cb := it.Next()
		r.Key = ModelRow(zed.NewValue(rt.Fields[0].Type, kb))
		if cb != nil {
			r.Count = fmt.Sprint(zed.DecodeUint(cb))
		}
	}
	return r
}

func vecKind(v vector.Any) string {
	switch v := v.(type) {
	case *vector.Dict:
		return "dict:" + strings.TrimPrefix(fmt.Sprintf("%T", v.Any), "*vector.")
	case *vector.Const:
		if v.Type() == zed.TypeNull {
			return "constnull"
		}
		return fmt.Sprintf("const:%d", v.Type().ID())
	case *vector.Uint, *vector.Int, *vector.Float, *vector.Bool, *vector.Bytes, *vector.String, *vector.IP, *vector.Net, *vector.TypeValue:
		return "flat:" + strings.TrimPrefix(fmt.Sprintf("%T", v), "*vector.")
	}
	return "other:" + strings.TrimPrefix(fmt.Sprintf("%T", v), "*vector.")
}

type opsResult struct {
	Kinds   []string `json:"kinds"`
	CB      []aggRow `json:"cb"`
	CBErr   string   `json:"cb_err,omitempty"`
	Sum     []string `json:"sum"`
	SumErr  string   `json:"sum_err,omitempty"`
	SeqCB   []aggRow `json:"seq_cb"`
	SeqCBE  string   `json:"seq_cb_err,omitempty"`
	SeqSum  []string `json:"seq_sum"`
	SeqSumE string   `json:"seq_sum_err,omitempty"`
	Err     string   `json:"err,omitempty"`
}

func errStr(err error, p bool) string {
	if err == nil {
		return ""
	}
	if p {
		return "panic: " + err.Error()
	}
	return "error: " + err.Error()
}

func seqQuery(zctx *zed.Context, q string, vals []zed.Value) (out []zed.Value, err error) {
	e, _ := Protect(func() error {
		ast, sset, err := compiler.Parse(q)
		if err != nil {
			return err
		}
		ctx, cancel := context.WithTimeout(context.Background(), 30*time.Second)
		defer cancel()
		query, err := runtime.CompileQuery(ctx, zctx, compiler.NewCompiler(), ast, sset, []zio.Reader{zbuf.NewArray(vals)})
		if err != nil {
			return err
		}
		defer query.Pull(true)
		for {
			b, err := query.Pull(false)
			if err != nil {
				return err
			}
			if b == nil {
				return nil
			}
			for _, v := range b.Values() {
				out = append(out, v.Copy())
			}
			b.Unref()
		}
	})
	return out, e
}

// runOps: objs[i] = the values of object i.  The real CountByString / Sum operators are fed
// the vectors the vector cache returns for the projection [f] of each object, in order.
func runOps(zctx *zed.Context, objs [][]zed.Value) *opsResult {
	res := &opsResult{}
	fetch := func() ([]vector.Any, error) {
		var vecs []vector.Any
		for _, vals := range objs {
			b, err := writeVNG(vals)
			if err != nil {
				return nil, err
			}
			o, err := vng.NewObject(bytes.NewReader(b))
			if err != nil {
				return nil, err
			}
			vec, err := vcache.NewObjectFromVNG(o).Fetch(zctx, vcache.NewProjection([]field.Path{{"f"}}))
			if err != nil {
				return nil, err
			}
			vecs = append(vecs, vec)
		}
		return vecs, nil
	}
	var vecs []vector.Any
	e, p := Protect(func() error {
		var err error
		vecs, err = fetch()
		return err
	})
	if e != nil {
		res.Err = errStr(e, p)
		return res
	}
	// the vector each column is loaded as (what update() dispatches on)
	e, p = Protect(func() error {
		dot := vamexpr.NewDotExpr(zctx, &vamexpr.This{}, "f")
		var walk func(v vector.Any)
		walk = func(v vector.Any) {
			if d, ok := v.(*vector.Dynamic); ok {
				for _, x := range d.Values {
					walk(x)
				}
				return
			}
			res.Kinds = append(res.Kinds, vecKind(dot.Eval(v)))
		}
		for _, v := range vecs {
			walk(v)
		}
		return nil
	})
	if e != nil {
		res.Err = errStr(e, p)
		return res
	}
	pull := func(op vector.Puller) ([]zed.Value, error, bool) {
		var out []zed.Value
		err, p := Protect(func() error {
			m := vam.NewMaterializer(op)
			for {
				b, err := m.Pull(false)
				if err != nil {
					return err
				}
				if b == nil {
					return nil
				}
				for _, v := range b.Values() {
					out = append(out, v.Copy())
				}
			}
		})
		return out, err, p
	}
	vals, err, pp := pull(vamop.NewCountByString(zctx, &slicePuller{vecs: vecs}, "f"))
	res.CBErr = errStr(err, pp)
	for _, v := range vals {
		res.CB = append(res.CB, cbRowOf(v))
	}
	vals, err, pp = pull(vamop.NewSum(zctx, &slicePuller{vecs: vecs}, "f"))
	res.SumErr = errStr(err, pp)
	for _, v := range vals {
		res.Sum = append(res.Sum, zson.FormatValue(v))
	}
	// sequential reference over the concatenation
	var all []zed.Value
	for _, o := range objs {
		all = append(all, o...)
	}
	svals, err := seqQuery(zctx, "count() by f", all)
	res.SeqCBE = errStr(err, false)
	for _, v := range svals {
		res.SeqCB = append(res.SeqCB, cbRowOf(v))
	}
	svals, err = seqQuery(zctx, "summarize sum(f)", all)
	res.SeqSumE = errStr(err, false)
	for _, v := range svals {
		res.SeqSum = append(res.SeqSum, zson.FormatValue(v))
	}
	return res
}

func decodeBody(s any) []byte {
	str, ok := s.(string)
	if !ok {
		return nil
	}
	if str == "-" {
		return []byte{}
	}
	b, _ := hex.DecodeString(str)
	return b
}

func ZsonOf(v zed.Value) string { return zson.FormatValue(v) }

// lakeQueryValues runs a lake query (default parallelism, or the given number of scan legs)
// and returns the values.
func lakeQueryValues(l *TLake, q string, parallelism int) (out []zed.Value, err error) {
	e, _ := Protect(func() error {
		ctx, cancel := context.WithTimeout(context.Background(), 20*time.Second)
		defer cancel()
		var p zbuf.Puller
		if parallelism > 0 {
			ast, _, err := compiler.Parse(q)
			if err != nil {
				return err
			}
			rctx := runtime.NewContext(ctx, zed.NewContext())
			defer rctx.Cancel()
			query, err := compiler.NewLakeCompiler(l.Root).NewLakeQuery(rctx, ast, parallelism, nil)
			if err != nil {
				return err
			}
			defer query.Pull(true)
			p = query
		} else {
			query, err := l.LK.Query(ctx, nil, q)
			if err != nil {
				return err
			}
			defer query.Pull(true)
			p = query
		}
		for {
			b, err := p.Pull(false)
			if err != nil {
				if strings.Contains(err.Error(), "deadline exceeded") && cacheLockDeadlocked() {
					return fmt.Errorf("%w [vcache-fetch-deadlock]", err)
				}
				return err
			}
			if b == nil {
				return nil
			}
			for _, v := range b.Values() {
				out = append(out, v.Copy())
			}
			b.Unref()
		}
	})
	return out, e
}

// cacheLockDeadlocked looks at the goroutines of this process for the signature of the
// vcache.Cache lock-order deadlock: one goroutine inside Cache.lock (it holds c.mu and waits for
// the object mutex) while another one waits for c.mu inside Cache.Fetch.
func cacheLockDeadlocked() bool {
	var buf bytes.Buffer
	if p := pprof.Lookup("goroutine"); p == nil || p.WriteTo(&buf, 2) != nil {
		return false
	}
	inLock, inFetch := false, false
	for _, g := range strings.Split(buf.String(), "\n\n") {
		if !strings.Contains(g, "[sync.Mutex.Lock") {
			continue
		}
		switch {
		case strings.Contains(g, "vcache.(*Cache).lock("):
			inLock = true
		case strings.Contains(g, "vcache.(*Cache).Fetch("):
			inFetch = true
		}
	}
	return inLock && inFetch
}
