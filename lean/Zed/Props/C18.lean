/-
  C18 — a failed write to the output is always reported.
  Property theorems only.  The per-site error handling comes from Zed.Generated.C18
  (regenerated from the writers' Go sources on every check).
-/
import Zed.Model.Sink
namespace Zed.Props.C18
open Zed.Sink

/-- Some sink call numbered in `[a, b)` failed. -/
def FailedIn (fail : Oracle) (a b : Nat) : Prop := ∃ k, a ≤ k ∧ k < b ∧ fail k = true

private theorem failedIn_mono {fail : Oracle} {a b a' b' : Nat} (ha : a' ≤ a) (hb : b ≤ b') :
    FailedIn fail a b → FailedIn fail a' b' := by
  rintro ⟨k, h1, h2, h3⟩; exact ⟨k, by omega, by omega, h3⟩

private theorem failedIn_split {fail : Oracle} {a b c : Nat} (_hab : a ≤ b) :
    FailedIn fail a c → FailedIn fail a b ∨ FailedIn fail b c := by
  rintro ⟨k, h1, h2, h3⟩
  by_cases h : k < b
  · exact Or.inl ⟨k, h1, h, h3⟩
  · exact Or.inr ⟨k, by omega, h2, h3⟩

/-! ### Obligations on the regenerated call-site table -/

/-- zngio.Writer: every site the model distinguishes returns the error. -/
theorem zng_sites_returned : genZngSites = allReturned := by decide

/-- Every sink-reaching call site of the straight-line writers returns the error (the lake
    data writer's `Abort` is its error-cleanup path and is excluded). -/
theorem direct_sites_returned :
    pkgAllReturned "zsonio" [] = true ∧ pkgAllReturned "zjsonio" [] = true ∧
    pkgAllReturned "zeekio" [] = true ∧ pkgAllReturned "textio" [] = true ∧
    pkgAllReturned "jsonio" [] = true ∧ pkgAllReturned "tableio" [] = true ∧
    pkgAllReturned "vng" [] = true ∧ pkgAllReturned "vngenc" [] = true ∧
    pkgAllReturned "lakedata" ["Abort"] = true ∧
    pkgAllReturned "csvio" [] = true ∧ pkgAllReturned "bufwriter" [] = true := by decide

/-- The table is not vacuous: every package contributes sites. -/
theorem sites_present :
    pkgSiteCount "zngio" ≥ 15 ∧ pkgSiteCount "zsonio" ≥ 2 ∧ pkgSiteCount "zjsonio" ≥ 2 ∧
    pkgSiteCount "zeekio" ≥ 2 ∧ pkgSiteCount "textio" ≥ 2 ∧ pkgSiteCount "jsonio" ≥ 1 ∧
    pkgSiteCount "tableio" ≥ 9 ∧ pkgSiteCount "vng" ≥ 3 ∧ pkgSiteCount "vngenc" ≥ 14 ∧
    pkgSiteCount "lakedata" ≥ 9 ∧
    pkgSiteCount "csvio" ≥ 4 ∧ pkgSiteCount "bufwriter" ≥ 1 := by decide

/-! ### Direct (straight-line) writers -/

private theorem runSteps_spec (fail : Oracle) (hs : List Handling)
    (hall : ∀ h ∈ hs, h = Handling.returned) (n : Nat) :
    n ≤ (runSteps fail hs n).next ∧
    ((runSteps fail hs n).err = false → ¬ FailedIn fail n (runSteps fail hs n).next) := by
  induction hs generalizing n with
  | nil =>
    simp only [runSteps]
    exact ⟨Nat.le_refl _, fun _ ⟨k, h1, h2, _⟩ => by omega⟩
  | cons h rest ih =>
    have hh : h = .returned := hall h (List.mem_cons_self)
    have hrest : ∀ x ∈ rest, x = Handling.returned := fun x hx => hall x (List.mem_cons_of_mem _ hx)
    subst hh
    simp only [runSteps, sinkCall]
    by_cases hf : fail n = true
    · simp [hf]
    · simp only [hf]
      simp only [Bool.false_eq_true, if_false]
      obtain ⟨h1, h2⟩ := ih hrest (n + 1)
      refine ⟨by omega, ?_⟩
      intro he hfi
      rcases failedIn_split (b := n + 1) (by omega) hfi with ⟨k, k1, k2, k3⟩ | h3
      · have : k = n := by omega
        subst this; exact hf k3
      · exact h2 he h3

/-- **direct_error_reported.**  For a writer whose operations are straight-line sequences of
    sink calls all of whose sites return the error: for every operation sequence and every
    sink oracle, if any sink call made during the run failed then some operation returned an
    error. -/
theorem direct_error_reported (fail : Oracle) (ops : List (List Handling))
    (hall : ∀ op ∈ ops, ∀ h ∈ op, h = Handling.returned) (n : Nat) :
    n ≤ (runDirect fail ops n).2 ∧
    (FailedIn fail n (runDirect fail ops n).2 → true ∈ (runDirect fail ops n).1) := by
  induction ops generalizing n with
  | nil =>
    simp only [runDirect]
    exact ⟨Nat.le_refl _, fun ⟨k, h1, h2, _⟩ => by omega⟩
  | cons op rest ih =>
    have hop := runSteps_spec fail op (hall op List.mem_cons_self) n
    have hrest : ∀ o ∈ rest, ∀ h ∈ o, h = Handling.returned :=
      fun o ho => hall o (List.mem_cons_of_mem _ ho)
    obtain ⟨i1, i2⟩ := ih hrest (runSteps fail op n).next
    simp only [runDirect]
    refine ⟨by omega, ?_⟩
    intro hfi
    cases he : (runSteps fail op n).err
    · rcases failedIn_split hop.1 hfi with h | h
      · exact absurd h (hop.2 he)
      · exact List.mem_cons_of_mem _ (i2 h)
    · exact List.mem_cons_self

/-- Full strength is needed: with one dropped site a one-shot failure goes unreported. -/
theorem not_direct_error_reported_with_dropped_site :
    ∃ (fail : Oracle) (ops : List (List Handling)),
      FailedIn fail 0 (runDirect fail ops 0).2 ∧ true ∉ (runDirect fail ops 0).1 :=
  ⟨oneShot 0, [[.dropped, .returned]], ⟨0, by decide, by decide, by decide⟩, by decide⟩

/-! ### ZNG writer -/

private theorem zWrite_spec (fail : Oracle) (s s' : ZngState) (e : Bool)
    (h : zWrite fail s = (s', e)) :
    s'.next = s.next + 1 ∧ (e = false → fail s.next = false) ∧
    s'.tbuf = s.tbuf ∧ s'.vbuf = s.vbuf ∧ (e = false → s'.dirty = true) := by
  unfold zWrite at h
  by_cases hf : fail s.next = true
  · simp only [hf, if_true, Prod.mk.injEq] at h
    obtain ⟨rfl, rfl⟩ := h; simp
  · simp only [hf, Bool.false_eq_true, if_false, Prod.mk.injEq] at h
    obtain ⟨rfl, rfl⟩ := h; simp [hf]

private theorem zWriteBlock_spec (fail : Oracle) (s s' : ZngState) (len : Nat) (e : Bool)
    (h : zWriteBlock true fail s len = (s', e)) :
    s.next ≤ s'.next ∧ (e = false → ¬ FailedIn fail s.next s'.next) ∧
    s'.tbuf = s.tbuf ∧ s'.vbuf = s.vbuf := by
  unfold zWriteBlock at h
  by_cases hl : len = 0
  · simp only [hl, if_true, Prod.mk.injEq] at h
    obtain ⟨rfl, rfl⟩ := h
    exact ⟨Nat.le_refl _, fun _ ⟨k, h1, h2, _⟩ => by omega, rfl, rfl⟩
  · simp only [hl, if_false] at h
    rcases h1 : zWrite fail s with ⟨s1, e1⟩
    obtain ⟨a1, a2, a3, a4, _⟩ := zWrite_spec fail s s1 e1 h1
    simp only [h1] at h
    cases e1
    · simp only [Bool.false_and, Bool.false_eq_true, if_false, Bool.and_true] at h
      rcases h2 : zWrite fail s1 with ⟨s2, e2⟩
      obtain ⟨b1, b2, b3, b4, _⟩ := zWrite_spec fail s1 s2 e2 h2
      simp only [h2] at h
      simp only [Prod.mk.injEq] at h
      obtain ⟨rfl, rfl⟩ := h
      refine ⟨by omega, ?_, by rw [b3, a3], by rw [b4, a4]⟩
      intro he ⟨k, k1, k2, k3⟩
      have f1 := a2 rfl
      have f2 := b2 he
      rw [a1] at f2
      have : k = s.next ∨ k = s.next + 1 := by omega
      rcases this with rfl | rfl
      · rw [f1] at k3; exact absurd k3 (by simp)
      · rw [f2] at k3; exact absurd k3 (by simp)
    · simp only [Bool.and_true, if_true, Prod.mk.injEq] at h
      obtain ⟨rfl, rfl⟩ := h
      exact ⟨by omega, fun h => absurd h (by simp), a3, a4⟩

private theorem zFlush_spec (fail : Oracle) (s s' : ZngState) (e : Bool)
    (h : zFlush allReturned fail s = (s', e)) :
    s.next ≤ s'.next ∧
    (e = false → ¬ FailedIn fail s.next s'.next ∧ s'.tbuf = 0 ∧ s'.vbuf = 0) := by
  unfold zFlush at h
  simp only [allReturned, after] at h
  rcases h1 : zWriteBlock true fail s s.tbuf with ⟨s1, e1⟩
  obtain ⟨a1, a2, _, _⟩ := zWriteBlock_spec fail s s1 s.tbuf e1 h1
  simp only [h1] at h
  cases e1
  · simp only [Bool.false_and, Bool.false_eq_true, if_false] at h
    rcases h2 : zWriteBlock true fail s1 s1.vbuf with ⟨s2, e2⟩
    obtain ⟨b1, b2, _, _⟩ := zWriteBlock_spec fail s1 s2 s1.vbuf e2 h2
    simp only [h2] at h
    cases e2
    · simp only [Bool.false_and, Bool.false_eq_true, if_false, Prod.mk.injEq] at h
      obtain ⟨rfl, rfl⟩ := h
      refine ⟨by simp only; omega, fun _ => ⟨?_, rfl, rfl⟩⟩
      intro hfi
      rcases failedIn_split a1 hfi with h | h
      · exact a2 rfl h
      · exact b2 rfl h
    · simp only [Bool.and_true, if_true, Prod.mk.injEq] at h
      obtain ⟨rfl, rfl⟩ := h
      exact ⟨by omega, fun h => absurd h (by simp)⟩
  · simp only [Bool.and_true, if_true, Prod.mk.injEq] at h
    obtain ⟨rfl, rfl⟩ := h
    exact ⟨a1, fun h => absurd h (by simp)⟩

private theorem zEndStream_spec (fail : Oracle) (s s' : ZngState) (e : Bool)
    (h : zEndStream allReturned fail s = (s', e)) :
    s.next ≤ s'.next ∧
    (e = false → ¬ FailedIn fail s.next s'.next ∧ s'.tbuf = 0 ∧ s'.vbuf = 0 ∧ s'.dirty = false) := by
  unfold zEndStream at h
  rcases h1 : zFlush allReturned fail s with ⟨s1, e1⟩
  obtain ⟨a1, a2⟩ := zFlush_spec fail s s1 e1 h1
  simp only [h1] at h
  cases e1
  · obtain ⟨a2, a3, a4⟩ := a2 rfl
    simp only [Bool.false_and, Bool.false_eq_true, if_false] at h
    cases hd : s1.dirty
    · simp only [hd, Bool.false_eq_true, if_false, Prod.mk.injEq] at h
      obtain ⟨rfl, rfl⟩ := h
      exact ⟨a1, fun _ => ⟨a2, a3, a4, hd⟩⟩
    · simp only [hd, if_true] at h
      rcases h2 : zWrite fail s1 with ⟨s2, e2⟩
      obtain ⟨b1, b2, b3, b4, _⟩ := zWrite_spec fail s1 s2 e2 h2
      simp only [h2] at h
      cases e2
      · simp only [Bool.false_eq_true, if_false, Prod.mk.injEq] at h
        obtain ⟨rfl, rfl⟩ := h
        refine ⟨by simp only; omega, fun _ => ⟨?_, by simp only; rw [b3, a3], by simp only; rw [b4, a4], rfl⟩⟩
        intro hfi
        rcases failedIn_split a1 hfi with h | ⟨k, k1, k2, k3⟩
        · exact a2 h
        · have : k = s1.next := by simp only at k2; omega
          subst this
          rw [b2 rfl] at k3; exact absurd k3 (by simp)
      · simp only [if_true, allReturned, Prod.mk.injEq] at h
        obtain ⟨rfl, rfl⟩ := h
        exact ⟨by omega, fun h => absurd h (by decide)⟩
  · simp only [allReturned, after, Bool.and_true, if_true, Prod.mk.injEq] at h
    obtain ⟨rfl, rfl⟩ := h
    exact ⟨a1, fun h => absurd h (by simp)⟩

private theorem zStep_spec (thresh : Nat) (fail : Oracle) (s s' : ZngState) (op : ZngOp) (e : Bool)
    (h : zStep ⟨thresh, allReturned⟩ fail s op = (s', e)) :
    s.next ≤ s'.next ∧ (e = false → ¬ FailedIn fail s.next s'.next) ∧
    (op = .close → e = false → s'.tbuf = 0 ∧ s'.vbuf = 0 ∧ s'.dirty = false) := by
  cases op with
  | write t v =>
    simp only [zStep] at h
    split at h
    · rcases h1 : zFlush allReturned fail { s with tbuf := s.tbuf + t, vbuf := s.vbuf + v } with ⟨s1, e1⟩
      obtain ⟨a1, a2⟩ := zFlush_spec fail _ s1 e1 h1
      simp only [h1] at h
      simp only [allReturned, Prod.mk.injEq] at h
      obtain ⟨rfl, rfl⟩ := h
      refine ⟨a1, ?_, by simp⟩
      intro he
      have : e1 = false := by simpa using he
      exact (a2 this).1
    · simp only [Prod.mk.injEq] at h
      obtain ⟨rfl, rfl⟩ := h
      exact ⟨Nat.le_refl _, fun _ ⟨k, h1, h2, _⟩ => by simp only at h2; omega, by simp⟩
  | endStream =>
    simp only [zStep] at h
    obtain ⟨a1, a2⟩ := zEndStream_spec fail s s' e h
    exact ⟨a1, fun he => (a2 he).1, by simp⟩
  | close =>
    simp only [zStep] at h
    rcases h1 : zEndStream allReturned fail s with ⟨s1, e1⟩
    obtain ⟨a1, a2⟩ := zEndStream_spec fail s s1 e1 h1
    simp only [h1] at h
    simp only [allReturned, Prod.mk.injEq] at h
    obtain ⟨rfl, rfl⟩ := h
    have key : (e1 && (Handling.returned == Handling.returned)) = false → e1 = false := by
      intro he; simpa using he
    exact ⟨a1, fun he => (a2 (key he)).1, fun _ he => (a2 (key he)).2⟩

private theorem zRun_reported (thresh : Nat) (fail : Oracle) (ops : List ZngOp) (s : ZngState) :
    s.next ≤ (zRun ⟨thresh, allReturned⟩ fail ops s).2.next ∧
    (FailedIn fail s.next (zRun ⟨thresh, allReturned⟩ fail ops s).2.next →
      true ∈ (zRun ⟨thresh, allReturned⟩ fail ops s).1) := by
  induction ops generalizing s with
  | nil =>
    simp only [zRun]
    exact ⟨Nat.le_refl _, fun ⟨k, h1, h2, _⟩ => by omega⟩
  | cons op rest ih =>
    rcases h1 : zStep ⟨thresh, allReturned⟩ fail s op with ⟨s1, e1⟩
    obtain ⟨a1, a2, _⟩ := zStep_spec thresh fail s s1 op e1 h1
    obtain ⟨i1, i2⟩ := ih s1
    simp only [zRun, h1]
    refine ⟨by omega, ?_⟩
    intro hfi
    cases e1
    · rcases failedIn_split a1 hfi with h | h
      · exact absurd h (a2 rfl)
      · exact List.mem_cons_of_mem _ (i2 h)
    · exact List.mem_cons_self

/-- **zng_error_reported.**  With the call-site handling regenerated from the current
    zio/zngio/writer.go: for every frame threshold, every sequence of Write / EndStream /
    Close operations (values of any typedef and body sizes), every starting state and every
    sink oracle (one-shot, sticky, anything), if any sink write made during the run failed,
    some operation returned an error. -/
theorem zng_error_reported (thresh : Nat) (fail : Oracle) (ops : List ZngOp) (s : ZngState) :
    FailedIn fail s.next (zRun ⟨thresh, genZngSites⟩ fail ops s).2.next →
      true ∈ (zRun ⟨thresh, genZngSites⟩ fail ops s).1 := by
  rw [zng_sites_returned]
  exact (zRun_reported thresh fail ops s).2

/-- **zng_close_complete.**  If Close reports no error, nothing is left buffered and the
    stream is terminated: everything written has been handed to the sink, followed by EOS. -/
theorem zng_close_complete (thresh : Nat) (fail : Oracle) (s : ZngState)
    (h : (zStep ⟨thresh, genZngSites⟩ fail s .close).2 = false) :
    (zStep ⟨thresh, genZngSites⟩ fail s .close).1.tbuf = 0 ∧
    (zStep ⟨thresh, genZngSites⟩ fail s .close).1.vbuf = 0 ∧
    (zStep ⟨thresh, genZngSites⟩ fail s .close).1.dirty = false := by
  rw [zng_sites_returned] at h ⊢
  rcases h1 : zStep ⟨thresh, allReturned⟩ fail s .close with ⟨s1, e1⟩
  simp only [h1] at h
  exact (zStep_spec thresh fail s s1 .close e1 h1).2.2 rfl h

/-- The defect repaired by fe729beff, kept as a theorem about the model: when `flush` swallows
    the error of `writeBlock` (`return nil`), a failed sink write goes unreported. -/
theorem not_zng_error_reported_when_flush_swallows :
    ∃ (fail : Oracle) (ops : List ZngOp),
      let cfg : ZngCfg := ⟨1, { allReturned with flushTypes := .swallowed, flushValues := .swallowed }⟩
      FailedIn fail 0 (zRun cfg fail ops {}).2.next ∧ true ∉ (zRun cfg fail ops {}).1 :=
  ⟨oneShot 0, [.write 3 5, .close], ⟨0, by decide, by decide, by decide⟩, by decide⟩

/-! ### bufio-buffered writers -/

private theorem bFlush_spec (fail : Oracle) (s : BufState) :
    s.next ≤ (bFlush fail s).next ∧ (s.sticky = true → (bFlush fail s).sticky = true) ∧
    ((bFlush fail s).sticky = false → ¬ FailedIn fail s.next (bFlush fail s).next) := by
  unfold bFlush
  by_cases hs : s.sticky = true
  · simp only [hs, if_true]
    exact ⟨Nat.le_refl _, fun _ => trivial, fun _ ⟨k, h1, h2, _⟩ => by omega⟩
  · simp only [hs, Bool.false_eq_true, if_false]
    by_cases hb : s.buffered = 0
    · simp only [hb, if_true]
      exact ⟨Nat.le_refl _, fun h => h.elim, fun _ ⟨k, h1, h2, _⟩ => by omega⟩
    · simp only [hb, if_false]
      by_cases hf : fail s.next = true
      · simp only [hf, if_true]
        exact ⟨by omega, fun _ => trivial, fun h => absurd h (by simp)⟩
      · simp only [hf, Bool.false_eq_true, if_false]
        refine ⟨by omega, fun h => h.elim, fun _ ⟨k, h1, h2, h3⟩ => ?_⟩
        have : k = s.next := by omega
        subst this; exact hf h3

private theorem bAppend_spec (fail : Oracle) (fuel : Nat) (s : BufState) (n : Nat) :
    s.next ≤ (bAppend fail fuel s n).next ∧
    (s.sticky = true → (bAppend fail fuel s n).sticky = true) ∧
    ((bAppend fail fuel s n).sticky = false → ¬ FailedIn fail s.next (bAppend fail fuel s n).next) := by
  induction fuel generalizing s n with
  | zero => simp only [bAppend]; exact ⟨Nat.le_refl _, id, fun _ ⟨k, h1, h2, _⟩ => by omega⟩
  | succ fuel ih =>
    simp only [bAppend]
    split
    · exact ⟨Nat.le_refl _, id, fun _ ⟨k, h1, h2, _⟩ => by omega⟩
    · rename_i hns
      split
      · exact ⟨Nat.le_refl _, by simp, fun _ ⟨k, h1, h2, _⟩ => by simp only at h2; omega⟩
      · have hst : s.sticky = false := by
          cases h : s.sticky
          · rfl
          · simp [h] at hns
        obtain ⟨f1, f2, f3⟩ := bFlush_spec fail { s with buffered := s.cap }
        split
        · rename_i hsticky
          exact ⟨f1, fun _ => hsticky, fun h => by rw [hsticky] at h; exact absurd h (by simp)⟩
        · rename_i hns2
          have hns2' : (bFlush fail { s with buffered := s.cap }).sticky = false := by
            cases h : (bFlush fail { s with buffered := s.cap }).sticky
            · rfl
            · exact absurd h hns2
          obtain ⟨i1, i2, i3⟩ := ih (bFlush fail { s with buffered := s.cap }) (n - (s.cap - s.buffered))
          refine ⟨by simp only at f1; omega, fun h => by rw [hst] at h; exact absurd h (by simp), ?_⟩
          intro he hfi
          rcases failedIn_split (b := (bFlush fail { s with buffered := s.cap }).next) f1 hfi with h | h
          · exact f3 hns2' h
          · exact i3 he h

/-- **buf_error_reported.**  A bufio-buffered writer whose Write returns the sticky error and
    whose Close returns the error of the final flush (the generated csvio / bufwriter sites
    say so, see `direct_sites_returned`): any failed sink write is reported by the operation
    during which it happens. -/
theorem buf_error_reported (fail : Oracle) (ops : List BufOp) (s : BufState)
    (hs : s.sticky = false) :
    s.next ≤ (bRun true fail ops s).2.next ∧
    (FailedIn fail s.next (bRun true fail ops s).2.next → true ∈ (bRun true fail ops s).1) := by
  induction ops generalizing s with
  | nil => simp only [bRun]; exact ⟨Nat.le_refl _, fun ⟨k, h1, h2, _⟩ => by omega⟩
  | cons op rest ih =>
    simp only [bRun]
    cases op with
    | write n =>
      simp only [bStep]
      obtain ⟨a1, _, a3⟩ := bAppend_spec fail n s n
      cases he : (bAppend fail n s n).sticky
      · obtain ⟨i1, i2⟩ := ih (bAppend fail n s n) he
        refine ⟨by omega, fun hfi => ?_⟩
        rcases failedIn_split a1 hfi with h | h
        · exact absurd h (a3 he)
        · exact List.mem_cons_of_mem _ (i2 h)
      · refine ⟨?_, fun _ => List.mem_cons_self⟩
        have := (ih_next fail rest (bAppend fail n s n)); omega
    | close =>
      simp only [bStep, Bool.and_true]
      obtain ⟨a1, _, a3⟩ := bFlush_spec fail s
      cases he : (bFlush fail s).sticky
      · obtain ⟨i1, i2⟩ := ih (bFlush fail s) he
        refine ⟨by omega, fun hfi => ?_⟩
        rcases failedIn_split a1 hfi with h | h
        · exact absurd h (a3 he)
        · exact List.mem_cons_of_mem _ (i2 h)
      · refine ⟨?_, fun _ => List.mem_cons_self⟩
        have := (ih_next fail rest (bFlush fail s)); omega
where
  ih_next (fail : Oracle) (ops : List BufOp) (s : BufState) :
      s.next ≤ (bRun true fail ops s).2.next := by
    induction ops generalizing s with
    | nil => simp [bRun]
    | cons op rest ih =>
      simp only [bRun]
      cases op with
      | write n =>
        simp only [bStep]
        have := (bAppend_spec fail n s n).1
        have := ih (bAppend fail n s n); omega
      | close =>
        simp only [bStep]
        have := (bFlush_spec fail s).1
        have := ih (bFlush fail s); omega

/-- The defect repaired by 80719b04a, kept as a theorem about the model: when Close drops the
    error of the final flush, a failure of that flush goes unreported. -/
theorem not_buf_error_reported_when_close_drops :
    ∃ (fail : Oracle) (ops : List BufOp) (s : BufState),
      FailedIn fail s.next (bRun false fail ops s).2.next ∧ true ∉ (bRun false fail ops s).1 :=
  ⟨oneShot 0, [.write 10, .close], { cap := 4096 }, ⟨0, by decide, by decide, by decide⟩, by decide⟩

/-! ### Non-vacuity -/

/-- A concrete run meeting the hypotheses: threshold 8, three values, sticky failure from the
    third sink call on: the second Write reports it. -/
example :
    (zRun ⟨8, genZngSites⟩ (stickyFrom 2) [.write 4 5, .write 0 9, .write 0 1, .close] {}).1
      = [false, true, true, true] := by decide

end Zed.Props.C18
