package main

import (
	"fmt"
	"go/ast"
	"go/token"
	"strings"
)

// C20 fact set:
//
//   mergeKindTable    the pairs of type kinds `agg.merge` treats structurally, read off the nest
//                     of `if a, ok := aUnder.(*zed.TypeX); ok { if b, ok := bUnder.(*zed.TypeY); ok {
//                     return zctx.LookupTypeZ(…) } }` statements, as (X, Y, constructor)
//   fuserTransforms   the transform flags the Fuser hands to expr.NewConstShaper
//   shaperFlagOrder   the iota block of ShaperTransform
//   spillCondition    the condition under which Fuser.stash starts spilling
//   idNull, kinds     zed.IDNull and the Kind iota block

func init() { register("C20", genC20) }

func typeAssertOf(init ast.Stmt) (lhs, operand, typ string, ok bool) {
	as, isAs := init.(*ast.AssignStmt)
	if !isAs || len(as.Lhs) != 2 || len(as.Rhs) != 1 {
		return "", "", "", false
	}
	ta, isTa := as.Rhs[0].(*ast.TypeAssertExpr)
	if !isTa {
		return "", "", "", false
	}
	l, ok1 := identName(as.Lhs[0])
	x, ok2 := identName(ta.X)
	st, ok3 := ta.Type.(*ast.StarExpr)
	if !ok1 || !ok2 || !ok3 {
		return "", "", "", false
	}
	t, ok4 := selName(st.X)
	if !ok4 {
		return "", "", "", false
	}
	return l, x, strings.TrimPrefix(t, "zed.Type"), true
}

func genC20(repo string) (string, error) {
	var b strings.Builder
	sf, err := parseFile(repo, "runtime/sam/expr/agg/schema.go")
	if err != nil {
		return "", err
	}
	fd, err := sf.funcDecl("", "merge")
	if err != nil {
		return "", err
	}
	var rows []string
	sawUnionA, sawUnionB := false, false
	for _, st := range fd.Body.List {
		ifs, ok := st.(*ast.IfStmt)
		if !ok || ifs.Init == nil {
			continue
		}
		_, operand, ta, ok := typeAssertOf(ifs.Init)
		if !ok {
			continue
		}
		if operand == "bUnder" && ta == "Union" {
			sawUnionB = true
			continue
		}
		if operand != "aUnder" {
			return "", fmt.Errorf("%s: merge: type switch on %s not recognised", sf.pos(ifs), operand)
		}
		if ta == "Union" {
			sawUnionA = true
			continue
		}
		for _, inner := range ifs.Body.List {
			iifs, ok := inner.(*ast.IfStmt)
			if !ok || iifs.Init == nil {
				return "", fmt.Errorf("%s: merge: statement in the %s branch not recognised", sf.pos(inner), ta)
			}
			_, op2, tb, ok := typeAssertOf(iifs.Init)
			if !ok || op2 != "bUnder" {
				return "", fmt.Errorf("%s: merge: inner type assertion not recognised", sf.pos(iifs))
			}
			// the last statement of the inner body is `return zctx.<Ctor>(…)`
			if len(iifs.Body.List) == 0 {
				return "", fmt.Errorf("%s: merge: empty branch", sf.pos(iifs))
			}
			ret, ok := iifs.Body.List[len(iifs.Body.List)-1].(*ast.ReturnStmt)
			if !ok || len(ret.Results) != 1 {
				return "", fmt.Errorf("%s: merge: branch does not end in a return", sf.pos(iifs))
			}
			call, ok := ret.Results[0].(*ast.CallExpr)
			if !ok {
				return "", fmt.Errorf("%s: merge: return value is not a call", sf.pos(ret))
			}
			fn, ok := selName(call.Fun)
			if !ok || !strings.HasPrefix(fn, "zctx.") {
				return "", fmt.Errorf("%s: merge: constructor not recognised", sf.pos(call))
			}
			rows = append(rows, fmt.Sprintf("(%s, %s, %s)", leanStr(ta), leanStr(tb), leanStr(strings.TrimPrefix(fn, "zctx."))))
		}
	}
	if !sawUnionA || !sawUnionB {
		return "", fmt.Errorf("%s: merge: the union branches were not found", sf.pos(fd))
	}
	fmt.Fprintf(&b, "def mergeKindTable : List (String × String × String) :=\n  [%s]\n", strings.Join(rows, ",\n   "))

	// Fuser: transforms and spill condition
	ff, err := parseFile(repo, "runtime/sam/op/fuse/fuser.go")
	if err != nil {
		return "", err
	}
	var flags []string
	found := false
	ast.Inspect(ff.f, func(n ast.Node) bool {
		if args, ok := n.(*ast.CallExpr); ok {
			if a, ok := callTo(args, "expr.NewConstShaper"); ok && len(a) == 4 {
				found = true
				var walk func(e ast.Expr) bool
				walk = func(e ast.Expr) bool {
					switch e := e.(type) {
					case *ast.BinaryExpr:
						if e.Op != token.OR {
							return false
						}
						return walk(e.X) && walk(e.Y)
					default:
						s, ok := selName(e)
						if !ok {
							return false
						}
						flags = append(flags, strings.TrimPrefix(s, "expr."))
						return true
					}
				}
				if !walk(a[3]) {
					flags = nil
				}
			}
		}
		return true
	})
	if !found || flags == nil {
		return "", fmt.Errorf("runtime/sam/op/fuse/fuser.go: call expr.NewConstShaper(…, flags) not recognised")
	}
	fmt.Fprintf(&b, "def fuserTransforms : List String := %s\n", leanStrList(flags))
	fd, err = ff.funcDecl("Fuser", "stash")
	if err != nil {
		return "", err
	}
	cond := ""
	for _, st := range fd.Body.List {
		if ifs, ok := st.(*ast.IfStmt); ok && ifs.Init == nil {
			cond = renderExpr(ff, ifs.Cond)
			break
		}
	}
	if cond == "" {
		return "", fmt.Errorf("%s: Fuser.stash: spill condition not found", ff.pos(fd))
	}
	fmt.Fprintf(&b, "def spillCondition : String := %s\n", leanStr(cond))

	// ShaperTransform iota block
	shf, err := parseFile(repo, "runtime/sam/expr/shaper.go")
	if err != nil {
		return "", err
	}
	var order []string
	for _, d := range shf.f.Decls {
		gd, ok := d.(*ast.GenDecl)
		if !ok || gd.Tok != token.CONST || len(gd.Specs) == 0 {
			continue
		}
		first := gd.Specs[0].(*ast.ValueSpec)
		if id, ok := first.Type.(*ast.Ident); !ok || id.Name != "ShaperTransform" {
			continue
		}
		for _, s := range gd.Specs {
			for _, n := range s.(*ast.ValueSpec).Names {
				order = append(order, n.Name)
			}
		}
	}
	if len(order) == 0 {
		return "", fmt.Errorf("runtime/sam/expr/shaper.go: ShaperTransform const block not found")
	}
	fmt.Fprintf(&b, "def shaperFlagOrder : List String := %s\n", leanStrList(order))

	// zed.IDNull and Kind
	tf, err := parseFile(repo, "type.go")
	if err != nil {
		return "", err
	}
	idNull := int64(-1)
	var kinds []string
	for _, d := range tf.f.Decls {
		gd, ok := d.(*ast.GenDecl)
		if !ok || gd.Tok != token.CONST {
			continue
		}
		isKind := false
		for i, s := range gd.Specs {
			vs := s.(*ast.ValueSpec)
			if i == 0 {
				if id, ok := vs.Type.(*ast.Ident); ok && id.Name == "Kind" {
					isKind = true
				}
			}
			for j, n := range vs.Names {
				if isKind {
					kinds = append(kinds, n.Name)
				}
				if n.Name == "IDNull" && j < len(vs.Values) {
					if v, ok := intLit(vs.Values[j]); ok {
						idNull = v
					}
				}
			}
		}
	}
	if idNull < 0 || len(kinds) == 0 {
		return "", fmt.Errorf("type.go: IDNull or the Kind block not found")
	}
	fmt.Fprintf(&b, "def idNull : Nat := %d\n", idNull)
	fmt.Fprintf(&b, "def kinds : List String := %s\n", leanStrList(kinds))
	return b.String(), nil
}
