import Zed.Proofs.CompareTypesEq
namespace Zed
open Zed.Ord

theorem cmpFs_refl : (fs : Fields) → cmpFs fs fs = .eq
  | .nil => rfl
  | .cons _ x r => by simp [cmpFs_cons, cmpTy_refl, cmpFs_refl r, Ordering.then]
theorem cmpTs_refl : (ts : Tys) → cmpTs ts ts = .eq
  | .nil => rfl
  | .cons x r => by simp [cmpTs_cons, cmpTy_refl, cmpTs_refl r, Ordering.then]

theorem cmpS_self (u : Ty) (hu : u.isNamed = false) : cmpS u u = .eq := by
  cases u with
  | named => simp [Ty.isNamed] at hu
  | prim i => simp [cmpS_prim]
  | record fs => simp [cmpS_record, cmpFieldNames_eq, cmpNames_refl, cmpFs_refl, Ordering.then]
  | array x => simp [cmpS_array, cmpTy_refl]
  | set x => simp [cmpS_set, cmpTy_refl]
  | error x => simp [cmpS_error, cmpTy_refl]
  | map k v => simp [cmpS_map, cmpTy_refl, Ordering.then]
  | union ts => simp [cmpS_union, cmpTs_refl, Ordering.then]
  | enum s => simp [cmpS_enum, cmpNames_refl, Ordering.then]

/-- on non-named types CompareTypes is its structural branch -/
theorem cmpTy_eq_cmpS (u v : Ty) (hu : u.isNamed = false) (hv : v.isNamed = false) : cmpTy u v = cmpS u v := by
  rw [cmpTy_def, Ty.under_of_not_named hu, Ty.under_of_not_named hv]
  by_cases h : u = v
  · subst h; rw [if_pos rfl, cmpRank_refl, cmpS_self u hu]
  · rw [if_neg h]

theorem cmpS_eq_iff (u v : Ty) (hu : u.isNamed = false) (hv : v.isNamed = false) : cmpS u v = .eq ↔ u = v := by
  rw [← cmpTy_eq_cmpS u v hu hv]; exact cmpTy_eq_iff u v

theorem cmpS_swap (u v : Ty) (hu : u.isNamed = false) (hv : v.isNamed = false) :
    cmpS v u = (cmpS u v).swap := by
  rw [← cmpTy_eq_cmpS u v hu hv, ← cmpTy_eq_cmpS v u hv hu]; exact cmpTy_swap u v

/-- from the structural branch on the underlying types to CompareTypes itself -/
theorem cmpTy_STr_of (a b c : Ty)
    (hK : STr (cmpS a.under b.under) (cmpS b.under c.under) (cmpS a.under c.under)) :
    STr (cmpTy a b) (cmpTy b c) (cmpTy a c) := by
  rw [cmpTy_def a b, cmpTy_def b c, cmpTy_def a c]
  have hn : ∀ k, k ∈ [a.under, b.under, c.under] → k.isNamed = false := by
    intro k hk
    simp only [List.mem_cons, List.mem_nil_iff, or_false] at hk
    rcases hk with rfl | rfl | rfl
    · exact Ty.under_not_named a
    · exact Ty.under_not_named b
    · exact Ty.under_not_named c
  exact STr.classified (fun u v => cmpS u v) a.under b.under c.under _ _ _
    (fun k k' hk hk' => cmpS_eq_iff k k' (hn k hk) (hn k' hk'))
    (fun k k' hk hk' => cmpS_swap k k' (hn k hk) (hn k' hk'))
    hK (fun _ _ => cmpRank_STr a b c)

theorem cmpS_by_kind (u v : Ty) (hu : u.isNamed = false) (hv : v.isNamed = false) :
    cmpS u v = if u.kind = v.kind then cmpS u v else compare u.kind v.kind := by
  by_cases h : u.kind = v.kind
  · rw [if_pos h]
  · rw [if_neg h, cmpS_kind u v hu hv h]

/-- the structural branch: different kinds are ordered by kind, equal kinds by `hW` -/
theorem cmpS_STr_of (u v w : Ty) (hu : u.isNamed = false) (hv : v.isNamed = false) (hw : w.isNamed = false)
    (hW : u.kind = v.kind → v.kind = w.kind → STr (cmpS u v) (cmpS v w) (cmpS u w)) :
    STr (cmpS u v) (cmpS v w) (cmpS u w) := by
  rw [cmpS_by_kind u v hu hv, cmpS_by_kind v w hv hw, cmpS_by_kind u w hu hw]
  exact STr.classified (fun (k k' : Nat) => compare k k') u.kind v.kind w.kind _ _ _
    (fun k k' _ _ => Nat.compare_eq_eq) (fun k k' _ _ => compare_nat_swap k k')
    (STr_compare_nat _ _ _) hW

end Zed
namespace Zed
open Zed.Ord

theorem kind_eq_prim {v : Ty} (hv : v.isNamed = false) (h : (0 : Nat) = v.kind) : ∃ j, v = .prim j := by
  cases v <;> simp_all [Ty.isNamed]
theorem kind_eq_record {v : Ty} (hv : v.isNamed = false) (h : (1 : Nat) = v.kind) : ∃ gs, v = .record gs := by
  cases v <;> simp_all [Ty.isNamed]
theorem kind_eq_array {v : Ty} (hv : v.isNamed = false) (h : (2 : Nat) = v.kind) : ∃ y, v = .array y := by
  cases v <;> simp_all [Ty.isNamed]
theorem kind_eq_set {v : Ty} (hv : v.isNamed = false) (h : (3 : Nat) = v.kind) : ∃ y, v = .set y := by
  cases v <;> simp_all [Ty.isNamed]
theorem kind_eq_map {v : Ty} (hv : v.isNamed = false) (h : (4 : Nat) = v.kind) : ∃ k w, v = .map k w := by
  cases v <;> simp_all [Ty.isNamed]
theorem kind_eq_union {v : Ty} (hv : v.isNamed = false) (h : (5 : Nat) = v.kind) : ∃ us, v = .union us := by
  cases v <;> simp_all [Ty.isNamed]
theorem kind_eq_enum {v : Ty} (hv : v.isNamed = false) (h : (6 : Nat) = v.kind) : ∃ s, v = .enum s := by
  cases v <;> simp_all [Ty.isNamed]
theorem kind_eq_error {v : Ty} (hv : v.isNamed = false) (h : (7 : Nat) = v.kind) : ∃ y, v = .error y := by
  cases v <;> simp_all [Ty.isNamed]

mutual
/-- the structural branch is transitive (first argument taken through `under`) -/
theorem cmpSU_STr : (t v w : Ty) → v.isNamed = false → w.isNamed = false →
    STr (cmpS t.under v) (cmpS v w) (cmpS t.under w)
  | .named _ x, v, w, hv, hw => cmpSU_STr x v w hv hw
  | .prim i, v, w, hv, hw => by
    simp only [Ty.under]
    refine cmpS_STr_of _ v w rfl hv hw (fun h1 h2 => ?_)
    obtain ⟨j, rfl⟩ := kind_eq_prim hv (by simpa using h1)
    obtain ⟨k, rfl⟩ := kind_eq_prim hw (by simpa using h2)
    simp only [cmpS_prim]; exact STr_compare_nat _ _ _
  | .record fs, v, w, hv, hw => by
    simp only [Ty.under]
    refine cmpS_STr_of _ v w rfl hv hw (fun h1 h2 => ?_)
    obtain ⟨gs, rfl⟩ := kind_eq_record hv (by simpa using h1)
    obtain ⟨hs, rfl⟩ := kind_eq_record hw (by simpa using h2)
    simp only [cmpS_record]
    refine STr.then (STr_compare_nat _ _ _) (fun e1 e2 => ?_)
    rw [Nat.compare_eq_eq] at e1 e2
    refine STr.then ?_ (fun _ _ => cmpFs_STr fs gs hs e1 e2)
    simp only [cmpFieldNames_eq]
    exact cmpNames_STr _ _ _ (by simp [Fields.names_length, e1]) (by simp [Fields.names_length, e2])
  | .array x, v, w, hv, hw => by
    simp only [Ty.under]
    refine cmpS_STr_of _ v w rfl hv hw (fun h1 h2 => ?_)
    obtain ⟨y, rfl⟩ := kind_eq_array hv (by simpa using h1)
    obtain ⟨z, rfl⟩ := kind_eq_array hw (by simpa using h2)
    simp only [cmpS_array]
    exact cmpTy_STr_of x y z (cmpSU_STr x y.under z.under (Ty.under_not_named y) (Ty.under_not_named z))
  | .set x, v, w, hv, hw => by
    simp only [Ty.under]
    refine cmpS_STr_of _ v w rfl hv hw (fun h1 h2 => ?_)
    obtain ⟨y, rfl⟩ := kind_eq_set hv (by simpa using h1)
    obtain ⟨z, rfl⟩ := kind_eq_set hw (by simpa using h2)
    simp only [cmpS_set]
    exact cmpTy_STr_of x y z (cmpSU_STr x y.under z.under (Ty.under_not_named y) (Ty.under_not_named z))
  | .error x, v, w, hv, hw => by
    simp only [Ty.under]
    refine cmpS_STr_of _ v w rfl hv hw (fun h1 h2 => ?_)
    obtain ⟨y, rfl⟩ := kind_eq_error hv (by simpa using h1)
    obtain ⟨z, rfl⟩ := kind_eq_error hw (by simpa using h2)
    simp only [cmpS_error]
    exact cmpTy_STr_of x y z (cmpSU_STr x y.under z.under (Ty.under_not_named y) (Ty.under_not_named z))
  | .map k x, v, w, hv, hw => by
    simp only [Ty.under]
    refine cmpS_STr_of _ v w rfl hv hw (fun h1 h2 => ?_)
    obtain ⟨k', y, rfl⟩ := kind_eq_map hv (by simpa using h1)
    obtain ⟨k'', z, rfl⟩ := kind_eq_map hw (by simpa using h2)
    simp only [cmpS_map]
    exact STr.then
      (cmpTy_STr_of k k' k'' (cmpSU_STr k k'.under k''.under (Ty.under_not_named k') (Ty.under_not_named k'')))
      (fun _ _ => cmpTy_STr_of x y z (cmpSU_STr x y.under z.under (Ty.under_not_named y) (Ty.under_not_named z)))
  | .union ts, v, w, hv, hw => by
    simp only [Ty.under]
    refine cmpS_STr_of _ v w rfl hv hw (fun h1 h2 => ?_)
    obtain ⟨us, rfl⟩ := kind_eq_union hv (by simpa using h1)
    obtain ⟨ws, rfl⟩ := kind_eq_union hw (by simpa using h2)
    simp only [cmpS_union]
    refine STr.then (STr_compare_nat _ _ _) (fun e1 e2 => ?_)
    rw [Nat.compare_eq_eq] at e1 e2
    exact cmpTs_STr ts us ws e1 e2
  | .enum s, v, w, hv, hw => by
    simp only [Ty.under]
    refine cmpS_STr_of _ v w rfl hv hw (fun h1 h2 => ?_)
    obtain ⟨s', rfl⟩ := kind_eq_enum hv (by simpa using h1)
    obtain ⟨s'', rfl⟩ := kind_eq_enum hw (by simpa using h2)
    simp only [cmpS_enum]
    refine STr.then (STr_compare_nat _ _ _) (fun e1 e2 => ?_)
    rw [Nat.compare_eq_eq] at e1 e2
    exact cmpNames_STr _ _ _ e1 e2
theorem cmpFs_STr : (fs gs hs : Fields) →
    fs.length = gs.length → gs.length = hs.length → STr (cmpFs fs gs) (cmpFs gs hs) (cmpFs fs hs)
  | .nil, .nil, .nil, _, _ => by simp [cmpFs, STr]
  | .nil, .nil, .cons _ _ _, _, h => by simp [Fields.length] at h
  | .nil, .cons _ _ _, _, h, _ => by simp [Fields.length] at h
  | .cons _ _ _, .nil, _, h, _ => by simp [Fields.length] at h
  | .cons _ _ _, .cons _ _ _, .nil, _, h => by simp [Fields.length] at h
  | .cons _ x r, .cons _ y s, .cons _ z t, h1, h2 => by
    simp only [Fields.length, Nat.add_right_cancel_iff] at h1 h2
    simp only [cmpFs_cons]
    exact STr.then
      (cmpTy_STr_of x y z (cmpSU_STr x y.under z.under (Ty.under_not_named y) (Ty.under_not_named z)))
      (fun _ _ => cmpFs_STr r s t h1 h2)
theorem cmpTs_STr : (ts us ws : Tys) →
    ts.length = us.length → us.length = ws.length → STr (cmpTs ts us) (cmpTs us ws) (cmpTs ts ws)
  | .nil, .nil, .nil, _, _ => by simp [cmpTs, STr]
  | .nil, .nil, .cons _ _, _, h => by simp [Tys.length] at h
  | .nil, .cons _ _, _, h, _ => by simp [Tys.length] at h
  | .cons _ _, .nil, _, h, _ => by simp [Tys.length] at h
  | .cons _ _, .cons _ _, .nil, _, h => by simp [Tys.length] at h
  | .cons x r, .cons y s, .cons z t, h1, h2 => by
    simp only [Tys.length, Nat.add_right_cancel_iff] at h1 h2
    simp only [cmpTs_cons]
    exact STr.then
      (cmpTy_STr_of x y z (cmpSU_STr x y.under z.under (Ty.under_not_named y) (Ty.under_not_named z)))
      (fun _ _ => cmpTs_STr r s t h1 h2)
end

/-- `zed.CompareTypes` is transitive on all types -/
theorem cmpTy_STr (a b c : Ty) : STr (cmpTy a b) (cmpTy b c) (cmpTy a c) :=
  cmpTy_STr_of a b c (cmpSU_STr a b.under c.under (Ty.under_not_named b) (Ty.under_not_named c))


end Zed
