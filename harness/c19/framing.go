package main

// framing (T2): event sequences through the real api/queryio.Writer (driven the way
// service.handleQuery drives it) and the client-side decode, against the Lean model
// (serverEncode / clientDecode) through the driver.

import (
	"bytes"
	"context"
	"encoding/json"
	"errors"
	"fmt"
	"io"
	"regexp"
	"strconv"
	"strings"

	zed "github.com/brimdata/super"
	"github.com/brimdata/super/api/queryio"
	"github.com/brimdata/super/zbuf"
	"github.com/brimdata/super/zio"
	"github.com/brimdata/super/zio/zngio"
	"github.com/brimdata/super/zson"

	. "verifharness/hlib"
)

type frameEvent struct {
	Kind  string `json:"kind"` // b e t
	Label string `json:"label,omitempty"`
	Vals  []int  `json:"vals,omitempty"`
}

type frameCase struct {
	Format string       `json:"format"`
	Ctrl   bool         `json:"ctrl"`
	Err    string       `json:"err,omitempty"` // late error after the events ("" = normal end)
	Events []frameEvent `json:"events"`
}

type decoded struct {
	Vals   []int
	Labels []string // nil when the format carries no labels
	Err    string
	Frames []string // zng only: kinds of the frames on the wire (runs of values merged)
}

func genFrameCases(c *Ctx) []frameCase {
	r := c.Rng
	labels := []string{"main", "side", "x"}
	var cases []frameCase
	next := 0
	for i := 0; i < c.N(90, 2000); i++ {
		var evs []frameEvent
		n := r.Intn(7)
		for j := 0; j < n; j++ {
			switch x := r.Intn(10); {
			case x < 6:
				k := r.Intn(4)
				if r.Intn(20) == 0 {
					k = 100 + r.Intn(200)
				}
				var vals []int
				for l := 0; l < k; l++ {
					next++
					vals = append(vals, next)
				}
				evs = append(evs, frameEvent{Kind: "b", Label: labels[r.Intn(len(labels))], Vals: vals})
			case x < 8:
				evs = append(evs, frameEvent{Kind: "e", Label: labels[r.Intn(len(labels))]})
			default:
				evs = append(evs, frameEvent{Kind: "t"})
			}
		}
		// the same run with no error and with a late error, in every format, ctrl on and off:
		// every position of a late error is the end of some generated prefix
		for _, f := range respFormats {
			for _, ctrl := range []bool{true, false} {
				if f == "csv" || f == "json" || f == "zson" {
					if r.Intn(3) != 0 {
						continue
					}
				}
				cases = append(cases, frameCase{Format: f, Ctrl: ctrl, Events: evs})
				cases = append(cases, frameCase{Format: f, Ctrl: ctrl, Err: fmt.Sprintf("late%d", i), Events: evs})
			}
		}
	}
	return cases
}

// realFrames drives the real writer as handleQuery does and decodes as a client would.
func realFrames(fc frameCase) (d decoded, err error) {
	e, panicked := Protect(func() error {
		var buf bytes.Buffer
		w, err := queryio.NewWriter(zio.NopCloser(&buf), fc.Format, nil, fc.Ctrl)
		if err != nil {
			return err
		}
		zctx := zed.NewContext()
		for _, ev := range fc.Events {
			switch ev.Kind {
			case "b":
				if len(ev.Vals) == 0 {
					continue // handleQuery: `len(batch.Values()) == 0 → continue`
				}
				var vals []zed.Value
				for _, n := range ev.Vals {
					v, err := zson.ParseValue(zctx, fmt.Sprintf("{v:%d}", n))
					if err != nil {
						return err
					}
					vals = append(vals, v)
				}
				if err := w.WriteBatch(ev.Label, zbuf.NewArray(vals)); err != nil {
					return err
				}
			case "e":
				if err := w.WhiteChannelEnd(ev.Label); err != nil {
					return err
				}
			case "t":
				if err := w.WriteProgress(zbuf.Progress{}); err != nil {
					return err
				}
			}
		}
		if fc.Err != "" {
			w.WriteError(errors.New(fc.Err))
		} else if err := w.WriteProgress(zbuf.Progress{}); err != nil {
			return err
		}
		if err := w.Close(); err != nil {
			return err
		}
		return clientSide(fc.Format, buf.Bytes(), &d)
	})
	if panicked {
		return d, fmt.Errorf("panic: %s", firstLine(e.Error()))
	}
	return d, e
}

var vRE = regexp.MustCompile(`^\{v:(\d+)\}$`)
var jvRE = regexp.MustCompile(`^\{"v":(\d+)\}$`)
var fvRE = regexp.MustCompile(`^\{v:(\d+)\.\}$`)

func valOf(s string) (int, error) {
	if m := vRE.FindStringSubmatch(s); m != nil {
		return strconv.Atoi(m[1])
	}
	if m := jvRE.FindStringSubmatch(s); m != nil {
		return strconv.Atoi(m[1])
	}
	if m := fvRE.FindStringSubmatch(s); m != nil { // csv reads numbers as float64
		return strconv.Atoi(m[1])
	}
	return 0, fmt.Errorf("unexpected value %s", s)
}

func clientSide(format string, body []byte, d *decoded) error {
	ctx := context.Background()
	switch format {
	case "zng":
		// frame kinds as they are on the wire
		zr := zngio.NewReader(zed.NewContext(), bytes.NewReader(body))
		prev := ""
		for {
			v, ctrl, err := zr.ReadPayload()
			if err != nil {
				zr.Close()
				return err
			}
			if ctrl != nil {
				k := "ctrl"
				for _, name := range []string{"QueryChannelSet", "QueryChannelEnd", "QueryStats", "QueryError"} {
					if strings.Contains(string(ctrl.Bytes), name) {
						k = name
					}
				}
				d.Frames = append(d.Frames, k)
				prev = k
				continue
			}
			if v == nil {
				break
			}
			if prev != "values" {
				d.Frames = append(d.Frames, "values")
				prev = "values"
			}
		}
		zr.Close()
		// the real client
		sc, err := queryio.NewScanner(ctx, io.NopCloser(bytes.NewReader(body)))
		if err != nil {
			return err
		}
		d.Labels = []string{}
		for {
			b, err := sc.Pull(false)
			if err != nil {
				d.Err = err.Error()
				return nil
			}
			if b == nil {
				return nil
			}
			inner, label := zbuf.Unlabel(b)
			for _, v := range inner.Values() {
				n, err := valOf(zson.FormatValue(v))
				if err != nil {
					return err
				}
				d.Vals = append(d.Vals, n)
				d.Labels = append(d.Labels, label)
			}
		}
	case "zjson":
		// line-oriented client: control lines have a string "type"
		d.Labels = []string{}
		ch := ""
		var valueLines bytes.Buffer
		flush := func() error {
			vals, err := decodeBody("zjson", valueLines.Bytes())
			valueLines.Reset()
			if err != nil {
				return err
			}
			for _, s := range vals {
				n, err := valOf(s)
				if err != nil {
					return err
				}
				d.Vals = append(d.Vals, n)
				d.Labels = append(d.Labels, ch)
			}
			return nil
		}
		// the zjson type context runs across the whole stream: decode all value lines with one
		// reader but remember the channel of each line
		var chans []string
		for _, line := range bytes.SplitAfter(body, []byte("\n")) {
			if len(bytes.TrimSpace(line)) == 0 {
				continue
			}
			var probe struct {
				Type  json.RawMessage `json:"type"`
				Value json.RawMessage `json:"value"`
			}
			if json.Unmarshal(line, &probe) == nil && len(probe.Type) > 0 && probe.Type[0] == '"' {
				var name string
				json.Unmarshal(probe.Type, &name)
				var val struct {
					Channel string `json:"channel"`
					Error   string `json:"error"`
				}
				json.Unmarshal(probe.Value, &val)
				switch name {
				case "QueryChannelSet":
					ch = val.Channel
				case "QueryError":
					d.Err = val.Error
				}
				if d.Err != "" {
					break
				}
				continue
			}
			valueLines.Write(line)
			chans = append(chans, ch)
		}
		ch = ""
		if err := flush(); err != nil {
			return err
		}
		if len(chans) != len(d.Vals) {
			return fmt.Errorf("harness: %d zjson value lines, %d values", len(chans), len(d.Vals))
		}
		copy(d.Labels, chans)
		return nil
	default:
		vals, _, _, err := decodeResponse(ctx, format, body)
		if err != nil {
			return err
		}
		for _, s := range vals {
			n, err := valOf(s)
			if err != nil {
				return err
			}
			d.Vals = append(d.Vals, n)
		}
		return nil
	}
}

func frameLine(fc frameCase) string {
	var b strings.Builder
	ctrl := "0"
	if fc.Ctrl {
		ctrl = "1"
	}
	e := "-"
	if fc.Err != "" {
		e = "E" + fc.Err
	}
	fmt.Fprintf(&b, "(C19 rt %s %s %s", fc.Format, ctrl, e)
	for _, ev := range fc.Events {
		switch ev.Kind {
		case "b":
			fmt.Fprintf(&b, " (b L%s", ev.Label)
			for _, n := range ev.Vals {
				fmt.Fprintf(&b, " %d", n)
			}
			b.WriteString(")")
		case "e":
			fmt.Fprintf(&b, " (e L%s)", ev.Label)
		default:
			b.WriteString(" t")
		}
	}
	b.WriteString(")")
	return b.String()
}

var pairRE = regexp.MustCompile(`\(L(\w*) (\d+)\)`)
var frameRE = regexp.MustCompile(`\((v|cs|ce|err)[ )]|\bs\b`)

// parseModelFrames reads "(frames) (pairs) err".
func parseModelFrames(ans string) (d decoded, ok bool) {
	// split the three top-level parts
	depth, start := 0, 0
	var parts []string
	for i, ch := range ans {
		switch ch {
		case '(':
			if depth == 0 {
				start = i
			}
			depth++
		case ')':
			depth--
			if depth == 0 {
				parts = append(parts, ans[start:i+1])
			}
		}
	}
	if len(parts) != 2 {
		return d, false
	}
	rest := strings.TrimSpace(ans[strings.LastIndex(ans, ")")+1:])
	if rest != "-" {
		if !strings.HasPrefix(rest, "E") {
			return d, false
		}
		d.Err = rest[1:]
	}
	d.Labels = []string{}
	for _, m := range pairRE.FindAllStringSubmatch(parts[1], -1) {
		n, _ := strconv.Atoi(m[2])
		d.Vals = append(d.Vals, n)
		d.Labels = append(d.Labels, m[1])
	}
	prev := ""
	for _, m := range frameRE.FindAllStringSubmatch(parts[0], -1) {
		k := map[string]string{"v": "values", "cs": "QueryChannelSet", "ce": "QueryChannelEnd", "err": "QueryError", "": "QueryStats"}[m[1]]
		if k == "values" && prev == "values" {
			continue
		}
		d.Frames = append(d.Frames, k)
		prev = k
	}
	return d, true
}

func runFraming(c *Ctx) { runFrameCases(c, genFrameCases(c)) }

func runFrameCases(c *Ctx, cases []frameCase) {
	m := c.Model()
	lines := make([]string, len(cases))
	for i, fc := range cases {
		lines[i] = frameLine(fc)
	}
	answers := m.Batch(lines)
	for i, fc := range cases {
		c.Eval(lines[i])
		c.Res.ModelCases++
		c.Stat(fmt.Sprintf("framing:%s:ctrl=%v:err=%v", fc.Format, fc.Ctrl, fc.Err != ""))
		fail := func(kind, key, what string) {
			c.Fail(kind, key, fmt.Sprintf("framing %s ctrl=%v err=%q, %d events: %s", fc.Format, fc.Ctrl, fc.Err, len(fc.Events), what), fc)
		}
		md, ok := parseModelFrames(answers[i])
		if !ok {
			fail("correspondence", "C19:model:answer", "unparsable model answer "+clip(answers[i]))
			continue
		}
		rd, err := realFrames(fc)
		if err != nil {
			if strings.HasPrefix(err.Error(), "panic") {
				fail("panic", "C19:framing:panic:"+fc.Format, err.Error())
			} else {
				fail("correspondence", "C19:framing:real-side:"+fc.Format, err.Error())
			}
			continue
		}
		if !sameInts(rd.Vals, md.Vals) {
			fail("correspondence", "C19:framing:values:"+fc.Format, fmt.Sprintf("client decodes %d values, model %d", len(rd.Vals), len(md.Vals)))
			continue
		}
		if rd.Labels != nil && fc.Ctrl && !SameSeq(rd.Labels, md.Labels) {
			fail("correspondence", "C19:framing:labels:"+fc.Format, fmt.Sprintf("client labels %v, model %v", clipList(rd.Labels), clipList(md.Labels)))
			continue
		}
		if rd.Err != md.Err {
			fail("correspondence", "C19:framing:error:"+fc.Format, fmt.Sprintf("client error %q, model %q", rd.Err, md.Err))
			continue
		}
		if fc.Format == "zng" && !SameSeq(rd.Frames, md.Frames) {
			fail("correspondence", "C19:framing:frames:zng", fmt.Sprintf("wire frames %v, model %v", clipList(rd.Frames), clipList(md.Frames)))
			continue
		}
		// the property on the real writer + client: a late error must arrive
		if fc.Err != "" && rd.Err == "" {
			c.Stat(fmt.Sprintf("framing:late-error-dropped:%s:ctrl=%v", fc.Format, fc.Ctrl))
			fail("oracle", fmt.Sprintf("C19:late-error:dropped:%s:ctrl=%v", fc.Format, fc.Ctrl),
				fmt.Sprintf("queryio.Writer.WriteError(%q) leaves no trace in the response: the client decodes %d values and no error", fc.Err, len(rd.Vals)))
		}
	}
}

func sameInts(a, b []int) bool {
	if len(a) != len(b) {
		return false
	}
	for i := range a {
		if a[i] != b[i] {
			return false
		}
	}
	return true
}

func clipList(xs []string) []string {
	if len(xs) > 12 {
		return append(append([]string{}, xs[:12]...), "…")
	}
	return xs
}
