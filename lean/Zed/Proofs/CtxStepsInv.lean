import Zed.Proofs.CtxStepsEquiv
import Zed.Proofs.Context
/-! the invariant of `context_canonical` under every interleaving of atomic steps -/
namespace Zed
open Zcode List Generated.C05
namespace Ctx

/-- what `compileTV` guarantees of the instructions it emits (the decoder's limits) -/
def Instr.sane : Instr → Bool
  | .union n => decide (n ≤ maxUnionTypes)
  | .enum syms => syms.all nameOk && decide (syms.length ≤ maxEnumSymbols)
  | .record names => names.all nameOk && decide (names.length ≤ maxRecordFields)
  | .named n => nameOk n
  | _ => true

theorem Instr.sane_of_ok (i : Instr) (h : Instr.ok i = true) : Instr.sane i = true := by
  cases i <;> simp_all [Instr.ok, Instr.sane]

theorem popN_spec {n : Nat} {st ts rest : List Ty} (h : popN n st = some (ts, rest)) :
    ts.length = n ∧ (∀ t ∈ ts, t ∈ st) ∧ (∀ t ∈ rest, t ∈ st) := by
  unfold popN at h
  split at h
  · rename_i hn
    simp only [Option.some.injEq, Prod.mk.injEq] at h
    obtain ⟨rfl, rfl⟩ := h
    refine ⟨by simp [length_take, Nat.min_eq_left hn], ?_, ?_⟩
    · intro t ht; exact mem_of_mem_take (mem_reverse.mp ht)
    · intro t ht; exact mem_of_mem_drop ht
  · simp at h

def StepGood (c : Ctx) (r : Ctx × Option (List Ty)) : Prop :=
  r.1.Inv ∧ (∀ u, c.has u → r.1.has u) ∧ ∀ st', r.2 = some st' → ∀ t ∈ st', r.1.has t

theorem zip_names {names : List Name} {ts : List Ty} {p : Name × Ty} (h : p ∈ names.zip ts) :
    p.1 ∈ names ∧ p.2 ∈ ts := by
  obtain ⟨n, t⟩ := p
  exact ⟨(of_mem_zip h).1, (of_mem_zip h).2⟩

/-- one instruction keeps the invariant, the types of the context and a stack of types of the context -/
theorem stepI_good (c : Ctx) (hc : c.Inv) (st : List Ty) (hst : ∀ t ∈ st, c.has t) (i : Instr)
    (hs : Instr.sane i = true) : StepGood c (c.stepI st i) := by
  cases i with
  | prim id =>
    simp only [stepI]
    cases hp : primitiveByID? id with
    | none => exact ⟨hc, fun _ h => h, fun _ e => by cases e⟩
    | some t =>
      refine ⟨hc, fun _ h => h, fun st' e => ?_⟩
      cases e
      intro u hu
      simp only [mem_cons] at hu
      rcases hu with rfl | hu
      · exact primitiveByID?_has c id _ hp
      · exact hst u hu
  | array =>
    cases st with
    | nil => exact ⟨hc, fun _ h => h, fun _ e => by cases e⟩
    | cons t st =>
      have sp := lookupArray_spec c hc t (hst t (by simp))
      refine ⟨sp.2.1, sp.2.2.2.1, fun st' e => ?_⟩
      simp only [stepI, Option.some.injEq] at e
      subst e
      intro u hu
      simp only [mem_cons] at hu
      rcases hu with rfl | hu
      · rw [sp.1]; exact sp.2.2.2.2
      · exact sp.2.2.2.1 u (hst u (by simp [hu]))
  | set =>
    cases st with
    | nil => exact ⟨hc, fun _ h => h, fun _ e => by cases e⟩
    | cons t st =>
      have sp := lookupSet_spec c hc t (hst t (by simp))
      refine ⟨sp.2.1, sp.2.2.2.1, fun st' e => ?_⟩
      simp only [stepI, Option.some.injEq] at e
      subst e
      intro u hu
      simp only [mem_cons] at hu
      rcases hu with rfl | hu
      · rw [sp.1]; exact sp.2.2.2.2
      · exact sp.2.2.2.1 u (hst u (by simp [hu]))
  | error =>
    cases st with
    | nil => exact ⟨hc, fun _ h => h, fun _ e => by cases e⟩
    | cons t st =>
      have sp := lookupError_spec c hc t (hst t (by simp))
      refine ⟨sp.2.1, sp.2.2.2.1, fun st' e => ?_⟩
      simp only [stepI, Option.some.injEq] at e
      subst e
      intro u hu
      simp only [mem_cons] at hu
      rcases hu with rfl | hu
      · rw [sp.1]; exact sp.2.2.2.2
      · exact sp.2.2.2.1 u (hst u (by simp [hu]))
  | map =>
    match st with
    | [] => exact ⟨hc, fun _ h => h, fun _ e => by cases e⟩
    | [_] => exact ⟨hc, fun _ h => h, fun _ e => by cases e⟩
    | v :: k :: st =>
      have sp := lookupMap_spec c hc k v (hst k (by simp)) (hst v (by simp))
      refine ⟨sp.2.1, sp.2.2.2.1, fun st' e => ?_⟩
      simp only [stepI, Option.some.injEq] at e
      subst e
      intro u hu
      simp only [mem_cons] at hu
      rcases hu with rfl | hu
      · rw [sp.1]; exact sp.2.2.2.2
      · exact sp.2.2.2.1 u (hst u (by simp [hu]))
  | union n =>
    simp only [stepI]
    cases hp : popN n st with
    | none => exact ⟨hc, fun _ h => h, fun _ e => by cases e⟩
    | some q =>
      obtain ⟨ts, rest⟩ := q
      have ps := popN_spec hp
      simp only [Instr.sane, decide_eq_true_eq] at hs
      have sp := lookupUnion_spec c hc ts (fun t ht => hst t (ps.2.1 t ht)) (by rw [ps.1]; exact hs)
      refine ⟨sp.2.1, sp.2.2.2.1, fun st' e => ?_⟩
      simp only [Option.some.injEq] at e
      subst e
      intro u hu
      simp only [mem_cons] at hu
      rcases hu with rfl | hu
      · rw [sp.1]; exact sp.2.2.2.2
      · exact sp.2.2.2.1 u (hst u (ps.2.2 u hu))
  | enum syms =>
    simp only [Instr.sane, Bool.and_eq_true, decide_eq_true_eq] at hs
    have sp := lookupEnum_spec c hc syms hs.1 hs.2
    refine ⟨sp.2.1, sp.2.2.2.1, fun st' e => ?_⟩
    simp only [stepI, Option.some.injEq] at e
    subst e
    intro u hu
    simp only [mem_cons] at hu
    rcases hu with rfl | hu
    · rw [sp.1]; exact sp.2.2.2.2
    · exact sp.2.2.2.1 u (hst u hu)
  | record names =>
    simp only [stepI]
    cases hp : popN names.length st with
    | none => exact ⟨hc, fun _ h => h, fun _ e => by cases e⟩
    | some q =>
      obtain ⟨ts, rest⟩ := q
      have ps := popN_spec hp
      simp only [Instr.sane, Bool.and_eq_true, decide_eq_true_eq, all_eq_true] at hs
      have g := lookupRecord_good c hc (names.zip ts)
        (fun p hp => ⟨hs.1 _ (zip_names hp).1, hst _ (ps.2.1 _ (zip_names hp).2)⟩)
        (by rw [length_zip, ps.1, Nat.min_self]; exact hs.2)
      simp only
      cases hl : c.lookupRecord (names.zip ts) with
      | mk o c2 =>
        rw [hl] at g
        cases o with
        | none => exact ⟨g.1, g.2.1, fun _ e => by cases e⟩
        | some t =>
          refine ⟨g.1, g.2.1, fun st' e => ?_⟩
          simp only [Option.some.injEq] at e
          subst e
          intro u hu
          simp only [mem_cons] at hu
          rcases hu with rfl | hu
          · exact g.2.2 _ rfl
          · exact g.2.1 u (hst u (ps.2.2 u hu))
  | named n =>
    cases st with
    | nil => exact ⟨hc, fun _ h => h, fun _ e => by cases e⟩
    | cons t st =>
      simp only [Instr.sane] at hs
      have g := lookupNamed_good c hc n t hs (hst t (by simp))
      simp only [stepI]
      cases hl : c.lookupNamed n t with
      | mk o c2 =>
        rw [hl] at g
        cases o with
        | none => exact ⟨g.1, g.2.1, fun _ e => by cases e⟩
        | some nt =>
          refine ⟨g.1, g.2.1, fun st' e => ?_⟩
          simp only [Option.some.injEq] at e
          subst e
          intro u hu
          simp only [mem_cons] at hu
          rcases hu with rfl | hu
          · exact g.2.2 _ rfl
          · exact g.2.1 u (hst u (by simp [hu]))
  | ref n =>
    simp only [stepI]
    cases hl : c.lookupTypeDef n with
    | none => exact ⟨hc, fun _ h => h, fun _ e => by cases e⟩
    | some t =>
      have hin := hc.defs n t hl
      refine ⟨hc, fun _ h => h, fun st' e => ?_⟩
      cases e
      intro u hu
      simp only [mem_cons] at hu
      rcases hu with rfl | hu
      · exact ⟨(hc.wf _ hin.1).1, Or.inl hin.1⟩
      · exact hst u hu

/-- an `ok` instruction gives the same stack in every context -/
theorem stepI_pure (c : Ctx) (hc : c.Inv) (st : List Ty) (hst : ∀ t ∈ st, c.has t) (i : Instr)
    (hi : Instr.ok i = true) : (c.stepI st i).2 = pureStep st i := by
  cases i with
  | prim id =>
    simp only [stepI, pureStep]
    cases primitiveByID? id <;> rfl
  | array =>
    cases st with
    | nil => rfl
    | cons t st => simp only [stepI, pureStep, (lookupArray_spec c hc t (hst t (by simp))).1]
  | set =>
    cases st with
    | nil => rfl
    | cons t st => simp only [stepI, pureStep, (lookupSet_spec c hc t (hst t (by simp))).1]
  | error =>
    cases st with
    | nil => rfl
    | cons t st => simp only [stepI, pureStep, (lookupError_spec c hc t (hst t (by simp))).1]
  | map =>
    match st with
    | [] => rfl
    | [_] => rfl
    | v :: k :: st => simp only [stepI, pureStep, (lookupMap_spec c hc k v (hst k (by simp)) (hst v (by simp))).1]
  | union n =>
    simp only [stepI, pureStep]
    cases hp : popN n st with
    | none => rfl
    | some q =>
      obtain ⟨ts, rest⟩ := q
      have ps := popN_spec hp
      simp only [Instr.ok, decide_eq_true_eq] at hi
      have sp := lookupUnion_spec c hc ts (fun t ht => hst t (ps.2.1 t ht)) (by rw [ps.1]; exact hi)
      simp only [Option.map_some, sp.1]
  | enum syms =>
    simp only [Instr.ok, Bool.and_eq_true, decide_eq_true_eq] at hi
    simp only [stepI, pureStep, (lookupEnum_spec c hc syms hi.1 hi.2).1]
  | record names =>
    simp only [stepI, pureStep]
    cases hp : popN names.length st with
    | none => rfl
    | some q =>
      obtain ⟨ts, rest⟩ := q
      have ps := popN_spec hp
      simp only [Instr.ok, Bool.and_eq_true, decide_eq_true_eq, all_eq_true, Bool.not_eq_true'] at hi
      have hz : (names.zip ts).map (·.1) = names := by
        rw [← unzip_fst, unzip_zip (by rw [ps.1])]
      have sp := lookupRecord_spec c hc (names.zip ts)
        (fun p hp => ⟨hi.1.1 _ (zip_names hp).1, hst _ (ps.2.1 _ (zip_names hp).2)⟩)
        (by rw [length_zip, ps.1, Nat.min_self]; exact hi.1.2) (by rw [hz]; exact hi.2)
      simp only [Option.map_some]
      cases hl : c.lookupRecord (names.zip ts) with
      | mk o c2 =>
        rw [hl] at sp
        simp only at sp
        rw [sp.1]
  | named n =>
    cases st with
    | nil => rfl
    | cons t st =>
      simp only [Instr.ok, Bool.and_eq_true] at hi
      have sp := lookupNamed_spec c hc n t hi.1 hi.2 (hst t (by simp))
      simp only [stepI, pureStep]
      cases hl : c.lookupNamed n t with
      | mk o c2 =>
        rw [hl] at sp
        simp only at sp
        rw [sp.1]
  | ref n => simp [Instr.ok] at hi

theorem runI_good : (is : List Instr) → (c : Ctx) → c.Inv → (st : List Ty) → (∀ t ∈ st, c.has t) →
    (∀ i ∈ is, Instr.sane i = true) → StepGood c (runI is c st)
  | [], c, hc, st, hst, _ => ⟨hc, fun _ h => h, fun st' e => by cases e; exact hst⟩
  | i :: is, c, hc, st, hst, hs => by
    have g := stepI_good c hc st hst i (hs i (by simp))
    simp only [runI]
    cases h : c.stepI st i with
    | mk c1 o =>
      rw [h] at g
      cases o with
      | none => exact ⟨g.1, g.2.1, fun _ e => by cases e⟩
      | some st1 =>
        have g2 := runI_good is c1 g.1 st1 (g.2.2 st1 rfl) (fun j hj => hs j (by simp [hj]))
        exact ⟨g2.1, fun u h => g2.2.1 u (g.2.1 u h), g2.2.2⟩

theorem runI_pure : (is : List Instr) → (c : Ctx) → c.Inv → (st : List Ty) → (∀ t ∈ st, c.has t) →
    (∀ i ∈ is, Instr.ok i = true) → (runI is c st).2 = pureRun is st
  | [], c, _, st, _, _ => rfl
  | i :: is, c, hc, st, hst, hok => by
    have hi := hok i (by simp)
    have g := stepI_good c hc st hst i (Instr.sane_of_ok i hi)
    have p := stepI_pure c hc st hst i hi
    simp only [runI, pureRun]
    cases h : c.stepI st i with
    | mk c1 o =>
      rw [h] at g p
      simp only at p
      rw [← p]
      cases o with
      | none => rfl
      | some st1 => exact runI_pure is c1 g.1 st1 (g.2.2 st1 rfl) (fun j hj => hok j (by simp [hj]))

/-! #### what the compiler emits is within the decoder's limits -/

theorem sane_wrap (p : List Instr × Option Bytes) (i : Instr) (hp : ∀ j ∈ p.1, Instr.sane j = true)
    (hi : Instr.sane i = true) :
    ∀ j ∈ (match p with
      | (is, none) => (is, none)
      | (is, some tv) => (is ++ [i], some tv) : List Instr × Option Bytes).1, Instr.sane j = true := by
  obtain ⟨is, r⟩ := p
  cases r with
  | none => exact hp
  | some tv =>
    intro j hj
    simp only [mem_append, mem_singleton] at hj
    rcases hj with hj | rfl
    · exact hp j hj
    · exact hi

mutual
theorem saneTV : (f : Nat) → (tv : Bytes) → ∀ i ∈ (compileTV f tv).1, Instr.sane i = true
  | 0, tv => by rw [compileTV_zero]; simp
  | f+1, [] => by rw [compileTV_nil]; simp
  | f+1, b :: tv => by
    by_cases h1 : b.toNat = tvNameDef
    · rw [byte_eq_byteOf b _ h1, compileTV_namedef]
      cases hn : decodeName tv with
      | none => simp
      | some p =>
        obtain ⟨name, tv1⟩ := p
        simp only
        exact sane_wrap _ _ (saneTV f tv1) (by simpa [Instr.sane] using decodeName_nameOk hn)
    · by_cases h2 : b.toNat = tvNameRef
      · rw [byte_eq_byteOf b _ h2, compileTV_nameref]
        cases hn : decodeName tv with
        | none => simp
        | some p => obtain ⟨name, tv1⟩ := p; simp [Instr.sane]
      · by_cases h3 : b.toNat = tvRecord
        · rw [byte_eq_byteOf b _ h3, compileTV_record]
          cases hn : decodeLength tv with
          | none => simp
          | some p =>
            obtain ⟨n, tv1⟩ := p
            simp only
            by_cases hmax : n > maxRecordFields
            · rw [if_pos hmax]; simp
            · rw [if_neg hmax]
              have ih := saneF f n tv1
              cases hp : compileFields f n tv1 with
              | mk is r =>
                rw [hp] at ih
                cases r with
                | none => exact ih.1
                | some q =>
                  obtain ⟨names, tv2⟩ := q
                  have hq := ih.2 names tv2 rfl
                  intro j hj
                  simp only [mem_append, mem_singleton] at hj
                  rcases hj with hj | rfl
                  · exact ih.1 j hj
                  · simp only [Instr.sane, Bool.and_eq_true, decide_eq_true_eq]
                    exact ⟨hq.2, by rw [hq.1]; omega⟩
        · by_cases h4 : b.toNat = tvArray
          · rw [byte_eq_byteOf b _ h4, compileTV_array]
            exact sane_wrap _ _ (saneTV f tv) rfl
          · by_cases h5 : b.toNat = tvSet
            · rw [byte_eq_byteOf b _ h5, compileTV_set]
              exact sane_wrap _ _ (saneTV f tv) rfl
            · by_cases h6 : b.toNat = tvMap
              · rw [byte_eq_byteOf b _ h6, compileTV_map]
                have ih := saneTV f tv
                cases hp : compileTV f tv with
                | mk is r =>
                  rw [hp] at ih
                  cases r with
                  | none => exact ih
                  | some tv1 =>
                    simp only
                    have ih2 := saneTV f tv1
                    cases hp2 : compileTV f tv1 with
                    | mk is2 r2 =>
                      rw [hp2] at ih2
                      cases r2 with
                      | none =>
                        intro j hj
                        simp only [mem_append] at hj
                        rcases hj with hj | hj
                        · exact ih j hj
                        · exact ih2 j hj
                      | some tv2 =>
                        intro j hj
                        simp only [mem_append, mem_singleton] at hj
                        rcases hj with (hj | hj) | rfl
                        · exact ih j hj
                        · exact ih2 j hj
                        · rfl
              · by_cases h7 : b.toNat = tvUnion
                · rw [byte_eq_byteOf b _ h7, compileTV_union]
                  cases hn : decodeLength tv with
                  | none => simp
                  | some p =>
                    obtain ⟨n, tv1⟩ := p
                    simp only
                    by_cases hmax : n > maxUnionTypes
                    · rw [if_pos hmax]; simp
                    · rw [if_neg hmax]
                      exact sane_wrap _ _ (saneT f n tv1) (by simp only [Instr.sane, decide_eq_true_eq]; omega)
                · by_cases h8 : b.toNat = tvEnum
                  · rw [byte_eq_byteOf b _ h8, compileTV_enum]
                    cases hn : decodeLength tv with
                    | none => simp
                    | some p =>
                      obtain ⟨n, tv1⟩ := p
                      simp only
                      by_cases hmax : n > maxEnumSymbols
                      · rw [if_pos hmax]; simp
                      · rw [if_neg hmax]
                        cases hs : decodeSyms n tv1 with
                        | none => simp
                        | some q =>
                          obtain ⟨syms, tv2⟩ := q
                          have ho := decodeSyms_ok n tv1 syms tv2 hs
                          intro j hj
                          simp only [mem_singleton] at hj
                          subst hj
                          simp only [Instr.sane, Bool.and_eq_true, decide_eq_true_eq]
                          exact ⟨ho.2, by rw [ho.1]; omega⟩
                  · by_cases h9 : b.toNat = tvError
                    · rw [byte_eq_byteOf b _ h9, compileTV_error]
                      exact sane_wrap _ _ (saneTV f tv) rfl
                    · rw [compileTV_other f b tv h1 h2 h3 h4 h5 h6 h7 h8 h9]
                      cases primitiveByID? b.toNat <;> simp [Instr.sane]
theorem saneF : (f n : Nat) → (tv : Bytes) →
    (∀ i ∈ (compileFields f n tv).1, Instr.sane i = true) ∧
    ∀ names rest, (compileFields f n tv).2 = some (names, rest) → names.length = n ∧ names.all nameOk = true
  | f, 0, tv => by rw [compileFields]; simp
  | 0, n+1, tv => by rw [compileFields]; simp
  | f+1, n+1, tv => by
    rw [compileFields]
    cases hn : decodeName tv with
    | none => simp
    | some p =>
      obtain ⟨name, tv1⟩ := p
      simp only
      have ih := saneTV f tv1
      cases hp : compileTV f tv1 with
      | mk is r =>
        rw [hp] at ih
        cases r with
        | none => exact ⟨ih, fun _ _ e => by cases e⟩
        | some tv2 =>
          simp only
          have ih2 := saneF f n tv2
          cases hp2 : compileFields f n tv2 with
          | mk is2 r2 =>
            rw [hp2] at ih2
            have hall : ∀ j ∈ is ++ is2, Instr.sane j = true := by
              intro j hj
              simp only [mem_append] at hj
              rcases hj with hj | hj
              · exact ih j hj
              · exact ih2.1 j hj
            cases r2 with
            | none => exact ⟨hall, fun _ _ e => by cases e⟩
            | some q =>
              obtain ⟨names, tv3⟩ := q
              have hq := ih2.2 names tv3 rfl
              refine ⟨hall, fun names' rest' e => ?_⟩
              simp only [Option.some.injEq, Prod.mk.injEq] at e
              obtain ⟨rfl, rfl⟩ := e
              simp only [length_cons, hq.1, all_cons, hq.2, Bool.and_true, true_and]
              exact decodeName_nameOk hn
theorem saneT : (f n : Nat) → (tv : Bytes) → ∀ i ∈ (compileTys f n tv).1, Instr.sane i = true
  | f, 0, tv => by rw [compileTys]; simp
  | 0, n+1, tv => by rw [compileTys]; simp
  | f+1, n+1, tv => by
    rw [compileTys]
    have ih := saneTV f tv
    cases hp : compileTV f tv with
    | mk is r =>
      rw [hp] at ih
      cases r with
      | none => exact ih
      | some tv2 =>
        simp only
        have ih2 := saneT f n tv2
        cases hp2 : compileTys f n tv2 with
        | mk is2 r2 =>
          rw [hp2] at ih2
          have hall : ∀ j ∈ is ++ is2, Instr.sane j = true := by
            intro j hj
            simp only [mem_append] at hj
            rcases hj with hj | hj
            · exact ih j hj
            · exact ih2 j hj
          cases r2 <;> exact hall
end

theorem prog_sane (tv : Bytes) : ∀ i ∈ (prog tv).1, Instr.sane i = true := saneTV _ _

/-! #### the type a context-independent program denotes -/

theorem pureRun_append : (a b : List Instr) → (st : List Ty) →
    pureRun (a ++ b) st = match pureRun a st with
      | some st' => pureRun b st'
      | none => none
  | [], b, st => rfl
  | i :: a, b, st => by
    simp only [cons_append, pureRun]
    cases pureStep st i with
    | none => rfl
    | some st1 => exact pureRun_append a b st1

theorem progOk_iff (tv : Bytes) : progOk tv = true ↔ (prog tv).2 = true ∧ ∀ i ∈ (prog tv).1, Instr.ok i = true := by
  simp [progOk, all_eq_true]

/-- for the canonical serialization of a well-formed type the program denotes that type -/
theorem pureDecode_encodeTV (u : Ty) (w : u.wf = true) (hok : progOk (encodeTV u) = true) :
    pureDecode (encodeTV u) = some u := by
  obtain ⟨c', h, _⟩ := decodeC_encodeTV Ctx.empty inv_empty u w []
  rw [append_nil] at h
  unfold decodeC at h
  have sim := simTV ((encodeTV u).length + 1) Ctx.empty (encodeTV u) []
  rw [h] at sim
  have s2 : runI (compileTV ((encodeTV u).length + 1) (encodeTV u)).1 Ctx.empty [] = (c', some [u]) := sim.2
  have pr := runI_pure (prog (encodeTV u)).1 Ctx.empty inv_empty [] (by simp) ((progOk_iff _).mp hok).2
  simp only [prog] at pr
  rw [s2] at pr
  simp only [pureDecode, prog, ← pr]

/-- the last critical section of `LookupByValue` keeps the invariant when the stored type is the
    one the bytes denote (for canonical bytes) -/
theorem storeByValue_inv (c : Ctx) (hc : c.Inv) (tv : Bytes) (t : Ty) (ht : c.has t)
    (hcanon : ∀ u, u.wf = true → encodeTV u = tv → u = t) :
    (c.storeByValue tv t).Inv ∧ ∀ u, c.has u → (c.storeByValue tv t).has u := by
  refine ⟨⟨hc.nodup, hc.wf, ?_, ?_, ?_, hc.defs, ?_, ?_⟩, fun u h => ⟨h.1, h.2⟩⟩
  · intro u hu
    simp only [storeByValue, lookup_cons_bytes]
    by_cases e : encodeTV u = tv
    · rw [if_pos e, hcanon u (hc.wf u hu).1 e]
    · rw [if_neg e]; exact hc.total u hu
  · intro u u' wu' hlk
    simp only [storeByValue, lookup_cons_bytes] at hlk
    by_cases e : encodeTV u' = tv
    · rw [if_pos e] at hlk
      rw [hcanon u' wu' e]; exact (Option.some.inj hlk).symm
    · rw [if_neg e] at hlk; exact hc.sound u u' wu' hlk
  · intro k u hlk
    simp only [storeByValue, lookup_cons_bytes] at hlk
    by_cases e : k = tv
    · rw [if_pos e] at hlk; cases hlk; exact ht
    · rw [if_neg e] at hlk; exact hc.range k u hlk
  · intro u b hlk
    simp only [storeByValue] at hlk
    split at hlk
    · exact hc.tvcanon u b hlk
    · rw [lookup_cons_ty] at hlk
      by_cases e : u = t
      · rw [if_pos e] at hlk; rw [e]; exact (Option.some.inj hlk).symm
      · rw [if_neg e] at hlk; exact hc.tvcanon u b hlk
  · intro k u hlk
    simp only [storeByValue, lookup_cons_bytes] at hlk
    simp only [storeByValue]
    by_cases e : k = tv
    · rw [if_pos e] at hlk; cases hlk
      split
      · assumption
      · simp [lookup_cons_ty]
    · rw [if_neg e] at hlk
      have := hc.tvtotal k u hlk
      split
      · exact this
      · rw [lookup_cons_ty]; by_cases e2 : u = t
        · simp [e2]
        · rw [if_neg e2]; exact this

/-! #### threads -/

/-- what is known of a `LookupByValue(tv)` thread, `tv` context-independent, at any moment of any
    schedule: its stack is the stack of the program run so far in ANY context (`pureRun`), of types of
    the shared context; its result is a type of the context, and for canonical bytes the very type
    they serialize. -/
def DOk (c : Ctx) (d : DThread) : Prop :=
  progOk d.tv = true ∧
  match d.ph with
  | .probe => True
  | .run is st parsed =>
    parsed = true ∧ (∃ pre, pre ++ is = (prog d.tv).1 ∧ pureRun pre [] = some st) ∧ ∀ t ∈ st, c.has t
  | .done r => ∀ t, r = some t → c.has t ∧ ∀ u, u.wf = true → encodeTV u = d.tv → t = u

def TOk (c : Ctx) : Thread → Prop
  | .dec d => DOk c d
  | .cli ops env => EnvOk c env ∧ ∀ op ∈ ops, Op.atomic op = true

theorem TOk_mono (c c' : Ctx) (hm : ∀ u, c.has u → c'.has u) (th : Thread) (h : TOk c th) : TOk c' th := by
  cases th with
  | dec d =>
    obtain ⟨tv, ph⟩ := d
    refine ⟨h.1, ?_⟩
    have h2 := h.2
    cases ph with
    | probe => trivial
    | run is st parsed => exact ⟨h2.1, h2.2.1, fun t ht => hm t (h2.2.2 t ht)⟩
    | done r => exact fun t e => ⟨hm t (h2 t e).1, (h2 t e).2⟩
  | cli ops env => exact ⟨fun r hr t e => hm t (h.1 r hr t e), h.2⟩

theorem stepD_ok (c : Ctx) (hc : c.Inv) (d : DThread) (hd : DOk c d) :
    (c.stepD d).1.Inv ∧ (∀ u, c.has u → (c.stepD d).1.has u) ∧ DOk (c.stepD d).1 (c.stepD d).2 := by
  obtain ⟨tv, ph⟩ := d
  have hok : progOk tv = true := hd.1
  have hd2 := hd.2
  cases ph with
  | probe =>
    simp only [stepD]
    cases hl : c.toType.lookup tv with
    | some t =>
      refine ⟨hc, fun _ h => h, hok, fun t' e => ?_⟩
      cases e
      exact ⟨hc.range _ _ hl, fun u wu e => by
        have e' : encodeTV u = tv := e
        rw [← e'] at hl; exact hc.sound t u wu hl⟩
    | none =>
      exact ⟨hc, fun _ h => h, hok, ((progOk_iff tv).mp hok).1, ⟨[], rfl, rfl⟩, fun _ h => by cases h⟩
  | run is st parsed =>
    obtain ⟨hp, ⟨pre, hpre, hrun⟩, hst⟩ := hd2
    subst hp
    cases is with
    | nil =>
      simp only [stepD, if_true]
      cases st with
      | nil => exact ⟨hc, fun _ h => h, hok, fun _ e => by cases e⟩
      | cons t st =>
        simp only [append_nil] at hpre
        have hpd : pureDecode tv = some t := by simp only [pureDecode, ← hpre, hrun]
        have hcanon : ∀ u, u.wf = true → encodeTV u = tv → u = t := by
          intro u wu e
          have := pureDecode_encodeTV u wu (by rw [e]; exact hok)
          rw [e, hpd] at this
          exact (Option.some.inj this).symm
        have si := storeByValue_inv c hc tv t (hst t (by simp)) hcanon
        refine ⟨si.1, si.2, hok, fun t' e => ?_⟩
        cases e
        exact ⟨si.2 _ (hst _ (by simp)), fun u wu e => (hcanon u wu e).symm⟩
    | cons i is =>
      have hi : Instr.ok i = true := ((progOk_iff tv).mp hok).2 i (by rw [← hpre]; simp)
      have g := stepI_good c hc st hst i (Instr.sane_of_ok i hi)
      have p := stepI_pure c hc st hst i hi
      simp only [stepD]
      cases h : c.stepI st i with
      | mk c1 o =>
        rw [h] at g p
        simp only at p
        cases o with
        | none => exact ⟨g.1, g.2.1, hok, fun _ e => by cases e⟩
        | some st1 =>
          refine ⟨g.1, g.2.1, hok, rfl, ⟨pre ++ [i], by simp [← hpre], ?_⟩, g.2.2 st1 rfl⟩
          rw [pureRun_append, hrun]
          simp only [pureRun, ← p]
  | done r => exact ⟨hc, fun _ h => h, hd⟩

theorem stepT_ok (c : Ctx) (hc : c.Inv) (th : Thread) (h : TOk c th) :
    (c.stepT th).1.Inv ∧ (∀ u, c.has u → (c.stepT th).1.has u) ∧ TOk (c.stepT th).1 (c.stepT th).2 := by
  cases th with
  | dec d => exact stepD_ok c hc d h
  | cli ops env =>
    cases ops with
    | nil => exact ⟨hc, fun _ h => h, h⟩
    | cons op ops =>
      have g := exec_good c hc env h.1 op
      refine ⟨g.1, g.2.1, ?_, fun o ho => h.2 o (by simp [ho])⟩
      intro r hr t e
      simp only [mem_append, mem_singleton] at hr
      rcases hr with hr | rfl
      · exact g.2.1 t (h.1 r hr t e)
      · exact g.2.2 t e

/-- **every schedule keeps the invariant and every thread's knowledge** -/
theorem runSched_ok : (s : List Nat) → (c : Ctx) → (ths : List Thread) → c.Inv → (∀ th ∈ ths, TOk c th) →
    (runSched s c ths).1.Inv ∧ ∀ th ∈ (runSched s c ths).2, TOk (runSched s c ths).1 th
  | [], c, ths, hc, ht => ⟨hc, ht⟩
  | i :: s, c, ths, hc, ht => by
    simp only [runSched]
    cases hi : ths[i]? with
    | none => exact runSched_ok s c ths hc ht
    | some th =>
      have g := stepT_ok c hc th (ht th (mem_of_getElem? hi))
      refine runSched_ok s _ _ g.1 ?_
      intro th' hth'
      rcases mem_or_eq_of_mem_set hth' with h1 | h1
      · exact TOk_mono c _ g.2.1 th' (ht th' h1)
      · rw [h1]; exact g.2.2

end Ctx
end Zed