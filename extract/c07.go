package main

// T1 fact set C07: the op-classification lists of the optimizer
// (compiler/optimizer/{optimizer,op,parallelize,demand}.go).  For every (type) switch the
// optimizer dispatches on, the case lists are emitted as Lean tables and each clause body
// is matched against the statement shapes the Lean model implements; the table carries the
// *name of the shape* (a rule tag).  A new op added to a list, an op moved to another
// clause, or a clause body that no longer has a recognised shape changes the table (or is
// refused), which re-opens the theorems of Props/C07.lean stated over these tables.

import (
	"fmt"
	"go/ast"
	"os"
	"regexp"
	"sort"
	"strings"
)

func init() { register("C07", genC07) }

var c07SwapRE = regexp.MustCompile(`^(\w+), (\w+) = (\w+), (\w+)$`)

var c07CombinerRE = regexp.MustCompile(`dag\.NewBinaryExpr\("([^"]*)", f1\.Expr, f2\.Expr\)`)

type swClause struct {
	types []string // "*dag.Filter" → "Filter"; nil = default
	body  string   // rendered statements joined by " ; "
	node  *ast.CaseClause
}

// typeSwitches returns the type switches of body in source order (outermost first).
func typeSwitches(f *file, body *ast.BlockStmt) [][]swClause {
	var out [][]swClause
	ast.Inspect(body, func(n ast.Node) bool {
		ts, ok := n.(*ast.TypeSwitchStmt)
		if !ok {
			return true
		}
		var cl []swClause
		for _, s := range ts.Body.List {
			cc := s.(*ast.CaseClause)
			c := swClause{node: cc, body: strings.Join(renderStmtsRaw(f, cc.Body), " ; ")}
			for _, t := range cc.List {
				c.types = append(c.types, strings.TrimPrefix(renderExpr(f, t), "*dag."))
			}
			cl = append(cl, c)
		}
		out = append(out, cl)
		return true
	})
	return out
}

func renderStmtsRaw(f *file, stmts []ast.Stmt) []string {
	var out []string
	for _, s := range stmts {
		if _, ok := s.(*ast.EmptyStmt); ok {
			continue
		}
		out = append(out, renderStmt(f, s))
	}
	return out
}

// tagTable renders one switch as a Lean table kind ↦ tag, refusing on unknown shapes.
func tagTable(f *file, fn string, cl []swClause, shapes map[string]string) (rows []string, deflt string, err error) {
	deflt = "none"
	for _, c := range cl {
		tag, ok := shapes[c.body]
		if !ok {
			return nil, "", fmt.Errorf("%s: %s: clause %v has an unrecognised body: `%s`", f.pos(c.node), fn, c.types, c.body)
		}
		if c.types == nil {
			deflt = tag
			continue
		}
		for _, t := range c.types {
			rows = append(rows, fmt.Sprintf("(%s, %s)", leanStr(t), leanStr(tag)))
		}
	}
	return rows, deflt, nil
}

func emitTable(b *strings.Builder, name string, rows []string, deflt string) {
	fmt.Fprintf(b, "def %s : List (String × String) :=\n  [%s]\n", name, strings.Join(rows, ", "))
	fmt.Fprintf(b, "def %sDefault : String := %s\n", name, leanStr(deflt))
}

// wholeBody renders a function body with every type-switch clause body elided, so the
// control skeleton around the tables is pinned too.
func funcSkeleton(f *file, fd *ast.FuncDecl) string {
	return strings.Join(renderStmtsRaw(f, fd.Body.List), " ; ")
}

func genC07(repo string) (string, error) {
	if os.Getenv("EXTRACT_C07_DUMP") != "" {
		c07Dump(repo)
	}
	var b strings.Builder
	fo, err := parseFile(repo, "compiler/optimizer/optimizer.go")
	if err != nil {
		return "", err
	}
	fp, err := parseFile(repo, "compiler/optimizer/op.go")
	if err != nil {
		return "", err
	}
	fpar, err := parseFile(repo, "compiler/optimizer/parallelize.go")
	if err != nil {
		return "", err
	}
	fdem, err := parseFile(repo, "compiler/optimizer/demand.go")
	if err != nil {
		return "", err
	}

	// ---- mergeFilters: the combiner and the loop shape ---------------------------------
	fd, err := fo.funcDecl("", "mergeFilters")
	if err != nil {
		return "", err
	}
	mfBody := funcSkeleton(fo, fd)
	comb := c07CombinerRE.FindStringSubmatch(mfBody)
	if comb == nil {
		return "", fmt.Errorf("%s: mergeFilters: no dag.NewBinaryExpr(\"…\", f1.Expr, f2.Expr)", fo.pos(fd))
	}
	if got := binExprOpRE.ReplaceAllString(mfBody, "dag.NewBinaryExpr(_, "); got != c07MergeFilters {
		return "", fmt.Errorf("%s: mergeFilters body not recognised: `%s`", fo.pos(fd), got)
	}
	fmt.Fprintf(&b, "def mergeFiltersCombiner : String := %s\n", leanStr(comb[1]))
	fmt.Fprintf(&b, "def mergeFiltersOrder : String := %s\n", leanStr("first-then-second"))

	fd, err = fo.funcDecl("", "removePassOps")
	if err != nil {
		return "", err
	}
	if got := funcSkeleton(fo, fd); got != c07RemovePass {
		return "", fmt.Errorf("%s: removePassOps body not recognised: `%s`", fo.pos(fd), got)
	}
	fmt.Fprintf(&b, "def removePassEmptySeq : String := %s\n", leanStr("pass"))

	// ---- walk / walkEntries: which ops are descended into --------------------------------
	for _, w := range []struct{ fn, def string }{{"walk", "walkDescends"}, {"walkEntries", "walkEntriesDescends"}} {
		fd, err = fo.funcDecl("", w.fn)
		if err != nil {
			return "", err
		}
		sws := typeSwitches(fo, fd.Body)
		if len(sws) != 1 {
			return "", fmt.Errorf("%s: %s: expected one type switch", fo.pos(fd), w.fn)
		}
		var kinds []string
		for _, c := range sws[0] {
			if c.types == nil {
				return "", fmt.Errorf("%s: %s: default clause not recognised", fo.pos(c.node), w.fn)
			}
			kinds = append(kinds, c.types...)
		}
		fmt.Fprintf(&b, "def %s : List String := %s\n", w.def, leanStrList(kinds))
	}

	// ---- Optimize: the pass order ------------------------------------------------------------
	fd, err = fo.funcDecl("Optimizer", "Optimize")
	if err != nil {
		return "", err
	}
	var passes []string
	for _, s := range renderStmtsRaw(fo, fd.Body.List) {
		passes = append(passes, s)
	}
	if got := strings.Join(passes, " ; "); got != c07Optimize {
		return "", fmt.Errorf("%s: Optimize pass order not recognised: `%s`", fo.pos(fd), got)
	}
	fmt.Fprintf(&b, "def optimizePasses : List String := %s\n",
		leanStrList([]string{"mergeFilters", "removePassOps", "optimizeParallels", "mergeFilters", "optimizeSourcePaths", "insertDemand", "removePassOps"}))

	// ---- propagateSortKeyOp ----------------------------------------------------------------
	fd, err = fo.funcDecl("Optimizer", "propagateSortKeyOp")
	if err != nil {
		return "", err
	}
	sws := typeSwitches(fo, fd.Body)
	if len(sws) != 1 {
		return "", fmt.Errorf("%s: propagateSortKeyOp: expected one type switch, got %d", fo.pos(fd), len(sws))
	}
	rows, deflt, err := tagTable(fo, "propagateSortKeyOp", sws[0], c07PropagateShapes)
	if err != nil {
		return "", err
	}
	emitTable(&b, "propagateOps", rows, deflt)

	// ---- optimizeSourcePaths: source kinds ---------------------------------------------------
	fd, err = fo.funcDecl("Optimizer", "optimizeSourcePaths")
	if err != nil {
		return "", err
	}
	sws = typeSwitches(fo, fd.Body)
	if len(sws) != 1 {
		return "", fmt.Errorf("%s: optimizeSourcePaths: expected one type switch", fo.pos(fd))
	}
	rows, deflt, err = tagTable(fo, "optimizeSourcePaths", sws[0], c07SourceShapes)
	if err != nil {
		return "", err
	}
	emitTable(&b, "sourceOps", rows, deflt)

	// ---- sortKeysOfSource -----------------------------------------------------------------------
	fd, err = fo.funcDecl("Optimizer", "sortKeysOfSource")
	if err != nil {
		return "", err
	}
	sws = typeSwitches(fo, fd.Body)
	if len(sws) != 1 {
		return "", fmt.Errorf("%s: sortKeysOfSource: expected one type switch", fo.pos(fd))
	}
	rows, deflt, err = tagTable(fo, "sortKeysOfSource", sws[0], c07SourceKeyShapes)
	if err != nil {
		return "", err
	}
	emitTable(&b, "sourceKeyOps", rows, deflt)

	// ---- analyzeSortKeys -----------------------------------------------------------------------
	fd, err = fp.funcDecl("Optimizer", "analyzeSortKeys")
	if err != nil {
		return "", err
	}
	sws = typeSwitches(fp, fd.Body)
	if len(sws) != 2 {
		return "", fmt.Errorf("%s: analyzeSortKeys: expected two type switches, got %d", fp.pos(fd), len(sws))
	}
	rows, deflt, err = tagTable(fp, "analyzeSortKeys(1)", sws[0], c07AnalyzeFirstShapes)
	if err != nil {
		return "", err
	}
	emitTable(&b, "analyzeInputIndependentOps", rows, deflt)
	rows, deflt, err = tagTable(fp, "analyzeSortKeys(2)", sws[1], c07AnalyzeShapes)
	if err != nil {
		return "", err
	}
	emitTable(&b, "analyzeOps", rows, deflt)
	// the statements between the two switches: nil in ⇒ nil out; key := in.Primary()
	var between []string
	for _, s := range fd.Body.List {
		if _, ok := s.(*ast.TypeSwitchStmt); ok {
			continue
		}
		between = append(between, renderStmt(fp, s))
	}
	if got := strings.Join(between, " ; "); got != "if in.IsNil() { return nil, nil } ; key := in.Primary()" {
		return "", fmt.Errorf("%s: analyzeSortKeys: statements around the switches not recognised: `%s`", fp.pos(fd), got)
	}

	// ---- sortKeysOfSort / analyzeCuts / isKeyOfSummarize: pinned bodies -------------------------
	for _, p := range []struct {
		f          *file
		recv, name string
		want       string
	}{
		{fp, "", "sortKeysOfSort", c07SortKeysOfSort},
		{fp, "", "sortKeyOfExpr", c07SortKeyOfExpr},
		{fp, "", "analyzeCuts", c07AnalyzeCuts},
		{fp, "", "isKeyOfSummarize", c07IsKeyOfSummarize},
		{fp, "", "fieldOf", c07FieldOf},
		{fpar, "", "parallelPaths", c07ParallelPaths},
		{fo, "", "matchFilter", c07MatchFilter},
	} {
		fd, err = p.f.funcDecl(p.recv, p.name)
		if err != nil {
			return "", err
		}
		if got := funcSkeleton(p.f, fd); got != p.want {
			return "", fmt.Errorf("%s: %s body not recognised: `%s`", p.f.pos(fd), p.name, got)
		}
	}
	fmt.Fprintf(&b, "def pinnedBodies : List String := %s\n",
		leanStrList([]string{"sortKeysOfSort", "sortKeyOfExpr", "analyzeCuts", "isKeyOfSummarize", "fieldOf", "parallelPaths", "matchFilter"}))
	fmt.Fprintf(&b, "def parallelOps : List String := %s\n", leanStrList([]string{"Scatter", "Fork"}))

	// ---- orderPreservingCall ---------------------------------------------------------------------
	fd, err = fp.funcDecl("", "orderPreservingCall")
	if err != nil {
		return "", err
	}
	sw := firstSwitch(fd.Body, "call.Name")
	if sw == nil {
		return "", fmt.Errorf("%s: orderPreservingCall: no `switch call.Name`", fp.pos(fd))
	}
	var calls []string
	for _, s := range sw.Body.List {
		cc := s.(*ast.CaseClause)
		body := strings.Join(renderStmtsRaw(fp, cc.Body), " ; ")
		var tag string
		switch body {
		case "if len(call.Args) >= 1 && fieldOf(call.Args[0]).Equal(key) { return true }":
			tag = "arg0-is-key"
		case "return true":
			tag = "always"
		default:
			return "", fmt.Errorf("%s: orderPreservingCall: unrecognised clause body `%s`", fp.pos(cc), body)
		}
		if cc.List == nil {
			return "", fmt.Errorf("%s: orderPreservingCall: default clause not recognised", fp.pos(cc))
		}
		for _, c := range cc.List {
			n, ok := strLit(c)
			if !ok {
				return "", fmt.Errorf("%s: orderPreservingCall: non-literal case", fp.pos(c))
			}
			calls = append(calls, fmt.Sprintf("(%s, %s)", leanStr(n), leanStr(tag)))
		}
	}
	fmt.Fprintf(&b, "def orderPreservingCalls : List (String × String) :=\n  [%s]\n", strings.Join(calls, ", "))

	// ---- FieldsOf ---------------------------------------------------------------------------------
	fd, err = fp.funcDecl("", "FieldsOf")
	if err != nil {
		return "", err
	}
	sws = typeSwitches(fp, fd.Body)
	if len(sws) != 1 {
		return "", fmt.Errorf("%s: FieldsOf: expected one type switch", fp.pos(fd))
	}
	rows, deflt, err = tagTable(fp, "FieldsOf", sws[0], c07FieldsOfShapes)
	if err != nil {
		return "", err
	}
	emitTable(&b, "fieldsOfExprs", rows, deflt)

	// ---- concurrentPath ----------------------------------------------------------------------------
	fd, err = fpar.funcDecl("Optimizer", "concurrentPath")
	if err != nil {
		return "", err
	}
	sws = typeSwitches(fpar, fd.Body)
	if len(sws) != 1 {
		return "", fmt.Errorf("%s: concurrentPath: expected one type switch", fpar.pos(fd))
	}
	rows, deflt, err = tagTable(fpar, "concurrentPath", sws[0], c07ConcurrentShapes)
	if err != nil {
		return "", err
	}
	emitTable(&b, "concurrentOps", rows, deflt)

	// ---- liftIntoParPaths ----------------------------------------------------------------------------
	fd, err = fpar.funcDecl("Optimizer", "liftIntoParPaths")
	if err != nil {
		return "", err
	}
	sws = typeSwitches(fpar, fd.Body)
	if len(sws) != 2 {
		return "", fmt.Errorf("%s: liftIntoParPaths: expected two type switches, got %d", fpar.pos(fd), len(sws))
	}
	rows, deflt, err = tagTable(fpar, "liftIntoParPaths(fan-in)", sws[0], c07FanInShapes)
	if err != nil {
		return "", err
	}
	emitTable(&b, "liftFanInOps", rows, deflt)
	rows, deflt, err = tagTable(fpar, "liftIntoParPaths(op)", sws[1], c07LiftShapes)
	if err != nil {
		return "", err
	}
	emitTable(&b, "liftOps", rows, deflt)

	// ---- parallelizeSeqScan: pinned -------------------------------------------------------------------
	fd, err = fpar.funcDecl("Optimizer", "parallelizeSeqScan")
	if err != nil {
		return "", err
	}
	if got := funcSkeleton(fpar, fd); got != c07ParallelizeSeqScan {
		return "", fmt.Errorf("%s: parallelizeSeqScan body not recognised: `%s`", fpar.pos(fd), got)
	}
	fmt.Fprintf(&b, "def parallelizeSeqScanPinned : Bool := true\n")

	// ---- kernel: what a dag.Join hands to join.New (the right-join swap) ----------------------------------
	fk, err := parseFile(repo, "compiler/kernel/op.go")
	if err != nil {
		return "", err
	}
	fd, err = fk.funcDecl("Builder", "compile")
	if err != nil {
		return "", err
	}
	styleSw := firstSwitch(fd.Body, "o.Style")
	if styleSw == nil {
		return "", fmt.Errorf("%s: Builder.compile: no `switch o.Style`", fk.pos(fd))
	}
	var styleRows []string
	var rightSwaps []string
	for _, st := range styleSw.Body.List {
		cc := st.(*ast.CaseClause)
		if cc.List == nil {
			continue // default: unknown kind of join → error
		}
		for _, e := range cc.List {
			name, ok := strLit(e)
			if !ok {
				return "", fmt.Errorf("%s: Builder.compile: non-literal join style", fk.pos(e))
			}
			body := renderStmtsRaw(fk, cc.Body)
			styleRows = append(styleRows, fmt.Sprintf("(%s, %s)", leanStr(name), leanStr(strings.Join(body, " ; "))))
			if name == "right" {
				rightSwaps = body
			}
		}
	}
	for _, sw := range rightSwaps {
		if !c07SwapRE.MatchString(sw) {
			return "", fmt.Errorf("%s: Builder.compile: right-join clause statement not a swap: `%s`", fk.pos(styleSw), sw)
		}
	}
	fmt.Fprintf(&b, "def joinStyles : List (String × String) :=\n  [%s]\n", strings.Join(styleRows, ", "))
	fmt.Fprintf(&b, "def rightJoinSwaps : List String := %s\n", leanStrList(rightSwaps))
	// the call: join.New(b.rctx, anti, inner, leftParent, rightParent, leftKey, rightKey, leftDir, rightDir, lhs, rhs, b.resetters)
	var joinCall string
	ast.Inspect(fd.Body, func(n ast.Node) bool {
		if ce, ok := n.(*ast.CallExpr); ok {
			if name, ok := selName(ce.Fun); ok && name == "join.New" {
				joinCall = renderExpr(fk, ce)
			}
		}
		return true
	})
	if joinCall != "join.New(b.rctx, anti, inner, leftParent, rightParent, leftKey, rightKey, leftDir, rightDir, lhs, rhs, b.resetters)" {
		return "", fmt.Errorf("%s: Builder.compile: join.New call not recognised: `%s`", fk.pos(fd), joinCall)
	}
	fmt.Fprintf(&b, "def joinNewArgs : List String := %s\n", leanStrList([]string{"leftParent", "rightParent", "leftKey", "rightKey", "leftDir", "rightDir"}))

	// ---- demand ------------------------------------------------------------------------------------------
	fd, err = fdem.funcDecl("", "inferDemandSeqOutWith")
	if err != nil {
		return "", err
	}
	sws = typeSwitches(fdem, fd.Body)
	if len(sws) != 1 {
		return "", fmt.Errorf("%s: inferDemandSeqOutWith: expected one type switch", fdem.pos(fd))
	}
	rows, deflt, err = tagTable(fdem, "inferDemandSeqOutWith", sws[0], c07DemandOpShapes)
	if err != nil {
		return "", err
	}
	emitTable(&b, "demandOps", rows, deflt)
	fd, err = fdem.funcDecl("", "inferDemandExprIn")
	if err != nil {
		return "", err
	}
	sws = typeSwitches(fdem, fd.Body)
	if len(sws) < 1 {
		return "", fmt.Errorf("%s: inferDemandExprIn: no type switch", fdem.pos(fd))
	}
	rows, deflt, err = tagTable(fdem, "inferDemandExprIn", sws[0], c07DemandExprShapes)
	if err != nil {
		return "", err
	}
	emitTable(&b, "demandExprs", rows, deflt)
	return b.String(), nil
}

// c07Shapes lists the known shape names (for documentation in the generated file).
func c07ShapeNames(ms ...map[string]string) []string {
	set := map[string]bool{}
	for _, m := range ms {
		for _, v := range m {
			set[v] = true
		}
	}
	var out []string
	for k := range set {
		out = append(out, k)
	}
	sort.Strings(out)
	return out
}
