package main

// Creation-order independence across contexts.
//
// Complex type ids follow creation order.  Anything in the context that orders types by id
// (instead of by structure) stays canonical inside one context but makes structurally equal
// types of two contexts differ (union member order, hence type values and union tags).  The
// checks here create the same structures in contexts with different creation histories.

import (
	"bytes"
	"fmt"
	"net/netip"
	"strings"
	. "verifharness/hlib"

	zed "github.com/brimdata/super"
	"github.com/brimdata/super/zcode"
	"github.com/brimdata/super/zio"
	"github.com/brimdata/super/zio/zngio"
	"github.com/brimdata/super/zson"
)

func specRec(fs ...TField) *TSpec   { return &TSpec{Kind: "record", Fields: fs} }
func specUn(es ...*TSpec) *TSpec     { return &TSpec{Kind: "union", Elems: es} }
func specOf1(k string, e *TSpec) *TSpec { return &TSpec{Kind: k, Elems: []*TSpec{e}} }
func specMap(k, v *TSpec) *TSpec     { return &TSpec{Kind: "map", Elems: []*TSpec{k, v}} }
func specNamed(n string, e *TSpec) *TSpec {
	return &TSpec{Kind: "named", Name: n, Elems: []*TSpec{e}}
}

// complexComponents: complex types of every kind, used as components of the families below.
func complexComponents() []*TSpec {
	i64, str, f64 := Prim(9), Prim(25), Prim(16)
	return []*TSpec{
		specRec(TField{"a", i64}), specRec(TField{"a", str}), specRec(), specRec(TField{"b", i64}, TField{"a", i64}),
		specOf1("array", i64), specOf1("array", str), specOf1("set", i64),
		specMap(str, i64), specMap(i64, str),
		specUn(i64, str), specUn(i64, f64),
		&TSpec{Kind: "enum", Syms: []string{"a", "b"}}, &TSpec{Kind: "enum", Syms: []string{"b"}},
		specOf1("error", str), specOf1("error", specRec(TField{"a", i64})),
		specNamed("x", i64), specNamed("y", specOf1("array", i64)), specNamed("x", specNamed("y", i64)),
		specOf1("array", specOf1("array", i64)),
	}
}

// wrappersOf: every kind of type built over one or two complex components.
func wrappersOf(a, b *TSpec) []*TSpec {
	str, i64 := Prim(25), Prim(9)
	return []*TSpec{
		specMap(str, a), specMap(a, str), specMap(a, b),
		specRec(TField{"f", a}), specRec(TField{"f", a}, TField{"g", b}),
		specOf1("array", a), specOf1("set", a), specOf1("error", a),
		specUn(i64, a), specUn(a, b), specNamed("w", a),
		specMap(str, specMap(str, a)), specOf1("array", specMap(str, a)),
	}
}

// shuffledComplexUniverse: components first, in a seed-shuffled order (this fixes their ids),
// then types over them, shuffled as well.
func shuffledComplexUniverse(c *Ctx) []*TSpec {
	comps := complexComponents()
	c.Rng.Shuffle(len(comps), func(i, j int) { comps[i], comps[j] = comps[j], comps[i] })
	out := append([]*TSpec{}, comps...)
	var ws []*TSpec
	seen := map[string]bool{}
	for k := 0; k < 14; k++ {
		a, b := comps[c.Rng.Intn(len(comps))], comps[c.Rng.Intn(len(comps))]
		for _, w := range wrappersOf(a, b) {
			if d := w.Descr(); !seen[d] {
				seen[d] = true
				ws = append(ws, w)
			}
		}
	}
	c.Rng.Shuffle(len(ws), func(i, j int) { ws[i], ws[j] = ws[j], ws[i] })
	if len(ws) > 110 {
		ws = ws[:110]
	}
	return append(out, ws...)
}

// subSpecs lists every complex sub-structure of t (post-order, t last).
func subSpecs(t *TSpec, out *[]*TSpec) {
	for _, e := range t.Elems {
		subSpecs(e, out)
	}
	for _, f := range t.Fields {
		subSpecs(f.Type, out)
	}
	if t.Kind != "prim" {
		*out = append(*out, t)
	}
}

// sampleValue builds a non-null value body of typ (containers empty, numbers zero).
func sampleValue(typ zed.Type) zcode.Bytes {
	switch t := typ.(type) {
	case *zed.TypeNamed:
		return sampleValue(t.Type)
	case *zed.TypeRecord:
		var b zcode.Builder
		for _, f := range t.Fields {
			b.Append(sampleValue(f.Type))
		}
		if b.Bytes() == nil {
			return zcode.Bytes{}
		}
		return b.Bytes()
	case *zed.TypeArray, *zed.TypeSet, *zed.TypeMap:
		return zcode.Bytes{}
	case *zed.TypeUnion:
		var b zcode.Builder
		b.Append(zed.EncodeInt(0))
		b.Append(sampleValue(t.Types[0]))
		return b.Bytes()
	case *zed.TypeEnum:
		if len(t.Symbols) < 2 {
			return nil // null (selector 0 encodes as the empty body)
		}
		return zed.EncodeUint(uint64(len(t.Symbols) - 1))
	case *zed.TypeError:
		return sampleValue(t.Type)
	}
	switch typ.ID() {
	case zed.IDUint8, zed.IDUint16, zed.IDUint32, zed.IDUint64:
		return zed.EncodeUint(1)
	case zed.IDInt8, zed.IDInt16, zed.IDInt32, zed.IDInt64, zed.IDDuration, zed.IDTime:
		return zed.EncodeInt(1)
	case zed.IDFloat16:
		return zed.EncodeFloat16(1)
	case zed.IDFloat32:
		return zed.EncodeFloat32(1)
	case zed.IDFloat64:
		return zed.EncodeFloat64(1)
	case zed.IDBool:
		return zed.EncodeBool(true)
	case zed.IDBytes:
		return zed.EncodeBytes([]byte{1})
	case zed.IDString:
		return zed.EncodeString("s")
	case zed.IDIP:
		return zed.EncodeIP(netip.MustParseAddr("1.2.3.4"))
	case zed.IDNet:
		return zed.EncodeNet(netip.MustParsePrefix("1.2.3.0/24"))
	case zed.IDType:
		return zed.EncodeTypeValue(zed.TypeInt64)
	}
	return nil // null
}

type crossCase struct {
	Check   string   `json:"check"`
	Members []*TSpec `json:"members"`
	OrderA  []int    `json:"order_a"` // creation order of the sub-structures in context A
	OrderB  []int    `json:"order_b"`
}

func genCrossCase(c *Ctx, it int) *crossCase {
	r := c.Rng
	comps := complexComponents()
	g := &TypeGen{Rng: r, Names: []string{"a", "b", "ab"}}
	pick := func() *TSpec {
		if r.Intn(4) == 0 {
			return g.Gen(1 + r.Intn(2))
		}
		return comps[r.Intn(len(comps))]
	}
	var members []*TSpec
	seen := map[string]bool{}
	add := func(s *TSpec) {
		if d := s.Descr(); !seen[d] {
			seen[d] = true
			members = append(members, s)
		}
	}
	str := Prim(25)
	switch it % 4 {
	case 0:
		// maps with one key type and different complex value types
		for k, n := 0, 2+r.Intn(3); k < n; k++ {
			add(specMap(str, pick()))
		}
	case 1:
		// one wrapper kind over different complex components
		kind := []string{"array", "set", "error"}[r.Intn(3)]
		for k, n := 0, 2+r.Intn(3); k < n; k++ {
			add(specOf1(kind, pick()))
		}
		add(specRec(TField{"f", pick()}))
		add(specRec(TField{"f", pick()}))
	case 2:
		// nested
		for k, n := 0, 2+r.Intn(2); k < n; k++ {
			add(specMap(str, specMap(str, pick())))
			add(specOf1("array", specMap(str, pick())))
		}
	default:
		for k, n := 0, 2+r.Intn(4); k < n; k++ {
			ws := wrappersOf(pick(), pick())
			add(ws[r.Intn(len(ws))])
		}
	}
	if r.Intn(2) == 0 {
		add(Prim(9))
	}
	var subs []*TSpec
	for _, m := range members {
		subSpecs(m, &subs)
	}
	cc := &crossCase{Check: "crossctx", Members: members, OrderA: r.Perm(len(subs))}
	if it%2 == 0 {
		for i := len(cc.OrderA) - 1; i >= 0; i-- {
			cc.OrderB = append(cc.OrderB, cc.OrderA[i])
		}
	} else {
		cc.OrderB = r.Perm(len(subs))
	}
	return cc
}

// buildIn creates the sub-structures in the given order (fixing their ids), then the union.
func (cc *crossCase) buildIn(order []int) (*zed.Context, *zed.TypeUnion, []zed.Type, error) {
	zc := zed.NewContext()
	var subs []*TSpec
	for _, m := range cc.Members {
		subSpecs(m, &subs)
	}
	for _, i := range order {
		if i < len(subs) {
			if _, err := subs[i].Build(zc); err != nil {
				return nil, nil, nil, err
			}
		}
	}
	var ms []zed.Type
	for _, m := range cc.Members {
		t, err := m.Build(zc)
		if err != nil {
			return nil, nil, nil, err
		}
		ms = append(ms, t)
	}
	u := zc.LookupTypeUnion(append([]zed.Type(nil), ms...))
	return zc, u, ms, nil
}

func memberKinds(ms []*TSpec) string {
	var ks []string
	for _, m := range ms {
		ks = append(ks, m.Kind)
	}
	return strings.Join(ks, ",")
}

func checkCrossCtx(c *Ctx, cc *crossCase) {
	rp := cc
	key := func(what string) string { return "C05:crossctx:" + what }
	e, _ := Protect(func() error {
		ca, ua, msA, err := cc.buildIn(cc.OrderA)
		if err != nil {
			return nil
		}
		cb, ub, _, err := cc.buildIn(cc.OrderB)
		if err != nil {
			return nil
		}
		c.Eval(fmt.Sprintf("crossctx:%s:%v:%v", DescrType(ua), cc.OrderA, cc.OrderB))
		c.Stat("crossctx:members:" + memberKinds(cc.Members))
		if DescrType(ua) != DescrType(ub) {
			c.Fail("oracle", key("member-order"), fmt.Sprintf("the same members give %s in one context and %s in a context that created the component types in another order", DescrType(ua), DescrType(ub)), rp)
		}
		if !bytes.Equal(zed.EncodeTypeValue(ua), zed.EncodeTypeValue(ub)) {
			c.Fail("oracle", key("typevalue"), fmt.Sprintf("structurally equal unions have type values %x and %x in two contexts", zed.EncodeTypeValue(ua), zed.EncodeTypeValue(ub)), rp)
		}
		// translation of A's union into B is B's union, and back
		tb, err := cb.TranslateType(ua)
		if err != nil || tb != zed.Type(ub) {
			c.Fail("oracle", key("translate"), fmt.Sprintf("TranslateType of %s into the other context gives %s (err %v), the union built there is %s", DescrType(ua), DescrType(tb), err, DescrType(ub)), rp)
		}
		if ta, err := ca.TranslateType(ub); err != nil || ta != zed.Type(ua) {
			c.Fail("oracle", key("translate"), fmt.Sprintf("TranslateType of %s back into the first context gives %s (err %v), the union built there is %s", DescrType(ub), DescrType(ta), err, DescrType(ua)), rp)
		}
		// a value of every member, written as ZNG from A and read into B
		for i, mt := range msA {
			tag := ua.TagOf(mt)
			if tag < 0 {
				c.Fail("oracle", key("tagof"), fmt.Sprintf("member %s is not in the union %s", DescrType(mt), DescrType(ua)), rp)
				continue
			}
			body := sampleValue(mt)
			if body == nil {
				continue
			}
			var vb zcode.Builder
			zed.BuildUnion(&vb, tag, body)
			val := zed.NewValue(ua, vb.Bytes().Body())
			want := zson.FormatValue(val)
			var buf bytes.Buffer
			w := zngio.NewWriter(zio.NopCloser(&buf))
			if err := w.Write(val); err != nil {
				return err
			}
			if err := w.Close(); err != nil {
				return err
			}
			rd := zngio.NewReader(cb, bytes.NewReader(buf.Bytes()))
			got, err := rd.Read()
			if err != nil || got == nil {
				rd.Close()
				c.Fail("oracle", key("zng-read"), fmt.Sprintf("reading %s back in the other context: %v", want, err), rp)
				continue
			}
			gotS := zson.FormatValue(*got)
			var gotMember string
			if gu, ok := zed.TypeUnder(got.Type()).(*zed.TypeUnion); ok && !got.IsNull() {
				mt2, _ := gu.Untag(got.Bytes())
				gotMember = DescrType(mt2)
			}
			rd.Close()
			if gotS != want || gotMember != DescrType(mt) {
				c.Fail("oracle", key("zng-union-member"), fmt.Sprintf("union value %s (member %d: %s) written from one context reads as %s (member %s) in a context that created the component types in another order", want, i, DescrType(mt), gotS, gotMember), rp)
			}
		}
		return nil
	})
	if e != nil {
		c.Fail("panic", key("panic"), e.Error(), rp)
	}
}

func runCrossCtx(c *Ctx) {
	for it, n := 0, c.N(250, 4000); it < n; it++ {
		checkCrossCtx(c, genCrossCase(c, it))
	}
}

// ---- Mapper / MapperLookupCache ---------------------------------------------------------------------
//
// A zngio scanner worker keeps one MapperLookupCache and Resets it to the next stream's Mapper at
// every end-of-stream; the next stream binds the local ids anew.  After Reset(m) the cache must
// answer exactly like m, whatever was looked up before (higher ids first, ids the new mapper
// does not bind).

type mapperCase struct {
	Check   string  `json:"check"`
	Streams [][]int `json:"streams"` // per stream: for local id 30+i the index of the type bound to it
	Lookups [][]int `json:"lookups"` // per stream: local ids looked up through the cache, in order
}

func genMapperCase(c *Ctx) *mapperCase {
	r := c.Rng
	mc := &mapperCase{Check: "mapper"}
	for s, n := 0, 2+r.Intn(3); s < n; s++ {
		var binds, looks []int
		for i, m := 0, 1+r.Intn(6); i < m; i++ {
			binds = append(binds, r.Intn(8))
		}
		for i, m := 0, 1+r.Intn(10); i < m; i++ {
			looks = append(looks, zed.IDTypeComplex+r.Intn(8))
		}
		// a high id first
		looks = append([]int{zed.IDTypeComplex + len(binds) - 1}, looks...)
		mc.Streams = append(mc.Streams, binds)
		mc.Lookups = append(mc.Lookups, looks)
	}
	return mc
}

func checkMapper(c *Ctx, mc *mapperCase) {
	c.Eval(fmt.Sprintf("mapper:%v:%v", mc.Streams, mc.Lookups))
	c.Stat(fmt.Sprintf("mapper:streams:%d", len(mc.Streams)))
	e, _ := Protect(func() error {
		out := zed.NewContext()
		comps := complexComponents()
		var pool []zed.Type
		for _, s := range comps[:8] {
			t, err := s.Build(out)
			if err != nil {
				return nil
			}
			pool = append(pool, t)
		}
		var cache zed.MapperLookupCache
		for s, binds := range mc.Streams {
			m := zed.NewMapper(out)
			for i, ti := range binds {
				m.EnterType(zed.IDTypeComplex+i, pool[ti%len(pool)])
			}
			cache.Reset(m)
			for _, id := range mc.Lookups[s] {
				got, want := cache.Lookup(id), m.Lookup(id)
				if got != want {
					c.Fail("oracle", "C05:mapper:stale-cache", fmt.Sprintf("stream %d: after Reset the cache maps local id %d to %s, the stream's mapper to %s", s, id, DescrType(got), DescrType(want)), mc)
					return nil
				}
			}
		}
		return nil
	})
	if e != nil {
		c.Fail("panic", "C05:mapper:panic", e.Error(), mc)
	}
}

func runMapper(c *Ctx) {
	for it, n := 0, c.N(200, 3000); it < n; it++ {
		checkMapper(c, genMapperCase(c))
	}
}
