import Zed.Model.LakeDrv
/-! Driver glue for C14: the shared lake-history protocol of `Zed.Model.LakeDrv`. -/
namespace Zed.Drv.C14
def handle : List Zed.Sexp → String := Zed.Lake.Drv.handle
end Zed.Drv.C14
