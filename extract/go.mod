module verifextract

go 1.23
