import Zed.Model.FuseGood
/-!
  Helper lemmas for C20: leaves and well-typedness of value trees.
-/
namespace Zed.Fuse

theorem under_idem (t : Ty) : t.under.under = t.under := by
  fun_induction Ty.under t <;> simp_all [Ty.under]

theorem under_not_named (t : Ty) (n : Name) (u : Ty) : t.under ≠ .named n u := by
  fun_induction Ty.under t <;> simp_all [Ty.under]

theorem fields_congr {t t' : Ty} (h : t.under = t'.under) : t.fields = t'.fields := by
  simp [Ty.fields, h]
theorem members_congr {t t' : Ty} (h : t.under = t'.under) : t.members = t'.members := by
  simp [Ty.members, h]
theorem inner_congr {t t' : Ty} (h : t.under = t'.under) : t.inner? = t'.inner? := by
  simp [Ty.inner?, h]

/-- `leaves` looks at a type only through `TypeUnder`. -/
theorem leaves_under {t t' : Ty} (h : t.under = t'.under) (v : Val) : leaves t v = leaves t' v := by
  cases v with
  | null => simp [leaves]
  | prim id b => simp [leaves]
  | recd vs => simp [leaves, fields_congr h]
  | list vs => simp [leaves, inner_congr h]
  | map vs => simp [leaves, h]
  | union tag x => simp [leaves, members_congr h]

theorem leaves_null (t : Ty) : leaves t .null = [] := by simp [leaves]

theorem mem_pre {e : PEl} {ls : List Leaf} {l : Leaf} :
    l ∈ pre e ls ↔ ∃ l' ∈ ls, l = (e :: l'.1, l'.2) := by
  simp [pre, List.mem_map, eq_comm]

theorem pre_congr {e : PEl} {ls ls' : List Leaf} (h : ∀ l, l ∈ ls ↔ l ∈ ls') :
    ∀ l, l ∈ pre e ls ↔ l ∈ pre e ls' := by
  intro l; simp only [mem_pre]
  constructor
  · rintro ⟨l', h1, h2⟩; exact ⟨l', (h l').1 h1, h2⟩
  · rintro ⟨l', h1, h2⟩; exact ⟨l', (h l').2 h1, h2⟩

/-- a value of a null-typed position is null -/
theorem hasType_nullTy {a : Ty} {v : Val} (ha : a.under = tyNull) (h : hasType v a = true) : v = .null := by
  cases v with
  | null => rfl
  | prim id b =>
    have he : a.isEnum = false := by simp [Ty.isEnum, ha, tyNull]
    have hr : a.isError = false := by simp [Ty.isError, ha, tyNull]
    simp only [hasType, ha, he, hr, tyNull, Bool.and_false, Bool.or_false, Bool.and_eq_true, beq_iff_eq,
      Ty.prim.injEq, bne_iff_ne] at h
    exact absurd h.1.symm h.2
  | recd vs => simp [hasType, Ty.isRecord, ha, tyNull] at h
  | list vs => simp [hasType, Ty.inner?, ha, tyNull] at h
  | map vs => simp [hasType, ha, tyNull] at h
  | union tag x => simp [hasType, Ty.isUnion, ha, tyNull] at h

/-- a primitive-like value (primitive, or opaque enum / error body) has a primitive-like type -/
theorem hasType_prim_isPrim {id : Nat} {b : Bytes} {a : Ty} (h : hasType (.prim id b) a = true) :
    a.isPrim = true := by
  simp only [hasType, Bool.or_eq_true, Bool.and_eq_true, beq_iff_eq] at h
  unfold Ty.isPrim
  rcases h with (h | h) | h
  · rw [h.1]
  · have := h.2; unfold Ty.isEnum at this; cases hu : a.under <;> simp_all
  · have := h.2; unfold Ty.isError at this; cases hu : a.under <;> simp_all

theorem isPrim_excludes {a : Ty} (h : a.isPrim = true) :
    a.isUnion = false ∧ a.inner? = none ∧ a.isRecord = false := by
  unfold Ty.isPrim at h
  unfold Ty.isUnion Ty.inner? Ty.isRecord
  cases hu : a.under <;> simp_all

theorem mem_leavesRec : (fs : Fields) → (vs : Vals) → (l : Leaf) →
    (l ∈ leavesRec fs vs ↔ ∃ i n t, fs.get? i = some (n, t) ∧ l ∈ pre (.fld n) (leaves t (vs.getD i)))
  | .nil, vs, l => by simp [leavesRec, Fields.get?]
  | .cons n t r, .nil, l => by
    simp only [leavesRec, List.not_mem_nil, false_iff]
    rintro ⟨i, n', t', _, h⟩
    simp [Vals.getD, leaves_null, pre] at h
  | .cons n t r, .cons v vr, l => by
    simp only [leavesRec, List.mem_append, mem_leavesRec r vr l]
    constructor
    · rintro (h | ⟨i, n', t', h1, h2⟩)
      · exact ⟨0, n, t, rfl, h⟩
      · exact ⟨i + 1, n', t', h1, h2⟩
    · rintro ⟨i, n', t', h1, h2⟩
      cases i with
      | zero =>
        simp only [Fields.get?, Option.some.injEq, Prod.mk.injEq] at h1
        obtain ⟨rfl, rfl⟩ := h1
        exact Or.inl h2
      | succ i => exact Or.inr ⟨i, n', t', h1, h2⟩

theorem hasTypeRec_getD : {vs : Vals} → {fs : Fields} → (h : hasTypeRec vs fs = true) → {i : Nat} → {n : Name} → {t : Ty} →
    (hi : fs.get? i = some (n, t)) → hasType (vs.getD i) t = true
  | _, .nil, _, _, _, _, hi => by simp [Fields.get?] at hi
  | .nil, .cons _ _ _, h, _, _, _, _ => by simp [hasTypeRec] at h
  | .cons v vr, .cons n' t' r, h, i, n, t, hi => by
    simp only [hasTypeRec, Bool.and_eq_true] at h
    cases i with
    | zero =>
      simp only [Fields.get?, Option.some.injEq, Prod.mk.injEq] at hi
      obtain ⟨_, rfl⟩ := hi
      exact h.1
    | succ i => exact hasTypeRec_getD h.2 hi

theorem get?_lt_length : {fs : Fields} → {i : Nat} → {p : Name × Ty} → (h : fs.get? i = some p) → i < fs.length
  | .nil, _, _, h => by simp [Fields.get?] at h
  | .cons _ _ _, 0, _, _ => by simp [Fields.length]
  | .cons _ _ r, i + 1, _, h => by
    simp only [Fields.length]; have := get?_lt_length (fs := r) h; omega

end Zed.Fuse
