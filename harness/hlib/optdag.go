package hlib

// Rendering of the real compiler's DAG (compiler/ast/dag) in the s-expression syntax of the
// Lean model `Zed.Opt` (lean/Zed/Model/OptDag.lean, lean/Zed/Drv/C07.lean).  Used by the
// C07 structural tie (model `optimize before` == real `after`) and by C04 (push-down
// grammar).  Operators and expressions the model does not look into become opaque atoms
// carrying their JSON.

import (
	"encoding/hex"
	"encoding/json"
	"fmt"
	"sort"
	"strings"

	"github.com/brimdata/super/compiler/ast/dag"
	"github.com/brimdata/super/order"
	"github.com/brimdata/super/pkg/field"
)

func OptHex(s string) string {
	if s == "" {
		return "-"
	}
	return hex.EncodeToString([]byte(s))
}

func optJSON(v any) string {
	b, err := json.Marshal(v)
	if err != nil {
		return "json-error:" + err.Error()
	}
	return string(b)
}

func optPath(p []string) string {
	var sb strings.Builder
	for _, s := range p {
		sb.WriteByte(' ')
		sb.WriteString(OptHex(s))
	}
	return sb.String()
}

// OptExprSexp renders a dag.Expr.
func OptExprSexp(e dag.Expr) string {
	if e == nil {
		return "(nil)"
	}
	switch e := e.(type) {
	case *dag.This:
		return "(this" + optPath(e.Path) + ")"
	case *dag.Literal:
		return "(lit " + OptHex(e.Value) + ")"
	case *dag.BinaryExpr:
		return fmt.Sprintf("(bin %s %s %s)", OptHex(e.Op), OptExprSexp(e.LHS), OptExprSexp(e.RHS))
	case *dag.UnaryExpr:
		return fmt.Sprintf("(un %s %s)", OptHex(e.Op), OptExprSexp(e.Operand))
	case *dag.Call:
		var sb strings.Builder
		sb.WriteString("(call " + OptHex(e.Name))
		for _, a := range e.Args {
			sb.WriteByte(' ')
			sb.WriteString(OptExprSexp(a))
		}
		sb.WriteByte(')')
		return sb.String()
	case *dag.Search:
		return fmt.Sprintf("(search %s %s %s)", OptHex(e.Text), OptHex(e.Value), OptExprSexp(e.Expr))
	case *dag.RegexpMatch:
		return fmt.Sprintf("(rmatch %s %s)", OptHex(e.Pattern), OptExprSexp(e.Expr))
	case *dag.RegexpSearch:
		return fmt.Sprintf("(rsearch %s %s)", OptHex(e.Pattern), OptExprSexp(e.Expr))
	case *dag.Dot:
		return fmt.Sprintf("(dot %s %s)", OptExprSexp(e.LHS), OptHex(e.RHS))
	case *dag.RecordExpr:
		var sb strings.Builder
		sb.WriteString("(rec")
		for _, el := range e.Elems {
			switch el := el.(type) {
			case *dag.Field:
				fmt.Fprintf(&sb, " (f %s %s)", OptHex(el.Name), OptExprSexp(el.Value))
			case *dag.Spread:
				fmt.Fprintf(&sb, " (s %s)", OptExprSexp(el.Expr))
			default:
				return fmt.Sprintf("(x %s %s)", OptHex("RecordExpr?"), OptHex(optJSON(e)))
			}
		}
		sb.WriteByte(')')
		return sb.String()
	case *dag.MapExpr:
		var sb strings.Builder
		sb.WriteString("(map")
		for _, en := range e.Entries {
			sb.WriteByte(' ')
			sb.WriteString(OptExprSexp(en.Key))
			sb.WriteByte(' ')
			sb.WriteString(OptExprSexp(en.Value))
		}
		sb.WriteByte(')')
		return sb.String()
	case *dag.Agg:
		return fmt.Sprintf("(agg %s %s %s)", OptHex(e.Name), OptExprSexp(e.Expr), OptExprSexp(e.Where))
	}
	kind := fmt.Sprintf("%T", e)
	kind = strings.TrimPrefix(kind, "*dag.")
	return fmt.Sprintf("(x %s %s)", OptHex(kind), OptHex(optJSON(e)))
}

func optAssigns(as []dag.Assignment) string {
	var sb strings.Builder
	for _, a := range as {
		fmt.Fprintf(&sb, " (a %s %s)", OptExprSexp(a.LHS), OptExprSexp(a.RHS))
	}
	return sb.String()
}

func optExprs(es []dag.Expr) string {
	var sb strings.Builder
	for _, e := range es {
		sb.WriteByte(' ')
		sb.WriteString(OptExprSexp(e))
	}
	return sb.String()
}

func optOrder(w order.Which) string {
	if w == order.Desc {
		return "desc"
	}
	return "asc"
}

func OptSortKeysSexp(ks order.SortKeys) string {
	var sb strings.Builder
	sb.WriteString("(sk")
	for _, k := range ks {
		fmt.Fprintf(&sb, " (%s%s)", optOrder(k.Order), optPath(k.Key))
	}
	sb.WriteByte(')')
	return sb.String()
}

func optBool(b bool) string {
	if b {
		return "1"
	}
	return "0"
}

// OptDagOpts controls what is left out of the rendering.
type OptDagOpts struct {
	// IgnoreFields leaves SeqScan.Fields out (field-demand inference is compared separately,
	// as a set: the Go code emits the paths in map-iteration order).
	IgnoreFields bool
}

func optFields(fs []field.Path, o OptDagOpts) string {
	if o.IgnoreFields {
		return "(fields)"
	}
	var rows []string
	for _, f := range fs {
		rows = append(rows, "("+strings.TrimPrefix(optPath(f), " ")+")")
	}
	sort.Strings(rows)
	return "(fields" + func() string {
		if len(rows) == 0 {
			return ""
		}
		return " " + strings.Join(rows, " ")
	}() + ")"
}

// OptSeqSexp renders a dag.Seq.
func OptSeqSexp(seq dag.Seq, o OptDagOpts) string {
	var sb strings.Builder
	sb.WriteString("(seq")
	for _, op := range seq {
		sb.WriteByte(' ')
		sb.WriteString(OptOpSexp(op, o))
	}
	sb.WriteByte(')')
	return sb.String()
}

func optPaths(paths []dag.Seq, o OptDagOpts) string {
	var sb strings.Builder
	for _, p := range paths {
		sb.WriteByte(' ')
		sb.WriteString(OptSeqSexp(p, o))
	}
	return sb.String()
}

// OptOpSexp renders one operator.  KeyPruner expressions are left out (they are C16's).
func OptOpSexp(op dag.Op, o OptDagOpts) string {
	switch op := op.(type) {
	case *dag.Filter:
		return "(Filter " + OptExprSexp(op.Expr) + ")"
	case *dag.Pass:
		return "(Pass)"
	case *dag.Head:
		return fmt.Sprintf("(Head %d)", op.Count)
	case *dag.Tail:
		return fmt.Sprintf("(Tail %d)", op.Count)
	case *dag.Cut:
		return "(Cut" + optAssigns(op.Args) + ")"
	case *dag.Drop:
		return "(Drop" + optExprs(op.Args) + ")"
	case *dag.Put:
		return "(Put" + optAssigns(op.Args) + ")"
	case *dag.Rename:
		return "(Rename" + optAssigns(op.Args) + ")"
	case *dag.Yield:
		return "(Yield" + optExprs(op.Exprs) + ")"
	case *dag.Sort:
		var sb strings.Builder
		fmt.Fprintf(&sb, "(Sort %s %s", optBool(op.NullsFirst), optBool(op.Reverse))
		for _, a := range op.Args {
			fmt.Fprintf(&sb, " (k %s %s)", OptExprSexp(a.Key), optOrder(a.Order))
		}
		sb.WriteByte(')')
		return sb.String()
	case *dag.Uniq:
		return "(Uniq " + optBool(op.Cflag) + ")"
	case *dag.Fuse:
		return "(Fuse)"
	case *dag.Summarize:
		if op.Limit < 0 {
			break
		}
		return fmt.Sprintf("(Summarize %d %d %s %s (keys%s) (aggs%s))", op.Limit, op.InputSortDir,
			optBool(op.PartialsIn), optBool(op.PartialsOut), optAssigns(op.Keys), optAssigns(op.Aggs))
	case *dag.Fork:
		return "(Fork" + optPaths(op.Paths, o) + ")"
	case *dag.Scatter:
		return "(Scatter" + optPaths(op.Paths, o) + ")"
	case *dag.Mirror:
		return fmt.Sprintf("(Mirror %s %s)", OptSeqSexp(op.Main, o), OptSeqSexp(op.Mirror, o))
	case *dag.Scope:
		hdr := optJSON(map[string]any{"consts": op.Consts, "funcs": op.Funcs})
		return fmt.Sprintf("(Scope %s %s)", OptHex(hdr), OptSeqSexp(op.Body, o))
	case *dag.Over:
		hdr := optJSON(map[string]any{"defs": op.Defs, "exprs": op.Exprs, "vars": op.Vars})
		return fmt.Sprintf("(Over %s %s %s)", OptHex(hdr), optBool(op.Body != nil), OptSeqSexp(op.Body, o))
	case *dag.Merge:
		return fmt.Sprintf("(Merge %s %s)", OptExprSexp(op.Expr), optOrder(op.Order))
	case *dag.Combine:
		return "(Combine)"
	case *dag.Join:
		return fmt.Sprintf("(Join %s %s %d %s %d %s)", OptHex(op.Style), OptExprSexp(op.LeftKey), int(op.LeftDir),
			OptExprSexp(op.RightKey), int(op.RightDir), OptHex(optJSON(op.Args)))
	case *dag.Output:
		return "(Output " + OptHex(op.Name) + ")"
	case *dag.DefaultScan:
		return fmt.Sprintf("(DefaultScan %s %s)", OptExprSexp(op.Filter), OptSortKeysSexp(op.SortKeys))
	case *dag.FileScan:
		hdr := optJSON(map[string]any{"path": op.Path, "format": op.Format})
		return fmt.Sprintf("(FileScan %s %s %s)", OptHex(hdr), OptExprSexp(op.Filter), OptSortKeysSexp(op.SortKeys))
	case *dag.PoolScan:
		return fmt.Sprintf("(PoolScan %s %s)", op.ID, op.Commit)
	case *dag.Lister:
		return fmt.Sprintf("(Lister %s %s)", op.Pool, op.Commit)
	case *dag.Slicer:
		return "(Slicer)"
	case *dag.SeqScan:
		return fmt.Sprintf("(SeqScan %s %s %s %s)", op.Pool, op.Commit, optFields(op.Fields, o), OptExprSexp(op.Filter))
	}
	kind := strings.TrimPrefix(fmt.Sprintf("%T", op), "*dag.")
	return fmt.Sprintf("(X %s %s)", OptHex(kind), OptHex(optJSON(op)))
}

// OptPoolsSexp renders the pool table the model's optimizer consults.
func OptPoolsSexp(pools map[string]order.SortKeys) string {
	var ids []string
	for id := range pools {
		ids = append(ids, id)
	}
	sort.Strings(ids)
	var sb strings.Builder
	sb.WriteString("(pools")
	for _, id := range ids {
		fmt.Fprintf(&sb, " (%s %s)", id, OptSortKeysSexp(pools[id]))
	}
	sb.WriteByte(')')
	return sb.String()
}

// OptHasKind reports whether the DAG contains an operator of one of the given Go kinds
// anywhere the optimizer's walks descend.
func OptHasKind(seq dag.Seq, kinds ...string) bool {
	want := map[string]bool{}
	for _, k := range kinds {
		want[k] = true
	}
	var rec func(seq dag.Seq) bool
	rec = func(seq dag.Seq) bool {
		for _, op := range seq {
			if want[strings.TrimPrefix(fmt.Sprintf("%T", op), "*dag.")] {
				return true
			}
			switch op := op.(type) {
			case *dag.Fork:
				for _, p := range op.Paths {
					if rec(p) {
						return true
					}
				}
			case *dag.Scatter:
				for _, p := range op.Paths {
					if rec(p) {
						return true
					}
				}
			case *dag.Mirror:
				if rec(op.Main) || rec(op.Mirror) {
					return true
				}
			case *dag.Scope:
				if rec(op.Body) {
					return true
				}
			case *dag.Over:
				if rec(op.Body) {
					return true
				}
			}
		}
		return false
	}
	return rec(seq)
}
