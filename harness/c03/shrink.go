package main

import (
	. "verifharness/hlib"

	zed "github.com/brimdata/super"
)

// shrinkCase: greedy minimisation of a failing case (fewer types, fewer values, smaller
// types).  fails must be deterministic; at most budget calls are made.
func shrinkCase(vc *vcase, fails func(*vcase) bool, budget int) *vcase {
	calls := 0
	try := func(x *vcase) bool {
		if calls >= budget {
			return false
		}
		calls++
		return fails(x)
	}
	cur := vc
	for progress := true; progress && calls < budget; {
		progress = false
		// one type only
		if len(cur.Types) > 1 {
			for i := range cur.Types {
				x := onlyType(cur, i)
				if try(x) {
					cur, progress = x, true
					break
				}
			}
			if progress {
				continue
			}
		}
		// remove chunks of the sequence
		for chunk := (len(cur.Seq) + 1) / 2; chunk >= 1 && !progress; chunk /= 2 {
			for lo := 0; lo < len(cur.Seq); lo += chunk {
				hi := lo + chunk
				if hi > len(cur.Seq) {
					hi = len(cur.Seq)
				}
				x := &vcase{Types: cur.Types, Paths: cur.Paths, Label: cur.Label}
				x.Seq = append(append([]seqItem{}, cur.Seq[:lo]...), cur.Seq[hi:]...)
				if len(x.Seq) < 300 || chunk > 8 {
					if try(x) {
						cur, progress = x, true
						break
					}
				}
			}
			if chunk == 1 {
				break
			}
		}
		if progress {
			continue
		}
		// smaller types
		for i := range cur.Types {
			for _, x := range typeShrinks(cur, i) {
				if try(x) {
					cur, progress = x, true
					break
				}
			}
			if progress {
				break
			}
		}
	}
	return cur
}

func onlyType(vc *vcase, i int) *vcase {
	x := &vcase{Types: []*TSpec{vc.Types[i]}, Paths: vc.Paths, Label: vc.Label}
	for _, it := range vc.Seq {
		if it.T == i {
			x.Seq = append(x.Seq, seqItem{0, it.V})
		}
	}
	return x
}

// mapType replaces type i by nt and every value of it by f(value) (zero or more values).
func mapType(vc *vcase, i int, nt *TSpec, f func(*VVal) []*VVal) *vcase {
	x := &vcase{Paths: vc.Paths, Label: vc.Label}
	x.Types = append([]*TSpec{}, vc.Types...)
	x.Types[i] = nt
	for _, it := range vc.Seq {
		if it.T != i {
			x.Seq = append(x.Seq, it)
			continue
		}
		for _, v := range f(it.V) {
			x.Seq = append(x.Seq, seqItem{i, v})
		}
	}
	// two entries of Types may now be the same type: merge them (the writer keys on the type)
	for a := range x.Types {
		for b := a + 1; b < len(x.Types); b++ {
			if x.Types[a].Descr() == x.Types[b].Descr() {
				for k := range x.Seq {
					if x.Seq[k].T == b {
						x.Seq[k].T = a
					}
				}
			}
		}
	}
	return x
}

func typeShrinks(vc *vcase, i int) []*vcase {
	t := vc.Types[i]
	same := func(v *VVal) []*VVal { return []*VVal{v} }
	var out []*vcase
	switch t.Kind {
	case "named", "error":
		out = append(out, mapType(vc, i, t.Elems[0], same))
	case "record":
		if len(t.Fields) > 1 {
			for j := range t.Fields {
				j := j
				nt := &TSpec{Kind: "record", Fields: []TField{t.Fields[j]}}
				out = append(out, mapType(vc, i, nt, func(v *VVal) []*VVal {
					if v.Null || j >= len(v.Items) {
						return []*VVal{v}
					}
					return []*VVal{VCont(v.Items[j])}
				}))
			}
		}
		for j := range t.Fields {
			j := j
			out = append(out, mapType(vc, i, t.Fields[j].Type, func(v *VVal) []*VVal {
				if v.Null || j >= len(v.Items) {
					return nil
				}
				return []*VVal{v.Items[j]}
			}))
		}
	case "array", "set":
		out = append(out, mapType(vc, i, t.Elems[0], func(v *VVal) []*VVal {
			if v.Null {
				return nil
			}
			return v.Items
		}))
	case "map":
		for j := 0; j < 2; j++ {
			j := j
			out = append(out, mapType(vc, i, t.Elems[j], func(v *VVal) []*VVal {
				var r []*VVal
				for k, it := range v.Items {
					if k%2 == j {
						r = append(r, it)
					}
				}
				return r
			}))
		}
	case "union":
		for j := range t.Elems {
			j := j
			out = append(out, mapType(vc, i, t.Elems[j], func(v *VVal) []*VVal {
				if v.Null || len(v.Items) != 2 || int(zed.DecodeInt(v.Items[0].Prim)) != j {
					return nil
				}
				return []*VVal{v.Items[1]}
			}))
		}
	}
	return out
}
