import Zed.Proofs.Spill
/-! The sort theorems relative to a predicate `P` on the elements: the comparison only has to
    be total and transitive on the elements that satisfy `P`. -/
namespace Zed
open List

section
variable {α : Type} (P : α → Prop) (le : α → α → Bool)

attribute [local instance] boolRelToRel

def leS : {x // P x} → {x // P x} → Bool := fun a b => le a.1 b.1

theorem lift_list (l : List α) (h : ∀ x ∈ l, P x) : ∃ l' : List {x // P x}, l'.map Subtype.val = l :=
  ⟨l.attachWith P h, attachWith_map_subtype_val h⟩

theorem lift_chunks : (chunks : List (List α)) → (∀ c ∈ chunks, ∀ x ∈ c, P x) →
    ∃ chunks' : List (List {x // P x}), chunks'.map (map Subtype.val) = chunks
  | [], _ => ⟨[], rfl⟩
  | c :: cs, h => by
    obtain ⟨c', hc'⟩ := lift_list P c (h c (by simp))
    obtain ⟨cs', hcs'⟩ := lift_chunks cs (fun d hd => h d (by simp [hd]))
    exact ⟨c' :: cs', by simp [hc', hcs']⟩

theorem mergeSort_val (l' : List {x // P x}) :
    (mergeSort l' (leS P le)).map Subtype.val = mergeSort (l'.map Subtype.val) le :=
  map_mergeSort (fun _ _ _ _ => rfl)

theorem kmerge_val : (runs' : List (List {x // P x})) →
    (kmerge (leS P le) runs').map Subtype.val = kmerge le (runs'.map (map Subtype.val))
  | [] => by simp [kmerge, kmergeF, minRun]
  | r :: rs => by
    rw [kmerge_cons, map_cons, kmerge_cons, ← kmerge_val rs]
    exact map_merge (fun _ _ _ _ => rfl)

variable (transP : ∀ a b c, P a → P b → P c → le a b = true → le b c = true → le a c = true)
  (totalP : ∀ a b, P a → P b → (le a b || le b a) = true)

include transP totalP

theorem spill_on (chunks : List (List α)) (h : ∀ c ∈ chunks, ∀ x ∈ c, P x) :
    kmerge le (chunks.map fun c => mergeSort c le) = mergeSort chunks.flatten le := by
  obtain ⟨chunks', rfl⟩ := lift_chunks P chunks h
  have tr : ∀ a b c : {x // P x}, leS P le a b → leS P le b c → leS P le a c :=
    fun a b c => transP a.1 b.1 c.1 a.2 b.2 c.2
  have to : ∀ a b : {x // P x}, leS P le a b || leS P le b a := fun a b => totalP a.1 b.1 a.2 b.2
  have := kmerge_sorted_chunks (leS P le) tr to chunks'
  have h2 := congrArg (map Subtype.val) this
  rw [kmerge_val, mergeSort_val, map_flatten] at h2
  rw [← h2]
  congr 1
  simp only [map_map]
  apply map_congr_left
  intro c _
  simp only [Function.comp]
  exact (mergeSort_val P le c).symm

theorem sorted_on (l : List α) (h : ∀ x ∈ l, P x) : (mergeSort l le).Pairwise (fun a b => le a b = true) := by
  obtain ⟨l', rfl⟩ := lift_list P l h
  have tr : ∀ a b c : {x // P x}, leS P le a b → leS P le b c → leS P le a c :=
    fun a b c => transP a.1 b.1 c.1 a.2 b.2 c.2
  have to : ∀ a b : {x // P x}, leS P le a b || leS P le b a := fun a b => totalP a.1 b.1 a.2 b.2
  rw [← mergeSort_val]
  exact (pairwise_mergeSort tr to l').map Subtype.val (fun _ _ hab => hab)

/-- stability: a sublist that is already in order keeps its order -/
theorem stable_on (l c : List α) (h : ∀ x ∈ l, P x) (hc : c.Pairwise (fun a b => le a b = true))
    (hs : c <+ l) : c <+ mergeSort l le := by
  obtain ⟨l', rfl⟩ := lift_list P l h
  have tr : ∀ a b c : {x // P x}, leS P le a b → leS P le b c → leS P le a c :=
    fun a b c => transP a.1 b.1 c.1 a.2 b.2 c.2
  have to : ∀ a b : {x // P x}, leS P le a b || leS P le b a := fun a b => totalP a.1 b.1 a.2 b.2
  obtain ⟨c', hc's, rfl⟩ := sublist_map_iff.mp hs
  rw [← mergeSort_val]
  refine Sublist.map _ (sublist_mergeSort tr to ?_ hc's)
  exact pairwise_map.mp hc

end
end Zed
