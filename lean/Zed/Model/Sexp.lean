/-
  S-expression transport for the driver line protocol.  Not used in any theorem:
  the harness writes one operation per line as an s-expression, the driver parses it,
  runs the model's executable definitions and prints one s-expression per line.
  Atoms are runs of non-space, non-paren characters.  Byte strings travel as hex atoms.
-/
namespace Zed

inductive Sexp where
  | atom (s : String)
  | list (xs : List Sexp)
  deriving Inhabited, Repr

namespace Sexp

partial def toStr : Sexp → String
  | atom s => s
  | list xs => "(" ++ " ".intercalate (xs.map toStr) ++ ")"

instance : ToString Sexp := ⟨toStr⟩

/-- Tokenise: parens are their own tokens, whitespace separates atoms. -/
def tokens (s : String) : List String := Id.run do
  let mut out : Array String := #[]
  let mut cur : String := ""
  for c in s.toList do
    if c == '(' || c == ')' then
      if cur != "" then out := out.push cur
      cur := ""
      out := out.push (String.singleton c)
    else if c == ' ' || c == '\t' || c == '\n' || c == '\r' then
      if cur != "" then out := out.push cur
      cur := ""
    else
      cur := cur.push c
  if cur != "" then out := out.push cur
  return out.toList

/-- Parse one s-expression from a token list; returns the rest. -/
partial def parseToks : List String → Option (Sexp × List String)
  | [] => none
  | "(" :: rest =>
    let rec go (acc : Array Sexp) (ts : List String) : Option (Sexp × List String) :=
      match ts with
      | [] => none
      | ")" :: r => some (list acc.toList, r)
      | _ => match parseToks ts with
        | none => none
        | some (e, r) => go (acc.push e) r
    go #[] rest
  | ")" :: _ => none
  | t :: rest => some (atom t, rest)

def parse (s : String) : Option Sexp :=
  match parseToks (tokens s) with
  | some (e, []) => some e
  | _ => none

def hexDigit (n : Nat) : Char :=
  if n < 10 then Char.ofNat (48 + n) else Char.ofNat (87 + n)

def hexOfBytes (bs : List UInt8) : String :=
  if bs.isEmpty then "-" else
  String.ofList (bs.flatMap fun b => [hexDigit (b.toNat / 16), hexDigit (b.toNat % 16)])

def hexVal (c : Char) : Option Nat :=
  if '0' ≤ c ∧ c ≤ '9' then some (c.toNat - 48)
  else if 'a' ≤ c ∧ c ≤ 'f' then some (c.toNat - 87)
  else if 'A' ≤ c ∧ c ≤ 'F' then some (c.toNat - 55)
  else none

def bytesOfHex (s : String) : Option (List UInt8) :=
  if s == "-" then some [] else
  let rec go : List Char → Option (List UInt8)
    | [] => some []
    | [_] => none
    | a :: b :: rest => do
      let x ← hexVal a
      let y ← hexVal b
      let r ← go rest
      pure (UInt8.ofNat (x * 16 + y) :: r)
  go s.toList

end Sexp
end Zed
