import Zed.Model.Sexp
import Zed.Model.Compare
import Zed.Model.MergeOp
import Zed.Model.NullsSites
/-!
  Driver glue for C06.  A value travels as `(<type value hex> <zcode body hex | null>)`.

  `(C06 matrix <nullsMax 0|1> <val>…)`  compareValues over all pairs; rows separated by `/`
  `(C06 cmp <nullsMax> <val> <val>)`
  `(C06 sort <nullsMax> (<desc 0|1>…) (<chunk>…))` with chunk = `((<tag> <key val>…)…)`:
       answers `fast|ref|spill` — tags in the order given by the model of sortStableIndices
       on the whole input, by the plain Comparator sort, and by the k-way merge of the sorted
       chunks
  `(C06 merge <nullsMax> (<desc>…) (<parent>…) (<pull>…))` with parent = `(<chunk>…)` (its batches)
       and pull = `(<parent index>…)` (where each value of one Pull result of the real merge.Op
       came from): answers `ok <tags of pull 1>/<tags of pull 2>/…` when the run is one the model
       of merge.Op allows (value limit of the read path = the regenerated PullerBatchValues), else
       `reject <index of the first Pull that is not allowed>`
  `(C06 sitecmp <file:function> <k> <nullsFirst> <param> <desc> <val> <val>)`  the comparison made by the
       k-th comparator constructed at that site of the regenerated table `comparatorSites`: the flag
       by the site's rule (`NullsRule`), then `Comparator.Compare` on one key with direction `desc`
-/
namespace Zed.Drv.C06
open Zed Zed.Sexp

def valOf : Sexp → Option Val
  | .list [.atom tv, .atom body] => do
    let tvb ← bytesOfHex tv
    let t ← match Ctx.empty.decode tvb with
      | some (t, [], _) => some t
      | _ => none
    let b ← if body = "null" then some none else (bytesOfHex body).map some
    let n := match b with | some bs => bs.length | none => 0
    decodeVal (4 * n + 16) t b
  | _ => none

def ordChar : Ordering → String
  | .lt => "<"
  | .eq => "="
  | .gt => ">"

def rowOf : Sexp → Option Row
  | .list (.atom tag :: keys) => do
    let tag ← tag.toNat?
    let ks ← keys.mapM valOf
    pure { keys := ks, tag := tag }
  | _ => none

def chunkOf : Sexp → Option (List Row)
  | .list rows => rows.mapM rowOf
  | _ => none

/-- `(<tag> <size> <key val>…)` -/
def sizedRowOf : Sexp → Option (Row × Nat)
  | .list (.atom tag :: .atom size :: keys) => do
    let tag ← tag.toNat?
    let size ← size.toNat?
    let ks ← keys.mapM valOf
    pure ({ keys := ks, tag := tag }, size)
  | _ => none

def batchOf : Sexp → Option (List (Row × Nat))
  | .list rows => rows.mapM sizedRowOf
  | _ => none

def tags (rows : List Row) : String := " ".intercalate (rows.map fun r => toString r.tag)

def handle : List Sexp → String
  | .atom "matrix" :: .atom nm :: vs =>
    match vs.mapM valOf with
    | none => "bad-val"
    | some vals =>
      let nm := nm == "1"
      "/".intercalate (vals.map fun a => String.join (vals.map fun b => ordChar (cmpVal nm a b)))
  | [.atom "cmp", .atom nm, a, b] =>
    match valOf a, valOf b with
    | some a, some b => ordChar (cmpVal (nm == "1") a b)
    | _, _ => "bad-val"
  | [.atom "sort", .atom nm, .list dirs, .list chunks] =>
    match chunks.mapM chunkOf with
    | none => "bad-val"
    | some cs =>
      let nm := nm == "1"
      let dirs := dirs.map fun | .atom "1" => true | _ => false
      let all := cs.flatten
      tags (sortRows nm dirs all) ++ "|" ++ tags (sortRowsRef nm dirs all) ++ "|" ++ tags (sortSpill nm dirs cs)
  | [.atom "sortop", .atom nf, .atom rev, .list dirs, .atom limit, .list batches] =>
    match limit.toNat?, batches.mapM batchOf with
    | some limit, some bs =>
      let dirs := dirs.map fun | .atom "1" => true | _ => false
      tags (sortOp (nf == "1") (rev == "1") dirs limit bs)
    | _, _ => "bad-val"
  | [.atom "merge", .atom nm, .list dirs, .list parents, .list pulls] =>
    let parentOf : Sexp → Option (List (List Row)) := fun
      | .list bs => bs.mapM chunkOf
      | _ => none
    let pullOf : Sexp → Option (List Nat) := fun
      | .list is => is.mapM fun | .atom a => a.toNat? | _ => none
      | _ => none
    match parents.mapM parentOf, pulls.mapM pullOf with
    | some ps, some obs =>
      let dirs := dirs.map fun | .atom "1" => true | _ => false
      let le := leRowM (nm == "1") dirs
      match acceptRun le pullerBatchValues ps obs with
      | some outs => "ok " ++ "/".intercalate (outs.map tags)
      | none => s!"reject {rejectAt le pullerBatchValues ps obs 0}"
    | _, _ => "bad-val"
  | [.atom "sitecmp", .atom site, .atom k, .atom nf, .atom p, .atom d, a, b] =>
    match k.toNat?, valOf a, valOf b with
    | some k, some a, some b =>
      match (Generated.C06.comparatorSites.filter (·.1 == site))[k]? with
      | none => "no-site"
      | some s =>
        match NullsRule.ofText s.2.1 s.2.2 with
        | none => "unclassified"
        | some r =>
          let desc := d == "1"
          ordChar (cmpKeys (r.flag (nf == "1") (p == "1") desc) [desc] [a] [b])
    | _, _, _ => "bad-val"
  | _ => "bad-op"

end Zed.Drv.C06
