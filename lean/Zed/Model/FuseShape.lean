import Zed.Model.FuseMerge
/-!
  C20 model, layer 3 — the const shaper with transforms `Cast|Fill|Order`
  (`runtime/sam/expr/shaper.go`: `shaperType`, `shaperFields`, `bestUnionTag`, `newStep`,
  `newRecordStep`, `newArrayOrSetStep`, `step.build`, `buildRecord`, `buildArrayOrSet`,
  `ConstShaper.Eval` with its per-type-id cache) and the `Fuser`
  (`runtime/sam/op/fuse/fuser.go`: buffer, spill past `memMaxBytes`, then shape).

  Outside the model (explicit results, never guessed): primitive casts (`castPrim` builds to
  `unsupported`; a theorem shows which plans contain none) and `zed.NormalizeSet` (set bodies
  keep their input order; the harness compares set bodies as sets).
-/
namespace Zed.Fuse

inductive ShapeErr where
  | maps          -- "cannot yet use maps in shaping functions (issue #2894)"
  | unionCast     -- "cannot cast union … to … due to …"
  | createStep    -- "createStep: incompatible types … and …"
  | dupField      -- LookupTypeRecord: duplicate field
  | castNotImpl   -- "cast to … not implemented" (no primitive caster, e.g. for null)
  deriving DecidableEq, Repr

/-- index of the first member satisfying `p` -/
def Tys.findIdx (p : Ty → Bool) : Tys → Option Nat
  | .nil => none
  | .cons t r => if p t then some 0 else (Tys.findIdx p r).map (· + 1)

/-- `bestUnionTag(in, out)`: the member that is `in` itself, else the one that is `in`'s
    underlying type, else the first one with the same underlying type. -/
def bestUnionTag (inT out : Ty) : Option Nat :=
  match out.under with
  | .union ms =>
    match ms.findIdx (· == inT) with
    | some i => some i
    | none =>
      match ms.findIdx (· == inT.under) with
      | some i => some i
      | none => ms.findIdx fun t => t.under == inT.under
  | _ => none

def sortFieldsByName : List (Name × Ty) → List (Name × Ty)
  | [] => []
  | x :: xs => ins x (sortFieldsByName xs)
where
  ins (x : Name × Ty) : List (Name × Ty) → List (Name × Ty)
    | [] => [x]
    | y :: ys => if cmpName x.1 y.1 = .lt then x :: y :: ys else y :: ins x ys

def hasDupNames : List (Name × Ty) → Bool
  | [] => false
  | x :: xs => xs.any (fun y => y.1 == x.1) || hasDupNames xs

/-- `Context.LookupTypeRecord` -/
def lookupRecord (fs : List (Name × Ty)) : Except ShapeErr Ty :=
  if hasDupNames fs then .error .dupField else .ok (.record (Fields.ofList fs))

/-- The loop of `shaperFields` over the output fields (Cast|Fill|Order: fill, no crop):
    a field present in the input gets `look name outFieldType`, a missing one is filled. -/
def shapeOutFields (look : Name → Ty → Option (Except ShapeErr Ty)) : Fields → Except ShapeErr (List (Name × Ty))
  | .nil => .ok []
  | .cons n t rest =>
    match look n t with
    | some (.error e) => .error e
    | some (.ok t') => (shapeOutFields look rest).map fun r => (n, t') :: r
    | none => (shapeOutFields look rest).map fun r => (n, t) :: r

/-- The head of `shaperType` (Cast): same underlying type or null input → `out`; a map target
    is refused; primitive to primitive is a cast; otherwise `deep`, the kind-specific part. -/
def shaperHead (inT out : Ty) (deep : Except ShapeErr Ty) : Except ShapeErr Ty :=
  if inT.under = out.under || inT.under = tyNull then .ok out
  else if out.isMap then .error .maps
  else if inT.isPrim && out.isPrim then
    -- `LookupPrimitiveCaster` knows neither null nor enum nor error types
    (if out.under = tyNull || out.isEnum || out.isError then .error .castNotImpl else .ok out)
  else deep

/-- array / set input: `bestUnionTag`, then the inner-type branch (`inner oi` is
    `shaperType(inInner, oi)`). -/
def shaperInner (orig out : Ty) (inner : Ty → Except ShapeErr Ty) : Except ShapeErr Ty :=
  if (bestUnionTag orig out.under).isSome then .ok out
  else match out.inner? with
    | some oi =>
      match inner oi with
      | .error e => .error e
      | .ok t =>
        if t = oi then .ok out
        else if out.isArray then .ok (.array t) else .ok (.set t)
    | none => .ok orig

mutual
/-- The kind-specific part of `shaperType(zctx, Cast|Fill|Order, orig, out)`; `cur` walks down
    the names of `orig` to its underlying type; recursion is on the input type. -/
def shaperTypeU (orig : Ty) : Ty → Ty → Except ShapeErr Ty
  | .named _ t, out => shaperTypeU orig t out
  | .union ms, out =>
    if shaperTypeMembers ms out then .ok out else .error .unionCast
  | .record fa, out =>
    if (bestUnionTag orig out.under).isSome then .ok out
    else match out.under with
      | .record fo =>
        match shapeOutFields (fun n t => shaperTypeField fa n t) fo with
        | .error e => .error e
        | .ok fields =>
          -- !crop: input fields unknown to the output are appended in name order
          let extra := sortFieldsByName (fa.toList.filter fun f => (fo.lookup f.1).isNone)
          let fields := fields ++ extra
          if fields = fo.toList then .ok out else lookupRecord fields
      | _ => .ok orig
  | .array i, out => shaperInner orig out fun oi => shaperHead i oi (shaperTypeU i i oi)
  | .set i, out => shaperInner orig out fun oi => shaperHead i oi (shaperTypeU i i oi)
  | .map _ _, out => if (bestUnionTag orig out.under).isSome then .ok out else .ok orig
  | .prim _, out => if (bestUnionTag orig out.under).isSome then .ok out else .ok orig
  | .enum _, out => if (bestUnionTag orig out.under).isSome then .ok out else .ok orig
  | .error _, out => if (bestUnionTag orig out.under).isSome then .ok out else .ok orig
termination_by structural x => x
/-- every member of an input union can be shaped (only errors matter) -/
def shaperTypeMembers : Tys → Ty → Bool
  | .nil, _ => true
  | .cons t r, out =>
    (match shaperHead t out (shaperTypeU t t out) with | .ok _ => true | .error _ => false) && shaperTypeMembers r out
termination_by structural x => x
/-- `in.TypeOfField(name)` then `shaperType(inFieldType, outFieldType)` -/
def shaperTypeField : Fields → Name → Ty → Option (Except ShapeErr Ty)
  | .nil, _, _ => none
  | .cons n t r, name, out =>
    if n = name then some (shaperHead t out (shaperTypeU t t out)) else shaperTypeField r name out
termination_by structural x => x
end

/-- `shaperType(zctx, Cast|Fill|Order, in, out)` -/
def shaperType (inT out : Ty) : Except ShapeErr Ty := shaperHead inT out (shaperTypeU inT inT out)

/-! ### Steps -/

mutual
inductive Step where
  | copy (to : Ty)
  | castPrim (frm to : Ty)
  | fromUnion (to : Ty) (children : Steps)
  | toUnion (tag : Nat) (to : Ty)
  | null (to : Ty)
  | array (to : Ty) (child : Step)
  | set (to : Ty) (child : Step)
  | record (to : Ty) (children : RSteps)
inductive Steps where
  | nil
  | cons (s : Step) (rest : Steps)
/-- children of a record step: `fromIndex` (none for a filled field) and the step -/
inductive RSteps where
  | nil
  | cons (fromIndex : Option Nat) (s : Step) (rest : RSteps)
end

deriving instance DecidableEq for Step, Steps, RSteps
deriving instance Repr for Step, Steps, RSteps

def Step.toType : Step → Ty
  | .copy to => to
  | .castPrim _ to => to
  | .fromUnion to _ => to
  | .toUnion _ to => to
  | .null to => to
  | .array to _ => to
  | .set to _ => to
  | .record to _ => to

def Step.isNull : Step → Bool
  | .null _ => true
  | _ => false

namespace Steps
def get? : Steps → Nat → Option Step
  | .nil, _ => none
  | .cons s _, 0 => some s
  | .cons _ r, i + 1 => get? r i
def length : Steps → Nat
  | .nil => 0
  | .cons _ r => r.length + 1
end Steps

/-- The loop of `newRecordStep` over the output fields. -/
def recordChildren (look : Name → Ty → Option (Except ShapeErr (Nat × Step))) : Fields → Except ShapeErr RSteps
  | .nil => .ok .nil
  | .cons n t rest =>
    match look n t with
    | none => (recordChildren look rest).map fun r => .cons none (.null t) r
    | some (.error e) => .error e
    | some (.ok (i, s)) => (recordChildren look rest).map fun r => .cons (some i) s r

/-- the tail of `newStep`: `bestUnionTag`, else "createStep: incompatible types" -/
def toUnionOrFail (orig out : Ty) : Except ShapeErr Step :=
  match bestUnionTag orig out with
  | some tag => .ok (.toUnion tag out)
  | none => .error .createStep

/-- The head of `newStep`: null input → null step; same id → copy; otherwise `deep`. -/
def newStepHead (inT out : Ty) (deep : Except ShapeErr Step) : Except ShapeErr Step :=
  if inT.under = tyNull then .ok (.null out)
  else if inT.under = out.under then .ok (.copy out)
  else deep

/-- array / set input (`inner oi` is `newStep(inInner, oi)`). -/
def newStepInner (orig out : Ty) (inner : Ty → Except ShapeErr Step) : Except ShapeErr Step :=
  match out.under with
  | .array oi => (inner oi).map fun c => .array out c
  | .set oi => (inner oi).map fun c => .set out c
  | _ => toUnionOrFail orig out

mutual
/-- The kind-specific part of `newStep(zctx, orig, out)`; recursion is on the input type. -/
def newStepU (orig : Ty) : Ty → Ty → Except ShapeErr Step
  | .named _ t, out => newStepU orig t out
  | .record fa, out =>
    match out.under with
    | .record fo => (recordChildren (fun n t => newStepField fa 0 n t) fo).map fun cs => .record out cs
    | _ => toUnionOrFail orig out
  | .prim _, out =>
    if out.isPrim then .ok (.castPrim orig out) else toUnionOrFail orig out
  | .enum _, out =>
    if out.isPrim then .ok (.castPrim orig out) else toUnionOrFail orig out
  | .error _, out =>
    if out.isPrim then .ok (.castPrim orig out) else toUnionOrFail orig out
  | .array i, out => newStepInner orig out fun oi => newStepHead i oi (newStepU i i oi)
  | .set i, out => newStepInner orig out fun oi => newStepHead i oi (newStepU i i oi)
  | .map _ _, out => toUnionOrFail orig out
  | .union ms, out =>
    match newStepMembers ms out with
    | some steps => .ok (.fromUnion out steps)
    | none => toUnionOrFail orig out
termination_by structural x => x
/-- one step per member of an input union; `none` on the first failure (`break Switch`) -/
def newStepMembers : Tys → Ty → Option Steps
  | .nil, _ => some .nil
  | .cons t r, out =>
    match newStepHead t out (newStepU t t out) with
    | .error _ => none
    | .ok s => (newStepMembers r out).map fun ss => .cons s ss
termination_by structural x => x
/-- `in.IndexOfField(name)` then `newStep(in.Fields[ind].Type, outField.Type)` -/
def newStepField : Fields → Nat → Name → Ty → Option (Except ShapeErr (Nat × Step))
  | .nil, _, _, _ => none
  | .cons n t r, i, name, out =>
    if n = name then some ((newStepHead t out (newStepU t t out)).map fun s => (i, s))
    else newStepField r (i + 1) name out
termination_by structural x => x
end

/-- `newStep(zctx, in, out)` -/
def newStep (inT out : Ty) : Except ShapeErr Step := newStepHead inT out (newStepU inT inT out)

/-- `newShaper`: the output type, then the step into it. -/
def newShaper (inT out : Ty) : Except ShapeErr (Ty × Step) :=
  match shaperType inT out with
  | .error e => .error e
  | .ok typ =>
    match newStep inT typ with
    | .error e => .error e
    | .ok s => .ok (typ, s)

/-! ### `step.build` -/

inductive BuildRes where
  | ok (t : Ty) (v : Val)
  /-- the Go code would panic (`unknown step.op`, tag out of range, wrong body shape) -/
  | panic
  /-- outside the model: a primitive cast, or elements of differing types after failed casts -/
  | unsupported
  deriving DecidableEq, Repr

/-- Collect element results of an array/set build. -/
def collectElems : List BuildRes → Option (Except Unit (List (Ty × Val)))
  | [] => some (.ok [])
  | .panic :: _ => none
  | .unsupported :: r => (collectElems r).map fun _ => .error ()
  | .ok t v :: r => (collectElems r).map fun x => x.map fun l => (t, v) :: l

def mapVals (f : Val → BuildRes) : Vals → List BuildRes
  | .nil => []
  | .cons v r => f v :: mapVals f r

/-- the tail of `buildArrayOrSet` once the elements are built (`NormalizeSet` not modelled) -/
def finishList (isSet : Bool) (to : Ty) (rs : List BuildRes) : BuildRes :=
  match collectElems rs with
  | none => .panic
  | some (.error _) => .unsupported
  | some (.ok []) => .ok to (.list .nil)
  | some (.ok ((t, v) :: rest)) =>
    if rest.all fun p => p.1 = t then
      let body := Val.list (Vals.ofList (v :: rest.map (·.2)))
      if t.under = (to.inner?.getD tyNull).under then .ok to body
      else if isSet then .ok (.set t) body else .ok (.array t) body
    else .unsupported

/-- the tail of `buildRecord` once the fields are built -/
def finishRecord (to : Ty) (rs : List (Ty × Ty × Val)) : BuildRes :=
  -- rs: (child.toType, built type, built value) per output field
  let types := rs.map fun (ct, t, _) => if t.under = ct.under then ct else t
  let need := rs.any fun (ct, t, _) => t.under != ct.under
  let body := Val.recd (Vals.ofList (rs.map fun (_, _, v) => v))
  if need then
    .ok (.record (Fields.ofList ((to.fields.toList.zip types).map fun (f, t) => (f.1, t)))) body
  else .ok to body

mutual
/-- `step.build`: recursion on the step. -/
def build : Step → Val → BuildRes
  | s, .null => .ok s.toType .null
  | .copy to, v => .ok to v
  | .castPrim _ _, _ => .unsupported
  | .null _, _ => .panic
  | .toUnion tag to, v => .ok to (.union tag v)
  | .fromUnion _ children, v =>
    match v with
    | .union tag x => buildNth children tag x
    | _ => .panic
  | .array to child, v =>
    match v with
    | .list vs => finishList false to (mapVals (fun x => build child x) vs)
    | _ => .panic
  | .set to child, v =>
    match v with
    | .list vs => finishList true to (mapVals (fun x => build child x) vs)
    | _ => .panic
  | .record to children, v =>
    match v with
    | .recd vs =>
      match buildFields children vs with
      | none => .panic
      | some (.error _) => .unsupported
      | some (.ok rs) => finishRecord to rs
    | _ => .panic
def buildNth : Steps → Nat → Val → BuildRes
  | .nil, _, _ => .panic
  | .cons s _, 0, v => build s v
  | .cons _ r, i + 1, v => buildNth r i v
def buildFields : RSteps → Vals → Option (Except Unit (List (Ty × Ty × Val)))
  | .nil, _ => some (.ok [])
  | .cons idx s rest, vs =>
    let here : BuildRes :=
      if s.isNull then .ok s.toType .null
      else build s (vs.getD (idx.getD 0))
    match here with
    | .panic => none
    | .unsupported => (buildFields rest vs).map fun _ => .error ()
    | .ok t v => (buildFields rest vs).map fun x => x.map fun l => (s.toType, t, v) :: l
end

/-! ### `ConstShaper.Eval` with the per-id shaper cache -/

/-- One output of the shaper: a value of a type, or `error("<message>")`. -/
inductive Out where
  | val (t : Ty) (v : Val)
  | err (e : ShapeErr)
  | panic
  | unsupported
  deriving DecidableEq, Repr

/-- The cache `c.shapers`: keyed by the input type id, i.e. by the underlying type; holds the
    shaper built for the first input type seen with that id. -/
abbrev Cache := List (Ty × Ty × Step)

def Cache.find (c : Cache) (u : Ty) : Option (Ty × Step) :=
  match c with
  | [] => none
  | (k, typ, s) :: r => if k = u then some (typ, s) else Cache.find r u

def outOfBuild : BuildRes → Out
  | .ok t v => .val t v
  | .panic => .panic
  | .unsupported => .unsupported

/-- `ConstShaper.Eval` for `expr = this`, transforms Cast|Fill|Order (no primitive caster). -/
def evalShaper (shapeTo : Ty) (c : Cache) (inT : Ty) (v : Val) : Out × Cache :=
  if inT.isError then (.val inT v, c)       -- `val.IsError()`: error values pass through
  else if v = .null then (.val shapeTo .null, c)
  else if inT.under = shapeTo.under then (.val shapeTo v, c)
  else
    match c.find inT.under with
    | some (_, s) => (outOfBuild (build s v), c)
    | none =>
      match newShaper inT shapeTo with
      | .error e => (.err e, c)
      | .ok (typ, s) => (outOfBuild (build s v), (inT.under, typ, s) :: c)

/-! ### Fuser -/

structure Input where
  ty : Ty
  val : Val
  nbytes : Nat
  deriving Repr

structure Fuser where
  memMax : Nat
  nbytes : Nat := 0
  vals : List Input := []
  spill : Option (List Input) := none
  types : List Ty := []
  schema : Option Ty := none
  deriving Repr

/-- the schema half of `Fuser.Write`: a type not seen before is mixed in
    (`none`: merge ran out of fuel) -/
def Fuser.mix (fuel : Nat) (f : Fuser) (t : Ty) : Option Fuser :=
  if t ∈ f.types then some f
  else (mixin fuel f.schema t).map fun s => { f with types := t :: f.types, schema := s }

/-- the storage half of `Fuser.Write`: to the spill file if there is one, else `stash` -/
def Fuser.store (f : Fuser) (x : Input) : Fuser :=
  match f.spill with
  | some sp => { f with spill := some (sp ++ [x]) }
  | none =>
    if f.nbytes + x.nbytes ≥ f.memMax then
      { f with nbytes := f.nbytes + x.nbytes, spill := some (f.vals ++ [x]), vals := [] }
    else { f with nbytes := f.nbytes + x.nbytes, vals := f.vals ++ [x] }

/-- `Fuser.Write` -/
def Fuser.write (fuel : Nat) (f : Fuser) (x : Input) : Option Fuser :=
  (f.mix fuel x.ty).map fun f => f.store x

def Fuser.writeAll (fuel : Nat) : Fuser → List Input → Option Fuser
  | f, [] => some f
  | f, x :: xs => (f.write fuel x).bind fun f' => Fuser.writeAll fuel f' xs

/-- What `Read` iterates over: the spill file if there is one, else the buffer. -/
def Fuser.stored (f : Fuser) : List Input := match f.spill with | some sp => sp | none => f.vals

def shapeAll (shapeTo : Ty) : Cache → List Input → List Out
  | _, [] => []
  | c, x :: xs => let (o, c') := evalShaper shapeTo c x.ty x.val; o :: shapeAll shapeTo c' xs

/-- `Fuser.Read` until end of input. -/
def Fuser.readAll (f : Fuser) : List Out :=
  match f.schema with
  | none => []
  | some t => shapeAll t [] f.stored

/-- The `fuse` operator: write everything, then read everything. -/
def fuse (fuel memMax : Nat) (xs : List Input) : Option (List Out) :=
  (Fuser.writeAll fuel { memMax := memMax } xs).map Fuser.readAll

def fuseSpilled (fuel memMax : Nat) (xs : List Input) : Option Bool :=
  (Fuser.writeAll fuel { memMax := memMax } xs).map fun f => f.spill.isSome

end Zed.Fuse
