package hlib

import (
	"encoding/json"
	"fmt"
	"math/rand"
	"os"
	"runtime/debug"
	"sort"
	"sync"
)

// Failure is one property failure or model/code disagreement found by this run.
type Failure struct {
	// Kind: "oracle" (the property fails on the real code), "correspondence" (model and
	// code disagree), "panic" (the real code panicked), "harness-panic".
	Kind string `json:"kind"`
	// Key classifies the minimized failing input narrowly; bin/check matches it against
	// known_findings.json.
	Key    string `json:"key"`
	What   string `json:"what"`
	Replay any    `json:"replay"`
}

type Result struct {
	Property    string         `json:"property"`
	Tier        string         `json:"tier"`
	Seed        int64          `json:"seed"`
	Evaluations int            `json:"evaluations"`
	Distinct    int            `json:"distinct_nontrivial"`
	Rule        string         `json:"rule"`
	Samples     []any          `json:"samples"`
	Stats       map[string]int `json:"stats"`
	// ModelCases counts inputs on which the Lean model and the real code were compared.
	ModelCases int       `json:"model_cases"`
	Failures   []Failure `json:"failures"`
	Notes      []string  `json:"notes,omitempty"`
	WallS      float64   `json:"wall_s"`
}

type Ctx struct {
	Prop      string
	Tier      string
	Seed      int64
	Rng       *rand.Rand
	Res       Result
	Only      map[string]bool
	CorpusDir string
	Replay    json.RawMessage // non-nil: re-run exactly this case
	distinct  map[string]struct{}
	failKeys  map[string]int
	driver    string
	model     *Model
}

func newCtx(prop, tier string, seed int64, driver string) *Ctx {
	return &Ctx{
		Prop: prop, Tier: tier, Seed: seed,
		Rng:      rand.New(rand.NewSource(seed)),
		Res:      Result{Property: prop, Tier: tier, Seed: seed, Stats: map[string]int{}},
		distinct: map[string]struct{}{},
		failKeys: map[string]int{},
		driver:   driver,
	}
}

func (c *Ctx) Thorough() bool { return c.Tier == "thorough" }

// Want reports whether sub-check name is selected (-only).
func (c *Ctx) Want(name string) bool { return len(c.Only) == 0 || c.Only[name] }

// N picks a budget by tier.
func (c *Ctx) N(quick, thorough int) int {
	if c.Thorough() {
		return thorough
	}
	return quick
}

// Eval records one evaluated case; key identifies it for the distinct count ("" = trivial).
func (c *Ctx) Eval(key string) {
	c.Res.Evaluations++
	if key != "" {
		c.distinct[key] = struct{}{}
	}
}

func (c *Ctx) Stat(name string)         { c.Res.Stats[name]++ }
func (c *Ctx) StatN(name string, n int) { c.Res.Stats[name] += n }
func (c *Ctx) Note(f string, a ...any)  { c.Res.Notes = append(c.Res.Notes, fmt.Sprintf(f, a...)) }
func (c *Ctx) Rule(s string)            { c.Res.Rule = s }
func (c *Ctx) Sample(x any) {
	if len(c.Res.Samples) < 8 {
		c.Res.Samples = append(c.Res.Samples, x)
	}
}

// Fail records a failure; at most 5 per key are kept (the count is in stats).
func (c *Ctx) Fail(kind, key, what string, replay any) {
	c.failKeys[key]++
	c.Res.Stats["fail:"+key]++
	if c.failKeys[key] > 5 {
		return
	}
	c.Res.Failures = append(c.Res.Failures, Failure{Kind: kind, Key: key, What: what, Replay: replay})
}

func (c *Ctx) loadReplay(path string) error {
	b, err := os.ReadFile(path)
	if err != nil {
		return err
	}
	// A replay file is either the bare replay object or bin/check's wrapper {replay: ...}.
	var w struct {
		Replay json.RawMessage `json:"replay"`
	}
	if json.Unmarshal(b, &w) == nil && len(w.Replay) > 0 {
		c.Replay = w.Replay
	} else {
		c.Replay = b
	}
	return nil
}

// CorpusCases returns the replay objects stored under CorpusDir/<prop>/*.json.
func (c *Ctx) CorpusCases() []json.RawMessage {
	if c.CorpusDir == "" {
		return nil
	}
	dir := c.CorpusDir + "/" + c.Prop
	ents, err := os.ReadDir(dir)
	if err != nil {
		return nil
	}
	var names []string
	for _, e := range ents {
		names = append(names, e.Name())
	}
	sort.Strings(names)
	var out []json.RawMessage
	for _, n := range names {
		b, err := os.ReadFile(dir + "/" + n)
		if err != nil {
			continue
		}
		var w struct {
			Replay json.RawMessage `json:"replay"`
		}
		if json.Unmarshal(b, &w) == nil && len(w.Replay) > 0 {
			out = append(out, w.Replay)
		} else {
			out = append(out, b)
		}
	}
	return out
}

func (c *Ctx) writeResult(path string) error {
	c.Res.Distinct = len(c.distinct)
	if c.Res.Samples == nil {
		c.Res.Samples = []any{}
	}
	if c.Res.Failures == nil {
		c.Res.Failures = []Failure{}
	}
	b, err := json.MarshalIndent(&c.Res, "", " ")
	if err != nil {
		return err
	}
	return os.WriteFile(path, b, 0o644)
}

func Stack() string { return string(debug.Stack()) }

// Protect runs fn and converts a panic of the real code into an error.
func Protect(fn func() error) (err error, panicked bool) {
	defer func() {
		if r := recover(); r != nil {
			err = fmt.Errorf("panic: %v\n%s", r, debug.Stack())
			panicked = true
		}
	}()
	return fn(), false
}

// ParallelDo runs fn(0..n-1) on up to workers goroutines.
func ParallelDo(n, workers int, fn func(i int)) {
	var wg sync.WaitGroup
	ch := make(chan int)
	for w := 0; w < workers; w++ {
		wg.Add(1)
		go func() {
			defer wg.Done()
			for i := range ch {
				fn(i)
			}
		}()
	}
	for i := 0; i < n; i++ {
		ch <- i
	}
	close(ch)
	wg.Wait()
}
