package main

// Transport between the real code and the Lean model (driver line protocol).

import (
	"fmt"
	"regexp"
	"sort"
	"strings"

	zed "github.com/brimdata/super"
	astzed "github.com/brimdata/super/compiler/ast/zed"
	"github.com/brimdata/super/zcode"
	"github.com/brimdata/super/zson"
)

// ---- real types / values → model s-expressions -------------------------------------------

func modelTy(t zed.Type) string { return SpecOf(t).Descr() }

func modelVal(zctx *zed.Context, typ zed.Type, body zcode.Bytes) string {
	var b strings.Builder
	modelValTo(zctx, &b, typ, body)
	return b.String()
}

func modelValTo(zctx *zed.Context, b *strings.Builder, typ zed.Type, body zcode.Bytes) {
	if body == nil {
		b.WriteString("null")
		return
	}
	switch t := typ.(type) {
	case *zed.TypeNamed:
		b.WriteString("(nm ")
		modelValTo(zctx, b, t.Type, body)
		b.WriteString(")")
	case *zed.TypeError:
		b.WriteString("(err ")
		modelValTo(zctx, b, t.Type, body)
		b.WriteString(")")
	case *zed.TypeRecord:
		b.WriteString("(rec")
		it := body.Iter()
		for _, f := range t.Fields {
			b.WriteString(" ")
			modelValTo(zctx, b, f.Type, it.Next())
		}
		b.WriteString(")")
	case *zed.TypeArray:
		b.WriteString("(arr")
		for it := body.Iter(); !it.Done(); {
			b.WriteString(" ")
			modelValTo(zctx, b, t.Type, it.Next())
		}
		b.WriteString(")")
	case *zed.TypeSet:
		b.WriteString("(set")
		for it := body.Iter(); !it.Done(); {
			b.WriteString(" ")
			modelValTo(zctx, b, t.Type, it.Next())
		}
		b.WriteString(")")
	case *zed.TypeMap:
		b.WriteString("(map")
		for it := body.Iter(); !it.Done(); {
			b.WriteString(" (")
			modelValTo(zctx, b, t.KeyType, it.Next())
			b.WriteString(" ")
			modelValTo(zctx, b, t.ValType, it.Next())
			b.WriteString(")")
		}
		b.WriteString(")")
	case *zed.TypeUnion:
		it := body.Iter()
		tag := int(zed.DecodeInt(it.Next()))
		fmt.Fprintf(b, "(u %d ", tag)
		modelValTo(zctx, b, t.Types[tag], it.Next())
		b.WriteString(")")
	case *zed.TypeEnum:
		fmt.Fprintf(b, "(enum %d)", zed.DecodeUint(body))
	case *zed.TypeOfType:
		tt, err := zctx.LookupByValue(body)
		if err != nil {
			panic(err)
		}
		b.WriteString("(tv " + modelTy(tt) + ")")
	default:
		b.WriteString("(p " + textPrim(typ, body) + ")")
	}
}

// ---- real AST → s-expression (same syntax as the driver's showAVal) ----------------------

func astType(t astzed.Type) string {
	switch t := t.(type) {
	case *astzed.TypePrimitive:
		return "(p " + HexAtom([]byte(t.Name)) + ")"
	case *astzed.TypeRecord:
		var b strings.Builder
		b.WriteString("(r")
		for _, f := range t.Fields {
			b.WriteString(" (" + HexAtom([]byte(f.Name)) + " " + astType(f.Type) + ")")
		}
		b.WriteString(")")
		return b.String()
	case *astzed.TypeArray:
		return "(a " + astType(t.Type) + ")"
	case *astzed.TypeSet:
		return "(s " + astType(t.Type) + ")"
	case *astzed.TypeMap:
		return "(m " + astType(t.KeyType) + " " + astType(t.ValType) + ")"
	case *astzed.TypeUnion:
		var b strings.Builder
		b.WriteString("(u")
		for _, m := range t.Types {
			b.WriteString(" " + astType(m))
		}
		b.WriteString(")")
		return b.String()
	case *astzed.TypeEnum:
		var b strings.Builder
		b.WriteString("(e")
		for _, s := range t.Symbols {
			b.WriteString(" " + HexAtom([]byte(s)))
		}
		b.WriteString(")")
		return b.String()
	case *astzed.TypeError:
		return "(x " + astType(t.Type) + ")"
	case *astzed.TypeName:
		return "(n " + HexAtom([]byte(t.Name)) + ")"
	case *astzed.TypeDef:
		return "(d " + HexAtom([]byte(t.Name)) + " " + astType(t.Type) + ")"
	}
	return fmt.Sprintf("(unknown-type-%T)", t)
}

func astValue(v astzed.Value) string {
	switch v := v.(type) {
	case *astzed.ImpliedValue:
		return "(I " + astAny(v.Of) + ")"
	case *astzed.DefValue:
		return "(D " + astAny(v.Of) + " " + HexAtom([]byte(v.TypeName)) + ")"
	case *astzed.CastValue:
		return "(C " + astValue(v.Of) + " " + astType(v.Type) + ")"
	}
	return fmt.Sprintf("(unknown-value-%T)", v)
}

func astAny(a astzed.Any) string {
	switch a := a.(type) {
	case nil:
		return "nil"
	case *astzed.Primitive:
		return "(P " + HexAtom([]byte(a.Type)) + " " + HexAtom([]byte(a.Text)) + ")"
	case *astzed.Record:
		var b strings.Builder
		b.WriteString("(R")
		for _, f := range a.Fields {
			b.WriteString(" (" + HexAtom([]byte(f.Name)) + " " + astValue(f.Value) + ")")
		}
		b.WriteString(")")
		return b.String()
	case *astzed.Array:
		var b strings.Builder
		b.WriteString("(A")
		for _, e := range a.Elements {
			b.WriteString(" " + astValue(e))
		}
		b.WriteString(")")
		return b.String()
	case *astzed.Set:
		var b strings.Builder
		b.WriteString("(S")
		for _, e := range a.Elements {
			b.WriteString(" " + astValue(e))
		}
		b.WriteString(")")
		return b.String()
	case *astzed.Map:
		var b strings.Builder
		b.WriteString("(M")
		for _, e := range a.Entries {
			b.WriteString(" (" + astValue(e.Key) + " " + astValue(e.Value) + ")")
		}
		b.WriteString(")")
		return b.String()
	case *astzed.Enum:
		return "(E " + HexAtom([]byte(a.Name)) + ")"
	case *astzed.TypeValue:
		return "(T " + astType(a.Value) + ")"
	case *astzed.Error:
		return "(X " + astValue(a.Value) + ")"
	}
	return fmt.Sprintf("(unknown-any-%T)", a)
}

// ---- analyzer error classes ---------------------------------------------------------------

var errClasses = []struct {
	re    *regexp.Regexp
	class string
}{
	{regexp.MustCompile(`^no such type name`), "noSuchType"},
	{regexp.MustCompile(`^no such primitive type`), "noSuchPrimitive"},
	{regexp.MustCompile(`^type mismatch`), "typeMismatch"},
	{regexp.MustCompile(`^decorator conflict`), "decoratorConflict"},
	{regexp.MustCompile(`is not in union type`), "notInUnion"},
	{regexp.MustCompile(`must be enum and requires decorator`), "enumNeedsDecorator"},
	{regexp.MustCompile(`is enum and incompatible with type`), "enumIncompatible"},
	{regexp.MustCompile(`not a member of type`), "enumNotMember"},
	{regexp.MustCompile(`^enum value is not of type enum`), "enumNotEnumType"},
	{regexp.MustCompile(`decorator not of type|^array decorator not of type array|^map decorator not of type map|^error decorator not of type error`), "badDecorator"},
	{regexp.MustCompile(`^record decorator fields`), "fieldCount"},
	{regexp.MustCompile(`^duplicate field`), "dupField"},
	{regexp.MustCompile(`^enum body is empty`), "emptyEnum"},
	{regexp.MustCompile(`^bad type name`), "badTypeName"},
	{regexp.MustCompile(`^internal error: unknown ast type in Analyzer.convertAny`), "nilAny"},
	{regexp.MustCompile(`^cannot apply decorator`), "typeValueCast"},
}

func errClass(err error) string {
	s := err.Error()
	for _, c := range errClasses {
		if c.re.MatchString(s) {
			return c.class
		}
	}
	return "other:" + s
}

// typeNamesOf collects every type name in t (including inside type values is the caller's
// business).
func typeNamesOf(t *TSpec, into map[string]bool) {
	if t == nil {
		return
	}
	if t.Kind == "named" {
		into[t.Name] = true
	}
	for _, f := range t.Fields {
		typeNamesOf(f.Type, into)
	}
	for _, e := range t.Elems {
		typeNamesOf(e, into)
	}
}

func valTypeNames(v *VSpec, into map[string]bool) {
	if v == nil {
		return
	}
	typeNamesOf(v.T, into)
	for _, e := range v.Elems {
		valTypeNames(e, into)
	}
}

// persistAtom renders the persist argument of the driver: the type names of the case that
// the regexp matches.
func persistAtom(cs *rtCase) string {
	if cs.Persist == "" || (cs.Mode != "writer" && cs.Mode != "format") {
		return "nopersist"
	}
	re := regexp.MustCompile(cs.Persist)
	names := map[string]bool{}
	for _, x := range cs.Vals {
		typeNamesOf(x.T, names)
		valTypeNames(x.V, names)
	}
	var ms []string
	for n := range names {
		if re.MatchString(n) {
			ms = append(ms, HexAtom([]byte(n)))
		}
	}
	sort.Strings(ms)
	return "(persist" + strings.Join(append([]string{""}, ms...), " ") + ")"
}

var _ = zson.FormatValue
