/-
  C13 — a commit is an immutable snapshot; readers are isolated from writers.
  Property theorems only (model: Zed/Model/Lake*.lean; lemmas: Zed/Proofs/LakeStable.lean).

  The statements quantify over every state `s` of the model (not only reachable ones), every
  operation / history, every pool configuration and every commit id.
-/
import Zed.Proofs.LakeStable
import Zed.Proofs.LakeAck
namespace Zed.Props.C13
open Zed.Lake

variable {K V : Type} [DecidableEq V]

/-- **snapshot_stable** (one step).  No operation — load, delete, delete-where, compaction,
    vector add/delete, vacuum, branch creation, merge, revert, successful or failed — changes
    the snapshot (the fold of `PlayAction` along the parent chain) of an existing commit. -/
theorem snapshot_stable (cfg : Cfg K V) (s : State K V) (op : Op V) (c : Nat)
    (hc : c ≤ s.commits.length) :
    snapAt (step cfg s op).commits c = snapAt s.commits c := by
  rcases step_commits cfg s op with h | ⟨x, h⟩
  · rw [h]
  · rw [h]; exact snapAt_append _ _ _ hc

/-- commit objects are write-once: an existing commit object is never modified or removed. -/
theorem commit_object_immutable (cfg : Cfg K V) (s : State K V) (op : Op V) (c : Nat)
    (hc : c ≤ s.commits.length) :
    getCommit (step cfg s op).commits c = getCommit s.commits c := by
  unfold getCommit
  by_cases h0 : c = 0
  · simp [h0]
  · simp only [h0, if_false]
    rcases step_commits cfg s op with h | ⟨x, h⟩
    · rw [h]
    · rw [h, List.getElem?_append_left (by omega)]

theorem run_commits_le (cfg : Cfg K V) (s : State K V) (ops : List (Op V)) :
    s.commits.length ≤ (run cfg s ops).commits.length := by
  induction ops generalizing s with
  | nil => exact Nat.le_refl _
  | cons op ops ih =>
    simp only [run, List.foldl_cons]
    exact Nat.le_trans (step_commits_le cfg s op) (ih (step cfg s op))

/-- **snapshot_stable** (histories).  For every later history `ops`, of any length and with
    any operations, the snapshot of a commit that exists now is what it is now. -/
theorem history_snapshot_stable (cfg : Cfg K V) (s : State K V) (ops : List (Op V)) (c : Nat)
    (hc : c ≤ s.commits.length) :
    snapAt (run cfg s ops).commits c = snapAt s.commits c := by
  induction ops generalizing s with
  | nil => rfl
  | cons op ops ih =>
    simp only [run, List.foldl_cons]
    have := ih (step cfg s op) (Nat.le_trans hc (step_commits_le cfg s op))
    simp only [run] at this
    rw [this]
    exact snapshot_stable cfg s op c hc

/-- data objects are write-once: no operation other than vacuum modifies or removes one. -/
theorem data_object_immutable (cfg : Cfg K V) (s : State K V) (op : Op V) (hv : op.isVacuum = false)
    (id : Nat) (p : List V) (h : fileOf s.files id = some p) :
    fileOf (step cfg s op).files id = some p := by
  unfold step
  split
  · rename_i s' ha
    obtain ⟨_, ext, hf⟩ := apply_extends cfg s s' op hv ha
    rw [hf]; exact fileOf_append _ _ _ _ h
  · exact h

omit [DecidableEq V] in
private theorem fileOf_filter (files : List (Nat × List V)) (ids : List Nat) (id : Nat) (p : List V)
    (hn : ids.contains id = false) (h : fileOf files id = some p) :
    fileOf (files.filter (fun f => !ids.contains f.1)) id = some p := by
  unfold fileOf at *
  rw [List.find?_filter]
  have : (fun (a : Nat × List V) => decide ((!ids.contains a.1) = true ∧ (a.1 == id) = true)) = (fun a => a.1 == id) := by
    funext a
    by_cases ha : a.1 = id
    · rw [ha, hn]; simp
    · have : (a.1 == id) = false := by simpa using ha
      simp [this]
  rw [this]; exact h

/-- **vacuum_safe** (object level): vacuuming commit `c` never removes a data object that is in
    `c`'s snapshot. -/
theorem vacuum_spares_snapshot (cfg : Cfg K V) (s : State K V) (c : Nat) (snap : Snap K)
    (hs : snapAt s.commits c = .ok snap) (id : Nat) (hin : snap.hasObj id = true)
    (p : List V) (h : fileOf s.files id = some p) :
    fileOf (step cfg s (.vacuum c)).files id = some p := by
  unfold step
  split
  · rename_i s' ha
    obtain ⟨_, ids, hv, hf⟩ := vacuum_spec s s' c ha
    rw [hf]
    apply fileOf_filter _ _ _ _ _ h
    unfold vacuumable at hv
    rw [hs] at hv
    simp only [Except.ok.injEq] at hv
    subst hv
    simp [hin]
  · exact h

def noVacuum (ops : List (Op V)) : Bool := ops.all (fun op => !op.isVacuum)

theorem files_mono (cfg : Cfg K V) (s : State K V) (ops : List (Op V)) (hv : noVacuum ops = true)
    (id : Nat) (p : List V) (h : fileOf s.files id = some p) :
    fileOf (run cfg s ops).files id = some p := by
  induction ops generalizing s with
  | nil => exact h
  | cons op ops ih =>
    simp only [noVacuum, List.all_cons, Bool.and_eq_true, Bool.not_eq_true'] at hv
    simp only [run, List.foldl_cons]
    exact ih (step cfg s op) (by simpa [noVacuum] using hv.2) (data_object_immutable cfg s op hv.1 id p h)

/-- **query_pinned**.  The result of `from pool@c` is a function of the commit id and the
    immutable stores: after any vacuum-free history, of any length, the query of an existing
    commit returns exactly what it returns now (same values, same order). -/
theorem query_pinned (cfg : Cfg K V) (s : State K V) (ops : List (Op V)) (hv : noVacuum ops = true)
    (c : Nat) (hc : c ≤ s.commits.length) (r : List V)
    (h : State.query cfg s c = .ok r) :
    State.query cfg (run cfg s ops) c = .ok r := by
  unfold State.query at *
  rw [history_snapshot_stable cfg s ops c hc]
  cases hs : snapAt s.commits c with
  | error e => simp [hs] at h
  | ok snap =>
    simp only [hs] at h ⊢
    exact scanParts_mono cfg s.files _ (fun id p hp => files_mono cfg s ops hv id p hp) _ r h

/-- A reader: the partitions to scan are fixed when the query starts (`Lister(snapshot c)` →
    `Slicer`); each `Pull` scans the next partition from the data object store as it is at
    that moment, after the writers' operations `opss[i]` that were committed in between. -/
def pullSeq (cfg : Cfg K V) : State K V → List (List (Obj K)) → List (List (Op V)) → Except Err (List V)
  | _, [], _ => .ok []
  | s, p :: ps, opss =>
    match payloads s.files p with
    | .error e => .error e
    | .ok ls =>
      match pullSeq cfg (run cfg s (opss.headD [])) ps opss.tail with
      | .ok r => .ok (mergeK cfg ls ++ r)
      | .error e => .error e

/-- **read_isolated**.  Whatever vacuum-free operations other handles commit between the
    pulls of a started reader, and wherever they are placed, the reader returns exactly what
    an uninterrupted scan of the state it started in returns. -/
theorem read_isolated (cfg : Cfg K V) (s : State K V) (parts : List (List (Obj K)))
    (opss : List (List (Op V))) (hv : opss.all noVacuum = true) (r : List V)
    (h : scanParts cfg s.files parts = .ok r) :
    pullSeq cfg s parts opss = .ok r := by
  induction parts generalizing s opss r with
  | nil => simpa [scanParts, pullSeq] using h
  | cons p ps ih =>
    unfold scanParts at h
    unfold pullSeq
    cases hp : payloads s.files p with
    | error e => simp [hp] at h
    | ok ls =>
      simp only [hp] at h ⊢
      cases hr : scanParts cfg s.files ps with
      | error e => simp [hr] at h
      | ok r' =>
        have hv1 : noVacuum (opss.headD []) = true := by
          cases opss with
          | nil => rfl
          | cons o os => simp only [List.all_cons, Bool.and_eq_true] at hv; exact hv.1
        have hv2 : opss.tail.all noVacuum = true := by
          cases opss with
          | nil => rfl
          | cons o os => simp only [List.all_cons, Bool.and_eq_true] at hv; exact hv.2
        have hmono := scanParts_mono cfg s.files (run cfg s (opss.headD [])).files
          (fun id q hq => files_mono cfg s _ hv1 id q hq) ps r' hr
        rw [ih _ _ hv2 r' hmono]
        simpa [hr] using h

/-- **ack_visible.**  When an operation that commits on branch `b` (load, delete, delete-where,
    compaction, vector add/delete, merge into `b`, revert on `b`) is acknowledged, `b` resolves
    to the new commit — so every query started afterwards sees it — and the new commit sits on
    top of the branch's previous chain; the chain only ever grows: under every later history, of
    any operations on any branches, every commit that was on `b`'s parent chain stays on it
    (in particular no acknowledged commit is ever dropped from its branch). -/
theorem ack_visible (cfg : Cfg K V) (s s' : State K V) (b : Nat) (h : CommitsOn s s' b)
    (later : List (Op V)) :
    ∃ t, s.tip b = some t ∧ s'.tip b = some (s.commits.length + 1) ∧
      pathAt s'.commits (s.commits.length + 1) = (s.commits.length + 1) :: pathAt s.commits t ∧
      OnChain (run cfg s' later) b (s.commits.length + 1) ∧
      ∀ c, OnChain s b c → OnChain (run cfg s' later) b c := by
  obtain ⟨t, ht, h1, h2⟩ := h.chain
  refine ⟨t, ht, h1, h2, ?_, ?_⟩
  · exact run_onChain cfg s' later b _ ⟨_, h1, by rw [h2]; simp⟩
  · intro c hc
    obtain ⟨t0, ht0, hm⟩ := hc
    rw [ht] at ht0; cases ht0
    exact run_onChain cfg s' later b c ⟨_, h1, by rw [h2]; exact List.mem_cons_of_mem _ hm⟩

/-- which operations commit on which branch (`CommitsOn`): every successful operation either
    makes exactly one commit on one branch or leaves the commit store and all existing branch
    pointers alone -/
theorem acknowledged_shape (cfg : Cfg K V) (s s' : State K V) (op : Op V) (h : apply cfg s op = .ok s') :
    (∃ b, CommitsOn s s' b) ∨
    (s'.commits = s.commits ∧ ∀ b t, s.tip b = some t → s'.tip b = some t) :=
  apply_shape cfg s s' op h

omit [DecidableEq V] in
/-- **cache_correct** (atomic puts).  `snapCached` is `commits.Store.Snapshot` with its caches
    (in-memory LRU and persisted `<commit>.snap.zng`, keyed by commit id; a walk toward the root
    that stops at the first ancestor with an entry, copies it and replays the later commits).
    If every cache entry equals the fold of the commit chain it is keyed by, the cached lookup
    returns exactly the fold, for every commit and every set of cached commits — and the entry it
    then stores keeps the cache correct. -/
theorem cache_correct (cache : List (Nat × Snap K)) (cs : List (Commit K))
    (hc : ∀ e ∈ cache, snapAt cs e.1 = .ok e.2) (c : Nat) :
    snapCached cache cs c c = snapAt cs c ∧
    ∀ snap, snapCached cache cs c c = .ok snap → ∀ e ∈ (c, snap) :: cache, snapAt cs e.1 = .ok e.2 := by
  have h := snapCached_correct cache cs hc c c (Nat.le_refl _)
  refine ⟨h, ?_⟩
  intro snap hs e he
  simp only [List.mem_cons] at he
  rcases he with he | he
  · subst he; rw [← h]; exact hs
  · exact hc e he

/-! ### non-vacuity: the hypotheses are satisfiable (a concrete two-commit pool) -/

private def exCfg : Cfg Nat Nat :=
  { key := id, mkey := id, kle := Nat.ble, keq := (· == ·), vle := Nat.ble, desc := false,
    thresh := 1000, size := fun _ => 1 }

private def exState : State Nat Nat :=
  { commits := [{ parent := 0, acts := [.add { id := 1, min := 1, max := 2, count := 2 }] },
                { parent := 1, acts := [.add { id := 2, min := 5, max := 5, count := 1 }] }],
    branches := [(0, 2)], files := [(1, [1, 2]), (2, [5])], nextObj := 3 }

example : ∃ snap, snapAt exState.commits 1 = .ok snap ∧ snap.hasObj 1 = true ∧
    fileOf exState.files 1 = some [1, 2] := ⟨_, rfl, rfl, rfl⟩
example : noVacuum ([.delete 0 [1], .merge 1 0, .revert 0 2] : List (Op Nat)) = true := rfl
example : (1 : Nat) ≤ exState.commits.length := by decide
example : CommitsOn exState (exState.commit 0 2 []) 0 := commitsOn_self _ _ _ _ rfl
example : payloads exState.files [({ id := 1, min := 1, max := 2, count := 2 } : Obj Nat)] = .ok [[1, 2]] := rfl

end Zed.Props.C13
