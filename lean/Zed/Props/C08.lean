/-
  C08 — lake query results are independent of the degree of parallelism, for every schedule
  of the scan workers.

  Property theorems only; helper lemmas in Zed/Proofs/Par*.lean (and Agg*.lean for the partial
  aggregation), models in Zed/Model/Par*.lean, the aggregate table and the list of operators
  the optimizer lifts into scatter legs in Zed.Generated.C10 (regenerated on every check).

  What the theorems quantify over: every schedule (the order in which the legs' Pull calls are
  served by the mutex-protected lister/slicer), every number of legs, every tie-breaking of
  the merge, every interleaving of the combine.  Go's scheduler itself is not modelled: it
  enters only through "which leg gets which item, in which order", which is what a schedule
  is.  That Pull is atomic is the model's assumption (the mutex in Lister.Pull/Slicer.Pull); the
  harness drives the real Lister/Slicer from concurrent goroutines to check it.
-/
import Zed.Model.ParSlicer
import Zed.Model.ParScatter
import Zed.Model.AggMonoid
import Zed.Model.AggGroupby
import Zed.Generated.C10
import Zed.Proofs.ParSlicer
import Zed.Proofs.ParScatter
import Zed.Proofs.ParSortLift
import Zed.Proofs.ParLifts
import Zed.Proofs.AggMonoid
import Zed.Proofs.AggGroupby
namespace Zed.Props.C08
open Zed.Par Zed.Agg
open Zed.Proofs

/-! ### T1 -/

/-- The operators `liftIntoParPaths` copies into the scatter legs are the ones this check's
    programs exercise (a new lifted operator re-opens this obligation). -/
theorem lifted_ops_known : Zed.Generated.C10.liftedOps =
    ["Summarize", "Sort", "Head", "Tail", "Cut", "Drop", "Put", "Rename", "Filter"] := by decide

/-- The aggregate list with its partial forms is the one `partials_compose` is proved for. -/
theorem agg_partial_forms_known : Zed.Generated.C10.aggs = modelTable := by decide

/-! ### lister: every object / partition goes to exactly one leg -/

variable {α ρ M : Type}

/-- **lister_exactly_once**: under every schedule the hand-out log followed by what is still
    to be handed out is the item list itself — nothing dropped, duplicated or reordered.
    (An invariant of the transition system: it holds after every prefix of every schedule.) -/
theorem lister_exactly_once (items : List α) (sched : List Nat) :
    ((runSched items sched).log.map (·.2)) ++ (runSched items sched).remaining = items :=
  ParScatter.lister_exactly_once items sched

theorem lister_drains (items : List α) (sched : List Nat) (h : items.length ≤ sched.length) :
    (runSched items sched).remaining = [] :=
  ParScatter.lister_drains items sched h

/-- once drained, every (distinct) item is in the stream of exactly one leg -/
theorem exactly_one_leg (items : List α) (hnd : items.Nodup) (sched : List Nat) (n : Nat)
    (hn : ∀ i ∈ sched, i < n) (hdone : (runSched items sched).remaining = []) :
    ∀ o ∈ items, ∃ i, i < n ∧ o ∈ leg (runSched items sched).log i ∧
      ∀ j, o ∈ leg (runSched items sched).log j → j = i :=
  ParScatter.exactly_one_leg items hnd sched n hn hdone

example : (runSched [10, 20, 30] [1, 0, 1, 2]).remaining = [] ∧
    leg (runSched [10, 20, 30] [1, 0, 1, 2]).log 1 = [10, 30] := by decide

/-! ### slicer -/

/-- cover: the partitions, concatenated, are the lister's objects in order (no hypothesis) -/
theorem slicer_covers (objs : List Obj) : (slice objs).flatten = objs :=
  ParSlicer.slice_flatten objs

/-- **slicer_partitions** (ascending pools: lister order = min ascending): the partitions
    cover all objects in order, none is empty, and they are strictly separated and ordered —
    every object of an earlier partition lies strictly below every object of a later one, so
    no two overlapping objects are ever split. -/
theorem slicer_partitions_asc (objs : List Obj)
    (hwf : ∀ o ∈ objs, o.min ≤ o.max)
    (hsorted : objs.Pairwise (fun a b => a.min ≤ b.min)) :
    (slice objs).flatten = objs ∧ (∀ p ∈ slice objs, p ≠ []) ∧
    (slice objs).Pairwise (fun p q => ∀ a ∈ p, ∀ b ∈ q, a.max < b.min) :=
  ParSlicer.slicer_partitions_asc objs hwf hsorted

/-- descending pools: lister order = max descending; later partitions lie strictly below. -/
theorem slicer_partitions_desc (objs : List Obj)
    (hwf : ∀ o ∈ objs, o.min ≤ o.max)
    (hsorted : objs.Pairwise (fun a b => b.max ≤ a.max)) :
    (slice objs).flatten = objs ∧ (∀ p ∈ slice objs, p ≠ []) ∧
    (slice objs).Pairwise (fun p q => ∀ a ∈ p, ∀ b ∈ q, b.max < a.min) :=
  ParSlicer.slicer_partitions_desc objs hwf hsorted

/-- the span a partition reports is the hull of its objects -/
theorem slicer_span_hull (p : List Obj) (hp : p ≠ []) :
    (∀ o ∈ p, spanMin p ≤ o.min) ∧ (∃ o ∈ p, spanMin p = o.min) ∧
    (∀ o ∈ p, o.max ≤ spanMax p) ∧ (∃ o ∈ p, spanMax p = o.max) :=
  ParSlicer.span_hull p hp

example : slice [⟨1, 1, 5, 0, 0⟩, ⟨2, 2, 3, 0, 0⟩, ⟨3, 6, 9, 0, 0⟩] =
    [[⟨1, 1, 5, 0, 0⟩, ⟨2, 2, 3, 0, 0⟩], [⟨3, 6, 9, 0, 0⟩]] := by decide

/-! ### scatter + merge / combine -/

/-- **scatter_merge_equiv**: for every schedule (assignment of partitions to legs and order of
    hand-out), every number of legs and every tie-breaking of the merge: if partitions are
    strictly separated in the merge order and each partition's scan is sorted (each partition
    is internally merged), merging the legs gives exactly the sequential scan. -/
theorem scatter_merge_equiv (le : ρ → ρ → Bool) (hle : TotalPreorder le) (scan : α → List ρ)
    (items : List α) (sched : List Nat) (n : Nat)
    (hn : ∀ i ∈ sched, i < n)
    (hdone : (runSched items sched).remaining = [])
    (hsorted : ∀ it ∈ items, (scan it).Pairwise (fun x y => le x y = true))
    (hsep : items.Pairwise (fun p q => ∀ x ∈ scan p, ∀ y ∈ scan q, lt le x y = true))
    (out : List ρ) (hm : KMerge le (legsOut scan (runSched items sched).log n) out) :
    out = sequential scan items :=
  ParScatter.scatter_merge_equiv le hle scan items sched n hn hdone hsorted hsep out hm

/-- … and that common result is sorted -/
theorem scatter_merge_sorted (le : ρ → ρ → Bool) (scan : α → List ρ) (items : List α)
    (hsorted : ∀ it ∈ items, (scan it).Pairwise (fun x y => le x y = true))
    (hsep : items.Pairwise (fun p q => ∀ x ∈ scan p, ∀ y ∈ scan q, lt le x y = true)) :
    (sequential scan items).Pairwise (fun x y => le x y = true) :=
  ParScatter.sequential_sorted le scan items hsorted hsep

/-- non-vacuity of `KMerge`: under a total preorder every family of legs has a merge (the
    deterministic `kmergeFn` is one) -/
theorem merge_exists (le : ρ → ρ → Bool) (hle : TotalPreorder le) (legs : List (List ρ)) :
    ∃ out, KMerge le legs out :=
  ParScatter.kmerge_exists le hle legs

/-- **scatter_combine_equiv**: with a combine fan-in any interleaving of the legs is a
    permutation of the sequential scan (same multiset). -/
theorem scatter_combine_equiv (scan : α → List ρ) (items : List α) (sched : List Nat) (n : Nat)
    (hn : ∀ i ∈ sched, i < n) (hdone : (runSched items sched).remaining = [])
    (out : List ρ) (hi : Interleave (legsOut scan (runSched items sched).log n) out) :
    out.Perm (sequential scan items) :=
  ParScatter.scatter_combine_equiv scan items sched n hn hdone out hi

/-! ### sort lifted into the legs (liftIntoParPaths, dag.Sort case) -/

/-- a merge neither adds, drops nor duplicates -/
theorem merge_perm (le : ρ → ρ → Bool) {legs : List (List ρ)} {out : List ρ}
    (h : KMerge le legs out) : out.Perm legs.flatten :=
  ParSortLift.kmerge_perm le h

/-- **sort_lift**: when every leg is sorted under the MERGE's comparator, every merge of the
    legs (any schedule, any tie-breaking) is sorted — together with `merge_perm` it is the
    sort of the whole input up to ties. -/
theorem sort_lift_sorted (le : ρ → ρ → Bool) (hle : TotalPreorder le) {legs : List (List ρ)}
    {out : List ρ} (hs : ∀ l ∈ legs, l.Pairwise (fun x y => le x y = true))
    (h : KMerge le legs out) : out.Pairwise (fun x y => le x y = true) :=
  ParSortLift.kmerge_sorted le hle hs h

/-- The code establishes the hypothesis of `sort_lift_sorted`: since fix 8f641a47c a sort is
    copied into the legs (and replaced by a merge) only when it is a plain ascending
    single-key sort — not `-r`, not nulls-first, not a descending key — the only form whose
    order (sort.Op: ascending, nulls last) is the order of the merge the kernel builds for it.
    Re-checked on the regenerated guards of liftIntoParPaths' dag.Sort case. -/
theorem sort_lift_only_plain_ascending :
    Zed.Generated.C10.sortLiftGuards =
      ["len(op.Args) != 1", "op.Reverse || op.NullsFirst || op.Args[0].Order == order.Desc"] := by
  decide

/-- The hypothesis is needed: a leg sorted under another order than the merge's yields an
    unsorted merge.  (A statement about the model on legs violating the hypothesis; before
    fix 8f641a47c a descending sort was lifted although sort.Op orders nulls last and the
    merge built for it expects them first — exactly this situation.) -/
theorem not_sort_lift_sorted_foreign_order :
    ∃ (legs : List (List Int)) (out : List Int),
      KMerge (fun a b => decide (a ≤ b)) legs out ∧ ¬ out.Pairwise (fun x y => decide (x ≤ y) = true) :=
  ParSortLift.not_kmerge_sorted_foreign_order

/-! ### head / tail / filter copied into the legs (liftIntoParPaths), with the final re-application

  Results are fixed only up to the order of ties, so soundness is stated as: the parallel plan's
  result is a sorted "n smallest" (head) / "n largest" (tail) selection of ALL rows — exactly what
  the sequential plan's result is (`head_seq`, `tail_seq`) — resp. a sorted permutation of the
  filtered rows. -/

open ParLifts in
/-- sequential plan: `head n` of the merged legs -/
theorem head_seq (le : ρ → ρ → Bool) (hle : TotalPreorder le) (n : Nat) {legs : List (List ρ)} {out : List ρ}
    (hs : ∀ l ∈ legs, l.Pairwise (fun x y => le x y = true)) (h : KMerge le legs out) :
    SmallestSel le (out.take n) (out.drop n) legs.flatten ∧ (out.take n).length = min n legs.flatten.length :=
  ParLifts.head_seq le hle n hs h

open ParLifts in
/-- **head_lift_sound**: `head n` in every leg, merge, `head n` again — a smallest-n selection
    of all rows, of the same length as the sequential result. -/
theorem head_lift_sound (le : ρ → ρ → Bool) (hle : TotalPreorder le) (n : Nat) {legs : List (List ρ)} {out' : List ρ}
    (hs : ∀ l ∈ legs, l.Pairwise (fun x y => le x y = true))
    (h : KMerge le (legs.map (List.take n)) out') :
    SmallestSel le (out'.take n) (out'.drop n ++ (legs.map (List.drop n)).flatten) legs.flatten ∧
    (out'.take n).length = min n legs.flatten.length :=
  ParLifts.head_lift_sound le hle n hs h

/-- the final re-application is needed: without it up to k·n rows come out -/
theorem not_head_lift_without_reapply :
    ∃ (legs : List (List Int)) (out' : List Int) (n : Nat),
      KMerge (fun a b => decide (a ≤ b)) (legs.map (List.take n)) out' ∧ out'.length > n :=
  ParLifts.not_head_lift_without_reapply

open ParLifts in
theorem tail_seq (le : ρ → ρ → Bool) (hle : TotalPreorder le) (n : Nat) {legs : List (List ρ)} {out : List ρ}
    (hs : ∀ l ∈ legs, l.Pairwise (fun x y => le x y = true)) (h : KMerge le legs out) :
    LargestSel le (lastN n out) (dropLastN n out) legs.flatten ∧ (lastN n out).length = min n legs.flatten.length :=
  ParLifts.tail_seq le hle n hs h

open ParLifts in
/-- **tail_lift_sound**: `tail n` in every leg, merge, `tail n` again. -/
theorem tail_lift_sound (le : ρ → ρ → Bool) (hle : TotalPreorder le) (n : Nat) {legs : List (List ρ)} {out' : List ρ}
    (hs : ∀ l ∈ legs, l.Pairwise (fun x y => le x y = true))
    (h : KMerge le (legs.map (lastN n)) out') :
    LargestSel le (lastN n out') (dropLastN n out' ++ (legs.map (dropLastN n)).flatten) legs.flatten ∧
    (lastN n out').length = min n legs.flatten.length :=
  ParLifts.tail_lift_sound le hle n hs h

/-- **filter_lift_sound**: a filter copied into the legs gives a sorted permutation of the filter
    of any merge of the unfiltered legs. -/
theorem filter_lift_sound (le : ρ → ρ → Bool) (hle : TotalPreorder le) (p : ρ → Bool) {legs : List (List ρ)}
    {out out' : List ρ} (hs : ∀ l ∈ legs, l.Pairwise (fun x y => le x y = true))
    (h' : KMerge le (legs.map (List.filter p)) out') (h : KMerge le legs out) :
    out'.Perm (out.filter p) ∧ out'.Pairwise (fun x y => le x y = true) ∧
      (out.filter p).Pairwise (fun x y => le x y = true) :=
  ParLifts.filter_lift_sound le hle p hs h' h

/-- two sorted permutations of each other agree position by position up to ties -/
theorem sorted_perm_pointwise_equiv (le : ρ → ρ → Bool) (hle : TotalPreorder le) {a b : List ρ}
    (hp : a.Perm b) (ha : a.Pairwise (fun x y => le x y = true)) (hb : b.Pairwise (fun x y => le x y = true)) :
    ∀ i (hi : i < a.length), le a[i] (b[i]'(by rw [← hp.length_eq]; exact hi)) = true ∧
                              le (b[i]'(by rw [← hp.length_eq]; exact hi)) a[i] = true :=
  ParLifts.sorted_perm_pointwise_equiv le hle hp ha hb

/-! ### partial aggregation in the legs -/

/-- the legs' outputs, concatenated, are a permutation of the sequential scan -/
private theorem legs_flatten_perm (scan : α → List ρ) (items : List α) (sched : List Nat) (n : Nat)
    (hn : ∀ i ∈ sched, i < n) (hdone : (runSched items sched).remaining = []) :
    (legsOut scan (runSched items sched).log n).flatten.Perm (sequential scan items) := by
  rw [ParScatter.legsOut_flatten]
  have hlog : ∀ p ∈ (runSched items sched).log, p.1 < n :=
    fun p hp => hn _ (ParScatter.log_legs_in_sched items sched p hp)
  have h1 := ParScatter.legs_perm (runSched items sched).log n hlog
  have h2 := ParScatter.lister_exactly_once items sched
  rw [hdone, List.append_nil] at h2
  rw [h2] at h1
  exact h1.flatMap_right scan

/-- **partials_compose**: every leg aggregates what it scans (partials-out), the tail combines
    the legs' partials (partials-in): for every commutative aggregate monoid, every schedule and
    every number of legs the result is the aggregate over the sequential scan. -/
theorem partials_compose (m : Mon M) (hm : m.CommLaws) (f : ρ → M) (scan : α → List ρ)
    (items : List α) (sched : List Nat) (n : Nat)
    (hn : ∀ i ∈ sched, i < n) (hdone : (runSched items sched).remaining = []) :
    m.combineAll ((legsOut scan (runSched items sched).log n).map (m.fold f)) =
      m.fold f (sequential scan items) := by
  rw [AggMonoid.partial_hom m hm.toLaws f]
  exact AggMonoid.fold_perm m hm f (legs_flatten_perm scan items sched n hn hdone)

/-- … and the legs' partials may reach the tail in any order -/
theorem partials_compose_any_order (m : Mon M) (hm : m.CommLaws) (f : ρ → M) (scan : α → List ρ)
    (items : List α) (sched : List Nat) (n : Nat)
    (hn : ∀ i ∈ sched, i < n) (hdone : (runSched items sched).remaining = [])
    (ps : List M) (hps : ps.Perm ((legsOut scan (runSched items sched).log n).map (m.fold f))) :
    m.combineAll ps = m.fold f (sequential scan items) :=
  AggMonoid.partial_hom_perm m hm f _ ps _ hps (legs_flatten_perm scan items sched n hn hdone).symm

/-- the concrete aggregates of the regenerated table satisfy the hypothesis of `partials_compose`
    (collect only as a monoid: its element order follows the order the partials arrive in) -/
theorem partials_compose_instances :
    countMon.CommLaws ∧ sumMon.CommLaws ∧ minMon.CommLaws ∧ maxMon.CommLaws ∧ avgMon.CommLaws ∧
    andMon.CommLaws ∧ orMon.CommLaws ∧ setMon.CommLaws ∧ collectMon.Laws :=
  ⟨AggMonoid.countMon_laws, AggMonoid.sumMon_laws, AggMonoid.minMon_laws, AggMonoid.maxMon_laws,
   AggMonoid.avgMon_laws, AggMonoid.andMon_laws, AggMonoid.orMon_laws, AggMonoid.setMon_laws,
   AggMonoid.collectMon_laws⟩

/-- group-by level: partials-out group-by per leg, partials-in group-by at the tail — under the
    guard of C10 (`groupby_naive_partial`): comparator faithful on the keys present, or no
    spill at any stage (the default limit of 1,000,000 keys). -/
theorem partials_compose_groupby_partial {K S : Type} [DecidableEq K] (m : Mon S) (hm : m.CommLaws)
    (le : K → K → Bool) (hle : TotalPreorder le) (limit₁ limit₂ : Nat) (legs : List (List (K × S)))
    (guard : AggGroupby.CompareFaithful le legs.flatten ∨
      ((∀ c ∈ legs, spillCount m le limit₁ c = 0) ∧
        spillCount m le limit₂ (legs.map (groupby m le limit₁)).flatten = 0)) :
    GroupsAgree m (groupby m le limit₂ (legs.map (groupby m le limit₁)).flatten) legs.flatten :=
  AggGroupby.groupby_partials_compose m hm le hle limit₁ limit₂ legs guard

end Zed.Props.C08
