import Zed.Model.Sexp
import Zed.Model.AggMonoid
import Zed.Model.AggGroupby
import Zed.Model.AggJoin
import Zed.Model.AggJoinPlan
import Zed.Model.AggSortedSpill
/-!
  Driver glue for C10.

  `(C10 agg <name> <chunk> …)`            chunk = `(<v> …)`,
        v = `(<tok> <typ> <null 0|1> <kind n|u|i|f> <num> <bool -|0|1> <avg -|int>)`
        → `direct=<r> partial=<r>`: the aggregate folded over the concatenated chunks, and the
          per-chunk partials combined in chunk order.
  `(C10 groupby <limit> <row> …)`          row = `(<keytok> (<rank> …) <contrib>)`,
        contrib = `(v <id> <aval>|- <stok>)`  a direct input row: the aggregates' argument value
                                              (`-` = missing) and the token of the dcount argument
                | `(st <count> <sum> <min> <max> <avgsum> <avgcount> (<id> …) (<utok> …) (<dtok> …))`
                                              a partial row (the state a partials-out stage emitted)
        → `spills=<n> (<keytok> (st …)) …` groups sorted by keytok; the state is the row of
          count(), sum(v), min(v), max(v), avg(v), union(id), union(v), dcount(s) — its rendering
          is exactly what the next stage accepts as `(st …)`
  `(C10 naive <row> …)`                    same rows → naive groups, same format (spills=0)
  `(C10 sorted <limit> <batch> …)`         batch = `(<row> …)`; sorted-input mode WITH spills; the
        first rank is the primary key (already oriented: ascending = the declared direction);
        maxSpillKey is taken from the last row of the spilled table → same format
  `(C10 joinfull <style> <lleg> <rleg> (<l> …) (<r> …))`   l, r = `(<rank>|null <id>)` in the
        order the leg's source delivers them; leg = - | asc | desc (a sort operator in the leg)
        | fasc | fdesc (declared sorted source); the model plans the join (right-style swap,
        direction, inserted sorts) and runs it → `(<lid>|- <rid>|-) …` in output order
  `(C10 join <kind> (<l> …) (<r> …))`     l, r = `(<rank> <id>)`; both sides are first sorted
        stably by rank (join.New inserts the sort) → `(<lid> <rid>|-) …` in output order
  `(C10 joinraw <kind> (<l> …) (<r> …))`  the same without the sort: rows in arrival order, the
        rank is the key's rank under the join's own comparator (models a side that is *declared*
        sorted, or sorted by a sort operator whose null placement differs from the join's)
  `(C10 nested <kind> (<l> …) (<r> …))`   nested loop over the same sorted sides
-/
namespace Zed.Drv.C10
open Zed Zed.Agg

def atomOf : Sexp → Option String
  | .atom s => some s
  | _ => none

def intOf : Sexp → Option Int
  | .atom s => s.toInt?
  | _ => none

def natOf : Sexp → Option Nat
  | .atom s => s.toNat?
  | _ => none

def avalOf : Sexp → Option AVal
  | .list [.atom tok, .atom typ, .atom nul, .atom kind, .atom num, .atom b, .atom avg] => do
    let k ← Kind.ofStr kind
    let n ← num.toInt?
    let isNull ← (if nul == "1" then some true else if nul == "0" then some false else none)
    let bb ← (if b == "-" then some none else if b == "1" then some (some true)
              else if b == "0" then some (some false) else none)
    let av ← (if avg == "-" then some none else (avg.toInt?).map some)
    pure { tok := tok, typ := typ, isNull := isNull, kind := k, num := n, bool := bb, avg := av }
  | _ => none

def chunkOf : Sexp → Option (List AVal)
  | .list vs => vs.mapM avalOf
  | _ => none

def showOptInt : Option Int → String
  | none => "null"
  | some n => toString n

def showMath (s : MathSt) : String := s.kind.toStr ++ ":" ++ showOptInt s.acc
def showOptBool : Option Bool → String
  | none => "null" | some true => "1" | some false => "0"
def showList (xs : List String) : String := "(" ++ " ".intercalate xs ++ ")"

/-- direct and partial evaluation of one aggregate, rendered -/
def both {M : Type} (m : Mon M) (f : AVal → M) (render : M → String) (chunks : List (List AVal)) : String :=
  "direct=" ++ render (m.fold f chunks.flatten) ++ " partial=" ++
    render (m.combineAll (chunks.map (m.fold f)))

def aggHandle (name : String) (chunks : List (List AVal)) : String :=
  let univTok := chunks.flatten.map (·.tok)
  let univTyp := chunks.flatten.map (·.typ)
  match name with
  | "count" => both countMon countF toString chunks
  | "sum" => both sumMon mathF showMath chunks
  | "min" => both minMon mathF showMath chunks
  | "max" => both maxMon mathF showMath chunks
  | "avg" => both avgMon avgF (fun s => toString s.1 ++ "/" ++ toString s.2) chunks
  | "and" => both andMon boolF showOptBool chunks
  | "or" => both orMon boolF showOptBool chunks
  | "collect" => both collectMon collectF showList chunks
  | "union" => both setMon unionF (fun s => showList (members s univTok)) chunks
  | "dcount" => both setMon dcountF (fun s => toString (members s univTok).length) chunks
  | "fuse" => both setMon fuseF (fun s => showList (members s univTyp)) chunks
  | _ => "bad-op"

/-! group-by -/

structure Key where
  tok : String
  ranks : List Int
  deriving DecidableEq, Repr

def lexLe : List Int → List Int → Bool
  | [], _ => true
  | _ :: _, [] => false
  | a :: as, b :: bs => if a < b then true else if b < a then false else lexLe as bs

def keyLe (a b : Key) : Bool := lexLe a.ranks b.ranks

/-- the row of aggregates count(), sum(v), min(v), max(v), avg(v), union(id), union(v), dcount(s) -/
structure RSt where
  count : Nat := 0
  sum : MathSt := {}
  min : MathSt := {}
  max : MathSt := {}
  avg : Int × Nat := (0, 0)
  ids : List Nat := []
  uset : List String := []
  dset : List String := []
  deriving Repr

def insNat (x : Nat) : List Nat → List Nat
  | [] => [x]
  | y :: ys => if x < y then x :: y :: ys else if x == y then y :: ys else y :: insNat x ys

def rMon : Mon RSt :=
  ⟨fun a b => { count := a.count + b.count, sum := sumMon.op a.sum b.sum, min := minMon.op a.min b.min,
                max := maxMon.op a.max b.max, avg := avgMon.op a.avg b.avg,
                ids := b.ids.foldr insNat a.ids, uset := b.uset.foldr insertTok a.uset,
                dset := b.dset.foldr insertTok a.dset }, {}⟩

/-- Aggregator.Apply of every aggregate of the row to one input record -/
def ofInput (id : Nat) (v : Option AVal) (stok : String) : RSt :=
  match v with
  | none => { count := 1, ids := [id], dset := [stok] }
  | some v => { count := 1, sum := mathF v, min := mathF v, max := mathF v, avg := avgF v, ids := [id],
                uset := if v.isNull then [] else [v.tok], dset := [stok] }

def mathOf (s : String) : Option MathSt :=
  match s.splitOn ":" with
  | [k, a] => do
    let k ← Kind.ofStr k
    if a == "null" then pure { kind := k } else pure { kind := k, acc := some (← a.toInt?) }
  | _ => none

def contribOf : Sexp → Option RSt
  | .list [.atom "v", .atom id, av, .atom stok] => do
    let id ← id.toNat?
    match av with
    | .atom "-" => pure (ofInput id none stok)
    | _ => pure (ofInput id (some (← avalOf av)) stok)
  | .list [.atom "st", .atom c, .atom su, .atom mn, .atom mx, .atom as, .atom ac, .list ids, .list us, .list ds] => do
    pure { count := (← c.toNat?), sum := (← mathOf su), min := (← mathOf mn), max := (← mathOf mx),
           avg := ((← as.toInt?), (← ac.toNat?)), ids := (← ids.mapM natOf),
           uset := (← us.mapM atomOf), dset := (← ds.mapM atomOf) }
  | _ => none

def rowOf : Sexp → Option (Key × RSt)
  | .list [.atom tok, .list ranks, c] => do
    let rs ← ranks.mapM intOf
    pure (⟨tok, rs⟩, (← contribOf c))
  | _ => none

def showSt (s : RSt) : String :=
  "(st " ++ toString s.count ++ " " ++ showMath s.sum ++ " " ++ showMath s.min ++ " " ++ showMath s.max ++ " " ++
    toString s.avg.1 ++ " " ++ toString s.avg.2 ++ " (" ++ " ".intercalate (s.ids.map toString) ++ ") " ++
    showList s.uset ++ " " ++ showList s.dset ++ ")"

def showGroup (g : Key × RSt) : String := "(" ++ g.1.tok ++ " " ++ showSt g.2 ++ ")"

def showGroups (spills : Nat) (gs : List (Key × RSt)) : String :=
  let sorted := isort (fun (a b : Key × RSt) => a.1.tok ≤ b.1.tok) gs
  "spills=" ++ toString spills ++ " " ++ " ".intercalate (sorted.map showGroup)

def primOf (k : Key) : Int := k.ranks.headD 0

/-! join -/
def jrowOf : Sexp → Option (Int × Nat)
  | .list [.atom r, .atom id] => do pure (← r.toInt?, ← id.toNat?)
  | _ => none

def jrowsOf : Sexp → Option (List (Int × Nat))
  | .list rs => rs.mapM jrowOf
  | _ => none

def intLe (a b : Int) : Bool := a ≤ b

def jkrowOf : Sexp → Option (Join.JKey × Nat)
  | .list [.atom r, .atom id] => do
    let id ← id.toNat?
    if r == "null" then pure (none, id) else pure (some (← r.toInt?), id)
  | _ => none

def jkrowsOf : Sexp → Option (List (Join.JKey × Nat))
  | .list rs => rs.mapM jkrowOf
  | _ => none

def showRow : Join.Row (Join.JKey × Nat) (Join.JKey × Nat) → String
  | .both a b => "(" ++ toString a.2 ++ " " ++ toString b.2 ++ ")"
  | .leftOnly a => "(" ++ toString a.2 ++ " -)"
  | .rightOnly b => "(- " ++ toString b.2 ++ ")"

def showOut : Join.Out (Int × Nat) (Int × Nat) → String
  | .pair a b => "(" ++ toString a.2 ++ " " ++ toString b.2 ++ ")"
  | .bare a => "(" ++ toString a.2 ++ " -)"

def sortSide (rows : List (Int × Nat)) : List (Int × Nat) :=
  isort (fun (a b : Int × Nat) => intLe a.1 b.1) rows

def handle : List Sexp → String
  | .atom "agg" :: .atom name :: chunks =>
    match chunks.mapM chunkOf with
    | some cs => aggHandle name cs
    | none => "bad-op"
  | .atom "groupby" :: .atom limit :: rows =>
    match limit.toNat?, rows.mapM rowOf with
    | some l, some rs =>
      showGroups (spillCount rMon keyLe l rs) (groupby rMon keyLe l rs)
    | _, _ => "bad-op"
  | .atom "naive" :: rows =>
    match rows.mapM rowOf with
    | some rs => showGroups 0 (naiveGroup rMon rs)
    | none => "bad-op"
  | .atom "sorted" :: .atom limit :: batches =>
    match limit.toNat?, batches.mapM (fun | .list rs => rs.mapM rowOf | _ => none) with
    | some l, some bs =>
      showGroups (if ssSpilled rMon keyLe primOf intLe (fun t => t.getLast?) l bs then 1 else 0)
        (groupbySortedSpill rMon keyLe primOf intLe (fun t => t.getLast?) l bs)
    | _, _ => "bad-op"
  | [.atom "joinfull", .atom style, .atom ll, .atom rl, l, r] =>
    match Join.Style.ofStr style, Join.Leg.ofStr ll, Join.Leg.ofStr rl, jkrowsOf l, jkrowsOf r with
    | some st, some ll, some rl, some l, some r =>
      " ".intercalate ((Join.joinFull st ll rl l r).map showRow)
    | _, _, _, _, _ => "bad-op"
  | [.atom "join", .atom kind, l, r] =>
    match Join.Kind.ofStr kind, jrowsOf l, jrowsOf r with
    | some k, some l, some r =>
      " ".intercalate ((Join.mergeJoin intLe k (sortSide l) (sortSide r)).map showOut)
    | _, _, _ => "bad-op"
  | [.atom "joinraw", .atom kind, l, r] =>
    match Join.Kind.ofStr kind, jrowsOf l, jrowsOf r with
    | some k, some l, some r => " ".intercalate ((Join.mergeJoin intLe k l r).map showOut)
    | _, _, _ => "bad-op"
  | [.atom "nested", .atom kind, l, r] =>
    match Join.Kind.ofStr kind, jrowsOf l, jrowsOf r with
    | some k, some l, some r =>
      " ".intercalate ((Join.nestedLoop intLe k (sortSide l) (sortSide r)).map showOut)
    | _, _, _ => "bad-op"
  | _ => "bad-op"

end Zed.Drv.C10
