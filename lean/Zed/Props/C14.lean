/-
  C14 — pool contents always equal the loaded values minus the deleted ones, in pool-key order.
  Property theorems only (model: Zed/Model/Lake*.lean; lemmas: Zed/Proofs/Lake*.lean).
-/
import Zed.Proofs.LakeSnap
import Zed.Proofs.LakeScan
namespace Zed.Props.C14
open Zed.Lake

variable {K V : Type} [DecidableEq V]

omit [DecidableEq V] in
/-- a commit id whose snapshot can be computed exists -/
theorem snapAt_ok_le (cs : List (Commit K)) (t : Nat) (snap : Snap K) (h : snapAt cs t = .ok snap) :
    t ≤ cs.length := by
  unfold snapAt parentSnap at h
  by_cases h0 : t = 0
  · omega
  · simp only [h0, if_false] at h
    cases hg : (snapsOf cs)[t - 1]? with
    | none => simp [hg] at h
    | some r =>
      have := (List.getElem?_eq_some_iff.mp hg).1
      rw [snapsOf_length] at this
      omega

omit [DecidableEq V] in
/-- the snapshot of a freshly committed object is its parent's snapshot with the actions played -/
theorem commit_snap (s : State K V) (b t : Nat) (acts : List (Action K)) (snap : Snap K)
    (h : snapAt s.commits t = .ok snap) :
    snapAt (s.commit b t acts).commits (s.commits.length + 1) = play snap acts := by
  rw [commit_commits, snapAt_new, commitSnap_eq]
  simp only [h]

omit [DecidableEq V] in
/-- **scan contents** (`contents_correct`, read side).  Whatever the object layout, the lister
    order and the partitioning, the unfiltered scan of a commit returns exactly the values held
    by the objects of its snapshot (as a multiset). -/
theorem scan_contents (cfg : Cfg K V) (s : State K V) (c : Nat) (snap : Snap K) (r : List V)
    (hs : snapAt s.commits c = .ok snap) (h : State.query cfg s c = .ok r) :
    r.Perm (snap.objs.flatMap (pay s.files)) := by
  unfold State.query at h
  simp only [hs] at h
  exact scanObjs_perm cfg s.files snap.objs r h

omit [DecidableEq V] in
/-- **delete by id** (object-set refinement), partial: under the guard `ids.Nodup` a successful
    `delete(ids)` yields a readable tip whose objects are exactly the previous ones minus `ids`.

    Full statement (`delete_exact`, without the guard) is FALSE of the current code, see
    `not_delete_exact`: `Branch.Delete` emits one `Delete` action per listed id, so a repeated
    id makes the new commit unreplayable. -/
theorem delete_exact_partial (s s' : State K V) (b : Nat) (ids : List Nat) (hn : ids.Nodup)
    (h : delete s b ids = .ok s') :
    ∃ t snap snap', s.tip b = some t ∧ snapAt s.commits t = .ok snap ∧
      snapAt s'.commits (s.commits.length + 1) = .ok snap' ∧ snap'.vecs = snap.vecs ∧
      ∀ id, snap'.hasObj id = (snap.hasObj id && !ids.contains id) := by
  unfold delete at h
  split at h
  · cases h
  · rename_i t ht
    split at h
    · cases h
    · rename_i snap hs
      split at h
      · rename_i hall
        cases h
        obtain ⟨snap', h1, h2, h3⟩ := play_dels snap ids hn (by
          intro id hid
          exact (List.all_eq_true.mp hall) id hid)
        exact ⟨t, snap, snap', ht, hs, by rw [commit_snap s b t _ snap hs, h1], h2, h3⟩
      · cases h

/-! negation witness: one object, `delete [1, 1]` -/
private def dupState : State Nat Nat :=
  { commits := [{ parent := 0, acts := [.add { id := 1, min := 1, max := 1, count := 1 }] }],
    branches := [(0, 1)], files := [(1, [1])], nextObj := 2 }

/-- **not_delete_exact**: `delete(main, [1, 1])` is acknowledged and leaves `main` unreadable
    (`delete of a non-existent data object`).  Replayed on the real code by the harness
    (witness:duplicate-id). -/
theorem not_delete_exact :
    ∃ s', delete dupState 0 [1, 1] = .ok s' ∧ s'.tip 0 = some 2 ∧
      snapAt s'.commits 2 = .error .noObject := ⟨_, rfl, rfl, rfl⟩

/-- non-vacuity of `delete_exact_partial` -/
example : ∃ s', delete dupState 0 [1] = .ok s' ∧ [1].Nodup := ⟨_, rfl, by simp⟩

end Zed.Props.C14
