package lakeh

import (
	"fmt"
	"math/rand"
	"sort"
	"strings"

	"verifharness/hlib"
)

// Fail is a failure found while running one history.
type Fail struct {
	Kind string // oracle | panic | correspondence
	Key  string
	What string
	Step int
}

// Outcome is everything one history produced.
type Outcome struct {
	H       *History
	T       *Table
	Obs     []*StepObs
	Fails   []Fail
	Stats   map[string]int
	Err     error // harness-level error (could not observe)
	Commits bool
}

// Options of a run.
type Options struct {
	Prop        string
	Commits     bool // observe and check every commit after every step (C13)
	Determinism int  // number of repeated scans per step for the tie-order check (0 = off)
	Reopen      bool // also scan through a reopened (cold) handle
	StopOnFail  bool
	// ColdProbe: after every operation, before the long-lived handle looks at the new commit,
	// query all commits (descendant first / random order) and branches through a fresh handle.
	ColdProbe bool
	// ColdOps: run every other merge / revert / delete / compact through a fresh handle.
	ColdOps bool
	// PruneSnaps: remove the persisted snapshot cache file of every second commit after each step.
	PruneSnaps bool
}

type refState struct {
	expected   map[int][]int // branch -> expected multiset of tokens (sorted)
	objsAt     map[int][]int // commit -> observed object ids (sorted); absent if unreadable at creation
	scanAt     map[int][]int // commit -> canonical scan at creation
	statAt     map[int]string
	lastRevert int
	revertedAt map[int]int // revert commit -> tip commit before the revert
}

func ms(xs []int) []int { return SortedInts(xs) }

func contentOf(r *Real, ids []int) []int {
	var out []int
	for _, id := range ids {
		out = append(out, r.Content[id]...)
	}
	return ms(out)
}

func dedup(xs []int) []int {
	m := map[int]bool{}
	var out []int
	for _, x := range xs {
		if !m[x] {
			m[x] = true
			out = append(out, x)
		}
	}
	return out
}

func hasDup(xs []int) bool { return len(dedup(xs)) != len(xs) }

func liveOf(b *BranchObs) []int {
	var out []int
	for _, o := range b.Objs {
		out = append(out, o.ID)
	}
	sort.Ints(out)
	return out
}

func findBranch(o *StepObs, name int) *BranchObs {
	for i := range o.Branches {
		if o.Branches[i].Name == name {
			return &o.Branches[i]
		}
	}
	return nil
}

func viewOf(r *Real, ref *refState, obs *StepObs, nvals int) *View {
	v := &View{Tips: map[int]int{}, Live: map[int][]int{}, Vecs: map[int][]int{}, Gone: map[int]bool{}, Objs: map[int][]ObjObs{}, NCommits: len(r.Commits), NObjs: r.NextObj - 1,
		ObjsAt: ref.objsAt, Parent: r.Parent, NVals: nvals, LastRevert: ref.lastRevert}
	v.Branches = append(v.Branches, r.Names...)
	for _, b := range r.Names {
		v.Tips[b] = r.Tips[b]
	}
	if obs != nil {
		for i := range obs.Branches {
			b := &obs.Branches[i]
			if b.Status != "ok" && b.Status != "missing-file" {
				continue
			}
			v.Live[b.Name] = liveOf(b)
			v.Objs[b.Name] = b.Objs
			for _, o := range b.Objs {
				if o.Vec {
					v.Vecs[b.Name] = append(v.Vecs[b.Name], o.ID)
				}
				if o.Gone {
					v.Gone[b.Name] = true
				}
			}
		}
	}
	return v
}

// RunHistory executes a history on a real lake.  With gen != nil the operations are drawn
// step by step (h.Ops is filled in); otherwise h.Ops is replayed.
func RunHistory(h *History, prof *Profile, rng *rand.Rand, opt Options) *Outcome {
	out := &Outcome{H: h, Stats: map[string]int{}, Commits: opt.Commits}
	t, err := NewTable(h.Cfg, h.Vals, h.Keys)
	if err != nil {
		out.Err = err
		return out
	}
	out.T = t
	r, err := NewReal(h.Cfg, t)
	if err != nil {
		out.Err = err
		return out
	}
	defer r.Close()
	r.ColdCommits = opt.Commits
	ref := &refState{expected: map[int][]int{0: nil}, objsAt: map[int][]int{}, scanAt: map[int][]int{}, statAt: map[int]string{}, revertedAt: map[int]int{}}
	stop := false
	seenKey := map[string]bool{}
	fail := func(kind, key, what string, step int) {
		if Benign(key) {
			// the state is not damaged: keep exploring, report once per history
			if seenKey[key] {
				return
			}
			seenKey[key] = true
		} else {
			stop = true
		}
		out.Fails = append(out.Fails, Fail{kind, key, what, step})
	}
	var prev *StepObs
	nops := len(h.Ops)
	if prof != nil {
		if prof.Script != nil {
			nops = len(prof.Script)
		} else {
			nops = 2 + rng.Intn(prof.MaxOps-1)
		}
		h.Ops = nil
	}
	step := -1
	for i := 0; i < nops; i++ {
		var op Op
		if prof != nil && prof.Script != nil {
			var ok bool
			op, ok = resolveSym(prof.Script[i], viewOf(r, ref, prev, len(t.Vals)))
			if !ok || (prof.Guarded && op.Kind == "merge" && viewOf(r, ref, prev, len(t.Vals)).CommonDelete(op.Child, op.Branch)) {
				continue
			}
			h.Ops = append(h.Ops, op)
		} else if prof != nil {
			op = prof.Next(rng, h.Cfg, viewOf(r, ref, prev, len(t.Vals)))
			h.Ops = append(h.Ops, op)
		} else {
			op = h.Ops[i]
		}
		step++
		out.Stats["op:"+op.Kind]++
		// delete-where: truth set by the plain runtime over the expected contents
		var dels []int
		if op.Kind == "delwhere" {
			dels, err = r.PredTrue(op.Pred, dedup(allToks(len(t.Vals))))
			if err != nil {
				out.Err = fmt.Errorf("step %d: plain filter %q: %w", step, op.Pred, err)
				return out
			}
			// complement exactness of kernel.DeleteFilter on the plain runtime
			keep, err := r.PredTrue(fmt.Sprintf("!(%s) or missing(%s)", op.Pred, op.Pred), allToks(len(t.Vals)))
			if err == nil && !EqInts(ms(append(append([]int(nil), keep...), dels...)), allToks(len(t.Vals))) {
				fail("oracle", "C14:delete-where:complement-not-exact", fmt.Sprintf("`where %s` and `where !(%s) or missing(%s)` do not partition the values", op.Pred, op.Pred, op.Pred), step)
			}
		}
		tipsBefore := map[int]int{}
		for k, v := range r.Tips {
			tipsBefore[k] = v
		}
		ncBefore := len(r.Commits)
		if opt.ColdOps && step%2 == 1 {
			switch op.Kind {
			case "merge", "revert", "delete", "compact", "delwhere":
				if l2, err := r.Reopen(); err == nil {
					r.L = l2
					out.Stats["cold-op:"+op.Kind]++
				}
			}
		}
		aerr := r.Apply(op)
		var coldC []CommitObs
		var coldB []BranchObs
		if opt.ColdProbe {
			n := len(r.Commits)
			order := make([]int, n)
			for k := range order {
				order[k] = n - k
			}
			if step%3 == 2 {
				rand.New(rand.NewSource(int64(step)*7919+int64(n))).Shuffle(n, func(a, b int) { order[a], order[b] = order[b], order[a] })
			}
			coldC, coldB, _ = r.ColdProbe(order)
		}
		obs, oerr := r.Observe(opt.Commits)
		if oerr != nil {
			out.Err = fmt.Errorf("step %d (%s): observe: %w", step, op, oerr)
			return out
		}
		obs.Res = ErrClass(aerr)
		if aerr != nil {
			obs.ErrText = aerr.Error()
		}
		obs.Dels = dels
		obs.ColdCommits, obs.ColdBranches = coldC, coldB
		out.Obs = append(out.Obs, obs)
		out.Stats["res:"+op.Kind+":"+trimOther(obs.Res)]++
		if obs.Res == "panic" {
			fail("panic", opt.Prop+":panic:"+op.Kind, obs.ErrText, step)
		}
		checkStep(r, t, ref, op, obs, prev, tipsBefore, ncBefore, opt, step, fail)
		if opt.Determinism > 0 {
			checkDeterminism(r, t, obs, opt, step, fail)
		}
		prev = obs
		if opt.PruneSnaps {
			r.PruneSnaps(len(t.Vals))
		}
		if stop && opt.StopOnFail {
			break
		}
	}
	return out
}

// Benign failure classes leave the lake usable; a history continues after them.
func Benign(key string) bool {
	return strings.HasPrefix(key, "C14:this-key:") || strings.HasPrefix(key, "C14:scan:tie-order:") ||
		key == "C15:branch:empty-branch-reads-main" || key == "C15:merge:delete-of-merged-object" ||
		key == "C14:lister-order:empty-bytes-key"
}

func trimOther(s string) string {
	if len(s) > 6 && s[:6] == "other:" {
		return "other"
	}
	return s
}

func allToks(n int) []int {
	out := make([]int, n)
	for i := range out {
		out[i] = i
	}
	return out
}

// checkStep runs the direct oracles on the real observations of one step.
func checkStep(r *Real, t *Table, ref *refState, op Op, obs, prev *StepObs, tipsBefore map[int]int, ncBefore int,
	opt Options, step int, fail func(kind, key, what string, step int)) {
	P := opt.Prop
	ok := obs.Res == "ok"
	b := op.Branch
	cHazard := ok && r.Cfg.Key != "this" && compactHazard(r.Cfg, prev, op)
	isNew := func(id int) bool {
		if prev == nil {
			return true
		}
		for _, pb := range prev.Branches {
			for _, o := range pb.Objs {
				if o.ID == id {
					return false
				}
			}
		}
		return true
	}
	prevLive := func(name int) ([]int, bool) {
		if prev == nil {
			return nil, true
		}
		pb := findBranch(prev, name)
		if pb == nil || (pb.Status != "ok" && pb.Status != "missing-file") {
			return nil, pb == nil
		}
		return liveOf(pb), true
	}
	vacAffected := func(ids []int) bool {
		for _, id := range ids {
			if r.Vacuumed[id] {
				return true
			}
		}
		return false
	}

	// ---- expected state (trivial references) -----------------------------------------
	var expObjs []int // expected object set of the op's branch (merge / revert / delete), nil = not predicted
	expObjsSet := false
	if ok {
		switch op.Kind {
		case "load":
			ref.expected[b] = ms(append(append([]int(nil), ref.expected[b]...), op.Vals...))
		case "delete":
			ref.expected[b] = MsSub(ref.expected[b], contentOf(r, dedup(op.IDs)))
			if pl, known := prevLive(b); known {
				expObjs, expObjsSet = SetSub(pl, op.IDs), true
			}
		case "delwhere":
			ref.expected[b] = MsSub(ref.expected[b], intersectMs(ref.expected[b], obs.Dels))
		case "branch":
			if op.Commit == 0 {
				ref.expected[op.Name] = nil
			} else {
				ref.expected[op.Name] = contentOf(r, ref.objsAt[op.Commit])
			}
		case "merge":
			pt, ct := tipsBefore[b], tipsBefore[op.Child]
			anc := CommonAncestor(r.Parent[:ncBefore], pt, ct)
			ao, ok1 := ref.objsAt[anc]
			co, ok2 := ref.objsAt[ct]
			po, ok3 := ref.objsAt[pt]
			if ok1 && ok2 && ok3 {
				added, deleted := SetSub(co, ao), SetSub(ao, co)
				expObjs, expObjsSet = SetSub(SetUnion(po, added), deleted), true
				// "minus everything the child deleted since then", read literally, also covers
				// objects the child added after the ancestor and deleted again; if the parent
				// took such an object over in an earlier merge, the code leaves it there.
				var everSeen []int
				for _, c := range PathOf(r.Parent[:ncBefore], ct) {
					if c == anc {
						break
					}
					everSeen = SetUnion(everSeen, ref.objsAt[c])
				}
				expLiteral := SetSub(SetUnion(po, added), SetUnion(deleted, SetSub(everSeen, co)))
				if !EqInts(expLiteral, expObjs) {
					if pb := findBranch(obs, b); pb != nil && pb.Status == "ok" {
						if live := liveOf(pb); EqInts(live, expObjs) {
							if P == "C15" { // (C15's business; other plans just follow the code)
								fail("oracle", "C15:merge:delete-of-merged-object", fmt.Sprintf("merge b%d->b%d: the child deleted object(s) %v that it had added after the common ancestor c%d and that the parent took over in an earlier merge; the parent still holds them after the merge (has %v, property expects %v)", op.Child, b, SetSub(expObjs, expLiteral), anc, live, expLiteral), step)
							}
						} else if EqInts(live, expLiteral) {
							expObjs = expLiteral
						}
					}
				}
				ref.expected[b] = contentOf(r, expObjs)
				if cd := SetSub(deleted, po); len(cd) > 0 {
					// both sides deleted the same object(s)
					pb := findBranch(obs, b)
					if pb != nil && pb.Status != "ok" {
						fail("oracle", "C15:merge:common-delete", fmt.Sprintf("merge b%d->b%d succeeded although object(s) %v deleted by the child since the common ancestor c%d are already absent from the parent; parent is now unreadable (%s)", op.Child, b, cd, anc, pb.Status), step)
						return
					}
				}
			}
		case "revert":
			c := op.Commit
			if c >= 1 && c <= ncBefore {
				co, ok1 := ref.objsAt[c]
				var po []int
				ok2 := true
				if p := r.Parent[c-1]; p != 0 {
					po, ok2 = ref.objsAt[p]
				}
				tp, ok3 := ref.objsAt[tipsBefore[b]]
				if tipsBefore[b] == 0 {
					tp, ok3 = nil, true
				}
				if ok1 && ok2 && ok3 {
					added, deleted := SetSub(co, po), SetSub(po, co)
					expObjs, expObjsSet = SetUnion(SetSub(tp, added), deleted), true
					ref.expected[b] = contentOf(r, expObjs)
					if orig, isRR := ref.revertedAt[c]; isRR && tipsBefore[b] == c {
						// reverting the revert (at the tip) restores the prior contents
						if want := ref.objsAt[orig]; !EqInts(want, expObjs) {
							fail("oracle", P+":revert-revert:reference-mismatch", fmt.Sprintf("internal: revert-revert expectation %v vs prior %v", expObjs, want), step)
						}
					}
				}
			}
		}
	}

	// ---- a delete-where that finds nothing to delete must have nothing to delete --------
	if op.Kind == "delwhere" && obs.Res == "empty" {
		if should := intersectMs(ref.expected[b], obs.Dels); len(should) > 0 {
			key := P + ":contents:delwhere-empty"
			if allTypedNull(t, should) {
				key = "C14:delete-where:typed-null-key"
			}
			fail("oracle", key, fmt.Sprintf("%s reported an empty transaction although the predicate is true of %v on b%d", op, should, b), step)
		}
	}

	// ---- failed operations leave everything untouched ---------------------------------
	if !ok && prev != nil && op.Kind != "vacuum" {
		for i := range obs.Branches {
			nb := &obs.Branches[i]
			pb := findBranch(prev, nb.Name)
			if pb == nil {
				continue
			}
			if nb.Tip != pb.Tip || nb.Status != pb.Status || !EqInts(liveOf(nb), liveOf(pb)) || !EqInts(ms(nb.Scan), ms(pb.Scan)) {
				fail("oracle", fmt.Sprintf("%s:failed-op-visible:%s", P, op.Kind), fmt.Sprintf("%s failed (%s) but branch b%d changed: tip c%d->c%d status %s->%s objects %v->%v", op, obs.ErrText, nb.Name, pb.Tip, nb.Tip, pb.Status, nb.Status, liveOf(pb), liveOf(nb)), step)
			}
		}
	}

	// ---- every branch: readable, contents, order, metadata -----------------------------
	for i := range obs.Branches {
		nb := &obs.Branches[i]
		live := liveOf(nb)
		if nb.Status != "ok" {
			if nb.Status == "missing-file" && vacAffected(live) {
				continue // vacuumed on purpose
			}
			key := fmt.Sprintf("%s:unreadable:%s", P, op.Kind)
			if op.Kind == "delete" && ok && hasDup(op.IDs) {
				key = "C14:delete:duplicate-id"
			}
			if (op.Kind == "addvec" || op.Kind == "delvec") && ok && hasDup(op.IDs) {
				key = "C14:" + op.Kind + ":duplicate-id"
			}
			pb := (*BranchObs)(nil)
			if prev != nil {
				pb = findBranch(prev, nb.Name)
			}
			if pb == nil || pb.Status == "ok" {
				fail("oracle", key, fmt.Sprintf("after %s (%s) branch b%d cannot be read: %s", op, obs.Res, nb.Name, nb.Status), step)
			}
			continue
		}
		want, tracked := ref.expected[nb.Name]
		if tracked && nb.Tip == 0 && nb.Name != 0 && len(want) == 0 && len(nb.Scan) > 0 {
			// a branch without any commit is resolved to main by the analyzer
			if mb := findBranch(obs, 0); mb != nil && EqInts(ms(mb.Scan), ms(nb.Scan)) {
				fail("oracle", "C15:branch:empty-branch-reads-main", fmt.Sprintf("after %s branch b%d, which has no commit, shows main's contents %v", op, nb.Name, ms(nb.Scan)), step)
				continue
			}
		}
		if tracked && !EqInts(ms(nb.Scan), want) {
			key := fmt.Sprintf("%s:contents:%s", P, op.Kind)
			if extra := MsSub(nb.Scan, want); op.Kind == "delwhere" && len(MsSub(want, nb.Scan)) == 0 && allTypedNull(t, extra) {
				key = "C14:delete-where:typed-null-key"
			}
			fail("oracle", key, fmt.Sprintf("after %s branch b%d holds %v, expected (loaded - deleted) %v; missing %v extra %v", op, nb.Name, ms(nb.Scan), want, MsSub(want, nb.Scan), MsSub(nb.Scan, want)), step)
		}
		if nb.Name == b && expObjsSet && !EqInts(live, expObjs) {
			fail("oracle", fmt.Sprintf("%s:objects:%s", P, op.Kind), fmt.Sprintf("after %s branch b%d has objects %v, expected %v", op, nb.Name, live, expObjs), step)
		}
		// the lister (`:objects`) hands the objects over ordered by range start
		listerWhat, listerEmpty := listerCheck(t, r.Cfg, nb)
		// unfiltered scan in pool-key order, null/missing largest
		for j := 1; j < len(nb.Scan); j++ {
			c := KeyCmp(t.Vals[nb.Scan[j-1]].Key, t.Vals[nb.Scan[j]].Key)
			if r.Cfg.Desc {
				c = -c
			}
			if c > 0 {
				key := fmt.Sprintf("%s:scan-order", P)
				if r.Cfg.Key == "this" {
					key = "C14:this-key:scan-order"
				} else if (listerWhat != "" && listerEmpty) || emptyBytesHazard(r.Cfg, nb) {
					// the objects reached the slicer out of range-start order (0 / "" / null range
					// starts, see listerCheck): partitions are then cut in the wrong place
					key = "C14:lister-order:empty-bytes-key"
				}
				if cHazard && nb.Name == b && key != "C14:this-key:scan-order" {
					key = CompactHazardKey
				}
				fail("oracle", key, fmt.Sprintf("after %s scan of b%d is out of pool-key order at %d: %s then %s", op, nb.Name, j, t.Vals[nb.Scan[j-1]].Text, t.Vals[nb.Scan[j]].Text), step)
				break
			}
		}
		// the lister (`:objects`) hands the objects over ordered by range start
		if what, emptyBytes := listerWhat, listerEmpty; what != "" && r.Cfg.Key != "this" {
			key := fmt.Sprintf("%s:lister-order", P)
			if emptyBytes {
				// range starts whose zcode bytes are both empty (int64 0, "", null): lessFunc
				// takes them for byte-equal and is not asymmetric
				key = "C14:lister-order:empty-bytes-key"
			}
			if P == "C14" || !emptyBytes {
				fail("oracle", key, fmt.Sprintf("after %s :objects of b%d: %s", op, nb.Name, what), step)
			}
		}
		// object metadata and file contents
		var all []int
		for _, o := range nb.Objs {
			if o.Gone {
				continue
			}
			all = append(all, o.Toks...)
			if first, seen := r.Content[o.ID]; seen && !EqInts(first, o.Toks) {
				fail("oracle", fmt.Sprintf("%s:object-modified", P), fmt.Sprintf("data object %d changed on disk: was %v, now %v", o.ID, first, o.Toks), step)
			}
			if what := seekCheck(t, r.Cfg, &o); what != "" {
				key := fmt.Sprintf("%s:seek-index:%s", P, op.Kind)
				if r.Cfg.Key == "this" {
					key = "C14:this-key:seek-index"
				} else if cHazard && isNew(o.ID) {
					key = CompactHazardKey
				}
				fail("oracle", key, fmt.Sprintf("after %s object %d of b%d: %s", op, o.ID, nb.Name, what), step)
			}
			if what := metaCheck(t, r.Cfg, &o); what != "" {
				key := fmt.Sprintf("%s:object-meta:%s", P, op.Kind)
				if r.Cfg.Key == "this" && o.Min == "n" && o.Max == "n" && o.Count == len(o.Toks) {
					key = "C14:this-key:object-meta"
				} else if cHazard && isNew(o.ID) {
					key = CompactHazardKey
				}
				fail("oracle", key, fmt.Sprintf("after %s object %d of b%d: %s", op, o.ID, nb.Name, what), step)
			}
		}
		if !EqInts(ms(all), ms(nb.Scan)) {
			fail("oracle", fmt.Sprintf("%s:scan-vs-objects", P), fmt.Sprintf("after %s scan of b%d returns %v but its objects hold %v", op, nb.Name, ms(nb.Scan), ms(all)), step)
		}
	}

	// ---- vacuum removes only objects absent from the commit's snapshot ----------------
	if op.Kind == "vacuum" && ok {
		if at, known := ref.objsAt[op.Commit]; known {
			gone := setOf(r.LastVacuumed)
			for _, id := range at {
				if gone[id] {
					fail("oracle", P+":vacuum:live-object", fmt.Sprintf("vacuum(c%d) removed object %d which is in that commit's snapshot", op.Commit, id), step)
				}
			}
		}
	}

	// ---- record the new commit, re-check every earlier commit (C13) -------------------
	if len(r.Commits) > ncBefore {
		c := len(r.Commits)
		if nb := findBranch(obs, b); nb != nil && (nb.Status == "ok" || nb.Status == "missing-file") {
			ref.objsAt[c] = liveOf(nb)
		}
		if op.Kind == "revert" && ok {
			ref.lastRevert = c
			ref.revertedAt[c] = tipsBefore[b]
		}
	}
	if opt.Commits {
		for _, co := range obs.Commits {
			canon := t.CanonTies(co.Scan)
			first, seen := ref.statAt[co.ID]
			if !seen {
				ref.statAt[co.ID] = co.Status
				ref.scanAt[co.ID] = canon
				// a new commit shows what its branch shows
				if nb := findBranch(obs, b); nb != nil && co.ID == len(r.Commits) && len(r.Commits) > ncBefore {
					if nb.Status != co.Status || (co.Status == "ok" && !EqInts(canon, t.CanonTies(nb.Scan))) {
						fail("oracle", P+":commit-vs-branch", fmt.Sprintf("after %s pool@c%d (%s) %v differs from pool@b%d (%s) %v", op, co.ID, co.Status, co.Scan, b, nb.Status, nb.Scan), step)
					}
				}
				continue
			}
			if first != "ok" {
				continue
			}
			if vacAffected(ref.objsAt[co.ID]) {
				continue
			}
			if co.Status != "ok" {
				fail("oracle", fmt.Sprintf("%s:commit-unreadable:%s", P, op.Kind), fmt.Sprintf("after %s commit c%d can no longer be read: %s", op, co.ID, co.Status), step)
			} else if !EqInts(canon, ref.scanAt[co.ID]) {
				fail("oracle", fmt.Sprintf("%s:commit-changed:%s", P, op.Kind), fmt.Sprintf("after %s pool@c%d returns %v, at creation it returned %v", op, co.ID, canon, ref.scanAt[co.ID]), step)
			}
		}
	}
	if len(obs.ColdCommits) > 0 || len(obs.ColdBranches) > 0 {
		checkCold(r, t, ref, op, obs, opt, step, vacAffected, fail)
	}
}

// checkCold compares what a freshly opened handle returned (queried before the long-lived
// handle saw the new commit) with the references: earlier commits as at their creation, the
// new commit and the branches as the long-lived handle sees them.
func checkCold(r *Real, t *Table, ref *refState, op Op, obs *StepObs, opt Options, step int,
	vacAffected func([]int) bool, fail func(kind, key, what string, step int)) {
	P := opt.Prop
	warm := map[int]CommitObs{}
	for _, co := range obs.Commits {
		warm[co.ID] = co
	}
	var order []int
	for _, co := range obs.ColdCommits {
		order = append(order, co.ID)
	}
	for _, co := range obs.ColdCommits {
		wantStatus, seen := ref.statAt[co.ID]
		want := ref.scanAt[co.ID]
		if w, ok := warm[co.ID]; ok && (!seen || co.ID == len(r.Commits)) {
			wantStatus, want, seen = w.Status, t.CanonTies(w.Scan), true
		}
		if !seen || wantStatus != "ok" || vacAffected(ref.objsAt[co.ID]) {
			continue
		}
		if co.Status != "ok" {
			fail("oracle", fmt.Sprintf("%s:cold-commit-unreadable:%s", P, op.Kind), fmt.Sprintf("after %s a freshly opened handle (commits queried in order %v) cannot read commit c%d: %s", op, order, co.ID, co.Status), step)
			return
		}
		if got := t.CanonTies(co.Scan); !EqInts(got, want) {
			fail("oracle", fmt.Sprintf("%s:cold-commit-changed:%s", P, op.Kind), fmt.Sprintf("after %s a freshly opened handle (commits queried in order %v) returns %v for pool@c%d; the commit holds %v", op, order, got, co.ID, want), step)
			return
		}
	}
	for _, cb := range obs.ColdBranches {
		wb := findBranch(obs, cb.Name)
		if wb == nil || wb.Status != "ok" {
			continue
		}
		if cb.Status != "ok" || !EqInts(t.CanonTies(cb.Scan), t.CanonTies(wb.Scan)) {
			fail("oracle", fmt.Sprintf("%s:cold-branch:%s", P, op.Kind), fmt.Sprintf("after %s a freshly opened handle reads branch b%d as (%s) %v, the long-lived handle as %v", op, cb.Name, cb.Status, cb.Scan, wb.Scan), step)
			return
		}
	}
}

// allTypedNull: every token's pool key is a typed null (`null(int64)`), for which the filter
// comparison and the range pruner's compare() disagree.
func allTypedNull(t *Table, toks []int) bool {
	if len(toks) == 0 {
		return false
	}
	for _, k := range toks {
		if !strings.Contains(t.Vals[k].Text, "null(") {
			return false
		}
	}
	return true
}

func intersectMs(have, set []int) []int {
	in := setOf(set)
	var out []int
	for _, x := range have {
		if in[x] {
			out = append(out, x)
		}
	}
	return out
}

// listerCheck: in :objects order the range starts (min ascending / max descending) never
// decrease.  (The order among objects with the same start is not checked: lessFunc compares
// range ends only when their BYTES differ, and e.g. the int64 0 and null both have empty
// bytes, so such objects come in Go map order.)
func listerCheck(t *Table, cfg Cfg, b *BranchObs) (what string, emptyBytes bool) {
	byID := map[int]*ObjObs{}
	for i := range b.Objs {
		byID[b.Objs[i].ID] = &b.Objs[i]
	}
	for i := 1; i < len(b.Lister); i++ {
		x, y := byID[b.Lister[i-1]], byID[b.Lister[i]]
		xf, yf := x.Min, y.Min
		sgn := 1
		if cfg.Desc {
			xf, yf = x.Max, y.Max
			sgn = -1
		}
		if sgn*KeyCmp(xf, yf) > 0 {
			empty := func(k string) bool { return k == "i0" || k == "s-" || k == "n" }
			return fmt.Sprintf("object %d [%s,%s] is listed before object %d [%s,%s]", x.ID, x.Min, x.Max, y.ID, y.Min, y.Max), empty(xf) && empty(yf)
		}
	}
	return "", false
}

// emptyBytesHazard: two objects of the branch have different range starts (min ascending / max
// descending) that both have empty zcode bytes (int64 0, "", null): lessFunc is then not
// asymmetric for them and their order in the lister follows Go map iteration.
func emptyBytesHazard(cfg Cfg, b *BranchObs) bool {
	empty := func(k string) bool { return k == "i0" || k == "s-" || k == "n" }
	var starts []string
	for _, o := range b.Objs {
		k := o.Min
		if cfg.Desc {
			k = o.Max
		}
		if empty(k) {
			starts = append(starts, k)
		}
	}
	for i := range starts {
		for j := i + 1; j < len(starts); j++ {
			if KeyCmp(starts[i], starts[j]) != 0 {
				return true
			}
		}
	}
	return false
}

// compactHazard: op is a compaction whose input objects (as observed before the step) have the
// empty-bytes lister hazard among themselves.  The compaction reads them through the same
// lister / slicer / merge pipeline as a scan and writes the result with the SortedWriter,
// which trusts its input: partitions cut in the wrong place then become a data object whose
// values are not in pool-key order.
func compactHazard(cfg Cfg, prev *StepObs, op Op) bool {
	if op.Kind != "compact" || prev == nil {
		return false
	}
	pb := findBranch(prev, op.Branch)
	if pb == nil {
		return false
	}
	in := setOf(op.IDs)
	sub := BranchObs{}
	for _, o := range pb.Objs {
		if in[o.ID] {
			sub.Objs = append(sub.Objs, o)
		}
	}
	return emptyBytesHazard(cfg, &sub)
}

// CompactHazardKey reports what a compaction of objects with the empty-bytes lister hazard
// wrote (same defect as lister-order:empty-bytes-key; the pool is damaged, so the history
// stops there).
const CompactHazardKey = "C14:lister-order:empty-bytes-key:compact"

// seekCheck: the seek index entries partition the object's values (val_off / val_cnt chain
// from 0 to count, no empty entry) and every entry's [min,max] is exactly the key range of the
// values it covers.
func seekCheck(t *Table, cfg Cfg, o *ObjObs) string {
	off := 0
	for i, e := range o.Seek {
		if e.Off != off || e.Cnt <= 0 || off+e.Cnt > len(o.Toks) {
			return fmt.Sprintf("seek entry %d covers values [%d,%d) but the previous entries end at %d (object holds %d values)", i, e.Off, e.Off+e.Cnt, off, len(o.Toks))
		}
		lo, hi := t.Vals[o.Toks[off]].Key, t.Vals[o.Toks[off]].Key
		for _, k := range o.Toks[off : off+e.Cnt] {
			key := t.Vals[k].Key
			if KeyCmp(key, lo) < 0 {
				lo = key
			}
			if KeyCmp(key, hi) > 0 {
				hi = key
			}
		}
		if KeyCmp(e.Min, lo) != 0 || KeyCmp(e.Max, hi) != 0 {
			return fmt.Sprintf("seek entry %d has min/max %s/%s but the values it covers span %s/%s", i, e.Min, e.Max, lo, hi)
		}
		off += e.Cnt
	}
	if off != len(o.Toks) {
		return fmt.Sprintf("seek entries cover %d of the object's %d values", off, len(o.Toks))
	}
	return ""
}

// metaCheck: count and key range of an object equal those of the values it holds, which
// are in pool-key order.
func metaCheck(t *Table, cfg Cfg, o *ObjObs) string {
	if o.Count != len(o.Toks) {
		return fmt.Sprintf("count %d but the object holds %d values", o.Count, len(o.Toks))
	}
	if len(o.Toks) == 0 {
		return "empty object"
	}
	lo, hi := t.Vals[o.Toks[0]].Key, t.Vals[o.Toks[0]].Key
	for j, k := range o.Toks {
		key := t.Vals[k].Key
		if KeyCmp(key, lo) < 0 {
			lo = key
		}
		if KeyCmp(key, hi) > 0 {
			hi = key
		}
		if j > 0 {
			c := KeyCmp(t.Vals[o.Toks[j-1]].Key, key)
			if cfg.Desc {
				c = -c
			}
			if c > 0 {
				return fmt.Sprintf("values not in pool-key order at %d", j)
			}
		}
	}
	if KeyCmp(o.Min, lo) != 0 || KeyCmp(o.Max, hi) != 0 {
		return fmt.Sprintf("min/max %s/%s but the values span %s/%s", o.Min, o.Max, lo, hi)
	}
	return ""
}

// checkDeterminism repeats the unfiltered scan of every readable branch on the same and
// on a reopened handle; the sequences must be identical ("ties ordered deterministically").
func checkDeterminism(r *Real, t *Table, obs *StepObs, opt Options, step int, fail func(kind, key, what string, step int)) {
	for i := range obs.Branches {
		nb := &obs.Branches[i]
		if nb.Status != "ok" || len(nb.Scan) < 2 {
			continue
		}
		var seqs [][]int
		seqs = append(seqs, nb.Scan)
		for k := 0; k < opt.Determinism; k++ {
			s, err := r.scan(BranchName(nb.Name))
			if err != nil {
				fail("oracle", opt.Prop+":rescan-failed", fmt.Sprintf("repeated scan of b%d failed: %v", nb.Name, err), step)
				return
			}
			seqs = append(seqs, s)
		}
		if opt.Reopen {
			l2, err := r.Reopen()
			if err == nil {
				old := r.L
				r.L = l2
				s, err := r.scan(BranchName(nb.Name))
				r.L = old
				if err != nil {
					fail("oracle", opt.Prop+":rescan-failed", fmt.Sprintf("scan of b%d through a reopened handle failed: %v", nb.Name, err), step)
					return
				}
				seqs = append(seqs, s)
			}
		}
		for _, s := range seqs[1:] {
			if EqInts(s, seqs[0]) {
				continue
			}
			key := opt.Prop + ":scan:nondeterministic"
			if EqInts(t.CanonTies(s), t.CanonTies(seqs[0])) {
				// only the order among values of equal pool key differs
				key = "C14:scan:tie-order:equal-keys"
			} else if emptyBytesHazard(r.Cfg, nb) && EqInts(ms(s), ms(seqs[0])) {
				// the lister order of objects with 0 / "" / null range starts follows Go map order
				key = "C14:lister-order:empty-bytes-key"
			}
			fail("oracle", key, fmt.Sprintf("the same unfiltered scan of b%d returned [%s] and then [%s]", nb.Name, strings.ReplaceAll(strings.TrimSpace(t.Texts(seqs[0])), "\n", " "), strings.ReplaceAll(strings.TrimSpace(t.Texts(s)), "\n", " ")), step)
			return
		}
	}
}

// equalRangeObjects: the branch has two objects with identical [min,max]; their relative
// order in the lister is the Go map iteration order of the snapshot.
func equalRangeObjects(b *BranchObs) bool {
	for i := range b.Objs {
		for j := i + 1; j < len(b.Objs); j++ {
			if b.Objs[i].Min == b.Objs[j].Min && b.Objs[i].Max == b.Objs[j].Max {
				return true
			}
		}
	}
	return false
}

// ---- glue to hlib.Ctx ------------------------------------------------------------------

// Report merges an outcome into the check context and returns the model request line
// (empty if the history could not be observed).
func Report(c *hlib.Ctx, o *Outcome, opt Options) string {
	if o.Err != nil {
		c.Fail("correspondence", opt.Prop+":harness-observe", o.Err.Error(), o.H)
		return ""
	}
	for k, v := range o.Stats {
		c.StatN(k, v)
	}
	c.Stat(fmt.Sprintf("cfg:key=%s", o.H.Cfg.Key))
	c.Stat(fmt.Sprintf("cfg:desc=%v", o.H.Cfg.Desc))
	c.Stat(fmt.Sprintf("cfg:thresh=%d", o.H.Cfg.Thresh))
	c.Stat(fmt.Sprintf("cfg:stride=%d", o.H.Cfg.Stride))
	c.Stat(fmt.Sprintf("len:%d", len(o.H.Ops)/4*4))
	maxObjs := 0
	for _, ob := range o.Obs {
		for _, b := range ob.Branches {
			if len(b.Objs) > maxObjs {
				maxObjs = len(b.Objs)
			}
		}
	}
	c.Stat(fmt.Sprintf("max-objects:%d", maxObjs/3*3))
	c.Eval(o.H.Summary())
	c.Sample(map[string]any{"history": o.H.Summary(), "values": len(o.H.Vals)})
	for _, f := range o.Fails {
		h := *o.H
		if f.Step+1 < len(h.Ops) {
			h.Ops = h.Ops[:f.Step+1]
		}
		c.Fail(f.Kind, f.Key, f.What+" | history: "+h.Summary(), &h)
	}
	return ModelRequest(opt.Prop, o.H, o.T, o.Obs)
}

// CompareModel checks the model's answer against the real observations of a history.
func CompareModel(c *hlib.Ctx, o *Outcome, opt Options, ans string) {
	mo, err := ParseModelAnswer(ans)
	if err != nil {
		c.Fail("correspondence", opt.Prop+":model-answer", fmt.Sprintf("%v | history: %s", err, o.H.Summary()), o.H)
		return
	}
	// a history that stopped at a real-code failure is compared up to the step before it
	n := len(o.Obs)
	for _, f := range o.Fails {
		if f.Kind != "correspondence" && !Benign(f.Key) && f.Step < n {
			n = f.Step
		}
	}
	if len(mo) < n {
		c.Fail("correspondence", opt.Prop+":model-answer", fmt.Sprintf("model answered %d steps, expected %d", len(mo), n), o.H)
		return
	}
	hazard := false
	for i := 0; i < n; i++ {
		c.Res.ModelCases++
		for j := range o.Obs[i].Branches {
			if emptyBytesHazard(o.H.Cfg, &o.Obs[i].Branches[j]) {
				hazard = true
			}
		}
		if d := CompareStep(o.T, o.H.Cfg, o.Obs[i], mo[i], opt.Commits, hazard); d != "" {
			if i > 0 && o.H.Cfg.Key != "this" && compactHazard(o.H.Cfg, o.Obs[i-1], o.H.Ops[i]) {
				// the real compaction read its objects in map-iteration order (known finding
				// lister-order:empty-bytes-key) and may have cut its partitions differently:
				// nothing after this step is comparable
				return
			}
			h := *o.H
			h.Ops = h.Ops[:i+1]
			c.Fail("correspondence", fmt.Sprintf("%s:model:%s", opt.Prop, o.H.Ops[i].Kind), fmt.Sprintf("step %d %s: %s | history: %s", i, o.H.Ops[i], d, h.Summary()), &h)
			return
		}
	}
}
