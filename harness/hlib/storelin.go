package hlib

// Linearizability oracle for lake histories (C12) and all-or-nothing oracle for crashed
// operations (C17): is there a sequential order of the operations, consistent with their
// real-time order, in which every acknowledged operation has exactly its sequential effect,
// every operation that reported failure has none, every unfinished (crashed) operation has
// either all or none of its effect, and which ends in the observed visible state?
//
// The sequential specification is independent of the Lean model: it is the documented API
// behaviour (names unique; a commit is appended to its branch's chain exactly once; loads add
// and deletes remove data objects; a new branch starts at its parent commit).

import (
	"fmt"
	"sort"
	"strings"
)

type specBranch struct {
	objs  map[int]bool
	chain []int // commit labels, oldest first; -1 = commit of an unfinished operation
}

func (b *specBranch) clone() *specBranch {
	n := &specBranch{objs: map[int]bool{}, chain: append([]int(nil), b.chain...)}
	for k := range b.objs {
		n.objs[k] = true
	}
	return n
}

type specPool struct {
	lbl      int
	name     int
	branches map[int]*specBranch
}

type specDelta struct{ adds, dels []int }

type specState struct {
	pools   map[int]*specPool   // by label
	commits map[int]*specBranch // commit label -> state at that commit
	deltas  map[int]specDelta   // commit label -> objects it added / deleted (for revert)
}

func newSpecState() *specState {
	return &specState{pools: map[int]*specPool{}, commits: map[int]*specBranch{}, deltas: map[int]specDelta{}}
}

func (s *specState) clone() *specState {
	n := newSpecState()
	for l, p := range s.pools {
		np := &specPool{lbl: p.lbl, name: p.name, branches: map[int]*specBranch{}}
		for k, b := range p.branches {
			np.branches[k] = b.clone()
		}
		n.pools[l] = np
	}
	for l, c := range s.commits {
		n.commits[l] = c // immutable once recorded
	}
	for l, d := range s.deltas {
		n.deltas[l] = d
	}
	return n
}

func (s *specState) nameInUse(name int) bool {
	for _, p := range s.pools {
		if p.name == name {
			return true
		}
	}
	return false
}

func (s *specState) key() string {
	var ps []string
	for _, p := range s.pools {
		var bs []string
		for k, b := range p.branches {
			var os []int
			for o := range b.objs {
				os = append(os, o)
			}
			sort.Ints(os)
			bs = append(bs, fmt.Sprintf("%d:%v:%v", k, os, b.chain))
		}
		sort.Strings(bs)
		ps = append(ps, fmt.Sprintf("%d/%d{%s}", p.lbl, p.name, strings.Join(bs, ";")))
	}
	sort.Strings(ps)
	return strings.Join(ps, "|")
}

// storeSpecApply: can operation rec with its observed result take place in state s?  Returns
// the successor state.  asOK forces the "ok" reading (used for unfinished operations).
func storeSpecApply(s *specState, rec *OpRecord, res string, strict bool) (*specState, bool) {
	if !strict && res != "ok" && res != "panic" && !strings.HasPrefix(res, "other:") {
		// The property only demands that an operation reporting failure leaves no trace;
		// whether the error class is the one a sequential execution would give is recorded
		// as a statistic, not as a failure.
		return s, true
	}
	op := rec.Op
	pool := s.pools[op.Pool]
	var br *specBranch
	if pool != nil {
		if op.Kind == "load" || op.Kind == "delete" || op.Kind == "compact" || op.Kind == "revert" {
			br = pool.branches[op.Branch]
		} else {
			br = pool.branches[op.Name]
		}
	}
	switch res {
	case "retries", "commitfailed", "constraint", "nosuchkey", "io", "unresolved":
		// contention / environment failures: allowed anywhere, no effect
		return s, true
	}
	switch op.Kind {
	case "createPool":
		switch res {
		case "ok":
			if s.nameInUse(op.Name) {
				return nil, false
			}
			n := s.clone()
			n.pools[op.Lbl] = &specPool{lbl: op.Lbl, name: op.Name, branches: map[int]*specBranch{0: {objs: map[int]bool{}}}}
			return n, true
		case "exists", "keyexists":
			return s, s.nameInUse(op.Name)
		}
	case "renamePool":
		switch res {
		case "ok":
			if pool == nil || s.nameInUse(op.Name) {
				return nil, false
			}
			n := s.clone()
			n.pools[op.Pool].name = op.Name
			return n, true
		case "notfound":
			return s, pool == nil
		case "exists":
			return s, s.nameInUse(op.Name)
		}
	case "removePool":
		switch res {
		case "ok":
			if pool == nil {
				return nil, false
			}
			n := s.clone()
			delete(n.pools, op.Pool)
			return n, true
		case "notfound":
			return s, pool == nil
		}
	case "createBranch":
		switch res {
		case "ok":
			if pool == nil || br != nil {
				return nil, false
			}
			nb := &specBranch{objs: map[int]bool{}}
			if op.Parent != 0 {
				c := s.commits[op.Parent]
				if c == nil {
					return nil, false
				}
				nb = c.clone()
			}
			n := s.clone()
			n.pools[op.Pool].branches[op.Name] = nb
			return n, true
		case "notfound":
			return s, pool == nil
		case "exists", "keyexists":
			return s, br != nil
		}
	case "removeBranch":
		switch res {
		case "ok":
			if br == nil {
				return nil, false
			}
			n := s.clone()
			delete(n.pools[op.Pool].branches, op.Name)
			return n, true
		case "notfound":
			return s, br == nil
		}
	case "load":
		switch res {
		case "ok":
			if br == nil || br.objs[op.Obj] {
				return nil, false
			}
			n := s.clone()
			nb := n.pools[op.Pool].branches[op.Branch]
			nb.objs[op.Obj] = true
			lbl := op.Lbl
			if rec.Res != "ok" {
				lbl = -1
			}
			nb.chain = append(nb.chain, lbl)
			n.commits[op.Lbl] = nb.clone()
			n.deltas[op.Lbl] = specDelta{adds: []int{op.Obj}}
			return n, true
		case "notfound":
			return s, br == nil
		}
	case "compact":
		all := br != nil
		if br != nil {
			for _, o := range op.Objs {
				if !br.objs[o] {
					all = false
				}
			}
		}
		switch res {
		case "ok":
			if br == nil || !all || br.objs[op.Obj] {
				return nil, false
			}
			n := s.clone()
			nb := n.pools[op.Pool].branches[op.Branch]
			for _, o := range op.Objs {
				delete(nb.objs, o)
			}
			nb.objs[op.Obj] = true
			lbl := op.Lbl
			if rec.Res != "ok" {
				lbl = -1
			}
			nb.chain = append(nb.chain, lbl)
			n.commits[op.Lbl] = nb.clone()
			n.deltas[op.Lbl] = specDelta{adds: []int{op.Obj}, dels: append([]int(nil), op.Objs...)}
			return n, true
		case "notfound":
			return s, br == nil
		case "builderr":
			return s, br != nil && !all
		}
	case "revert":
		d, known := s.deltas[op.Parent]
		var radds, rdels []int
		if br != nil && known {
			for _, a := range d.adds {
				if br.objs[a] {
					rdels = append(rdels, a)
				}
			}
			for _, x := range d.dels {
				if !br.objs[x] {
					radds = append(radds, x)
				}
			}
		}
		switch res {
		case "ok":
			if br == nil || !known || len(radds)+len(rdels) == 0 {
				return nil, false
			}
			n := s.clone()
			nb := n.pools[op.Pool].branches[op.Branch]
			for _, x := range rdels {
				delete(nb.objs, x)
			}
			for _, x := range radds {
				nb.objs[x] = true
			}
			lbl := op.Lbl
			if rec.Res != "ok" {
				lbl = -1
			}
			nb.chain = append(nb.chain, lbl)
			n.commits[op.Lbl] = nb.clone()
			n.deltas[op.Lbl] = specDelta{adds: radds, dels: rdels}
			return n, true
		case "notfound":
			return s, br == nil || !known
		case "empty":
			return s, br != nil && known && len(radds)+len(rdels) == 0
		}
	case "delete":
		all := br != nil
		if br != nil {
			for _, o := range op.Objs {
				if !br.objs[o] {
					all = false
				}
			}
		}
		switch res {
		case "ok":
			if br == nil || !all {
				return nil, false
			}
			n := s.clone()
			nb := n.pools[op.Pool].branches[op.Branch]
			for _, o := range op.Objs {
				delete(nb.objs, o)
			}
			lbl := op.Lbl
			if rec.Res != "ok" {
				lbl = -1
			}
			nb.chain = append(nb.chain, lbl)
			n.commits[op.Lbl] = nb.clone()
			n.deltas[op.Lbl] = specDelta{dels: append([]int(nil), op.Objs...)}
			return n, true
		case "notfound":
			return s, br == nil
		case "builderr":
			return s, br != nil && !all
		}
	}
	return nil, false
}

// storeSpecMatches: does the spec state equal the observed visible state?
func storeSpecMatches(s *specState, obs []StorePoolState, poolLbl map[string]int, commitLbl map[string]int) (bool, string) {
	if len(obs) != len(s.pools) {
		return false, fmt.Sprintf("pool count: observed %d, sequential %d", len(obs), len(s.pools))
	}
	byName := map[int]*specPool{}
	for _, p := range s.pools {
		byName[p.name] = p
	}
	for _, o := range obs {
		p := byName[o.Key]
		if p == nil {
			return false, fmt.Sprintf("pool %s observed, not in sequential state", o.Name)
		}
		if l, ok := poolLbl[o.ID]; ok && l != p.lbl {
			return false, fmt.Sprintf("pool name %s bound to pool #%d, sequential #%d", o.Name, l, p.lbl)
		}
		if !o.Readable {
			return false, fmt.Sprintf("pool %s unreadable: %s", o.Name, o.Err)
		}
		if len(o.Branches) != len(p.branches) {
			return false, fmt.Sprintf("pool %s: %d branches observed, sequential %d", o.Name, len(o.Branches), len(p.branches))
		}
		for _, ob := range o.Branches {
			b := p.branches[ob.Key]
			if b == nil {
				return false, fmt.Sprintf("branch %s/%s observed, not in sequential state", o.Name, ob.Name)
			}
			if !ob.Readable {
				return false, fmt.Sprintf("branch %s/%s unreadable: %s", o.Name, ob.Name, ob.Err)
			}
			if len(ob.Unknown) > 0 || len(ob.Objs) != len(b.objs) {
				return false, fmt.Sprintf("branch %s/%s objects %v (+%d unknown), sequential %d objects", o.Name, ob.Name, ob.Objs, len(ob.Unknown), len(b.objs))
			}
			for _, x := range ob.Objs {
				if !b.objs[x] {
					return false, fmt.Sprintf("branch %s/%s has object %d, sequential state has not", o.Name, ob.Name, x)
				}
			}
			if len(ob.Chain) != len(b.chain) {
				return false, fmt.Sprintf("branch %s/%s chain length %d, sequential %d", o.Name, ob.Name, len(ob.Chain), len(b.chain))
			}
			for i, id := range ob.Chain { // leaf first
				want := b.chain[len(b.chain)-1-i]
				got, known := commitLbl[id]
				if want == -1 {
					if known {
						return false, fmt.Sprintf("branch %s/%s chain[%d] is acknowledged commit #%d, sequential: unacknowledged", o.Name, ob.Name, i, got)
					}
					continue
				}
				if !known || got != want {
					return false, fmt.Sprintf("branch %s/%s chain[%d]: commit #%d expected", o.Name, ob.Name, i, want)
				}
			}
		}
	}
	return true, ""
}

// StoreLinearizable searches for a linearization of the history that ends in the observed
// state.  It returns "" when one exists, else a description of the closest miss.  unjust is
// non-empty when a linearization exists only if some failure results are not required to be
// the ones a sequential execution would report (e.g. removePool answering "pool not found"
// because the pool was renamed meanwhile).
func StoreLinearizable(hist []*OpRecord, obs []StorePoolState, pools map[int]string, commits map[int]string) (why string, unjust string) {
	why = storeLinearizable(hist, obs, pools, commits, true)
	if why == "" {
		return "", ""
	}
	if w2 := storeLinearizable(hist, obs, pools, commits, false); w2 == "" {
		return "", why
	} else {
		return w2, ""
	}
}

func storeLinearizable(hist []*OpRecord, obs []StorePoolState, pools map[int]string, commits map[int]string, strict bool) string {
	poolLbl := map[string]int{}
	for l, id := range pools {
		poolLbl[id] = l
	}
	commitLbl := map[string]int{}
	for l, id := range commits {
		commitLbl[id] = l
	}
	n := len(hist)
	if n > 24 {
		return "" // too long for the search; not generated
	}
	end := func(i int) int {
		if hist[i].End < 0 || hist[i].Res == "" {
			return 1 << 30
		}
		return hist[i].End
	}
	seen := map[string]bool{}
	why := "no linearization"
	best := -1
	var rec func(done uint32, cnt int, s *specState) bool
	rec = func(done uint32, cnt int, s *specState) bool {
		if cnt == n {
			ok, w := storeSpecMatches(s, obs, poolLbl, commitLbl)
			if !ok && best < n {
				best, why = n, "all operations ordered, final state differs: "+w
			}
			return ok
		}
		k := fmt.Sprintf("%x#%s", done, s.key())
		if seen[k] {
			return false
		}
		seen[k] = true
		for i := 0; i < n; i++ {
			if done&(1<<uint(i)) != 0 {
				continue
			}
			// i is minimal iff no undone j returned before i was invoked (the history is in
			// invocation order, so only earlier entries can precede i)
			minimal := true
			for j := 0; j < n; j++ {
				if j < i && done&(1<<uint(j)) == 0 && end(j) <= hist[i].Start {
					minimal = false
					break
				}
			}
			if !minimal {
				continue
			}
			h := hist[i]
			if h.Res == "" || h.Res == "crash" {
				// unfinished: none of its effect ...
				if rec(done|1<<uint(i), cnt+1, s) {
					return true
				}
				// ... or all of it
				if ns, ok := storeSpecApply(s, h, "ok", strict); ok {
					if rec(done|1<<uint(i), cnt+1, ns) {
						return true
					}
				}
				continue
			}
			ns, ok := storeSpecApply(s, h, h.Res, strict)
			if !ok {
				if cnt > best {
					best, why = cnt, fmt.Sprintf("client %d op %d %s returned %q, impossible after %d operations in any order tried", h.Client, h.Idx, h.Op, h.Res, cnt)
				}
				continue
			}
			if rec(done|1<<uint(i), cnt+1, ns) {
				return true
			}
		}
		return false
	}
	if rec(0, 0, newSpecState()) {
		return ""
	}
	return why
}

// StoreLinearizableModuloRemovedPool repeats the search with every acknowledged commit (load /
// delete) on a pool that overlaps an acknowledged removePool of that pool treated like an
// unfinished operation (all or none of its effect, any result).  It returns true when the
// history is linearizable under that reading — the failure class of the known defect
// "commit into a pool directory that RemovePool has just deleted".
func StoreLinearizableModuloRemovedPool(hist []*OpRecord, obs []StorePoolState, pools map[int]string, commits map[int]string) bool {
	var relaxed []*OpRecord
	changed := false
	for _, h := range hist {
		hh := *h
		if (h.Op.Kind == "load" || h.Op.Kind == "delete" || h.Op.Kind == "compact" || h.Op.Kind == "revert") && h.Res == "ok" {
			for _, r := range hist {
				if r.Op.Kind == "removePool" && r.Res == "ok" && r.Op.Pool == h.Op.Pool && r.Start < h.End && h.Start < r.End {
					hh.Res, hh.End = "", -1
					changed = true
				}
			}
		}
		relaxed = append(relaxed, &hh)
	}
	if !changed {
		return false
	}
	// an unacknowledged commit id on a chain is tolerated by the search only when the id is
	// unknown; forget the ids of the relaxed commits
	c2 := map[int]string{}
	for l, id := range commits {
		keep := true
		for _, h := range relaxed {
			if h.Res == "" && h.Op.Lbl == l {
				keep = false
			}
		}
		if keep {
			c2[l] = id
		}
	}
	return storeLinearizable(relaxed, obs, pools, c2, true) == "" || storeLinearizable(relaxed, obs, pools, c2, false) == ""
}

// StoreSpec is the sequential specification run incrementally (for sequential histories).
type StoreSpec struct{ s *specState }

func NewStoreSpec() *StoreSpec { return &StoreSpec{newSpecState()} }

// Apply advances the specification by one returned operation; false when the result is not the
// one a sequential execution gives in the current state.
func (sp *StoreSpec) Apply(rec *OpRecord) bool {
	switch rec.Res {
	case "ok", "exists", "keyexists", "notfound", "builderr", "unresolved", "empty":
	default:
		return false // contention / I/O classes cannot occur in a sequential history
	}
	ns, ok := storeSpecApply(sp.s, rec, rec.Res, true)
	if ok {
		sp.s = ns
	}
	return ok
}

// Matches compares the specification state with an observed visible state.
func (sp *StoreSpec) Matches(obs []StorePoolState, pools, commits map[int]string, withChains bool) (bool, string) {
	poolLbl := map[string]int{}
	for l, id := range pools {
		poolLbl[id] = l
	}
	commitLbl := map[string]int{}
	for l, id := range commits {
		commitLbl[id] = l
	}
	if !withChains {
		// a handle view has no chains: compare with chains taken from the specification
		o2 := make([]StorePoolState, len(obs))
		copy(o2, obs)
		for i := range o2 {
			p := sp.poolByName(o2[i].Key)
			bs := make([]StoreBranchState, len(o2[i].Branches))
			copy(bs, o2[i].Branches)
			for k := range bs {
				if p != nil {
					if b := p.branches[bs[k].Key]; b != nil {
						bs[k].Chain = nil
						for x := len(b.chain) - 1; x >= 0; x-- {
							bs[k].Chain = append(bs[k].Chain, commits[b.chain[x]])
						}
					}
				}
			}
			o2[i].Branches = bs
		}
		obs = o2
	}
	return storeSpecMatches(sp.s, obs, poolLbl, commitLbl)
}

func (sp *StoreSpec) poolByName(name int) *specPool {
	for _, p := range sp.s.pools {
		if p.name == name {
			return p
		}
	}
	return nil
}

// StoreSpecable: the sequential specification covers every operation of the history (merge,
// delete-where and vector add are checked by StoreChainOracle and the content oracles instead).
func StoreSpecable(clients [][]StoreOp) bool {
	for _, ops := range clients {
		for _, o := range ops {
			switch o.Kind {
			case "merge", "deleteWhere", "addVectors":
				return false
			}
		}
	}
	return true
}

// StoreChainOracle checks the C12 statement directly for every kind of commit: each
// acknowledged commit appears exactly once in the parent chain from the tip of its branch
// (branches / pools that some operation of the history removes or re-creates are skipped).
func StoreChainOracle(hist []*OpRecord, obs []StorePoolState, pools map[int]string) string {
	touched := map[string]bool{}
	for _, h := range hist {
		switch h.Op.Kind {
		case "removePool":
			touched[fmt.Sprintf("p%d", h.Op.Pool)] = true
		case "removeBranch":
			touched[fmt.Sprintf("p%d/b%d", h.Op.Pool, h.Op.Name)] = true
		}
	}
	for _, h := range hist {
		if h.Res != "ok" || h.Commit == "" {
			continue
		}
		br := h.Op.Branch
		if h.Op.Kind == "merge" {
			br = h.Op.Name // the commit lands on the parent branch
		}
		if touched[fmt.Sprintf("p%d", h.Op.Pool)] || touched[fmt.Sprintf("p%d/b%d", h.Op.Pool, br)] {
			continue
		}
		found := false
		for _, p := range obs {
			if p.ID != pools[h.Op.Pool] {
				continue
			}
			for _, b := range p.Branches {
				if b.Key != br {
					continue
				}
				found = true
				n := 0
				for _, c := range b.Chain {
					if c == h.Commit {
						n++
					}
				}
				if n != 1 {
					return fmt.Sprintf("acknowledged commit %s of client %d %s appears %d times in the chain of %s/%s", h.Commit, h.Client, h.Op, n, p.Name, b.Name)
				}
			}
		}
		if !found {
			return fmt.Sprintf("branch of acknowledged commit %s (client %d %s) is gone", h.Commit, h.Client, h.Op)
		}
	}
	return ""
}

// StoreIDStrings converts the registries of a run for the oracle.
func (r *StoreRun) StoreIDStrings() (pools, commits map[int]string) {
	pools, commits = map[int]string{}, map[int]string{}
	for l, id := range r.Pools {
		pools[l] = id.String()
	}
	for l, id := range r.Commits {
		commits[l] = id.String()
	}
	return
}
