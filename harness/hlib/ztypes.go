package hlib

// Structural type specifications shared by the C05 and C06 harnesses: a context-independent
// description of a Zed type (TSpec), a generator, a builder against a real zed.Context, a
// structural printer of real types in the syntax the Lean drivers print (`descr`), and an
// independent writer of serialized type values with knobs for non-canonical encodings.

import (
	"encoding/binary"
	"encoding/hex"
	"fmt"
	"math/rand"
	"strings"

	zed "github.com/brimdata/super"
)

type TField struct {
	Name string `json:"name"`
	Type *TSpec `json:"type"`
}

// TSpec: Kind ∈ prim, record, array, set, map, union, enum, error, named.
type TSpec struct {
	Kind   string   `json:"kind"`
	ID     int      `json:"id,omitempty"`
	Name   string   `json:"name,omitempty"`
	Fields []TField `json:"fields,omitempty"`
	Elems  []*TSpec `json:"elems,omitempty"` // array/set/error/named: 1; map: 2; union: n
	Syms   []string `json:"syms,omitempty"`
}

func Prim(id int) *TSpec { return &TSpec{Kind: "prim", ID: id} }

func HexAtom(b []byte) string {
	if len(b) == 0 {
		return "-"
	}
	return hex.EncodeToString(b)
}

// ImplementedPrims are the ids LookupPrimitiveByID implements.
var ImplementedPrims = []int{0, 1, 2, 3, 6, 7, 8, 9, 12, 13, 14, 15, 16, 23, 24, 25, 26, 27, 28, 29}

// Descr prints the structure (same syntax as the Lean driver's `descr`).
func (t *TSpec) Descr() string {
	var b strings.Builder
	t.descr(&b)
	return b.String()
}

func (t *TSpec) descr(b *strings.Builder) {
	switch t.Kind {
	case "prim":
		fmt.Fprintf(b, "(prim %d)", t.ID)
	case "record":
		b.WriteString("(record")
		for _, f := range t.Fields {
			b.WriteString(" (" + HexAtom([]byte(f.Name)) + " ")
			f.Type.descr(b)
			b.WriteString(")")
		}
		b.WriteString(")")
	case "enum":
		b.WriteString("(enum")
		for _, s := range t.Syms {
			b.WriteString(" " + HexAtom([]byte(s)))
		}
		b.WriteString(")")
	case "named":
		b.WriteString("(named " + HexAtom([]byte(t.Name)) + " ")
		t.Elems[0].descr(b)
		b.WriteString(")")
	default:
		b.WriteString("(" + t.Kind)
		for _, e := range t.Elems {
			b.WriteString(" ")
			e.descr(b)
		}
		b.WriteString(")")
	}
}

// DescrType prints the structure of a real type by walking its exported fields.
func DescrType(t zed.Type) string {
	var b strings.Builder
	descrType(&b, t)
	return b.String()
}

func descrType(b *strings.Builder, t zed.Type) {
	switch t := t.(type) {
	case nil:
		b.WriteString("(nil)")
	case *zed.TypeNamed:
		b.WriteString("(named " + HexAtom([]byte(t.Name)) + " ")
		descrType(b, t.Type)
		b.WriteString(")")
	case *zed.TypeRecord:
		b.WriteString("(record")
		for _, f := range t.Fields {
			b.WriteString(" (" + HexAtom([]byte(f.Name)) + " ")
			descrType(b, f.Type)
			b.WriteString(")")
		}
		b.WriteString(")")
	case *zed.TypeArray:
		b.WriteString("(array ")
		descrType(b, t.Type)
		b.WriteString(")")
	case *zed.TypeSet:
		b.WriteString("(set ")
		descrType(b, t.Type)
		b.WriteString(")")
	case *zed.TypeMap:
		b.WriteString("(map ")
		descrType(b, t.KeyType)
		b.WriteString(" ")
		descrType(b, t.ValType)
		b.WriteString(")")
	case *zed.TypeUnion:
		b.WriteString("(union")
		for _, m := range t.Types {
			b.WriteString(" ")
			descrType(b, m)
		}
		b.WriteString(")")
	case *zed.TypeEnum:
		b.WriteString("(enum")
		for _, s := range t.Symbols {
			b.WriteString(" " + HexAtom([]byte(s)))
		}
		b.WriteString(")")
	case *zed.TypeError:
		b.WriteString("(error ")
		descrType(b, t.Type)
		b.WriteString(")")
	default:
		fmt.Fprintf(b, "(prim %d)", t.ID())
	}
}

// SpecOf reads the structure of a real type back into a TSpec.
func SpecOf(t zed.Type) *TSpec {
	switch t := t.(type) {
	case *zed.TypeNamed:
		return &TSpec{Kind: "named", Name: t.Name, Elems: []*TSpec{SpecOf(t.Type)}}
	case *zed.TypeRecord:
		s := &TSpec{Kind: "record"}
		for _, f := range t.Fields {
			s.Fields = append(s.Fields, TField{f.Name, SpecOf(f.Type)})
		}
		return s
	case *zed.TypeArray:
		return &TSpec{Kind: "array", Elems: []*TSpec{SpecOf(t.Type)}}
	case *zed.TypeSet:
		return &TSpec{Kind: "set", Elems: []*TSpec{SpecOf(t.Type)}}
	case *zed.TypeMap:
		return &TSpec{Kind: "map", Elems: []*TSpec{SpecOf(t.KeyType), SpecOf(t.ValType)}}
	case *zed.TypeUnion:
		s := &TSpec{Kind: "union"}
		for _, m := range t.Types {
			s.Elems = append(s.Elems, SpecOf(m))
		}
		return s
	case *zed.TypeEnum:
		return &TSpec{Kind: "enum", Syms: append([]string(nil), t.Symbols...)}
	case *zed.TypeError:
		return &TSpec{Kind: "error", Elems: []*TSpec{SpecOf(t.Type)}}
	default:
		return Prim(t.ID())
	}
}

// Build creates the type in zctx through the public Lookup* API, bottom-up; union members
// are passed in the order of the spec.
func (t *TSpec) Build(zctx *zed.Context) (zed.Type, error) {
	switch t.Kind {
	case "prim":
		return zed.LookupPrimitiveByID(t.ID)
	case "record":
		var fs []zed.Field
		for _, f := range t.Fields {
			ft, err := f.Type.Build(zctx)
			if err != nil {
				return nil, err
			}
			fs = append(fs, zed.NewField(f.Name, ft))
		}
		return zctx.LookupTypeRecord(fs)
	case "enum":
		return zctx.LookupTypeEnum(append([]string(nil), t.Syms...)), nil
	}
	var es []zed.Type
	for _, e := range t.Elems {
		et, err := e.Build(zctx)
		if err != nil {
			return nil, err
		}
		es = append(es, et)
	}
	switch t.Kind {
	case "array":
		return zctx.LookupTypeArray(es[0]), nil
	case "set":
		return zctx.LookupTypeSet(es[0]), nil
	case "error":
		return zctx.LookupTypeError(es[0]), nil
	case "map":
		return zctx.LookupTypeMap(es[0], es[1]), nil
	case "union":
		return zctx.LookupTypeUnion(es), nil
	case "named":
		return zctx.LookupTypeNamed(t.Name, es[0])
	}
	return nil, fmt.Errorf("bad spec kind %q", t.Kind)
}

// TypeGen generates type specs.
type TypeGen struct {
	Rng   *rand.Rand
	Names []string // field / type / symbol names to draw from
}

var DefaultNames = []string{"a", "b", "c", "ab", "", "a b", "é", "x", "y", "ts", "id", "port", "日本"}
var DefaultTypeNames = []string{"x", "y", "z", "port", "conn", "é"}

func (g *TypeGen) name() string { return g.Names[g.Rng.Intn(len(g.Names))] }

func (g *TypeGen) Gen(depth int) *TSpec {
	r := g.Rng
	if depth <= 0 || r.Intn(4) == 0 {
		return Prim(ImplementedPrims[r.Intn(len(ImplementedPrims))])
	}
	switch r.Intn(11) {
	case 0, 1, 2:
		n := r.Intn(4)
		s := &TSpec{Kind: "record"}
		used := map[string]bool{}
		for i := 0; i < n; i++ {
			nm := g.name()
			if used[nm] {
				continue
			}
			used[nm] = true
			s.Fields = append(s.Fields, TField{nm, g.Gen(depth - 1)})
		}
		return s
	case 3:
		return &TSpec{Kind: "array", Elems: []*TSpec{g.Gen(depth - 1)}}
	case 4:
		return &TSpec{Kind: "set", Elems: []*TSpec{g.Gen(depth - 1)}}
	case 5:
		return &TSpec{Kind: "map", Elems: []*TSpec{g.Gen(depth - 1), g.Gen(depth - 1)}}
	case 6, 7:
		n := 1 + r.Intn(4)
		s := &TSpec{Kind: "union"}
		seen := map[string]bool{}
		for i := 0; i < n; i++ {
			m := g.Gen(depth - 1)
			d := m.Descr()
			if seen[d] {
				continue
			}
			seen[d] = true
			s.Elems = append(s.Elems, m)
		}
		return s
	case 8:
		n := r.Intn(4)
		s := &TSpec{Kind: "enum"}
		for i := 0; i < n; i++ {
			s.Syms = append(s.Syms, g.name())
		}
		return s
	case 9:
		return &TSpec{Kind: "error", Elems: []*TSpec{g.Gen(depth - 1)}}
	default:
		return &TSpec{Kind: "named", Name: DefaultTypeNames[r.Intn(len(DefaultTypeNames))], Elems: []*TSpec{g.Gen(depth - 1)}}
	}
}

// WireOpts selects deliberately non-canonical (but decodable) serializations.
type WireOpts struct {
	ReverseUnions bool // write union members in reverse order
	ExpandRefs    bool // never write a NameRef: repeat the NameDef
	LongLengths   bool // write lengths as non-minimal 2-byte uvarints
	Trailing      []byte
}

// Wire serializes the spec as a type value, independently of zed.AppendTypeValue.
func (t *TSpec) Wire(o WireOpts) []byte {
	defs := map[string]string{}
	b := t.wire(nil, o, defs)
	return append(b, o.Trailing...)
}

func wireLen(b []byte, n int, o WireOpts) []byte {
	if o.LongLengths && n < 128 {
		return append(b, byte(n)|0x80, 0)
	}
	return binary.AppendUvarint(b, uint64(n))
}

func (t *TSpec) wire(b []byte, o WireOpts, defs map[string]string) []byte {
	switch t.Kind {
	case "prim":
		return append(b, byte(t.ID))
	case "named":
		inner := t.Elems[0].Descr()
		if prev, ok := defs[t.Name]; ok && prev == inner && !o.ExpandRefs {
			b = append(b, zed.TypeValueNameRef)
			b = wireLen(b, len(t.Name), o)
			return append(b, t.Name...)
		}
		b = append(b, zed.TypeValueNameDef)
		b = wireLen(b, len(t.Name), o)
		b = append(b, t.Name...)
		b = t.Elems[0].wire(b, o, defs)
		defs[t.Name] = inner
		return b
	case "record":
		b = append(b, zed.TypeValueRecord)
		b = wireLen(b, len(t.Fields), o)
		for _, f := range t.Fields {
			b = wireLen(b, len(f.Name), o)
			b = append(b, f.Name...)
			b = f.Type.wire(b, o, defs)
		}
		return b
	case "union":
		b = append(b, zed.TypeValueUnion)
		b = wireLen(b, len(t.Elems), o)
		es := t.Elems
		if o.ReverseUnions {
			es = nil
			for i := len(t.Elems) - 1; i >= 0; i-- {
				es = append(es, t.Elems[i])
			}
		}
		for _, e := range es {
			b = e.wire(b, o, defs)
		}
		return b
	case "enum":
		b = append(b, zed.TypeValueEnum)
		b = wireLen(b, len(t.Syms), o)
		for _, s := range t.Syms {
			b = wireLen(b, len(s), o)
			b = append(b, s...)
		}
		return b
	case "array":
		return t.Elems[0].wire(append(b, zed.TypeValueArray), o, defs)
	case "set":
		return t.Elems[0].wire(append(b, zed.TypeValueSet), o, defs)
	case "error":
		return t.Elems[0].wire(append(b, zed.TypeValueError), o, defs)
	case "map":
		b = t.Elems[0].wire(append(b, zed.TypeValueMap), o, defs)
		return t.Elems[1].wire(b, o, defs)
	}
	panic("bad spec kind " + t.Kind)
}

// HasKind reports whether a node of the given kind occurs in the spec.
func (t *TSpec) HasKind(kind string) bool {
	if t.Kind == kind {
		return true
	}
	for _, e := range t.Elems {
		if e.HasKind(kind) {
			return true
		}
	}
	for _, f := range t.Fields {
		if f.Type.HasKind(kind) {
			return true
		}
	}
	return false
}

// HasUnionWithSeveral reports whether some union has ≥ 2 members (ReverseUnions then changes
// the bytes), HasRepeatedName whether some name is written as a NameRef.
func (t *TSpec) HasUnionWithSeveral() bool {
	if t.Kind == "union" && len(t.Elems) > 1 {
		return true
	}
	for _, e := range t.Elems {
		if e.HasUnionWithSeveral() {
			return true
		}
	}
	for _, f := range t.Fields {
		if f.Type.HasUnionWithSeveral() {
			return true
		}
	}
	return false
}
