/-
  Model of the pool-key range pruner (C16).
  Anchors: compiler/optimizer/optimizer.go  buildRangePruner / rangePrunerPred /
  literalComparison / reverseComparator / compare;  runtime/sam/op/meta/pruner.go;
  lake/data/seekindex.go LookupSeekRange.

  The three switch tables are NOT copied by hand: they are read from
  `Zed.Generated.C16`, which the extractor rewrites from the Go source on every check.
-/
import Zed.Generated.C16
namespace Zed.Pruner

inductive CmpOp where
  | eq | ne | lt | le | gt | ge
  deriving DecidableEq, Repr, Inhabited

namespace CmpOp
def toStr : CmpOp → String
  | eq => "==" | ne => "!=" | lt => "<" | le => "<=" | gt => ">" | ge => ">="
def ofStr : String → Option CmpOp
  | "==" => some eq | "!=" => some ne | "<" => some lt | "<=" => some le
  | ">" => some gt | ">=" => some ge | _ => none
/-- meaning of `compare(a, b, nullsMax) op 0` given the three-way result. -/
def sem : CmpOp → Ordering → Bool
  | eq, o => o == .eq
  | ne, o => o != .eq
  | lt, o => o == .lt
  | le, o => o != .gt
  | gt, o => o == .gt
  | ge, o => o != .lt
end CmpOp

/-- Arguments of a pruner comparison: the literal or one of the two range bounds. -/
inductive Arg (L : Type) where
  | lit (l : L) | min | max
  deriving DecidableEq, Repr

/-- The expression the optimizer attaches to the lister / seek-index scan. -/
inductive PExpr (L : Type) where
  | cmp (op : CmpOp) (a b : Arg L)
  | or  (a b : PExpr L)
  | and (a b : PExpr L)
  deriving DecidableEq, Repr

/-- The filter predicate, as far as the pruner looks into it. -/
inductive Pred (L : Type) where
  | cmp (op : CmpOp) (keyLeft : Bool) (lit : L)   -- `key op lit` / `lit op key`
  | and (a b : Pred L)
  | or  (a b : Pred L)
  | not (a : Pred L)                              -- not a BinaryExpr: punt
  | other (n : Nat)                               -- any predicate not on the key
  deriving Repr

open Zed.Generated.C16

def lookup (k : String) : List (String × α) → Option α
  | [] => none
  | (k', v) :: r => if k == k' then some v else lookup k r

def reverseComparator (op : CmpOp) : Option CmpOp :=
  (lookup op.toStr reverseComparatorTable).bind CmpOp.ofStr

def argOf (l : L) : String → Option (Arg L)
  | "literal" => some (.lit l) | "min" => some .min | "max" => some .max | _ => none

def atomOf (l : L) (t : String × String × String) : Option (PExpr L) := do
  let op ← CmpOp.ofStr t.1
  let a ← argOf l t.2.1
  let b ← argOf l t.2.2
  pure (.cmp op a b)

def combine (c : String) (a b : PExpr L) : Option (PExpr L) :=
  if c == "or" then some (.or a b) else if c == "and" then some (.and a b) else none

def rangePrunerPred (op : CmpOp) (l : L) : Option (PExpr L) :=
  match lookup op.toStr rangePrunerPredTable with
  | some (_, [t]) => atomOf l t
  | some (c, [t1, t2]) => do
    let a ← atomOf l t1
    let b ← atomOf l t2
    combine c a b
  | _ => none

/-- `buildRangePruner`.  `none` = "cannot decide, do not prune". -/
def build : Pred L → Option (PExpr L)
  | .and a b =>
    match build a, build b with
    | none, r => r
    | l, none => l
    | some l, some r => combine andCombiner l r
  | .or a b =>
    match build a, build b with
    | some l, some r => combine orCombiner l r
    | _, _ => none
  | .cmp op keyLeft lit =>
    if prunableOps.contains op.toStr then
      (if keyLeft then some op else reverseComparator op).bind fun op' => rangePrunerPred op' lit
    else none
  | .not _ => none
  | .other _ => none

/-- The order `compare(·,·,nullsMax)` gives on key values. -/
structure KeyOrder (K : Type) where
  cmp : K → K → Ordering
  swap : ∀ a b, cmp b a = (cmp a b).swap
  le_trans : ∀ a b c, cmp a b ≠ .gt → cmp b c ≠ .gt → cmp a c ≠ .gt

namespace KeyOrder
variable {K : Type} (O : KeyOrder K)
def le (a b : K) : Prop := O.cmp a b ≠ .gt
end KeyOrder

def Arg.val (lo hi : K) : Arg K → K
  | .lit l => l | .min => lo | .max => hi

def PExpr.eval (O : KeyOrder K) (lo hi : K) : PExpr K → Bool
  | .cmp op a b => op.sem (O.cmp (a.val lo hi) (b.val lo hi))
  | .or a b => a.eval O lo hi || b.eval O lo hi
  | .and a b => a.eval O lo hi && b.eval O lo hi

/-- `holds op a b`: the *filter's* comparison `a op b` evaluates to true. -/
def Pred.eval (holds : CmpOp → K → K → Bool) (env : Nat → Bool) (k : K) : Pred K → Bool
  | .cmp op keyLeft lit => if keyLeft then holds op k lit else holds op lit k
  | .and a b => a.eval holds env k && b.eval holds env k
  | .or a b => a.eval holds env k || b.eval holds env k
  | .not a => !(a.eval holds env k)
  | .other n => env n

/-- Seek-index use of the same pruner: keep the entries the pruner does not exclude. -/
def seekKeep (O : KeyOrder K) (e : PExpr K) (entries : List (K × K)) : List (K × K) :=
  entries.filter fun r => !(e.eval O r.1 r.2)

/-- Concrete instance used by the driver and the non-vacuity examples: integer keys
    with null as the greatest value (nullsMax). -/
def optIntCmp : Option Int → Option Int → Ordering
  | none, none => .eq
  | none, some _ => .gt
  | some _, none => .lt
  | some a, some b => compare a b

end Zed.Pruner

namespace Zed.Pruner

/-! ### Object / seek-entry bounds as the data writer records them (lake/data/writer.go)

`WriteWithKey` copies every key into `object.Max` (guard `objectMaxGuard`, regenerated);
`writeIndex` copies the key into `object.Min` under `objectMinGuard` (regenerated: `w.first`,
i.e. only for the first value); `Close` and `flushSeekIndex` swap min and max for descending
pools (`descSwap…`, regenerated).  So for values written in pool order the stored pair is
(first, last) for ascending and (last, first) for descending pools. -/

def minOnFirstOnly : Bool := Zed.Generated.C16.objectMinGuard == "w.first"
def maxAlways : Bool := Zed.Generated.C16.objectMaxGuard == ""
def descSwapped : Bool :=
  Zed.Generated.C16.descSwapClose == "w.sortKey.Order == order.Desc => swap(w.object.Min,w.object.Max)" &&
  Zed.Generated.C16.descSwapflushSeekIndex == "w.sortKey.Order == order.Desc => swap(min,max)"

/-- The (min, max) pair stored for the keys written, in write order. `none` for no values, or
    when the regenerated facts are not the ones this model knows (then nothing is claimed). -/
def writerBounds (desc : Bool) : List K → Option (K × K)
  | [] => none
  | k :: ks =>
    if minOnFirstOnly && maxAlways && descSwapped then
      let first := k
      let last := (k :: ks).getLast (by simp)
      if desc then some (last, first) else some (first, last)
    else none

end Zed.Pruner
