/-
  Every operation of the lake model only *appends* to the commit store and to the data
  object store; vacuum only removes data objects, and never one that is in the vacuumed
  commit's snapshot.  Helper lemmas for C13 (and reused by C14 / C15).
-/
import Zed.Proofs.LakeBasic
namespace Zed.Lake
variable {K V : Type}

/-- unfold the nest of matches of an operation that returned `.ok` -/
macro "opsplit " h:ident : tactic => `(tactic| (
  repeat' split at $h:ident
  all_goals (try simp only [] at $h:ident)
  all_goals (repeat' split at $h:ident)
  all_goals (try simp only [] at $h:ident)
  all_goals (try cases $h:ident)))

/-- commits are only appended (at most one per operation), data objects are only added -/
def Extends (s s' : State K V) : Prop :=
  (s'.commits = s.commits ∨ ∃ x, s'.commits = s.commits ++ [x]) ∧
  (∃ ext, s'.files = s.files ++ ext)

theorem Extends.refl (s : State K V) : Extends s s := ⟨Or.inl rfl, [], by simp⟩

theorem extends_commit (s s1 : State K V) (b t : Nat) (acts : List (Action K))
    (hc : s1.commits = s.commits) (hf : ∃ ext, s1.files = s.files ++ ext) :
    Extends s (s1.commit b t acts) := by
  refine ⟨Or.inr ⟨{ parent := t, acts := acts }, ?_⟩, ?_⟩
  · rw [commit_commits, hc]
  · rw [commit_files]; exact hf

theorem extends_self_commit (s : State K V) (b t : Nat) (acts : List (Action K)) :
    Extends s (s.commit b t acts) := extends_commit s s b t acts rfl ⟨[], by simp⟩

theorem extends_w (cfg : Cfg K V) (s : State K V) (parts : List (List V)) (b t : Nat) (acts : List (Action K)) :
    Extends s ((writeObjs cfg s parts).1.commit b t acts) :=
  extends_commit _ _ _ _ _ (writeObjs_commits cfg s parts) (writeObjs_files cfg s parts)

theorem extends_w' (cfg : Cfg K V) (s s2 : State K V) (os : List (Obj K)) (parts : List (List V)) (b t : Nat)
    (acts : List (Action K)) (h : writeObjs cfg s parts = (s2, os)) : Extends s (s2.commit b t acts) := by
  have : s2 = (writeObjs cfg s parts).1 := by rw [h]
  subst this; exact extends_w ..

variable [DecidableEq V]

theorem load_extends (cfg : Cfg K V) (s s' : State K V) (b : Nat) (vals : List V) (parts : List (List V))
    (h : load cfg s b vals parts = .ok s') : Extends s s' := by
  unfold load at h
  opsplit h
  all_goals first | exact extends_self_commit .. | exact extends_w' _ _ _ _ _ _ _ _ ‹_›

omit [DecidableEq V] in
theorem delete_extends (s s' : State K V) (b : Nat) (ids : List Nat)
    (h : delete s b ids = .ok s') : Extends s s' := by
  unfold delete at h
  opsplit h
  all_goals first | exact extends_self_commit .. | exact extends_w' _ _ _ _ _ _ _ _ ‹_›

theorem deleteWhere_extends (cfg : Cfg K V) (s s' : State K V) (b : Nat) (keep : V → Bool) (parts : List (List V))
    (h : deleteWhere cfg s b keep parts = .ok s') : Extends s s' := by
  unfold deleteWhere at h
  opsplit h
  all_goals first | exact extends_self_commit .. | exact extends_w' _ _ _ _ _ _ _ _ ‹_›

theorem compact_extends (cfg : Cfg K V) (s s' : State K V) (b : Nat) (ids : List Nat) (vec : Bool) (parts : List (List V))
    (h : compact cfg s b ids vec parts = .ok s') : Extends s s' := by
  unfold compact at h
  opsplit h
  all_goals first | exact extends_self_commit .. | exact extends_w' _ _ _ _ _ _ _ _ ‹_›

omit [DecidableEq V] in
theorem addVectors_extends (s s' : State K V) (b : Nat) (ids : List Nat)
    (h : addVectors s b ids = .ok s') : Extends s s' := by
  unfold addVectors addVectorsOf at h
  opsplit h
  all_goals exact extends_self_commit ..

omit [DecidableEq V] in
theorem deleteVectors_extends (s s' : State K V) (b : Nat) (ids : List Nat)
    (h : deleteVectors s b ids = .ok s') : Extends s s' := by
  unfold deleteVectors deleteVectorsOf at h
  opsplit h
  all_goals exact extends_self_commit ..

omit [DecidableEq V] in
theorem createBranch_extends (s s' : State K V) (n p : Nat)
    (h : createBranch s n p = .ok s') : Extends s s' := by
  unfold createBranch at h
  opsplit h
  exact ⟨Or.inl rfl, [], by simp⟩

omit [DecidableEq V] in
theorem merge_extends (s s' : State K V) (c p : Nat)
    (h : merge s c p = .ok s') : Extends s s' := by
  unfold merge at h
  opsplit h
  all_goals exact extends_self_commit ..

omit [DecidableEq V] in
theorem revert_extends (s s' : State K V) (b c : Nat)
    (h : revert s b c = .ok s') : Extends s s' := by
  unfold revert at h
  opsplit h
  all_goals exact extends_self_commit ..

def Op.isVacuum : Op V → Bool
  | .vacuum _ => true
  | _ => false

/-- every operation other than vacuum only appends commits and data objects -/
theorem apply_extends (cfg : Cfg K V) (s s' : State K V) (op : Op V) (hv : op.isVacuum = false)
    (h : apply cfg s op = .ok s') : Extends s s' := by
  cases op with
  | load b vals parts => exact load_extends _ _ _ _ _ _ h
  | delete b ids => exact delete_extends _ _ _ _ h
  | deleteWhere b keep parts => exact deleteWhere_extends _ _ _ _ _ _ h
  | compact b ids vec parts => exact compact_extends _ _ _ _ _ _ _ h
  | addVectors b ids => exact addVectors_extends _ _ _ _ h
  | deleteVectors b ids => exact deleteVectors_extends _ _ _ _ h
  | vacuum c => simp [Op.isVacuum] at hv
  | createBranch n p => exact createBranch_extends _ _ _ _ h
  | merge c p => exact merge_extends _ _ _ _ h
  | revert b c => exact revert_extends _ _ _ _ h

omit [DecidableEq V] in
/-- vacuum leaves the commit store alone and removes exactly the files of `vacuumable` -/
theorem vacuum_spec (s s' : State K V) (c : Nat) (h : vacuum s c = .ok s') :
    s'.commits = s.commits ∧ ∃ ids, vacuumable s c = .ok ids ∧
      s'.files = s.files.filter (fun f => !ids.contains f.1) := by
  unfold vacuum at h
  split at h
  · cases h
  · rename_i ids hv
    cases h
    exact ⟨rfl, ids, hv, rfl⟩

/-- the commit store only grows -/
theorem apply_commits (cfg : Cfg K V) (s s' : State K V) (op : Op V) (h : apply cfg s op = .ok s') :
    s'.commits = s.commits ∨ ∃ x, s'.commits = s.commits ++ [x] := by
  cases hv : op.isVacuum with
  | false => exact (apply_extends cfg s s' op hv h).1
  | true =>
    cases op <;> simp [Op.isVacuum] at hv
    exact Or.inl (vacuum_spec _ _ _ h).1

theorem step_commits (cfg : Cfg K V) (s : State K V) (op : Op V) :
    (step cfg s op).commits = s.commits ∨ ∃ x, (step cfg s op).commits = s.commits ++ [x] := by
  unfold step
  split
  · exact apply_commits cfg s _ op ‹_›
  · exact Or.inl rfl

theorem step_commits_le (cfg : Cfg K V) (s : State K V) (op : Op V) :
    s.commits.length ≤ (step cfg s op).commits.length := by
  rcases step_commits cfg s op with h | ⟨x, h⟩ <;> rw [h] <;> simp

/-! ### payloads and scans are monotone in the file store -/

omit [DecidableEq V] in
theorem payloads_mono (f f' : List (Nat × List V))
    (hm : ∀ id p, fileOf f id = some p → fileOf f' id = some p)
    (objs : List (Obj K)) (ls : List (List V)) (h : payloads f objs = .ok ls) :
    payloads f' objs = .ok ls := by
  induction objs generalizing ls with
  | nil => simpa [payloads] using h
  | cons o os ih =>
    unfold payloads at h ⊢
    cases ho : fileOf f o.id with
    | none => simp [ho] at h
    | some p =>
      rw [hm _ _ ho]
      simp only [ho] at h
      cases hr : payloads f os with
      | error e => simp [hr] at h
      | ok r =>
        rw [ih r hr]
        simpa [hr] using h

omit [DecidableEq V] in
theorem scanParts_mono (cfg : Cfg K V) (f f' : List (Nat × List V))
    (hm : ∀ id p, fileOf f id = some p → fileOf f' id = some p)
    (parts : List (List (Obj K))) (r : List V) (h : scanParts cfg f parts = .ok r) :
    scanParts cfg f' parts = .ok r := by
  induction parts generalizing r with
  | nil => simpa [scanParts] using h
  | cons p ps ih =>
    unfold scanParts at h ⊢
    cases hp : payloads f p with
    | error e => simp [hp] at h
    | ok ls =>
      rw [payloads_mono f f' hm p ls hp]
      simp only [hp] at h
      cases hr : scanParts cfg f ps with
      | error e => simp [hr] at h
      | ok r' =>
        rw [ih r' hr]
        simpa [hr] using h

end Zed.Lake
