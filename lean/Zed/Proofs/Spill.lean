import Zed.Model.Compare
/-! Stable sorting of runs and merging them is the same as stable sorting everything
    (`spill_invariant`), for any total and transitive `le`. -/
namespace Zed
open List

section
variable {α : Type} {le : α → α → Bool}

attribute [local instance] boolRelToRel

theorem zipIdx_antisymm (l : List α) (i : Nat) (x y : α × Nat) (hx : x ∈ l.zipIdx i) (hy : y ∈ l.zipIdx i)
    (h1 : zipIdxLE le x y) (h2 : zipIdxLE le y x) : x = y := by
  have hidx : x.2 = y.2 := by
    by_cases p : le x.1 y.1 = true <;> by_cases q : le y.1 x.1 = true <;>
      simp [zipIdxLE, p, q] at h1 h2
    omega
  have e1 := (mem_zipIdx_iff_le_and_getElem?_sub.mp hx).2
  have e2 := (mem_zipIdx_iff_le_and_getElem?_sub.mp hy).2
  rw [hidx, e2] at e1
  exact Prod.ext (by simpa using e1.symm) hidx

theorem mergeSort_zipIdx_off (i : Nat) (l : List α) :
    (mergeSort (l.zipIdx i) (zipIdxLE le)).map (·.1) = mergeSort l le := by
  rw [zipIdx_eq_map_add (i := i)]
  rw [← map_mergeSort (r := zipIdxLE le) (s := zipIdxLE le) (f := fun (p : α × Nat) => (p.1, i + p.2))]
  · rw [map_map]
    have : ((fun (x : α × Nat) => x.1) ∘ fun (p : α × Nat) => (p.1, i + p.2)) = (fun x => x.1) := by
      funext p; rfl
    rw [this]; exact mergeSort_zipIdx
  · intro a _ b _
    simp only [zipIdxLE]
    simp

/-- merging the sorted halves is sorting the whole -/
theorem merge_mergeSort_append
    (trans : ∀ (a b c : α), le a b → le b c → le a c) (total : ∀ (a b : α), le a b || le b a)
    (a b : List α) : merge (mergeSort a le) (mergeSort b le) le = mergeSort (a ++ b) le := by
  have ht := zipIdxLE_trans (le := le) trans
  have htt := zipIdxLE_total (le := le) total
  let A := mergeSort (a.zipIdx 0) (zipIdxLE le)
  let B := mergeSort (b.zipIdx a.length) (zipIdxLE le)
  have hA : A.map (·.1) = mergeSort a le := mergeSort_zipIdx_off (le := le) 0 a
  have hB : B.map (·.1) = mergeSort b le := mergeSort_zipIdx_off (le := le) a.length b
  have hAB : ∀ x y, x ∈ A → y ∈ B → x.2 ≤ y.2 := by
    intro x y hx hy
    have hx' := mem_zipIdx (mem_mergeSort.mp hx)
    have hy' := mem_zipIdx (mem_mergeSort.mp hy)
    omega
  have hst := merge_stable (le := le) A B hAB
  rw [hA, hB] at hst
  rw [← hst]
  have hW : mergeSort ((a ++ b).zipIdx 0) (zipIdxLE le) = merge A B (zipIdxLE le) := by
    refine Perm.eq_of_pairwise (le := fun x y => zipIdxLE le x y = true) ?_ ?_ ?_ ?_
    · intro x y hx hy h1 h2
      have hx' := mem_mergeSort.mp hx
      have hy' : y ∈ (a ++ b).zipIdx 0 := by
        have := (merge_perm_append (zipIdxLE le) (xs := A) (ys := B)).mem_iff.mp hy
        rw [zipIdx_append]
        simp only [mem_append] at this ⊢
        rcases this with h | h
        · exact Or.inl (mem_mergeSort.mp h)
        · exact Or.inr (by simpa using mem_mergeSort.mp h)
      exact zipIdx_antisymm (le := le) (a ++ b) 0 x y hx' hy' h1 h2
    · exact pairwise_mergeSort ht htt _
    · exact pairwise_merge ht htt A B (pairwise_mergeSort ht htt _) (pairwise_mergeSort ht htt _)
    · refine (mergeSort_perm _ _).trans ?_
      rw [zipIdx_append]
      refine Perm.trans ?_ (merge_perm_append (zipIdxLE le)).symm
      exact ((mergeSort_perm _ _).symm.append (by simpa using (mergeSort_perm (b.zipIdx a.length) (zipIdxLE le)).symm))
  rw [← hW]
  exact (mergeSort_zipIdx_off (le := le) 0 (a ++ b))
end
end Zed
namespace Zed
open List
section
variable {α : Type} (le : α → α → Bool)

def totalLen (runs : List (List α)) : Nat := (runs.map List.length).sum

theorem minRun_none_of_total_zero : (rs : List (List α)) → totalLen rs = 0 → minRun le rs = none
  | [], _ => rfl
  | [] :: rs, h => by
    have : totalLen rs = 0 := by simpa [totalLen] using h
    simp [minRun, minRun_none_of_total_zero rs this]
  | (x :: r) :: rs, h => by simp [totalLen] at h

theorem kmergeF_none (rs : List (List α)) (h : minRun le rs = none) : (f : Nat) → kmergeF le f rs = []
  | 0 => rfl
  | f+1 => by simp [kmergeF, h]

theorem total_popRun : (rs : List (List α)) → (i : Nat) → (y : α) → minRun le rs = some (i, y) →
    totalLen (popRun i rs) + 1 = totalLen rs
  | [], _, _, h => by simp [minRun] at h
  | [] :: rs, i, y, h => by
    simp only [minRun, Option.map_eq_some_iff] at h
    obtain ⟨⟨j, z⟩, hj, he⟩ := h
    simp only [Prod.mk.injEq] at he
    obtain ⟨rfl, rfl⟩ := he
    have := total_popRun rs j z hj
    simp only [popRun, totalLen, map_cons, length_nil, sum_cons, Nat.zero_add] at this ⊢
    exact this
  | (x :: r) :: rs, i, y, h => by
    simp only [minRun] at h
    cases hm : minRun le rs with
    | none =>
      simp only [hm, Option.some.injEq, Prod.mk.injEq] at h
      obtain ⟨rfl, rfl⟩ := h
      simp [popRun, totalLen]; omega
    | some p =>
      obtain ⟨j, z⟩ := p
      simp only [hm] at h
      split at h
      · simp only [Option.some.injEq, Prod.mk.injEq] at h
        obtain ⟨rfl, rfl⟩ := h
        simp [popRun, totalLen]; omega
      · simp only [Option.some.injEq, Prod.mk.injEq] at h
        obtain ⟨rfl, rfl⟩ := h
        have := total_popRun rs j z hm
        simp only [popRun, totalLen, map_cons, length_cons, sum_cons] at this ⊢
        omega

theorem kmergeF_fuel : (f : Nat) → (rs : List (List α)) → totalLen rs ≤ f →
    kmergeF le f rs = kmergeF le (f + 1) rs
  | 0, rs, h => by
    have := minRun_none_of_total_zero le rs (by omega)
    simp [kmergeF, this]
  | f+1, rs, h => by
    rw [kmergeF, kmergeF]
    cases hm : minRun le rs with
    | none => rfl
    | some p =>
      obtain ⟨i, x⟩ := p
      simp only
      have := total_popRun le rs i x hm
      rw [kmergeF_fuel f (popRun i rs) (by omega)]

theorem merge_nil_right' (l : List α) : merge l [] le = l := by
  cases l <;> simp [merge]

/-- the k-way selection is the nested two-way merge -/
theorem kmergeF_cons : (f : Nat) → (r : List α) → (rs : List (List α)) → r.length + totalLen rs ≤ f →
    kmergeF le f (r :: rs) = merge r (kmergeF le f rs) le
  | 0, r, rs, h => by
    have hr : r = [] := by cases r <;> simp_all
    subst hr; simp [kmergeF, merge]
  | f+1, [], rs, h => by
    rw [kmergeF, kmergeF]
    simp only [minRun]
    cases hm : minRun le rs with
    | none => simp [merge]
    | some p =>
      obtain ⟨i, x⟩ := p
      have ht := total_popRun le rs i x hm
      simp only [Option.map_some, popRun, merge]
      rw [kmergeF_cons f [] (popRun i rs) (by simp at h ⊢; omega)]
      simp [merge]
  | f+1, x :: r', rs, h => by
    simp only [length_cons] at h
    rw [kmergeF]
    simp only [minRun]
    cases hm : minRun le rs with
    | none =>
      simp only [popRun, tail_cons]
      rw [kmergeF_cons f r' rs (by omega), kmergeF_none le rs hm, kmergeF_none le rs hm]
      simp [merge_nil_right']
    | some p =>
      obtain ⟨i, y⟩ := p
      have ht := total_popRun le rs i y hm
      have hk : kmergeF le (f + 1) rs = y :: kmergeF le f (popRun i rs) := by
        rw [kmergeF]; simp only [hm]
      simp only
      by_cases hxy : le x y = true
      · simp only [hxy, if_true, popRun, tail_cons]
        rw [kmergeF_cons f r' rs (by omega), kmergeF_fuel le f rs (by omega), hk,
          cons_merge_cons, if_pos hxy]
      · have hxy' : le x y = false := by simpa using hxy
        simp only [hxy', Bool.false_eq_true, if_false, popRun]
        rw [kmergeF_cons f (x :: r') (popRun i rs) (by simp; omega), hk,
          cons_merge_cons, if_neg hxy]

theorem kmerge_cons (r : List α) (rs : List (List α)) :
    kmerge le (r :: rs) = merge r (kmerge le rs) le := by
  unfold kmerge
  have e : ((r :: rs).map List.length).sum = r.length + totalLen rs := by simp [totalLen]
  rw [e, kmergeF_cons le _ r rs (Nat.le_refl _)]
  congr 1
  -- extra fuel is harmless
  have : ∀ k, kmergeF le (totalLen rs + k) rs = kmergeF le (totalLen rs) rs := by
    intro k
    induction k with
    | zero => rfl
    | succ k ih => rw [← ih, ← Nat.add_assoc, ← kmergeF_fuel le _ rs (by omega)]
  rw [Nat.add_comm]; exact this _

/-- **spill invariance** for any total and transitive `le` -/
theorem kmerge_sorted_chunks
    (trans : ∀ (a b c : α), le a b → le b c → le a c) (total : ∀ (a b : α), le a b || le b a) :
    (chunks : List (List α)) → kmerge le (chunks.map fun c => mergeSort c le) = mergeSort chunks.flatten le
  | [] => by simp [kmerge, kmergeF, minRun]
  | c :: cs => by
    rw [map_cons, kmerge_cons, kmerge_sorted_chunks trans total cs, flatten_cons]
    exact merge_mergeSort_append trans total c cs.flatten

end
end Zed
