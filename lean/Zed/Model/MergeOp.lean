import Zed.Model.Compare
import Zed.Generated.C06
/-!
  `merge.Op` (runtime/sam/op/merge/merge.go) as a checker of observed runs.

  State: for every parent the batches it still has to deliver, the first one being the rest of the
  batch that is currently at the head of line (`puller.vals`); a parent with no batch left is at
  EOS (not in the heap).  Batches are non-empty (`MNoEmpty`).

  One `Pull` either

  * *batch path*: pops a parent whose head is minimal (`minHead` — which one among equal heads is the
    heap's business) and, when that parent is alone or the last value of the rest of its batch is
    `≤` every other head (`batchRule`: `o.Len() == 0 || o.cmp(min.vals[len-1], o.hol[0].vals[0]) <= 0`),
    returns that rest as one batch and replenishes; or
  * *read path*: some minimal parent fails the rule; then `zbuf.NewPuller(o).Pull(false)` calls
    `Read` until `PullerBatchValues` values are collected or every parent is exhausted; every
    `Read` takes one value from a parent whose head is minimal and replenishes when its batch
    is used up.

  `acceptRun` replays an observed sequence of output batches (for every value the parent it came
  from) against these rules; the harness sends what the real `merge.Op` did.
-/
namespace Zed

abbrev MState (α : Type) := List (List (List α))

def MNoEmpty {α} (ps : MState α) : Prop := ∀ p ∈ ps, ∀ b ∈ p, b ≠ []

section
variable {α : Type} (le : α → α → Bool)

def headOf : List (List α) → Option α
  | (x :: _) :: _ => some x
  | _ => none

/-- every live parent other than `i` has a head `≥ x` -/
def othersGe (ps : MState α) (i : Nat) (x : α) : Bool :=
  ps.zipIdx.all fun (q, j) => j == i || match headOf q with | none => true | some y => le x y

/-- parent `i` may be what `heap.Pop` / `hol[0]` returns -/
def minHead (ps : MState α) (i : Nat) : Bool :=
  match (ps[i]?).bind headOf with
  | none => false
  | some x => othersGe le ps i x

/-- `o.Len() == 0 || o.cmp(min.vals[len(min.vals)-1], o.hol[0].vals[0]) <= 0` with `min` = parent `i`
    (the heap's top after the pop is a minimal head of the others, so `≤ top` is `≤ all`) -/
def batchRule (ps : MState α) (i : Nat) : Bool :=
  match ps[i]? with
  | some ((x :: r) :: _) => othersGe le ps i ((x :: r).getLast (by simp))
  | _ => false

def popBatch (ps : MState α) (i : Nat) : MState α := ps.modify i List.tail

def popOneP : List (List α) → List (List α)
  | (_ :: []) :: bs => bs
  | (_ :: y :: r) :: bs => (y :: r) :: bs
  | p => p

def popOne (ps : MState α) (i : Nat) : MState α := ps.modify i popOneP

def exhausted (ps : MState α) : Bool := ps.all fun p => (headOf p).isNone

/-- the `Read` calls of one read-path `Pull` -/
def replayReads : MState α → List Nat → Option (List α × MState α)
  | ps, [] => some ([], ps)
  | ps, i :: rest =>
    if minHead le ps i then
      match (ps[i]?).bind headOf with
      | some x => (replayReads (popOne ps i) rest).map fun (vs, ps') => (x :: vs, ps')
      | none => none
    else none

def sameParent : List Nat → Option Nat
  | [] => none
  | i :: r => if r.all (· == i) then some i else none

def acceptBatchPath (ps : MState α) (obs : List Nat) : Option (List α × MState α) :=
  match sameParent obs with
  | none => none
  | some i =>
    match ps[i]? with
    | some (b :: _) =>
      if b.length == obs.length && minHead le ps i && batchRule le ps i then some (b, popBatch ps i) else none
    | _ => none

def acceptReadPath (limit : Nat) (ps : MState α) (obs : List Nat) : Option (List α × MState α) :=
  if obs.isEmpty || obs.length > limit then none
  else if !((List.range ps.length).any fun q => minHead le ps q && !batchRule le ps q) then none
  else match replayReads le ps obs with
    | some (vs, ps') => if obs.length == limit || exhausted ps' then some (vs, ps') else none
    | none => none

def acceptPull (limit : Nat) (ps : MState α) (obs : List Nat) : Option (List α × MState α) :=
  match acceptBatchPath le ps obs with
  | some r => some r
  | none => acceptReadPath le limit ps obs

/-- replay of all `Pull`s up to EOS (which `merge.Op` reports exactly when the heap is empty) -/
def acceptRun (limit : Nat) : MState α → List (List Nat) → Option (List (List α))
  | ps, [] => if exhausted ps then some [] else none
  | ps, o :: os =>
    match acceptPull le limit ps o with
    | some (vs, ps') => (acceptRun limit ps' os).map (vs :: ·)
    | none => none

/-- index of the first `Pull` the rules do not allow -/
def rejectAt (limit : Nat) : MState α → List (List Nat) → Nat → Nat
  | _, [], k => k
  | ps, o :: os, k =>
    match acceptPull le limit ps o with
    | some (_, ps') => rejectAt limit ps' os (k + 1)
    | none => k
end

def pullerBatchValues : Nat := Zed.Generated.C06.pullerBatchValues

/-- `Comparator.Compare(a, b) <= 0` -/
def leRowM (nm : Bool) (dirs : List Bool) (a b : Row) : Bool := cmpRow nm dirs a b != .gt

end Zed
