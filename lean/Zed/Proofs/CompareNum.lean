import Zed.Model.Compare
import Zed.Proofs.Order
namespace Zed
open Zed.Ord

/-! ### floats -/
theorem cmpF_refl : (a : FVal) → cmpF a a = .eq
  | .nan | .ninf | .pinf => by decide
  | .fin z => by simp [cmpF]

theorem cmpF_swap : (a b : FVal) → cmpF b a = (cmpF a b).swap
  | .fin x, .fin y => by simp only [cmpF]; exact compare_int_swap x y
  | .nan, .nan | .nan, .ninf | .nan, .pinf | .ninf, .nan | .ninf, .ninf | .ninf, .pinf
  | .pinf, .nan | .pinf, .ninf | .pinf, .pinf => by decide
  | .nan, .fin _ | .ninf, .fin _ | .pinf, .fin _ | .fin _, .nan | .fin _, .ninf | .fin _, .pinf => by
    simp [cmpF, FVal.rank, Ordering.swap]; try decide

def FVal.z : FVal → Int
  | .fin z => z
  | _ => 0

theorem cmpF_eq_lex (a b : FVal) : cmpF a b = (compare a.rank b.rank).then (compare a.z b.z) := by
  cases a <;> cases b <;> simp [cmpF, FVal.rank, FVal.z, Ordering.then] <;> decide

theorem cmpF_STr (a b c : FVal) : STr (cmpF a b) (cmpF b c) (cmpF a c) := by
  simp only [cmpF_eq_lex]
  exact STr.then (STr_compare_nat _ _ _) (fun _ _ => STr_compare_int _ _ _)

/-! ### exact keys -/
theorem scale_pos : 0 < scale := by unfold scale; exact Nat.pow_pos (by decide)

/-- the exact value of a number, on the scale of `FVal` -/
def Num.key : Num → FVal
  | .float f => f
  | .uint u => .fin ((u : Int) * (scale : Int))
  | .int i => .fin (i * (scale : Int))

theorem roundNat_of_le (n : Nat) (h : n ≤ 2 ^ 53) : roundNat n = n := by
  by_cases h' : n < 2 ^ 53
  · simp [roundNat, h']
  · have : n = 2 ^ 53 := by omega
    subst this; decide

theorem toF_eq_key (a : Num) (h : IntSafe a = true) : a.toF = a.key := by
  cases a with
  | float f => rfl
  | uint u =>
    simp only [IntSafe, decide_eq_true_eq] at h
    simp only [Num.toF, Num.key, roundNat_of_le u h]
  | int i =>
    simp only [IntSafe, decide_eq_true_eq] at h
    simp only [Num.toF, Num.key]
    generalize scale = s
    split
    · rename_i hneg
      rw [roundNat_of_le _ h, Int.natCast_mul]
      have : (i.natAbs : Int) = -i := by omega
      rw [this, Int.neg_mul, Int.neg_neg]
    · rename_i hpos
      have h2 : i.toNat ≤ 2 ^ 53 := by omega
      rw [roundNat_of_le _ h2, Int.natCast_mul]
      have : (i.toNat : Int) = i := by omega
      rw [this]

theorem compare_mul_scale (x y : Int) : compare (x * (scale : Int)) (y * (scale : Int)) = compare x y := by
  have hs : (0 : Int) < (scale : Int) := by exact_mod_cast scale_pos
  rcases Int.lt_trichotomy x y with h | h | h
  · rw [Int.compare_eq_lt.mpr h, Int.compare_eq_lt.mpr (Int.mul_lt_mul_of_pos_right h hs)]
  · subst h; simp
  · rw [Int.compare_eq_gt.mpr h, Int.compare_eq_gt.mpr (Int.mul_lt_mul_of_pos_right h hs)]

theorem cmpNum_eq_exact (a b : Num) (h : NumOK a b) : cmpNum a b = cmpF a.key b.key := by
  cases a with
  | float x =>
    have := (h (Or.inl rfl)).2
    simp [cmpNum, Num.key, toF_eq_key b this]
  | int i =>
    cases b with
    | float y =>
      have := (h (Or.inr rfl)).1
      simp only [cmpNum]; rw [toF_eq_key _ this]; rfl
    | int j => simp only [cmpNum, Num.key, cmpF]; exact (compare_mul_scale i j).symm
    | uint u =>
      simp only [cmpNum, Num.key, cmpF]
      rw [compare_mul_scale]
      split
      · rename_i hneg; exact (Int.compare_eq_lt.mpr (by omega)).symm
      · rename_i hpos
        rcases Nat.lt_trichotomy i.toNat u with h1 | h1 | h1
        · rw [Nat.compare_eq_lt.mpr h1, Int.compare_eq_lt.mpr (by omega)]
        · rw [Nat.compare_eq_eq.mpr h1, Int.compare_eq_eq.mpr (by omega)]
        · rw [Nat.compare_eq_gt.mpr h1, Int.compare_eq_gt.mpr (by omega)]
  | uint u =>
    cases b with
    | float y =>
      have := (h (Or.inr rfl)).1
      simp only [cmpNum]; rw [toF_eq_key _ this]; rfl
    | int j =>
      simp only [cmpNum, Num.key, cmpF]
      rw [compare_mul_scale]
      split
      · rename_i hneg; exact (Int.compare_eq_gt.mpr (by omega)).symm
      · rename_i hpos
        rcases Nat.lt_trichotomy u j.toNat with h1 | h1 | h1
        · rw [Nat.compare_eq_lt.mpr h1, Int.compare_eq_lt.mpr (by omega)]
        · rw [Nat.compare_eq_eq.mpr h1, Int.compare_eq_eq.mpr (by omega)]
        · rw [Nat.compare_eq_gt.mpr h1, Int.compare_eq_gt.mpr (by omega)]
    | uint v =>
      simp only [cmpNum, Num.key, cmpF]
      rw [compare_mul_scale]
      rcases Nat.lt_trichotomy u v with h1 | h1 | h1
      · rw [Nat.compare_eq_lt.mpr h1, Int.compare_eq_lt.mpr (by omega)]
      · rw [Nat.compare_eq_eq.mpr h1, Int.compare_eq_eq.mpr (by omega)]
      · rw [Nat.compare_eq_gt.mpr h1, Int.compare_eq_gt.mpr (by omega)]

end Zed
