/-
  Helper lemmas for the lake model (C13 / C14 / C15): the commit store is append-only,
  snapshots of existing commits do not change when commits are appended, elementary facts
  about `Snap.addObj / delObj`.  Core Lean only.
-/
import Zed.Model.LakeOps
namespace Zed.Lake
variable {K V : Type}

/-! ### snapshots of an append-only commit store -/

theorem snapsOf_append (cs : List (Commit K)) (c : Commit K) :
    snapsOf (cs ++ [c]) = stepSnaps (snapsOf cs) c := by
  simp [snapsOf, List.foldl_append]

theorem foldl_stepSnaps_length (cs : List (Commit K)) (acc : List (Except Err (Snap K))) :
    (cs.foldl stepSnaps acc).length = acc.length + cs.length := by
  induction cs generalizing acc with
  | nil => simp
  | cons c cs ih => simp [List.foldl_cons, ih, stepSnaps]; omega

theorem snapsOf_length (cs : List (Commit K)) : (snapsOf cs).length = cs.length := by
  simp [snapsOf, foldl_stepSnaps_length]

theorem parentSnap_append (acc : List (Except Err (Snap K))) (x : Except Err (Snap K)) (p : Nat)
    (h : p ≤ acc.length) : parentSnap (acc ++ [x]) p = parentSnap acc p := by
  unfold parentSnap
  by_cases hp : p = 0
  · simp [hp]
  · simp only [hp, if_false]
    have : p - 1 < acc.length := by omega
    rw [List.getElem?_append_left this]

/-- appending a commit does not change the snapshot of any existing commit -/
theorem snapAt_append (cs : List (Commit K)) (c : Commit K) (k : Nat) (h : k ≤ cs.length) :
    snapAt (cs ++ [c]) k = snapAt cs k := by
  unfold snapAt
  rw [snapsOf_append, stepSnaps]
  exact parentSnap_append _ _ _ (by rw [snapsOf_length]; exact h)

/-- the snapshot of the appended commit is the parent's snapshot with its actions played -/
theorem snapAt_new (cs : List (Commit K)) (c : Commit K) :
    snapAt (cs ++ [c]) (cs.length + 1) = commitSnap (snapsOf cs) c := by
  unfold snapAt
  rw [snapsOf_append, stepSnaps, parentSnap]
  have h1 : cs.length + 1 ≠ 0 := by omega
  simp only [h1, if_false, Nat.add_sub_cancel]
  have : (snapsOf cs).length = cs.length := snapsOf_length cs
  rw [List.getElem?_append_right (by omega)]
  simp [this]

theorem commitSnap_eq (cs : List (Commit K)) (c : Commit K) :
    commitSnap (snapsOf cs) c = match snapAt cs c.parent with
      | .ok s => play s c.acts
      | .error e => .error e := rfl

/-! ### state-level facts -/

theorem setTip_commits (s : State K V) (b t : Nat) : (s.setTip b t).commits = s.commits := rfl
theorem setTip_files (s : State K V) (b t : Nat) : (s.setTip b t).files = s.files := rfl
theorem setTip_nextObj (s : State K V) (b t : Nat) : (s.setTip b t).nextObj = s.nextObj := rfl

theorem commit_commits (s : State K V) (b p : Nat) (acts : List (Action K)) :
    (s.commit b p acts).commits = s.commits ++ [{ parent := p, acts := acts }] := rfl
theorem commit_files (s : State K V) (b p : Nat) (acts : List (Action K)) :
    (s.commit b p acts).files = s.files := rfl
theorem commit_nextObj (s : State K V) (b p : Nat) (acts : List (Action K)) :
    (s.commit b p acts).nextObj = s.nextObj := rfl

theorem writeObjs_commits (cfg : Cfg K V) (s : State K V) (parts : List (List V)) :
    (writeObjs cfg s parts).1.commits = s.commits := by
  induction parts generalizing s with
  | nil => rfl
  | cons p ps ih =>
    unfold writeObjs
    split
    · exact ih s
    · simp only []
      rw [ih]

theorem writeObjs_branches (cfg : Cfg K V) (s : State K V) (parts : List (List V)) :
    (writeObjs cfg s parts).1.branches = s.branches := by
  induction parts generalizing s with
  | nil => rfl
  | cons p ps ih =>
    unfold writeObjs
    split
    · exact ih s
    · simp only []
      rw [ih]

/-- files are only appended by the writers -/
theorem writeObjs_files (cfg : Cfg K V) (s : State K V) (parts : List (List V)) :
    ∃ ext, (writeObjs cfg s parts).1.files = s.files ++ ext := by
  induction parts generalizing s with
  | nil => exact ⟨[], by simp [writeObjs]⟩
  | cons p ps ih =>
    unfold writeObjs
    split
    · exact ih s
    · simp only []
      obtain ⟨ext, h⟩ := ih { s with files := s.files ++ [(s.nextObj, p)], nextObj := s.nextObj + 1 }
      exact ⟨(s.nextObj, p) :: ext, by rw [h]; simp⟩

theorem fileOf_append (files ext : List (Nat × List V)) (id : Nat) (p : List V)
    (h : fileOf files id = some p) : fileOf (files ++ ext) id = some p := by
  unfold fileOf at *
  rw [List.find?_append]
  cases hf : files.find? (·.1 == id) with
  | none => simp [hf] at h
  | some x => simpa [hf] using h

end Zed.Lake
