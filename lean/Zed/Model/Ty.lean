import Zed.Model.Zcode
import Zed.Generated.C05
/-!
  L1 — structural Zed types (`type.go`, `complex.go`).  A `Ty` is the *structure* of a
  `zed.Type`; identity inside a context (pointer / id) is the business of `TyContext`.
  Record fields and union members are explicit mutual lists so that structural recursion,
  `deriving DecidableEq` and mutual induction work.
-/
namespace Zed

mutual
inductive Ty where
  | prim (id : Nat)
  | record (fs : Fields)
  | array (t : Ty)
  | set (t : Ty)
  | map (k v : Ty)
  | union (ts : Tys)
  | enum (syms : List Name)
  | error (t : Ty)
  | named (n : Name) (t : Ty)
inductive Fields where
  | nil
  | cons (n : Name) (t : Ty) (rest : Fields)
inductive Tys where
  | nil
  | cons (t : Ty) (rest : Tys)
end

deriving instance DecidableEq for Ty, Fields, Tys
deriving instance Repr for Ty, Fields, Tys
instance : Inhabited Ty := ⟨.prim 29⟩

namespace Fields
def toList : Fields → List (Name × Ty)
  | .nil => []
  | .cons n t r => (n, t) :: r.toList
def ofList : List (Name × Ty) → Fields
  | [] => .nil
  | (n, t) :: r => .cons n t (ofList r)
def length : Fields → Nat
  | .nil => 0
  | .cons _ _ r => r.length + 1
def names : Fields → List Name
  | .nil => []
  | .cons n _ r => n :: r.names
end Fields

namespace Tys
def toList : Tys → List Ty
  | .nil => []
  | .cons t r => t :: r.toList
def ofList : List Ty → Tys
  | [] => .nil
  | t :: r => .cons t (ofList r)
def length : Tys → Nat
  | .nil => 0
  | .cons _ r => r.length + 1
end Tys

namespace Ty

/-- `zed.TypeUnder` -/
def under : Ty → Ty
  | .named _ t => t.under
  | t => t

def isNamed : Ty → Bool
  | .named _ _ => true
  | _ => false

def kindIdx (k : String) : Nat := (Generated.C05.kinds.idxOf k)

/-- `Type.Kind()` as its position in the `Kind` iota block (regenerated). -/
def kind : Ty → Nat
  | .prim _ => kindIdx "PrimitiveKind"
  | .record _ => kindIdx "RecordKind"
  | .array _ => kindIdx "ArrayKind"
  | .set _ => kindIdx "SetKind"
  | .map _ _ => kindIdx "MapKind"
  | .union _ => kindIdx "UnionKind"
  | .enum _ => kindIdx "EnumKind"
  | .error _ => kindIdx "ErrorKind"
  | .named _ t => t.kind

/-- The primitive id when the underlying type is primitive (`Type.ID()` for those);
    complex types have context-dependent ids ≥ `IDTypeComplex`. -/
def primId? (t : Ty) : Option Nat :=
  match t.under with
  | .prim id => some id
  | _ => none

/-- `zed.InnerType` -/
def inner? (t : Ty) : Option Ty :=
  match t.under with
  | .array e => some e
  | .set e => some e
  | _ => none

def isComplex : Ty → Bool
  | .prim _ => false
  | _ => true

end Ty

def int64 : Ty := .prim 9
def str (s : String) : Name := s.toUTF8.toList

end Zed
